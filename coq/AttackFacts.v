(* AttackFacts.v — attack and check queries are geometrically exact for both sides (C08). *)
From Coq Require Import NArith ZArith List Bool Lia Btauto.
From Coq Require Import ZifyBool ZifyN ZifyNat.
From LC Require Import Bits BitsFacts Types BitboardModel BitboardFacts MagicModel MagicFacts PositionModel BoardFacts
  Spec.Rules Refine.Abs Refine.Board Refine.Wf Refine.MakeAbs.
Import ListNotations.
Local Open Scope N_scope.

Lemma side_eqb_true a b : side_eqb a b = true -> a = b. Proof. destruct a, b; simpl; intros H; try reflexivity; discriminate. Qed.

(* the specification's board of a mailbox function *)
Definition board_of (f : mb) : sboard := map f all64.
Lemma at_board_of f q : q < 64 -> at_sq (board_of f) q = f q.
Proof. apply at_sq_map. Qed.
Lemma abs_board_of p : abs_board p = board_of (cell_of p). Proof. reflexivity. Qed.

(* ----- finite geometry, all 64 x 64 pairs ----- *)
Lemma pawn_attack_sweep :
  forallb (fun sq => forallb (fun a =>
     Bool.eqb (N.testbit (N.lor (east (south (bit sq))) (west (south (bit sq)))) a) (piece_attacks [] White Pawn a sq) &&
     Bool.eqb (N.testbit (N.lor (east (north (bit sq))) (west (north (bit sq)))) a) (piece_attacks [] Black Pawn a sq) &&
     Bool.eqb (piece_attacks [] White Knight sq a) (piece_attacks [] White Knight a sq) &&
     Bool.eqb (piece_attacks [] White King sq a) (piece_attacks [] White King a sq) &&
     Bool.eqb (same_diag sq a) (same_diag a sq) && Bool.eqb (same_line sq a) (same_line a sq) &&
     list_eqb (between sq a) (rev (between a sq)) && forallb (fun x => x <? 64) (between a sq)) all64) all64 = true.
Proof. vm_compute. reflexivity. Qed.

Lemma sweep_at sq a : sq < 64 -> a < 64 ->
  N.testbit (N.lor (east (south (bit sq))) (west (south (bit sq)))) a = piece_attacks [] White Pawn a sq /\
  N.testbit (N.lor (east (north (bit sq))) (west (north (bit sq)))) a = piece_attacks [] Black Pawn a sq /\
  piece_attacks [] White Knight sq a = piece_attacks [] White Knight a sq /\
  piece_attacks [] White King sq a = piece_attacks [] White King a sq /\
  same_diag sq a = same_diag a sq /\ same_line sq a = same_line a sq /\
  between sq a = rev (between a sq) /\ (forall x, In x (between a sq) -> x < 64).
Proof.
  intros Hs Ha. pose proof (forallb_all64 _ (forallb_all64 _ pawn_attack_sweep sq Hs) a Ha) as H. cbv beta in H.
  repeat (apply andb_true_iff in H; let H' := fresh "W" in destruct H as [H H']).
  repeat match goal with H : Bool.eqb _ _ = true |- _ => apply eqb_prop in H end.
  apply list_eqb_eq in W0. repeat split; try assumption.
  intros x Hx. rewrite forallb_forall in W. specialize (W x Hx). lia.
Qed.

(* the pawn / leaper clauses of piece_attacks never look at the board *)
Lemma piece_attacks_board_irrelevant b b' s pc a q :
  match pc with Pawn | Knight | King | NoPiece => True | _ => False end -> piece_attacks b s pc a q = piece_attacks b' s pc a q.
Proof. destruct pc; intros H; try contradiction; reflexivity. Qed.

Lemma forallb_rev {A} (P : A -> bool) l : forallb P (rev l) = forallb P l.
Proof. induction l as [|x r IH]; [reflexivity|]. cbn [rev forallb]. rewrite forallb_app, IH. cbn [forallb]. rewrite andb_true_r. apply andb_comm. Qed.

(* occupancy as the mailbox sees it *)
Lemma occupied_rep p f q : rep (brd p) f -> q < 64 -> N.testbit (occupied p) q = match f q with Some _ => true | None => false end.
Proof.
  intros [H _] Hq. destruct (H q Hq) as [[Hc _] _]. unfold occupied, occupancy_s. rewrite N.lor_spec, !Hc.
  destruct (f q) as [[[] pc]|]; reflexivity.
Qed.
Lemma occupied_lt p : board_lt (brd p) -> occupied p < two64.
Proof. intros H. unfold occupied, occupancy_s. apply lor_lt; apply colour_lt; exact H. Qed.
Lemma not_not_occ p : board_lt (brd p) -> not64 (empty_sqs p) = occupied p.
Proof.
  intros H. unfold empty_sqs. apply N.bits_inj. intros i. rewrite !not64_spec.
  destruct (N.ltb_spec i 64) as [Hi|Hi]; cbn [andb]; [rewrite negb_involutive; reflexivity|].
  symmetry. apply (proj1 (lt64_iff _) (occupied_lt p H)). exact Hi.
Qed.

Lemma clear_on_all_empty p f l : rep (brd p) f -> (forall x, In x l -> x < 64) ->
  clear_on (occupied p) l = all_empty (board_of f) l.
Proof.
  intros Hrep Hl. unfold clear_on, all_empty. induction l as [|x r IH]; [reflexivity|]. cbn [forallb].
  rewrite IH by (intros y Hy; apply Hl; right; exact Hy). f_equal.
  assert (Hx : x < 64) by (apply Hl; left; reflexivity).
  unfold is_empty. rewrite at_board_of by exact Hx. rewrite (occupied_rep p f x Hrep Hx). destruct (f x); reflexivity.
Qed.

Lemma pieces_rep p f s pc q : rep (brd p) f -> q < 64 -> pc <> NoPiece ->
  N.testbit (pieces p s pc) q = match f q with Some (c, pc') => side_eqb s c && piece_eqb pc pc' | None => false end.
Proof.
  intros [H _] Hq Hp. destruct (H q Hq) as [[Hc Hpc] _]. unfold pieces, occupancy_s, occupancy_p. rewrite N.land_spec, Hc, Hpc by exact Hp.
  destruct (f q) as [[c pc']|]; reflexivity.
Qed.

(* ----- attackers(sq, s): exactly the pieces of s that attack sq ----- *)
Theorem attackers_exact p f sq s a : rep (brd p) f -> sq < 64 -> a < 64 ->
  N.testbit (attackers p sq s) a =
  match f a with Some (c, pc) => side_eqb c s && piece_attacks (board_of f) c pc a sq | None => false end.
Proof.
  intros Hrep Hs Ha. pose proof Hrep as [_ Hlt].
  destruct (sweep_at sq a Hs Ha) as (P1 & P2 & P3 & P4 & P5 & P6 & P7 & P8).
  unfold attackers. rewrite (not_not_occ p Hlt).
  assert (Epawn : N.testbit (match s with
       | White => N.lor (N.land (pieces p s Pawn) (east (south (bit sq)))) (N.land (pieces p s Pawn) (west (south (bit sq))))
       | Black => N.lor (N.land (pieces p s Pawn) (east (north (bit sq)))) (N.land (pieces p s Pawn) (west (north (bit sq)))) end) a
     = N.testbit (pieces p s Pawn) a && piece_attacks [] s Pawn a sq).
  { destruct s; rewrite N.lor_spec, !N.land_spec, <- andb_orb_distrib_r, <- N.lor_spec; [rewrite P1|rewrite P2]; reflexivity. }
  rewrite !N.lor_spec, Epawn, !N.land_spec, !N.lor_spec.
  rewrite (knight_moves_geometric sq a [] White Hs Ha), (king_moves_geometric sq a [] White Hs Ha), P3, P4.
  rewrite (bishop_moves_geometric sq _ a Hs Ha), (rook_moves_geometric sq _ a Hs Ha), P5, P6, P7.
  unfold clear_on at 1 2. rewrite !forallb_rev. fold (clear_on (occupied p) (between a sq)).
  rewrite (clear_on_all_empty p f _ Hrep P8).
  rewrite !(pieces_rep p f s _ a Hrep Ha) by discriminate.
  rewrite (N.eqb_sym sq a).
  destruct (f a) as [[c pc]|]; [|cbn; rewrite ?andb_false_r; reflexivity].
  rewrite (side_eqb_sym_lemma c s).
  destruct (side_eqb s c) eqn:Es; [|cbn; rewrite ?andb_false_r; reflexivity].
  apply side_eqb_true in Es. subst c.
  destruct pc; cbn [piece_eqb piece_to_N N.eqb Pos.eqb andb orb piece_attacks];
    rewrite ?andb_false_r, ?orb_false_r, ?orb_false_l, ?andb_true_l, ?andb_true_r; try reflexivity;
    try (destruct s; reflexivity); try btauto.
Qed.

Lemma attackers_lt p sq s : board_lt (brd p) -> attackers p sq s < two64.
Proof.
  intros H. unfold attackers.
  assert (Hp : forall pc, pieces p s pc < two64) by (intros pc; unfold pieces; apply land_lt, colour_lt, H).
  repeat apply lor_lt; try (destruct s; apply lor_lt; apply land_lt, Hp);
    try (rewrite N.land_comm; apply land_lt, Hp); try (rewrite N.land_comm; apply land_lt, lor_lt; apply Hp).
Qed.

(* iterating over attackers(sq, s) visits exactly the specification's attackers, in ascending order *)
Theorem attackers_list p f sq s : rep (brd p) f -> sq < 64 ->
  bb_squares (attackers p sq s) = attackers_of (board_of f) sq s.
Proof.
  intros Hrep Hs. pose proof Hrep as [_ Hlt]. rewrite bb_squares_members by (apply attackers_lt; exact Hlt).
  unfold attackers_of. rewrite all64_squares. apply filter_ext_in. intros a Ha. apply in_all64 in Ha.
  unfold mem. rewrite (attackers_exact p f sq s a Hrep Hs Ha), at_board_of by exact Ha. reflexivity.
Qed.

Theorem square_attacked_exact p f sq s : rep (brd p) f -> sq < 64 -> square_attacked p sq s = attacked (board_of f) sq s.
Proof.
  intros Hrep Hs. pose proof Hrep as [_ Hlt]. unfold square_attacked, attacked. rewrite <- (attackers_list p f sq s Hrep Hs). f_equal.
  unfold bb_empty. destruct (N.eqb_spec (attackers p sq s) 0) as [E|E].
  - rewrite E. reflexivity.
  - destruct (bb_squares (attackers p sq s)) eqn:El; [|reflexivity]. exfalso. apply E.
    apply N.bits_inj. intros i. rewrite N.bits_0. destruct (N.testbit (attackers p sq s) i) eqn:Eb; [|reflexivity].
    assert (In i (bb_squares (attackers p sq s))) by (unfold bb_squares; apply bits_spec; [apply attackers_lt; exact Hlt|exact Eb]).
    rewrite El in H. destruct H.
Qed.

(* the king square: the lowest member of the king set is the first king the specification finds *)
Lemma find_first (P : N -> bool) l k : find P l = Some k -> ascending l -> P k = true /\ In k l /\ forall j, In j l -> P j = true -> k <= j.
Proof.
  induction l as [|x r IH]; intros H Hasc; [discriminate|]. cbn [find] in H. destruct (P x) eqn:E.
  - inversion H; subst. split; [exact E|]. split; [left; reflexivity|]. intros j [<-|Hj] _; [lia|].
    pose proof (ascending_tail_gt r k j Hasc Hj). lia.
  - assert (Hr : ascending r) by (inversion Hasc; subst; [constructor|assumption]).
    destruct (IH H Hr) as (H1 & H2 & H3). split; [exact H1|]. split; [right; exact H2|]. intros j [<-|Hj] Hp; [congruence|apply H3; assumption].
Qed.

Theorem king_position_exact p f s k : rep (brd p) f -> find_king (board_of f) s = Some k -> king_position p s = k /\ k < 64 /\ f k = Some (s, King).
Proof.
  intros Hrep Hf. pose proof Hrep as [_ Hlt]. unfold find_king in Hf. rewrite all64_squares in Hf.
  destruct (find_first _ _ _ Hf ascending_all64) as (Hk & Hin & Hmin). apply in_all64 in Hin.
  rewrite at_board_of in Hk by exact Hin.
  assert (Hfk : f k = Some (s, King)).
  { destruct (f k) as [[c pc]|]; [|discriminate]. destruct pc; try discriminate. apply side_eqb_true in Hk. subst. reflexivity. }
  split; [|split; [exact Hin|exact Hfk]].
  unfold king_position. set (x := pieces p s King).
  assert (Hx : x < two64) by (unfold x, pieces; apply land_lt, colour_lt, Hlt).
  assert (Hbit : N.testbit x k = true) by (unfold x; rewrite (pieces_rep p f s King k Hrep Hin) by discriminate; rewrite Hfk, side_eqb_refl; reflexivity).
  assert (H0 : 0 < x) by (destruct (N.eq_dec x 0) as [E|E]; [rewrite E, N.bits_0 in Hbit; discriminate|lia]).
  destruct (bb_lsb_spec x H0 Hx) as (L1 & L2 & L3).
  destruct (N.lt_trichotomy (bb_lsb x) k) as [Hl|[He|Hg]]; [|exact He|].
  - exfalso. assert (Hm : k <= bb_lsb x).
    { apply Hmin; [apply in_all64; exact L1|]. rewrite at_board_of by exact L1. unfold mem in L2.
      change (N.testbit (pieces p s King) (bb_lsb x) = true) in L2.
      rewrite (pieces_rep p f s King _ Hrep L1) in L2 by discriminate. destruct (f (bb_lsb x)) as [[c pc]|]; [|discriminate].
      apply andb_true_iff in L2. destruct L2 as [A B]. destruct pc; try discriminate. rewrite side_eqb_sym_lemma. exact A. }
    lia.
  - exfalso. pose proof (L3 k Hg) as Hz. unfold mem in Hz. congruence.
Qed.

(* checkers() and in_check(): exactly the enemy pieces attacking the king of the side to move *)
Theorem checkers_exact p f k : rep (brd p) f -> find_king (board_of f) (turn p) = Some k ->
  bb_squares (checkers p) = attackers_of (board_of f) k (opp_side (turn p)).
Proof.
  intros Hrep Hk. destruct (king_position_exact p f _ k Hrep Hk) as (E & Hlt & _). unfold checkers. rewrite E.
  apply attackers_list; assumption.
Qed.
Theorem in_check_exact p f : rep (brd p) f -> (exists k, find_king (board_of f) (turn p) = Some k) ->
  in_check p = king_attacked (board_of f) (turn p).
Proof.
  intros Hrep [k Hk]. destruct (king_position_exact p f _ k Hrep Hk) as (E & Hlt & _).
  unfold in_check, king_attacked. rewrite Hk, E. apply square_attacked_exact; assumption.
Qed.

(* ----- squares_attacked(s) and king_allowed(s): one union, two occupancies ----- *)
Definition pawn_spread (s : side) (pawns : N) : N :=
  match s with
  | White => N.lor (east (north pawns)) (west (north pawns))
  | Black => N.lor (east (south pawns)) (west (south pawns))
  end.
Definition attack_union (p : position) (s : side) (bl : N) (kq : N) : N :=
  let m1 := or_over (bb_squares (pieces p s Knight)) knight_moves (pawn_spread s (pieces p s Pawn)) in
  let m2 := or_over (bb_squares (pieces p s Bishop)) (fun fr => bishop_moves fr bl) m1 in
  let m3 := or_over (bb_squares (pieces p s Rook)) (fun fr => rook_moves fr bl) m2 in
  let m4 := or_over (bb_squares (pieces p s Queen)) (fun fr => queen_moves fr bl) m3 in
  N.lor m4 (king_moves kq).

Lemma squares_attacked_union p s : squares_attacked p s = attack_union p s (not64 (empty_sqs p)) (king_position p s).
Proof. unfold squares_attacked, attack_union, pawn_spread. destruct s; reflexivity. Qed.
Lemma king_allowed_union p s :
  king_allowed_s p s = not64 (N.lor (N.lor (attack_union p (opp_side s) (N.lxor (not64 (empty_sqs p)) (bit (king_position p s))) (king_position p (opp_side s)))
                                           (occupancy_s p s)) (bit (king_position p (opp_side s)))).
Proof. unfold king_allowed_s, attack_union, pawn_spread. destruct s; reflexivity. Qed.

Lemma or_over_spec l F acc q : N.testbit (or_over l F acc) q = N.testbit acc q || existsb (fun fr => N.testbit (F fr) q) l.
Proof.
  unfold or_over. revert acc. induction l as [|x r IH]; intros acc; cbn [fold_left existsb]; [rewrite orb_false_r; reflexivity|].
  rewrite IH, N.lor_spec. rewrite orb_assoc. reflexivity.
Qed.
Lemma existsb_filter {A} (P Q : A -> bool) l : existsb Q (filter P l) = existsb (fun x => P x && Q x) l.
Proof. induction l as [|x r IH]; [reflexivity|]. cbn [filter existsb]. destruct (P x); cbn [existsb andb]; rewrite IH; reflexivity. Qed.
Lemma existsb_orb {A} (P Q : A -> bool) l : existsb (fun x => P x || Q x) l = existsb P l || existsb Q l.
Proof. induction l as [|x r IH]; [reflexivity|]. cbn [existsb]. rewrite IH. destruct (P x), (Q x), (existsb P r), (existsb Q r); reflexivity. Qed.
Lemma existsb_ext_in {A} (P Q : A -> bool) l : (forall x, In x l -> P x = Q x) -> existsb P l = existsb Q l.
Proof. induction l as [|x r IH]; intros H; [reflexivity|]. cbn [existsb]. rewrite (H x (or_introl eq_refl)), IH; [reflexivity|]. intros y Hy. apply H. right. exact Hy. Qed.

(* pawn spreads are OR-homomorphic: decided by the 64 single-pawn inputs *)
Lemma additive_pawn_spread s : additive (pawn_spread s).
Proof.
  destruct s; unfold pawn_spread; apply additive_lor;
    first [ apply (additive_comp east north additive_east additive_north) | apply (additive_comp west north additive_west additive_north)
          | apply (additive_comp east south additive_east additive_south) | apply (additive_comp west south additive_west additive_south) ].
Qed.
Lemma pawn_spread_sweep :
  forallb (fun a => forallb (fun q =>
     Bool.eqb (N.testbit (pawn_spread White (bit a)) q) (piece_attacks [] White Pawn a q) &&
     Bool.eqb (N.testbit (pawn_spread Black (bit a)) q) (piece_attacks [] Black Pawn a q)) all64) all64 = true.
Proof. vm_compute. reflexivity. Qed.
Lemma pawn_spread_spec s pawns q : pawns < two64 -> q < 64 ->
  N.testbit (pawn_spread s pawns) q = existsb (fun a => N.testbit pawns a && piece_attacks [] s Pawn a q) all64.
Proof.
  intros Hp Hq. rewrite (additive_lift _ (additive_pawn_spread s) pawns q Hp). apply existsb_ext_in. intros a Ha. apply in_all64 in Ha.
  pose proof (forallb_all64 _ (forallb_all64 _ pawn_spread_sweep a Ha) q Hq) as H. cbv beta in H.
  apply andb_true_iff in H. destruct H as [H1 H2]. apply eqb_prop in H1. apply eqb_prop in H2. destruct s; congruence.
Qed.

Lemma between_lt_sweep : forallb (fun a => forallb (fun q => forallb (fun x => x <? 64) (between a q)) all64) all64 = true.
Proof. vm_compute. reflexivity. Qed.
Lemma between_lt a q x : a < 64 -> q < 64 -> In x (between a q) -> x < 64.
Proof. intros Ha Hq Hx. pose proof (forallb_all64 _ (forallb_all64 _ between_lt_sweep a Ha) q Hq) as H. rewrite forallb_forall in H. specialize (H x Hx). lia. Qed.

(* [bl] is an occupancy whose mailbox reading is g: the pieces come from f, the emptiness of lines from g *)
Theorem attack_union_exact p f g s bl kq q :
  rep (brd p) f -> q < 64 -> kq < 64 ->
  (forall x, x < 64 -> N.testbit bl x = match g x with Some _ => true | None => false end) ->
  (forall a, a < 64 -> f a = Some (s, King) -> a = kq) -> f kq = Some (s, King) ->
  N.testbit (attack_union p s bl kq) q =
  existsb (fun a => match f a with Some (c, pc) => side_eqb c s && piece_attacks (board_of g) c pc a q | None => false end) all64.
Proof.
  intros Hrep Hq Hkq Hbl Huniq Hk. pose proof Hrep as [_ Hlt].
  assert (Hpl : forall pc, pieces p s pc < two64) by (intros pc; unfold pieces; apply land_lt, colour_lt, Hlt).
  assert (Hclear : forall a, a < 64 -> clear_on bl (between a q) = all_empty (board_of g) (between a q)).
  { intros a Ha. unfold clear_on, all_empty. assert (Hb := fun x => between_lt a q x Ha Hq).
    induction (between a q) as [|x r IH]; [reflexivity|]. cbn [forallb]. rewrite IH by (intros y Hy; apply Hb; right; exact Hy). f_equal.
    assert (Hx : x < 64) by (apply Hb; left; reflexivity). unfold is_empty. rewrite at_board_of, Hbl by exact Hx. destruct (g x); reflexivity. }
  unfold attack_union. rewrite N.lor_spec, !or_over_spec.
  rewrite !bb_squares_members by apply Hpl. rewrite !existsb_filter.
  rewrite (pawn_spread_spec s _ q (Hpl Pawn) Hq).
  (* the king term as an existential over the unique king square *)
  assert (Hking : N.testbit (king_moves kq) q = existsb (fun a => N.testbit (pieces p s King) a && piece_attacks [] s King a q) all64).
  { rewrite (king_moves_geometric kq q [] s Hkq Hq). apply eq_true_iff_eq. rewrite existsb_exists. split.
    - intros H. exists kq. split; [apply in_all64; exact Hkq|]. rewrite (pieces_rep p f s King kq Hrep Hkq) by discriminate. rewrite Hk, side_eqb_refl. exact H.
    - intros [a [Ha Hb]]. apply in_all64 in Ha. apply andb_true_iff in Hb. destruct Hb as [H1 H2].
      rewrite (pieces_rep p f s King a Hrep Ha) in H1 by discriminate. destruct (f a) as [[c pc]|] eqn:Ef; [|discriminate].
      apply andb_true_iff in H1. destruct H1 as [A B]. apply side_eqb_true in A. destruct pc; try discriminate. subst c.
      rewrite <- (Huniq a Ha Ef). exact H2. }
  rewrite Hking. rewrite <- !existsb_orb. apply existsb_ext_in. intros a Ha. apply in_all64 in Ha. unfold mem.
  rewrite !(pieces_rep p f s _ a Hrep Ha) by discriminate.
  rewrite (knight_moves_geometric a q [] s Ha Hq).
  rewrite (bishop_moves_geometric a bl q Ha Hq), (rook_moves_geometric a bl q Ha Hq), (queen_moves_geometric a bl q Ha Hq), (Hclear a Ha).
  destruct (f a) as [[c pc]|]; [|reflexivity].
  rewrite (side_eqb_sym_lemma c s). destruct (side_eqb s c) eqn:Es; [|reflexivity]. apply side_eqb_true in Es. subst c.
  destruct pc; cbn [piece_eqb piece_to_N N.eqb Pos.eqb andb orb piece_attacks];
    rewrite ?andb_false_r, ?orb_false_r, ?orb_false_l, ?andb_true_l, ?andb_true_r; try reflexivity; try btauto.
Qed.

Lemma existsb_nonempty_filter {A} (P : A -> bool) l : existsb P l = negb (match filter P l with [] => true | _ => false end).
Proof. induction l as [|x r IH]; [reflexivity|]. cbn [existsb filter]. destruct (P x); [reflexivity|exact IH]. Qed.

(* squares_attacked(s): exactly the squares some piece of s attacks *)
Theorem squares_attacked_exact p f s k q : rep (brd p) f -> q < 64 ->
  find_king (board_of f) s = Some k -> (forall a, a < 64 -> f a = Some (s, King) -> a = k) ->
  N.testbit (squares_attacked p s) q = attacked (board_of f) q s.
Proof.
  intros Hrep Hq Hk Huniq. pose proof Hrep as [_ Hlt]. destruct (king_position_exact p f s k Hrep Hk) as (E & Hk64 & Hfk).
  rewrite squares_attacked_union, E, (not_not_occ p Hlt).
  rewrite (attack_union_exact p f f s (occupied p) k q Hrep Hq Hk64 (fun x Hx => occupied_rep p f x Hrep Hx) Huniq Hfk).
  unfold attacked, attackers_of. rewrite all64_squares. rewrite <- existsb_nonempty_filter.
  apply existsb_ext_in. intros a Ha. apply in_all64 in Ha. rewrite at_board_of by exact Ha. reflexivity.
Qed.

(* king_allowed(s): not occupied by s's own pieces or the enemy king, and not attacked by the enemy once s's
   king is lifted off the board *)
Theorem king_allowed_exact p f s k ek q : rep (brd p) f -> q < 64 ->
  find_king (board_of f) s = Some k -> (forall a, a < 64 -> f a = Some (s, King) -> a = k) ->
  find_king (board_of f) (opp_side s) = Some ek -> (forall a, a < 64 -> f a = Some (opp_side s, King) -> a = ek) ->
  N.testbit (king_allowed_s p s) q =
  negb (match f q with Some (c, pc) => side_eqb c s || piece_eqb pc King | None => false end) &&
  negb (attacked (board_of (upd f k None)) q (opp_side s)).
Proof.
  intros Hrep Hq Hk Huk Hek Huek. pose proof Hrep as [_ Hlt].
  destruct (king_position_exact p f s k Hrep Hk) as (E & Hk64 & Hfk).
  destruct (king_position_exact p f _ ek Hrep Hek) as (E' & Hek64 & Hfek).
  rewrite king_allowed_union, E, E', (not_not_occ p Hlt), not64_spec. replace (q <? 64) with true by lia. cbn [andb].
  rewrite !N.lor_spec, (bit_spec ek q Hek64).
  rewrite (attack_union_exact p f (upd f k None) (opp_side s) (N.lxor (occupied p) (bit k)) ek q Hrep Hq Hek64); [| |exact Huek|exact Hfek].
  2:{ intros x Hx. rewrite N.lxor_spec, (occupied_rep p f x Hrep Hx), (bit_spec k x Hk64). unfold upd.
      destruct (N.eqb_spec x k) as [->|Hne]; [rewrite Hfk; reflexivity|]. destruct (f x); reflexivity. }
  (* own pieces / enemy king *)
  assert (Hocc : N.testbit (occupancy_s p s) q || (q =? ek) = match f q with Some (c, pc) => side_eqb c s || piece_eqb pc King | None => false end).
  { destruct Hrep as [H _]. destruct (H q Hq) as [[Hc _] _]. unfold occupancy_s. rewrite Hc.
    destruct (f q) as [[c pc]|] eqn:Ef.
    - rewrite (side_eqb_sym_lemma s c). destruct (side_eqb c s) eqn:Es; [reflexivity|]. cbn [orb].
      destruct (N.eqb_spec q ek) as [->|Hne].
      + rewrite Hfek in Ef. inversion Ef. reflexivity.
      + destruct pc; try reflexivity. exfalso. apply Hne. apply Huek; [exact Hq|]. rewrite Ef. f_equal. f_equal. destruct c, s; cbn in *; try reflexivity; discriminate.
    - cbn [orb]. destruct (N.eqb_spec q ek) as [->|Hne]; [congruence|reflexivity]. }
  rewrite <- orb_assoc, Hocc.
  (* attacked on the board with the king lifted *)
  assert (Hatt : existsb (fun a => match f a with Some (c, pc) => side_eqb c (opp_side s) && piece_attacks (board_of (upd f k None)) c pc a q | None => false end) all64
                 = attacked (board_of (upd f k None)) q (opp_side s)).
  { unfold attacked, attackers_of. rewrite all64_squares, <- existsb_nonempty_filter. apply existsb_ext_in. intros a Ha. apply in_all64 in Ha.
    rewrite at_board_of by exact Ha. unfold upd. destruct (N.eqb_spec a k) as [->|Hne]; [rewrite Hfk; destruct s; reflexivity|reflexivity]. }
  rewrite Hatt. rewrite negb_orb. apply andb_comm.
Qed.
