(* BitboardFacts.v — Bitboard and Square behave as sets of squares and board coordinates (C16). *)
From Coq Require Import NArith ZArith List Bool Lia.
From Coq Require Import ZifyBool ZifyN ZifyNat.
From LC Require Import Bits BitsFacts Types BitboardModel Spec.Rules.
Import ListNotations.
Local Open Scope N_scope.
Ltac Zify.zify_post_hook ::= Z.div_mod_to_equations.

(* membership *)
Definition mem (b sq : N) : bool := N.testbit b sq.

Lemma bb_get_spec b sq : bb_get b sq = mem b sq.
Proof. unfold bb_get, mem. rewrite shr64_spec. reflexivity. Qed.

Lemma bb_set_spec b sq i : sq < 64 -> mem (bb_set b sq) i = mem b i || (i =? sq).
Proof. intros H. unfold bb_set, mem. rewrite N.lor_spec, bit_spec by exact H. reflexivity. Qed.

Lemma bb_and_spec a b i : mem (bb_and a b) i = mem a i && mem b i. Proof. apply N.land_spec. Qed.
Lemma bb_or_spec a b i : mem (bb_or a b) i = mem a i || mem b i. Proof. apply N.lor_spec. Qed.
Lemma bb_xor_spec a b i : mem (bb_xor a b) i = xorb (mem a i) (mem b i). Proof. apply N.lxor_spec. Qed.
Lemma bb_not_spec a i : i < 64 -> mem (bb_not a) i = negb (mem a i).
Proof. intros H. unfold bb_not, mem. rewrite not64_spec. replace (i <? 64) with true by lia. reflexivity. Qed.

Lemma bb_empty_spec a : bb_empty a = true <-> forall i, mem a i = false.
Proof.
  unfold bb_empty, mem. rewrite N.eqb_eq. split.
  - intros -> i. apply N.bits_0.
  - intros H. apply N.bits_inj. intros i. rewrite H, N.bits_0. reflexivity.
Qed.

(* the members of a, ascending *)
Notation members a := (filter (mem a) all64) (only parsing).

Lemma ascending_ext l1 l2 : ascending l1 -> ascending l2 -> (forall i, In i l1 <-> In i l2) -> l1 = l2.
Proof.
  revert l2. induction l1 as [|a r IH]; intros l2 H1 H2 Hext.
  - destruct l2 as [|b s]; [reflexivity|]. exfalso. apply (proj2 (Hext b)). left; reflexivity.
  - destruct l2 as [|b s]; [exfalso; apply (proj1 (Hext a)); left; reflexivity|].
    assert (Hab : a = b).
    { destruct (proj1 (Hext a) (or_introl eq_refl)) as [E|Hin]; [symmetry; exact E|].
      destruct (proj2 (Hext b) (or_introl eq_refl)) as [E|Hin2]; [exact E|].
      pose proof (ascending_tail_gt s b a H2 Hin). pose proof (ascending_tail_gt r a b H1 Hin2). lia. }
    subst b. f_equal. apply IH.
    + inversion H1; subst; [constructor|assumption].
    + inversion H2; subst; [constructor|assumption].
    + intros i. split; intros Hi.
      * destruct (proj1 (Hext i) (or_intror Hi)) as [E|Hin]; [|exact Hin].
        subst i. pose proof (ascending_tail_gt r a a H1 Hi). lia.
      * destruct (proj2 (Hext i) (or_intror Hi)) as [E|Hin]; [|exact Hin].
        subst i. pose proof (ascending_tail_gt s a a H2 Hi). lia.
Qed.

Lemma ascending_filter (P : N -> bool) l : ascending l -> ascending (filter P l).
Proof.
  induction l as [|a r IH]; intros H; [constructor|].
  assert (Hr : ascending r) by (inversion H; subst; [constructor|assumption]).
  simpl. destruct (P a); [|apply IH; exact Hr].
  apply ascending_cons_lower; [|apply IH; exact Hr].
  intros i Hi. apply filter_In in Hi. apply (ascending_tail_gt r a i H). tauto.
Qed.

Lemma ascending_all64 : ascending all64.
Proof. vm_compute. repeat (first [apply asc_one | apply asc_cons; [reflexivity|]]). Qed.

(* iteration: every member exactly once, ascending *)
Theorem bb_squares_members a : a < two64 -> bb_squares a = members a.
Proof.
  intros H. unfold bb_squares. rewrite bits_eq_ref by exact H.
  apply ascending_ext; [apply bits_ref_ascending|apply ascending_filter, ascending_all64|].
  intros i. rewrite bits_ref_spec. rewrite filter_In, in_all64. unfold mem. split; [|tauto].
  intros Hi. split; [|exact Hi].
  destruct (N.lt_ge_cases i 64) as [Hl|Hl]; [exact Hl|]. rewrite (proj1 (lt64_iff a) H i Hl) in Hi. discriminate.
Qed.

Theorem bb_count_members a : a < two64 -> bb_count a = N.of_nat (length (members a)).
Proof. intros H. unfold bb_count. rewrite <- bb_squares_members by exact H. unfold bb_squares. rewrite bits_eq_ref by exact H. symmetry. apply length_bits_ref. Qed.

Lemma u8_small x : x < 256 -> u8 x = x.
Proof. intros H. unfold u8. change 255 with (N.ones 8). rewrite N.land_ones. apply N.mod_small. exact H. Qed.

(* lowest and highest member *)
Theorem bb_lsb_spec a : 0 < a -> a < two64 ->
  bb_lsb a < 64 /\ mem a (bb_lsb a) = true /\ forall j, j < bb_lsb a -> mem a j = false.
Proof.
  intros H0 H. unfold bb_lsb, sq_of_int. pose proof (ctz64_lt a H0 H) as Hl. rewrite u8_small by lia.
  split; [exact Hl|]. split; [apply ctz64_bit; exact H0|]. intros j Hj. apply ctz64_low. exact Hj.
Qed.
Theorem bb_hsb_spec a : 0 < a -> a < two64 ->
  bb_hsb a < 64 /\ mem a (bb_hsb a) = true /\ forall j, bb_hsb a < j -> mem a j = false.
Proof.
  intros H0 H. unfold bb_hsb, sq_of_int, clz64. destruct a as [|p]; [lia|].
  assert (Hlog : N.log2 (Npos p) < 64) by (apply N.log2_lt_pow2; [lia|rewrite two64_eq in H; exact H]).
  replace (63 - (63 - N.log2 (Npos p))) with (N.log2 (Npos p)) by lia.
  rewrite u8_small by lia. split; [exact Hlog|]. split.
  - apply N.bit_log2. discriminate.
  - intros j Hj. apply N.bits_above_log2. exact Hj.
Qed.

(* the four steps: every member moves one square, nothing wraps round an edge *)
Lemma not_file_a_spec : forall i, i < 64 -> N.testbit not_file_a i = negb (sq_file i =? 0).
Proof. intros i Hi. apply eqb_prop. apply (forallb_all64 (fun i => Bool.eqb (N.testbit not_file_a i) (negb (sq_file i =? 0)))); [vm_compute; reflexivity|exact Hi]. Qed.
Lemma not_file_h_spec : forall i, i < 64 -> N.testbit not_file_h i = negb (sq_file i =? 7).
Proof. intros i Hi. apply eqb_prop. apply (forallb_all64 (fun i => Bool.eqb (N.testbit not_file_h i) (negb (sq_file i =? 7)))); [vm_compute; reflexivity|exact Hi]. Qed.

Theorem north_spec a i : i < 64 -> mem (north a) i = (8 <=? i) && mem a (i - 8).
Proof. intros H. unfold north, mem. rewrite shl64_spec. replace (i <? 64) with true by lia. rewrite andb_true_r. reflexivity. Qed.
Theorem south_spec a i : mem (south a) i = mem a (i + 8).
Proof. unfold south, mem. apply shr64_spec. Qed.
Theorem east_spec a i : i < 64 -> mem (east a) i = negb (sq_file i =? 0) && mem a (i - 1).
Proof.
  intros H. unfold east, mem. rewrite N.land_spec, shl64_spec, not_file_a_spec by exact H.
  replace (i <? 64) with true by lia. unfold sq_file.
  destruct (N.eqb_spec (i mod 8) 0) as [E|E]; simpl; [apply andb_false_r|].
  replace (1 <=? i) with true by lia. rewrite andb_true_r. reflexivity.
Qed.
Theorem west_spec a i : i < 64 -> mem (west a) i = negb (sq_file i =? 7) && mem a (i + 1).
Proof.
  intros H. unfold west, mem. rewrite N.land_spec, shr64_spec, not_file_h_spec by exact H. apply andb_comm.
Qed.

Lemma north_lt a : north a < two64. Proof. apply shl64_lt. Qed.
Lemma south_lt a : a < two64 -> south a < two64. Proof. apply shr64_lt. Qed.
Lemma east_lt a : east a < two64. Proof. apply land_lt, shl64_lt. Qed.
Lemma west_lt a : a < two64 -> west a < two64. Proof. intros H. apply land_lt, shr64_lt, H. Qed.

(* per-square reference: the square (file i - df, rank i - dr) is on the board and belongs to a *)
Definition came_from (df dr : Z) (a : N) (i : N) : bool :=
  let f := (Z.of_N (sq_file i) - df)%Z in let r := (Z.of_N (sq_rank i) - dr)%Z in
  (0 <=? f)%Z && (f <=? 7)%Z && (0 <=? r)%Z && (r <=? 7)%Z && mem a (Z.to_N (r * 8 + f)).

Lemma came_from_north a i : i < 64 -> a < two64 -> mem (north a) i = came_from 0 1 a i.
Proof.
  intros Hi Ha. rewrite north_spec by exact Hi. unfold came_from, sq_file, sq_rank.
  destruct (N.leb_spec 8 i) as [H|H].
  - replace (Z.to_N ((Z.of_N (i / 8) - 1) * 8 + (Z.of_N (i mod 8) - 0))) with (i - 8) by lia.
    replace ((0 <=? Z.of_N (i mod 8) - 0)%Z && (Z.of_N (i mod 8) - 0 <=? 7)%Z && (0 <=? Z.of_N (i / 8) - 1)%Z && (Z.of_N (i / 8) - 1 <=? 7)%Z) with true by lia.
    reflexivity.
  - replace (0 <=? Z.of_N (i / 8) - 1)%Z with false by lia. rewrite andb_false_r. reflexivity.
Qed.
Lemma came_from_south a i : i < 64 -> a < two64 -> mem (south a) i = came_from 0 (-1) a i.
Proof.
  intros Hi Ha. rewrite south_spec. unfold came_from, sq_file, sq_rank.
  destruct (N.ltb_spec i 56) as [H|H].
  - replace (Z.to_N ((Z.of_N (i / 8) - -1) * 8 + (Z.of_N (i mod 8) - 0))) with (i + 8) by lia.
    replace ((0 <=? Z.of_N (i mod 8) - 0)%Z && (Z.of_N (i mod 8) - 0 <=? 7)%Z && (0 <=? Z.of_N (i / 8) - -1)%Z && (Z.of_N (i / 8) - -1 <=? 7)%Z) with true by lia.
    reflexivity.
  - replace (Z.of_N (i / 8) - -1 <=? 7)%Z with false by lia. rewrite andb_false_r. simpl.
    apply (proj1 (lt64_iff a) Ha). lia.
Qed.
Lemma came_from_east a i : i < 64 -> mem (east a) i = came_from 1 0 a i.
Proof.
  intros Hi. rewrite east_spec by exact Hi. unfold came_from, sq_file, sq_rank.
  destruct (N.eqb_spec (i mod 8) 0) as [H|H]; simpl negb.
  - replace (0 <=? Z.of_N (i mod 8) - 1)%Z with false by lia. reflexivity.
  - replace (Z.to_N ((Z.of_N (i / 8) - 0) * 8 + (Z.of_N (i mod 8) - 1))) with (i - 1) by lia.
    replace ((0 <=? Z.of_N (i mod 8) - 1)%Z && (Z.of_N (i mod 8) - 1 <=? 7)%Z && (0 <=? Z.of_N (i / 8) - 0)%Z && (Z.of_N (i / 8) - 0 <=? 7)%Z) with true by lia.
    reflexivity.
Qed.
Lemma came_from_west a i : i < 64 -> mem (west a) i = came_from (-1) 0 a i.
Proof.
  intros Hi. rewrite west_spec by exact Hi. unfold came_from, sq_file, sq_rank.
  destruct (N.eqb_spec (i mod 8) 7) as [H|H]; simpl negb.
  - replace (Z.of_N (i mod 8) - -1 <=? 7)%Z with false by lia. rewrite andb_false_r. reflexivity.
  - replace (Z.to_N ((Z.of_N (i / 8) - 0) * 8 + (Z.of_N (i mod 8) - -1))) with (i + 1) by lia.
    replace ((0 <=? Z.of_N (i mod 8) - -1)%Z && (Z.of_N (i mod 8) - -1 <=? 7)%Z && (0 <=? Z.of_N (i / 8) - 0)%Z && (Z.of_N (i / 8) - 0 <=? 7)%Z) with true by lia.
    reflexivity.
Qed.

(* the steps are OR-homomorphic, hence so is every composition of them *)
Lemma additive_north : additive north.
Proof. split; [reflexivity|]. intros a b. apply N.bits_inj. intros i. unfold north. rewrite N.lor_spec, !shl64_spec, N.lor_spec. destruct ((8 <=? i) && (i <? 64)); reflexivity. Qed.
Lemma additive_south : additive south.
Proof. split; [reflexivity|]. intros a b. apply N.bits_inj. intros i. unfold south. rewrite N.lor_spec, !shr64_spec, N.lor_spec. reflexivity. Qed.
Lemma additive_east : additive east.
Proof. split; [reflexivity|]. intros a b. apply N.bits_inj. intros i. unfold east. rewrite N.lor_spec, !N.land_spec, !shl64_spec, N.lor_spec.
       destruct ((1 <=? i) && (i <? 64)); destruct (N.testbit not_file_a i); destruct (N.testbit a (i - 1)); destruct (N.testbit b (i - 1)); reflexivity. Qed.
Lemma additive_west : additive west.
Proof. split; [reflexivity|]. intros a b. apply N.bits_inj. intros i. unfold west. rewrite N.lor_spec, !N.land_spec, !shr64_spec, N.lor_spec.
       destruct (N.testbit not_file_h i); destruct (N.testbit a (i + 1)); destruct (N.testbit b (i + 1)); reflexivity. Qed.
Lemma additive_comp F G : additive F -> additive G -> additive (fun x => F (G x)).
Proof. intros [F0 Fo] [G0 Go]. split; [rewrite G0; exact F0|]. intros a b. rewrite Go, Fo. reflexivity. Qed.
Lemma additive_lor F G : additive F -> additive G -> additive (fun x => N.lor (F x) (G x)).
Proof.
  intros [F0 Fo] [G0 Go]. split; [rewrite F0, G0; reflexivity|]. intros a b. rewrite Fo, Go.
  apply N.bits_inj. intros i. rewrite !N.lor_spec.
  destruct (N.testbit (F a) i); destruct (N.testbit (F b) i); destruct (N.testbit (G a) i); destruct (N.testbit (G b) i); reflexivity.
Qed.
Lemma additive_id : additive (fun x => x). Proof. split; [reflexivity|]. intros; reflexivity. Qed.

(* adjacent: the union of the eight one-step neighbourhoods (finite sweep of single bits + lifting) *)
Definition neighbours8 : list (Z * Z) := [(0,1);(0,-1);(1,0);(-1,0);(1,1);(-1,1);(1,-1);(-1,-1)]%Z.
Definition adjacent_ref (a i : N) : bool := existsb (fun d => came_from (fst d) (snd d) a i) neighbours8.

Lemma additive_adjacent : additive adjacent.
Proof.
  unfold adjacent.
  repeat (first [ apply additive_lor | exact additive_north | exact additive_south | exact additive_east | exact additive_west
                | apply (additive_comp east north) | apply (additive_comp west north) | apply (additive_comp east south) | apply (additive_comp west south) ]).
Qed.

Lemma adjacent_single_sweep :
  forallb (fun e => forallb (fun i => Bool.eqb (N.testbit (adjacent (bit e)) i) (adjacent_ref (bit e) i)) all64) all64 = true.
Proof. vm_compute. reflexivity. Qed.

(* came_from is itself additive in a, pointwise *)
Definition cf_ok (df dr : Z) (i : N) : bool :=
  let f := (Z.of_N (sq_file i) - df)%Z in let r := (Z.of_N (sq_rank i) - dr)%Z in
  (0 <=? f)%Z && (f <=? 7)%Z && (0 <=? r)%Z && (r <=? 7)%Z.
Definition cf_sq (df dr : Z) (i : N) : N :=
  Z.to_N ((Z.of_N (sq_rank i) - dr) * 8 + (Z.of_N (sq_file i) - df))%Z.
Lemma came_from_unfold df dr a i : came_from df dr a i = cf_ok df dr i && mem a (cf_sq df dr i).
Proof. reflexivity. Qed.
Lemma cf_sq_lt df dr i : cf_ok df dr i = true -> cf_sq df dr i < 64.
Proof. unfold cf_ok, cf_sq. lia. Qed.

Lemma came_from_exists df dr a i : a < two64 ->
  came_from df dr a i = existsb (fun e => mem a e && came_from df dr (bit e) i) all64.
Proof.
  intros Ha. apply eq_true_iff_eq. rewrite existsb_exists. rewrite came_from_unfold. split.
  - intros H. apply andb_true_iff in H. destruct H as [Hok Hm].
    pose proof (cf_sq_lt _ _ _ Hok) as Hs. exists (cf_sq df dr i). split; [apply in_all64; exact Hs|].
    rewrite Hm, came_from_unfold, Hok. unfold mem. rewrite bit_spec by exact Hs. rewrite N.eqb_refl. reflexivity.
  - intros [e [He Hx]]. apply in_all64 in He. apply andb_true_iff in Hx. destruct Hx as [H1 H2].
    rewrite came_from_unfold in H2. apply andb_true_iff in H2. destruct H2 as [Hok H2]. rewrite Hok.
    unfold mem in H2. rewrite bit_spec in H2 by exact He. apply N.eqb_eq in H2. rewrite H2. exact H1.
Qed.

Theorem adjacent_spec a i : a < two64 -> i < 64 -> mem (adjacent a) i = adjacent_ref a i.
Proof.
  intros Ha Hi. unfold mem. rewrite (additive_lift adjacent additive_adjacent a i Ha).
  unfold adjacent_ref.
  transitivity (existsb (fun e => N.testbit a e && adjacent_ref (bit e) i) all64).
  - apply eq_true_iff_eq. rewrite !existsb_exists. split; intros [e [He Hx]]; exists e; (split; [exact He|]);
      apply in_all64 in He; apply andb_true_iff in Hx; destruct Hx as [H1 H2]; rewrite H1; simpl;
      pose proof (forallb_all64 _ (forallb_all64 _ adjacent_single_sweep e He) i Hi) as Hs; apply eqb_prop in Hs; congruence.
  - unfold adjacent_ref. apply eq_true_iff_eq. rewrite !existsb_exists. split.
    + intros [e [He Hx]]. apply andb_true_iff in Hx. destruct Hx as [H1 H2]. apply existsb_exists in H2.
      destruct H2 as [d [Hd Hc]]. exists d. split; [exact Hd|]. rewrite (came_from_exists _ _ a i Ha).
      apply existsb_exists. exists e. split; [exact He|]. unfold mem. rewrite H1. exact Hc.
    + intros [d [Hd Hc]]. rewrite (came_from_exists _ _ a i Ha) in Hc. apply existsb_exists in Hc.
      destruct Hc as [e [He Hx]]. apply andb_true_iff in Hx. destruct Hx as [H1 H2].
      exists e. split; [exact He|]. unfold mem in H1. rewrite H1. cbn [andb]. apply existsb_exists. exists d. split; assumption.
Qed.

(* squares_between: the transcribed constexpr table builder equals the geometric definition, all 4096 pairs *)
Definition set_of_list (l : list N) : N := fold_right (fun s acc => N.lor (bit s) acc) 0 l.
Lemma set_of_list_spec l x : (forall s, In s l -> s < 64) -> N.testbit (set_of_list l) x = existsb (N.eqb x) l.
Proof.
  induction l as [|s r IH]; intros Hb; cbn [set_of_list fold_right existsb]; [apply N.bits_0|].
  rewrite N.lor_spec, bit_spec by (apply Hb; left; reflexivity).
  fold (set_of_list r). rewrite IH by (intros t Ht; apply Hb; right; exact Ht). reflexivity.
Qed.

Lemma between_sweep :
  forallb (fun a => forallb (fun b => (squares_between a b =? set_of_list (between a b)) && forallb (fun s => s <? 64) (between a b)) all64) all64 = true.
Proof. vm_compute. reflexivity. Qed.

Theorem squares_between_exact a b x : a < 64 -> b < 64 ->
  mem (squares_between a b) x = existsb (N.eqb x) (between a b).
Proof.
  intros Ha Hb. pose proof (forallb_all64 _ (forallb_all64 _ between_sweep a Ha) b Hb) as H.
  apply andb_true_iff in H. destruct H as [H1 H2]. apply N.eqb_eq in H1. unfold mem. rewrite H1.
  apply set_of_list_spec. intros s Hs. rewrite forallb_forall in H2. specialize (H2 s Hs). lia.
Qed.

(* Square <-> (file, rank) <-> text, flip *)
Lemma square_sweep :
  forallb (fun s =>
    (sq_of_fr (sq_file s) (sq_rank s) =? s) && (sq_file s <? 8) && (sq_rank s <? 8) &&
    (sq_of_int s =? s) &&
    (sq_file (sq_flip s) =? sq_file s) && (sq_rank (sq_flip s) =? 7 - sq_rank s) && (sq_flip (sq_flip s) =? s) &&
    (match sq_string s with [c0; c1] => (sq_of_chars c0 c1 =? s) && (c0 =? 97 + sq_file s) && (c1 =? 49 + sq_rank s) | _ => false end) &&
    sq_valid s && Bool.eqb (sq_light s) (negb ((sq_file s + sq_rank s) mod 2 =? 0))) all64 = true.
Proof. vm_compute. reflexivity. Qed.
Lemma square_fr_sweep :
  forallb (fun f => forallb (fun r => (sq_file (sq_of_fr f r) =? f) && (sq_rank (sq_of_fr f r) =? r) && (sq_of_fr f r <? 64)) [0;1;2;3;4;5;6;7]) [0;1;2;3;4;5;6;7] = true.
Proof. vm_compute. reflexivity. Qed.
Lemma square_steps_sweep :
  forallb (fun s =>
    (if sq_rank s <? 7 then sq_north s =? s + 8 else true) && (if 0 <? sq_rank s then sq_south s =? s - 8 else true) &&
    (if s <? 63 then sq_east s =? s + 1 else true) && (if 0 <? s then sq_west s =? s - 1 else true)) all64 = true.
Proof. vm_compute. reflexivity. Qed.
Lemma offsq_invalid : sq_valid OffSq = false. Proof. reflexivity. Qed.
