(* BitboardModel.v — transcription of src/libchess/bitboard.hpp and square.hpp
   (class Bitboard, BitboardIterator, Square, calculate_squares_between).
   Definitions only. *)
From Coq Require Import NArith List Bool Ascii String.
From LC Require Import Bits.
Import ListNotations.
Local Open Scope N_scope.

(* ---------- Square (std::uint8_t data_, 0xFF = OffSq) ---------- *)
Definition OffSq : N := 255.
Definition u8 (x : N) : N := N.land x 255.
Definition sq_of_int (n : N) : N := u8 n.                 (* Square(int n) *)
Definition sq_of_fr (f r : N) : N := u8 (8 * r + f).      (* Square(int f, int r) *)
Definition sq_rank (s : N) : N := s / 8.
Definition sq_file (s : N) : N := s mod 8.
Definition sq_flip (s : N) : N := N.lxor s 56.
Definition sq_north (s : N) : N := u8 (s + 8).
Definition sq_south (s : N) : N := u8 (s + 248).          (* data_ - 8 as uint8 *)
Definition sq_east (s : N) : N := u8 (s + 1).
Definition sq_west (s : N) : N := u8 (s + 255).           (* data_ - 1 as uint8 *)
Definition sq_light (s : N) : bool := negb ((sq_rank s + sq_file s) mod 2 =? 0).
Definition sq_valid (s : N) : bool := negb (s =? OffSq).  (* explicit operator bool *)

(* operator std::string: 'a' + file, '1' + rank *)
Definition sq_string (s : N) : list N := [97 + sq_file s; 49 + sq_rank s].
(* Square(const std::string&): file = str[0]-'a', rank = str[1]-'1', uint8(rank*8+file).
   Arithmetic in int; modelled for the characters the library ever passes (>= 'a', >= '1'). *)
Definition sq_of_chars (c0 c1 : N) : N := u8 ((c1 - 49) * 8 + (c0 - 97)).

(* ---------- Bitboard ---------- *)
Definition bb_get (b sq : N) : bool := N.testbit (shr64 b sq) 0.    (* (mask_ >> sq) & 1 *)
Definition bb_set (b sq : N) : N := N.lor b (bit sq).
Definition bb_count (b : N) : N := popcount64 b.
Definition bb_empty (b : N) : bool := b =? 0.
Definition bb_nonempty (b : N) : bool := negb (b =? 0).             (* explicit operator bool *)
Definition bb_and (a b : N) : N := N.land a b.
Definition bb_or (a b : N) : N := N.lor a b.
Definition bb_xor (a b : N) : N := N.lxor a b.
Definition bb_not (a : N) : N := not64 a.
Definition bb_lsb (b : N) : N := sq_of_int (ctz64 b).               (* Square(countr_zero) *)
Definition bb_hsb (b : N) : N := sq_of_int (63 - clz64 b).          (* Square(63 - countl_zero) *)

Definition not_file_a : N := not64 72340172838076673.      (* ~0x0101010101010101 *)
Definition not_file_h : N := not64 9259542123273814144.    (* ~0x8080808080808080 *)
Definition north (b : N) : N := shl64 b 8.
Definition south (b : N) : N := shr64 b 8.
Definition east (b : N) : N := N.land (shl64 b 1) not_file_a.
Definition west (b : N) : N := N.land (shr64 b 1) not_file_h.
Definition adjacent (b : N) : N :=
  N.lor (N.lor (N.lor (N.lor (N.lor (N.lor (N.lor (north b) (south b)) (east b)) (west b))
    (east (north b))) (west (north b))) (east (south b))) (west (south b)).

(* range-for over a Bitboard *)
Definition bb_squares (b : N) : list N := bits b.

(* bitboards::files / ranks *)
Definition file_mask (f : N) : N := N.shiftl 72340172838076673 f.      (* FileA << f, f < 8 *)
Definition rank_mask (r : N) : N := N.shiftl 255 (8 * r).              (* Rank1 << 8r, r < 8 *)
Definition Rank1 := rank_mask 0. Definition Rank2 := rank_mask 1.
Definition Rank4 := rank_mask 3. Definition Rank5 := rank_mask 4.
Definition Rank7 := rank_mask 6. Definition Rank8 := rank_mask 7.

(* ---------- calculate_squares_between (the constexpr table builder) ---------- *)
(* One cell [i][j]: dx, dy as signs and magnitudes; the while loop steps sq1 towards sq2
   (at most 7 iterations on aligned squares; fuel 8), collecting Bitboard{sq1}, then removes sq2. *)
(* NB the C++ fixes the signs of dx, dy before the loop; on aligned squares they do not
   change before sq1 reaches sq2, so recomputing them per step is the same walk
   (BitboardFacts.between_cell_sweep checks the whole table against Geometry). *)
Fixpoint between_walk (fuel : nat) (s1 s2 : N) (dxs dys : comparison) (acc : N) : N :=
  match fuel with
  | O => acc
  | S f =>
    if s1 =? s2 then acc else
    let a := match dxs with Lt => sq_east s1 | Gt => sq_west s1 | Eq => s1 end in
    let b := match dys with Lt => sq_north a | Gt => sq_south a | Eq => a end in
    between_walk f b s2 dxs dys (N.lor acc (bit b))
  end.

Definition between_cell (i j : N) : N :=
  let f1 := sq_file i in let f2 := sq_file j in
  let r1 := sq_rank i in let r2 := sq_rank j in
  let dxs := f1 ?= f2 in let dys := r1 ?= r2 in
  let adx := if f1 <? f2 then f2 - f1 else f1 - f2 in
  let ady := if r1 <? r2 then r2 - r1 else r1 - r2 in
  if (adx =? 0) || (ady =? 0) || (adx =? ady)
  then N.land (between_walk 8 i j dxs dys 0) (not64 (bit j))
  else 0.

Definition squares_between (a b : N) : N := between_cell a b.
