(* Bits.v — 64-bit words as N, one Gallina definition per C++ operator that the
   library uses on std::uint64_t / std::uint8_t.  DEFINITIONS ONLY (proofs are in
   BitsFacts.v) so that the model still builds, extracts and runs when a proof breaks. *)
From Coq Require Import NArith List Bool.
Import ListNotations.
Local Open Scope N_scope.

Definition ones64 : N := N.ones 64.
Definition two64 : N := N.shiftl 1 64.

(* static_cast to uint64 / the implicit wrap of <<, *, -, ~ *)
Definition trunc64 (x : N) : N := N.land x ones64.
Definition shl64 (x n : N) : N := trunc64 (N.shiftl x n).
Definition shr64 (x n : N) : N := N.shiftr x n.
Definition not64 (x : N) : N := N.ldiff ones64 x.
Definition sub64 (x y : N) : N := trunc64 (x + two64 - trunc64 y).
Definition mul64 (x y : N) : N := trunc64 (x * y).

(* 1ULL << sq *)
Definition bit (sq : N) : N := shl64 1 sq.

(* std::countr_zero, std::popcount, std::countl_zero on uint64 *)
Fixpoint ctz_pos (p : positive) : N :=
  match p with xO q => N.succ (ctz_pos q) | _ => 0 end.
Definition ctz64 (x : N) : N := match x with 0 => 64 | Npos p => ctz_pos p end.

Fixpoint pop_pos (p : positive) : N :=
  match p with xH => 1 | xO q => pop_pos q | xI q => N.succ (pop_pos q) end.
Definition popcount64 (x : N) : N := match x with 0 => 0 | Npos p => pop_pos p end.

Definition clz64 (x : N) : N := match x with 0 => 64 | _ => 63 - N.log2 x end.

(* BitboardIterator: *it = countr_zero(data); ++it : data &= data - 1; stop when data == 0.
   Fuel 64 suffices for every 64-bit word (BitsFacts.bits_iter_fuel_ok). *)
Fixpoint bits_iter (fuel : nat) (x : N) : list N :=
  match fuel with
  | O => []
  | S f => if x =? 0 then [] else ctz64 x :: bits_iter f (N.land x (sub64 x 1))
  end.
Definition bits (x : N) : list N := bits_iter 64 x.
(* unfold these last in conversion problems: unrolling the fuel duplicates the argument at every level *)
Global Strategy 1000 [bits_iter bits].

(* the structural reference for the iterator: members of x in ascending order *)
Fixpoint bits_pos (p : positive) (i : N) : list N :=
  match p with
  | xH => [i]
  | xO q => bits_pos q (N.succ i)
  | xI q => i :: bits_pos q (N.succ i)
  end.
Definition bits_ref (x : N) : list N := match x with 0 => [] | Npos p => bits_pos p 0 end.

(* the 64 squares, ascending *)
Definition all64 : list N := map N.of_nat (seq 0 64).
