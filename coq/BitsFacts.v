(* BitsFacts.v — testbit characterisation of every word operator of Bits.v, the iterator,
   and the additive-lifting theorem. *)
From Coq Require Import NArith ZArith List Bool Lia.
From Coq Require Import ZifyBool ZifyN ZifyNat.
From LC Require Import Bits.
Import ListNotations.
Local Open Scope N_scope.
Ltac Zify.zify_post_hook ::= Z.div_mod_to_equations.

Lemma two64_eq : two64 = 2 ^ 64. Proof. reflexivity. Qed.
Lemma ones64_eq : ones64 = 2 ^ 64 - 1. Proof. reflexivity. Qed.

Lemma testbit_ones64 i : N.testbit ones64 i = (i <? 64).
Proof.
  unfold ones64. destruct (N.ltb_spec i 64) as [H|H].
  - apply N.ones_spec_low; exact H.
  - apply N.ones_spec_high; exact H.
Qed.

Lemma trunc64_spec x i : N.testbit (trunc64 x) i = N.testbit x i && (i <? 64).
Proof. unfold trunc64. rewrite N.land_spec, testbit_ones64. reflexivity. Qed.

Lemma lt64_iff x : x < two64 <-> (forall i, 64 <= i -> N.testbit x i = false).
Proof.
  rewrite two64_eq. split.
  - intros H i Hi. destruct (N.eq_dec x 0) as [->|Hx]; [apply N.bits_0|].
    apply N.bits_above_log2. apply N.log2_lt_pow2 in H; lia.
  - intros H. destruct (N.eq_dec x 0) as [->|Hx]; [reflexivity|].
    apply N.log2_lt_pow2; [lia|].
    destruct (N.lt_ge_cases (N.log2 x) 64) as [Hl|Hl]; [exact Hl|].
    specialize (H _ Hl). rewrite N.bit_log2 in H by exact Hx. discriminate.
Qed.

Lemma trunc64_lt x : trunc64 x < two64.
Proof. apply lt64_iff. intros i Hi. rewrite trunc64_spec. replace (i <? 64) with false by lia. apply andb_false_r. Qed.

Lemma trunc64_id x : x < two64 -> trunc64 x = x.
Proof.
  intros H. apply N.bits_inj. intros i. rewrite trunc64_spec.
  destruct (N.ltb_spec i 64) as [Hi|Hi]; [apply andb_true_r|].
  rewrite (proj1 (lt64_iff x) H i Hi). reflexivity.
Qed.

Lemma trunc64_mod x : trunc64 x = x mod two64.
Proof. unfold trunc64, ones64. rewrite N.land_ones. reflexivity. Qed.

Lemma shl64_spec x n i : N.testbit (shl64 x n) i = (n <=? i) && (i <? 64) && N.testbit x (i - n).
Proof.
  unfold shl64. rewrite trunc64_spec.
  destruct (N.leb_spec n i) as [H|H].
  - rewrite N.shiftl_spec_high' by exact H. simpl. apply andb_comm.
  - rewrite N.shiftl_spec_low by exact H. reflexivity.
Qed.
Lemma shl64_lt x n : shl64 x n < two64. Proof. apply trunc64_lt. Qed.

Lemma shr64_spec x n i : N.testbit (shr64 x n) i = N.testbit x (i + n).
Proof. unfold shr64. apply N.shiftr_spec'. Qed.
Lemma shr64_lt x n : x < two64 -> shr64 x n < two64.
Proof. intros H. apply lt64_iff. intros i Hi. rewrite shr64_spec. apply (proj1 (lt64_iff x) H). lia. Qed.

Lemma not64_spec x i : N.testbit (not64 x) i = (i <? 64) && negb (N.testbit x i).
Proof. unfold not64. rewrite N.ldiff_spec, testbit_ones64. reflexivity. Qed.
Lemma not64_lt x : not64 x < two64.
Proof. apply lt64_iff. intros i Hi. rewrite not64_spec. replace (i <? 64) with false by lia. reflexivity. Qed.

Lemma bit_spec sq i : sq < 64 -> N.testbit (bit sq) i = (i =? sq).
Proof.
  intros Hs. unfold bit. rewrite shl64_spec.
  destruct (N.leb_spec sq i) as [H|H].
  - destruct (N.eqb_spec i sq) as [->|Hne].
    + rewrite N.sub_diag. replace (sq <? 64) with true by lia. reflexivity.
    + replace (N.testbit 1 (i - sq)) with false; [apply andb_false_r|].
      symmetry. apply (N.bits_above_log2 1). simpl. lia.
  - simpl. symmetry. apply N.eqb_neq. lia.
Qed.
Lemma bit_lt sq : bit sq < two64. Proof. apply shl64_lt. Qed.
Lemma bit_high sq : 64 <= sq -> bit sq = 0.
Proof.
  intros H. apply N.bits_inj. intros i. unfold bit. rewrite shl64_spec, N.bits_0.
  destruct (N.leb_spec sq i); destruct (N.ltb_spec i 64); try reflexivity. lia.
Qed.

Lemma land_lt a b : a < two64 -> N.land a b < two64.
Proof. intros H. apply lt64_iff. intros i Hi. rewrite N.land_spec, (proj1 (lt64_iff a) H i Hi). reflexivity. Qed.
Lemma lor_lt a b : a < two64 -> b < two64 -> N.lor a b < two64.
Proof. intros Ha Hb. apply lt64_iff. intros i Hi. rewrite N.lor_spec, (proj1 (lt64_iff a) Ha i Hi), (proj1 (lt64_iff b) Hb i Hi). reflexivity. Qed.
Lemma lxor_lt a b : a < two64 -> b < two64 -> N.lxor a b < two64.
Proof. intros Ha Hb. apply lt64_iff. intros i Hi. rewrite N.lxor_spec, (proj1 (lt64_iff a) Ha i Hi), (proj1 (lt64_iff b) Hb i Hi). reflexivity. Qed.

(* ---------- countr_zero / x & (x-1) / the iterator ---------- *)
Lemma ctz_pos_bit p : N.testbit (Npos p) (ctz_pos p) = true.
Proof.
  induction p as [q IH|q IH|]; simpl ctz_pos; try reflexivity.
  rewrite <- IH. change (Npos q~0) with (N.double (Npos q)). rewrite N.double_spec.
  apply N.testbit_even_succ. apply N.le_0_l.
Qed.
Lemma ctz_pos_low p j : j < ctz_pos p -> N.testbit (Npos p) j = false.
Proof.
  revert j. induction p as [q IH|q IH|]; simpl ctz_pos; intros j Hj; try lia.
  destruct (N.eq_dec j 0) as [->|Hj0]; [reflexivity|].
  replace j with (N.succ (N.pred j)) by lia.
  change (Npos q~0) with (N.double (Npos q)). rewrite N.double_spec, N.testbit_even_succ by apply N.le_0_l.
  apply IH. lia.
Qed.
Lemma ctz_pos_lt p : Npos p < two64 -> ctz_pos p < 64.
Proof.
  intros H. destruct (N.lt_ge_cases (ctz_pos p) 64) as [Hl|Hl]; [exact Hl|].
  pose proof (proj1 (lt64_iff _) H _ Hl) as Hb. rewrite ctz_pos_bit in Hb. discriminate.
Qed.

Fixpoint clear_low (p : positive) : N :=
  match p with xH => 0 | xI q => Npos (xO q) | xO q => N.double (clear_low q) end.

Lemma pred_double_succ_double q : Npos (Pos.pred_double q) = N.succ_double (Pos.pred_N q).
Proof. destruct q; reflexivity. Qed.

Lemma land_pred p : N.land (Npos p) (Pos.pred_N p) = clear_low p.
Proof.
  induction p as [q IH|q IH|]; try reflexivity.
  - simpl. change (Pos.land q q) with (N.land (Npos q) (Npos q)). rewrite N.land_diag. reflexivity.
  - change (Pos.pred_N q~0) with (Npos (Pos.pred_double q)). rewrite pred_double_succ_double.
    simpl clear_low. rewrite <- IH. destruct (Pos.pred_N q) as [|r]; reflexivity.
Qed.

Lemma clear_low_spec p i : N.testbit (clear_low p) i = N.testbit (Npos p) i && negb (i =? ctz_pos p).
Proof.
  revert i. induction p as [q IH|q IH|]; intros i; simpl clear_low; simpl ctz_pos.
  - destruct (N.eqb_spec i 0) as [->|Hi]; [reflexivity|].
    replace i with (N.succ (N.pred i)) by lia.
    change (Npos q~0) with (N.double (Npos q)); change (Npos q~1) with (N.succ_double (Npos q)).
    rewrite N.double_spec, N.succ_double_spec, N.testbit_even_succ, N.testbit_odd_succ by apply N.le_0_l.
    rewrite andb_true_r. reflexivity.
  - destruct (N.eq_dec i 0) as [->|Hi].
    + rewrite N.double_spec, N.testbit_even_0. reflexivity.
    + replace i with (N.succ (N.pred i)) at 1 2 by lia.
      change (Npos q~0) with (N.double (Npos q)).
      rewrite !N.double_spec, !N.testbit_even_succ by apply N.le_0_l.
      rewrite IH. f_equal. f_equal. apply eq_true_iff_eq. rewrite !N.eqb_eq. lia.
  - rewrite N.bits_0. destruct (N.eqb_spec i 0) as [->|Hi]; [reflexivity|].
    replace (N.testbit 1 i) with false; [reflexivity|].
    symmetry. apply (N.bits_above_log2 1). simpl. lia.
Qed.

Lemma sub64_one x : 0 < x -> x < two64 -> sub64 x 1 = x - 1.
Proof.
  intros H0 H. unfold sub64. rewrite (trunc64_id 1) by reflexivity.
  rewrite trunc64_mod. replace (x + two64 - 1) with ((x - 1) + 1 * two64) by lia.
  rewrite N.mod_add by (rewrite two64_eq; lia). apply N.mod_small. lia.
Qed.

(* x & (x - 1) clears exactly the lowest set bit *)
Lemma clear_lowest_spec x i : 0 < x -> x < two64 ->
  N.testbit (N.land x (sub64 x 1)) i = N.testbit x i && negb (i =? ctz64 x).
Proof.
  intros H0 H. rewrite sub64_one by assumption. destruct x as [|p]; [lia|].
  replace (Npos p - 1) with (Pos.pred_N p) by (destruct p; simpl; try reflexivity; lia).
  rewrite land_pred. apply clear_low_spec.
Qed.

Lemma ctz64_bit x : 0 < x -> N.testbit x (ctz64 x) = true.
Proof. destruct x; [lia|]. intros _. apply ctz_pos_bit. Qed.
Lemma ctz64_low x j : j < ctz64 x -> N.testbit x j = false.
Proof. destruct x; [intros; apply N.bits_0|]. apply ctz_pos_low. Qed.
Lemma ctz64_lt x : 0 < x -> x < two64 -> ctz64 x < 64.
Proof. destruct x; [lia|]. intros _. apply ctz_pos_lt. Qed.

(* the reference enumeration: members of x in ascending order *)
Lemma bits_pos_spec p k i : In i (bits_pos p k) <-> (k <= i /\ N.testbit (Npos p) (i - k) = true).
Proof.
  revert k i. induction p as [q IH|q IH|]; intros k i; simpl bits_pos.
  - simpl In. rewrite IH. split.
    + intros [<-|[Hk Hb]]; [rewrite N.sub_diag; split; [lia|reflexivity]|].
      split; [lia|]. replace (i - k) with (N.succ (i - N.succ k)) by lia.
      change (Npos q~1) with (N.succ_double (Npos q)). rewrite N.succ_double_spec, N.testbit_odd_succ by apply N.le_0_l. exact Hb.
    + intros [Hk Hb]. destruct (N.eq_dec k i) as [->|Hne]; [left; reflexivity|right].
      split; [lia|]. replace (i - k) with (N.succ (i - N.succ k)) in Hb by lia.
      change (Npos q~1) with (N.succ_double (Npos q)) in Hb. rewrite N.succ_double_spec, N.testbit_odd_succ in Hb by apply N.le_0_l. exact Hb.
  - rewrite IH. split.
    + intros [Hk Hb]. split; [lia|]. replace (i - k) with (N.succ (i - N.succ k)) by lia.
      change (Npos q~0) with (N.double (Npos q)). rewrite N.double_spec, N.testbit_even_succ by apply N.le_0_l. exact Hb.
    + intros [Hk Hb]. destruct (N.eq_dec k i) as [->|Hne].
      * rewrite N.sub_diag in Hb. discriminate.
      * split; [lia|]. replace (i - k) with (N.succ (i - N.succ k)) in Hb by lia.
        change (Npos q~0) with (N.double (Npos q)) in Hb. rewrite N.double_spec, N.testbit_even_succ in Hb by apply N.le_0_l. exact Hb.
  - simpl. split.
    + intros [<-|[]]. rewrite N.sub_diag. split; [lia|reflexivity].
    + intros [Hk Hb]. left. destruct (i - k) eqn:E; [lia|discriminate].
Qed.

Lemma bits_ref_spec x i : In i (bits_ref x) <-> N.testbit x i = true.
Proof.
  destruct x as [|p]; unfold bits_ref.
  - split; [intros []|rewrite N.bits_0; discriminate].
  - rewrite bits_pos_spec, N.sub_0_r. split; [intros [_ H]; exact H|intros H; split; [lia|exact H]].
Qed.

(* strictly ascending *)
Inductive ascending : list N -> Prop :=
| asc_nil : ascending []
| asc_one a : ascending [a]
| asc_cons a b l : a < b -> ascending (b :: l) -> ascending (a :: b :: l).

Lemma bits_pos_lower p k i : In i (bits_pos p k) -> k <= i.
Proof. intros H. apply bits_pos_spec in H. tauto. Qed.
Lemma ascending_cons_lower a l : (forall i, In i l -> a < i) -> ascending l -> ascending (a :: l).
Proof. intros H Hl. destruct l as [|b r]; constructor; [apply H; left; reflexivity|exact Hl]. Qed.
Lemma bits_pos_ascending p k : ascending (bits_pos p k).
Proof.
  revert k. induction p as [q IH|q IH|]; intros k; simpl.
  - apply ascending_cons_lower; [|apply IH]. intros i Hi. apply bits_pos_lower in Hi. lia.
  - apply IH.
  - constructor.
Qed.
Lemma bits_ref_ascending x : ascending (bits_ref x).
Proof. destruct x; [constructor|apply bits_pos_ascending]. Qed.

(* the iterator equals the reference enumeration *)
Lemma clear_low_lt p : clear_low p < Npos p.
Proof.
  induction p as [q IH|q IH|]; simpl clear_low; try lia.
Qed.

Lemma bits_pos_shift p k : bits_pos p (N.succ k) = map N.succ (bits_pos p k).
Proof. revert k. induction p as [q IH|q IH|]; intros k; simpl; rewrite ?IH; reflexivity. Qed.

Lemma bits_ref_step p : bits_ref (Npos p) = ctz_pos p :: bits_ref (clear_low p).
Proof.
  induction p as [q IH|q IH|]; try reflexivity.
  simpl bits_ref in *. simpl bits_pos. simpl ctz_pos. simpl clear_low.
  change 1 with (N.succ 0). rewrite bits_pos_shift, IH. simpl map. f_equal.
  destruct (clear_low q) as [|r]; [reflexivity|]. simpl. change 1 with (N.succ 0). rewrite bits_pos_shift. reflexivity.
Qed.

Lemma popcount_clear p : popcount64 (Npos p) = N.succ (popcount64 (clear_low p)).
Proof.
  induction p as [q IH|q IH|]; try reflexivity.
  simpl in *. rewrite IH. destruct (clear_low q); reflexivity.
Qed.

Lemma length_bits_ref x : N.of_nat (length (bits_ref x)) = popcount64 x.
Proof.
  destruct x as [|p]; [reflexivity|]. simpl.
  assert (G : forall k, N.of_nat (length (bits_pos p k)) = pop_pos p).
  { induction p as [q IH|q IH|]; intros k; cbn [bits_pos pop_pos length]; rewrite ?IH; try reflexivity.
    rewrite Nat2N.inj_succ, IH. reflexivity. }
  apply G.
Qed.

Lemma pop_pos_pos p : 0 < pop_pos p.
Proof. induction p; simpl; lia. Qed.

Lemma bits_iter_ref fuel x : x < two64 -> (N.to_nat (popcount64 x) <= fuel)%nat -> bits_iter fuel x = bits_ref x.
Proof.
  revert x. induction fuel as [|f IH]; intros x Hx Hf.
  - destruct x as [|p]; [reflexivity|]. exfalso. unfold popcount64 in Hf. pose proof (pop_pos_pos p). lia.
  - simpl bits_iter. destruct x as [|p]; [reflexivity|].
    replace (Npos p =? 0) with false by reflexivity.
    rewrite sub64_one by (try exact Hx; lia).
    replace (Npos p - 1) with (Pos.pred_N p) by (destruct p; simpl; try reflexivity; lia).
    rewrite land_pred, bits_ref_step. simpl ctz64. f_equal. apply IH.
    + pose proof (clear_low_lt p). lia.
    + rewrite popcount_clear in Hf. lia.
Qed.

Lemma ascending_tail_gt l b i : ascending (b :: l) -> In i l -> b < i.
Proof.
  revert b i. induction l as [|c l IHl]; intros b i Hasc Hin; [destruct Hin|].
  inversion Hasc as [| |a' b' l' Hab Hr]; subst. destruct Hin as [<-|Hin]; [assumption|].
  specialize (IHl c i Hr Hin). lia.
Qed.

Lemma ascending_bounded_length l k :
  ascending l -> (forall i, In i l -> k <= i < 64) -> k <= 64 -> (length l + N.to_nat k <= 64)%nat.
Proof.
  revert k. induction l as [|a r IH]; intros k Hasc Hb Hk; [simpl; lia|].
  simpl length. assert (Ha := Hb a (or_introl eq_refl)).
  assert (Hr : ascending r) by (inversion Hasc; subst; [constructor|assumption]).
  specialize (IH (N.succ a) Hr).
  assert (length r + N.to_nat (N.succ a) <= 64)%nat.
  { apply IH; [|lia]. intros i Hi. split; [|apply Hb; right; exact Hi].
    pose proof (ascending_tail_gt r a i Hasc Hi). lia. }
  lia.
Qed.

Lemma popcount_le_64 x : x < two64 -> popcount64 x <= 64.
Proof.
  intros H. rewrite <- length_bits_ref.
  assert (length (bits_ref x) + N.to_nat 0 <= 64)%nat.
  { apply ascending_bounded_length; [apply bits_ref_ascending| |lia].
    intros i Hi. apply bits_ref_spec in Hi. split; [lia|].
    destruct (N.lt_ge_cases i 64) as [Hl|Hl]; [exact Hl|]. rewrite (proj1 (lt64_iff x) H i Hl) in Hi. discriminate. }
  lia.
Qed.

Theorem bits_eq_ref x : x < two64 -> bits x = bits_ref x.
Proof. intros H. apply bits_iter_ref; [exact H|]. pose proof (popcount_le_64 x H). lia. Qed.

Theorem bits_spec x i : x < two64 -> (In i (bits x) <-> N.testbit x i = true).
Proof. intros H. rewrite bits_eq_ref by exact H. apply bits_ref_spec. Qed.

(* ---------- all64 ---------- *)
Lemma in_all64 i : In i all64 <-> i < 64.
Proof.
  unfold all64. rewrite in_map_iff. split.
  - intros [n [<- Hn]]. apply in_seq in Hn. lia.
  - intros H. exists (N.to_nat i). split; [apply N2Nat.id|apply in_seq; simpl; lia].
Qed.
Lemma forallb_all64 (f : N -> bool) : forallb f all64 = true -> forall i, i < 64 -> f i = true.
Proof. intros H i Hi. rewrite forallb_forall in H. apply H. apply in_all64. exact Hi. Qed.

(* ---------- additive lifting: an OR-homomorphic function on bitboards is decided by its 64 single-bit inputs ---------- *)
Definition additive (F : N -> N) : Prop := F 0 = 0 /\ forall a b, F (N.lor a b) = N.lor (F a) (F b).

Lemma lor_fold_testbit (l : list N) (G : N -> N) x :
  N.testbit (fold_right (fun e acc => N.lor (G e) acc) 0 l) x = existsb (fun e => N.testbit (G e) x) l.
Proof. induction l as [|e r IH]; cbn [fold_right existsb]; [apply N.bits_0|]. rewrite N.lor_spec, IH. reflexivity. Qed.

Lemma decompose_bits m : m < two64 -> m = fold_right (fun e acc => N.lor (bit e) acc) 0 (bits_ref m).
Proof.
  intros Hm. apply N.bits_inj. intros i. rewrite (lor_fold_testbit (bits_ref m) bit i).
  destruct (N.testbit m i) eqn:Hb.
  - symmetry. apply existsb_exists. exists i. split; [apply bits_ref_spec; exact Hb|].
    rewrite bit_spec; [apply N.eqb_refl|].
    destruct (N.lt_ge_cases i 64) as [Hl|Hl]; [exact Hl|]. rewrite (proj1 (lt64_iff m) Hm i Hl) in Hb. discriminate.
  - symmetry. apply not_true_is_false. intros H. apply existsb_exists in H. destruct H as [e [He Hbit]].
    apply bits_ref_spec in He.
    assert (He64 : e < 64). { destruct (N.lt_ge_cases e 64) as [Hl|Hl]; [exact Hl|]. rewrite (proj1 (lt64_iff m) Hm e Hl) in He. discriminate. }
    rewrite bit_spec in Hbit by exact He64. apply N.eqb_eq in Hbit. subst. congruence.
Qed.

Lemma additive_fold F : additive F -> forall l, F (fold_right (fun e acc => N.lor (bit e) acc) 0 l) = fold_right (fun e acc => N.lor (F (bit e)) acc) 0 l.
Proof. intros [H0 Hor] l. induction l as [|e r IH]; cbn [fold_right]; [exact H0|]. rewrite Hor, IH. reflexivity. Qed.

Theorem additive_lift F : additive F -> forall m x, m < two64 ->
  N.testbit (F m) x = existsb (fun e => N.testbit m e && N.testbit (F (bit e)) x) all64.
Proof.
  intros HF m x Hm. rewrite (decompose_bits m Hm) at 1. rewrite (additive_fold F HF).
  rewrite (lor_fold_testbit (bits_ref m) (fun e => F (bit e)) x).
  apply eq_true_iff_eq. rewrite !existsb_exists. split.
  - intros [e [He Hb]]. apply bits_ref_spec in He. exists e. split.
    + apply in_all64. destruct (N.lt_ge_cases e 64) as [Hl|Hl]; [exact Hl|]. rewrite (proj1 (lt64_iff m) Hm e Hl) in He. discriminate.
    + rewrite He. exact Hb.
  - intros [e [_ Hb]]. apply andb_true_iff in Hb. destruct Hb as [H1 H2]. exists e. split; [apply bits_ref_spec; exact H1|exact H2].
Qed.

(* soundness of the iterator without any size hypothesis: it only ever yields members *)
Lemma bits_iter_sound fuel x i : In i (bits_iter fuel x) -> N.testbit x i = true.
Proof.
  revert x. induction fuel as [|f IH]; intros x H; [destruct H|].
  cbn [bits_iter] in H. destruct (N.eqb_spec x 0) as [E|E]; [destruct H|].
  destruct H as [<-|H]; [apply ctz64_bit; lia|].
  apply IH in H. rewrite N.land_spec in H. apply andb_true_iff in H. tauto.
Qed.
Lemma bits_sound x i : In i (bits x) -> N.testbit x i = true.
Proof. apply bits_iter_sound. Qed.
