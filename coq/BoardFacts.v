(* BoardFacts.v — algebra of the board record: reading colours_/pieces_ after XOR/OR updates. *)
From Coq Require Import NArith List Bool Lia Btauto.
From LC Require Import Bits BitsFacts Types BitboardModel PositionModel.
Import ListNotations.
Local Open Scope N_scope.

Lemma board_ext b1 b2 :
  (forall s, colour b1 s = colour b2 s) -> (forall p, p <> NoPiece -> pcs b1 p = pcs b2 p) -> b1 = b2.
Proof.
  intros Hc Hp. destruct b1, b2.
  pose proof (Hc White) as E1. pose proof (Hc Black) as E2.
  pose proof (Hp Pawn ltac:(discriminate)) as E3. pose proof (Hp Knight ltac:(discriminate)) as E4.
  pose proof (Hp Bishop ltac:(discriminate)) as E5. pose proof (Hp Rook ltac:(discriminate)) as E6.
  pose proof (Hp Queen ltac:(discriminate)) as E7. pose proof (Hp King ltac:(discriminate)) as E8.
  cbn in *. subst. reflexivity.
Qed.

Lemma colour_upd_colour b s f s' : colour (upd_colour b s f) s' = if side_eqb s s' then f (colour b s') else colour b s'.
Proof. destruct b, s, s'; reflexivity. Qed.
Lemma colour_upd_pcs b p f s' : colour (upd_pcs b p f) s' = colour b s'.
Proof. destruct b, p, s'; reflexivity. Qed.
Lemma pcs_upd_colour b s f q : pcs (upd_colour b s f) q = pcs b q.
Proof. destruct b, s, q; reflexivity. Qed.
Lemma pcs_upd_pcs b p f q : q <> NoPiece -> pcs (upd_pcs b p f) q = if piece_eqb p q then f (pcs b q) else pcs b q.
Proof. intros Hq. destruct b, p, q; try reflexivity; congruence. Qed.

Lemma colour_xor_colour b s x s' : colour (xor_colour b s x) s' = if side_eqb s s' then N.lxor (colour b s') x else colour b s'.
Proof. apply colour_upd_colour. Qed.
Lemma colour_xor_pcs b p x s' : colour (xor_pcs b p x) s' = colour b s'.
Proof. apply colour_upd_pcs. Qed.
Lemma pcs_xor_colour b s x q : pcs (xor_colour b s x) q = pcs b q.
Proof. apply pcs_upd_colour. Qed.
Lemma pcs_xor_pcs b p x q : q <> NoPiece -> pcs (xor_pcs b p x) q = if piece_eqb p q then N.lxor (pcs b q) x else pcs b q.
Proof. apply pcs_upd_pcs. Qed.

Lemma piece_eqb_refl p : piece_eqb p p = true. Proof. destruct p; reflexivity. Qed.
Lemma piece_eqb_true a b : piece_eqb a b = true -> a = b.
Proof. destruct a, b; simpl; intros H; try reflexivity; discriminate. Qed.
Lemma side_eqb_refl s : side_eqb s s = true. Proof. destruct s; reflexivity. Qed.
Lemma side_eqb_opp s : side_eqb s (opp_side s) = false. Proof. destruct s; reflexivity. Qed.
Lemma side_eqb_opp' s : side_eqb (opp_side s) s = false. Proof. destruct s; reflexivity. Qed.
Lemma side_eqb_sym_lemma a b : side_eqb a b = side_eqb b a. Proof. destruct a, b; reflexivity. Qed.
Lemma piece_eqb_sym_lemma a b : piece_eqb a b = piece_eqb b a. Proof. destruct a, b; reflexivity. Qed.

Ltac read_board :=
  repeat first [ rewrite colour_xor_colour | rewrite colour_xor_pcs | rewrite pcs_xor_colour | rewrite pcs_xor_pcs by assumption ].

Ltac split_ifs :=
  repeat match goal with
         | |- context [if side_eqb ?a ?b then _ else _] => destruct (side_eqb a b) eqn:?
         | |- context [if piece_eqb ?a ?b then _ else _] => destruct (piece_eqb a b) eqn:?
         end.

