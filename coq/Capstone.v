(* Capstone.v — the entry point: set_fen lands in the domain of the big theorems, and the end-to-end corollaries. *)
From Coq Require Import NArith ZArith List Bool Lia.
From Coq Require Import ZifyBool ZifyN ZifyNat.
From LC Require Import Bits BitsFacts Types BitboardModel BitboardFacts MoveModel MagicModel ZobristModel PositionModel FenModel
  MovegenModel MakeModel GameModel GameFacts
  Spec.Rules Spec.Game Spec.Fen Refine.Abs Refine.Board Refine.Wf Refine.MakeAbs Refine.SpecFits KingFacts HashFacts FenFacts FenCodecFacts
  FenRoundTrip LcStep PerftExact TextExact LegalFinal ValidExact.
Import ListNotations.
Local Open Scope N_scope.
Local Strategy 1000 [squares all64 seq].

(* ================= 1. the stored castling-rook squares are always squares ================= *)
Definition crok (cr : crights) : Prop := q0 cr < 64 /\ q1 cr < 64 /\ q2 cr < 64 /\ q3 cr < 64.

Lemma cr_grant_ok cr i sq : crok cr -> sq < 64 -> crok (cr_grant cr i sq).
Proof.
  unfold crok, cr_grant. intros (E0 & E1 & E2 & E3) Hs.
  repeat match goal with |- context [match ?x with _ => _ end] => destruct x end; cbn [q0 q1 q2 q3]; repeat split; assumption.
Qed.

Lemma west_lt' a : west a < two64.
Proof. unfold west. rewrite N.land_comm. apply land_lt. unfold not_file_h. apply not64_lt. Qed.

Lemma scan_rooks_ok fuel step rooks i : (forall x, step x < two64) ->
  forall bb cr, crok cr -> crok (scan_rooks fuel step bb rooks i cr).
Proof.
  intros Hstep. induction fuel as [|f IH]; intros bb cr H; [exact H|]. cbn [scan_rooks].
  destruct (bb_nonempty bb); [|exact H]. apply IH.
  destruct (bb_nonempty (N.land (step bb) rooks)) eqn:E; [|exact H]. apply cr_grant_ok; [exact H|].
  unfold bb_nonempty in E. apply negb_true_iff in E. apply N.eqb_neq in E.
  apply (bb_lsb_spec (N.land (step bb) rooks)); [lia|]. apply land_lt. apply Hstep.
Qed.

Lemma castle_char_ok dfrc wk bk wr br cr c : crok cr -> crok (castle_char dfrc wk bk wr br cr c).
Proof.
  intros H. unfold castle_char. destruct dfrc.
  - destruct ((65 <=? c) && (c <=? 72)) eqn:E1.
    { cbv zeta. assert (Hs : sq_of_int (c - 65) < 64) by (unfold sq_of_int; rewrite u8_small; lia).
      repeat match goal with |- crok (if ?b then _ else _) => destruct b end; try exact H; apply cr_grant_ok; assumption. }
    destruct ((97 <=? c) && (c <=? 104)) eqn:E2.
    { cbv zeta. assert (Hs : sq_of_int (56 + c - 97) < 64) by (unfold sq_of_int; rewrite u8_small; lia).
      repeat match goal with |- crok (if ?b then _ else _) => destruct b end; try exact H; apply cr_grant_ok; assumption. }
    repeat match goal with |- crok (if ?b then _ else _) => destruct b end; try exact H;
      apply scan_rooks_ok; try exact H; first [exact east_lt | exact west_lt'].
  - repeat match goal with |- crok (if ?b then _ else _) => destruct b end; try exact H; apply cr_grant_ok; try exact H; lia.
Qed.

Lemma castle_fold_ok dfrc wk bk wr br w : forall cr, crok cr -> crok (fold_left (castle_char dfrc wk bk wr br) w cr).
Proof. induction w as [|c r IH]; intros cr H; [exact H|]. cbn [fold_left]. apply IH, castle_char_ok, H. Qed.

Section Entry.
Variable K : zkeys.

Theorem set_fen_body_rooks_ok old fen dfrc : rooks_ok old -> rooks_ok (set_fen_body K old fen dfrc).
Proof.
  intros Ho. unfold set_fen_body.
  repeat match goal with |- context [let '(_, _) := ?x in _] => destruct x end.
  cbv zeta. unfold rooks_ok. cbn [r0 r1 r2 r3].
  match goal with |- q0 ?cr < 64 /\ _ => change (crok cr) end.
  assert (H0 : crok (mkCR false false false false (r0 old) (r1 old) (r2 old) (r3 old))) by exact Ho.
  match goal with |- crok (if ?b then _ else _) => destruct b end; [|exact H0].
  apply castle_fold_ok. exact H0.
Qed.

(* set_fen on ANY object whose stored rook squares are squares, for EVERY string *)
Theorem set_fen_on_rooks_ok old fen dfrc : rooks_ok old -> rooks_ok (set_fen_on K old fen dfrc).
Proof. intros Ho. unfold set_fen_on. destruct (str_eqb fen startpos_str); apply set_fen_body_rooks_ok; exact Ho. Qed.

Lemma fresh_rooks_ok : rooks_ok fresh_position.
Proof. unfold rooks_ok, fresh_position. cbn [r0 r1 r2 r3]. lia. Qed.

(* set_fen on a fresh object, for EVERY string *)
Theorem set_fen_rooks_ok fen dfrc : rooks_ok (set_fen K fen dfrc).
Proof. apply set_fen_on_rooks_ok. exact fresh_rooks_ok. Qed.

(* ================= 2. a well-formed FEN of a legal-consistent position is a start position of the domain ================= *)
(* both kings, from the king-count conjuncts of legal_consistent, directly on a specification position *)
Lemma lc_kings dfrc s : legal_consistent dfrc s = true ->
  find_king (s_board s) White <> None /\ find_king (s_board s) Black <> None.
Proof.
  intros H. apply lc_all in H. destruct H as (_ & Hw & Hb & _). split.
  - destruct (one_king_found (s_board s) White (fun c => match c with Some (White, King) => true | _ => false end)) as [k [E _]];
      [intros [[[] []]|]; reflexivity|exact Hw|]. rewrite E. discriminate.
  - destruct (one_king_found (s_board s) Black (fun c => match c with Some (Black, King) => true | _ => false end)) as [k [E _]];
      [intros [[[] []]|]; reflexivity|exact Hb|]. rewrite E. discriminate.
Qed.

Theorem fen_start_in_domain dfrc ranks T C E H F s :
  length ranks = 8%nat -> Forall rank_ok ranks ->
  T <> [] -> vis T -> C <> [] -> vis C -> ep_word_ok E -> digits H -> H <> [] -> digits F -> F <> [] ->
  let fen := join 32 [join 47 ranks; T; C; E; H; F] in
  of_fen dfrc fen = Some s -> legal_consistent dfrc s = true ->
  let p := set_fen K fen dfrc in
  dom K dfrc p /\ history p = [] /\ abs p = s /\ valid K p = true.
Proof.
  intros Hlen Hok HT HT' HC HC' HE HH HH' HF HF' fen Hof Hlc p.
  destruct (set_fen_of_fen K dfrc ranks T C E H F s Hlen Hok HT HT' HC HC' HE HH HH' HF HF' Hof (fun _ => lc_kings dfrc s Hlc)) as [Ha Hw].
  fold fen in Ha, Hw. fold p in Ha, Hw.
  assert (Hr : rooks_ok p) by apply set_fen_rooks_ok.
  assert (Hh : hash_ok K p) by (apply (set_fen_hash_ok K fresh_position fen dfrc)).
  assert (Hl : legal_consistent dfrc (abs p) = true) by (rewrite Ha; exact Hlc).
  split; [|split; [|split]].
  - split; [exact Hw|]. split; [exact Hr|]. split; [exact Hh|exact Hl].
  - apply set_fen_history.
  - exact Ha.
  - exact (valid_complete K dfrc p Hw Hr Hh Hl).
Qed.

(* ---- the standard start position ---- *)
Definition start_ranks : list sstr :=
  [[114;110;98;113;107;98;110;114]; [112;112;112;112;112;112;112;112]; [56]; [56]; [56]; [56];
   [80;80;80;80;80;80;80;80]; [82;78;66;81;75;66;78;82]].
Lemma startpos_fen_fields : startpos_fen = join 32 [join 47 start_ranks; [119]; [75;81;107;113]; [45]; [48]; [49]].
Proof. reflexivity. Qed.

(* the specification's decoding of the standard FEN (independent of K) *)
Definition start_spos : spos :=
  match of_fen false startpos_fen with Some s => s | None => mkS [] White None None None None None 0 0 end.
Lemma of_fen_startpos d : of_fen d startpos_fen = Some start_spos.
Proof. destruct d; vm_compute; reflexivity. Qed.
Lemma start_spos_lc d : legal_consistent d start_spos = true.
Proof. destruct d; vm_compute; reflexivity. Qed.

Lemma start_ranks_ok : Forall rank_ok start_ranks.
Proof.
  unfold start_ranks.
  repeat (apply Forall_cons; [split; [repeat (apply Forall_cons; [first [left; vm_compute; discriminate|right; lia]|]); apply Forall_nil|reflexivity]|]).
  apply Forall_nil.
Qed.

(* the standard start position is in the domain, in either mode (both the FEN and the "startpos" keyword) *)
Theorem startpos_in_domain d :
  let p := set_fen K startpos_fen false in
  dom K d p /\ history p = [] /\ abs p = start_spos /\ valid K p = true.
Proof.
  cbv zeta.
  assert (V : forall w : list N, Forall (fun c => 33 <= c) w -> vis w) by (intros w Hw; exact Hw).
  assert (D : forall w : list N, Forall (fun c => 48 <= c /\ c <= 57) w -> digits w) by (intros w Hw; exact Hw).
  assert (X : dom K false (set_fen K startpos_fen false) /\ history (set_fen K startpos_fen false) = [] /\
              abs (set_fen K startpos_fen false) = start_spos /\ valid K (set_fen K startpos_fen false) = true).
  { exact (fen_start_in_domain false start_ranks [119] [75;81;107;113] [45] [48] [49] start_spos
    eq_refl start_ranks_ok
    ltac:(discriminate) (V [119] ltac:(repeat (constructor; [lia|]); constructor))
    ltac:(discriminate) (V [75;81;107;113] ltac:(repeat (constructor; [lia|]); constructor))
    (or_introl eq_refl)
    (D [48] ltac:(repeat (constructor; [lia|]); constructor)) ltac:(discriminate)
    (D [49] ltac:(repeat (constructor; [lia|]); constructor)) ltac:(discriminate)
    (of_fen_startpos false) (start_spos_lc false)). }
  destruct X as ((Hw & Hr & Hh & _) & Hhi & Ha & _).
  assert (Hl : legal_consistent d (abs (set_fen K startpos_fen false)) = true) by (rewrite Ha; apply start_spos_lc).
  split; [|split; [|split]].
  - split; [exact Hw|]. split; [exact Hr|]. split; [exact Hh|exact Hl].
  - exact Hhi.
  - exact Ha.
  - exact (valid_complete K d _ Hw Hr Hh Hl).
Qed.

Theorem startpos_keyword_in_domain mode d :
  let p := set_fen K startpos_str mode in
  dom K d p /\ history p = [] /\ abs p = start_spos /\ valid K p = true.
Proof. cbv zeta. rewrite (startpos_is_standard K mode). exact (startpos_in_domain d). Qed.

End Entry.

(* ================= 3. end to end ================= *)
(* the specification side of a history: positions reached by legal moves of the rules, by passing when not in check,
   and by taking back (pop) — no bitboards, no hashing, no history vector *)
Inductive shist (s0 : spos) : spos -> list spos -> Prop :=
| sh_start : shist s0 s0 []
| sh_move s st m : shist s0 s st -> In m (spec_moves s) -> shist s0 (apply_move s m) (s :: st)
| sh_null s st : shist s0 s st -> spec_in_check s = false -> shist s0 (apply_null s) (s :: st)
| sh_undo s q st : shist s0 s (q :: st) -> shist s0 q st.

Section EndToEnd.
Variable K : zkeys.
Variable dfrc : bool.

(* everything the big theorems say about ONE position of the domain *)
Definition position_facts (p : position) : Prop :=
  (NoDup (legal_moves p) /\ forall m, In m (legal_moves p) <-> In m (spec_moves (abs p))) /\
  (forall d, fst (perft K d p) = spec_perft d (abs p) /\ snd (perft K d p) = p) /\
  hash p = calculate_hash K p /\ valid K p = true /\
  (forall m, In m (legal_moves p) -> parse_move p (MoveModel.move_text m) = Some m) /\
  (forall m, is_legal p m = spec_legal (abs p) m) /\
  in_check p = spec_in_check (abs p) /\
  is_checkmate p = spec_checkmate (abs p) /\ is_stalemate p = spec_stalemate (abs p) /\
  (let q := set_fen K (get_fen p dfrc) dfrc in abs q = abs p /\ get_fen q dfrc = get_fen p dfrc) /\
  (forall m, In m (legal_moves p) -> abs (makemove K p m) = apply_move (abs p) m /\ undomove (makemove K p m) = p) /\
  (in_check p = false -> abs (makenull K p) = apply_null (abs p) /\ undonull (makenull K p) = p) /\
  legal_consistent dfrc (abs p) = true.

Theorem domain_facts p : dom K dfrc p -> position_facts p.
Proof.
  intros Hd. pose proof Hd as (Hw & Hr & Hh & Hl). unfold position_facts.
  split; [exact (legal_moves_exact dfrc p Hw Hr Hl)|].
  split; [intros d; split; [exact (perft_counts_rule_sequences K dfrc d p Hw Hr Hl)|apply perft_restores]|].
  split; [exact Hh|].
  split; [exact (valid_complete K dfrc p Hw Hr Hh Hl)|].
  split; [intros m; exact (parse_text_returns_move dfrc p m Hw Hr Hl)|].
  split; [intros m; exact (is_legal_rules dfrc p m Hw Hr Hl)|].
  split; [exact (in_check_spec dfrc p Hw Hl)|].
  split; [exact (checkmate_spec dfrc p Hw Hr Hl)|].
  split; [exact (stalemate_spec dfrc p Hw Hr Hl)|].
  split; [destruct (fen_round_trip K dfrc p Hl) as (A & _ & _ & _ & B); split; [exact A|exact B]|].
  split; [intros m Hin; destruct (dom_move K dfrc p m Hd Hin) as (_ & A & B); split; [exact A|exact B]|].
  split; [intros Hc; destruct (dom_null K dfrc p Hd Hc) as (_ & A & B); split; [exact A|exact B]|].
  exact Hl.
Qed.

(* the model's history refines a history of the specification, step by step *)
Theorem hist_refines p0 p st : dom K dfrc p0 -> hist K p0 p st ->
  shist (abs p0) (abs p) (map (fun x => abs (fst x)) st).
Proof.
  intros H0 H. induction H as [|p st m H IH Hin|p st H IH Hc|p q st H IH|p q st H IH].
  - apply sh_start.
  - pose proof (proj1 (hist_coherent K dfrc p0 p st H0 H)) as Hd.
    destruct (dom_move K dfrc p m Hd Hin) as (_ & Ea & _). rewrite Ea. cbn [map fst].
    apply sh_move; [exact IH|]. destruct Hd as (Hw & Hr & _ & Hl). apply (proj2 (legal_moves_exact dfrc p Hw Hr Hl)). exact Hin.
  - pose proof (proj1 (hist_coherent K dfrc p0 p st H0 H)) as Hd.
    destruct (dom_null K dfrc p Hd Hc) as (_ & Ea & _). rewrite Ea. cbn [map fst].
    apply sh_null; [exact IH|]. destruct Hd as (Hw & _ & _ & Hl). rewrite <- (in_check_spec dfrc p Hw Hl). exact Hc.
  - rewrite (proj1 (hist_undo_exact K dfrc p0 p q st H0 H)). cbn [map fst] in IH. exact (sh_undo _ _ _ _ IH).
  - rewrite (proj1 (hist_undonull_exact K dfrc p0 p q st H0 H)). cbn [map fst] in IH. exact (sh_undo _ _ _ _ IH).
Qed.

Theorem hist_facts p0 p st : dom K dfrc p0 -> history p0 = [] -> hist K p0 p st ->
  position_facts p /\ shist (abs p0) (abs p) (map (fun x => abs (fst x)) st) /\ length (history p) = length st.
Proof.
  intros H0 He H. split; [|split].
  - apply domain_facts. exact (proj1 (hist_coherent K dfrc p0 p st H0 H)).
  - exact (hist_refines p0 p st H0 H).
  - exact (hist_history_length K dfrc p0 p st H0 He H).
Qed.

(* THE END-TO-END THEOREM.  Start: any six-field FEN (placement of eight ranks each eight wide, side word, castling word
   in any of the three notations, en-passant word, two clocks) that the SPECIFICATION decodes to a legal-consistent
   position s0.  Then set_fen builds a position that refines s0, and at every point of every history — generated moves,
   null moves out of check, undos, arbitrarily interleaved — the library's answers are the answers of the rules. *)
Theorem end_to_end ranks T C E H F s0 :
  length ranks = 8%nat -> Forall rank_ok ranks ->
  T <> [] -> vis T -> C <> [] -> vis C -> ep_word_ok E -> digits H -> H <> [] -> digits F -> F <> [] ->
  let fen := join 32 [join 47 ranks; T; C; E; H; F] in
  of_fen dfrc fen = Some s0 -> legal_consistent dfrc s0 = true ->
  let p0 := set_fen K fen dfrc in
  abs p0 = s0 /\ history p0 = [] /\
  forall p st, hist K p0 p st ->
    (* move generation is exactly the rules, without repetition *)
    (NoDup (legal_moves p) /\ forall m, In m (legal_moves p) <-> In m (spec_moves (abs p))) /\
    (* perft counts the rule sequences and leaves the object unchanged *)
    (forall d, fst (perft K d p) = spec_perft d (abs p) /\ snd (perft K d p) = p) /\
    (* the incremental hash is the recomputed hash; valid() holds *)
    hash p = calculate_hash K p /\ valid K p = true /\
    (* the text of a generated move parses back to that move; is_legal, check, mate and stalemate are those of the rules *)
    (forall m, In m (legal_moves p) -> parse_move p (MoveModel.move_text m) = Some m) /\
    (forall m, is_legal p m = spec_legal (abs p) m) /\
    in_check p = spec_in_check (abs p) /\
    is_checkmate p = spec_checkmate (abs p) /\ is_stalemate p = spec_stalemate (abs p) /\
    (* FEN round trip *)
    (let q := set_fen K (get_fen p dfrc) dfrc in abs q = abs p /\ get_fen q dfrc = get_fen p dfrc) /\
    (* each further step is the step of the rules and is undone exactly *)
    (forall m, In m (legal_moves p) -> abs (makemove K p m) = apply_move (abs p) m /\ undomove (makemove K p m) = p) /\
    (in_check p = false -> abs (makenull K p) = apply_null (abs p) /\ undonull (makenull K p) = p) /\
    legal_consistent dfrc (abs p) = true /\
    (* the abstract position is what the rules reach from s0 by the same operations; one history record per open operation *)
    shist s0 (abs p) (map (fun x => abs (fst x)) st) /\ length (history p) = length st.
Proof.
  intros Hlen Hok HT HT' HC HC' HE HH HH' HF HF' fen Hof Hlc p0.
  destruct (fen_start_in_domain K dfrc ranks T C E H F s0 Hlen Hok HT HT' HC HC' HE HH HH' HF HF' Hof Hlc) as (Hd & Hhi & Ha & _).
  fold fen in Hd, Hhi, Ha. fold p0 in Hd, Hhi, Ha.
  split; [exact Ha|]. split; [exact Hhi|]. intros p st Hh.
  destruct (hist_facts p0 p st Hd Hhi Hh) as (A & B & Cc). rewrite Ha in B. unfold position_facts in A.
  repeat match type of A with _ /\ _ => let X := fresh "X" in destruct A as [X A]; split; [exact X|] end.
  split; [exact A|]. split; [exact B|exact Cc].
Qed.
End EndToEnd.

(* the instance for the standard start position (FEN or the "startpos" keyword; the flag [mode] given to set_fen is
   irrelevant for the keyword) and an explicit list of operations; [d] is the mode in which the game is then played *)
Theorem end_to_end_startpos K d ops :
  let p0 := set_fen K startpos_fen false in
  hops_ok K (p0, []) ops ->
  let p := fst (hrun K ops (p0, [])) in
  let st := snd (hrun K ops (p0, [])) in
  (forall mode, set_fen K startpos_str mode = p0) /\ abs p0 = start_spos /\
  (NoDup (legal_moves p) /\ forall m, In m (legal_moves p) <-> In m (spec_moves (abs p))) /\
  (forall n, fst (perft K n p) = spec_perft n (abs p) /\ snd (perft K n p) = p) /\
  hash p = calculate_hash K p /\ valid K p = true /\
  (forall m, In m (legal_moves p) -> parse_move p (MoveModel.move_text m) = Some m) /\
  (forall m, is_legal p m = spec_legal (abs p) m) /\
  in_check p = spec_in_check (abs p) /\
  is_checkmate p = spec_checkmate (abs p) /\ is_stalemate p = spec_stalemate (abs p) /\
  (let q := set_fen K (get_fen p d) d in abs q = abs p /\ get_fen q d = get_fen p d) /\
  (forall m, In m (legal_moves p) -> abs (makemove K p m) = apply_move (abs p) m /\ undomove (makemove K p m) = p) /\
  (in_check p = false -> abs (makenull K p) = apply_null (abs p) /\ undonull (makenull K p) = p) /\
  legal_consistent d (abs p) = true /\
  shist start_spos (abs p) (map (fun x => abs (fst x)) st) /\ length (history p) = length st.
Proof.
  intros p0 Hok p st.
  destruct (startpos_in_domain K d) as (Hd & Hhi & Ha & _). fold p0 in Hd, Hhi, Ha.
  split; [intros mode; exact (startpos_is_standard K mode)|]. split; [exact Ha|].
  pose proof (hrun_hist K p0 ops (p0, []) (hist_start K p0) Hok) as Hh. fold p in Hh. fold st in Hh.
  destruct (hist_facts K d p0 p st Hd Hhi Hh) as (A & B & Cc). rewrite Ha in B. unfold position_facts in A.
  repeat match type of A with _ /\ _ => let X := fresh "X" in destruct A as [X A]; split; [exact X|] end.
  split; [exact A|]. split; [exact B|exact Cc].
Qed.

(* sanity: the numbers a reader knows, now for the LIBRARY's perft (the specification's counts by evaluation) *)
Lemma start_spos_counts : spec_perft 1 start_spos = 20 /\ spec_perft 2 start_spos = 400 /\ spec_perft 3 start_spos = 8902.
Proof. vm_cast_no_check (conj (@eq_refl N 20) (conj (@eq_refl N 400) (@eq_refl N 8902))). Qed.

Example startpos_perft K : let p0 := set_fen K startpos_fen false in
  fst (perft K 1 p0) = 20 /\ fst (perft K 2 p0) = 400 /\ fst (perft K 3 p0) = 8902.
Proof.
  intros p0. destruct (startpos_in_domain K false) as ((Hw & Hr & _ & Hl) & _ & Ha & _). fold p0 in Hw, Hr, Hl, Ha.
  pose proof (fun n => perft_counts_rule_sequences K false n p0 Hw Hr Hl) as Hp.
  destruct start_spos_counts as (C1 & C2 & C3).
  split; [|split].
  - transitivity (spec_perft 1 (abs p0)); [exact (Hp 1%nat)|]. rewrite Ha. exact C1.
  - transitivity (spec_perft 2 (abs p0)); [exact (Hp 2%nat)|]. rewrite Ha. exact C2.
  - transitivity (spec_perft 3 (abs p0)); [exact (Hp 3%nat)|]. rewrite Ha. exact C3.
Qed.

Print Assumptions set_fen_rooks_ok.
Print Assumptions fen_start_in_domain.
Print Assumptions startpos_keyword_in_domain.
Print Assumptions end_to_end.
Print Assumptions end_to_end_startpos.
Print Assumptions startpos_perft.
