(* CastleExact.v — C01: castling (standard chess and Chess960).  Outside double check the castling generator emits a move
   iff the rules say that castling move is legal.
   (1) what a set right means (legal-consistency), (2) the generator's bitboard tests read on the mailbox are the conditions of
   [castle_candidate], (3) [leaves_king_safe] of the castling move <-> the rook is not pinned on the king's rank, (4) glue. *)
From Coq Require Import NArith ZArith List Bool Lia.
From Coq Require Import ZifyBool ZifyN ZifyNat.
From LC Require Import Bits BitsFacts Types BitboardModel BitboardFacts MoveModel MoveFacts MagicModel MagicFacts PositionModel MovegenModel MovegenFacts BoardFacts
  Spec.Rules Refine.Abs Refine.Board Refine.Make Refine.Wf Refine.MakeAbs Refine.SpecFits AttackFacts PinFacts KingFacts SafetyFacts LegalFacts LegalCore.
Import ListNotations.
Local Open Scope N_scope.
Local Strategy 1000 [squares all64 seq].

(* ---------- small generalities ---------- *)
Lemma between_same a : between a a = [].
Proof. unfold between. rewrite N.eqb_refl. reflexivity. Qed.

Lemma in_path_to a b x : a < 64 -> b < 64 -> (In x (path_to a b) <-> (In x (between a b) \/ x = b) /\ x <> a).
Proof.
  intros Ha Hb. unfold path_to. destruct (N.eqb_spec a b) as [->|Hne].
  - rewrite between_same. split; [intros []|]. intros [[[]|E] N]; contradiction.
  - rewrite in_app_iff. destruct (between_geo a b Ha Hb) as (_ & Hna & _). split.
    + intros [H|[<-|[]]]; (split; [tauto|]); [intros ->; contradiction|congruence].
    + intros [[H| ->] _]; [left; exact H|right; left; reflexivity].
Qed.

Lemma path_to_lt a b x : a < 64 -> b < 64 -> In x (path_to a b) -> x < 64.
Proof.
  intros Ha Hb H. apply (in_path_to a b x Ha Hb) in H. destruct H as [[H| ->] _]; [apply (AttackFacts.between_lt a b x Ha Hb H)|exact Hb].
Qed.

Lemma squares_between_lt a b : a < 64 -> b < 64 -> squares_between a b < two64.
Proof. intros Ha Hb. pose proof (forallb_all64 _ (forallb_all64 _ squares_between_lt_sweep a Ha) b Hb) as H. cbv beta in H. apply N.ltb_lt in H. exact H. Qed.

Lemma squares_between_bit a b x : a < 64 -> b < 64 -> (N.testbit (squares_between a b) x = true <-> In x (between a b)).
Proof. intros Ha Hb. pose proof (squares_between_exact a b x Ha Hb) as H. unfold mem in H. rewrite H. symmetry. apply in_existsb. Qed.

Lemma bb_empty_land_l A B : A < two64 ->
  (bb_empty (N.land A B) = true <-> forall x, x < 64 -> N.testbit A x = true -> N.testbit B x = false).
Proof.
  intros HA. rewrite bb_empty_spec. unfold mem. split.
  - intros H x _ Ha. specialize (H x). rewrite N.land_spec, Ha in H. exact H.
  - intros H i. rewrite N.land_spec. destruct (N.lt_ge_cases i 64) as [Hi|Hi].
    + destruct (N.testbit A i) eqn:E; [|reflexivity]. rewrite (H i Hi E). reflexivity.
    + rewrite (proj1 (lt64_iff A) HA i Hi). reflexivity.
Qed.

Lemma forallb_false_ex {A} (P : A -> bool) l : forallb P l = false -> exists x, In x l /\ P x = false.
Proof.
  induction l as [|x r IH]; [discriminate|]. cbn [forallb]. intros H. destruct (P x) eqn:E.
  - destruct (IH H) as [y [Hy Py]]. exists y. split; [right; exact Hy|exact Py].
  - exists x. split; [left; reflexivity|exact E].
Qed.

Lemma in_if_nil {A} (c : bool) (l : list A) x : In x (if c then l else []) <-> c = true /\ In x l.
Proof. destruct c; cbn [In]; split; try tauto; intros [H _]; discriminate. Qed.
Lemma in_single {A} (x y : A) : In x [y] <-> x = y.
Proof. cbn [In]. split; [intros [H|[]]; symmetry; exact H|intros H; left; symmetry; exact H]. Qed.

Lemma castle_candidate_some sp mt rsq ksq kd rd :
  find_king (s_board sp) (s_turn sp) = Some ksq -> castle_dest (s_turn sp) mt = (kd, rd) ->
  castle_candidate sp mt (Some rsq) =
  if negb (attacked (s_board sp) ksq (opp_side (s_turn sp))) &&
     forallb (fun q => (q =? ksq) || (q =? rsq) || is_empty (s_board sp) q) (path_to ksq kd) &&
     forallb (fun q => (q =? ksq) || (q =? rsq) || is_empty (s_board sp) q) (path_to rsq rd) &&
     forallb (fun q => negb (attacked (s_board sp) q (opp_side (s_turn sp)))) (path_to ksq kd)
  then [mkMove mt ksq rsq King NoPiece NoPiece] else [].
Proof. intros H1 H2. unfold castle_candidate. rewrite H1, H2. reflexivity. Qed.

(* ---------- the geometry of a right ---------- *)
Definition home (s : side) : N := match s with White => 0 | Black => 7 end.
Definition geo (s : side) (mt : mtype) (k rf : N) : bool :=
  (rankof k =? home s) && (rankof rf =? home s) &&
  (match mt with Ksc => fileof k <? fileof rf | _ => fileof rf <? fileof k end).

Lemma castle_dest_facts s mt kd rd : castle_dest s mt = (kd, rd) -> kd < 64 /\ rd < 64 /\ kd <> rd.
Proof. intros H. destruct s, mt; cbn in H; inversion H; subst; repeat split; lia. Qed.

(* ---------- back-rank geometry of castling: two finite sweeps ---------- *)
Definition inb (x : N) (l : list N) : bool := existsb (N.eqb x) l.
Lemma inb_iff x l : inb x l = true <-> In x l.
Proof. unfold inb. symmetry. apply in_existsb. Qed.

(* an enemy piece on a whose line to the king's destination passes through the king's or the rook's origin square:
   it stands on the king's rank, and either inside the king's path, or everything between it and the king lies on that line or on the king's path *)
Definition sweepA (s : side) (mt : mtype) : bool :=
  let kd := fst (castle_dest s mt) in
  forallb (fun k => forallb (fun rf => if geo s mt k rf then
    forallb (fun a =>
      if negb (a =? k) && negb (a =? rf) && (inb k (between a kd) || inb rf (between a kd)) then
        same_line a k && negb (same_diag a kd) &&
        (inb a (path_to k kd) || forallb (fun z => inb z (between a kd) || inb z (path_to k kd)) (between a k))
      else true) all64 else true) all64) all64.
(* a piece on a that has the rook between itself and the king on the king's rank: the rook stands on the king's path, or the piece sees the
   king's destination once king and rook are lifted *)
Definition sweepB (s : side) (mt : mtype) : bool :=
  let kd := fst (castle_dest s mt) in let rd := snd (castle_dest s mt) in
  forallb (fun k => forallb (fun rf => if geo s mt k rf then
    forallb (fun a =>
      if inb rf (between a k) && same_line a k then
        inb rf (path_to k kd) ||
        (same_line a kd && negb (a =? kd) && negb (a =? rd) &&
         forallb (fun z => negb (z =? kd) && negb (z =? rd) && ((z =? k) || (z =? rf) || inb z (between a k) || inb z (path_to k kd))) (between a kd))
      else true) all64 else true) all64) all64.
Lemma sweepA_ok : sweepA White Ksc && sweepA White Qsc && sweepA Black Ksc && sweepA Black Qsc = true.
Proof. vm_compute. reflexivity. Qed.
Lemma sweepB_ok : sweepB White Ksc && sweepB White Qsc && sweepB Black Ksc && sweepB Black Qsc = true.
Proof. vm_compute. reflexivity. Qed.

Lemma sweepA_at s mt kd rd k rf a : (mt = Ksc \/ mt = Qsc) -> castle_dest s mt = (kd, rd) -> k < 64 -> rf < 64 -> a < 64 ->
  geo s mt k rf = true -> a <> k -> a <> rf -> (In k (between a kd) \/ In rf (between a kd)) ->
  same_line a k = true /\ same_diag a kd = false /\
  (In a (path_to k kd) \/ forall z, In z (between a k) -> In z (between a kd) \/ In z (path_to k kd)).
Proof.
  intros Hmt Hd Hk Hrf Ha Hg N1 N2 Hin.
  assert (S : sweepA s mt = true).
  { pose proof sweepA_ok as H. apply andb_true_iff in H. destruct H as [H H4]. apply andb_true_iff in H. destruct H as [H H3]. apply andb_true_iff in H. destruct H as [H1 H2].
    destruct Hmt as [-> | ->]; destruct s; [exact H1|exact H3|exact H2|exact H4]. }
  unfold sweepA in S. rewrite Hd in S. cbn [fst] in S.
  pose proof (forallb_all64 _ (forallb_all64 _ S k Hk) rf Hrf) as H. cbv beta in H. rewrite Hg in H.
  pose proof (forallb_all64 _ H a Ha) as G. cbv beta in G. clear H S.
  replace (a =? k) with false in G by lia. replace (a =? rf) with false in G by lia. cbn [negb andb] in G.
  replace (inb k (between a kd) || inb rf (between a kd)) with true in G
    by (symmetry; apply orb_true_iff; destruct Hin as [H|H]; [left|right]; apply inb_iff; exact H).
  apply andb_true_iff in G. destruct G as [G G3]. apply andb_true_iff in G. destruct G as [G1 G2]. apply negb_true_iff in G2.
  split; [exact G1|]. split; [exact G2|]. apply orb_true_iff in G3. destruct G3 as [G3|G3]; [left; apply inb_iff; exact G3|right].
  intros z Hz. rewrite forallb_forall in G3. specialize (G3 z Hz). apply orb_true_iff in G3. destruct G3 as [G3|G3]; [left|right]; apply inb_iff; exact G3.
Qed.

Lemma sweepB_at s mt kd rd k rf a : (mt = Ksc \/ mt = Qsc) -> castle_dest s mt = (kd, rd) -> k < 64 -> rf < 64 -> a < 64 ->
  geo s mt k rf = true -> In rf (between a k) -> same_line a k = true ->
  In rf (path_to k kd) \/
  (same_line a kd = true /\ a <> kd /\ a <> rd /\
   forall z, In z (between a kd) -> z <> kd /\ z <> rd /\ (z = k \/ z = rf \/ In z (between a k) \/ In z (path_to k kd))).
Proof.
  intros Hmt Hd Hk Hrf Ha Hg Hin Hsl.
  assert (S : sweepB s mt = true).
  { pose proof sweepB_ok as H. apply andb_true_iff in H. destruct H as [H H4]. apply andb_true_iff in H. destruct H as [H H3]. apply andb_true_iff in H. destruct H as [H1 H2].
    destruct Hmt as [-> | ->]; destruct s; [exact H1|exact H3|exact H2|exact H4]. }
  unfold sweepB in S. rewrite Hd in S. cbn [fst snd] in S.
  pose proof (forallb_all64 _ (forallb_all64 _ S k Hk) rf Hrf) as H. cbv beta in H. rewrite Hg in H.
  pose proof (forallb_all64 _ H a Ha) as G. cbv beta in G. clear H S.
  rewrite (proj2 (inb_iff rf _) Hin), Hsl in G. cbn [andb] in G.
  apply orb_true_iff in G. destruct G as [G|G]; [left; apply inb_iff; exact G|right].
  repeat (apply andb_true_iff in G; let H' := fresh "G" in destruct G as [G H']).
  split; [exact G|]. split; [lia|]. split; [lia|].
  intros z Hz. rewrite forallb_forall in G0. specialize (G0 z Hz).
  repeat (apply andb_true_iff in G0; let H' := fresh "Z" in destruct G0 as [G0 H']).
  split; [lia|]. split; [lia|].
  apply orb_true_iff in Z. destruct Z as [Z|Z]; [|right; right; right; apply inb_iff; exact Z].
  apply orb_true_iff in Z. destruct Z as [Z|Z]; [|right; right; left; apply inb_iff; exact Z].
  apply orb_true_iff in Z. destruct Z as [Z|Z]; [left|right; left]; lia.
Qed.

Lemma pawn_candidates_types sp fr m : In m (pawn_candidates sp fr) -> m_type m <> Ksc /\ m_type m <> Qsc.
Proof.
  unfold pawn_candidates. intros H. apply in_app_or in H. destruct H as [H|H].
  - repeat match type of H with
           | In _ (match ?o with Some _ => _ | None => _ end) => destruct o
           | In _ (if ?c then _ else _) => destruct c
           | In _ (_ ++ _) => apply in_app_or in H; destruct H as [H|H]
           | In _ (map _ _) => apply in_map_iff in H; destruct H as [? [<- _]]
           | In _ [] => destruct H
           | In _ (_ :: _) => destruct H as [<-|H]
           end; cbn [m_type]; split; discriminate.
  - apply in_flat_map in H. destruct H as [to [_ H]].
    repeat match type of H with
           | In _ (match ?o with Some _ => _ | None => _ end) => destruct o
           | In _ (match ?o with (_, _) => _ end) => destruct o
           | In _ (if ?c then _ else _) => destruct c
           | In _ (map _ _) => apply in_map_iff in H; destruct H as [? [<- _]]
           | In _ [] => destruct H
           | In _ (_ :: _) => destruct H as [<-|H]
           end; cbn [m_type]; split; discriminate.
Qed.

Lemma castle_try_nodup p checked rp i mt kto rto th : NoDup (castle_try p checked rp i mt kto rto th).
Proof.
  unfold castle_try. cbv zeta.
  repeat match goal with |- NoDup (if ?c then _ else _) => destruct c end; try constructor; [intros []|constructor].
Qed.

Section Castle.
Variable p : position.
Hypothesis Hwf : wf p = true.
Hypothesis Hr : rooks_ok p.
Variable k : N.
Hypothesis Hk : find_king (abs_board p) (turn p) = Some k.
Hypothesis Huk : forall a, a < 64 -> cell_of_b (brd p) a = Some (turn p, King) -> a = k.
Notation f := (cell_of_b (brd p)).
Notation us := (turn p).
Notation them := (opp_side (turn p)).

(* ---------- (1) bookkeeping: what a set right means ---------- *)
Definition right_of (i : N) : option N := if castling_get p i then Some (rook_from_get p i) else None.

Lemma rights_abs : s_wk (abs p) = right_of 0 /\ s_wq (abs p) = right_of 1 /\ s_bk (abs p) = right_of 2 /\ s_bq (abs p) = right_of 3.
Proof. repeat split; reflexivity. Qed.

Lemma rook_from_lt i : rook_from_get p i < 64.
Proof. destruct Hr as (H0 & H1 & H2 & H3). unfold rook_from_get. repeat match goal with |- context [match ?x with _ => _ end] => destruct x end; assumption. Qed.

(* ---------- (2) the generator's tests are the conditions of castle_candidate ---------- *)
Definition ok_sq (rf x : N) : Prop := x = k \/ x = rf \/ f x = None.
(* the conditions of castle_candidate, as propositions on the mailbox *)
Definition CandP (rsq kd rd : N) : Prop :=
  attacked (abs_board p) k them = false /\
  (forall x, In x (path_to k kd) -> ok_sq rsq x) /\
  (forall x, In x (path_to rsq rd) -> ok_sq rsq x) /\
  (forall x, In x (path_to k kd) -> attacked (abs_board p) x them = false).

Lemma blockers_bit rf x : rf < 64 -> f rf = Some (us, Rook) -> x < 64 ->
  (N.testbit (N.lxor (N.lxor (occupied p) (bit k)) (bit rf)) x = false <-> ok_sq rf x).
Proof.
  intros Hrf Hfr Hx. destruct (k_lt p Hwf k Hk) as [Hk64 Hfk].
  rewrite !N.lxor_spec, (occupied_rep p f x (Hrep_ p Hwf) Hx), (bit_spec k x Hk64), (bit_spec rf x Hrf). unfold ok_sq.
  assert (Hne : k <> rf) by (intros E; rewrite E, Hfr in Hfk; discriminate).
  destruct (N.eqb_spec x k) as [->|N1].
  - rewrite Hfk. replace (k =? rf) with false by lia. cbn [xorb]. tauto.
  - destruct (N.eqb_spec x rf) as [->|N2].
    + rewrite Hfr. cbn [xorb]. tauto.
    + destruct (f x); cbn [xorb]; split; try tauto; try discriminate. intros [?|[?|?]]; try contradiction; discriminate.
Qed.

Lemma others_empty_iff rf l : (forall x, In x l -> x < 64) ->
  (forallb (fun q => (q =? k) || (q =? rf) || is_empty (abs_board p) q) l = true <-> forall x, In x l -> ok_sq rf x).
Proof.
  intros Hl. rewrite forallb_forall. split; intros H x Hx; specialize (H x Hx); specialize (Hl x Hx).
  - apply orb_true_iff in H. destruct H as [H|H]; [apply orb_true_iff in H; destruct H as [H|H]; apply N.eqb_eq in H; unfold ok_sq; tauto|].
    right; right. unfold is_empty in H. rewrite at_sq_abs_board in H by exact Hl. change (cell_of p x) with (f x) in H. destruct (f x); [discriminate|reflexivity].
  - destruct H as [->|[->|H]]; rewrite ?N.eqb_refl, ?orb_true_r; try reflexivity.
    unfold is_empty. rewrite at_sq_abs_board by exact Hl. change (cell_of p x) with (f x). rewrite H. apply orb_true_r.
Qed.

Theorem castle_candidate_iff mt i kd rd m : castle_dest us mt = (kd, rd) ->
  (In m (castle_candidate (abs p) mt (right_of i)) <->
   castling_get p i = true /\ CandP (rook_from_get p i) kd rd /\ m = mkMove mt k (rook_from_get p i) King NoPiece NoPiece).
Proof.
  intros Hd. destruct (k_lt p Hwf k Hk) as [Hk64 _]. destruct (castle_dest_facts _ _ _ _ Hd) as (Hkd & Hrd & _). unfold right_of.
  destruct (castling_get p i) eqn:Eg.
  2:{ split; [intros []|intros [H _]; discriminate]. }
  set (rf := rook_from_get p i). assert (Hrf : rf < 64) by apply rook_from_lt.
  rewrite (castle_candidate_some (abs p) mt rf k kd rd Hk Hd).
  change (s_board (abs p)) with (abs_board p). change (s_turn (abs p)) with (turn p).
  rewrite in_if_nil, in_single, !andb_true_iff, negb_true_iff.
  rewrite (others_empty_iff rf (path_to k kd)) by (intros x; apply path_to_lt; assumption).
  rewrite (others_empty_iff rf (path_to rf rd)) by (intros x; apply path_to_lt; assumption).
  rewrite forallb_forall. unfold CandP.
  assert (E : (forall x, In x (path_to k kd) -> negb (attacked (abs_board p) x them) = true) <-> (forall x, In x (path_to k kd) -> attacked (abs_board p) x them = false)).
  { split; intros H x Hx; specialize (H x Hx); [apply negb_true_iff in H|apply negb_true_iff]; exact H. }
  rewrite E. tauto.
Qed.

Lemma path_clear_iff rf PATH l : rf < 64 -> f rf = Some (us, Rook) -> PATH < two64 ->
  (forall x, In x l -> x < 64) ->
  (forall x, x < 64 -> x <> k -> x <> rf -> (N.testbit PATH x = true <-> In x l)) ->
  (bb_empty (N.land PATH (N.lxor (N.lxor (occupied p) (bit k)) (bit rf))) = true <-> forall x, In x l -> ok_sq rf x).
Proof.
  intros Hrf Hfr HP Hl Hbits. rewrite (bb_empty_land_l _ _ HP). split.
  - intros H x Hx. pose proof (Hl x Hx) as Hx64. destruct (N.eq_dec x k) as [E|N1]; [left; exact E|]. destruct (N.eq_dec x rf) as [E|N2]; [right; left; exact E|].
    apply (blockers_bit rf x Hrf Hfr Hx64). apply (H x Hx64). apply (Hbits x Hx64 N1 N2). exact Hx.
  - intros H x Hx64 Hb. apply (blockers_bit rf x Hrf Hfr Hx64). destruct (N.eq_dec x k) as [E|N1]; [left; exact E|]. destruct (N.eq_dec x rf) as [E|N2]; [right; left; exact E|].
    apply H. apply (Hbits x Hx64 N1 N2). exact Hb.
Qed.

Lemma king_path_bit kd x : kd < 64 -> x < 64 ->
  (N.testbit (N.land (N.lor (squares_between k kd) (bit kd)) (not64 (bit k))) x = true <-> In x (path_to k kd)).
Proof.
  intros Hkd Hx. destruct (k_lt p Hwf k Hk) as [Hk64 _]. rewrite (in_path_to k kd x Hk64 Hkd).
  rewrite N.land_spec, N.lor_spec, not64_spec, (bit_spec kd x Hkd), (bit_spec k x Hk64). replace (x <? 64) with true by lia. cbn [andb].
  rewrite andb_true_iff, orb_true_iff, negb_true_iff, (squares_between_bit k kd x Hk64 Hkd), N.eqb_eq, N.eqb_neq. tauto.
Qed.

Lemma negb_nonempty x : negb (bb_nonempty x) = bb_empty x.
Proof. unfold bb_nonempty, bb_empty. apply negb_involutive. Qed.

(* ---------- (3) the castling move leaves the king safe iff the rook is not pinned on the king's rank ---------- *)
Section Safe.
Variables (mt : mtype) (kd rd rf : N).
Hypothesis Hmt : mt = Ksc \/ mt = Qsc.
Hypothesis Hd : castle_dest us mt = (kd, rd).
Hypothesis Hrf : rf < 64.
Hypothesis Hfr : f rf = Some (us, Rook).
Hypothesis Hgeo : geo us mt k rf = true.
Hypothesis HC : CandP rf kd rd.

Notation g := (upd (upd (upd (upd f k None) rf None) kd (Some (us, King))) rd (Some (us, Rook))).

Lemma castle_board : apply_board (abs_board p) us (mkMove mt k rf King NoPiece NoPiece) = board_of g.
Proof.
  unfold apply_board. cbn [m_type m_from m_to].
  assert (E : put (put (put (put (abs_board p) k None) rf None) kd (Some (us, King))) rd (Some (us, Rook)) = board_of g).
  { rewrite !put_as_map. unfold board_of. apply map_all64_ext. intros q Hq. unfold upd.
    destruct (q =? rd); [reflexivity|]. rewrite at_sq_map by exact Hq.
    destruct (q =? kd); [reflexivity|]. rewrite at_sq_map by exact Hq.
    destruct (q =? rf); [reflexivity|]. rewrite at_sq_map by exact Hq.
    destruct (q =? k); [reflexivity|]. apply at_sq_abs_board. exact Hq. }
  destruct Hmt as [Em|Em]; rewrite Em in *; rewrite Hd; exact E.
Qed.

Lemma them_ne_us pc pc' : Some (them, pc) <> Some (us, pc') :> cell.
Proof. intros E. inversion E. destruct us; discriminate. Qed.

Lemma kd_ok : ok_sq rf kd.
Proof.
  destruct (k_lt p Hwf k Hk) as [Hk64 _]. destruct (castle_dest_facts _ _ _ _ Hd) as (Hkd & _ & _). destruct HC as (_ & C2 & _).
  destruct (N.eq_dec kd k) as [E|E]; [left; exact E|]. apply C2. apply (in_path_to k kd kd Hk64 Hkd). split; [right; reflexivity|exact E].
Qed.
Lemma rd_ok : ok_sq rf rd.
Proof.
  destruct (castle_dest_facts _ _ _ _ Hd) as (_ & Hrd & _). destruct HC as (_ & _ & C3 & _).
  destruct (N.eq_dec rd rf) as [E|E]; [right; left; exact E|]. apply C3. apply (in_path_to rf rd rd Hrf Hrd). split; [right; reflexivity|exact E].
Qed.

Lemma ok_not_enemy x pa : ok_sq rf x -> f x = Some (them, pa) -> False.
Proof.
  destruct (k_lt p Hwf k Hk) as [_ Hfk]. intros [->|[->|E]] H; [rewrite Hfk in H|rewrite Hfr in H|rewrite E in H; discriminate]; symmetry in H; exact (them_ne_us _ _ H).
Qed.

Lemma enemy_stays a pa : f a = Some (them, pa) -> g a = Some (them, pa).
Proof.
  intros H. unfold upd.
  destruct (N.eqb_spec a rd) as [->|_]; [exfalso; exact (ok_not_enemy _ _ rd_ok H)|].
  destruct (N.eqb_spec a kd) as [->|_]; [exfalso; exact (ok_not_enemy _ _ kd_ok H)|].
  destruct (N.eqb_spec a rf) as [->|_]; [exfalso; apply (ok_not_enemy rf pa); [right; left; reflexivity|exact H]|].
  destruct (N.eqb_spec a k) as [->|_]; [exfalso; apply (ok_not_enemy k pa); [left; reflexivity|exact H]|]. exact H.
Qed.

Lemma enemy_was a pa : g a = Some (them, pa) -> f a = Some (them, pa).
Proof.
  unfold upd. destruct (a =? rd); [intros H; symmetry in H; destruct (them_ne_us _ _ H)|].
  destruct (a =? kd); [intros H; symmetry in H; destruct (them_ne_us _ _ H)|].
  destruct (a =? rf); [discriminate|]. destruct (a =? k); [discriminate|]. tauto.
Qed.

Lemma g_none z : g z = None <-> z <> rd /\ z <> kd /\ (z = rf \/ z = k \/ f z = None).
Proof.
  unfold upd. destruct (N.eqb_spec z rd) as [E|E]; [split; [discriminate|tauto]|].
  destruct (N.eqb_spec z kd) as [E2|E2]; [split; [discriminate|tauto]|].
  destruct (N.eqb_spec z rf) as [E3|E3]; [tauto|]. destruct (N.eqb_spec z k) as [E4|E4]; tauto.
Qed.

Lemma kd_safe_before : attacked (board_of f) kd them = false.
Proof.
  destruct (k_lt p Hwf k Hk) as [Hk64 _]. destruct (castle_dest_facts _ _ _ _ Hd) as (Hkd & _ & _). destruct HC as (C1 & _ & _ & C4).
  destruct (N.eq_dec kd k) as [E|E]; [rewrite E; exact C1|]. apply C4. apply (in_path_to k kd kd Hk64 Hkd). split; [right; reflexivity|exact E].
Qed.

Lemma castle_find_king : find_king (board_of g) us = Some kd.
Proof.
  destruct (castle_dest_facts _ _ _ _ Hd) as (Hkd & Hrd & Hne). apply find_king_char; [exact Hkd|].
  intros q Hq. unfold upd. destruct (N.eqb_spec q rd) as [E|E]; [split; [discriminate|intros E'; congruence]|].
  destruct (N.eqb_spec q kd) as [E2|E2]; [tauto|]. split; [|contradiction].
  destruct (N.eqb_spec q rf) as [E3|E3]; [discriminate|]. destruct (N.eqb_spec q k) as [E4|E4]; [discriminate|].
  intros H. exfalso. apply E4. apply Huk; assumption.
Qed.

Lemma castle_safe_eq : leaves_king_safe (abs p) (mkMove mt k rf King NoPiece NoPiece) = negb (attacked (board_of g) kd them).
Proof.
  unfold leaves_king_safe. change (s_board (abs p)) with (abs_board p). change (s_turn (abs p)) with (turn p).
  rewrite castle_board. unfold king_attacked. rewrite castle_find_king. reflexivity.
Qed.

Lemma rank_slider pa a q : is_slider pa = true -> a <> q -> same_line a q = true -> pa <> Bishop -> slider_aligned pa a q = true.
Proof.
  intros Hs Hne Hl Hb. unfold slider_aligned. replace (a =? q) with false by lia. cbn [negb andb].
  destruct pa; try discriminate; try congruence; rewrite Hl; try reflexivity. apply orb_true_r.
Qed.

(* the hypothesis on the pin set of legal_noncaptures (characterised elsewhere) *)
Hypothesis HR : forall x, x < 64 -> (N.testbit (g_rook_pinned p) x = true <->
  (exists pc, f x = Some (us, pc)) /\ exists a, Pinner f us k a x /\ same_line a k = true).

Lemma not_pinned_safe : N.testbit (g_rook_pinned p) rf = false -> attacked (board_of g) kd them = false.
Proof.
  intros Hnp. destruct (k_lt p Hwf k Hk) as [Hk64 Hfk]. destruct (castle_dest_facts _ _ _ _ Hd) as (Hkd & Hrd & Hne).
  pose proof HC as (C1 & C2 & C3 & C4).
  apply attacked_false_iff. intros a Ha. destruct (g a) as [[c pc]|] eqn:Eg; [|reflexivity].
  destruct (side_eqb c them) eqn:Ec; [|reflexivity]. apply side_eqb_true in Ec. subst c. cbn [andb].
  pose proof (enemy_was a pc Eg) as Efa.
  assert (Nak : a <> k) by (intros ->; rewrite Hfk in Efa; symmetry in Efa; exact (them_ne_us _ _ Efa)).
  assert (Nar : a <> rf) by (intros ->; rewrite Hfr in Efa; symmetry in Efa; exact (them_ne_us _ _ Efa)).
  (* on the old board a does not attack kd, nor k *)
  assert (Hold : forall q, attacked (board_of f) q them = false -> piece_attacks (board_of f) them pc a q = false).
  { intros q Hq. pose proof (proj1 (attacked_false_iff f q them) Hq a Ha) as H. cbv beta in H. rewrite Efa, side_eqb_refl in H. exact H. }
  pose proof (Hold kd kd_safe_before) as Hkd_old. pose proof (Hold k C1) as Hk_old.
  apply not_true_is_false. intros Hatt.
  destruct (is_slider pc) eqn:Es.
  2:{ assert (E : piece_attacks (board_of g) them pc a kd = piece_attacks (board_of f) them pc a kd) by (destruct pc; try discriminate Es; reflexivity). congruence. }
  rewrite slider_attacks in Hatt by exact Es. apply andb_true_iff in Hatt. destruct Hatt as [Hal Hemp].
  pose proof (proj1 (all_empty_before g kd Hkd a Ha) Hemp) as Hg.
  assert (Hthrough : In k (between a kd) \/ In rf (between a kd)).
  { destruct (in_dec N.eq_dec k (between a kd)) as [H|H1]; [left; exact H|]. destruct (in_dec N.eq_dec rf (between a kd)) as [H|H2]; [right; exact H|]. exfalso.
    rewrite slider_attacks, Hal in Hkd_old by exact Es. cbn [andb] in Hkd_old.
    assert (all_empty (board_of f) (between a kd) = true); [|congruence]. apply (all_empty_before f kd Hkd a Ha).
    intros y Hy. destruct (proj1 (g_none y) (Hg y Hy)) as (_ & _ & [E|[E|E]]); [subst y; contradiction|subst y; contradiction|exact E]. }
  destruct (sweepA_at us mt kd rd k rf a Hmt Hd Hk64 Hrf Ha Hgeo Nak Nar Hthrough) as (Hsl & Hnd & [Hpath|Hsub]).
  { exfalso. exact (ok_not_enemy a pc (C2 a Hpath) Efa). }
  assert (Hnb : pc <> Bishop).
  { intros ->. unfold slider_aligned in Hal. rewrite Hnd, andb_false_r in Hal. discriminate. }
  assert (Halk : slider_aligned pc a k = true) by (apply rank_slider; assumption).
  assert (Hempty : forall z, In z (between a k) -> z <> rf -> f z = None).
  { intros z Hz Nz. destruct (between_geo a k Ha Hk64) as (Hnk & _).
    assert (Nzk : z <> k) by (intros ->; contradiction).
    destruct (Hsub z Hz) as [H|H].
    - destruct (proj1 (g_none z) (Hg z H)) as (_ & _ & [E|[E|E]]); [contradiction|contradiction|exact E].
    - destruct (C2 z H) as [E|[E|E]]; [contradiction|contradiction|exact E]. }
  destruct (in_dec N.eq_dec rf (between a k)) as [Hin|Hnin].
  - (* the rook is pinned on the rank *)
    assert (Hp : N.testbit (g_rook_pinned p) rf = true); [|congruence].
    apply (HR rf Hrf). split; [exists Rook; exact Hfr|]. exists a. split; [|exact Hsl].
    split; [exact Ha|]. exists pc. split; [exact Efa|]. split; [exact Es|]. split; [exact Halk|]. split; [exact Hin|exact Hempty].
  - (* the king would be in check *)
    rewrite slider_attacks, Halk in Hk_old by exact Es. cbn [andb] in Hk_old.
    assert (all_empty (board_of f) (between a k) = true); [|congruence]. apply (all_empty_before f k Hk64 a Ha).
    intros y Hy. apply Hempty; [exact Hy|]. intros ->. contradiction.
Qed.

Lemma pinned_unsafe : N.testbit (g_rook_pinned p) rf = true -> attacked (board_of g) kd them = true.
Proof.
  intros Hp. destruct (k_lt p Hwf k Hk) as [Hk64 Hfk]. destruct (castle_dest_facts _ _ _ _ Hd) as (Hkd & Hrd & Hne).
  pose proof HC as (C1 & C2 & C3 & C4).
  apply (HR rf Hrf) in Hp. destruct Hp as (_ & a & (Ha & pa & Efa & Es & Hal & Hin & Halone) & Hsl).
  destruct (between_geo a k Ha Hk64) as (Hnk & _ & _ & Hbt). destruct (Hbt rf Hin) as (_ & Nra & Nrk & _ & Hslr & Hnrr & Hsub).
  assert (Nak : a <> k) by (unfold slider_aligned in Hal; apply andb_true_iff in Hal; destruct Hal as [Hal _]; lia).
  assert (Hnb : pa <> Bishop).
  { intros ->. unfold slider_aligned in Hal. apply andb_true_iff in Hal. destruct Hal as [_ Hdg]. apply Nak. apply (diag_line_exclusive a k Ha Hk64 Hdg Hsl). }
  destruct (sweepB_at us mt kd rd k rf a Hmt Hd Hk64 Hrf Ha Hgeo Hin Hsl) as [Hpath|(Hslk & Nakd & Nard & Hz)].
  - (* the rook stands on the king's path and a attacks it already *)
    exfalso. pose proof (proj1 (attacked_false_iff f rf them) (C4 rf Hpath) a Ha) as H. cbv beta in H. rewrite Efa, side_eqb_refl in H. cbn [andb] in H.
    rewrite slider_attacks in H by exact Es.
    rewrite (rank_slider pa a rf Es (not_eq_sym Nra)) in H by (try exact Hnb; rewrite Hslr; exact Hsl). cbn [andb] in H.
    assert (all_empty (board_of f) (between a rf) = true); [|congruence]. apply (all_empty_before f rf Hrf a Ha).
    intros y Hy. apply Halone; [apply Hsub; exact Hy|]. intros ->. contradiction.
  - apply not_false_is_true. intros Hsafe.
    pose proof (proj1 (attacked_false_iff g kd them) Hsafe a Ha) as H. cbv beta in H. rewrite (enemy_stays a pa Efa), side_eqb_refl in H. cbn [andb] in H.
    rewrite slider_attacks in H by exact Es. rewrite (rank_slider pa a kd Es Nakd Hslk Hnb) in H. cbn [andb] in H.
    assert (all_empty (board_of g) (between a kd) = true); [|congruence]. apply (all_empty_before g kd Hkd a Ha).
    intros z Hzin. apply g_none. destruct (Hz z Hzin) as (Z1 & Z2 & Z3). split; [exact Z2|]. split; [exact Z1|].
    destruct Z3 as [E|[E|[E|E]]]; [right; left; exact E|left; exact E| |].
    + destruct (N.eq_dec z rf) as [E'|E']; [left; exact E'|right; right; apply Halone; assumption].
    + destruct (C2 z E) as [E'|[E'|E']]; [right; left; exact E'|left; exact E'|right; right; exact E'].
Qed.

Theorem castle_safe_iff : leaves_king_safe (abs p) (mkMove mt k rf King NoPiece NoPiece) = negb (N.testbit (g_rook_pinned p) rf).
Proof.
  rewrite castle_safe_eq. destruct (N.testbit (g_rook_pinned p) rf) eqn:E; [rewrite (pinned_unsafe E)|rewrite (not_pinned_safe E)]; reflexivity.
Qed.
End Safe.

(* ---------- legal-consistent positions ---------- *)
Section LC.
Variable dfrc : bool.
Hypothesis Hlc : legal_consistent dfrc (abs p) = true.

Lemma right_ok_facts ks rsq : rsq < 64 -> right_ok (abs_board p) us ks dfrc (Some rsq) = true ->
  f rsq = Some (us, Rook) /\ rankof k = home us /\ rankof rsq = home us /\ (if ks then fileof k < fileof rsq else fileof rsq < fileof k).
Proof.
  intros Hrsq H. unfold right_ok in H. rewrite Hk in H.
  repeat (apply andb_true_iff in H; let H' := fresh "G" in destruct H as [H H']).
  rewrite at_sq_abs_board in G1 by exact Hrsq. change (cell_of p rsq) with (f rsq) in G1.
  split.
  - destruct (f rsq) as [[c pc]|]; [|discriminate]. destruct pc; try discriminate. apply side_eqb_true in G1. subst c. reflexivity.
  - unfold home. destruct us; (split; [lia|]); (split; [lia|]); destruct ks; lia.
Qed.

Lemma right_facts mt : (mt = Ksc \/ mt = Qsc) -> castling_get p (castling_idx us mt) = true ->
  f (rook_from_get p (castling_idx us mt)) = Some (us, Rook) /\ geo us mt k (rook_from_get p (castling_idx us mt)) = true.
Proof.
  intros Hmt Hget. destruct (lc_parts _ _ Hlc) as (R0 & R1 & R2 & R3 & _).
  cbn [abs s_board s_wk s_wq s_bk s_bq] in R0, R1, R2, R3.
  assert (G : forall ks i, right_ok (abs_board p) us ks dfrc (if castling_get p i then Some (rook_from_get p i) else None) = true ->
                castling_get p i = true -> ks = (match mt with Ksc => true | _ => false end) ->
                f (rook_from_get p i) = Some (us, Rook) /\ geo us mt k (rook_from_get p i) = true).
  { intros ks i Hok Hg Eks. rewrite Hg in Hok. destruct (right_ok_facts ks _ (rook_from_lt i) Hok) as (F1 & F2 & F3 & F4).
    split; [exact F1|]. unfold geo. rewrite F2, F3, N.eqb_refl. cbn [andb]. subst ks. destruct Hmt as [-> | ->]; lia. }
  destruct Hmt as [-> | ->]; destruct us eqn:Et; cbn [castling_idx] in *.
  - apply (G true 0 R0 Hget eq_refl).
  - apply (G true 2 R2 Hget eq_refl).
  - apply (G false 1 R1 Hget eq_refl).
  - apply (G false 3 R3 Hget eq_refl).
Qed.


Theorem castle_try_iff i mt kd rd rp m : kd < 64 -> rd < 64 ->
  (castling_get p i = true -> f (rook_from_get p i) = Some (us, Rook)) ->
  (In m (castle_try p (negb (bb_empty (checkers p))) rp i mt kd rd them) <->
   castling_get p i = true /\ CandP (rook_from_get p i) kd rd /\ N.testbit rp (rook_from_get p i) = false /\
   m = mkMove mt k (rook_from_get p i) King NoPiece NoPiece).
Proof.
  intros Hkd Hrd Hrook. destruct (k_lt p Hwf k Hk) as [Hk64 Hfk]. pose proof (Hrep_ p Hwf) as Hrep.
  unfold castle_try. cbv zeta. rewrite (ksq_eq p Hwf k Hk).
  destruct (castling_get p i) eqn:Eg.
  2:{ rewrite andb_false_r. split; [intros []|intros [H _]; discriminate]. }
  specialize (Hrook eq_refl). set (rf := rook_from_get p i) in *. assert (Hrf : rf < 64) by apply rook_from_lt.
  destruct (lc_king dfrc p them Hlc) as [ek [Hek Huek]].
  assert (Hkp : N.land (N.lor (squares_between k kd) (bit kd)) (not64 (bit k)) < two64) by (rewrite N.land_comm; apply land_lt, not64_lt).
  assert (E1 : negb (negb (bb_empty (checkers p))) = true <-> attacked (abs_board p) k them = false).
  { rewrite negb_true_iff. change (negb (bb_empty (checkers p))) with (in_check p). rewrite (in_check_exact p f Hrep (ex_intro _ k Hk)).
    unfold king_attacked. pose proof Hk as Hk'. change (abs_board p) with (board_of f) in Hk'. rewrite Hk'. reflexivity. }
  assert (E2 : bb_empty (N.land (N.land (N.lor (squares_between k kd) (bit kd)) (not64 (bit k))) (N.lxor (N.lxor (occupied p) (bit k)) (bit rf))) = true <->
               forall x, In x (path_to k kd) -> ok_sq rf x).
  { apply (path_clear_iff rf _ _ Hrf Hrook Hkp); [intros x; apply path_to_lt; assumption|intros x Hx _ _; apply king_path_bit; assumption]. }
  assert (E3 : bb_empty (N.land (N.lor (squares_between rd rf) (bit rd)) (N.lxor (N.lxor (occupied p) (bit k)) (bit rf))) = true <->
               forall x, In x (path_to rf rd) -> ok_sq rf x).
  { apply (path_clear_iff rf _ _ Hrf Hrook); [apply lor_lt; [apply squares_between_lt; assumption|apply bit_lt]|intros x; apply path_to_lt; assumption|].
    intros x Hx N1 N2. rewrite (in_path_to rf rd x Hrf Hrd), N.lor_spec, (bit_spec rd x Hrd), orb_true_iff, (squares_between_bit rd rf x Hrd Hrf), N.eqb_eq.
    rewrite (between_sym_iff rd rf x Hrd Hrf). tauto. }
  assert (E4 : bb_nonempty (N.land rp (bit rf)) = N.testbit rp rf) by (apply nonempty_land_bit; exact Hrf).
  assert (E5 : negb (bb_nonempty (N.land (squares_attacked p them) (N.land (N.lor (squares_between k kd) (bit kd)) (not64 (bit k))))) = true <->
               forall x, In x (path_to k kd) -> attacked (abs_board p) x them = false).
  { rewrite negb_nonempty, N.land_comm. rewrite (bb_empty_land_l _ _ Hkp). split.
    - intros H x Hx. pose proof (path_to_lt k kd x Hk64 Hkd Hx) as Hx64.
      change (abs_board p) with (board_of f). rewrite <- (squares_attacked_exact p f them ek x Hrep Hx64 Hek Huek). apply (H x Hx64). apply king_path_bit; assumption.
    - intros H x Hx64 Hb. rewrite (squares_attacked_exact p f them ek x Hrep Hx64 Hek Huek). apply H. apply (king_path_bit kd x Hkd Hx64). exact Hb. }
  rewrite in_if_nil, in_if_nil, in_single, !andb_true_iff, E1, E2, E3, E4, E5, negb_true_iff. unfold CandP. tauto.
Qed.

(* ---------- (4) glue: the two rights of the side to move ---------- *)
Hypothesis HR : forall x, x < 64 -> (N.testbit (g_rook_pinned p) x = true <->
  (exists pc, f x = Some (us, pc)) /\ exists a, Pinner f us k a x /\ same_line a k = true).

Lemma g_castles_split : g_castles p =
  castle_try p (negb (bb_empty (checkers p))) (g_rook_pinned p) (castling_idx us Ksc) Ksc (fst (castle_dest us Ksc)) (snd (castle_dest us Ksc)) them ++
  castle_try p (negb (bb_empty (checkers p))) (g_rook_pinned p) (castling_idx us Qsc) Qsc (fst (castle_dest us Qsc)) (snd (castle_dest us Qsc)) them.
Proof. unfold g_castles, castles. destruct us; reflexivity. Qed.

Lemma pseudo_castle_split : exists l,
  pseudo_moves (abs p) = l ++ (castle_candidate (abs p) Ksc (right_of (castling_idx us Ksc)) ++ castle_candidate (abs p) Qsc (right_of (castling_idx us Qsc))) /\
  forall m, In m l -> m_type m <> Ksc /\ m_type m <> Qsc.
Proof.
  unfold pseudo_moves. set (l := flat_map _ squares). exists l. split.
  - change (s_turn (abs p)) with (turn p). change (s_wk (abs p)) with (right_of 0). change (s_wq (abs p)) with (right_of 1).
    change (s_bk (abs p)) with (right_of 2). change (s_bq (abs p)) with (right_of 3). destruct us; reflexivity.
  - intros m H. unfold l in H. apply in_flat_map in H. destruct H as [fr [_ H]].
    destruct (at_sq (s_board (abs p)) fr) as [[c pc]|]; [|destruct H]. destruct (side_eqb c (s_turn (abs p))); [|destruct H].
    assert (Hp : forall pc', In m (piece_candidates (abs p) fr pc') -> m_type m <> Ksc /\ m_type m <> Qsc).
    { intros pc' Hin. apply piece_candidates_labels in Hin. destruct Hin as (_ & _ & [E|E]); rewrite E; split; discriminate. }
    destruct pc; cbv iota in H;
      try (match type of H with In _ (piece_candidates _ _ ?q) => exact (Hp q H) end); [exact (pawn_candidates_types (abs p) fr m H)|destruct H].
Qed.

Theorem castle_right_exact mt m : (mt = Ksc \/ mt = Qsc) ->
  (In m (castle_try p (negb (bb_empty (checkers p))) (g_rook_pinned p) (castling_idx us mt) mt (fst (castle_dest us mt)) (snd (castle_dest us mt)) them) <->
   In m (castle_candidate (abs p) mt (right_of (castling_idx us mt))) /\ leaves_king_safe (abs p) m = true).
Proof.
  intros Hmt. destruct (castle_dest us mt) as [kd rd] eqn:Hd. cbn [fst snd]. destruct (castle_dest_facts _ _ _ _ Hd) as (Hkd & Hrd & _).
  set (i := castling_idx us mt).
  rewrite (castle_try_iff i mt kd rd _ m Hkd Hrd (fun H => proj1 (right_facts mt Hmt H))), (castle_candidate_iff mt i kd rd m Hd).
  split.
  - intros (Hg & HCp & Hnp & ->). split; [tauto|]. destruct (right_facts mt Hmt Hg) as [Hfr Hgeo].
    rewrite (castle_safe_iff mt kd rd _ Hmt Hd (rook_from_lt i) Hfr Hgeo HCp HR). fold i. rewrite Hnp. reflexivity.
  - intros ((Hg & HCp & ->) & Hs). destruct (right_facts mt Hmt Hg) as [Hfr Hgeo].
    rewrite (castle_safe_iff mt kd rd _ Hmt Hd (rook_from_lt i) Hfr Hgeo HCp HR) in Hs. fold i in Hs. apply negb_true_iff in Hs. tauto.
Qed.

Theorem castle_exact_sec m : (m_type m = Ksc \/ m_type m = Qsc) -> (In m (g_castles p) <-> In m (spec_moves (abs p))).
Proof.
  intros Hty. rewrite g_castles_split, in_app_iff, (castle_right_exact Ksc m (or_introl eq_refl)), (castle_right_exact Qsc m (or_intror eq_refl)).
  unfold spec_moves. rewrite filter_In. destruct pseudo_castle_split as [l [El Hl]]. rewrite El, !in_app_iff. split; [tauto|].
  intros [[H|H] Hs]; [exfalso; destruct (Hl m H); destruct Hty; contradiction|tauto].
Qed.

End LC.
End Castle.

(* ---------- the deliverables, with all hypotheses explicit ---------- *)
Theorem castle_types p m : In m (g_castles p) -> m_type m = Ksc \/ m_type m = Qsc.
Proof.
  unfold g_castles, castles. intros H. destruct (turn p); apply in_app_or in H; destruct H as [H|H]; apply castle_try_ok in H; destruct H as (E & _); rewrite E; tauto.
Qed.

Theorem castle_nodup p : NoDup (g_castles p).
Proof.
  unfold g_castles, castles. destruct (turn p); (apply NoDup_app_intro; [apply castle_try_nodup|apply castle_try_nodup|]);
    intros m H1 H2; apply castle_try_ok in H1; apply castle_try_ok in H2; destruct H1 as (E1 & _); destruct H2 as (E2 & _); congruence.
Qed.

Theorem castle_exact p dfrc k :
  wf p = true -> rooks_ok p -> legal_consistent dfrc (abs p) = true ->
  find_king (abs_board p) (turn p) = Some k ->
  (forall a, a < 64 -> cell_of_b (brd p) a = Some (turn p, King) -> a = k) ->
  (1 <? bb_count (checkers p)) = false ->
  (forall x, x < 64 -> (N.testbit (g_rook_pinned p) x = true <->
     (exists pc, cell_of_b (brd p) x = Some (turn p, pc)) /\ exists a, Pinner (cell_of_b (brd p)) (turn p) k a x /\ same_line a k = true)) ->
  forall m, (m_type m = Ksc \/ m_type m = Qsc) -> (In m (g_castles p) <-> In m (spec_moves (abs p))).
Proof. intros Hwf Hr Hlc Hk Huk _ HR m. exact (castle_exact_sec p Hwf Hr k Hk Huk dfrc Hlc HR m). Qed.

Check castle_try_iff. Check castle_candidate_iff. Check castle_safe_iff. Check right_facts. Check castle_right_exact.
Print Assumptions castle_exact. Print Assumptions castle_nodup. Print Assumptions castle_types.
