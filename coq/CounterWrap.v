(* CounterWrap.v — the full-move number is a std::size_t in the C++ and an unbounded N in the model.
   The tie between the two is "C++ counter = model counter mod 2^64" (the correspondence compares exactly that:
   tools/sess.ml [wrap64]).  This file proves that the relation is a simulation: the machine's wrapping += / -= of a
   bool on the wrapped counter is the wrap of the model's unbounded step, so every model theorem about the counter
   (C02, C03) transfers to the machine counter, also across the wrap from 2^64-1 to 0; and that the machine's
   make/undo pair is exact at every 64-bit value, the boundary included. *)
From Coq Require Import NArith Lia Bool List.
From LC Require Import Bits Types BitboardModel MoveModel ZobristModel PositionModel MovegenModel MakeModel.
Import ListNotations.
Local Open Scope N_scope.

Definition W64 : N := 18446744073709551616.           (* 2^64 = SIZE_MAX + 1 *)
Definition wrap64 (n : N) : N := n mod W64.
Definition mach_inc (c b : N) : N := (c + b) mod W64.             (* std::size_t c; c += bool *)
Definition mach_dec (c b : N) : N := (c + W64 - b) mod W64.       (* std::size_t c; c -= bool *)

Lemma W64_pos : W64 <> 0. Proof. discriminate. Qed.

Lemma W64_is_pow : W64 = 2 ^ 64. Proof. reflexivity. Qed.

Lemma wrap64_lt n : wrap64 n < W64.
Proof. apply N.mod_lt, W64_pos. Qed.

Lemma wrap64_small n : n < W64 -> wrap64 n = n.
Proof. apply N.mod_small. Qed.

Lemma b2n_le1 b : b2n b <= 1.
Proof. destruct b; cbv; discriminate. Qed.

Lemma wrap_inc f b : wrap64 (f + b) = mach_inc (wrap64 f) b.
Proof. unfold wrap64, mach_inc. rewrite N.add_mod_idemp_l by exact W64_pos. reflexivity. Qed.

Lemma sub_add_assoc_w (w x b : N) : b <= 1 -> 1 <= w -> x + w - b = x + (w - b).
Proof. lia. Qed.
Lemma sub_shift_w (w f b : N) : b <= 1 -> 1 <= w -> b <= f -> f + (w - b) = (f - b) + 1 * w.
Proof. lia. Qed.
Lemma add_cancel_w (w c b : N) : b <= 1 -> 1 <= w -> c + b + (w - b) = c + 1 * w.
Proof. lia. Qed.
Lemma W64_ge1 : 1 <= W64. Proof. cbv; discriminate. Qed.

Lemma wrap_dec f b : b <= 1 -> b <= f -> wrap64 (f - b) = mach_dec (wrap64 f) b.
Proof.
  intros H1 Hb. unfold wrap64, mach_dec.
  rewrite (sub_add_assoc_w W64 (f mod W64) b H1 W64_ge1).
  rewrite N.add_mod_idemp_l by exact W64_pos.
  rewrite (sub_shift_w W64 f b H1 W64_ge1 Hb).
  rewrite N.mod_add by exact W64_pos. reflexivity.
Qed.

(* the machine pair alone: exact at EVERY 64-bit value — at 2^64-1 the increment wraps to 0 and the decrement wraps back *)
Lemma mach_dec_inc c b : c < W64 -> b <= 1 -> mach_dec (mach_inc c b) b = c.
Proof.
  intros Hc Hb. unfold mach_dec, mach_inc.
  rewrite (sub_add_assoc_w W64 ((c + b) mod W64) b Hb W64_ge1).
  rewrite N.add_mod_idemp_l by exact W64_pos.
  rewrite (add_cancel_w W64 c b Hb W64_ge1).
  rewrite N.mod_add by exact W64_pos. apply N.mod_small, Hc.
Qed.

Example mach_wraps_at_max : mach_inc (W64 - 1) 1 = 0 /\ mach_dec 0 1 = W64 - 1.
Proof. split; vm_compute; reflexivity. Qed.

(* an "overflow guard" on one side only (saturating increment, wrapping decrement) is NOT exact: the shape of the
   seeded change C03_m8 *)
Definition sat_inc (c b : N) : N := if (c + b) =? W64 then c else c + b.
Example saturating_make_breaks_undo : mach_dec (sat_inc (W64 - 1) 1) 1 <> W64 - 1.
Proof. vm_compute. discriminate. Qed.

Section WithKeys.
Variable K : zkeys.

Definition black_moves (p : position) : N := b2n (side_eqb (turn p) Black).

Lemma makemove_fullmove p m : fullmove (makemove K p m) = fullmove p + black_moves p.
Proof. reflexivity. Qed.

(* C02, counter part, on the machine: the wrapped counter after makemove is the machine increment of the wrapped counter *)
Theorem makemove_fullmove_wraps p m :
  wrap64 (fullmove (makemove K p m)) = mach_inc (wrap64 (fullmove p)) (black_moves p).
Proof. rewrite makemove_fullmove. apply wrap_inc. Qed.

Theorem makenull_fullmove_wraps p : wrap64 (fullmove (makenull K p)) = wrap64 (fullmove p).
Proof. reflexivity. Qed.

(* C03, counter part, on the machine: undoing with the machine decrement what makemove did with the machine increment
   gives back the machine counter, whatever 64-bit value it had *)
Theorem undo_make_fullmove_wraps p m :
  mach_dec (wrap64 (fullmove (makemove K p m))) (black_moves p) = wrap64 (fullmove p).
Proof.
  rewrite makemove_fullmove_wraps. apply mach_dec_inc; [apply wrap64_lt | apply b2n_le1].
Qed.

(* and the model's own undomove (unbounded, truncated subtraction) is simulated by the machine decrement wherever the
   model's counter is at least the amount taken off — in particular after any makemove *)
Theorem undomove_fullmove_wraps p rec rest :
  history p = rec :: rest ->
  let b := b2n (side_eqb (opp_side (to_move p)) Black) in
  b <= fullmove p ->
  wrap64 (fullmove (undomove p)) = mach_dec (wrap64 (fullmove p)) b.
Proof.
  intros Hh b Hb. unfold undomove. rewrite Hh. cbn [fullmove].
  apply wrap_dec; [apply b2n_le1 | exact Hb].
Qed.

(* every history of moves: the machine counter, stepped with the wrapping increment from the wrapped start value, is the
   wrapped model counter at every point — the two never drift apart, however often the counter wraps *)
Fixpoint mach_trace (c : N) (p : position) (ms : list move) : N :=
  match ms with
  | [] => c
  | m :: r => mach_trace (mach_inc c (black_moves p)) (makemove K p m) r
  end.

Theorem run_fullmove_wraps ms : forall p,
  wrap64 (fullmove (fold_left (makemove K) ms p)) = mach_trace (wrap64 (fullmove p)) p ms.
Proof.
  induction ms as [|m r IH]; intros p; cbn [fold_left mach_trace]; [reflexivity|].
  rewrite IH, makemove_fullmove_wraps. reflexivity.
Qed.

Lemma mach_trace_lt ms : forall c p, c < W64 -> mach_trace c p ms < W64.
Proof.
  induction ms as [|m r IH]; intros c p Hc; cbn [mach_trace]; [exact Hc|].
  apply IH. unfold mach_inc. apply N.mod_lt, W64_pos.
Qed.

End WithKeys.
