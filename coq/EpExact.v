(* EpExact.v — C01: en passant captures are generated exactly (outside double check). *)
From Coq Require Import NArith ZArith List Bool Lia.
From Coq Require Import ZifyBool ZifyN ZifyNat.
From LC Require Import Bits BitsFacts Types BitboardModel BitboardFacts MoveModel MoveFacts MagicModel MagicFacts PositionModel MovegenModel MovegenFacts BoardFacts
  Spec.Rules Refine.Abs Refine.Board Refine.Make Refine.Wf Refine.MakeAbs Refine.SpecFits AttackFacts PinFacts KingFacts SafetyFacts LegalFacts LegalCore.
Import ListNotations.
Local Open Scope N_scope.
Local Strategy 1000 [squares all64 seq].

(* ---------- geometry: the direction class of the line through two squares ---------- *)
(* 1 = a rank, 8 = a file, 7 = a north-west/south-east diagonal, 9 = a north-east/south-west diagonal, 0 = not aligned *)
Definition ldir (a k : N) : N :=
  if a =? k then 0 else
  if rankof a =? rankof k then 1 else if fileof a =? fileof k then 8
  else if fileof a + rankof a =? fileof k + rankof k then 7
  else if fileof a + rankof k =? fileof k + rankof a then 9 else 0.

(* y is the neighbour of x in direction class d *)
Definition nb (d x y : N) : bool :=
  (N.max (adiff (fileof x) (fileof y)) (adiff (rankof x) (rankof y)) =? 1) && ((y =? x + d) || (x =? y + d)).

Definition inb (x : N) (l : list N) : bool := existsb (N.eqb x) l.

Lemma geo1_sweep :
  forallb (fun a => forallb (fun k => forallb (fun x =>
     (ldir x k =? ldir a k) && (ldir a x =? ldir a k) && negb (ldir a k =? 0) &&
     forallb (fun y => if (y <? 64) && nb (ldir a k) x y then inb y (between a k) || (y =? a) || (y =? k) else true)
             [x + ldir a k; x - ldir a k] &&
     forallb (fun y => if y =? x then true else ldir x y =? ldir a k) (between a k))
    (between a k)) all64) all64 = true.
Proof. vm_compute. reflexivity. Qed.

Lemma geo1 a k x : a < 64 -> k < 64 -> In x (between a k) ->
  ldir x k = ldir a k /\ ldir a x = ldir a k /\ ldir a k <> 0 /\
  (forall y, y < 64 -> nb (ldir a k) x y = true -> In y (between a k) \/ y = a \/ y = k) /\
  (forall y, In y (between a k) -> y <> x -> ldir x y = ldir a k).
Proof.
  intros Ha Hk Hx. pose proof (forallb_all64 _ (forallb_all64 _ geo1_sweep a Ha) k Hk) as H. cbv beta in H.
  rewrite forallb_forall in H. specialize (H x Hx).
  repeat (apply andb_true_iff in H; let H' := fresh "W" in destruct H as [H H']).
  apply N.eqb_eq in H. apply N.eqb_eq in W2. apply negb_true_iff in W1. apply N.eqb_neq in W1.
  split; [exact H|]. split; [exact W2|]. split; [exact W1|]. split.
  - intros y Hy Hnb. assert (Hy' : y = x + ldir a k \/ y = x - ldir a k).
    { unfold nb in Hnb. apply andb_true_iff in Hnb. destruct Hnb as [_ Hnb]. lia. }
    cbn [forallb] in W0. rewrite andb_true_r in W0. apply andb_true_iff in W0. destruct W0 as [Wa Wb].
    assert (G : (if (y <? 64) && nb (ldir a k) x y then inb y (between a k) || (y =? a) || (y =? k) else true) = true)
      by (destruct Hy' as [-> | ->]; assumption).
    replace (y <? 64) with true in G by lia. rewrite Hnb in G. cbn [andb] in G.
    apply orb_true_iff in G. destruct G as [G|G]; [apply orb_true_iff in G; destruct G as [G|G]|].
    + left. apply in_existsb. exact G.
    + right. left. lia.
    + right. right. lia.
  - intros y Hy Hne. rewrite forallb_forall in W. specialize (W y Hy). replace (y =? x) with false in W by lia. apply N.eqb_eq in W. exact W.
Qed.

Lemma geo2_sweep :
  forallb (fun a => forallb (fun k =>
     Bool.eqb (negb (a =? k) && same_line a k) ((ldir a k =? 1) || (ldir a k =? 8)) &&
     Bool.eqb (negb (a =? k) && same_diag a k) ((ldir a k =? 7) || (ldir a k =? 9)) &&
     (ldir a k =? ldir k a)) all64) all64 = true.
Proof. vm_compute. reflexivity. Qed.

Lemma geo2 a k : a < 64 -> k < 64 ->
  negb (a =? k) && same_line a k = ((ldir a k =? 1) || (ldir a k =? 8)) /\
  negb (a =? k) && same_diag a k = ((ldir a k =? 7) || (ldir a k =? 9)) /\ ldir a k = ldir k a.
Proof.
  intros Ha Hk. pose proof (forallb_all64 _ (forallb_all64 _ geo2_sweep a Ha) k Hk) as H. cbv beta in H.
  repeat (apply andb_true_iff in H; let H' := fresh "W" in destruct H as [H H']).
  apply eqb_prop in H. apply eqb_prop in W0. apply N.eqb_eq in W. repeat split; assumption.
Qed.

(* ---------- specification side ---------- *)
Lemma pawn_candidates_ep sp fr m : In m (pawn_candidates sp fr) -> m_type m = Enpassant ->
  exists e, s_ep sp = Some e /\ piece_attacks (s_board sp) (s_turn sp) Pawn fr e = true /\ at_sq (s_board sp) e = None /\
            m = mkMove Enpassant fr e Pawn Pawn NoPiece.
Proof.
  unfold pawn_candidates. intros H Hty. apply in_app_or in H. destruct H as [H|H].
  - exfalso.
    repeat match type of H with
           | In _ (match ?o with Some _ => _ | None => _ end) => destruct o
           | In _ (if ?c then _ else _) => destruct c
           | In _ (_ ++ _) => apply in_app_or in H; destruct H as [H|H]
           | In _ (map _ _) => apply in_map_iff in H; destruct H as [? [<- _]]
           | In _ [] => destruct H
           | In _ (_ :: _) => destruct H as [<-|H]
           end; discriminate Hty.
  - apply in_flat_map in H. destruct H as [to [_ H]].
    destruct (piece_attacks (s_board sp) (s_turn sp) Pawn fr to) eqn:Hatt; [|destruct H].
    destruct (at_sq (s_board sp) to) as [[c pc]|] eqn:Eat.
    + exfalso.
      repeat match type of H with
           | In _ (if ?c then _ else _) => destruct c
           | In _ (map _ _) => apply in_map_iff in H; destruct H as [? [<- _]]
           | In _ [] => destruct H
           | In _ (_ :: _) => destruct H as [<-|H]
           end; discriminate Hty.
    + destruct (s_ep sp) as [e0|] eqn:Ee; [|destruct H]. destruct (N.eqb_spec e0 to) as [->|Hne]; [|destruct H].
      destruct H as [<-|[]]. exists to. repeat split; assumption.
Qed.

Section EpSpec.
Variable p : position.
Hypothesis Hwf : wf p = true.
Variable k : N.
Hypothesis Hk : find_king (abs_board p) (turn p) = Some k.
Hypothesis Huk : forall a, a < 64 -> cell_of_b (brd p) a = Some (turn p, King) -> a = k.
Hypothesis Hep : ep_ok (abs p) = true.
Variable e : N.
Hypothesis He : (if ep p =? OffSq then None else Some (ep p)) = Some e.
Notation f := (cell_of_b (brd p)).
Notation us := (turn p).
Notation them := (opp_side (turn p)).
Notation v := (match turn p with White => e - 8 | Black => e + 8 end).
Notation o := (match turn p with White => e + 8 | Black => e - 8 end).

Lemma ep_board fr : apply_board (abs_board p) us (mkMove Enpassant fr e Pawn Pawn NoPiece) = board_of (upd (vacate f [fr; v]) e (Some (us, Pawn))).
Proof.
  unfold apply_board. cbn [m_type m_from m_to]. rewrite !put_as_map. unfold board_of. apply map_all64_ext. intros q Hq. unfold upd, vacate. cbn [existsb].
  destruct (q =? e); [reflexivity|]. rewrite at_sq_map by exact Hq. rewrite orb_false_r, orb_comm. destruct (q =? v); [reflexivity|]. cbn [orb].
  rewrite at_sq_map by exact Hq. destruct (q =? fr); [reflexivity|]. apply at_sq_abs_board. exact Hq.
Qed.

Definition ep_safe_cond (fr : N) : Prop :=
  forall a pa, a < 64 -> a <> e -> ~ In a [fr; v] -> f a = Some (them, pa) ->
    (is_slider pa = false -> piece_attacks (board_of f) them pa a k = false) /\
    (is_slider pa = true -> slider_aligned pa a k = true ->
       In e (between a k) \/ exists y, In y (between a k) /\ ~ In y [fr; v] /\ f y <> None).

(* the rules' verdict on the en-passant capture from fr *)
Lemma ep_safe_iff fr : fr < 64 -> f fr = Some (us, Pawn) ->
  (leaves_king_safe (abs p) (mkMove Enpassant fr e Pawn Pawn NoPiece) = true <-> ep_safe_cond fr).
Proof.
  intros Hfr Hffr. destruct (k_lt p Hwf k Hk) as [Hk64 Hfk].
  destruct (ep_facts p Hwf k Hk Huk Hep e He) as (E64 & E8 & E56 & Hv64 & Ho64 & Hfv & Hfe & Hfo & Hbefore).
  unfold leaves_king_safe. cbn [abs s_board s_turn]. rewrite (ep_board fr). unfold king_attacked.
  assert (Hke : k <> e) by (apply (cell_clash f k e _ _ Hfk Hfe); discriminate).
  assert (Hkfr : k <> fr) by (apply (cell_clash f k fr _ _ Hfk Hffr); discriminate).
  assert (Hkv : k <> v) by (apply (cell_clash f k v _ _ Hfk Hfv); discriminate).
  assert (Hfk' : forall q, q < 64 -> (upd (vacate f [fr; v]) e (Some (us, Pawn)) q = Some (us, King) <-> q = k)).
  { intros q Hq. unfold upd, vacate. cbn [existsb]. destruct (N.eqb_spec q e) as [Eqe|Hqe]; [split; [discriminate|intros Eqk; exfalso; apply Hke; rewrite <- Eqk; exact Eqe]|].
    destruct (N.eqb_spec q fr) as [Eqf|Hqf]; [cbn [orb]; split; [discriminate|intros Eqk; exfalso; apply Hkfr; rewrite <- Eqk; exact Eqf]|].
    destruct (N.eqb_spec q v) as [Eqv|Hqv]; [cbn [orb]; split; [discriminate|intros Eqk; exfalso; apply Hkv; rewrite <- Eqk; exact Eqv]|].
    cbn [orb]. split; [apply Huk; exact Hq|intros ->; exact Hfk]. }
  rewrite (find_king_char _ us k Hk64 Hfk'). rewrite negb_true_iff.
  apply (safe_after_gen f us k e [fr; v] _ Hk64 E64 (ex_intro _ Pawn eq_refl)).
Qed.

Lemma s_ep_abs : s_ep (abs p) = Some e. Proof. exact He. Qed.

Theorem spec_ep_iff m :
  (In m (spec_moves (abs p)) /\ m_type m = Enpassant) <->
  exists fr, fr < 64 /\ f fr = Some (us, Pawn) /\ piece_attacks (abs_board p) us Pawn fr e = true /\
             m = mkMove Enpassant fr e Pawn Pawn NoPiece /\ ep_safe_cond fr.
Proof.
  destruct (ep_facts p Hwf k Hk Huk Hep e He) as (E64 & E8 & E56 & Hv64 & Ho64 & Hfv & Hfe & Hfo & Hbefore).
  split.
  - intros [Hin Hty]. unfold spec_moves in Hin. apply filter_In in Hin. destruct Hin as [Hps Hsafe].
    unfold pseudo_moves in Hps. apply in_app_or in Hps. destruct Hps as [Hps|Hps].
    2:{ exfalso. cbn [abs s_turn] in Hps. destruct us; apply in_app_or in Hps; destruct Hps as [H|H]; apply castle_candidate_labels in H; congruence. }
    apply in_flat_map in Hps. destruct Hps as [fr [Hfr Hps]]. apply in_squares in Hfr. cbn [abs s_board s_turn] in Hps.
    rewrite at_sq_abs_board in Hps by exact Hfr. change (cell_of p fr) with (f fr) in Hps.
    destruct (f fr) as [[c pc']|] eqn:Effr; [|destruct Hps]. destruct (side_eqb c us) eqn:Ec; [|destruct Hps]. apply side_eqb_true in Ec. subst c.
    assert (Hcand : In m (pawn_candidates (abs p) fr) /\ pc' = Pawn).
    { destruct pc'; cbv iota in Hps;
        try (match type of Hps with In _ (piece_candidates _ _ ?q) => pose proof (piece_candidates_labels (abs p) fr q m Hps) as (_ & _ & [E|E]) end; congruence).
      - split; [exact Hps|reflexivity].
      - destruct Hps. }
    destruct Hcand as [Hcand ->].
    destruct (pawn_candidates_ep (abs p) fr m Hcand Hty) as (e0 & Ee0 & Hatt & _ & Hm).
    rewrite s_ep_abs in Ee0. inversion Ee0; subst e0. cbn [abs s_board s_turn] in Hatt.
    exists fr. split; [exact Hfr|]. split; [exact Effr|]. split; [exact Hatt|]. split; [exact Hm|].
    apply (ep_safe_iff fr Hfr Effr). rewrite <- Hm. exact Hsafe.
  - intros (fr & Hfr & Hffr & Hatt & Hm & Hsafe). subst m. split; [|reflexivity].
    unfold spec_moves. apply filter_In. split.
    + unfold pseudo_moves. apply in_or_app. left. apply in_flat_map. exists fr. split; [apply in_squares; exact Hfr|]. cbn [abs s_board s_turn].
      rewrite at_sq_abs_board by exact Hfr. change (cell_of p fr) with (f fr). rewrite Hffr, side_eqb_refl. cbv iota.
      unfold pawn_candidates. apply in_or_app. right. apply in_flat_map. exists e. split; [apply in_squares; exact E64|].
      cbn [abs s_board s_turn s_ep]. rewrite Hatt. rewrite at_sq_abs_board by exact E64. change (cell_of p e) with (f e). rewrite Hfe, He, N.eqb_refl.
      left. reflexivity.
    + apply (ep_safe_iff fr Hfr Hffr). exact Hsafe.
Qed.
End EpSpec.

(* ---------- geometry of the en-passant squares ---------- *)
Definition ep_geo_ok (s : side) (e fr : N) : bool :=
  let v := match s with White => e - 8 | Black => e + 8 end in
  let o := match s with White => e + 8 | Black => e - 8 end in
  nb 1 fr v && nb 1 v fr && (ldir fr v =? 1) && nb (ldir fr e) fr e && ((ldir fr e =? 7) || (ldir fr e =? 9)) &&
  nb 8 v e && (ldir v o =? 8) && (ldir v e =? 8).

Lemma ep_geo_sweep :
  forallb (fun s => forallb (fun e => forallb (fun fr =>
     if (8 <=? e) && (e <? 56) && piece_attacks [] s Pawn fr e then ep_geo_ok s e fr else true) all64) all64) [White; Black] = true.
Proof. vm_compute. reflexivity. Qed.

Lemma ep_geo s e fr : e < 64 -> fr < 64 -> 8 <= e -> e < 56 -> piece_attacks [] s Pawn fr e = true -> ep_geo_ok s e fr = true.
Proof.
  intros He Hfr H8 H56 Hatt. pose proof ep_geo_sweep as H. rewrite forallb_forall in H.
  assert (Hs : In s [White; Black]) by (destruct s; [left|right; left]; reflexivity).
  pose proof (forallb_all64 _ (forallb_all64 _ (H s Hs) e He) fr Hfr) as G. cbv beta in G.
  replace ((8 <=? e) && (e <? 56)) with true in G by lia. rewrite Hatt in G. exact G.
Qed.

Lemma ldir_vals a k : ldir a k = 0 \/ ldir a k = 1 \/ ldir a k = 7 \/ ldir a k = 8 \/ ldir a k = 9.
Proof. unfold ldir. repeat match goal with |- context [if ?c then _ else _] => destruct c end; tauto. Qed.

Lemma aligned_ldir pa a k : a < 64 -> k < 64 -> is_slider pa = true ->
  slider_aligned pa a k = match pa with
                          | Bishop => (ldir a k =? 7) || (ldir a k =? 9)
                          | Rook => (ldir a k =? 1) || (ldir a k =? 8)
                          | _ => negb (ldir a k =? 0) end.
Proof.
  intros Ha Hk Hs. destruct (geo2 a k Ha Hk) as (G1 & G2 & _). unfold slider_aligned.
  destruct pa; try discriminate Hs.
  - exact G2.
  - exact G1.
  - rewrite andb_orb_distrib_r, G1, G2. destruct (ldir_vals a k) as [E|[E|[E|[E|E]]]]; rewrite E; reflexivity.
Qed.

(* ---------- the rules' verdict on the mailbox, in the terms of the generator ---------- *)
Section EpMailbox.
Variable p : position.
Hypothesis Hwf : wf p = true.
Variable k : N.
Hypothesis Hk : find_king (abs_board p) (turn p) = Some k.
Hypothesis Huk : forall a, a < 64 -> cell_of_b (brd p) a = Some (turn p, King) -> a = k.
Hypothesis Hep : ep_ok (abs p) = true.
Variable e : N.
Hypothesis He : (if ep p =? OffSq then None else Some (ep p)) = Some e.
Notation f := (cell_of_b (brd p)).
Notation us := (turn p).
Notation them := (opp_side (turn p)).
Notation v := (match turn p with White => e - 8 | Black => e + 8 end).
Notation o := (match turn p with White => e + 8 | Black => e - 8 end).

Definition occb (y : N) : bool := match f y with Some _ => true | None => false end.
(* the blockers of the rank test: the occupancy without the two pawns, with (White) or without (Black) the ep square *)
Definition blm (eb : bool) (fr y : N) : bool := (eb && (y =? e)) || (occb y && negb (y =? fr) && negb (y =? v)).

Definition ep_model_cond (eb : bool) (fr : N) : Prop :=
  (forall a, checker p k a -> a = v) /\
  (forall a, Pinner f us k a fr -> ldir a k = ldir fr e) /\
  (forall a pa, a < 64 -> f a = Some (them, pa) -> pa = Rook \/ pa = Queen -> ldir a k = 1 ->
     exists y, In y (between a k) /\ blm eb fr y = true).

Lemma checker_of_clear a pa : a < 64 -> f a = Some (them, pa) -> is_slider pa = true -> slider_aligned pa a k = true ->
  (forall y, In y (between a k) -> f y = None) -> checker p k a.
Proof.
  intros Ha Efa Hs Hal Hcl. destruct (k_lt p Hwf k Hk) as [Hk64 _]. split; [exact Ha|]. exists pa. split; [exact Efa|].
  rewrite slider_attacks by exact Hs. rewrite Hal. cbn [andb]. apply (all_empty_before f k Hk64 a Ha). exact Hcl.
Qed.

Theorem ep_mailbox eb fr : fr < 64 -> f fr = Some (us, Pawn) -> piece_attacks (abs_board p) us Pawn fr e = true ->
  (ep_safe_cond p k e fr <-> ep_model_cond eb fr).
Proof.
  intros Hfr Hffr Hatt. destruct (k_lt p Hwf k Hk) as [Hk64 Hfk].
  destruct (ep_facts p Hwf k Hk Huk Hep e He) as (E64 & E8 & E56 & Hv64 & Ho64 & Hfv & Hfe & Hfo & Hbefore).
  change (piece_attacks [] us Pawn fr e = true) in Hatt.
  pose proof (ep_geo us e fr E64 Hfr E8 E56 Hatt) as G. unfold ep_geo_ok in G. cbv zeta in G.
  do 7 (apply andb_true_iff in G; let H' := fresh "G" in destruct G as [G H']).
  apply N.eqb_eq in G5, G1, G0. rename G into Gfv. rename G6 into Gvf. rename G4 into Gfe. rename G2 into Gve.
  rename G5 into Lfv. rename G1 into Lvo. rename G0 into Lve.
  assert (Hd79 : ldir fr e = 7 \/ ldir fr e = 9) by lia. clear G3.
  assert (Hke : k <> e) by (apply (cell_clash f k e _ _ Hfk Hfe); discriminate).
  assert (Hkfr : k <> fr) by (apply (cell_clash f k fr _ _ Hfk Hffr); discriminate).
  assert (Hkv : k <> v) by (apply (cell_clash f k v _ _ Hfk Hfv); discriminate).
  assert (Hfre : fr <> e) by (apply (cell_clash f fr e _ _ Hffr Hfe); discriminate).
  assert (Hve : v <> e) by (apply (cell_clash f v e _ _ Hfv Hfe); discriminate).
  assert (Hvo : v <> o) by (apply (cell_clash f v o _ _ Hfv Hfo); discriminate).
  assert (Hvfr : v <> fr) by (apply (cell_clash f v fr _ _ Hfv Hffr); intros E; inversion E; destruct us; discriminate).
  assert (Hthem : forall a pa, f a = Some (them, pa) -> a <> e /\ a <> fr /\ a <> o /\ a <> k).
  { intros a pa Efa. repeat split; intros ->.
    - rewrite Hfe in Efa. discriminate.
    - rewrite Hffr in Efa. inversion Efa. destruct us; discriminate.
    - rewrite Hfo in Efa. discriminate.
    - rewrite Hfk in Efa. inversion Efa. destruct us; discriminate. }
  split.
  - (* the rules' condition implies the generator's *)
    intros Hsafe.
    assert (C1 : forall a, checker p k a -> a = v).
    { intros a Hc. destruct (N.eq_dec a v) as [E|Hav]; [exact E|exfalso].
      pose proof (ep_cannot_resolve p Hwf k Hk Huk Hep e He fr a Hfr Hffr Hc Hav) as Hn.
      rewrite (proj2 (ep_safe_iff p Hwf k Hk Huk Hep e He fr Hfr Hffr) Hsafe) in Hn. discriminate. }
    split; [exact C1|]. split.
    + intros a (Ha & pa & Efa & Hs & Hal & [Hin Halone]).
      destruct (Hthem a pa Efa) as (Hae & Hafr & Hao & Hak).
      assert (Hav : a <> v) by (intros E; rewrite E, Hfv in Efa; inversion Efa; subst pa; discriminate).
      assert (HaV : ~ In a [fr; v]) by (intros [E|[E|[]]]; congruence).
      destruct (Hsafe a pa Ha Hae HaV Efa) as [_ S2].
      destruct (S2 Hs Hal) as [Hine|[y (Hy & HyV & Hfy)]].
      * destruct (geo1 a k fr Ha Hk64 Hin) as (_ & _ & _ & _ & G5). symmetry. apply G5; [exact Hine|congruence].
      * exfalso. apply Hfy. apply Halone; [exact Hy|]. intros ->. apply HyV. left. reflexivity.
    + intros a pa Ha Efa Hpa Hd1.
      destruct (Hthem a pa Efa) as (Hae & Hafr & Hao & Hak).
      assert (Hs : is_slider pa = true) by (destruct Hpa as [-> | ->]; reflexivity).
      assert (Hav : a <> v) by (intros E; rewrite E, Hfv in Efa; inversion Efa; subst pa; discriminate).
      assert (HaV : ~ In a [fr; v]) by (intros [E|[E|[]]]; congruence).
      assert (Hal : slider_aligned pa a k = true) by (rewrite (aligned_ldir pa a k Ha Hk64 Hs), Hd1; destruct Hpa as [-> | ->]; reflexivity).
      destruct (existsb (blm eb fr) (between a k)) eqn:Ex.
      { apply existsb_exists in Ex. exact Ex. }
      exfalso.
      assert (Hall : forall y, In y (between a k) -> blm eb fr y = false).
      { intros y Hy. destruct (blm eb fr y) eqn:Eb; [|reflexivity]. assert (existsb (blm eb fr) (between a k) = true); [|congruence].
        apply existsb_exists. exists y. split; assumption. }
      destruct (Hsafe a pa Ha Hae HaV Efa) as [_ S2].
      destruct (S2 Hs Hal) as [Hine|[y (Hy & HyV & Hfy)]].
      * (* the ep square on the king's rank: the slider is a checker *)
        assert (Hclear : forall y, In y (between a k) -> f y = None).
        { intros y Hy. destruct (geo1 a k y Ha Hk64 Hy) as (_ & _ & _ & _ & G5).
          pose proof (Hall y Hy) as Hb. unfold blm in Hb. apply orb_false_iff in Hb. destruct Hb as [_ Hb].
          destruct (N.eq_dec y e) as [->|Hye]; [exact Hfe|].
          assert (Hyfr : y <> fr) by (intros ->; rewrite (G5 e Hine (not_eq_sym Hye)), Hd1 in Hd79; lia).
          assert (Hyv : y <> v) by (intros ->; rewrite (G5 e Hine (not_eq_sym Hve)), Hd1 in Lve; lia).
          rewrite (proj2 (N.eqb_neq y fr) Hyfr), (proj2 (N.eqb_neq y v) Hyv) in Hb. rewrite !andb_true_r in Hb.
          unfold occb in Hb. destruct (f y); [discriminate|reflexivity]. }
        apply Hav. apply C1. apply (checker_of_clear a pa Ha Efa Hs Hal Hclear).
      * pose proof (Hall y Hy) as Hb. unfold blm in Hb. apply orb_false_iff in Hb. destruct Hb as [_ Hb].
        assert (Hyfr : y <> fr) by (intros ->; apply HyV; left; reflexivity).
        assert (Hyv : y <> v) by (intros E; apply HyV; right; left; symmetry; exact E).
        rewrite (proj2 (N.eqb_neq y fr) Hyfr), (proj2 (N.eqb_neq y v) Hyv) in Hb. rewrite !andb_true_r in Hb.
        unfold occb in Hb. destruct (f y); [discriminate|apply Hfy; reflexivity].
  - (* the generator's condition implies the rules' *)
    intros (C1 & C2 & C3) a pa Ha Hae HaV Efa.
    assert (Hafr : a <> fr) by (intros E; apply HaV; left; symmetry; exact E).
    assert (Hav : a <> v) by (intros E; apply HaV; right; left; symmetry; exact E).
    destruct (Hthem a pa Efa) as (_ & _ & Hao & Hak).
    split.
    + intros Hs. apply not_true_is_false. intros Hat. apply Hav. apply C1. split; [exact Ha|]. exists pa. split; assumption.
    + intros Hs Hal.
      destruct (in_dec N.eq_dec e (between a k)) as [Hine|Hnine]; [left; exact Hine|right].
      destruct (existsb (fun y => occb y && negb (y =? fr) && negb (y =? v)) (between a k)) eqn:Ex.
      { apply existsb_exists in Ex. destruct Ex as [y [Hy Hb]]. exists y. split; [exact Hy|].
        apply andb_true_iff in Hb. destruct Hb as [Hb B3]. apply andb_true_iff in Hb. destruct Hb as [B1 B2].
        apply negb_true_iff in B2, B3. apply N.eqb_neq in B2, B3. split; [intros [E|[E|[]]]; congruence|]. unfold occb in B1. destruct (f y); [discriminate|discriminate]. }
      exfalso.
      assert (Hall : forall y, In y (between a k) -> y <> fr -> y <> v -> f y = None).
      { intros y Hy H1 H2. destruct (f y) eqn:Efy; [|reflexivity]. assert (existsb (fun y => occb y && negb (y =? fr) && negb (y =? v)) (between a k) = true); [|congruence].
        apply existsb_exists. exists y. split; [exact Hy|]. unfold occb. rewrite Efy. rewrite (proj2 (N.eqb_neq y fr) H1), (proj2 (N.eqb_neq y v) H2). reflexivity. }
      clear Ex.
      destruct (in_dec N.eq_dec fr (between a k)) as [Hinf|Hninf]; destruct (in_dec N.eq_dec v (between a k)) as [Hinv|Hninv].
      * (* both pawns on the line: it is the king's rank *)
        destruct (geo1 a k fr Ha Hk64 Hinf) as (_ & _ & _ & _ & G5). pose proof (G5 v Hinv Hvfr) as Ed. rewrite Lfv in Ed.
        assert (Hpa : pa = Rook \/ pa = Queen).
        { rewrite (aligned_ldir pa a k Ha Hk64 Hs), <- Ed in Hal. destruct pa; try discriminate Hs; try discriminate Hal; tauto. }
        destruct (C3 a pa Ha Efa Hpa (eq_sym Ed)) as [y [Hy Hb]]. unfold blm in Hb. apply orb_true_iff in Hb. destruct Hb as [Hb|Hb].
        -- apply andb_true_iff in Hb. destruct Hb as [_ Hb]. apply N.eqb_eq in Hb. subst y. contradiction.
        -- apply andb_true_iff in Hb. destruct Hb as [Hb B3]. apply andb_true_iff in Hb. destruct Hb as [B1 B2].
           apply negb_true_iff in B2, B3. apply N.eqb_neq in B2, B3. assert (Hn : f y = None) by (apply (Hall y Hy B2 B3)). unfold occb in B1. rewrite Hn in B1. discriminate.
      * (* the capturing pawn alone: a pin along the capture's diagonal *)
        assert (Hp : Pinner f us k a fr).
        { split; [exact Ha|]. exists pa. split; [exact Efa|]. split; [exact Hs|]. split; [exact Hal|]. split; [exact Hinf|].
          intros y Hy Hyf. apply (Hall y Hy Hyf). intros ->. contradiction. }
        pose proof (C2 a Hp) as Ed. destruct (geo1 a k fr Ha Hk64 Hinf) as (_ & _ & _ & G4' & _).
        rewrite <- Ed in Gfe. destruct (G4' e E64 Gfe) as [H|[H|H]]; [contradiction|congruence|congruence].
      * (* the captured pawn alone between the slider and the king *)
        destruct (geo1 a k v Ha Hk64 Hinv) as (_ & _ & Hd0 & G4' & G5).
        assert (Hclear : forall y, In y (between a k) -> y <> v -> f y = None).
        { intros y Hy Hyv. apply (Hall y Hy); [intros ->; contradiction|exact Hyv]. }
        destruct (ldir_vals a k) as [Ed|[Ed|[Ed|[Ed|Ed]]]]; [contradiction| | | |].
        -- rewrite Ed in G4'. destruct (G4' fr Hfr Gvf) as [H|[H|H]]; [contradiction|congruence|congruence].
        -- (* diagonal: the king was attacked before the double push *)
           assert (Hno : ~ In o (between a k)) by (intros Hin; rewrite (G5 o Hin (not_eq_sym Hvo)) in Lvo; rewrite Ed in Lvo; discriminate Lvo).
           pose proof (proj1 (attacked_false_iff _ k them) Hbefore a Ha) as Hb.
           unfold upd at 1 2 in Hb. rewrite (proj2 (N.eqb_neq a o) Hao), (proj2 (N.eqb_neq a v) Hav) in Hb.
           rewrite Efa, side_eqb_refl in Hb. cbn [andb] in Hb. rewrite slider_attacks, Hal in Hb by exact Hs. cbn [andb] in Hb.
           assert (all_empty (board_of (upd (upd f v None) o (Some (them, Pawn)))) (between a k) = true); [|congruence].
           unfold all_empty. apply forallb_forall. intros y Hy. assert (Hy64 : y < 64) by (apply (between_lt a k y Ha Hk64 Hy)).
           unfold is_empty. rewrite at_board_of by exact Hy64. unfold upd. destruct (N.eqb_spec y o) as [Eyo|Hyo]; [subst y; contradiction|].
           destruct (N.eqb_spec y v) as [Eyv|Hyv]; [reflexivity|]. rewrite (Hclear y Hy Hyv). reflexivity.
        -- rewrite Ed in G4'. destruct (G4' e E64 Gve) as [H|[H|H]]; [contradiction|congruence|congruence].
        -- assert (Hno : ~ In o (between a k)) by (intros Hin; rewrite (G5 o Hin (not_eq_sym Hvo)) in Lvo; rewrite Ed in Lvo; discriminate Lvo).
           pose proof (proj1 (attacked_false_iff _ k them) Hbefore a Ha) as Hb.
           unfold upd at 1 2 in Hb. rewrite (proj2 (N.eqb_neq a o) Hao), (proj2 (N.eqb_neq a v) Hav) in Hb.
           rewrite Efa, side_eqb_refl in Hb. cbn [andb] in Hb. rewrite slider_attacks, Hal in Hb by exact Hs. cbn [andb] in Hb.
           assert (all_empty (board_of (upd (upd f v None) o (Some (them, Pawn)))) (between a k) = true); [|congruence].
           unfold all_empty. apply forallb_forall. intros y Hy. assert (Hy64 : y < 64) by (apply (between_lt a k y Ha Hk64 Hy)).
           unfold is_empty. rewrite at_board_of by exact Hy64. unfold upd. destruct (N.eqb_spec y o) as [Eyo|Hyo]; [subst y; contradiction|].
           destruct (N.eqb_spec y v) as [Eyv|Hyv]; [reflexivity|]. rewrite (Hclear y Hy Hyv). reflexivity.
      * (* neither: the slider gives check *)
        apply Hav. apply C1. apply (checker_of_clear a pa Ha Efa Hs Hal). intros y Hy. apply (Hall y Hy); intros ->; contradiction.
Qed.
End EpMailbox.

(* ---------- the unrolled ray lambdas of legal_captures ---------- *)
Section RayFill.
Variable step : N -> N.
Variable prv : N -> option N.         (* the square a member of (step b) came from *)
Hypothesis step_spec : forall b i, b < two64 -> i < 64 -> N.testbit (step b) i = match prv i with Some j => N.testbit b j | None => false end.
Hypothesis step_lt : forall b, b < two64 -> step b < two64.
Hypothesis prv_lt : forall i j, i < 64 -> prv i = Some j -> j < 64.
Variables k bl : N.
Hypothesis Hk : k < 64.

Fixpoint bseq (n : nat) : N :=
  match n with O => step (bit k) | S n' => N.lor (bseq n') (step (N.land (bseq n') (not64 bl))) end.
Lemma ray_fill_bseq : ray_fill step k bl = bseq 6. Proof. reflexivity. Qed.

Fixpoint rq_reach (n : nat) (i : N) : bool :=
  match prv i with
  | None => false
  | Some j => (j =? k) || match n with O => false | S n' => negb (N.testbit bl j) && rq_reach n' j end
  end.

Lemma bseq_lt n : bseq n < two64.
Proof. induction n as [|n IH]; cbn [bseq]; [apply step_lt, bit_lt|]. apply lor_lt; [exact IH|]. apply step_lt, land_lt, IH. Qed.

Lemma rq_reach_mono n : forall i, rq_reach n i = true -> rq_reach (S n) i = true.
Proof.
  induction n as [|n IH]; intros i H.
  - cbn [rq_reach] in *. destruct (prv i) as [j|]; [|discriminate]. rewrite orb_false_r in H. rewrite H. reflexivity.
  - cbn [rq_reach] in H. change (rq_reach (S (S n)) i) with
      (match prv i with None => false | Some j => (j =? k) || (negb (N.testbit bl j) && rq_reach (S n) j) end).
    destruct (prv i) as [j|]; [|discriminate]. apply orb_true_iff in H. destruct H as [H|H]; [rewrite H; reflexivity|].
    apply andb_true_iff in H. destruct H as [H1 H2]. rewrite H1, (IH j H2). apply orb_true_r.
Qed.

Lemma bseq_bit n : forall i, i < 64 -> N.testbit (bseq n) i = rq_reach n i.
Proof.
  induction n as [|n IH]; intros i Hi.
  - cbn [bseq rq_reach]. rewrite (step_spec _ i (bit_lt k) Hi). destruct (prv i) as [j|]; [|reflexivity].
    rewrite (bit_spec k j Hk), orb_false_r. reflexivity.
  - cbn [bseq]. rewrite N.lor_spec, (step_spec _ i (land_lt _ _ (bseq_lt n)) Hi), (IH i Hi).
    change (rq_reach (S n) i) with (match prv i with None => false | Some j => (j =? k) || (negb (N.testbit bl j) && rq_reach n j) end).
    destruct (prv i) as [j|] eqn:Ep.
    + pose proof (prv_lt i j Hi Ep) as Hj. rewrite N.land_spec, not64_spec, (IH j Hj). replace (j <? 64) with true by lia. cbn [andb].
      destruct n as [|n].
      * cbn [rq_reach]. rewrite Ep. rewrite orb_false_r. destruct (j =? k); destruct (N.testbit bl j); destruct (match prv j with Some j0 => (j0 =? k) || false | None => false end); reflexivity.
      * change (rq_reach (S n) i) with (match prv i with None => false | Some j => (j =? k) || (negb (N.testbit bl j) && rq_reach n j) end). rewrite Ep.
        pose proof (rq_reach_mono n j) as Hm.
        destruct (j =? k); destruct (N.testbit bl j); destruct (rq_reach n j); destruct (rq_reach (S n) j); try reflexivity; discriminate (Hm eq_refl).
    + destruct n; cbn [rq_reach]; rewrite Ep; reflexivity.
Qed.

(* the squares walked over, from i back towards k *)
Fixpoint rq_path (n : nat) (i : N) : option (list N) :=
  match prv i with
  | None => None
  | Some j => if j =? k then Some [] else
              match n with O => None | S n' => match rq_path n' j with Some l => Some (j :: l) | None => None end end
  end.

Lemma rq_reach_path n : forall i, rq_reach n i = match rq_path n i with Some l => forallb (fun y => negb (N.testbit bl y)) l | None => false end.
Proof.
  induction n as [|n IH]; intros i.
  - cbn [rq_reach rq_path]. destruct (prv i) as [j|]; [|reflexivity]. destruct (j =? k); reflexivity.
  - change (rq_reach (S n) i) with (match prv i with None => false | Some j => (j =? k) || (negb (N.testbit bl j) && rq_reach n j) end).
    change (rq_path (S n) i) with (match prv i with None => None | Some j => if j =? k then Some [] else match rq_path n j with Some l => Some (j :: l) | None => None end end).
    destruct (prv i) as [j|]; [|reflexivity]. destruct (j =? k); [reflexivity|]. cbn [orb]. rewrite (IH j).
    destruct (rq_path n j); [reflexivity|apply andb_false_r].
Qed.

Lemma ray_fill_bits i : i < 64 ->
  N.testbit (ray_fill step k bl) i = match rq_path 6 i with Some l => forallb (fun y => negb (N.testbit bl y)) l | None => false end.
Proof. intros Hi. rewrite ray_fill_bseq, (bseq_bit 6 i Hi). apply rq_reach_path. Qed.
End RayFill.

Definition prv_e (i : N) : option N := if fileof i =? 0 then None else Some (i - 1).
Definition prv_w (i : N) : option N := if fileof i =? 7 then None else Some (i + 1).
Definition prv_ne (i : N) : option N := if (fileof i =? 0) || (i <? 9) then None else Some (i - 9).
Definition prv_sw (i : N) : option N := if (fileof i =? 7) || (64 <=? i + 9) then None else Some (i + 9).

Lemma step_e_spec b i : b < two64 -> i < 64 -> N.testbit (east b) i = match prv_e i with Some j => N.testbit b j | None => false end.
Proof. intros _ Hi. pose proof (east_spec b i Hi) as H. unfold mem in H. rewrite H. unfold prv_e. change (sq_file i) with (fileof i). destruct (fileof i =? 0); reflexivity. Qed.
Lemma step_w_spec b i : b < two64 -> i < 64 -> N.testbit (west b) i = match prv_w i with Some j => N.testbit b j | None => false end.
Proof. intros _ Hi. pose proof (west_spec b i Hi) as H. unfold mem in H. rewrite H. unfold prv_w. change (sq_file i) with (fileof i). destruct (fileof i =? 7); reflexivity. Qed.
Lemma step_ne_spec b i : b < two64 -> i < 64 -> N.testbit (east (north b)) i = match prv_ne i with Some j => N.testbit b j | None => false end.
Proof.
  intros _ Hi. pose proof (east_spec (north b) i Hi) as H. unfold mem in H. rewrite H. unfold prv_ne. change (sq_file i) with (fileof i).
  destruct (fileof i =? 0); [reflexivity|]. cbn [negb andb orb].
  pose proof (north_spec b (i - 1)) as H2. unfold mem in H2. rewrite H2 by lia.
  destruct (N.ltb_spec i 9) as [H9|H9].
  - replace (8 <=? i - 1) with false by lia. reflexivity.
  - replace (8 <=? i - 1) with true by lia. replace (i - 1 - 8) with (i - 9) by lia. reflexivity.
Qed.
Lemma step_sw_spec b i : b < two64 -> i < 64 -> N.testbit (west (south b)) i = match prv_sw i with Some j => N.testbit b j | None => false end.
Proof.
  intros Hb Hi. pose proof (west_spec (south b) i Hi) as H. unfold mem in H. rewrite H. unfold prv_sw. change (sq_file i) with (fileof i).
  destruct (fileof i =? 7); [reflexivity|]. cbn [negb andb orb].
  pose proof (south_spec b (i + 1)) as H2. unfold mem in H2. rewrite H2. replace (i + 1 + 8) with (i + 9) by lia.
  destruct (N.leb_spec 64 (i + 9)) as [H9|H9]; [|reflexivity]. apply (proj1 (lt64_iff b) Hb). exact H9.
Qed.
Lemma prv_e_lt i j : i < 64 -> prv_e i = Some j -> j < 64. Proof. unfold prv_e. destruct (fileof i =? 0); [discriminate|]. intros H E. inversion E. lia. Qed.
Lemma prv_w_lt i j : i < 64 -> prv_w i = Some j -> j < 64.
Proof. unfold prv_w, fileof. destruct (N.eqb_spec (i mod 8) 7) as [|Hne]; [discriminate|]. intros H E. inversion E. lia. Qed.
Lemma prv_ne_lt i j : i < 64 -> prv_ne i = Some j -> j < 64. Proof. unfold prv_ne. destruct (_ || _); [discriminate|]. intros H E. inversion E. lia. Qed.
Lemma prv_sw_lt i j : i < 64 -> prv_sw i = Some j -> j < 64.
Proof. unfold prv_sw. destruct (fileof i =? 7); [discriminate|]. cbn [orb]. destruct (N.leb_spec 64 (i + 9)); [discriminate|]. intros H0 E. inversion E. lia. Qed.

Definition opt_list_eqb (a b : option (list N)) : bool :=
  match a, b with Some l, Some l' => list_eqb l l' | None, None => true | _, _ => false end.
Lemma opt_list_eqb_eq a b : opt_list_eqb a b = true -> a = b.
Proof. destruct a, b; cbn; intros H; try discriminate; [apply list_eqb_eq in H; subst|]; reflexivity. Qed.

Lemma ray_paths_sweep :
  forallb (fun k => forallb (fun i =>
     opt_list_eqb (rq_path prv_e k 6 i) (if (ldir i k =? 1) && (k <? i) then Some (between i k) else None) &&
     opt_list_eqb (rq_path prv_w k 6 i) (if (ldir i k =? 1) && (i <? k) then Some (between i k) else None) &&
     opt_list_eqb (rq_path prv_ne k 6 i) (if (ldir i k =? 9) && (k <? i) then Some (between i k) else None) &&
     opt_list_eqb (rq_path prv_sw k 6 i) (if (ldir i k =? 9) && (i <? k) then Some (between i k) else None)) all64) all64 = true.
Proof. vm_compute. reflexivity. Qed.

Definition clear_to (bl i k : N) : bool := forallb (fun y => negb (N.testbit bl y)) (between i k).

Lemma ray_bits k bl i : k < 64 -> i < 64 ->
  N.testbit (ray_east k bl) i = (ldir i k =? 1) && (k <? i) && clear_to bl i k /\
  N.testbit (ray_west k bl) i = (ldir i k =? 1) && (i <? k) && clear_to bl i k /\
  N.testbit (ray_north_east k bl) i = (ldir i k =? 9) && (k <? i) && clear_to bl i k /\
  N.testbit (ray_south_west k bl) i = (ldir i k =? 9) && (i <? k) && clear_to bl i k.
Proof.
  intros Hk Hi. pose proof (forallb_all64 _ (forallb_all64 _ ray_paths_sweep k Hk) i Hi) as H. cbv beta in H.
  apply andb_true_iff in H. destruct H as [H H4]. apply andb_true_iff in H. destruct H as [H H3]. apply andb_true_iff in H. destruct H as [H1 H2].
  apply opt_list_eqb_eq in H1, H2, H3, H4. unfold clear_to.
  split; [|split; [|split]].
  - unfold ray_east. rewrite (ray_fill_bits east prv_e step_e_spec (fun b _ => east_lt b) prv_e_lt k bl Hk i Hi), H1.
    destruct ((ldir i k =? 1) && (k <? i)); reflexivity.
  - unfold ray_west. rewrite (ray_fill_bits west prv_w step_w_spec west_lt prv_w_lt k bl Hk i Hi), H2.
    destruct ((ldir i k =? 1) && (i <? k)); reflexivity.
  - unfold ray_north_east. rewrite (ray_fill_bits _ prv_ne step_ne_spec (fun b _ => east_lt (north b)) prv_ne_lt k bl Hk i Hi), H3.
    destruct ((ldir i k =? 9) && (k <? i)); reflexivity.
  - unfold ray_south_west. rewrite (ray_fill_bits _ prv_sw step_sw_spec (fun b Hb => west_lt _ (south_lt b Hb)) prv_sw_lt k bl Hk i Hi), H4.
    destruct ((ldir i k =? 9) && (i <? k)); reflexivity.
Qed.

Lemma ldir_ne a k : ldir a k <> 0 -> a <> k.
Proof. unfold ldir. destruct (N.eqb_spec a k); [intros H; contradiction H; reflexivity|intros _; assumption]. Qed.

(* the two opposite rays together *)
Lemma ray_ew_bits k bl i : k < 64 -> i < 64 ->
  N.testbit (N.lor (ray_east k bl) (ray_west k bl)) i = (ldir i k =? 1) && clear_to bl i k.
Proof.
  intros Hk Hi. destruct (ray_bits k bl i Hk Hi) as (R1 & R2 & _). rewrite N.lor_spec, R1, R2.
  destruct (N.eqb_spec (ldir i k) 1) as [E|E]; [|reflexivity]. cbn [andb].
  assert (i <> k) by (apply ldir_ne; rewrite E; discriminate).
  destruct (N.ltb_spec k i); destruct (N.ltb_spec i k); try lia; cbn [andb orb]; rewrite ?orb_false_r; reflexivity.
Qed.
Lemma ray_nesw_bits k bl i : k < 64 -> i < 64 ->
  N.testbit (N.lor (ray_north_east k bl) (ray_south_west k bl)) i = (ldir i k =? 9) && clear_to bl i k.
Proof.
  intros Hk Hi. destruct (ray_bits k bl i Hk Hi) as (_ & _ & R1 & R2). rewrite N.lor_spec, R1, R2.
  destruct (N.eqb_spec (ldir i k) 9) as [E|E]; [|reflexivity]. cbn [andb].
  assert (i <> k) by (apply ldir_ne; rewrite E; discriminate).
  destruct (N.ltb_spec k i); destruct (N.ltb_spec i k); try lia; cbn [andb orb]; rewrite ?orb_false_r; reflexivity.
Qed.

(* ---------- the model side ---------- *)
Lemma between_prefix_sweep :
  forallb (fun a => forallb (fun k => forallb (fun x => forallb (fun y => inb y (between a k) && negb (y =? x)) (between x k)) (between a k)) all64) all64 = true.
Proof. vm_compute. reflexivity. Qed.
Lemma between_prefix a k x y : a < 64 -> k < 64 -> In x (between a k) -> In y (between x k) -> In y (between a k) /\ y <> x.
Proof.
  intros Ha Hk Hx Hy. pose proof (forallb_all64 _ (forallb_all64 _ between_prefix_sweep a Ha) k Hk) as H. cbv beta in H.
  rewrite forallb_forall in H. specialize (H x Hx). rewrite forallb_forall in H. specialize (H y Hy).
  apply andb_true_iff in H. destruct H as [H1 H2]. split; [apply in_existsb; exact H1|]. apply negb_true_iff in H2. apply N.eqb_neq. exact H2.
Qed.

Lemma kmask_sweep :
  forallb (fun k => forallb (fun x =>
     Bool.eqb (N.testbit (rank_mask (sq_rank k)) x || N.testbit (file_mask (sq_file k)) x) ((x =? k) || (ldir x k =? 1) || (ldir x k =? 8))) all64) all64 = true.
Proof. vm_compute. reflexivity. Qed.

Lemma sq_cand_sweep :
  forallb (fun e => if (16 <=? e) && (e <? 48) then
     (sq_east (sq_south e) =? e - 7) && (sq_west (sq_south e) =? e - 9) && (sq_east (sq_north e) =? e + 9) && (sq_west (sq_north e) =? e + 7) else true) all64 = true.
Proof. vm_compute. reflexivity. Qed.

Lemma bb_nonempty_true x : bb_nonempty x = true <-> exists i, N.testbit x i = true.
Proof.
  unfold bb_nonempty. rewrite negb_true_iff, N.eqb_neq. split.
  - intros H. destruct (bb_empty x) eqn:E.
    + unfold bb_empty in E. apply N.eqb_eq in E. contradiction.
    + destruct x as [|q]; [contradiction H; reflexivity|]. exists (N.log2 (Npos q)). apply N.bit_log2. discriminate.
  - intros [i Hi] ->. rewrite N.bits_0 in Hi. discriminate.
Qed.
Lemma bb_nonempty_false x : bb_nonempty x = false <-> forall i, N.testbit x i = false.
Proof.
  split.
  - intros H i. destruct (N.testbit x i) eqn:E; [|reflexivity]. assert (bb_nonempty x = true) by (apply bb_nonempty_true; exists i; exact E). congruence.
  - intros H. destruct (bb_nonempty x) eqn:E; [|reflexivity]. apply bb_nonempty_true in E. destruct E as [i Hi]. rewrite H in Hi. discriminate.
Qed.

Lemma emit_type bb g m : (forall sq m', In m' (g sq) -> m_type m' <> Enpassant) -> In m (emit bb g) -> m_type m <> Enpassant.
Proof. intros Hg H. unfold emit in H. apply in_flat_map in H. destruct H as [sq [_ H]]. exact (Hg sq m H). Qed.

Lemma in_ep_try p ksq cond bl rq fr m :
  In m (ep_try p ksq cond bl rq fr) <->
  cond = true /\ bb_nonempty (N.land (ray_east ksq bl) rq) || bb_nonempty (N.land (ray_west ksq bl) rq) = false /\
  m = mkMove Enpassant fr (ep p) Pawn Pawn NoPiece.
Proof.
  unfold ep_try. destruct cond; [|split; [intros []|intros [H _]; discriminate]].
  destruct (_ || _); [split; [intros []|intros [_ [H _]]; discriminate]|].
  split; [intros [<-|[]]; repeat split|intros (_ & _ & ->); left; reflexivity].
Qed.

Section EpModel.
Variable p : position.
Hypothesis Hwf : wf p = true.
Variable k : N.
Hypothesis Hk : find_king (abs_board p) (turn p) = Some k.
Hypothesis Huk : forall a, a < 64 -> cell_of_b (brd p) a = Some (turn p, King) -> a = k.
Hypothesis Hep : ep_ok (abs p) = true.
Variable e : N.
Hypothesis He : (if ep p =? OffSq then None else Some (ep p)) = Some e.
Hypothesis Hnd : (1 <? bb_count (checkers p)) = false.
Notation f := (cell_of_b (brd p)).
Notation us := (turn p).
Notation them := (opp_side (turn p)).
Notation v := (match turn p with White => e - 8 | Black => e + 8 end).
Notation o := (match turn p with White => e + 8 | Black => e - 8 end).

Lemma ep_is_e : ep p = e /\ g_ep_bb p = bit e.
Proof. unfold g_ep_bb. destruct (ep p =? OffSq); [discriminate|]. inversion He. split; reflexivity. Qed.

Lemma ep_rank : 16 <= e /\ e < 48.
Proof.
  pose proof Hep as H. unfold ep_ok in H. cbn [abs s_ep s_board s_turn] in H. rewrite He in H.
  apply andb_true_iff in H. destruct H as [H _]. apply andb_true_iff in H. destruct H as [H1 H2].
  unfold rankof in H2. destruct us; split; apply N.eqb_eq in H2; apply N.ltb_lt in H1;
    pose proof (N.div_mod e 8); pose proof (N.mod_lt e 8); lia.
Qed.

(* a check cannot be answered by blocking on the ep square *)
Lemma ep_no_block a : checker p k a -> In e (between a k) -> False.
Proof.
  intros Hc Hin. destruct (k_lt p Hwf k Hk) as [Hk64 Hfk].
  destruct (ep_facts p Hwf k Hk Huk Hep e He) as (E64 & E8 & E56 & Hv64 & Ho64 & Hfv & Hfe & Hfo & Hbefore).
  pose proof Hc as (Ha & pa & Efa & Hatt).
  assert (Hao : a <> o) by (intros E; rewrite E, Hfo in Efa; discriminate).
  assert (Hkv : k <> v) by (apply (cell_clash f k v _ _ Hfk Hfv); discriminate).
  destruct (is_slider pa) eqn:Es; [|rewrite (leaper_between _ _ _ a k Ha Hk64 Es Hatt) in Hin; destruct Hin].
  assert (Hav : a <> v) by (intros E; rewrite E, Hfv in Efa; inversion Efa; subst pa; discriminate).
  pose proof Hatt as Hatt'. rewrite slider_attacks in Hatt' by exact Es. apply andb_true_iff in Hatt'. destruct Hatt' as [Hal Hclear].
  pose proof (proj1 (attacked_false_iff _ k them) Hbefore a Ha) as Hb.
  unfold upd at 1 2 in Hb. rewrite (proj2 (N.eqb_neq a o) Hao), (proj2 (N.eqb_neq a v) Hav) in Hb.
  rewrite Efa, side_eqb_refl in Hb. cbn [andb] in Hb. rewrite slider_attacks, Hal in Hb by exact Es. cbn [andb] in Hb.
  assert (Ho : In o (between a k)).
  { destruct (in_dec N.eq_dec o (between a k)) as [H|H]; [exact H|]. exfalso.
    assert (all_empty (board_of (upd (upd f v None) o (Some (them, Pawn)))) (between a k) = true); [|congruence].
    unfold all_empty. apply forallb_forall. intros y Hy. assert (Hy64 : y < 64) by (apply (between_lt a k y Ha Hk64 Hy)).
    unfold is_empty. rewrite at_board_of by exact Hy64. unfold upd. destruct (N.eqb_spec y o) as [Eyo|Hyo]; [subst y; contradiction|].
    destruct (y =? v); [reflexivity|]. rewrite (checker_line_clear p Hwf k Hk a y Hc Hy). reflexivity. }
  assert (Hov : (o = e + 8 /\ v = e - 8) \/ (o = e - 8 /\ v = e + 8)) by (destruct us; [left|right]; split; reflexivity).
  destruct (file_triple a k e o v Ha Hk64 E64 E8 E56 Hov Ho Hin) as [H|[H|H]].
  - rewrite (checker_line_clear p Hwf k Hk a v Hc H) in Hfv. discriminate.
  - apply Hav. symmetry. exact H.
  - apply Hkv. symmetry. exact H.
Qed.

Lemma victim_bits x : x < 64 -> N.testbit (match us with White => south (bit e) | Black => north (bit e) end) x = (x =? v).
Proof.
  intros Hx. destruct (ep_facts p Hwf k Hk Huk Hep e He) as (E64 & E8 & E56 & _).
  destruct us.
  - pose proof (south_spec (bit e) x) as H. unfold mem in H. rewrite H, (bit_spec e _ E64). lia.
  - pose proof (north_spec (bit e) x Hx) as H. unfold mem in H. rewrite H, (bit_spec e _ E64). lia.
Qed.

Lemma chk_zero : bb_count (checkers p) = 0 -> checkers p = 0.
Proof.
  intros E0. apply N.bits_inj. intros i. rewrite N.bits_0. destruct (N.ltb_spec i 64) as [Hi|Hi].
  - apply (count_zero _ (checkers_lt p Hwf) E0 i Hi).
  - apply (proj1 (lt64_iff _) (checkers_lt p Hwf) i Hi).
Qed.

(* the guard of the repaired code: the capture removes the only checker *)
Theorem ep_resolves_iff : g_ep_resolves p = true <-> forall a, checker p k a -> a = v.
Proof.
  destruct (k_lt p Hwf k Hk) as [Hk64 Hfk].
  destruct (ep_facts p Hwf k Hk Huk Hep e He) as (E64 & E8 & E56 & Hv64 & Ho64 & Hfv & Hfe & Hfo & Hbefore).
  destruct ep_is_e as [Eep Ebb]. unfold g_ep_resolves. rewrite Ebb, (ksq_eq p Hwf k Hk).
  assert (Hcnt : bb_count (checkers p) = 0 \/ bb_count (checkers p) = 1) by (apply N.ltb_ge in Hnd; lia).
  split.
  - intros H a Hc. pose proof Hc as [Ha _].
    destruct Hcnt as [E0|E1].
    { apply (checker_bit p Hwf k Hk a Ha) in Hc. rewrite (count_zero _ (checkers_lt p Hwf) E0 a Ha) in Hc. discriminate. }
    destruct (count_one _ (checkers_lt p Hwf) E1) as [Hl Hb].
    assert (Ea : a = bb_lsb (checkers p)).
    { apply (checker_bit p Hwf k Hk a Ha) in Hc. rewrite (Hb a Ha) in Hc. apply N.eqb_eq in Hc. exact Hc. }
    apply orb_true_iff in H. destruct H as [H|H]; [apply orb_true_iff in H; destruct H as [H|H]|].
    + unfold bb_empty in H. apply N.eqb_eq in H. apply (checker_bit p Hwf k Hk a Ha) in Hc. rewrite H, N.bits_0 in Hc. discriminate.
    + apply bb_nonempty_true in H. destruct H as [i Hi]. rewrite N.land_spec in Hi. apply andb_true_iff in Hi. destruct Hi as [H1 H2].
      assert (Hi64 : i < 64).
      { destruct (N.ltb_spec i 64) as [G|G]; [exact G|]. rewrite (proj1 (lt64_iff _) (g_allowed_c_lt p Hwf) i G) in H1. discriminate. }
      rewrite (victim_bits i Hi64) in H2. apply N.eqb_eq in H2. subst i.
      apply (g_allowed_c_iff p Hwf k Hk Hnd v Hv64) in H1. destruct H1 as [_ Hr].
      destruct (Hr a Hc) as [E|Hin]; [symmetry; exact E|]. rewrite (checker_line_clear p Hwf k Hk a v Hc Hin) in Hfv. discriminate.
    + exfalso. apply bb_nonempty_true in H. destruct H as [i Hi]. rewrite N.land_spec in Hi. apply andb_true_iff in Hi. destruct Hi as [H1 H2].
      assert (Hi64 : i < 64).
      { destruct (N.ltb_spec i 64) as [G|G]; [exact G|]. rewrite (proj1 (lt64_iff _) (bit_lt e) i G) in H2. discriminate. }
      rewrite (bit_spec e i E64) in H2. apply N.eqb_eq in H2. subst i.
      pose proof (squares_between_exact k (bb_lsb (checkers p)) e Hk64 Hl) as Hsb. unfold mem in Hsb. rewrite Hsb, <- in_existsb in H1.
      apply (ep_no_block a Hc). rewrite Ea. apply between_sym; assumption.
  - intros H. destruct Hcnt as [E0|E1].
    { rewrite (chk_zero E0). reflexivity. }
    destruct (count_one _ (checkers_lt p Hwf) E1) as [Hl Hb].
    assert (Hc0 : checker p k (bb_lsb (checkers p))) by (apply (checker_bit p Hwf k Hk _ Hl); rewrite (Hb _ Hl); apply N.eqb_refl).
    pose proof (H _ Hc0) as Ev.
    apply orb_true_iff. left. apply orb_true_iff. right. apply bb_nonempty_true. exists v.
    rewrite N.land_spec, (victim_bits v Hv64), N.eqb_refl, andb_true_r.
    unfold g_allowed_c. rewrite E1. cbn [N.eqb Pos.eqb]. rewrite Ev, (bit_spec v v Hv64). apply N.eqb_refl.
Qed.

(* ----- the pin masks of legal_captures ----- *)
Lemma pinned_facts x : x < 64 -> N.testbit (pinned p) x = true ->
  ldir x k <> 0 /\ clear_to (occupied p) x k = true /\ (forall a, Pinner f us k a x -> ldir a k = ldir x k).
Proof.
  intros Hx Hp. destruct (k_lt p Hwf k Hk) as [Hk64 Hfk].
  apply (pinned_iff p k x Hwf Hk Hx) in Hp. destruct Hp as [_ [a Hp]].
  assert (Hdir : forall a', Pinner f us k a' x -> ldir a' k = ldir x k).
  { intros a' (Ha' & pa' & _ & _ & _ & [Hin' _]). destruct (geo1 a' k x Ha' Hk64 Hin') as (G1 & _). symmetry. exact G1. }
  destruct Hp as (Ha & pa & Efa & Hs & Hal & [Hin Halone]).
  destruct (geo1 a k x Ha Hk64 Hin) as (G1 & _ & G3 & _).
  split; [rewrite G1; exact G3|]. split; [|exact Hdir].
  unfold clear_to. apply forallb_forall. intros y Hy. destruct (between_prefix a k x y Ha Hk64 Hin Hy) as [Hy1 Hy2].
  rewrite (occupied_rep p f y (Hrep_ p Hwf) (between_lt a k y Ha Hk64 Hy1)), (Halone y Hy1 Hy2). reflexivity.
Qed.

Lemma pin_dir_bits x : x < 64 ->
  N.testbit (g_pinned_rook p) x = N.testbit (pinned p) x && ((ldir x k =? 1) || (ldir x k =? 8)) /\
  N.testbit (g_pinned_ne_sw p) x = N.testbit (pinned p) x && (ldir x k =? 9) /\
  N.testbit (g_pinned_nw_se p) x = N.testbit (pinned p) x && (ldir x k =? 7).
Proof.
  intros Hx. destruct (k_lt p Hwf k Hk) as [Hk64 Hfk].
  assert (R : N.testbit (g_pinned_rook p) x = N.testbit (pinned p) x && (N.testbit (rank_mask (sq_rank k)) x || N.testbit (file_mask (sq_file k)) x)).
  { unfold g_pinned_rook, g_pin. rewrite (ksq_eq p Hwf k Hk), N.lor_spec, !N.land_spec. destruct (N.testbit (pinned p) x); reflexivity. }
  assert (B : N.testbit (g_pinned_bishop p) x = xorb (N.testbit (pinned p) x) (N.testbit (g_pinned_rook p) x)).
  { unfold g_pinned_bishop, g_pin. apply N.lxor_spec. }
  assert (NE : N.testbit (g_pinned_ne_sw p) x = N.testbit (g_pinned_bishop p) x && ((ldir x k =? 9) && clear_to (occupied p) x k)).
  { unfold g_pinned_ne_sw. rewrite (ksq_eq p Hwf k Hk), N.land_spec, (ray_nesw_bits k _ x Hk64 Hx). reflexivity. }
  assert (NW : N.testbit (g_pinned_nw_se p) x = xorb (N.testbit (g_pinned_bishop p) x) (N.testbit (g_pinned_ne_sw p) x)).
  { unfold g_pinned_nw_se. apply N.lxor_spec. }
  rewrite NW, NE, B, R. clear NW NE B R.
  destruct (N.testbit (pinned p) x) eqn:Epin; [|repeat split; reflexivity].
  destruct (pinned_facts x Hx Epin) as (Hd0 & Hcl & _). rewrite Hcl.
  pose proof (forallb_all64 _ (forallb_all64 _ kmask_sweep k Hk64) x Hx) as Hm. cbv beta in Hm. apply eqb_prop in Hm. rewrite Hm.
  pose proof (ldir_ne x k Hd0) as Hxk. rewrite (proj2 (N.eqb_neq x k) Hxk).
  destruct (ldir_vals x k) as [E|[E|[E|[E|E]]]]; [contradiction| | | |]; rewrite E; repeat split; reflexivity.
Qed.

Definition pin_free (d x : N) : Prop := forall a, Pinner f us k a x -> ldir a k = d.

Lemma pin_free_iff d x : x < 64 -> (exists pc, f x = Some (us, pc)) -> d = 7 \/ d = 9 ->
  (N.testbit (g_pinned_rook p) x = false /\ N.testbit (if d =? 7 then g_pinned_ne_sw p else g_pinned_nw_se p) x = false) <-> pin_free d x.
Proof.
  intros Hx Hown Hd. destruct (pin_dir_bits x Hx) as (R & NE & NW).
  assert (Oth : N.testbit (if d =? 7 then g_pinned_ne_sw p else g_pinned_nw_se p) x = N.testbit (pinned p) x && (ldir x k =? (if d =? 7 then 9 else 7)))
    by (destruct (d =? 7); assumption).
  rewrite R, Oth. clear R NE NW Oth. split.
  - intros [H1 H2] a Hp.
    assert (Epin : N.testbit (pinned p) x = true) by (apply (pinned_iff p k x Hwf Hk Hx); split; [exact Hown|exists a; exact Hp]).
    destruct (pinned_facts x Hx Epin) as (Hd0 & _ & Hdir). rewrite (Hdir a Hp). rewrite Epin in H1, H2. cbn [andb] in H1, H2.
    destruct (ldir_vals x k) as [E|[E|[E|[E|E]]]]; [contradiction| | | |]; rewrite E in *; destruct Hd as [-> | ->]; try reflexivity; discriminate.
  - intros Hpf. destruct (N.testbit (pinned p) x) eqn:Epin; [|split; reflexivity].
    destruct (pinned_facts x Hx Epin) as (_ & _ & Hdir).
    apply (pinned_iff p k x Hwf Hk Hx) in Epin. destruct Epin as [_ [a Hp]].
    rewrite <- (Hdir a Hp), (Hpf a Hp). destruct Hd as [-> | ->]; split; reflexivity.
Qed.

Lemma own_pawn_bit x : x < 64 -> (N.testbit (pieces p us Pawn) x = true <-> f x = Some (us, Pawn)).
Proof.
  intros Hx. rewrite (pieces_rep p f us Pawn x (Hrep_ p Hwf) Hx) by discriminate. split.
  - destruct (f x) as [[c pc]|]; [|discriminate]. intros H. apply andb_true_iff in H. destruct H as [H1 H2].
    apply side_eqb_true in H1. subst c. destruct pc; try discriminate. reflexivity.
  - intros ->. rewrite side_eqb_refl. reflexivity.
Qed.

Definition pset_w (d : N) : N :=
  N.land (N.land (pieces p us Pawn) (not64 (g_pinned_rook p))) (not64 (if d =? 7 then g_pinned_ne_sw p else g_pinned_nw_se p)).
Definition pset_b (d : N) : N :=
  N.land (N.land (pset_w d) (not64 Rank2)) (not64 (if d =? 7 then g_pinned_ne_sw p else g_pinned_nw_se p)).

Lemma pieces_lt_ s pc : pieces p s pc < two64.
Proof. unfold pieces. apply land_lt, colour_lt. destruct (Hrep_ p Hwf) as [_ H]. exact H. Qed.
Lemma pset_w_lt d : pset_w d < two64. Proof. unfold pset_w. apply land_lt, land_lt, pieces_lt_. Qed.
Lemma pset_b_lt d : pset_b d < two64. Proof. unfold pset_b. apply land_lt, land_lt, pset_w_lt. Qed.

Lemma pset_w_bits d x : x < 64 -> d = 7 \/ d = 9 -> (N.testbit (pset_w d) x = true <-> f x = Some (us, Pawn) /\ pin_free d x).
Proof.
  intros Hx Hd. unfold pset_w. rewrite !N.land_spec, !not64_spec. replace (x <? 64) with true by lia. cbn [andb].
  rewrite !andb_true_iff, !negb_true_iff, (own_pawn_bit x Hx). split.
  - intros [[H1 H2] H3]. split; [exact H1|]. apply (pin_free_iff d x Hx (ex_intro _ Pawn H1) Hd). split; assumption.
  - intros [H1 H2]. apply (pin_free_iff d x Hx (ex_intro _ Pawn H1) Hd) in H2. destruct H2 as [H2 H3]. repeat split; assumption.
Qed.

(* ----- the candidate origin squares and the shifted ep bitboards ----- *)
Definition cand (s : side) (e0 d : N) : N :=
  match s with White => if d =? 7 then e0 - 7 else e0 - 9 | Black => if d =? 7 then e0 + 7 else e0 + 9 end.
Definition cbb (s : side) (eb d : N) : N :=
  match s with White => if d =? 7 then east (south eb) else west (south eb)
             | Black => if d =? 7 then west (north eb) else east (north eb) end.
Definition blk (s : side) (occ eb d : N) : N :=
  N.lxor (N.lxor (match s with White => N.lxor occ eb | Black => occ end) (match s with White => south eb | Black => north eb end)) (cbb s eb d).

Lemma cbb_sweep :
  forallb (fun s => forallb (fun e0 => forallb (fun x =>
     if (16 <=? e0) && (e0 <? 48) then
       forallb (fun d => Bool.eqb (N.testbit (cbb s (bit e0) d) x) ((x =? cand s e0 d) && piece_attacks [] s Pawn x e0) &&
                         (if (x =? cand s e0 d) && piece_attacks [] s Pawn x e0 then ldir x e0 =? d else true) &&
                         (cand s e0 d <? 64) && (match s with White => true | Black => 23 <=? cand s e0 d end)) [7; 9] &&
       (if piece_attacks [] s Pawn x e0 then (x =? cand s e0 7) || (x =? cand s e0 9) else true)
     else true) all64) all64) [White; Black] = true.
Proof. vm_compute. reflexivity. Qed.

Lemma cbb_facts s d x : d = 7 \/ d = 9 -> x < 64 ->
  N.testbit (cbb s (bit e) d) x = (x =? cand s e d) && piece_attacks [] s Pawn x e /\
  (x = cand s e d -> piece_attacks [] s Pawn x e = true -> ldir x e = d) /\
  cand s e d < 64 /\ (s = Black -> 23 <= cand s e d) /\
  (piece_attacks [] s Pawn x e = true -> x = cand s e 7 \/ x = cand s e 9).
Proof.
  intros Hd Hx. destruct ep_rank as [R1 R2]. assert (E64 : e < 64) by lia.
  pose proof cbb_sweep as H. rewrite forallb_forall in H.
  assert (Hs : In s [White; Black]) by (destruct s; [left|right; left]; reflexivity).
  pose proof (forallb_all64 _ (forallb_all64 _ (H s Hs) e E64) x Hx) as G. cbv beta in G.
  replace ((16 <=? e) && (e <? 48)) with true in G by lia. apply andb_true_iff in G. destruct G as [G G2].
  rewrite forallb_forall in G. assert (Hin : In d [7; 9]) by (destruct Hd as [-> | ->]; [left|right; left]; reflexivity).
  specialize (G d Hin). apply andb_true_iff in G. destruct G as [G G5]. apply andb_true_iff in G. destruct G as [G G4]. apply andb_true_iff in G. destruct G as [G1 G3].
  apply eqb_prop in G1. split; [exact G1|]. split; [|split; [lia|split; [intros ->; lia|]]].
  - intros -> Hatt. rewrite N.eqb_refl, Hatt in G3. cbn [andb] in G3. apply N.eqb_eq. exact G3.
  - intros Hatt. rewrite Hatt in G2. lia.
Qed.

(* the blockers handed to ep_try are the occupancy without the two pawns (and, for White, with the ep square) *)
Lemma blk_bits d y : d = 7 \/ d = 9 -> y < 64 -> f (cand us e d) = Some (us, Pawn) -> piece_attacks [] us Pawn (cand us e d) e = true ->
  N.testbit (blk us (occupied p) (bit e) d) y = blm p e (match us with White => true | Black => false end) (cand us e d) y.
Proof.
  intros Hd Hy Hffr Hatt.
  destruct (ep_facts p Hwf k Hk Huk Hep e He) as (E64 & E8 & E56 & Hv64 & Ho64 & Hfv & Hfe & Hfo & Hbefore).
  destruct (cbb_facts us d y Hd Hy) as (C1 & _ & C3 & _).
  unfold blk. rewrite !N.lxor_spec, C1, (victim_bits y Hy).
  assert (E1 : N.testbit (match us with White => N.lxor (occupied p) (bit e) | Black => occupied p end) y =
               xorb (occb p y) ((match us with White => true | Black => false end) && (y =? e))).
  { unfold occb. destruct us; [rewrite N.lxor_spec, (bit_spec e y E64)|]; rewrite (occupied_rep p f y (Hrep_ p Hwf) Hy); [reflexivity|]. rewrite xorb_false_r. reflexivity. }
  rewrite E1. unfold blm. set (fr := cand us e d) in *. set (eb := match us with White => true | Black => false end).
  assert (Hfre : fr <> e) by (apply (cell_clash f fr e _ _ Hffr Hfe); discriminate).
  assert (Hve : v <> e) by (apply (cell_clash f v e _ _ Hfv Hfe); discriminate).
  assert (Hvfr : v <> fr) by (apply (cell_clash f v fr _ _ Hfv Hffr); intros E; inversion E; destruct us; discriminate).
  destruct (N.eqb_spec y e) as [->|Hye].
  - unfold occb. rewrite Hfe, (proj2 (N.eqb_neq e v) (not_eq_sym Hve)), (proj2 (N.eqb_neq e fr) (not_eq_sym Hfre)). destruct eb; reflexivity.
  - rewrite !andb_false_r. cbn [orb xorb]. destruct (N.eqb_spec y v) as [Eyv|Hyv].
    + assert (Ho : occb p y = true) by (unfold occb; rewrite Eyv, Hfv; reflexivity).
      assert (Hn : (y =? fr) = false) by (apply N.eqb_neq; rewrite Eyv; exact Hvfr). rewrite Ho, Hn. reflexivity.
    + destruct (N.eqb_spec y fr) as [->|Hyf].
      * rewrite Hatt. unfold occb. rewrite Hffr. reflexivity.
      * cbn [andb negb xorb]. rewrite !andb_true_r, !xorb_false_r. reflexivity.
Qed.

Lemma forallb_negb_false {A} (P : A -> bool) l : forallb (fun y => negb (P y)) l = false <-> exists y, In y l /\ P y = true.
Proof.
  induction l as [|x l IH]; cbn [forallb].
  - split; [discriminate|intros [y [[] _]]].
  - rewrite andb_false_iff, IH, negb_false_iff. split.
    + intros [H|[y [Hy H]]]; [exists x; split; [left; reflexivity|exact H]|exists y; split; [right; exact Hy|exact H]].
    + intros [y [[<-|Hy] H]]; [left; exact H|right; exists y; split; assumption].
Qed.

Definition rq_them : N := N.lor (pieces p them Rook) (pieces p them Queen).
Definition mc3 (eb : bool) (fr : N) : Prop :=
  forall a pa, a < 64 -> f a = Some (them, pa) -> pa = Rook \/ pa = Queen -> ldir a k = 1 ->
    exists y, In y (between a k) /\ blm p e eb fr y = true.

Lemma rq_bit a : a < 64 -> (N.testbit rq_them a = true <-> exists pa, f a = Some (them, pa) /\ (pa = Rook \/ pa = Queen)).
Proof.
  intros Ha. unfold rq_them. rewrite N.lor_spec, !(pieces_rep p f them _ a (Hrep_ p Hwf) Ha) by discriminate. split.
  - destruct (f a) as [[c pc]|]; [|discriminate]. intros H.
    destruct (side_eqb them c) eqn:Ec; [|discriminate]. apply side_eqb_true in Ec. subst c. exists pc. split; [reflexivity|].
    destruct pc; try discriminate; tauto.
  - intros [pa [-> Hpa]]. rewrite side_eqb_refl. destruct Hpa as [-> | ->]; reflexivity.
Qed.

(* the rank test of ep_try *)
Lemma rank_test_iff BL eb fr : (forall y, y < 64 -> N.testbit BL y = blm p e eb fr y) ->
  (bb_nonempty (N.land (ray_east k BL) rq_them) || bb_nonempty (N.land (ray_west k BL) rq_them) = false <-> mc3 eb fr).
Proof.
  intros HBL. destruct (k_lt p Hwf k Hk) as [Hk64 Hfk].
  assert (Hclr : forall a, a < 64 -> (clear_to BL a k = false <-> exists y, In y (between a k) /\ blm p e eb fr y = true)).
  { intros a Ha. unfold clear_to. rewrite forallb_negb_false. split; intros [y [Hy H]]; exists y; (split; [exact Hy|]);
      [rewrite <- (HBL y (between_lt a k y Ha Hk64 Hy))|rewrite (HBL y (between_lt a k y Ha Hk64 Hy))]; exact H. }
  rewrite orb_false_iff, !bb_nonempty_false. split.
  - intros [H1 H2] a pa Ha Efa Hpa Hd. apply (Hclr a Ha).
    specialize (H1 a). specialize (H2 a). rewrite N.land_spec in H1, H2.
    assert (Hrq : N.testbit rq_them a = true) by (apply (rq_bit a Ha); exists pa; split; assumption).
    rewrite Hrq, andb_true_r in H1, H2.
    pose proof (ray_ew_bits k BL a Hk64 Ha) as R. rewrite N.lor_spec, H1, H2, Hd in R. cbn [orb andb N.eqb Pos.eqb] in R. symmetry. exact R.
  - intros H.
    assert (G : forall i, N.testbit (N.lor (ray_east k BL) (ray_west k BL)) i && N.testbit rq_them i = false).
    { intros i. destruct (N.ltb_spec i 64) as [Hi|Hi].
      - destruct (N.testbit rq_them i) eqn:Erq; [|apply andb_false_r]. rewrite andb_true_r.
        apply (rq_bit i Hi) in Erq. destruct Erq as [pa [Efa Hpa]].
        rewrite (ray_ew_bits k BL i Hk64 Hi). destruct (N.eqb_spec (ldir i k) 1) as [Ed|Ed]; [|reflexivity]. cbn [andb].
        apply (Hclr i Hi). exact (H i pa Hi Efa Hpa Ed).
      - assert (Hlt : rq_them < two64) by (unfold rq_them; apply lor_lt; apply pieces_lt_).
        rewrite (proj1 (lt64_iff _) Hlt i Hi). apply andb_false_r. }
    split; intros i; specialize (G i); rewrite N.lor_spec in G; rewrite N.land_spec;
      destruct (N.testbit (ray_east k BL) i); destruct (N.testbit (ray_west k BL) i); destruct (N.testbit rq_them i); try reflexivity; discriminate G.
Qed.

(* one en-passant attempt of the generator, read on the mailbox *)
Definition ep_from (d : N) (m : move) : Prop :=
  cand us e d < 64 /\ f (cand us e d) = Some (us, Pawn) /\ piece_attacks [] us Pawn (cand us e d) e = true /\
  pin_free d (cand us e d) /\ mc3 (match us with White => true | Black => false end) (cand us e d) /\
  m = mkMove Enpassant (cand us e d) e Pawn Pawn NoPiece.

Lemma ep_try_iff d PS CB BL rq frx cond m :
  d = 7 \/ d = 9 -> PS < two64 ->
  cond = bb_nonempty (N.land PS CB) -> CB = cbb us (bit e) d -> BL = blk us (occupied p) (bit e) d ->
  rq = rq_them -> frx = cand us e d ->
  (forall x, x < 64 -> piece_attacks [] us Pawn x e = true -> (N.testbit PS x = true <-> f x = Some (us, Pawn) /\ pin_free d x)) ->
  (In m (ep_try p k cond BL rq frx) <-> ep_from d m).
Proof.
  intros Hd HPS -> -> -> -> -> Hps. destruct ep_is_e as [Eep _]. rewrite in_ep_try, Eep. unfold ep_from.
  set (fr := cand us e d).
  destruct (cbb_facts us d fr Hd) as (_ & _ & Hfr64 & _); [unfold fr; destruct (cbb_facts us d 0 Hd) as (_ & _ & H & _); [lia|exact H]|].
  assert (Hcond : bb_nonempty (N.land PS (cbb us (bit e) d)) = true <-> f fr = Some (us, Pawn) /\ piece_attacks [] us Pawn fr e = true /\ pin_free d fr).
  { rewrite bb_nonempty_true. split.
    - intros [i Hi]. rewrite N.land_spec in Hi. apply andb_true_iff in Hi. destruct Hi as [H1 H2].
      assert (Hi64 : i < 64) by (destruct (N.ltb_spec i 64) as [G|G]; [exact G|]; rewrite (proj1 (lt64_iff _) HPS i G) in H1; discriminate).
      destruct (cbb_facts us d i Hd Hi64) as (C1 & _). rewrite C1 in H2. apply andb_true_iff in H2. destruct H2 as [H2 H3].
      apply N.eqb_eq in H2. fold fr in H2. subst i. apply (Hps fr Hi64 H3) in H1. destruct H1 as [P1 P2]. repeat split; assumption.
    - intros (P1 & P2 & P3). exists fr. rewrite N.land_spec. destruct (cbb_facts us d fr Hd Hfr64) as (C1 & _).
      rewrite C1. fold fr. rewrite N.eqb_refl, P2, andb_true_r. apply (Hps fr Hfr64 P2). split; assumption. }
  split.
  - intros (Hc & Hr & Hm). apply Hcond in Hc. destruct Hc as (P1 & P2 & P3).
    split; [exact Hfr64|]. split; [exact P1|]. split; [exact P2|]. split; [exact P3|]. split; [|exact Hm].
    apply (rank_test_iff _ _ fr (fun y Hy => blk_bits d y Hd Hy P1 P2)). exact Hr.
  - intros (_ & P1 & P2 & P3 & P4 & Hm). split; [apply Hcond; repeat split; assumption|]. split; [|exact Hm].
    apply (rank_test_iff _ _ fr (fun y Hy => blk_bits d y Hd Hy P1 P2)). exact P4.
Qed.

Lemma pset_b_bits d x : x < 64 -> d = 7 \/ d = 9 -> us = Black -> piece_attacks [] us Pawn x e = true ->
  (N.testbit (pset_b d) x = true <-> f x = Some (us, Pawn) /\ pin_free d x).
Proof.
  intros Hx Hd Et Hatt. unfold pset_b. rewrite !N.land_spec, !not64_spec. replace (x <? 64) with true by lia. cbn [andb].
  assert (Hr : N.testbit Rank2 x = false).
  { unfold Rank2. rewrite rank_mask_bits.
    destruct (cbb_facts us 7 x (or_introl eq_refl) Hx) as (_ & _ & _ & B7 & Hc). destruct (cbb_facts us 9 x (or_intror eq_refl) Hx) as (_ & _ & _ & B9 & _).
    specialize (B7 Et). specialize (B9 Et). destruct (Hc Hatt) as [E|E]; rewrite E; lia. }
  rewrite Hr. cbn [negb]. rewrite andb_true_r, andb_true_iff, negb_true_iff, (pset_w_bits d x Hx Hd). split.
  - intros [H _]. exact H.
  - intros [H1 H2]. split; [split; assumption|]. apply (pin_free_iff d x Hx (ex_intro _ Pawn H1) Hd). exact H2.
Qed.

(* the ep block of pawn_captures, per colour *)
Definition ep_block_w : list move :=
  let ksq := king_position p us in let occ := occupied p in let ep_bb := g_ep_bb p in
  let pawns_ne := N.land (N.land (pieces p us Pawn) (not64 (g_pinned_rook p))) (not64 (g_pinned_nw_se p)) in
  let pawns_nw := N.land (N.land (pieces p us Pawn) (not64 (g_pinned_rook p))) (not64 (g_pinned_ne_sw p)) in
  if bb_nonempty ep_bb && g_ep_resolves p then
    let rq := N.lor (pieces p Black Rook) (pieces p Black Queen) in
    ep_try p ksq (bb_nonempty (N.land pawns_nw (east (south ep_bb))))
           (N.lxor (N.lxor (N.lxor occ ep_bb) (south ep_bb)) (east (south ep_bb))) rq (sq_east (sq_south (ep p))) ++
    ep_try p ksq (bb_nonempty (N.land pawns_ne (west (south ep_bb))))
           (N.lxor (N.lxor (N.lxor occ ep_bb) (south ep_bb)) (west (south ep_bb))) rq (sq_west (sq_south (ep p)))
  else [].
Definition ep_block_b : list move :=
  let ksq := king_position p us in let occ := occupied p in let ep_bb := g_ep_bb p in
  let pawns_se := N.land (N.land (pieces p us Pawn) (not64 (g_pinned_rook p))) (not64 (g_pinned_ne_sw p)) in
  let pawns_sw := N.land (N.land (pieces p us Pawn) (not64 (g_pinned_rook p))) (not64 (g_pinned_nw_se p)) in
  let nonpromo_se := N.land pawns_se (not64 Rank2) in
  let nonpromo_sw := N.land pawns_sw (not64 Rank2) in
  if bb_nonempty ep_bb && g_ep_resolves p then
    let rq := N.lor (pieces p White Rook) (pieces p White Queen) in
    ep_try p ksq (bb_nonempty (N.land (N.land nonpromo_sw (east (north ep_bb))) (not64 (g_pinned_nw_se p))))
           (N.lxor (N.lxor occ (north ep_bb)) (east (north ep_bb))) rq (sq_east (sq_north (ep p))) ++
    ep_try p ksq (bb_nonempty (N.land (N.land nonpromo_se (west (north ep_bb))) (not64 (g_pinned_ne_sw p))))
           (N.lxor (N.lxor occ (north ep_bb)) (west (north ep_bb))) rq (sq_west (sq_north (ep p)))
  else [].
Definition ep_block : list move := match us with White => ep_block_w | Black => ep_block_b end.

Lemma ep_bb_nonempty : bb_nonempty (g_ep_bb p) = true.
Proof. destruct ep_is_e as [_ ->]. destruct ep_rank. apply bb_nonempty_true. exists e. rewrite bit_spec by lia. apply N.eqb_refl. Qed.

Lemma sq_cands : sq_east (sq_south e) = e - 7 /\ sq_west (sq_south e) = e - 9 /\ sq_east (sq_north e) = e + 9 /\ sq_west (sq_north e) = e + 7.
Proof.
  destruct ep_rank as [R1 R2]. assert (E64 : e < 64) by lia. pose proof (forallb_all64 _ sq_cand_sweep e E64) as H. cbv beta in H.
  replace ((16 <=? e) && (e <? 48)) with true in H by lia.
  repeat (apply andb_true_iff in H; let H' := fresh "W" in destruct H as [H H']). apply N.eqb_eq in H, W, W0, W1. repeat split; assumption.
Qed.

Lemma land_swap x c y : N.land (N.land x c) y = N.land (N.land x y) c.
Proof. rewrite <- !N.land_assoc. f_equal. apply N.land_comm. Qed.

Lemma block_iff (m : move) (c r : bool) (T1 T2 : list move) (P1 P2 : Prop) :
  c = true -> (In m T1 <-> P1) -> (In m T2 <-> P2) -> (In m (if c && r then T1 ++ T2 else []) <-> r = true /\ (P1 \/ P2)).
Proof.
  intros -> H1 H2. cbn [andb]. destruct r.
  - rewrite in_app_iff, H1, H2. tauto.
  - split; [intros []|intros [H _]; discriminate].
Qed.

Theorem ep_block_iff m : In m ep_block <-> g_ep_resolves p = true /\ (ep_from 7 m \/ ep_from 9 m).
Proof.
  destruct ep_is_e as [Eep Ebb]. destruct sq_cands as (Q1 & Q2 & Q3 & Q4).
  assert (Hside : us = White \/ us = Black) by (destruct us; [left|right]; reflexivity).
  unfold ep_block. destruct Hside as [Et|Et]; rewrite Et; cbv iota.
  - unfold ep_block_w. cbv zeta. rewrite (ksq_eq p Hwf k Hk). apply block_iff; [exact ep_bb_nonempty| |].
    + apply (ep_try_iff 7 (pset_w 7) (east (south (g_ep_bb p)))).
      * left. reflexivity.
      * apply pset_w_lt.
      * reflexivity.
      * rewrite Ebb. unfold cbb. rewrite Et. reflexivity.
      * rewrite Ebb. unfold blk, cbb. rewrite Et. reflexivity.
      * unfold rq_them. rewrite Et. reflexivity.
      * rewrite Eep, Q1. unfold cand. rewrite Et. reflexivity.
      * intros x Hx _. apply (pset_w_bits 7 x Hx). left. reflexivity.
    + apply (ep_try_iff 9 (pset_w 9) (west (south (g_ep_bb p)))).
      * right. reflexivity.
      * apply pset_w_lt.
      * reflexivity.
      * rewrite Ebb. unfold cbb. rewrite Et. reflexivity.
      * rewrite Ebb. unfold blk, cbb. rewrite Et. reflexivity.
      * unfold rq_them. rewrite Et. reflexivity.
      * rewrite Eep, Q2. unfold cand. rewrite Et. reflexivity.
      * intros x Hx _. apply (pset_w_bits 9 x Hx). right. reflexivity.
  - unfold ep_block_b. cbv zeta. rewrite (ksq_eq p Hwf k Hk).
    assert (Hor : forall P1 P2 : Prop, (P1 \/ P2) <-> (P2 \/ P1)) by (intros; tauto).
    rewrite (Hor (ep_from 7 m) (ep_from 9 m)). apply block_iff; [exact ep_bb_nonempty| |].
    + apply (ep_try_iff 9 (pset_b 9) (east (north (g_ep_bb p)))).
      * right. reflexivity.
      * apply pset_b_lt.
      * rewrite land_swap. reflexivity.
      * rewrite Ebb. unfold cbb. rewrite Et. reflexivity.
      * rewrite Ebb. unfold blk, cbb. rewrite Et. reflexivity.
      * unfold rq_them. rewrite Et. reflexivity.
      * rewrite Eep, Q3. unfold cand. rewrite Et. reflexivity.
      * intros x Hx Hatt. apply (pset_b_bits 9 x Hx); [right; reflexivity|exact Et|exact Hatt].
    + apply (ep_try_iff 7 (pset_b 7) (west (north (g_ep_bb p)))).
      * left. reflexivity.
      * apply pset_b_lt.
      * rewrite land_swap. reflexivity.
      * rewrite Ebb. unfold cbb. rewrite Et. reflexivity.
      * rewrite Ebb. unfold blk, cbb. rewrite Et. reflexivity.
      * unfold rq_them. rewrite Et. reflexivity.
      * rewrite Eep, Q4. unfold cand. rewrite Et. reflexivity.
      * intros x Hx Hatt. apply (pset_b_bits 7 x Hx); [left; reflexivity|exact Et|exact Hatt].
Qed.
End EpModel.

(* ---------- the ep block inside pawn_captures ---------- *)
Lemma cap_not_ep fr sq cp m' : In m' [mkMove Capture fr sq Pawn cp NoPiece] -> m_type m' <> Enpassant.
Proof. intros [<-|[]]. discriminate. Qed.
Lemma promo_not_ep fr sq cp m' : In m' (promo_caps fr sq cp) -> m_type m' <> Enpassant.
Proof. unfold promo_caps. intros H. repeat destruct H as [<-|H]; try discriminate. destruct H. Qed.

(* pawn_captures = the ordinary and promotion captures, then the ep block; only the latter emits Enpassant *)
Theorem pawn_caps_split p : exists l, g_pawn_caps p = l ++ ep_block p /\ forall m, In m l -> m_type m <> Enpassant.
Proof.
  unfold g_pawn_caps, pawn_captures, ep_block, ep_block_w, ep_block_b. cbv zeta.
  destruct (turn p); (eexists; split; [rewrite !app_assoc; reflexivity|]); intros m H;
    repeat (apply in_app_or in H; destruct H as [H|H]);
    (eapply emit_type; [|exact H]); intros sq m'; first [apply cap_not_ep|apply promo_not_ep].
Qed.

Lemma sq_ew_ne x : sq_east x <> sq_west x.
Proof.
  unfold sq_east, sq_west, u8. change 255 with (N.ones 8) at 1 3. rewrite !N.land_ones. change (2 ^ 8) with 256. intros H.
  pose proof (N.div_mod (x + 1) 256). pose proof (N.div_mod (x + 255) 256). pose proof (N.mod_lt (x + 1) 256). pose proof (N.mod_lt (x + 255) 256). lia.
Qed.

Lemma ep_try_cases p ksq c b rq fr : ep_try p ksq c b rq fr = [] \/ ep_try p ksq c b rq fr = [mkMove Enpassant fr (ep p) Pawn Pawn NoPiece].
Proof. unfold ep_try. destruct c; [|left; reflexivity]. destruct (_ || _); [left|right]; reflexivity. Qed.

Theorem ep_block_nodup p : NoDup (ep_block p).
Proof.
  assert (G : forall ksq c1 c2 b1 b2 rq f1 f2, f1 <> f2 -> NoDup (ep_try p ksq c1 b1 rq f1 ++ ep_try p ksq c2 b2 rq f2)).
  { intros ksq c1 c2 b1 b2 rq f1 f2 Hne.
    destruct (ep_try_cases p ksq c1 b1 rq f1) as [-> | ->]; destruct (ep_try_cases p ksq c2 b2 rq f2) as [-> | ->]; cbn [app].
    - constructor.
    - constructor; [intros []|constructor].
    - constructor; [intros []|constructor].
    - constructor; [intros [E|[]]; inversion E; apply Hne; symmetry; assumption|constructor; [intros []|constructor]]. }
  unfold ep_block, ep_block_w, ep_block_b. cbv zeta.
  destruct (turn p); (destruct (_ && _); [|constructor]); apply G; apply sq_ew_ne.
Qed.

(* ---------- main theorem ---------- *)
Section EpFinal.
Variable p : position.
Hypothesis Hwf : wf p = true.
Variable k : N.
Hypothesis Hk : find_king (abs_board p) (turn p) = Some k.
Hypothesis Huk : forall a, a < 64 -> cell_of_b (brd p) a = Some (turn p, King) -> a = k.
Hypothesis Hep : ep_ok (abs p) = true.
Hypothesis Hnd : (1 <? bb_count (checkers p)) = false.
Notation f := (cell_of_b (brd p)).
Notation us := (turn p).

Lemma ep_block_exact_some e m : (if ep p =? OffSq then None else Some (ep p)) = Some e ->
  (In m (ep_block p) <-> In m (spec_moves (abs p)) /\ m_type m = Enpassant).
Proof.
  intros He.
  rewrite (ep_block_iff p Hwf k Hk Huk Hep e He Hnd m), (spec_ep_iff p Hwf k Hk Huk Hep e He m).
  rewrite (ep_resolves_iff p Hwf k Hk Huk Hep e He Hnd).
  set (eb := match us with White => true | Black => false end).
  assert (Hmb : forall d, d = 7 \/ d = 9 -> cand us e d < 64 -> f (cand us e d) = Some (us, Pawn) -> piece_attacks [] us Pawn (cand us e d) e = true ->
            (ep_safe_cond p k e (cand us e d) <->
             (forall a, checker p k a -> a = match us with White => e - 8 | Black => e + 8 end) /\ pin_free p k d (cand us e d) /\ mc3 p k e eb (cand us e d))).
  { intros d Hd H64 Hf Hatt. rewrite (ep_mailbox p Hwf k Hk Huk Hep e He eb _ H64 Hf Hatt). unfold ep_model_cond, pin_free, mc3.
    destruct (cbb_facts p k Hk Huk Hep e He Hnd us d (cand us e d) Hd H64) as (_ & Hdir & _). rewrite (Hdir eq_refl Hatt). reflexivity. }
  split.
  - intros [Hres [Hfrom|Hfrom]]; destruct Hfrom as (H64 & Hf & Hatt & Hpin & H3 & Hm).
    + exists (cand us e 7). repeat (split; [assumption|]). apply (Hmb 7 (or_introl eq_refl) H64 Hf Hatt). repeat split; assumption.
    + exists (cand us e 9). repeat (split; [assumption|]). apply (Hmb 9 (or_intror eq_refl) H64 Hf Hatt). repeat split; assumption.
  - intros (fr & Hfr & Hf & Hatt & Hm & Hsafe). change (piece_attacks [] us Pawn fr e = true) in Hatt.
    destruct (cbb_facts p k Hk Huk Hep e He Hnd us 7 fr (or_introl eq_refl) Hfr) as (_ & _ & _ & _ & Hc).
    destruct (Hc Hatt) as [E|E]; subst fr.
    + apply (Hmb 7 (or_introl eq_refl) Hfr Hf Hatt) in Hsafe. destruct Hsafe as (S1 & S2 & S3). split; [exact S1|]. left. repeat split; assumption.
    + apply (Hmb 9 (or_intror eq_refl) Hfr Hf Hatt) in Hsafe. destruct Hsafe as (S1 & S2 & S3). split; [exact S1|]. right. repeat split; assumption.
Qed.

Lemma ep_block_none : (if ep p =? OffSq then None else Some (ep p)) = None -> ep_block p = [].
Proof.
  intros H. assert (E : g_ep_bb p = 0) by (unfold g_ep_bb; destruct (ep p =? OffSq); [reflexivity|discriminate]).
  unfold ep_block, ep_block_w, ep_block_b. cbv zeta. rewrite E. destruct us; reflexivity.
Qed.

Theorem ep_block_exact m : In m (ep_block p) <-> In m (spec_moves (abs p)) /\ m_type m = Enpassant.
Proof.
  destruct (if ep p =? OffSq then None else Some (ep p)) as [e|] eqn:He.
  - apply (ep_block_exact_some e m He).
  - rewrite (ep_block_none He). split; [intros []|]. intros [Hin Hty]. exfalso.
    unfold spec_moves in Hin. apply filter_In in Hin. destruct Hin as [Hps _]. pose proof (pseudo_shape _ _ Hps) as Hs. rewrite Hty in Hs.
    destruct Hs as [e [Hs _]]. cbn [abs s_ep] in Hs. rewrite He in Hs. discriminate.
Qed.
End EpFinal.

(* en passant captures are generated exactly: outside double check the capture generator's pawn part contains an
   Enpassant move iff the rules say it is legal *)
Theorem ep_exact dfrc p k : wf p = true -> legal_consistent dfrc (abs p) = true ->
  find_king (abs_board p) (turn p) = Some k -> (forall a, a < 64 -> cell_of_b (brd p) a = Some (turn p, King) -> a = k) ->
  (1 <? bb_count (checkers p)) = false ->
  forall m, m_type m = Enpassant -> (In m (g_pawn_caps p) <-> In m (spec_moves (abs p))).
Proof.
  intros Hwf Hlc Hk Huk Hnd m Hty. destruct (lc_parts _ _ Hlc) as (_ & _ & _ & _ & Hep).
  destruct (pawn_caps_split p) as [l [El Hl]]. rewrite El, in_app_iff, (ep_block_exact p Hwf k Hk Huk Hep Hnd m). split.
  - intros [H|[H _]]; [exfalso; exact (Hl m H Hty)|exact H].
  - intros H. right. split; assumption.
Qed.

(* every move of the ep block is an Enpassant move *)
Theorem ep_block_types p m : In m (ep_block p) -> m_type m = Enpassant.
Proof.
  unfold ep_block, ep_block_w, ep_block_b. cbv zeta.
  destruct (turn p); (destruct (_ && _); [|intros []]); intros H; apply in_app_or in H; destruct H as [H|H];
    apply in_ep_try in H; destruct H as (_ & _ & ->); reflexivity.
Qed.

Print Assumptions ep_exact.
Print Assumptions ep_block_nodup.
Print Assumptions pawn_caps_split.
Print Assumptions ep_block_types.
Print Assumptions ep_block_exact.
