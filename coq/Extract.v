(* Extract.v — extraction of the model M and the spec S to OCaml.  ExtrOcamlBasic only:
   bool, option, unit, prod, list, sumbool, sumor map to the OCaml types; N, positive, Z, nat
   stay Coq inductives.  No Extract Constant. *)
From Coq Require Import NArith ZArith List Bool.
From Coq Require Extraction ExtrOcamlBasic.
From LC Require Import Bits Types BitboardModel MoveModel MagicModel ZobristModel PositionModel
  MovegenModel MakeModel FenModel GameModel Spec.Rules Spec.Fen Spec.Game Refine.Abs.
Extraction Language OCaml.
Extraction "lcmodel.ml"
  (* Bits / Bitboard / Square / Move *)
  trunc64 shl64 shr64 not64 sub64 mul64 bit ctz64 popcount64 clz64 bits bits_ref all64
  sq_of_int sq_of_fr sq_rank sq_file sq_flip sq_north sq_south sq_east sq_west sq_light sq_valid
  sq_string sq_of_chars bb_get bb_set bb_count bb_empty bb_and bb_or bb_xor bb_not bb_lsb bb_hsb
  north south east west adjacent bb_squares squares_between file_mask rank_mask
  std_layout pack_move unpack_move packed_is_capturing packed_is_promoting is_capturing is_promoting
  move_text move_text_with null_move move_eqb
  (* movegen tables *)
  bishop_mask rook_mask calc_bishop_moves calc_rook_moves magic_moves bishop_moves_tbl rook_moves_tbl
  bishop_moves rook_moves queen_moves knight_moves king_moves permute
  (* zobrist *)
  mkZ turn_key castling_key ep_key piece_key
  (* position *)
  fresh_position pieces occupied empty_sqs king_position can_castle get_castling_square piece_on
  attackers square_attacked checkers in_check squares_attacked king_allowed_s king_allowed
  pinned_s pinned pinned_s_orig passed_pawns_s passed_pawns calculate_hash valid
  (* movegen *)
  legal_captures legal_captures_orig legal_noncaptures legal_moves legal_moves_gen
  legal_captures_into legal_noncaptures_into legal_moves_into count_moves is_legal check_evasions
  (* make / undo *)
  makemove undomove makenull undonull predict_hash predict_hash_orig
  (* fen / game *)
  set_fen_on set_fen get_fen print_position to_string
  threefold fiftymoves is_checkmate is_stalemate is_draw is_terminal parse_move move_string
  makemove_str perft
  (* spec *)
  at_sq between attacks attackers_of attacked find_king king_attacked apply_move apply_null
  pseudo_moves spec_moves spec_legal spec_in_check spec_perft spec_squares_attacked spec_king_allowed
  spec_pinned spec_passed legal_consistent put castle_dest
  fen_of of_fen dec same_core g_start g_move g_null occurrences spec_threefold spec_checkmate spec_stalemate
  spec_fifty spec_draw spec_terminal irreversible
  (* abstraction *)
  abs wf.
