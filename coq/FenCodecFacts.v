(* FenCodecFacts.v — get_fen renders the canonical six-field FEN of the position (C06, encoding direction). *)
From Coq Require Import NArith ZArith List Bool Lia.
From Coq Require Import ZifyBool ZifyN ZifyNat.
From LC Require Import Bits BitsFacts Types BitboardModel MoveModel ZobristModel PositionModel FenModel
  Spec.Rules Spec.Fen Refine.Abs Refine.Board Refine.Wf Refine.MakeAbs.
Import ListNotations.
Local Open Scope N_scope.

Lemma to_string_dec n : to_string n = dec n.
Proof. unfold to_string, dec. generalize (N.to_uint n). induction u; cbn; congruence. Qed.

Lemma to_string_digit k : 1 <= k -> k <= 9 -> to_string k = [48 + k].
Proof.
  intros H1 H2. assert (In k [1;2;3;4;5;6;7;8;9]) as Hin by (cbn; lia).
  cbn in Hin. repeat destruct Hin as [<-|Hin]; try reflexivity. destruct Hin.
Qed.

Lemma piece_char_char_of s pc : piece_char s pc = char_of s pc. Proof. destruct s, pc; reflexivity. Qed.

Lemma sq_of_fr_small x y : x < 8 -> y < 8 -> sq_of_fr x y = 8 * y + x.
Proof. intros Hx Hy. unfold sq_of_fr, u8. change 255 with (N.ones 8). rewrite N.land_ones. apply N.mod_small. change (2 ^ 8) with 256. lia. Qed.

(* one rank: the model's loop with its empty-run counter is the specification's run-length encoder *)
Lemma fen_rank_spec p y : y < 8 -> forall xs n, (forall x, In x xs -> x < 8) -> n + N.of_nat (length xs) <= 8 ->
  fen_rank p y xs n = rank_str (map (fun x => cell_of p (8 * y + x)) xs) n.
Proof.
  intros Hy. induction xs as [|x r IH]; intros n Hx Hn; cbn [fen_rank rank_str map].
  - destruct (N.eqb_spec n 0) as [->|Hne]; [reflexivity|].
    replace (0 <? n) with true by lia. apply to_string_digit; cbn [length] in Hn; lia.
  - assert (Hx8 : x < 8) by (apply Hx; left; reflexivity). cbn [length] in Hn.
    rewrite sq_of_fr_small by assumption.
    assert (H64 : 8 * y + x < 64) by lia.
    unfold cell_of. destruct (piece_on p (8 * y + x)) eqn:Ep;
      try (rewrite IH by (try (intros z Hz; apply Hx; right; exact Hz); lia);
           rewrite nonempty_land_bit by exact H64; unfold occupancy_s; cbn [colour];
           destruct (N.eqb_spec n 0) as [->|Hne];
           [cbn [N.ltb N.compare app]; rewrite piece_char_char_of; destruct (N.testbit (b_black (brd p)) (8 * y + x)); reflexivity
           |replace (0 <? n) with true by lia; rewrite to_string_digit by lia; rewrite piece_char_char_of; destruct (N.testbit (b_black (brd p)) (8 * y + x)); reflexivity]).
    apply IH; [intros z Hz; apply Hx; right; exact Hz|lia].
Qed.

Lemma rank_cells_abs p r : r < 8 -> rank_cells (abs_board p) r = map (fun x => cell_of p (8 * r + x)) [0;1;2;3;4;5;6;7].
Proof.
  intros Hr. unfold rank_cells, mk_sq. apply map_ext_in. intros f Hf.
  assert (f < 8) by (cbn in Hf; lia). apply at_sq_abs_board. lia.
Qed.

Theorem fen_pieces_spec p : fen_pieces p = join 47 (map (fun r => rank_str (rank_cells (abs_board p) r) 0) [7;6;5;4;3;2;1;0]).
Proof.
  unfold fen_pieces, files07. cbn [flat_map map join].
  rewrite !rank_cells_abs by lia.
  rewrite !(fen_rank_spec p _) by (try lia; try (intros x Hx; cbn in Hx; lia); cbn; lia).
  cbn [N.ltb N.compare]. rewrite <- !app_assoc. cbn [app]. rewrite app_nil_r. reflexivity.
Qed.

Lemma sq_string_name e : sq_string e = sq_name e. Proof. reflexivity. Qed.

Theorem get_fen_encodes p dfrc : get_fen p dfrc = fen_of dfrc (abs p).
Proof.
  unfold get_fen, fen_of. rewrite fen_pieces_spec. cbn [join].
  unfold abs. cbn [s_board s_turn s_wk s_wq s_bk s_bq s_ep s_half s_full].
  rewrite !to_string_dec.
  assert (Hside : fen_side p = match turn p with White => [119] | Black => [98] end) by reflexivity.
  assert (Hc : fen_castling p dfrc = castling_field dfrc (mkS (abs_board p) (turn p) (if c0 p then Some (r0 p) else None) (if c1 p then Some (r1 p) else None)
                  (if c2 p then Some (r2 p) else None) (if c3 p then Some (r3 p) else None) (if ep p =? OffSq then None else Some (ep p)) (halfmove p) (fullmove p))).
  { unfold fen_castling, castling_field. cbn [s_wk s_wq s_bk s_bq]. destruct dfrc, (c0 p), (c1 p), (c2 p), (c3 p); reflexivity. }
  assert (He : fen_enpassant p = match (if ep p =? OffSq then None else Some (ep p)) with Some e => sq_name e | None => [45] end).
  { unfold fen_enpassant. destruct (ep p =? OffSq); reflexivity. }
  rewrite Hside, Hc, He. cbn [s_wk s_wq s_bk s_bq]. rewrite <- ?app_assoc. cbn [app]. reflexivity.
Qed.

(* the stream printer shows the same placement *)
Lemma print_square_spec p f q : rep (brd p) f -> q < 64 ->
  print_square p q = match f q with Some (s, pc) => char_of s pc | None => 45 end.
Proof.
  intros [H _] Hq. destruct (H q Hq) as [[Hc Hp] Hg]. unfold print_square.
  rewrite !nonempty_land_bit by exact Hq. unfold pieces, occupancy_s, occupancy_p. rewrite !N.land_spec, !Hc, !Hp by discriminate.
  destruct (f q) as [[s pc]|]; [|reflexivity]. destruct s, pc; cbn in Hg |- *; try contradiction; reflexivity.
Qed.
Theorem printer_shows_placement p f : rep (brd p) f ->
  firstn 72 (print_position p) =
  flat_map (fun y => map (fun x => match f (8 * y + x) with Some (s, pc) => char_of s pc | None => 45 end) [0;1;2;3;4;5;6;7] ++ [10]) [7;6;5;4;3;2;1;0].
Proof.
  intros Hrep. unfold print_position, files07. cbn [flat_map map].
  rewrite !(print_square_spec p f) by (try exact Hrep; lia). rewrite <- !app_assoc. cbn [app firstn]. reflexivity.
Qed.
