(* FenFacts.v — set_fen does not depend on the object's past (C07) and assorted facts about the FEN codec. *)
From Coq Require Import NArith ZArith List Bool Lia.
From LC Require Import Bits Types BitboardModel MoveModel MagicModel ZobristModel PositionModel FenModel.
Import ListNotations.
Local Open Scope N_scope.

(* every observable of a position: everything except the castling-rook square of a right that is NOT held
   (no API other than get_castling_square exposes that slot, and the properties speak of the rooks of held rights) *)
Definition obs_eq (p q : position) : Prop :=
  brd p = brd q /\ halfmove p = halfmove q /\ fullmove p = fullmove q /\ ep p = ep q /\ hash p = hash q /\
  c0 p = c0 q /\ c1 p = c1 q /\ c2 p = c2 q /\ c3 p = c3 q /\ to_move p = to_move q /\ history p = history q /\
  (c0 p = true -> r0 p = r0 q) /\ (c1 p = true -> r1 p = r1 q) /\ (c2 p = true -> r2 p = r2 q) /\ (c3 p = true -> r3 p = r3 q).

(* two runs of the castling-field loop that start from different stale rook squares stay related *)
Definition cr_rel (a b : crights) : Prop :=
  k0 a = k0 b /\ k1 a = k1 b /\ k2 a = k2 b /\ k3 a = k3 b /\
  (k0 a = true -> q0 a = q0 b) /\ (k1 a = true -> q1 a = q1 b) /\ (k2 a = true -> q2 a = q2 b) /\ (k3 a = true -> q3 a = q3 b).

Lemma cr_grant_rel a b i sq : cr_rel a b -> cr_rel (cr_grant a i sq) (cr_grant b i sq).
Proof.
  unfold cr_rel, cr_grant. intros (E0 & E1 & E2 & E3 & F0 & F1 & F2 & F3).
  repeat match goal with |- context [match ?x with _ => _ end] => destruct x end; cbn; repeat split; auto.
Qed.

Lemma scan_rooks_rel fuel step bb rooks i a b : cr_rel a b -> cr_rel (scan_rooks fuel step bb rooks i a) (scan_rooks fuel step bb rooks i b).
Proof.
  revert bb a b. induction fuel as [|f IH]; intros bb a b H; [exact H|]. cbn [scan_rooks].
  destruct (bb_nonempty bb); [|exact H]. apply IH. destruct (bb_nonempty (N.land (step bb) rooks)); [apply cr_grant_rel|]; exact H.
Qed.

Lemma castle_char_rel dfrc wk bk wr br a b c : cr_rel a b -> cr_rel (castle_char dfrc wk bk wr br a c) (castle_char dfrc wk bk wr br b c).
Proof.
  intros H. unfold castle_char.
  repeat match goal with
         | |- cr_rel (if ?c then _ else _) (if ?c then _ else _) => destruct c
         | |- cr_rel (cr_grant _ _ _) (cr_grant _ _ _) => apply cr_grant_rel
         | |- cr_rel (scan_rooks _ _ _ _ _ _) (scan_rooks _ _ _ _ _ _) => apply scan_rooks_rel
         | |- cr_rel (let _ := _ in _) _ => cbv zeta
         end; try exact H.
Qed.

Lemma castle_fold_rel dfrc wk bk wr br w a b : cr_rel a b ->
  cr_rel (fold_left (castle_char dfrc wk bk wr br) w a) (fold_left (castle_char dfrc wk bk wr br) w b).
Proof. revert a b. induction w as [|c r IH]; intros a b H; [exact H|]. cbn [fold_left]. apply IH, castle_char_rel, H. Qed.

Section Fen.
Variable K : zkeys.

(* calculate_hash never reads the rook squares *)
Lemma calculate_hash_rooks b h f e hs c0' c1' c2' c3' a0 a1 a2 a3 b0 b1 b2 b3 tm hist hist' :
  calculate_hash K (mkPos b h f e hs c0' c1' c2' c3' a0 a1 a2 a3 tm hist) =
  calculate_hash K (mkPos b h f e hs c0' c1' c2' c3' b0 b1 b2 b3 tm hist').
Proof. reflexivity. Qed.

Theorem set_fen_body_forgets old1 old2 fen dfrc : obs_eq (set_fen_body K old1 fen dfrc) (set_fen_body K old2 fen dfrc).
Proof.
  unfold set_fen_body.
  destruct (next_word fen) as [w1 s1]. destruct (next_word s1) as [w2 s2]. destruct (next_word s2) as [w3 s3].
  destruct (next_word s3) as [w4 s4]. destruct (next_number s4) as [n5 s5].
  destruct (match n5 with Some _ => next_number s5 | None => (None, s5) end) as [n6 s6].
  set (word1 := match w1 with Some w => w | None => [] end).
  set (word2 := match w2 with Some w => w | None => word1 end).
  set (word3 := match w3 with Some w => w | None => word2 end).
  set (b := place word1 56%Z empty_board).
  set (tm := if str_eqb word2 [119] then White else Black).
  (* king squares and rook sets are read from the freshly parsed board only *)
  set (p1 := mkPos b 0 0 OffSq 0 false false false false (r0 old1) (r1 old1) (r2 old1) (r3 old1) tm []).
  set (p2 := mkPos b 0 0 OffSq 0 false false false false (r0 old2) (r1 old2) (r2 old2) (r3 old2) tm []).
  assert (Ek : forall s, king_position p1 s = king_position p2 s) by reflexivity.
  assert (Er : forall s pc, pieces p1 s pc = pieces p2 s pc) by reflexivity.
  set (cr1 := if negb (str_eqb word3 [45]) then fold_left (castle_char dfrc (king_position p1 White) (king_position p1 Black) (pieces p1 White Rook) (pieces p1 Black Rook)) word3
                                                  (mkCR false false false false (r0 old1) (r1 old1) (r2 old1) (r3 old1))
              else mkCR false false false false (r0 old1) (r1 old1) (r2 old1) (r3 old1)).
  set (cr2 := if negb (str_eqb word3 [45]) then fold_left (castle_char dfrc (king_position p2 White) (king_position p2 Black) (pieces p2 White Rook) (pieces p2 Black Rook)) word3
                                                  (mkCR false false false false (r0 old2) (r1 old2) (r2 old2) (r3 old2))
              else mkCR false false false false (r0 old2) (r1 old2) (r2 old2) (r3 old2)).
  assert (Hrel : cr_rel cr1 cr2).
  { unfold cr1, cr2. rewrite !Ek, !Er. destruct (negb (str_eqb word3 [45])).
    - apply castle_fold_rel. unfold cr_rel; cbn; repeat split; discriminate.
    - unfold cr_rel; cbn; repeat split; discriminate. }
  destruct Hrel as (E0 & E1 & E2 & E3 & F0 & F1 & F2 & F3).
  unfold obs_eq. cbn [brd halfmove fullmove ep hash c0 c1 c2 c3 r0 r1 r2 r3 to_move history].
  rewrite <- E0, <- E1, <- E2, <- E3.
  repeat split; try reflexivity; try assumption.
Qed.

(* calling set_fen on an object that already holds any other position, mode and history gives exactly the
   observables of a fresh object, with an empty history *)
Theorem set_fen_forgets old fen dfrc : obs_eq (set_fen_on K old fen dfrc) (set_fen K fen dfrc).
Proof. unfold set_fen, set_fen_on. destruct (str_eqb fen startpos_str); apply set_fen_body_forgets. Qed.
Theorem set_fen_history_empty old fen dfrc : history (set_fen_on K old fen dfrc) = [].
Proof.
  unfold set_fen_on, set_fen_body. destruct (str_eqb fen startpos_str);
    repeat match goal with |- context [let '(_, _) := ?x in _] => destruct x end; reflexivity.
Qed.

(* 'startpos' is the standard initial position *)
Theorem startpos_is_standard dfrc : set_fen K startpos_str dfrc = set_fen K startpos_fen false.
Proof. reflexivity. Qed.
End Fen.

Section FenHash.
Variable K : zkeys.
Theorem set_fen_hash_ok old fen dfrc : hash (set_fen_on K old fen dfrc) = calculate_hash K (set_fen_on K old fen dfrc).
Proof.
  unfold set_fen_on, set_fen_body. destruct (str_eqb fen startpos_str);
    repeat match goal with |- context [let '(_, _) := ?x in _] => destruct x end; reflexivity.
Qed.
End FenHash.
