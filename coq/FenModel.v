(* FenModel.v — set_fen.cpp, get_fen.cpp and operator<<(std::ostream&, const Position&).
   Strings are lists of byte codes (N).  Definitions only. *)
From Coq Require Import NArith ZArith List Bool.
From LC Require Import Bits Types BitboardModel MoveModel MagicModel ZobristModel PositionModel.
Import ListNotations.
Local Open Scope N_scope.

Definition str := list N.
Fixpoint str_eqb (a b : str) : bool :=
  match a, b with
  | [], [] => true
  | x :: a', y :: b' => (x =? y) && str_eqb a' b'
  | _, _ => false
  end.

(* std::isspace in the "C" locale *)
Definition is_space (c : N) : bool := (c =? 32) || ((9 <=? c) && (c <=? 13)).

(* successive  ss >> word : skip white space, take the maximal run of non-space characters *)
Fixpoint skip_ws (s : str) : str :=
  match s with c :: r => if is_space c then skip_ws r else s | [] => [] end.
Fixpoint take_word (s : str) : str * str :=
  match s with
  | c :: r => if is_space c then ([], s) else let '(w, rest) := take_word r in (c :: w, rest)
  | [] => ([], [])
  end.
(* returns None when the extraction fails (stream exhausted): the C++ then keeps the old word *)
Definition next_word (s : str) : option str * str :=
  let s' := skip_ws s in
  match s' with [] => (None, []) | _ => let '(w, rest) := take_word s' in (Some w, rest) end.

(* ss >> std::size_t : leading digits of the next token; failure leaves 0 (C++11) *)
Fixpoint digits_val (s : str) (acc : N) (any : bool) : N * bool * str :=
  match s with
  | c :: r => if (48 <=? c) && (c <=? 57) then digits_val r (acc * 10 + (c - 48)) true else (acc, any, s)
  | [] => (acc, any, [])
  end.
Definition next_number (s : str) : option N * str :=
  let s' := skip_ws s in
  let '(v, any, rest) := digits_val s' 0 false in
  if any then (Some v, rest) else (None, s').

(* the placement loop: i is an int *)
Definition piece_of_char (c : N) : option (side * piece) :=
  match c with
  | 80 => Some (White, Pawn) | 112 => Some (Black, Pawn)
  | 78 => Some (White, Knight) | 110 => Some (Black, Knight)
  | 66 => Some (White, Bishop) | 98 => Some (Black, Bishop)
  | 82 => Some (White, Rook) | 114 => Some (Black, Rook)
  | 81 => Some (White, Queen) | 113 => Some (Black, Queen)
  | 75 => Some (White, King) | 107 => Some (Black, King)
  | _ => None
  end.
Definition sq_of_Z (i : Z) : N := Z.to_N (i mod 256)%Z.      (* Square(int): uint8 cast *)
Fixpoint place (w : str) (i : Z) (b : board) : board :=
  match w with
  | [] => b
  | c :: r =>
    match piece_of_char c with
    | Some (s, pc) => place r (i + 1)%Z (board_set b (sq_of_Z i) s pc)
    | None =>
      if (49 <=? c) && (c <=? 56) then place r (i + Z.of_N (c - 49) + 1)%Z b
      else if c =? 47 then place r (i - 16)%Z b
      else place r i b
    end
  end.

(* castling rights being accumulated: (c0,c1,c2,c3,r0,r1,r2,r3) *)
Record crights := mkCR { k0 : bool; k1 : bool; k2 : bool; k3 : bool; q0 : N; q1 : N; q2 : N; q3 : N }.
Definition cr_grant (cr : crights) (i : N) (sq : N) : crights :=
  match i with
  | 0 => mkCR true (k1 cr) (k2 cr) (k3 cr) sq (q1 cr) (q2 cr) (q3 cr)
  | 1 => mkCR (k0 cr) true (k2 cr) (k3 cr) (q0 cr) sq (q2 cr) (q3 cr)
  | 2 => mkCR (k0 cr) (k1 cr) true (k3 cr) (q0 cr) (q1 cr) sq (q3 cr)
  | _ => mkCR (k0 cr) (k1 cr) (k2 cr) true (q0 cr) (q1 cr) (q2 cr) sq
  end.

(* auto bb = Bitboard(ksq); while (bb) { bb = bb.step(); if (bb & rooks) grant(i, (bb & rooks).lsb()); } *)
Fixpoint scan_rooks (fuel : nat) (step : N -> N) (bb rooks : N) (i : N) (cr : crights) : crights :=
  match fuel with
  | O => cr
  | S f =>
    if bb_nonempty bb then
      let bb' := step bb in
      let cr' := if bb_nonempty (N.land bb' rooks) then cr_grant cr i (bb_lsb (N.land bb' rooks)) else cr in
      scan_rooks f step bb' rooks i cr'
    else cr
  end.

Definition castle_char (dfrc : bool) (wksq bksq white_rooks black_rooks : N) (cr : crights) (c : N) : crights :=
  if dfrc then
    if (65 <=? c) && (c <=? 72) then
      let sq := sq_of_int (c - 65) in
      let is_king_side := sq_file wksq <? sq_file sq in
      if is_king_side && bb_get white_rooks sq then cr_grant cr 0 sq
      else if negb is_king_side && bb_get white_rooks sq then cr_grant cr 1 sq else cr
    else if (97 <=? c) && (c <=? 104) then
      let sq := sq_of_int (56 + c - 97) in
      let is_king_side := sq_file bksq <? sq_file sq in
      if is_king_side && bb_get black_rooks sq then cr_grant cr 2 sq
      else if negb is_king_side && bb_get black_rooks sq then cr_grant cr 3 sq else cr
    else if c =? 75 then scan_rooks 9 east (bit wksq) white_rooks 0 cr
    else if c =? 81 then scan_rooks 9 west (bit wksq) white_rooks 1 cr
    else if c =? 107 then scan_rooks 9 east (bit bksq) black_rooks 2 cr
    else if c =? 113 then scan_rooks 9 west (bit bksq) black_rooks 3 cr
    else cr
  else
    if (c =? 75) && bb_get white_rooks 7 then cr_grant cr 0 7
    else if (c =? 81) && bb_get white_rooks 0 then cr_grant cr 1 0
    else if (c =? 107) && bb_get black_rooks 63 then cr_grant cr 2 63
    else if (c =? 113) && bb_get black_rooks 56 then cr_grant cr 3 56
    else cr.

Definition startpos_str : str := [115;116;97;114;116;112;111;115].  (* "startpos" *)
Definition startpos_fen : str :=
  [114;110;98;113;107;98;110;114;47;112;112;112;112;112;112;112;112;47;56;47;56;47;56;47;56;47;
   80;80;80;80;80;80;80;80;47;82;78;66;81;75;66;78;82;32;119;32;75;81;107;113;32;45;32;48;32;49].

Section Fen.
Variable K : zkeys.

(* set_fen on an existing object [old]: clear() keeps castle_rooks_from_ *)
Definition set_fen_body (old : position) (fen : str) (dfrc : bool) : position :=
  let '(w1, s1) := next_word fen in
  let word1 := match w1 with Some w => w | None => [] end in
  let b := place word1 56%Z empty_board in
  let '(w2, s2) := next_word s1 in
  let word2 := match w2 with Some w => w | None => word1 end in
  let tm := if str_eqb word2 [119] then White else Black in
  let '(w3, s3) := next_word s2 in
  let word3 := match w3 with Some w => w | None => word2 end in
  let p0 := mkPos b 0 0 OffSq 0 false false false false (r0 old) (r1 old) (r2 old) (r3 old) tm [] in
  let cr0 := mkCR false false false false (r0 old) (r1 old) (r2 old) (r3 old) in
  let cr :=
    if negb (str_eqb word3 [45]) then
      let wksq := king_position p0 White in
      let bksq := king_position p0 Black in
      let white_rooks := pieces p0 White Rook in
      let black_rooks := pieces p0 Black Rook in
      fold_left (castle_char dfrc wksq bksq white_rooks black_rooks) word3 cr0
    else cr0 in
  let '(w4, s4) := next_word s3 in
  let word4 := match w4 with Some w => w | None => word3 end in
  let ch0 := Z.of_N (nth 0 word4 0) in
  let ch1 := Z.of_N (nth 1 word4 0) in
  let e := if negb (str_eqb word4 [45])
           then sq_of_Z ((ch1 - 49) * 8 + (ch0 - 97))%Z
           else OffSq in
  let '(n5, s5) := next_number s4 in
  let '(n6, _) := match n5 with Some _ => next_number s5 | None => (None, s5) end in
  let half := match n5 with Some v => v | None => 0 end in
  let full := match n6 with Some v => v | None => 0 end in
  let p1 := mkPos b half full e 0 (k0 cr) (k1 cr) (k2 cr) (k3 cr) (q0 cr) (q1 cr) (q2 cr) (q3 cr) tm [] in
  mkPos b half full e (calculate_hash K p1) (k0 cr) (k1 cr) (k2 cr) (k3 cr) (q0 cr) (q1 cr) (q2 cr) (q3 cr) tm [].

Definition set_fen_on (old : position) (fen : str) (dfrc : bool) : position :=
  if str_eqb fen startpos_str then set_fen_body old startpos_fen false
  else set_fen_body old fen dfrc.
Definition set_fen (fen : str) (dfrc : bool) : position := set_fen_on fresh_position fen dfrc.
End Fen.

(* ---------------- get_fen.cpp ---------------- *)
(* std::to_string of an unsigned value *)
Fixpoint uint_chars (u : Decimal.uint) : str :=
  match u with
  | Decimal.Nil => []
  | Decimal.D0 r => 48 :: uint_chars r | Decimal.D1 r => 49 :: uint_chars r
  | Decimal.D2 r => 50 :: uint_chars r | Decimal.D3 r => 51 :: uint_chars r
  | Decimal.D4 r => 52 :: uint_chars r | Decimal.D5 r => 53 :: uint_chars r
  | Decimal.D6 r => 54 :: uint_chars r | Decimal.D7 r => 55 :: uint_chars r
  | Decimal.D8 r => 56 :: uint_chars r | Decimal.D9 r => 57 :: uint_chars r
  end.
Definition to_string (n : N) : str := uint_chars (N.to_uint n).

Definition piece_char (s : side) (pc : piece) : N :=
  let base := match pc with Pawn => 80 | Knight => 78 | Bishop => 66 | Rook => 82 | Queen => 81 | King => 75 | NoPiece => 63 end in
  match s with White => base | Black => base + 32 end.

(* one rank y of fen_pieces: x = 0..7 with the empty-run counter *)
Fixpoint fen_rank (p : position) (y : N) (xs : list N) (num_empty : N) : str :=
  match xs with
  | [] => if 0 <? num_empty then to_string num_empty else []
  | x :: r =>
    let sq := sq_of_fr x y in
    let pc := piece_on p sq in
    match pc with
    | NoPiece => fen_rank p y r (num_empty + 1)
    | _ =>
      (if 0 <? num_empty then to_string num_empty else []) ++
      piece_char (if bb_nonempty (N.land (occupancy_s p Black) (bit sq)) then Black else White) pc ::
      fen_rank p y r 0
    end
  end.
Definition files07 : list N := [0;1;2;3;4;5;6;7].
Definition fen_pieces (p : position) : str :=
  flat_map (fun y => fen_rank p y files07 0 ++ (if 0 <? y then [47] else [])) [7;6;5;4;3;2;1;0].
Definition fen_side (p : position) : str := match turn p with White => [119] | Black => [98] end.
Definition fen_castling (p : position) (dfrc : bool) : str :=
  let part :=
    if dfrc then
      (if c0 p then [65 + sq_file (r0 p)] else []) ++ (if c1 p then [65 + sq_file (r1 p)] else []) ++
      (if c2 p then [97 + sq_file (r2 p)] else []) ++ (if c3 p then [97 + sq_file (r3 p)] else [])
    else
      (if c0 p then [75] else []) ++ (if c1 p then [81] else []) ++
      (if c2 p then [107] else []) ++ (if c3 p then [113] else []) in
  match part with [] => [45] | _ => part end.
(* square_strings[ep] *)
Definition fen_enpassant (p : position) : str := if ep p =? OffSq then [45] else sq_string (ep p).
Definition get_fen (p : position) (dfrc : bool) : str :=
  fen_pieces p ++ [32] ++ fen_side p ++ [32] ++ fen_castling p dfrc ++ [32] ++ fen_enpassant p ++ [32] ++
  to_string (halfmove p) ++ [32] ++ to_string (fullmove p).

(* ---------------- operator<<(ostream, Position) ---------------- *)
Definition print_square (p : position) (sq : N) : N :=
  let bb := bit sq in
  let t (s : side) (pc : piece) := bb_nonempty (N.land (pieces p s pc) bb) in
  if t White Pawn then 80 else if t White Knight then 78 else if t White Bishop then 66 else
  if t White Rook then 82 else if t White Queen then 81 else if t White King then 75 else
  if t Black Pawn then 112 else if t Black Knight then 110 else if t Black Bishop then 98 else
  if t Black Rook then 114 else if t Black Queen then 113 else if t Black King then 107 else 45.
Definition print_position (p : position) : str :=
  flat_map (fun y => map (fun x => print_square p (8 * y + x)) files07 ++ [10]) [7;6;5;4;3;2;1;0] ++
  [67;97;115;116;108;105;110;103;58;32] ++
  (if c0 p then [75] else []) ++ (if c1 p then [81] else []) ++
  (if c2 p then [107] else []) ++ (if c3 p then [113] else []) ++ [10] ++
  (if ep p =? OffSq then [69;80;58;32;45;10] else [69;80;58;32] ++ sq_string (ep p) ++ [10]) ++
  [84;117;114;110;58;32] ++ (match turn p with White => [119] | Black => [98] end).
