(* FenRoundTrip.v — the DECODING direction of the FEN codec on canonical FENs (C06/C07):
   set_fen of the specification's canonical FEN of a (legal-consistent) position rebuilds exactly that position,
   hence a fresh Position built from p.get_fen(mode) is observably p without its history.

   Main results
     set_fen_fen_of      : fen_ok dfrc s -> abs (set_fen K (fen_of dfrc s) dfrc) = s /\ wf (...) = true
     fen_round_trip      : legal_consistent dfrc (abs p) = true -> abs q = abs p /\ wf q /\ hash_ok q /\ history q = [] /\
                           get_fen q dfrc = get_fen p dfrc      (q := set_fen K (get_fen p dfrc) dfrc; no wf p / rooks_ok p needed)
     fen_round_trip_obs  : with wf p and hash p = calculate_hash K p: board, side, rights, rook squares of held rights,
                           ep, clocks and hash of q are those of p; history q = []
     set_fen_of_fen      : on six-field FENs (8 ranks of piece letters / digits 1..8 each 8 wide, non-empty side and castling
                           words, ep word '-' or file letter + rank digit, non-empty digit clocks) the model decoder returns
                           what Spec.Fen.of_fen returns — KQkq, Shredder letters and X-FEN letters in any order and
                           multiplicity, letters without a rook dropped (in Chess960 mode both kings must be on the board).
   Side conditions that cannot be dropped (by evaluation):
     - right_ok with the SAME mode flag: a position whose held right has its rook on g1 printed in standard mode gives 'K',
       which set_fen reads as h1 (or drops);
     - ep square < 255 (the parser reduces the square modulo 256 and 255 is OffSq);
     - Chess960 + Shredder letter + no king of that colour: "8/8/8/8/8/8/8/R7 w A - 0 1" — of_fen grants nothing,
       set_fen grants White's queen-side right (king_position of an empty set is 64, file 0);
     - ep words other than '-' / two characters ("e", "--") and clocks that are not digit strings ("x") differ
       (of_fen: None resp. undec of the raw characters; set_fen: a square computed from missing characters resp. 0 and
       the full-move number not read). *)
From Coq Require Import NArith ZArith List Bool Lia.
From Coq Require Import ZifyBool ZifyN ZifyNat.
From Coq Require Import DecimalPos DecimalN.
From LC Require Import Bits BitsFacts Types BitboardModel BitboardFacts MoveModel MagicModel ZobristModel PositionModel FenModel BoardFacts
  Spec.Rules Spec.Fen Refine.Abs Refine.Board Refine.Wf Refine.MakeAbs Refine.SpecFits AttackFacts FenFacts FenCodecFacts.
Import ListNotations.
Local Open Scope N_scope.
Local Strategy 1000 [squares all64 seq].

(* ================= 1. placement ================= *)

(* ---- board_set on an empty square is the XOR toggle ---- *)
Lemma lor_lxor_bit v q : q < 64 -> N.testbit v q = false -> N.lor v (bit q) = N.lxor v (bit q).
Proof.
  intros Hq Hv. apply N.bits_inj. intros i. rewrite N.lor_spec, N.lxor_spec, bit_spec by exact Hq.
  destruct (N.eqb_spec i q) as [->|Hne].
  - rewrite Hv. reflexivity.
  - rewrite orb_false_r, xorb_false_r. reflexivity.
Qed.

Lemma board_set_toggle b q s pc : q < 64 -> N.testbit (colour b s) q = false ->
  (pc <> NoPiece -> N.testbit (pcs b pc) q = false) -> board_set b q s pc = toggle b s pc q.
Proof.
  intros Hq Hc Hp. unfold board_set, toggle, xor_pcs, xor_colour.
  destruct b as [bw bb bp bn bbi br bq bk], s, pc;
    cbn [upd_pcs upd_colour colour pcs b_white b_black b_pawn b_knight b_bishop b_rook b_queen b_king] in *;
    rewrite ?(lor_lxor_bit _ _ Hq Hc);
    try (rewrite (lor_lxor_bit _ _ Hq (Hp ltac:(discriminate)))); reflexivity.
Qed.

Lemma board_set_add b f s pc q : rep b f -> q < 64 -> pc <> NoPiece -> f q = None ->
  rep (board_set b q s pc) (upd f q (Some (s, pc))).
Proof.
  intros Hrep Hq Hpc Hf. pose proof Hrep as [H _]. destruct (H q Hq) as [[Hc Hp] _]. rewrite Hf in Hc, Hp.
  rewrite board_set_toggle; [apply toggle_add; assumption|exact Hq|apply Hc|intros _; apply Hp; exact Hpc].
Qed.

Lemma rep_empty : rep empty_board (fun _ => None).
Proof.
  split.
  - intros q _. split; [|exact I]. split.
    + intros s. destruct s; cbn [colour empty_board b_white b_black]; apply N.bits_0.
    + intros pc _. destruct pc; cbn [pcs empty_board b_pawn b_knight b_bishop b_rook b_queen b_king]; apply N.bits_0.
  - unfold board_lt, empty_board. cbn [b_white b_black b_pawn b_knight b_bishop b_rook b_queen b_king]. repeat split; reflexivity.
Qed.

(* ---- partially filled boards ---- *)
Definition mask (d : N -> bool) (f : mb) : mb := fun x => if d x then f x else None.

Fixpoint fill (bd : board) (q : N) (cells : list cell) : board :=
  match cells with
  | [] => bd
  | None :: r => fill bd (q + 1) r
  | Some (s, pc) :: r => fill (board_set bd q s pc) (q + 1) r
  end.

Lemma fill_rep (f : mb) : (forall x, x < 64 -> no_ghost (f x)) ->
  forall cells bd q d, rep bd (mask d f) -> q + N.of_nat (length cells) <= 64 ->
  (forall k, (k < length cells)%nat -> nth k cells None = f (q + N.of_nat k)) ->
  (forall x, q <= x -> x < q + N.of_nat (length cells) -> d x = false) ->
  rep (fill bd q cells) (mask (fun x => d x || ((q <=? x) && (x <? q + N.of_nat (length cells)))) f).
Proof.
  intros Hng. induction cells as [|c r IH]; intros bd q d Hrep Hq Hnth Hd.
  - cbn [fill length]. apply (rep_ext _ _ _ Hrep). intros x Hx. unfold mask.
    replace ((q <=? x) && (x <? q + N.of_nat 0)) with false by lia. rewrite orb_false_r. reflexivity.
  - cbn [length] in Hq, Hd.
    assert (Hc : c = f q).
    { specialize (Hnth 0%nat ltac:(cbn [length]; lia)). cbn [nth] in Hnth. rewrite Hnth. f_equal. lia. }
    assert (Hdq : d q = false) by (apply Hd; lia).
    assert (Hstep : rep (match c with None => bd | Some (s, pc) => board_set bd q s pc end)
                        (mask (fun x => d x || (x =? q)) f)).
    { destruct c as [[s pc]|].
      - assert (Hpc : pc <> NoPiece).
        { pose proof (Hng q ltac:(lia)) as G. rewrite <- Hc in G. cbn in G. intros ->. exact G. }
        apply (rep_ext _ (upd (mask d f) q (Some (s, pc)))).
        + apply board_set_add; [exact Hrep|lia|exact Hpc|unfold mask; rewrite Hdq; reflexivity].
        + intros x Hx. unfold upd, mask. destruct (N.eqb_spec x q) as [->|Hne].
          * rewrite orb_true_r. exact Hc.
          * rewrite orb_false_r. reflexivity.
      - apply (rep_ext _ _ _ Hrep). intros x Hx. unfold mask. destruct (N.eqb_spec x q) as [->|Hne].
        + rewrite Hdq. cbn [orb]. exact Hc.
        + rewrite orb_false_r. reflexivity. }
    assert (Hfill : fill bd q (c :: r) = fill (match c with None => bd | Some (s, pc) => board_set bd q s pc end) (q + 1) r).
    { destruct c as [[s pc]|]; reflexivity. }
    rewrite Hfill.
    apply (rep_ext _ (mask (fun x => (d x || (x =? q)) || ((q + 1 <=? x) && (x <? q + 1 + N.of_nat (length r)))) f)).
    + apply IH.
      * exact Hstep.
      * lia.
      * intros k Hk. specialize (Hnth (S k) ltac:(cbn [length]; lia)). cbn [nth] in Hnth. rewrite Hnth. f_equal. lia.
      * intros x H1 H2. rewrite Hd by lia. cbn [orb]. lia.
    + intros x Hx. unfold mask. cbn [length].
      replace (d x || (x =? q) || ((q + 1 <=? x) && (x <? q + 1 + N.of_nat (length r))))
        with (d x || ((q <=? x) && (x <? q + N.of_nat (S (length r))))); [reflexivity|].
      destruct (d x); cbn [orb]; lia.
Qed.

(* ---- the placement loop with its running index made explicit ---- *)
Fixpoint place_st (w : str) (i : Z) (b : board) : Z * board :=
  match w with
  | [] => (i, b)
  | c :: r =>
    match piece_of_char c with
    | Some (s, pc) => place_st r (i + 1)%Z (board_set b (sq_of_Z i) s pc)
    | None =>
      if (49 <=? c) && (c <=? 56) then place_st r (i + Z.of_N (c - 49) + 1)%Z b
      else if c =? 47 then place_st r (i - 16)%Z b
      else place_st r i b
    end
  end.

Lemma place_app a r : forall i b, place (a ++ r) i b = place r (fst (place_st a i b)) (snd (place_st a i b)).
Proof.
  induction a as [|c a IH]; intros i b; cbn [app place place_st]; [reflexivity|].
  destruct (piece_of_char c) as [[s pc]|]; [apply IH|].
  destruct ((49 <=? c) && (c <=? 56)); [apply IH|]. destruct (c =? 47); apply IH.
Qed.

Lemma piece_of_char_char_of s pc : pc <> NoPiece -> piece_of_char (char_of s pc) = Some (s, pc).
Proof. intros H. destruct s, pc; try reflexivity; congruence. Qed.

Lemma digit_not_piece run : 1 <= run -> run <= 8 ->
  piece_of_char (48 + run) = None /\ (49 <=? 48 + run) && (48 + run <=? 56) = true.
Proof.
  intros H1 H2. assert (In run [1;2;3;4;5;6;7;8]) as Hin by (cbn; lia).
  cbn in Hin. repeat destruct Hin as [<-|Hin]; try (split; reflexivity). destruct Hin.
Qed.

Lemma place_st_run run r i b : run <= 8 ->
  place_st ((if run =? 0 then [] else [48 + run]) ++ r) i b = place_st r (i + Z.of_N run)%Z b.
Proof.
  intros H. destruct (N.eqb_spec run 0) as [->|Hne].
  - cbn [app]. f_equal. lia.
  - cbn [app place_st]. destruct (digit_not_piece run ltac:(lia) H) as [E1 E2]. rewrite E1, E2. f_equal. lia.
Qed.

Lemma sq_of_Z_N x : x < 256 -> sq_of_Z (Z.of_N x) = x.
Proof. intros H. unfold sq_of_Z. rewrite Z.mod_small by lia. apply N2Z.id. Qed.

Lemma place_rank_str : forall cells run q bd,
  run + N.of_nat (length cells) <= 8 -> q + run + N.of_nat (length cells) <= 256 ->
  Forall no_ghost cells ->
  place_st (rank_str cells run) (Z.of_N q) bd = (Z.of_N (q + run + N.of_nat (length cells)), fill bd (q + run) cells).
Proof.
  induction cells as [|c r IH]; intros run q bd H8 H256 Hng.
  - cbn [rank_str length fill]. unfold sstr.
    pose proof (place_st_run run [] (Z.of_N q) bd ltac:(cbn [length] in H8; lia)) as E. rewrite app_nil_r in E.
    rewrite E. cbn [place_st]. f_equal. lia.
  - cbn [length] in H8, H256. inversion Hng as [|c' r' Hc Hr]; subst c' r'.
    destruct c as [[s pc]|]; cbn [rank_str length fill]; unfold sstr.
    + assert (Hpc : pc <> NoPiece) by (intros ->; exact Hc).
      rewrite place_st_run by lia. cbn [place_st]. rewrite piece_of_char_char_of by exact Hpc.
      replace (Z.of_N q + Z.of_N run + 1)%Z with (Z.of_N (q + run + 1)) by lia.
      replace (Z.of_N q + Z.of_N run)%Z with (Z.of_N (q + run)) by lia.
      rewrite sq_of_Z_N by lia.
      rewrite IH by (try exact Hr; lia). rewrite N.add_0_r. f_equal. lia.
    + rewrite IH by (try exact Hr; lia). f_equal; [lia|]. f_equal. lia.
Qed.

(* ---- one rank, then the eight ranks ---- *)
Definition Rk (b : sboard) (r : N) : sstr := rank_str (rank_cells b r) 0.

Lemma place_rank b r rest bd : r < 8 -> (forall x, x < 64 -> no_ghost (at_sq b x)) ->
  rep bd (mask (fun x => 8 * (r + 1) <=? x) (at_sq b)) ->
  exists bd', place (Rk b r ++ rest) (Z.of_N (8 * r)) bd = place rest (Z.of_N (8 * r + 8)) bd' /\
              rep bd' (mask (fun x => 8 * r <=? x) (at_sq b)).
Proof.
  intros Hr Hng Hrep. rewrite place_app. unfold Rk.
  assert (Hl : length (rank_cells b r) = 8%nat) by reflexivity.
  assert (Hgh : Forall no_ghost (rank_cells b r)).
  { unfold rank_cells, mk_sq. cbn [map]. repeat (constructor; [apply Hng; lia|]). constructor. }
  rewrite place_rank_str by (try exact Hgh; rewrite Hl; lia).
  cbn [fst snd]. rewrite Hl. exists (fill bd (8 * r + 0) (rank_cells b r)). split.
  - f_equal. lia.
  - eapply rep_ext.
    + apply (fill_rep (at_sq b) Hng (rank_cells b r) bd (8 * r + 0) (fun x => 8 * (r + 1) <=? x)).
      * exact Hrep.
      * change (length (rank_cells b r)) with 8%nat. lia.
      * change (length (rank_cells b r)) with 8%nat. intros k Hk. rewrite N.add_0_r.
        do 8 (destruct k as [|k]; [reflexivity|]). lia.
      * change (length (rank_cells b r)) with 8%nat. intros x H1 H2. lia.
    + intros x Hx. unfold mask. change (length (rank_cells b r)) with 8%nat.
      replace ((8 * (r + 1) <=? x) || ((8 * r + 0 <=? x) && (x <? 8 * r + 0 + N.of_nat 8))) with (8 * r <=? x) by lia.
      reflexivity.
Qed.

Lemma place_slash rest i bd : place (47 :: rest) i bd = place rest (i - 16)%Z bd.
Proof. reflexivity. Qed.

Definition placement (b : sboard) : sstr := join 47 (map (fun r => rank_str (rank_cells b r) 0) [7;6;5;4;3;2;1;0]).

Theorem place_board b : (forall x, x < 64 -> no_ghost (at_sq b x)) ->
  rep (place (placement b) 56%Z empty_board) (at_sq b).
Proof.
  intros Hng. unfold placement. cbn [map join]. fold (Rk b 7) (Rk b 6) (Rk b 5) (Rk b 4) (Rk b 3) (Rk b 2) (Rk b 1) (Rk b 0).
  assert (H : rep empty_board (mask (fun x => 8 * (7 + 1) <=? x) (at_sq b))).
  { apply (rep_ext _ _ _ rep_empty). intros x Hx. unfold mask. replace (8 * (7 + 1) <=? x) with false by lia. reflexivity. }
  change 56%Z with (Z.of_N (8 * 7)).
  Local Ltac rank_step H Hng :=
    match goal with |- rep (place (Rk ?b ?r ++ ?rest) _ ?bd) _ =>
      let bd' := fresh "bd" in let E := fresh "E" in let H' := fresh "H" in
      destruct (place_rank b r rest bd ltac:(lia) Hng H) as [bd' [E H']]; rewrite E; clear E H; rename H' into H;
      rewrite place_slash
    end.
  rank_step H Hng. change (Z.of_N (8 * 7 + 8) - 16)%Z with (Z.of_N (8 * 6)).
  rank_step H Hng. change (Z.of_N (8 * 6 + 8) - 16)%Z with (Z.of_N (8 * 5)).
  rank_step H Hng. change (Z.of_N (8 * 5 + 8) - 16)%Z with (Z.of_N (8 * 4)).
  rank_step H Hng. change (Z.of_N (8 * 4 + 8) - 16)%Z with (Z.of_N (8 * 3)).
  rank_step H Hng. change (Z.of_N (8 * 3 + 8) - 16)%Z with (Z.of_N (8 * 2)).
  rank_step H Hng. change (Z.of_N (8 * 2 + 8) - 16)%Z with (Z.of_N (8 * 1)).
  rank_step H Hng. change (Z.of_N (8 * 1 + 8) - 16)%Z with (Z.of_N (8 * 0)).
  rewrite <- (app_nil_r (Rk b 0)).
  destruct (place_rank b 0 [] _ ltac:(lia) Hng H) as [bd' [E H']]. rewrite E. cbn [place].
  apply (rep_ext _ _ _ H'). intros x Hx. unfold mask. replace (8 * 0 <=? x) with true by lia. reflexivity.
Qed.

Lemma abs_board_rep p f : rep (brd p) f -> abs_board p = map f all64.
Proof. intros H. unfold abs_board. apply map_all64_ext. intros q Hq. rewrite cell_of_eq. apply rep_cell_of; assumption. Qed.

Lemma map_at_sq (b : sboard) : length b = 64%nat -> map (at_sq b) all64 = b.
Proof.
  intros Hl. apply (nth_ext _ _ None None).
  - rewrite map_length. unfold all64. rewrite map_length, seq_length. symmetry. exact Hl.
  - intros n Hn. rewrite map_length in Hn. unfold all64 in Hn. rewrite map_length, seq_length in Hn.
    pose proof (at_sq_map (at_sq b) (N.of_nat n) ltac:(lia)) as E.
    unfold at_sq in E |- *. rewrite Nat2N.id in E. exact E.
Qed.

(* ================= 2. the tokenizer on visible words ================= *)
Definition vis (w : str) : Prop := Forall (fun c => 33 <= c) w.

Lemma is_space_vis c : 33 <= c -> is_space c = false.
Proof. intros H. unfold is_space. lia. Qed.

Lemma take_word_vis w rest : vis w -> take_word (w ++ 32 :: rest) = (w, 32 :: rest).
Proof.
  induction 1 as [|c w Hc Hw IH]; cbn [app take_word]; [reflexivity|].
  rewrite is_space_vis by exact Hc. rewrite IH. reflexivity.
Qed.

Lemma next_word_vis w rest : w <> [] -> vis w -> next_word (w ++ 32 :: rest) = (Some w, 32 :: rest).
Proof.
  intros Hne Hv. destruct w as [|c w]; [congruence|].
  assert (Hs : skip_ws ((c :: w) ++ 32 :: rest) = (c :: w) ++ 32 :: rest).
  { cbn [app skip_ws]. inversion Hv; subst. rewrite is_space_vis by assumption. reflexivity. }
  unfold next_word. rewrite Hs. cbv zeta. rewrite take_word_vis by exact Hv. reflexivity.
Qed.

Lemma next_word_sp s : next_word (32 :: s) = next_word s.
Proof. reflexivity. Qed.

Lemma vis_app a b : vis a -> vis b -> vis (a ++ b).
Proof. intros Ha Hb. apply Forall_app. split; assumption. Qed.

Lemma str_eqb_eq a : forall b, str_eqb a b = true -> a = b.
Proof.
  induction a as [|x a IH]; intros [|y b] H; cbn [str_eqb] in H; try discriminate; [reflexivity|].
  apply andb_true_iff in H. destruct H as [H1 H2]. apply N.eqb_eq in H1. subst. f_equal. apply IH. exact H2.
Qed.

Lemma not_startpos P rest : str_eqb (P ++ 32 :: rest) startpos_str = false.
Proof.
  destruct (str_eqb (P ++ 32 :: rest) startpos_str) eqn:E; [|reflexivity]. apply str_eqb_eq in E.
  assert (H : In 32 startpos_str) by (rewrite <- E; apply in_or_app; right; left; reflexivity).
  exfalso. unfold startpos_str in H. cbn [In] in H. repeat (destruct H as [H|H]; [discriminate|]). exact H.
Qed.

(* ---- decimal numerals ---- *)
Fixpoint val_be (u : Decimal.uint) (acc : N) : N :=
  match u with
  | Decimal.Nil => acc
  | Decimal.D0 r => val_be r (acc * 10 + 0) | Decimal.D1 r => val_be r (acc * 10 + 1)
  | Decimal.D2 r => val_be r (acc * 10 + 2) | Decimal.D3 r => val_be r (acc * 10 + 3)
  | Decimal.D4 r => val_be r (acc * 10 + 4) | Decimal.D5 r => val_be r (acc * 10 + 5)
  | Decimal.D6 r => val_be r (acc * 10 + 6) | Decimal.D7 r => val_be r (acc * 10 + 7)
  | Decimal.D8 r => val_be r (acc * 10 + 8) | Decimal.D9 r => val_be r (acc * 10 + 9)
  end.
Definition uint_nonnil (u : Decimal.uint) : bool := match u with Decimal.Nil => false | _ => true end.

Lemma digits_val_digit k r acc any : k <= 9 -> digits_val ((48 + k) :: r) acc any = digits_val r (acc * 10 + k) true.
Proof.
  intros H. cbn [digits_val]. replace ((48 <=? 48 + k) && (48 + k <=? 57)) with true by lia.
  replace (48 + k - 48) with k by lia. reflexivity.
Qed.

Lemma digits_val_uint u : forall rest acc any,
  digits_val (digits_of_uint u ++ rest) acc any = digits_val rest (val_be u acc) (any || uint_nonnil u).
Proof.
  induction u; intros rest acc any; cbn [digits_of_uint app val_be uint_nonnil];
    try (rewrite orb_false_r; reflexivity); rewrite orb_true_r.
  - etransitivity; [apply (digits_val_digit 0); lia|]. rewrite IHu. reflexivity.
  - etransitivity; [apply (digits_val_digit 1); lia|]. rewrite IHu. reflexivity.
  - etransitivity; [apply (digits_val_digit 2); lia|]. rewrite IHu. reflexivity.
  - etransitivity; [apply (digits_val_digit 3); lia|]. rewrite IHu. reflexivity.
  - etransitivity; [apply (digits_val_digit 4); lia|]. rewrite IHu. reflexivity.
  - etransitivity; [apply (digits_val_digit 5); lia|]. rewrite IHu. reflexivity.
  - etransitivity; [apply (digits_val_digit 6); lia|]. rewrite IHu. reflexivity.
  - etransitivity; [apply (digits_val_digit 7); lia|]. rewrite IHu. reflexivity.
  - etransitivity; [apply (digits_val_digit 8); lia|]. rewrite IHu. reflexivity.
  - etransitivity; [apply (digits_val_digit 9); lia|]. rewrite IHu. reflexivity.
Qed.

Lemma val_be_of_lu u : forall v, val_be u (DecimalPos.Unsigned.of_lu v) = DecimalPos.Unsigned.of_lu (Decimal.revapp u v).
Proof.
  induction u; intros v; cbn [val_be Decimal.revapp]; try reflexivity;
    rewrite <- IHu; f_equal; cbn [DecimalPos.Unsigned.of_lu]; lia.
Qed.

Lemma val_be_to_uint n : val_be (N.to_uint n) 0 = n.
Proof.
  change 0 with (DecimalPos.Unsigned.of_lu Decimal.Nil). rewrite val_be_of_lu.
  fold (Decimal.rev (N.to_uint n)). rewrite <- DecimalPos.Unsigned.of_uint_alt.
  exact (DecimalN.Unsigned.of_to n).
Qed.

Lemma to_uint_nonnil n : uint_nonnil (N.to_uint n) = true.
Proof.
  destruct n as [|p]; [reflexivity|]. cbn [N.to_uint].
  pose proof (DecimalPos.Unsigned.to_uint_nonnil p) as H. destruct (Pos.to_uint p); [congruence|reflexivity..].
Qed.

Lemma next_number_mid n r : next_number (32 :: dec n ++ 32 :: r) = (Some n, 32 :: r).
Proof.
  unfold next_number. change (skip_ws (32 :: dec n ++ 32 :: r)) with (skip_ws (dec n ++ 32 :: r)).
  assert (Hs : skip_ws (dec n ++ 32 :: r) = dec n ++ 32 :: r).
  { unfold dec. pose proof (to_uint_nonnil n) as H. destruct (N.to_uint n); try discriminate; reflexivity. }
  rewrite Hs. cbv zeta. unfold dec. rewrite digits_val_uint. rewrite val_be_to_uint, to_uint_nonnil. reflexivity.
Qed.

Lemma next_number_end n : next_number (32 :: dec n) = (Some n, []).
Proof.
  unfold next_number. change (skip_ws (32 :: dec n)) with (skip_ws (dec n)).
  assert (Hs : skip_ws (dec n) = dec n).
  { unfold dec. pose proof (to_uint_nonnil n) as H. destruct (N.to_uint n); try discriminate; reflexivity. }
  rewrite Hs. cbv zeta. rewrite <- (app_nil_r (dec n)). unfold dec. rewrite digits_val_uint.
  rewrite val_be_to_uint, to_uint_nonnil. reflexivity.
Qed.

(* ================= 3. the fields of the canonical FEN are visible, non-empty words ================= *)
Lemma char_of_vis s pc : 33 <= char_of s pc.
Proof. destruct s, pc; cbv [char_of]; lia. Qed.

Lemma vis_rank_str cells : forall run, vis (rank_str cells run).
Proof.
  induction cells as [|c r IH]; intros run; cbn [rank_str].
  - destruct (run =? 0); [constructor|]. constructor; [lia|constructor].
  - destruct c as [[s pc]|]; [|apply IH]. apply vis_app.
    + destruct (run =? 0); [constructor|]. constructor; [lia|constructor].
    + constructor; [apply char_of_vis|apply IH].
Qed.

Lemma vis_join l : Forall vis l -> vis (join 47 l).
Proof.
  induction l as [|x r IH]; intros H; [constructor|]. inversion H as [|x' r' Hx Hr]; subst x' r'.
  destruct r as [|y r']; [exact Hx|].
  change (join 47 (x :: y :: r')) with (x ++ 47 :: join 47 (y :: r')).
  apply vis_app; [exact Hx|]. constructor; [lia|]. apply IH. exact Hr.
Qed.

Lemma vis_placement b : vis (placement b).
Proof. unfold placement. apply vis_join. cbn [map]. repeat (constructor; [apply vis_rank_str|]). constructor. Qed.

Lemma placement_nonempty b : placement b <> [].
Proof.
  unfold placement. cbn [map join]. intros H. apply (f_equal (@length N)) in H. rewrite app_length in H. cbn [length] in H. lia.
Qed.

Lemma castling_field_vis dfrc b t wk wq bk bq e h f :
  castling_field dfrc (mkS b t wk wq bk bq e h f) <> [] /\ vis (castling_field dfrc (mkS b t wk wq bk bq e h f)).
Proof.
  destruct dfrc, wk, wq, bk, bq; cbv [castling_field s_wk s_wq s_bk s_bq app];
    (split; [discriminate|repeat (constructor; [lia|]); constructor]).
Qed.

Lemma sq_name_vis e : sq_name e <> [] /\ vis (sq_name e).
Proof. unfold sq_name. split; [discriminate|]. repeat (constructor; [lia|]). constructor. Qed.

(* ---- the en-passant word ---- *)
Ltac Zify.zify_post_hook ::= Z.div_mod_to_equations.

Definition parse_ep (w : str) : N :=
  if negb (str_eqb w [45])
  then sq_of_Z ((Z.of_N (nth 1%nat w 0%N) - 49) * 8 + (Z.of_N (nth 0%nat w 0%N) - 97))%Z
  else OffSq.

Lemma str_eqb_ne45 c r : c <> 45 -> str_eqb (c :: r) [45] = false.
Proof. intros H. cbn [str_eqb]. replace (c =? 45) with false by lia. reflexivity. Qed.

Lemma parse_ep_name e : e < 256 -> parse_ep (sq_name e) = e.
Proof.
  intros H. unfold parse_ep, sq_name. rewrite str_eqb_ne45 by lia. cbn [negb nth].
  replace ((Z.of_N (49 + rankof e) - 49) * 8 + (Z.of_N (97 + fileof e) - 97))%Z with (Z.of_N e)
    by (unfold rankof, fileof; lia).
  apply sq_of_Z_N. exact H.
Qed.

(* ---- the castling word ---- *)
Lemma sq_of_int_small x : x < 256 -> sq_of_int x = x.
Proof. intros H. unfold sq_of_int, u8. change 255 with (N.ones 8). rewrite N.land_ones. apply N.mod_small. exact H. Qed.

Definition letter (dfrc : bool) (s : side) (ks : bool) (q : N) : N :=
  if dfrc then (match s with White => 65 | Black => 97 end) + fileof q
  else match s, ks with White, true => 75 | White, false => 81 | Black, true => 107 | Black, false => 113 end.
Definition ridx (s : side) (ks : bool) : N :=
  match s, ks with White, true => 0 | White, false => 1 | Black, true => 2 | Black, false => 3 end.

Lemma castle_step dfrc b p0 s ks cr q : length b = 64%nat -> rep (brd p0) (at_sq b) ->
  right_ok b s ks dfrc (Some q) = true ->
  castle_char dfrc (king_position p0 White) (king_position p0 Black) (pieces p0 White Rook) (pieces p0 Black Rook) cr
              (letter dfrc s ks q) = cr_grant cr (ridx s ks) q.
Proof.
  intros Hl Hrep H. unfold right_ok in H. destruct (find_king b s) as [k|] eqn:Ek; [|discriminate].
  cbv zeta in H.
  apply andb_true_iff in H; destruct H as [H He]. apply andb_true_iff in H; destruct H as [H Hd].
  apply andb_true_iff in H; destruct H as [H Hc]. apply andb_true_iff in H; destruct H as [Ha Hb].
  destruct (at_sq b q) as [[c pc]|] eqn:Eq; [|discriminate]. destruct pc; try discriminate.
  apply side_eqb_true in Hc. subst c.
  assert (Hk : king_position p0 s = k /\ k < 64 /\ at_sq b k = Some (s, King)).
  { apply king_position_exact; [exact Hrep|]. unfold board_of. rewrite map_at_sq by exact Hl. exact Ek. }
  destruct Hk as (Hk & Hk64 & _).
  unfold rankof, fileof in *.
  assert (Hq64 : q < 64) by (destruct s; lia).
  assert (Hrook : bb_get (pieces p0 s Rook) q = true).
  { rewrite bb_get_spec. unfold mem. rewrite (pieces_rep p0 (at_sq b) s Rook q Hrep Hq64) by discriminate.
    rewrite Eq, side_eqb_refl. reflexivity. }
  destruct dfrc.
  - (* Shredder letters *)
    destruct s; cbv beta iota delta [letter ridx]; unfold castle_char; cbv zeta; unfold sq_file, fileof.
    + assert (E1 : (65 <=? 65 + q mod 8) && (65 + q mod 8 <=? 72) = true) by lia.
      assert (E2 : sq_of_int (65 + q mod 8 - 65) = q) by (rewrite sq_of_int_small by lia; lia).
      rewrite E1, E2, Hk, Hrook.
      destruct ks; [rewrite Hd|replace (k mod 8 <? q mod 8) with false by lia]; reflexivity.
    + assert (E0 : (65 <=? 97 + q mod 8) && (97 + q mod 8 <=? 72) = false) by lia.
      assert (E1 : (97 <=? 97 + q mod 8) && (97 + q mod 8 <=? 104) = true) by lia.
      assert (E2 : sq_of_int (56 + (97 + q mod 8) - 97) = q) by (rewrite sq_of_int_small by lia; lia).
      rewrite E0, E1, E2, Hk, Hrook.
      destruct ks; [rewrite Hd|replace (k mod 8 <? q mod 8) with false by lia]; reflexivity.
  - (* KQkq *)
    destruct s, ks; cbv beta iota delta [letter ridx]; unfold castle_char.
    + assert (q = 7) by lia. subst q. rewrite Hrook. reflexivity.
    + assert (q = 0) by lia. subst q. rewrite Hrook. reflexivity.
    + assert (q = 63) by lia. subst q. rewrite Hrook. reflexivity.
    + assert (q = 56) by lia. subst q. rewrite Hrook. reflexivity.
Qed.

Definition parse_cr (dfrc : bool) (bd : board) (a0 a1 a2 a3 : N) (tm : side) (C : str) : crights :=
  let p0 := mkPos bd 0 0 OffSq 0 false false false false a0 a1 a2 a3 tm [] in
  let cr0 := mkCR false false false false a0 a1 a2 a3 in
  if negb (str_eqb C [45]) then
    fold_left (castle_char dfrc (king_position p0 White) (king_position p0 Black) (pieces p0 White Rook) (pieces p0 Black Rook)) C cr0
  else cr0.

Lemma castle_field_parse dfrc b bd a0 a1 a2 a3 tm t wk wq bk bq e h f :
  length b = 64%nat -> rep bd (at_sq b) ->
  right_ok b White true dfrc wk = true -> right_ok b White false dfrc wq = true ->
  right_ok b Black true dfrc bk = true -> right_ok b Black false dfrc bq = true ->
  let cr := parse_cr dfrc bd a0 a1 a2 a3 tm (castling_field dfrc (mkS b t wk wq bk bq e h f)) in
  (if k0 cr then Some (q0 cr) else None) = wk /\ (if k1 cr then Some (q1 cr) else None) = wq /\
  (if k2 cr then Some (q2 cr) else None) = bk /\ (if k3 cr then Some (q3 cr) else None) = bq.
Proof.
  intros Hl Hrep H0 H1 H2 H3. cbv zeta. unfold parse_cr.
  set (p0 := mkPos bd 0 0 OffSq 0 false false false false a0 a1 a2 a3 tm []).
  assert (S : forall s ks cr q, right_ok b s ks dfrc (Some q) = true ->
     castle_char dfrc (king_position p0 White) (king_position p0 Black) (pieces p0 White Rook) (pieces p0 Black Rook) cr
              (letter dfrc s ks q) = cr_grant cr (ridx s ks) q).
  { intros s ks cr q H. apply (castle_step dfrc b p0 s ks cr q Hl Hrep H). }
  pose proof (S White true) as S0. pose proof (S White false) as S1.
  pose proof (S Black true) as S2. pose proof (S Black false) as S3. clear S.
  destruct dfrc; cbv beta iota delta [letter ridx] in S0, S1, S2, S3;
  destruct wk, wq, bk, bq; cbv [castling_field s_wk s_wq s_bk s_bq app];
    try (rewrite str_eqb_ne45 by lia); cbn [negb fold_left str_eqb N.eqb Pos.eqb andb];
    try rewrite (S0 _ _ H0); try rewrite (S1 _ _ H1); try rewrite (S2 _ _ H2); try rewrite (S3 _ _ H3);
    cbn [cr_grant k0 k1 k2 k3 q0 q1 q2 q3]; repeat split; reflexivity.
Qed.

(* ================= 4. set_fen on a six-field string ================= *)
Section Decode.
Variable K : zkeys.

Lemma set_fen_body_six old P T C E h f dfrc :
  P <> [] -> vis P -> T <> [] -> vis T -> C <> [] -> vis C -> E <> [] -> vis E ->
  set_fen_body K old (P ++ 32 :: T ++ 32 :: C ++ 32 :: E ++ 32 :: dec h ++ 32 :: dec f) dfrc =
  let bd := place P 56%Z empty_board in
  let tm := if str_eqb T [119] then White else Black in
  let cr := parse_cr dfrc bd (r0 old) (r1 old) (r2 old) (r3 old) tm C in
  let e := parse_ep E in
  let p1 := mkPos bd h f e 0 (k0 cr) (k1 cr) (k2 cr) (k3 cr) (q0 cr) (q1 cr) (q2 cr) (q3 cr) tm [] in
  mkPos bd h f e (calculate_hash K p1) (k0 cr) (k1 cr) (k2 cr) (k3 cr) (q0 cr) (q1 cr) (q2 cr) (q3 cr) tm [].
Proof.
  intros HP HP' HT HT' HC HC' HE HE'. unfold set_fen_body.
  rewrite (next_word_vis P _ HP HP'). cbv beta iota zeta.
  rewrite next_word_sp, (next_word_vis T _ HT HT'). cbv beta iota zeta.
  rewrite next_word_sp, (next_word_vis C _ HC HC'). cbv beta iota zeta.
  rewrite next_word_sp, (next_word_vis E _ HE HE'). cbv beta iota zeta.
  rewrite next_number_mid. cbv beta iota zeta.
  rewrite next_number_end. cbv beta iota zeta.
  reflexivity.
Qed.

Lemma abs_mkPos bd h f e hs c0' c1' c2' c3' a0 a1 a2 a3 tm hist :
  abs (mkPos bd h f e hs c0' c1' c2' c3' a0 a1 a2 a3 tm hist) =
  mkS (abs_board (mkPos bd h f e hs c0' c1' c2' c3' a0 a1 a2 a3 tm hist)) tm
      (if c0' then Some a0 else None) (if c1' then Some a1 else None)
      (if c2' then Some a2 else None) (if c3' then Some a3 else None)
      (if e =? OffSq then None else Some e) h f.
Proof. reflexivity. Qed.

(* the well-formedness the decoder needs of a specification position *)
Definition fen_ok (dfrc : bool) (s : spos) : Prop :=
  length (s_board s) = 64%nat /\
  (forall x, x < 64 -> no_ghost (at_sq (s_board s) x)) /\
  right_ok (s_board s) White true dfrc (s_wk s) = true /\ right_ok (s_board s) White false dfrc (s_wq s) = true /\
  right_ok (s_board s) Black true dfrc (s_bk s) = true /\ right_ok (s_board s) Black false dfrc (s_bq s) = true /\
  (forall e, s_ep s = Some e -> e < 255).

Theorem set_fen_fen_of dfrc s : fen_ok dfrc s ->
  abs (set_fen K (fen_of dfrc s) dfrc) = s /\ wf (set_fen K (fen_of dfrc s) dfrc) = true.
Proof.
  destruct s as [b t wk wq bk bq e h f]. unfold fen_ok. cbn [s_board s_wk s_wq s_bk s_bq s_ep].
  intros (Hl & Hng & H0 & H1 & H2 & H3 & He).
  pose proof (place_board b Hng) as Hrep.
  set (T := match t with White => [119] | Black => [98] end).
  set (C := castling_field dfrc (mkS b t wk wq bk bq e h f)).
  set (E := match e with Some x => sq_name x | None => [45] end).
  assert (Efen : fen_of dfrc (mkS b t wk wq bk bq e h f) =
                 placement b ++ 32 :: T ++ 32 :: C ++ 32 :: E ++ 32 :: dec h ++ 32 :: dec f) by reflexivity.
  assert (HT : T <> [] /\ vis T).
  { unfold T. destruct t; (split; [discriminate|constructor; [lia|constructor]]). }
  assert (HC : C <> [] /\ vis C) by apply castling_field_vis.
  assert (HE : E <> [] /\ vis E).
  { unfold E. destruct e; [apply sq_name_vis|]. split; [discriminate|constructor; [lia|constructor]]. }
  unfold set_fen, set_fen_on. rewrite Efen, not_startpos.
  rewrite set_fen_body_six by (try apply placement_nonempty; try apply vis_placement; tauto).
  cbv zeta.
  set (bd := place (placement b) 56%Z empty_board) in *.
  set (tm := if str_eqb T [119] then White else Black).
  destruct (castle_field_parse dfrc b bd (r0 fresh_position) (r1 fresh_position) (r2 fresh_position) (r3 fresh_position)
              tm t wk wq bk bq e h f Hl Hrep H0 H1 H2 H3) as (C0 & C1 & C2 & C3).
  fold C in C0, C1, C2, C3.
  split.
  - rewrite abs_mkPos, C0, C1, C2, C3. f_equal.
    + rewrite (abs_board_rep _ (at_sq b)) by exact Hrep. apply map_at_sq. exact Hl.
    + unfold tm, T. destruct t; reflexivity.
    + unfold E. destruct e as [x|]; [|reflexivity].
      specialize (He x eq_refl). rewrite parse_ep_name by lia. replace (x =? OffSq) with false by (unfold OffSq; lia). reflexivity.
  - unfold wf. cbn [brd]. apply (rep_wf _ _ Hrep).
Qed.
End Decode.

(* ================= 5. the round trip (C07) ================= *)
Lemma abs_board_no_ghost p x : x < 64 -> no_ghost (at_sq (abs_board p) x).
Proof. intros H. rewrite at_sq_abs_board by exact H. unfold cell_of. destruct (piece_on p x); exact I. Qed.

Lemma abs_board_length p : length (abs_board p) = 64%nat.
Proof. unfold abs_board. rewrite map_length. unfold all64. rewrite map_length, seq_length. reflexivity. Qed.

Lemma lc_fen_ok dfrc s : legal_consistent dfrc s = true -> (forall x, x < 64 -> no_ghost (at_sq (s_board s) x)) -> fen_ok dfrc s.
Proof.
  intros H Hng. destruct (lc_parts dfrc s H) as (H0 & H1 & H2 & H3 & He).
  unfold legal_consistent in H. cbv zeta in H.
  repeat (apply andb_true_iff in H; destruct H as [H ?]).
  unfold fen_ok. repeat split; try assumption.
  - apply Nat.eqb_eq. exact H.
  - intros e Ee. unfold ep_ok in He. rewrite Ee in He. cbv zeta in He.
    repeat (apply andb_true_iff in He; destruct He as [He ?]). lia.
Qed.

(* for model positions the hypothesis on cells is automatic *)
Lemma lc_abs_fen_ok dfrc p : legal_consistent dfrc (abs p) = true -> fen_ok dfrc (abs p).
Proof. intros H. apply lc_fen_ok; [exact H|]. intros x Hx. apply abs_board_no_ghost. exact Hx. Qed.

Section RoundTrip.
Variable K : zkeys.

(* MAIN THEOREM.  Neither wf p nor rooks_ok p is needed: abs p never has ghost cells and always has 64 cells. *)
Theorem fen_round_trip dfrc p : legal_consistent dfrc (abs p) = true ->
  let q := set_fen K (get_fen p dfrc) dfrc in
  abs q = abs p /\ wf q = true /\ hash q = calculate_hash K q /\ history q = [] /\ get_fen q dfrc = get_fen p dfrc.
Proof.
  intros H. cbv zeta. rewrite (get_fen_encodes p dfrc).
  destruct (set_fen_fen_of K dfrc (abs p) (lc_abs_fen_ok dfrc p H)) as [Ha Hw].
  split; [exact Ha|]. split; [exact Hw|]. split; [exact (set_fen_hash_ok K fresh_position (fen_of dfrc (abs p)) dfrc)|]. split; [exact (set_fen_history_empty K fresh_position (fen_of dfrc (abs p)) dfrc)|].
  rewrite (get_fen_encodes (set_fen K (fen_of dfrc (abs p)) dfrc) dfrc), Ha. reflexivity.
Qed.

(* the same under the weakest hypotheses the proof uses *)
Theorem fen_round_trip_weak dfrc p : fen_ok dfrc (abs p) ->
  let q := set_fen K (get_fen p dfrc) dfrc in
  abs q = abs p /\ wf q = true /\ hash q = calculate_hash K q /\ history q = [] /\ get_fen q dfrc = get_fen p dfrc.
Proof.
  intros H. cbv zeta. rewrite (get_fen_encodes p dfrc).
  destruct (set_fen_fen_of K dfrc (abs p) H) as [Ha Hw].
  split; [exact Ha|]. split; [exact Hw|]. split; [exact (set_fen_hash_ok K fresh_position (fen_of dfrc (abs p)) dfrc)|]. split; [exact (set_fen_history_empty K fresh_position (fen_of dfrc (abs p)) dfrc)|].
  rewrite (get_fen_encodes (set_fen K (fen_of dfrc (abs p)) dfrc) dfrc), Ha. reflexivity.
Qed.

(* ---- field by field: "observably identical apart from the move history" ---- *)
Lemma rep_inj b b' f : rep b f -> rep b' f -> b = b'.
Proof.
  intros [H Hlt] [H' Hlt']. apply board_ext.
  - intros s. apply N.bits_inj. intros i. destruct (N.lt_ge_cases i 64) as [Hi|Hi].
    + destruct (H i Hi) as [[Hc _] _]. destruct (H' i Hi) as [[Hc' _] _]. rewrite Hc, Hc'. reflexivity.
    + pose proof (proj1 (lt64_iff _) (colour_lt b s Hlt) i Hi) as E. pose proof (proj1 (lt64_iff _) (colour_lt b' s Hlt') i Hi) as E'.
      rewrite E, E'. reflexivity.
  - intros pc Hpc. apply N.bits_inj. intros i. destruct (N.lt_ge_cases i 64) as [Hi|Hi].
    + destruct (H i Hi) as [[_ Hp] _]. destruct (H' i Hi) as [[_ Hp'] _]. rewrite Hp, Hp' by exact Hpc. reflexivity.
    + pose proof (proj1 (lt64_iff _) (pcs_lt b pc Hlt) i Hi) as E. pose proof (proj1 (lt64_iff _) (pcs_lt b' pc Hlt') i Hi) as E'.
      rewrite E, E'. reflexivity.
Qed.

Lemma abs_board_inj p q : wf p = true -> wf q = true -> abs_board q = abs_board p -> brd q = brd p.
Proof.
  intros Hp Hq E. apply (rep_inj _ _ (cell_of_b (brd p))); [|apply wf_rep; exact Hp].
  apply (rep_ext _ _ _ (wf_rep _ Hq)). intros x Hx.
  rewrite <- !cell_of_eq, <- !at_sq_abs_board by exact Hx. rewrite E. reflexivity.
Qed.

Lemma right_inj (c c' : bool) (r r' : N) :
  (if c' then Some r' else None) = (if c then Some r else None) -> c' = c /\ (c = true -> r' = r).
Proof. destruct c, c'; intros H; try discriminate; split; try reflexivity; intros; congruence. Qed.

Lemma calculate_hash_ext p q : brd q = brd p -> to_move q = to_move p -> c0 q = c0 p -> c1 q = c1 p -> c2 q = c2 p -> c3 q = c3 p ->
  ep q = ep p -> calculate_hash K q = calculate_hash K p.
Proof.
  destruct p as [pb ph pf pe phs pc0 pc1 pc2 pc3 pr0 pr1 pr2 pr3 pt phi], q as [qb qh qf qe qhs qc0 qc1 qc2 qc3 qr0 qr1 qr2 qr3 qt qhi]. cbn [brd to_move c0 c1 c2 c3 ep]. intros; subst. reflexivity.
Qed.

Lemma obs_of_abs p q : wf p = true -> wf q = true -> abs q = abs p ->
  hash p = calculate_hash K p -> hash q = calculate_hash K q ->
  brd q = brd p /\ to_move q = to_move p /\
  c0 q = c0 p /\ c1 q = c1 p /\ c2 q = c2 p /\ c3 q = c3 p /\
  (c0 p = true -> r0 q = r0 p) /\ (c1 p = true -> r1 q = r1 p) /\ (c2 p = true -> r2 q = r2 p) /\ (c3 p = true -> r3 q = r3 p) /\
  ep q = ep p /\ halfmove q = halfmove p /\ fullmove q = fullmove p /\ hash q = hash p.
Proof.
  intros Hwf Hw Ha Hh Hq.
  assert (Eb : abs_board q = abs_board p) by exact (f_equal s_board Ha).
  assert (Et : to_move q = to_move p) by exact (f_equal s_turn Ha).
  assert (E0 : (if c0 q then Some (r0 q) else None) = (if c0 p then Some (r0 p) else None)) by exact (f_equal s_wk Ha).
  assert (E1 : (if c1 q then Some (r1 q) else None) = (if c1 p then Some (r1 p) else None)) by exact (f_equal s_wq Ha).
  assert (E2 : (if c2 q then Some (r2 q) else None) = (if c2 p then Some (r2 p) else None)) by exact (f_equal s_bk Ha).
  assert (E3 : (if c3 q then Some (r3 q) else None) = (if c3 p then Some (r3 p) else None)) by exact (f_equal s_bq Ha).
  assert (Ee : (if ep q =? OffSq then None else Some (ep q)) = (if ep p =? OffSq then None else Some (ep p))) by exact (f_equal s_ep Ha).
  assert (Ehm : halfmove q = halfmove p) by exact (f_equal s_half Ha).
  assert (Efm : fullmove q = fullmove p) by exact (f_equal s_full Ha).
  clear Ha.
  apply right_inj in E0, E1, E2, E3. destruct E0 as [E0 F0], E1 as [E1 F1], E2 as [E2 F2], E3 as [E3 F3].
  assert (Eep : ep q = ep p).
  { destruct (N.eqb_spec (ep q) OffSq) as [A|A], (N.eqb_spec (ep p) OffSq) as [B|B]; congruence. }
  assert (Ebrd : brd q = brd p) by (apply abs_board_inj; assumption).
  repeat split; try assumption.
  rewrite Hq, Hh. apply calculate_hash_ext; assumption.
Qed.

Theorem fen_round_trip_obs dfrc p : wf p = true -> hash p = calculate_hash K p -> legal_consistent dfrc (abs p) = true ->
  let q := set_fen K (get_fen p dfrc) dfrc in
  (brd q = brd p /\ to_move q = to_move p /\
   c0 q = c0 p /\ c1 q = c1 p /\ c2 q = c2 p /\ c3 q = c3 p /\
   (c0 p = true -> r0 q = r0 p) /\ (c1 p = true -> r1 q = r1 p) /\ (c2 p = true -> r2 q = r2 p) /\ (c3 p = true -> r3 q = r3 p) /\
   ep q = ep p /\ halfmove q = halfmove p /\ fullmove q = fullmove p /\ hash q = hash p) /\ history q = [].
Proof.
  intros Hwf Hh Hlc. destruct (fen_round_trip dfrc p Hlc) as (Ha & Hw & Hq & Hhist & _). cbv zeta.
  split; [|exact Hhist]. apply obs_of_abs; assumption.
Qed.
End RoundTrip.


(* ================= 6. agreement with the specification decoder (C06, decoding clause) ================= *)
Ltac deep c := destruct c as [|c]; [try reflexivity|]; do 7 (try (destruct c as [c|c|]; try reflexivity)).

Lemma piece_cell_char c : piece_of_char c = cell_of_char c.
Proof. deep c. Qed.
Lemma cell_of_char_no_ghost c : no_ghost (cell_of_char c).
Proof. destruct c as [|c]; [exact I|]; do 7 (try (destruct c as [c|c|]; try exact I)). Qed.
Lemma dash_match (cs : sstr) : (match cs with [45] => true | _ => false end) = str_eqb cs [45].
Proof. destruct cs as [|c [|d r]]; try reflexivity; deep c. Qed.
Lemma turn_match (tm : sstr) : (match tm with [119] => White | _ => Black end) = if str_eqb tm [119] then White else Black.
Proof. destruct tm as [|c [|d r]]; try reflexivity; deep c. Qed.
Lemma ep_match c0 c1 :
  (match [c0; c1] with [45] => None | [a; b] => Some (mk_sq (a - 97) (b - 49)) | _ => None end) = Some (mk_sq (c0 - 97) (c1 - 49)).
Proof. deep c0. Qed.
Lemma cr_grant_over cr i a b : cr_grant (cr_grant cr i a) i b = cr_grant cr i b.
Proof. destruct i as [|[p|[p|p|]|]]; reflexivity. Qed.

(* ---- placement: arbitrary rank words made of piece letters and digits 1..8 ---- *)
Definition rank_char_ok (c : N) : Prop := cell_of_char c <> None \/ (49 <= c /\ c <= 56).
Definition rank_ok (w : sstr) : Prop := Forall rank_char_ok w /\ length (expand_rank w) = 8%nat.

Lemma cell_of_char_range c : cell_of_char c <> None -> 65 <= c.
Proof.
  unfold cell_of_char. destruct ((65 <=? c) && (c <=? 90)) eqn:E1; [lia|].
  destruct ((97 <=? c) && (c <=? 122)) eqn:E2; [lia|]. congruence.
Qed.
Lemma cell_of_char_digit c : 49 <= c -> c <= 56 -> cell_of_char c = None.
Proof.
  intros H1 H2. unfold cell_of_char. replace ((65 <=? c) && (c <=? 90)) with false by lia.
  replace ((97 <=? c) && (c <=? 122)) with false by lia. reflexivity.
Qed.

Lemma fill_app a : forall bd q c, fill bd q (a ++ c) = fill (fill bd q a) (q + N.of_nat (length a)) c.
Proof.
  induction a as [|x a IH]; intros bd q c; cbn [app fill length].
  - f_equal. lia.
  - destruct x as [[s pc]|]; rewrite IH; f_equal; lia.
Qed.
Lemma fill_repeat_none n : forall bd q, fill bd q (repeat None n) = bd.
Proof. induction n as [|n IH]; intros bd q; cbn [repeat fill]; [reflexivity|apply IH]. Qed.

Lemma place_st_rank w : forall q bd, Forall rank_char_ok w -> q + N.of_nat (length (expand_rank w)) <= 256 ->
  place_st w (Z.of_N q) bd = (Z.of_N (q + N.of_nat (length (expand_rank w))), fill bd q (expand_rank w)).
Proof.
  induction w as [|c w IH]; intros q bd Hok Hq.
  - cbn [place_st expand_rank flat_map length fill]. f_equal. f_equal. lia.
  - inversion Hok as [|c' w' Hc Hw]; subst c' w'.
    change (expand_rank (c :: w)) with ((if (49 <=? c) && (c <=? 56) then repeat None (N.to_nat (c - 48)) else [cell_of_char c]) ++ expand_rank w) in *.
    rewrite app_length in *. rewrite fill_app.
    cbn [place_st]. rewrite piece_cell_char. unfold cell in *.
    destruct Hc as [Hc|[Hc1 Hc2]].
    + pose proof (cell_of_char_range c Hc) as H65.
      replace ((49 <=? c) && (c <=? 56)) with false in * by lia.
      destruct (cell_of_char c) as [[s pc]|] eqn:Ec; [|congruence].
      cbn [length fill] in *. unfold cell in *.
      replace (Z.of_N q + 1)%Z with (Z.of_N (q + 1)) by lia. rewrite sq_of_Z_N by lia.
      rewrite IH by (try exact Hw; lia). f_equal. f_equal. lia.
    + rewrite cell_of_char_digit by assumption.
      replace ((49 <=? c) && (c <=? 56)) with true in * by lia.
      rewrite repeat_length in *. rewrite fill_repeat_none.
      replace (Z.of_N q + Z.of_N (c - 49) + 1)%Z with (Z.of_N (q + N.of_nat (N.to_nat (c - 48)))) by lia.
      rewrite IH by (try exact Hw; lia). f_equal. f_equal. lia.
Qed.

Lemma place_rank_gen (f : mb) r w E rest bd : r < 8 -> (forall x, x < 64 -> no_ghost (f x)) ->
  length E = 8%nat -> (forall k, (k < 8)%nat -> nth k E None = f (8 * r + N.of_nat k)) ->
  (forall bd0, place_st w (Z.of_N (8 * r)) bd0 = (Z.of_N (8 * r + 8), fill bd0 (8 * r) E)) ->
  rep bd (mask (fun x => 8 * (r + 1) <=? x) f) ->
  exists bd', place (w ++ rest) (Z.of_N (8 * r)) bd = place rest (Z.of_N (8 * r + 8)) bd' /\
              rep bd' (mask (fun x => 8 * r <=? x) f).
Proof.
  intros Hr Hng Hl Hnth Hst Hrep. rewrite place_app, Hst. cbn [fst snd].
  exists (fill bd (8 * r) E). split; [reflexivity|].
  eapply rep_ext.
  - apply (fill_rep f Hng E bd (8 * r) (fun x => 8 * (r + 1) <=? x)).
    + exact Hrep.
    + rewrite Hl. lia.
    + rewrite Hl. exact Hnth.
    + rewrite Hl. intros x H1 H2. lia.
  - intros x Hx. unfold mask. rewrite Hl.
    replace ((8 * (r + 1) <=? x) || ((8 * r <=? x) && (x <? 8 * r + N.of_nat 8))) with (8 * r <=? x) by lia.
    reflexivity.
Qed.

Lemma nth_concat8 (L : list (list cell)) : Forall (fun E => length E = 8%nat) L ->
  forall r k, (k < 8)%nat -> nth (8 * r + k) (concat L) None = nth k (nth r L []) None.
Proof.
  induction 1 as [|E L HE HL IH]; intros r k Hk.
  - cbn [concat]. destruct r, k; destruct (8 * _ + _)%nat; reflexivity.
  - cbn [concat]. destruct r as [|r].
    + cbn [nth]. rewrite Nat.mul_0_r, Nat.add_0_l. apply app_nth1. lia.
    + cbn [nth]. replace (8 * S r + k)%nat with (length E + (8 * r + k))%nat by lia.
      rewrite app_nth2_plus. apply IH. exact Hk.
Qed.

Lemma expand_rank_no_ghost w : Forall no_ghost (expand_rank w).
Proof.
  induction w as [|c w IH]; [constructor|].
  change (expand_rank (c :: w)) with ((if (49 <=? c) && (c <=? 56) then repeat None (N.to_nat (c - 48)) else [cell_of_char c]) ++ expand_rank w).
  apply Forall_app. split; [|exact IH].
  destruct ((49 <=? c) && (c <=? 56)).
  - apply Forall_forall. intros x Hx. apply repeat_spec in Hx. subst. exact I.
  - constructor; [apply cell_of_char_no_ghost|constructor].
Qed.

Lemma at_sq_no_ghost b x : Forall no_ghost b -> no_ghost (at_sq b x).
Proof.
  intros H. unfold at_sq. destruct (nth_in_or_default (N.to_nat x) b None) as [Hin|E]; [|rewrite E; exact I].
  rewrite Forall_forall in H. apply H. exact Hin.
Qed.

Definition board_of_ranks (ranks : list sstr) : sboard := flat_map expand_rank (rev ranks).

Theorem place_board_gen ranks : length ranks = 8%nat -> Forall rank_ok ranks ->
  rep (place (join 47 ranks) 56%Z empty_board) (at_sq (board_of_ranks ranks)) /\ length (board_of_ranks ranks) = 64%nat.
Proof.
  intros Hlen Hok.
  destruct ranks as [|w7 [|w6 [|w5 [|w4 [|w3 [|w2 [|w1 [|w0 [|w8 r]]]]]]]]]; try discriminate. clear Hlen.
  repeat match goal with H : Forall rank_ok (_ :: _) |- _ => inversion H; clear H; subst end.
  repeat match goal with H : rank_ok _ |- _ => destruct H end.
  set (b := board_of_ranks [w7; w6; w5; w4; w3; w2; w1; w0]).
  assert (Eb : b = concat [expand_rank w0; expand_rank w1; expand_rank w2; expand_rank w3; expand_rank w4; expand_rank w5; expand_rank w6; expand_rank w7]).
  { unfold b, board_of_ranks. rewrite flat_map_concat_map. reflexivity. }
  assert (HL : Forall (fun E => length E = 8%nat) [expand_rank w0; expand_rank w1; expand_rank w2; expand_rank w3; expand_rank w4; expand_rank w5; expand_rank w6; expand_rank w7])
    by (repeat (constructor; [assumption|]); constructor).
  assert (Hlb : length b = 64%nat).
  { rewrite Eb. cbn [concat]. rewrite !app_length. cbn [length]. lia. }
  split; [|exact Hlb].
  assert (Hng : forall x, x < 64 -> no_ghost (at_sq b x)).
  { intros x _. apply at_sq_no_ghost. unfold b, board_of_ranks. apply Forall_forall. intros c Hc.
    apply in_flat_map in Hc. destruct Hc as [w [_ Hc]]. pose proof (expand_rank_no_ghost w) as G. rewrite Forall_forall in G. apply G. exact Hc. }
  assert (Hnth : forall (r : nat) k, (k < 8)%nat -> at_sq b (8 * N.of_nat r + N.of_nat k) = nth k (nth r [expand_rank w0; expand_rank w1; expand_rank w2; expand_rank w3; expand_rank w4; expand_rank w5; expand_rank w6; expand_rank w7] []) None).
  { intros r k Hk. unfold at_sq. rewrite Eb. replace (N.to_nat (8 * N.of_nat r + N.of_nat k)) with (8 * r + k)%nat by lia.
    apply nth_concat8; assumption. }
  assert (Hst : forall w q, Forall rank_char_ok w -> length (expand_rank w) = 8%nat -> q <= 56 ->
                 forall bd0, place_st w (Z.of_N q) bd0 = (Z.of_N (q + 8), fill bd0 q (expand_rank w))).
  { intros w q Hw Hl Hq bd0. rewrite place_st_rank by (try exact Hw; rewrite Hl; lia). rewrite Hl. reflexivity. }
  cbn [join].
  assert (Hm : rep empty_board (mask (fun x => 8 * (7 + 1) <=? x) (at_sq b))).
  { apply (rep_ext _ _ _ rep_empty). intros x Hx. unfold mask. replace (8 * (7 + 1) <=? x) with false by lia. reflexivity. }
  change 56%Z with (Z.of_N (8 * 7)).
  Local Ltac rank_step_gen H Hng Hnth Hst rr :=
    match goal with |- rep (place (?w ++ ?rest) (Z.of_N (8 * ?r)) ?bd) (at_sq ?b) =>
      let bd' := fresh "bd" in let E := fresh "E" in let H' := fresh "H" in
      destruct (place_rank_gen (at_sq b) r w (expand_rank w) rest bd ltac:(lia) Hng ltac:(assumption)
                  (fun k Hk => eq_sym (Hnth rr k Hk)) (Hst w (8 * r) ltac:(assumption) ltac:(assumption) ltac:(lia)) H) as [bd' [E H']];
      rewrite E; clear E H; rename H' into H
    end.
  rank_step_gen Hm Hng Hnth Hst 7%nat. rewrite place_slash. change (Z.of_N (8 * 7 + 8) - 16)%Z with (Z.of_N (8 * 6)).
  rank_step_gen Hm Hng Hnth Hst 6%nat. rewrite place_slash. change (Z.of_N (8 * 6 + 8) - 16)%Z with (Z.of_N (8 * 5)).
  rank_step_gen Hm Hng Hnth Hst 5%nat. rewrite place_slash. change (Z.of_N (8 * 5 + 8) - 16)%Z with (Z.of_N (8 * 4)).
  rank_step_gen Hm Hng Hnth Hst 4%nat. rewrite place_slash. change (Z.of_N (8 * 4 + 8) - 16)%Z with (Z.of_N (8 * 3)).
  rank_step_gen Hm Hng Hnth Hst 3%nat. rewrite place_slash. change (Z.of_N (8 * 3 + 8) - 16)%Z with (Z.of_N (8 * 2)).
  rank_step_gen Hm Hng Hnth Hst 2%nat. rewrite place_slash. change (Z.of_N (8 * 2 + 8) - 16)%Z with (Z.of_N (8 * 1)).
  rank_step_gen Hm Hng Hnth Hst 1%nat. rewrite place_slash. change (Z.of_N (8 * 1 + 8) - 16)%Z with (Z.of_N (8 * 0)).
  rewrite <- (app_nil_r w0).
  rank_step_gen Hm Hng Hnth Hst 0%nat. cbn [place].
  apply (rep_ext _ _ _ Hm). intros x Hx. unfold mask. replace (8 * 0 <=? x) with true by lia. reflexivity.
Qed.

(* ---- castling: the X-FEN scan visits the squares beside the king outwards ---- *)
Lemma bit_nonempty sq : sq < 64 -> bb_nonempty (bit sq) = true.
Proof.
  intros H. rewrite <- (N.land_diag (bit sq)). rewrite nonempty_land_bit by exact H.
  rewrite bit_spec by exact H. apply N.eqb_refl.
Qed.

Lemma bb_lsb_bit_sweep : forallb (fun q => bb_lsb (bit q) =? q) all64 = true.
Proof. vm_compute. reflexivity. Qed.
Lemma bb_lsb_land_bit rooks q : q < 64 -> N.testbit rooks q = true -> bb_lsb (N.land rooks (bit q)) = q.
Proof.
  intros Hq T. assert (E : N.land rooks (bit q) = bit q).
  { apply N.bits_inj. intros i. rewrite N.land_spec, bit_spec by exact Hq.
    destruct (N.eqb_spec i q) as [->|]; [rewrite T; reflexivity|apply andb_false_r]. }
  rewrite E. apply N.eqb_eq. exact (forallb_all64 _ bb_lsb_bit_sweep q Hq).
Qed.

Fixpoint walk (next : N -> N) (n : nat) (sq : N) : list N :=
  match n with O => [] | S m => next sq :: walk next m (next sq) end.

Section Walk.
Variables (step : N -> N) (next : N -> N) (room : N -> nat).
Hypothesis step_go : forall sq m, sq < 64 -> room sq = S m -> step (bit sq) = bit (next sq) /\ next sq < 64 /\ room (next sq) = m.
Hypothesis step_stop : forall sq, sq < 64 -> room sq = 0%nat -> step (bit sq) = 0.

Lemma scan_rooks_walk rooks i : forall n fuel sq cr, sq < 64 -> room sq = n -> (n < fuel)%nat ->
  scan_rooks fuel step (bit sq) rooks i cr =
  fold_left (fun cr q => if N.testbit rooks q then cr_grant cr i q else cr) (walk next n sq) cr.
Proof.
  induction n as [|m IH]; intros fuel sq cr Hsq Hroom Hfuel; (destruct fuel as [|f]; [lia|]); cbn [scan_rooks walk fold_left].
  - rewrite bit_nonempty by exact Hsq. rewrite (step_stop sq Hsq Hroom).
    change (N.land 0 rooks) with 0. change (bb_nonempty 0) with false. cbv iota. destruct f; reflexivity.
  - destruct (step_go sq m Hsq Hroom) as (E & Hn & Hr). rewrite bit_nonempty by exact Hsq. rewrite E.
    rewrite (N.land_comm (bit (next sq)) rooks). rewrite nonempty_land_bit by exact Hn.
    rewrite IH by (assumption || lia). f_equal.
    destruct (N.testbit rooks (next sq)) eqn:T; [|reflexivity]. rewrite bb_lsb_land_bit by assumption. reflexivity.
Qed.
End Walk.

Definition room_e (sq : N) : nat := N.to_nat (7 - sq mod 8).
Definition room_w (sq : N) : nat := N.to_nat (sq mod 8).

Lemma east_bit_sweep : forallb (fun sq => east (bit sq) =? (if sq mod 8 =? 7 then 0 else bit (sq + 1))) all64 = true.
Proof. vm_compute. reflexivity. Qed.
Lemma west_bit_sweep : forallb (fun sq => west (bit sq) =? (if sq mod 8 =? 0 then 0 else bit (sq - 1))) all64 = true.
Proof. vm_compute. reflexivity. Qed.

Lemma east_go sq m : sq < 64 -> room_e sq = S m -> east (bit sq) = bit (sq + 1) /\ sq + 1 < 64 /\ room_e (sq + 1) = m.
Proof.
  intros Hsq Hr. unfold room_e in *. pose proof (forallb_all64 _ east_bit_sweep sq Hsq) as H. cbv beta in H. apply N.eqb_eq in H.
  replace (sq mod 8 =? 7) with false in H by lia. split; [exact H|]. split; lia.
Qed.
Lemma east_stop sq : sq < 64 -> room_e sq = 0%nat -> east (bit sq) = 0.
Proof.
  intros Hsq Hr. unfold room_e in *. pose proof (forallb_all64 _ east_bit_sweep sq Hsq) as H. cbv beta in H. apply N.eqb_eq in H.
  replace (sq mod 8 =? 7) with true in H by lia. exact H.
Qed.
Lemma west_go sq m : sq < 64 -> room_w sq = S m -> west (bit sq) = bit (N.pred sq) /\ N.pred sq < 64 /\ room_w (N.pred sq) = m.
Proof.
  intros Hsq Hr. unfold room_w in *. pose proof (forallb_all64 _ west_bit_sweep sq Hsq) as H. cbv beta in H. apply N.eqb_eq in H.
  replace (sq mod 8 =? 0) with false in H by lia. rewrite <- N.sub_1_r. split; [exact H|]. split; lia.
Qed.
Lemma west_stop sq : sq < 64 -> room_w sq = 0%nat -> west (bit sq) = 0.
Proof.
  intros Hsq Hr. unfold room_w in *. pose proof (forallb_all64 _ west_bit_sweep sq Hsq) as H. cbv beta in H. apply N.eqb_eq in H.
  replace (sq mod 8 =? 0) with true in H by lia. exact H.
Qed.

(* the specification's candidate squares, without the rook test, are the walked squares *)
Lemma east_cands_sweep :
  forallb (fun k => str_eqb (filter (fun q => (rankof q =? rankof k) && (fileof k <? fileof q)) squares)
                            (walk (fun x => x + 1) (room_e k) k)) all64 = true.
Proof. vm_compute. reflexivity. Qed.
Lemma west_cands_sweep :
  forallb (fun k => str_eqb (filter (fun q => (rankof q =? rankof k) && (fileof q <? fileof k)) squares)
                            (rev (walk N.pred (room_w k) k))) all64 = true.
Proof. vm_compute. reflexivity. Qed.

Lemma filter_and {A} (P R : A -> bool) l : filter (fun x => P x && R x) l = filter R (filter P l).
Proof.
  induction l as [|x l IH]; [reflexivity|]. cbn [filter]. destruct (P x); cbn [andb filter]; rewrite IH; reflexivity.
Qed.
Lemma filter_rev' {A} (R : A -> bool) l : filter R (rev l) = rev (filter R l).
Proof.
  induction l as [|x l IH]; [reflexivity|]. cbn [rev filter]. rewrite filter_app, IH. cbn [filter].
  destruct (R x); cbn [rev]; [reflexivity|apply app_nil_r].
Qed.

Definition lastq (l : list N) : option N := last (map Some l) None.
Lemma lastq_cons l : forall x, lastq (x :: l) = match lastq l with Some z => Some z | None => Some x end.
Proof.
  induction l as [|y l IH]; intros x; [reflexivity|].
  change (lastq (x :: y :: l)) with (lastq (y :: l)). rewrite (IH y). destruct (lastq l); reflexivity.
Qed.
Lemma hd_rev_lastq l : hd None (map Some (rev l)) = lastq l.
Proof.
  induction l as [|x l IH] using rev_ind; [reflexivity|].
  rewrite rev_unit. cbn [map hd]. unfold lastq. rewrite map_app. cbn [map]. rewrite last_last. reflexivity.
Qed.

Lemma fold_grant_last (T R : N -> bool) i l : (forall q, In q l -> T q = R q) ->
  forall cr, fold_left (fun cr q => if T q then cr_grant cr i q else cr) l cr =
             match lastq (filter R l) with Some q => cr_grant cr i q | None => cr end.
Proof.
  induction l as [|q l IH]; intros H cr; [reflexivity|]. cbn [fold_left filter].
  rewrite IH by (intros x Hx; apply H; right; exact Hx). rewrite (H q (or_introl eq_refl)).
  destruct (R q); [|reflexivity]. rewrite lastq_cons. destruct (lastq (filter R l)); [apply cr_grant_over|reflexivity].
Qed.

Lemma bb_get_rook b p0 s q : rep (brd p0) (at_sq b) -> q < 64 -> bb_get (pieces p0 s Rook) q = rook_at b s q.
Proof.
  intros Hrep Hq. rewrite bb_get_spec. unfold mem. rewrite (pieces_rep p0 (at_sq b) s Rook q Hrep Hq) by discriminate.
  unfold rook_at. destruct (at_sq b q) as [[c pc]|]; [|reflexivity]. destruct s, c, pc; reflexivity.
Qed.

Section CastleDecode.
Variables (b : sboard) (p0 : position).
Hypothesis Hl : length b = 64%nat.
Hypothesis Hrep : rep (brd p0) (at_sq b).

Lemma testbit_rook s q : q < 64 -> N.testbit (pieces p0 s Rook) q = rook_at b s q.
Proof. intros Hq. rewrite <- (bb_get_rook b p0 s q Hrep Hq). rewrite bb_get_spec. reflexivity. Qed.

Lemma king_pos s k : find_king b s = Some k -> king_position p0 s = k /\ k < 64.
Proof.
  intros Ek. destruct (king_position_exact p0 (at_sq b) s k Hrep) as (H1 & H2 & _); [|split; assumption].
  unfold board_of. rewrite map_at_sq by exact Hl. exact Ek.
Qed.

Lemma scan_outer_east s k i cr : find_king b s = Some k ->
  scan_rooks 9 east (bit (king_position p0 s)) (pieces p0 s Rook) i cr =
  match outer_rook b s true with Some q => cr_grant cr i q | None => cr end.
Proof.
  intros Ek. destruct (king_pos s k Ek) as [-> Hk].
  rewrite (scan_rooks_walk east (fun x => x + 1) room_e east_go east_stop (pieces p0 s Rook) i (room_e k) 9 k cr Hk eq_refl)
    by (unfold room_e; lia).
  pose proof (forallb_all64 _ east_cands_sweep k Hk) as Hs. cbv beta in Hs. apply str_eqb_eq in Hs.
  rewrite (fold_grant_last _ (rook_at b s)).
  - unfold outer_rook. rewrite Ek. cbv iota.
    rewrite (filter_ext (fun q => (rankof q =? rankof k) && rook_at b s q && (fileof k <? fileof q))
                        (fun q => ((rankof q =? rankof k) && (fileof k <? fileof q)) && rook_at b s q))
      by (intros q; destruct (rankof q =? rankof k), (rook_at b s q), (fileof k <? fileof q); reflexivity).
    rewrite filter_and, Hs. reflexivity.
  - intros q Hq. rewrite <- Hs in Hq. apply filter_In in Hq. destruct Hq as [Hq _].
    rewrite all64_squares in Hq. apply in_all64 in Hq. apply testbit_rook. exact Hq.
Qed.

Lemma scan_outer_west s k i cr : find_king b s = Some k ->
  scan_rooks 9 west (bit (king_position p0 s)) (pieces p0 s Rook) i cr =
  match outer_rook b s false with Some q => cr_grant cr i q | None => cr end.
Proof.
  intros Ek. destruct (king_pos s k Ek) as [-> Hk].
  rewrite (scan_rooks_walk west N.pred room_w west_go west_stop (pieces p0 s Rook) i (room_w k) 9 k cr Hk eq_refl)
    by (unfold room_w; lia).
  pose proof (forallb_all64 _ west_cands_sweep k Hk) as Hs. cbv beta in Hs. apply str_eqb_eq in Hs.
  rewrite (fold_grant_last _ (rook_at b s)).
  - unfold outer_rook. rewrite Ek. cbv iota.
    rewrite (filter_ext (fun q => (rankof q =? rankof k) && rook_at b s q && (fileof q <? fileof k))
                        (fun q => ((rankof q =? rankof k) && (fileof q <? fileof k)) && rook_at b s q))
      by (intros q; destruct (rankof q =? rankof k), (rook_at b s q), (fileof q <? fileof k); reflexivity).
    rewrite filter_and, Hs, filter_rev', hd_rev_lastq. reflexivity.
  - intros q Hq. apply in_rev in Hq. rewrite <- Hs in Hq. apply filter_In in Hq. destruct Hq as [Hq _].
    rewrite all64_squares in Hq. apply in_all64 in Hq. apply testbit_rook. exact Hq.
Qed.
End CastleDecode.

(* ---- one castling character: the model's update is the specification's decoded grant ---- *)
Definition grant_opt (cr : crights) (o : option (N * N)) : crights :=
  match o with Some (i, q) => cr_grant cr i q | None => cr end.

Lemma castle_char_K wk bk wr br cr : castle_char true wk bk wr br cr 75 = scan_rooks 9 east (bit wk) wr 0 cr.
Proof. reflexivity. Qed.
Lemma castle_char_Q wk bk wr br cr : castle_char true wk bk wr br cr 81 = scan_rooks 9 west (bit wk) wr 1 cr.
Proof. reflexivity. Qed.
Lemma castle_char_k wk bk wr br cr : castle_char true wk bk wr br cr 107 = scan_rooks 9 east (bit bk) br 2 cr.
Proof. reflexivity. Qed.
Lemma castle_char_q wk bk wr br cr : castle_char true wk bk wr br cr 113 = scan_rooks 9 west (bit bk) br 3 cr.
Proof. reflexivity. Qed.
Lemma decode_K b : decode_castle_char true b 75 = option_map (fun q => (0, q)) (outer_rook b White true). Proof. reflexivity. Qed.
Lemma decode_Q b : decode_castle_char true b 81 = option_map (fun q => (1, q)) (outer_rook b White false). Proof. reflexivity. Qed.
Lemma decode_k b : decode_castle_char true b 107 = option_map (fun q => (2, q)) (outer_rook b Black true). Proof. reflexivity. Qed.
Lemma decode_q b : decode_castle_char true b 113 = option_map (fun q => (3, q)) (outer_rook b Black false). Proof. reflexivity. Qed.

Section CastleChar.
Variables (b : sboard) (p0 : position).
Hypothesis Hl : length b = 64%nat.
Hypothesis Hrep : rep (brd p0) (at_sq b).
Notation cc dfrc := (castle_char dfrc (king_position p0 White) (king_position p0 Black) (pieces p0 White Rook) (pieces p0 Black Rook)).

Lemma castle_char_std cr c : cc false cr c = grant_opt cr (decode_castle_char false b c).
Proof.
  unfold castle_char, decode_castle_char. cbv iota.
  rewrite !(bb_get_rook b p0 _ _ Hrep) by lia.
  destruct ((c =? 75) && rook_at b White 7); [reflexivity|].
  destruct ((c =? 81) && rook_at b White 0); [reflexivity|].
  destruct ((c =? 107) && rook_at b Black 63); [reflexivity|].
  destruct ((c =? 113) && rook_at b Black 56); reflexivity.
Qed.

Lemma castle_char_dfrc wk bk cr c : find_king b White = Some wk -> find_king b Black = Some bk ->
  cc true cr c = grant_opt cr (decode_castle_char true b c).
Proof.
  intros Ew Eb.
  destruct (N.eqb_spec c 75) as [->|N75].
  { rewrite castle_char_K, decode_K, (scan_outer_east b p0 Hl Hrep White wk 0 cr Ew). destruct (outer_rook b White true); reflexivity. }
  destruct (N.eqb_spec c 81) as [->|N81].
  { rewrite castle_char_Q, decode_Q, (scan_outer_west b p0 Hl Hrep White wk 1 cr Ew). destruct (outer_rook b White false); reflexivity. }
  destruct (N.eqb_spec c 107) as [->|N107].
  { rewrite castle_char_k, decode_k, (scan_outer_east b p0 Hl Hrep Black bk 2 cr Eb). destruct (outer_rook b Black true); reflexivity. }
  destruct (N.eqb_spec c 113) as [->|N113].
  { rewrite castle_char_q, decode_q, (scan_outer_west b p0 Hl Hrep Black bk 3 cr Eb). destruct (outer_rook b Black false); reflexivity. }
  unfold castle_char, decode_castle_char.
  rewrite (proj2 (N.eqb_neq c 75) N75), (proj2 (N.eqb_neq c 81) N81), (proj2 (N.eqb_neq c 107) N107), (proj2 (N.eqb_neq c 113) N113).
  cbv iota zeta.
  destruct (king_pos b p0 Hl Hrep White wk Ew) as [Kw Hwk]. destruct (king_pos b p0 Hl Hrep Black bk Eb) as [Kb Hbk].
  rewrite Kw, Kb, Ew, Eb. change sq_file with fileof.
  destruct ((65 <=? c) && (c <=? 72)) eqn:R1.
  - rewrite sq_of_int_small by lia. rewrite (bb_get_rook b p0 _ _ Hrep) by lia.
    destruct (rook_at b White (c - 65)), (fileof wk <? fileof (c - 65)); reflexivity.
  - destruct ((97 <=? c) && (c <=? 104)) eqn:R2; [|reflexivity].
    rewrite sq_of_int_small by lia. replace (56 + c - 97) with (56 + (c - 97)) by lia.
    rewrite (bb_get_rook b p0 _ _ Hrep) by lia.
    destruct (rook_at b Black (56 + (c - 97))), (fileof bk <? fileof (56 + (c - 97))); reflexivity.
Qed.

Definition grant_pair (cr : crights) (x : N * N) : crights := cr_grant cr (fst x) (snd x).
Definition decode_list (dfrc : bool) (C : sstr) : list (N * N) :=
  flat_map (fun c => match decode_castle_char dfrc b c with Some x => [x] | None => [] end) C.

Lemma castle_fold dfrc C :
  (dfrc = true -> find_king b White <> None /\ find_king b Black <> None) ->
  forall cr, fold_left (cc dfrc) C cr = fold_left grant_pair (decode_list dfrc C) cr.
Proof.
  intros Hk.
  assert (Hc : forall cr c, cc dfrc cr c = grant_opt cr (decode_castle_char dfrc b c)).
  { intros cr c. destruct dfrc; [|apply castle_char_std].
    destruct (Hk eq_refl) as [H1 H2]. destruct (find_king b White) as [wk|] eqn:Ew; [|congruence].
    destruct (find_king b Black) as [bk|] eqn:Eb; [|congruence]. apply (castle_char_dfrc wk bk); assumption. }
  induction C as [|c C IH]; intros cr; [reflexivity|].
  unfold decode_list in *. cbn [fold_left flat_map]. rewrite fold_left_app, Hc.
  destruct (decode_castle_char dfrc b c) as [[i q]|]; cbn [grant_opt fold_left]; apply IH.
Qed.
End CastleChar.

(* ---- reading the accumulated rights: the last grant of each index wins ---- *)
Definition readout (cr : crights) (i : N) : option N :=
  match i with
  | 0 => if k0 cr then Some (q0 cr) else None
  | 1 => if k1 cr then Some (q1 cr) else None
  | 2 => if k2 cr then Some (q2 cr) else None
  | _ => if k3 cr then Some (q3 cr) else None
  end.

Lemma readout_grant cr j q i : j <= 3 -> i <= 3 -> readout (cr_grant cr j q) i = if j =? i then Some q else readout cr i.
Proof.
  intros Hj Hi. assert (Aj : In j [0;1;2;3]) by (cbn; lia). assert (Ai : In i [0;1;2;3]) by (cbn; lia).
  cbn in Aj, Ai. repeat destruct Aj as [<-|Aj]; try contradiction; repeat destruct Ai as [<-|Ai]; try contradiction; reflexivity.
Qed.

Lemma readout_fold l cr0 i : Forall (fun x : N * N => fst x <= 3) l -> i <= 3 ->
  readout (fold_left grant_pair l cr0) i = match right_of l i with Some q => Some q | None => readout cr0 i end.
Proof.
  intros Hl Hi. induction l as [|x l IH] using rev_ind.
  - reflexivity.
  - apply Forall_app in Hl. destruct Hl as [Hl Hx]. inversion Hx as [|x' l' Hx3 _]; subst.
    rewrite fold_left_app. cbn [fold_left]. unfold grant_pair at 1. rewrite readout_grant by assumption.
    unfold right_of. rewrite rev_unit. cbn [find]. destruct (fst x =? i); [reflexivity|].
    rewrite (IH Hl). reflexivity.
Qed.

Lemma decode_idx dfrc b c i q : decode_castle_char dfrc b c = Some (i, q) -> i <= 3.
Proof.
  intros H. unfold decode_castle_char in H.
  repeat match type of H with
         | context [option_map _ ?o] => destruct o; cbn [option_map] in H
         | context [match find_king ?bb ?s with _ => _ end] => destruct (find_king bb s)
         | context [if ?x then _ else _] => destruct x
         end; cbn [option_map] in H; try discriminate; inversion H; lia.
Qed.

Lemma decode_list_idx b dfrc C : Forall (fun x : N * N => fst x <= 3) (decode_list b dfrc C).
Proof.
  apply Forall_forall. intros [i q] Hin. unfold decode_list in Hin. apply in_flat_map in Hin. destruct Hin as [c [_ Hc]].
  destruct (decode_castle_char dfrc b c) as [[i' q']|] eqn:E; [|destruct Hc].
  destruct Hc as [Hc|[]]. inversion Hc; subst. cbn [fst]. apply (decode_idx dfrc b c i q E).
Qed.

Lemma parse_cr_readout dfrc (b : sboard) bd a0 a1 a2 a3 tm C i :
  length b = 64%nat -> rep bd (at_sq b) ->
  (dfrc = true -> find_king b White <> None /\ find_king b Black <> None) -> i <= 3 ->
  readout (parse_cr dfrc bd a0 a1 a2 a3 tm C) i =
  right_of (if (match C with [45] => true | _ => false end) then [] else decode_list b dfrc C) i.
Proof.
  intros Hl Hrep Hk Hi. unfold parse_cr. cbv zeta. rewrite dash_match.
  set (p0 := mkPos bd 0 0 OffSq 0 false false false false a0 a1 a2 a3 tm []).
  assert (Hr0 : readout (mkCR false false false false a0 a1 a2 a3) i = None).
  { assert (Ai : In i [0;1;2;3]) by (cbn; lia). cbn in Ai. repeat destruct Ai as [<-|Ai]; try contradiction; reflexivity. }
  destruct (str_eqb C [45]); cbn [negb].
  - rewrite Hr0. reflexivity.
  - rewrite (castle_fold b p0 Hl Hrep dfrc C Hk). rewrite readout_fold by (try apply decode_list_idx; exact Hi).
    rewrite Hr0. destruct (right_of (decode_list b dfrc C) i); reflexivity.
Qed.

(* ---- clocks written as arbitrary non-empty digit strings ---- *)
Definition digits (w : str) : Prop := Forall (fun c => 48 <= c /\ c <= 57) w.

Lemma digits_val_digits w : forall acc any rest, digits w -> (rest = [] \/ exists r, rest = 32 :: r) ->
  digits_val (w ++ rest) acc any =
  (fold_left (fun a c => a * 10 + (c - 48)) w acc, match w with [] => any | _ => true end, rest).
Proof.
  induction w as [|c w IH]; intros acc any rest Hd Hr.
  - cbn [app fold_left]. destruct Hr as [->|[r ->]]; reflexivity.
  - inversion Hd as [|c' w' Hc Hw]; subst. cbn [app digits_val fold_left].
    replace ((48 <=? c) && (c <=? 57)) with true by lia. rewrite IH by assumption. destruct w; reflexivity.
Qed.

Lemma skip_ws_digits H rest : digits H -> H <> [] -> skip_ws (H ++ rest) = H ++ rest.
Proof.
  intros Hd Hne. destruct H as [|c H]; [congruence|]. inversion Hd as [|c' w' Hc Hw]; subst.
  cbn [app skip_ws]. rewrite is_space_vis by lia. reflexivity.
Qed.

Lemma next_number_mid' H r : digits H -> H <> [] -> next_number (32 :: H ++ 32 :: r) = (Some (undec H), 32 :: r).
Proof.
  intros Hd Hne. unfold next_number. change (skip_ws (32 :: H ++ 32 :: r)) with (skip_ws (H ++ 32 :: r)).
  rewrite skip_ws_digits by assumption. cbv zeta. rewrite digits_val_digits by (try exact Hd; right; eexists; reflexivity).
  destruct H; [congruence|reflexivity].
Qed.
Lemma next_number_end' F : digits F -> F <> [] -> next_number (32 :: F) = (Some (undec F), []).
Proof.
  intros Hd Hne. unfold next_number. change (skip_ws (32 :: F)) with (skip_ws F).
  pose proof (skip_ws_digits F [] Hd Hne) as S. rewrite app_nil_r in S. rewrite S. cbv zeta.
  pose proof (digits_val_digits F 0 false [] Hd (or_introl eq_refl)) as E. rewrite app_nil_r in E. rewrite E.
  destruct F; [congruence|reflexivity].
Qed.

Lemma digits_vis w : digits w -> vis w.
Proof. apply Forall_impl. intros c Hc. lia. Qed.

(* ---- the specification's field splitter ---- *)
Lemma split_on_field sep w : forall rest cur, ~ In sep w ->
  split_on sep (w ++ sep :: rest) cur = (rev cur ++ w) :: split_on sep rest [].
Proof.
  induction w as [|c w IH]; intros rest cur Hn; cbn [app split_on].
  - rewrite N.eqb_refl, app_nil_r. reflexivity.
  - replace (c =? sep) with false by (symmetry; apply N.eqb_neq; intros ->; apply Hn; left; reflexivity).
    rewrite IH by (intros Hin; apply Hn; right; exact Hin). cbn [rev]. rewrite <- app_assoc. reflexivity.
Qed.
Lemma split_on_last sep w : forall cur, ~ In sep w -> split_on sep w cur = [rev cur ++ w].
Proof.
  induction w as [|c w IH]; intros cur Hn; cbn [split_on].
  - rewrite app_nil_r. reflexivity.
  - replace (c =? sep) with false by (symmetry; apply N.eqb_neq; intros ->; apply Hn; left; reflexivity).
    rewrite IH by (intros Hin; apply Hn; right; exact Hin). cbn [rev]. rewrite <- app_assoc. reflexivity.
Qed.

Lemma vis_not_in w : vis w -> ~ In 32 w.
Proof. intros H Hin. unfold vis in H. rewrite Forall_forall in H. specialize (H 32 Hin). lia. Qed.
Lemma rank_char_vis c : rank_char_ok c -> 48 <= c.
Proof. intros [H|H]; [apply cell_of_char_range in H|]; lia. Qed.
Lemma rank_no_slash w : Forall rank_char_ok w -> ~ In 47 w.
Proof. intros H Hin. rewrite Forall_forall in H. apply H in Hin. apply rank_char_vis in Hin. lia. Qed.
Lemma rank_vis w : Forall rank_char_ok w -> vis w.
Proof. apply Forall_impl. intros c Hc. apply rank_char_vis in Hc. lia. Qed.

Lemma split_join47 ranks : ranks <> [] -> Forall (fun w => Forall rank_char_ok w) ranks -> split_on 47 (join 47 ranks) [] = ranks.
Proof.
  induction ranks as [|x r IH]; intros Hne H; [congruence|]. inversion H as [|x' r' Hx Hr]; subst.
  destruct r as [|y r'].
  - cbn [join]. rewrite split_on_last by (apply rank_no_slash; exact Hx). reflexivity.
  - change (join 47 (x :: y :: r')) with (x ++ 47 :: join 47 (y :: r')).
    rewrite split_on_field by (apply rank_no_slash; exact Hx). cbn [rev app]. f_equal. apply IH; [discriminate|exact Hr].
Qed.

Lemma join47_vis ranks : Forall (fun w => Forall rank_char_ok w) ranks -> vis (join 47 ranks).
Proof. intros H. apply vis_join. eapply Forall_impl; [|exact H]. intros w Hw. apply rank_vis. exact Hw. Qed.

Lemma of_fen_six dfrc ranks T C E H F :
  ranks <> [] -> Forall (fun w => Forall rank_char_ok w) ranks -> vis T -> vis C -> vis E -> vis H -> vis F ->
  of_fen dfrc (join 47 ranks ++ 32 :: T ++ 32 :: C ++ 32 :: E ++ 32 :: H ++ 32 :: F) =
  let b := board_of_ranks ranks in
  let grants := if (match C with [45] => true | _ => false end) then [] else decode_list b dfrc C in
  Some (mkS b (match T with [119] => White | _ => Black end)
            (right_of grants 0) (right_of grants 1) (right_of grants 2) (right_of grants 3)
            (match E with [45] => None | [c0; c1] => Some (mk_sq (c0 - 97) (c1 - 49)) | _ => None end)
            (undec H) (undec F)).
Proof.
  intros Hne Hr HT HC HE HH HF. unfold of_fen.
  rewrite split_on_field by (apply vis_not_in, join47_vis; exact Hr).
  rewrite split_on_field by (apply vis_not_in; exact HT).
  rewrite split_on_field by (apply vis_not_in; exact HC).
  rewrite split_on_field by (apply vis_not_in; exact HE).
  rewrite split_on_field by (apply vis_not_in; exact HH).
  rewrite split_on_last by (apply vis_not_in; exact HF).
  cbn [rev app]. cbv iota. rewrite split_join47 by assumption. reflexivity.
Qed.

Definition ep_word_ok (E : sstr) : Prop :=
  E = [45] \/ exists c0 c1, E = [c0; c1] /\ 97 <= c0 /\ c0 <= 104 /\ 49 <= c1 /\ c1 <= 56.

Section DecodeAgree.
Variable K : zkeys.

Lemma set_fen_body_six' old P T C E H F dfrc :
  P <> [] -> vis P -> T <> [] -> vis T -> C <> [] -> vis C -> E <> [] -> vis E -> digits H -> H <> [] -> digits F -> F <> [] ->
  set_fen_body K old (P ++ 32 :: T ++ 32 :: C ++ 32 :: E ++ 32 :: H ++ 32 :: F) dfrc =
  let bd := place P 56%Z empty_board in
  let tm := if str_eqb T [119] then White else Black in
  let cr := parse_cr dfrc bd (r0 old) (r1 old) (r2 old) (r3 old) tm C in
  let e := parse_ep E in
  let p1 := mkPos bd (undec H) (undec F) e 0 (k0 cr) (k1 cr) (k2 cr) (k3 cr) (q0 cr) (q1 cr) (q2 cr) (q3 cr) tm [] in
  mkPos bd (undec H) (undec F) e (calculate_hash K p1) (k0 cr) (k1 cr) (k2 cr) (k3 cr) (q0 cr) (q1 cr) (q2 cr) (q3 cr) tm [].
Proof.
  intros HP HP' HT HT' HC HC' HE HE' HH HH' HF HF'. unfold set_fen_body.
  rewrite (next_word_vis P _ HP HP'). cbv beta iota zeta.
  rewrite next_word_sp, (next_word_vis T _ HT HT'). cbv beta iota zeta.
  rewrite next_word_sp, (next_word_vis C _ HC HC'). cbv beta iota zeta.
  rewrite next_word_sp, (next_word_vis E _ HE HE'). cbv beta iota zeta.
  rewrite (next_number_mid' H F HH HH'). cbv beta iota zeta.
  rewrite (next_number_end' F HF HF'). cbv beta iota zeta.
  reflexivity.
Qed.

(* STRETCH THEOREM: on six-field FENs with a well-formed placement the model decoder is the specification decoder *)
Theorem set_fen_of_fen dfrc ranks T C E H F s :
  length ranks = 8%nat -> Forall rank_ok ranks ->
  T <> [] -> vis T -> C <> [] -> vis C -> ep_word_ok E -> digits H -> H <> [] -> digits F -> F <> [] ->
  let fen := join 32 [join 47 ranks; T; C; E; H; F] in
  of_fen dfrc fen = Some s ->
  (dfrc = true -> find_king (s_board s) White <> None /\ find_king (s_board s) Black <> None) ->
  abs (set_fen K fen dfrc) = s /\ wf (set_fen K fen dfrc) = true.
Proof.
  intros Hlen Hok HT HT' HC HC' HE HH HH' HF HF'. cbv zeta. cbn [join].
  assert (Hrk : Forall (fun w => Forall rank_char_ok w) ranks).
  { eapply Forall_impl; [|exact Hok]. intros w [Hw _]. exact Hw. }
  assert (Hne : ranks <> []) by (intros ->; discriminate).
  assert (HE' : E <> [] /\ vis E).
  { destruct HE as [->|(c0 & c1 & -> & ?)]; (split; [discriminate|repeat (constructor; [lia|]); constructor]). }
  assert (HP : join 47 ranks <> [] /\ vis (join 47 ranks)).
  { split; [|apply join47_vis; exact Hrk].
    destruct ranks as [|w7 [|w6 r]]; try discriminate.
    change (join 47 (w7 :: w6 :: r)) with (w7 ++ 47 :: join 47 (w6 :: r)). intros H0. apply (f_equal (@length N)) in H0.
    rewrite app_length in H0. cbn [length] in H0. lia. }
  rewrite of_fen_six by (try assumption; try tauto; apply digits_vis; assumption).
  cbv zeta. intros Hs Hk. injection Hs as <-. cbn [s_board] in Hk.
  destruct (place_board_gen ranks Hlen Hok) as [Hrep Hlb].
  set (b := board_of_ranks ranks) in *.
  unfold set_fen, set_fen_on. rewrite not_startpos.
  rewrite set_fen_body_six' by tauto. cbv zeta.
  set (bd := place (join 47 ranks) 56%Z empty_board) in *.
  set (tm := if str_eqb T [119] then White else Black).
  pose proof (fun i Hi => parse_cr_readout dfrc b bd (r0 fresh_position) (r1 fresh_position) (r2 fresh_position) (r3 fresh_position)
                            tm C i Hlb Hrep Hk Hi) as Hro.
  split.
  - rewrite abs_mkPos. f_equal.
    + rewrite (abs_board_rep _ (at_sq b)) by exact Hrep. apply map_at_sq. exact Hlb.
    + unfold tm. symmetry. apply turn_match.
    + exact (Hro 0 ltac:(lia)).
    + exact (Hro 1 ltac:(lia)).
    + exact (Hro 2 ltac:(lia)).
    + exact (Hro 3 ltac:(lia)).
    + destruct HE as [->|(c0 & c1 & -> & H1 & H2 & H3 & H4)]; [reflexivity|].
      rewrite ep_match. unfold parse_ep. cbn [str_eqb nth]. rewrite andb_false_r. cbn [negb].
      replace ((Z.of_N c1 - 49) * 8 + (Z.of_N c0 - 97))%Z with (Z.of_N (mk_sq (c0 - 97) (c1 - 49))) by (unfold mk_sq; lia).
      rewrite sq_of_Z_N by (unfold mk_sq; lia).
      replace (mk_sq (c0 - 97) (c1 - 49) =? OffSq) with false by (unfold mk_sq, OffSq; lia). reflexivity.
  - unfold wf. cbn [brd]. apply (rep_wf _ _ Hrep).
Qed.
End DecodeAgree.

Print Assumptions fen_round_trip.
Print Assumptions fen_round_trip_obs.
Print Assumptions set_fen_fen_of.
Print Assumptions set_fen_of_fen.
