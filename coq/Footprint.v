(* Footprint.v — C19, the part a model can carry: threads whose writes stay inside locations they own and
   whose reads touch only their own locations and a shared region that nobody writes, obtain — under EVERY
   interleaving — exactly the results of running alone, and no two accesses of different threads conflict. *)
From Coq Require Import NArith List Bool Lia.
Import ListNotations.
Local Open Scope N_scope.

Definition loc := N.
Definition tid := N.
Definition mem := loc -> N.

(* who may write a location; None = the shared region (library tables, keys, a shared const Position) *)
Section Footprints.
Variable owner : loc -> option tid.

(* one atomic action of a thread: the locations it reads, and the writes it performs as a function of memory *)
Record action := mkAct { a_reads : list loc; a_writes : mem -> list (loc * N) }.

Definition well_footed (t : tid) (a : action) : Prop :=
  (forall l, In l (a_reads a) -> owner l = Some t \/ owner l = None) /\
  (forall m l v, In (l, v) (a_writes a m) -> owner l = Some t) /\
  (forall m m', (forall l, In l (a_reads a) -> m l = m' l) -> a_writes a m = a_writes a m').

Fixpoint store (m : mem) (ws : list (loc * N)) : mem :=
  match ws with [] => m | (l, v) :: r => store (fun x => if x =? l then v else m x) r end.
Definition exec (m : mem) (a : action) : mem := store m (a_writes a m).

(* a schedule: which thread performs which action next *)
Definition schedule := list (tid * action).
Definition run (s : schedule) (m : mem) : mem := fold_left (fun m ta => exec m (snd ta)) s m.
Definition only (t : tid) (s : schedule) : schedule := filter (fun ta => fst ta =? t) s.
Definition sched_ok (s : schedule) : Prop := forall t a, In (t, a) s -> well_footed t a.

(* thread t's view: its own locations and the shared region *)
Definition same_view (t : tid) (m m' : mem) : Prop := forall l, owner l = Some t \/ owner l = None -> m l = m' l.

Lemma store_other m ws l : (forall v, ~ In (l, v) ws) -> store m ws l = m l.
Proof.
  revert m. induction ws as [|[l' v'] r IH]; intros m H; [reflexivity|]. cbn [store].
  rewrite IH by (intros v Hv; apply (H v); right; exact Hv).
  destruct (N.eqb_spec l l') as [->|Hne]; [exfalso; apply (H v'); left; reflexivity|reflexivity].
Qed.

Lemma store_view t m m' ws : same_view t m m' -> same_view t (store m ws) (store m' ws).
Proof.
  revert m m'. induction ws as [|[l v] r IH]; intros m m' H; [exact H|]. cbn [store]. apply IH.
  intros x Hx. destruct (x =? l); [reflexivity|apply H; exact Hx].
Qed.

Lemma exec_foreign t u a m : u <> t -> well_footed u a -> same_view t (exec m a) m.
Proof.
  intros Hne (_ & Hw & _) l Hl. unfold exec. apply store_other. intros v Hin.
  specialize (Hw m l v Hin). destruct Hl as [Hl|Hl]; rewrite Hw in Hl; congruence.
Qed.

Lemma exec_own t a m m' : well_footed t a -> same_view t m m' -> same_view t (exec m a) (exec m' a).
Proof.
  intros (Hr & _ & Hext) Hv. unfold exec.
  rewrite (Hext m m') by (intros l Hl; apply Hv; apply Hr; exact Hl).
  apply store_view. exact Hv.
Qed.

(* every interleaving gives each thread the results of its sequential run *)
Theorem disjoint_footprints_sequential s t : sched_ok s ->
  forall m m', same_view t m m' -> same_view t (run s m) (run (only t s) m').
Proof.
  intros Hok. induction s as [|[u a] r IH]; intros m m' Hv; [exact Hv|].
  cbn [run fold_left only filter fst snd].
  assert (Hwf : well_footed u a) by (apply Hok; left; reflexivity).
  assert (Hok' : sched_ok r) by (intros t' a' H'; apply Hok; right; exact H').
  destruct (N.eqb_spec u t) as [->|Hne].
  - cbn [fold_left snd]. apply (IH Hok'). apply exec_own; assumption.
  - apply (IH Hok'). intros l Hl. rewrite (exec_foreign t u a m Hne Hwf l Hl). apply Hv. exact Hl.
Qed.

(* no write of one thread touches a location another thread reads or writes *)
Theorem no_conflicting_access t u a b m l v : t <> u -> well_footed t a -> well_footed u b ->
  In (l, v) (a_writes a m) -> ~ In l (a_reads b) /\ (forall m' v', ~ In (l, v') (a_writes b m')).
Proof.
  intros Hne (_ & Hwa & _) (Hrb & Hwb & _) Hin. pose proof (Hwa m l v Hin) as Ho. split.
  - intros Hr. destruct (Hrb l Hr) as [E|E]; rewrite Ho in E; congruence.
  - intros m' v' Hw. pose proof (Hwb m' l v' Hw) as E. rewrite Ho in E. congruence.
Qed.
End Footprints.
