(* GameFacts.v — perft (C04) and the game-end predicates (C10) over the model: what follows from the
   definitions and from C03 without any legality reasoning. *)
From Coq Require Import NArith List Bool Lia.
From LC Require Import Bits Types BitboardModel MoveModel ZobristModel PositionModel MovegenModel MakeModel FenModel GameModel
  MakeFacts MovegenFacts.
Import ListNotations.
Local Open Scope N_scope.

Section Perft.
Variable K : zkeys.

(* the loop of perft over a list of generated moves: count accumulates, the position comes back *)
Lemma perft_fold_restores (d : nat) (p : position) :
  (forall q, snd (perft K d q) = q) ->
  forall (l : list move) acc, (forall m, In m l -> move_fields_ok p m) ->
  fold_left (fun (a : N * position) m => let '(n, q) := perft K d (makemove K (snd a) m) in (fst a + n, undomove q)) l (acc, p)
  = (acc + fold_right (fun m s => fst (perft K d (makemove K p m)) + s) 0 l, p).
Proof.
  intros IH l. induction l as [|m r IHl]; intros acc Hok; cbn [fold_left fold_right]; [rewrite N.add_0_r; reflexivity|].
  cbn [snd fst]. destruct (perft K d (makemove K p m)) as [n q] eqn:E.
  assert (Hq : q = makemove K p m) by (pose proof (IH (makemove K p m)) as H; rewrite E in H; exact H).
  subst q. rewrite undo_make by (apply Hok; left; reflexivity).
  rewrite IHl by (intros x Hx; apply Hok; right; exact Hx). cbn [fst]. f_equal. lia.
Qed.

Lemma perft_unfold d p :
  perft K (S (S d)) p =
  fold_left (fun (a : N * position) m => let '(n, q) := perft K (S d) (makemove K (snd a) m) in (fst a + n, undomove q)) (legal_moves p) (0, p).
Proof. reflexivity. Qed.

(* perft leaves the whole state (history included) unchanged, at every depth, in every position *)
Theorem perft_restores d : forall p, snd (perft K d p) = p.
Proof.
  induction d as [|d IH]; intros p; [reflexivity|].
  destruct d as [|d']; [reflexivity|]. rewrite perft_unfold.
  rewrite (perft_fold_restores (S d') p IH (legal_moves p) 0 (fun m H => legal_moves_fields_ok p m H)). reflexivity.
Qed.

(* perft(0) = 1, perft(1) = number of generated moves, perft(d+2) = sum over the generated moves of perft(d+1) after the move *)
Theorem perft_zero p : fst (perft K 0 p) = 1. Proof. reflexivity. Qed.
Theorem perft_one p : fst (perft K 1 p) = count_moves p. Proof. reflexivity. Qed.
Theorem perft_step d p :
  fst (perft K (S (S d)) p) = fold_right (fun m s => fst (perft K (S d) (makemove K p m)) + s) 0 (legal_moves p).
Proof.
  rewrite perft_unfold. rewrite (perft_fold_restores (S d) p (perft_restores (S d)) (legal_moves p) 0 (fun m H => legal_moves_fields_ok p m H)).
  reflexivity.
Qed.
(* depth 1 agrees with the recurrence too: perft(d+1) = sum over moves of perft(d), for every d *)
Lemma sum_ones (l : list move) (g : move -> N) : (forall m, g m = 1) -> fold_right (fun m s => g m + s) 0 l = N.of_nat (length l).
Proof. intros H. induction l as [|m r IH]; [reflexivity|]. cbn [fold_right length]. rewrite H, IH. lia. Qed.
Theorem perft_recurrence d p :
  fst (perft K (S d) p) = fold_right (fun m s => fst (perft K d (makemove K p m)) + s) 0 (legal_moves p).
Proof.
  destruct d as [|d]; [|apply perft_step].
  rewrite perft_one, count_moves_length. symmetry. apply sum_ones. intros m. reflexivity.
Qed.
End Perft.

(* ---------- game-end predicates ---------- *)
Theorem is_checkmate_iff p : is_checkmate p = true <-> legal_moves p = [] /\ in_check p = true.
Proof. unfold is_checkmate, no_moves. rewrite andb_true_iff. destruct (legal_moves p); split; intros [H1 H2]; split; congruence. Qed.
Theorem is_stalemate_iff p : is_stalemate p = true <-> legal_moves p = [] /\ in_check p = false.
Proof. unfold is_stalemate, no_moves. rewrite andb_true_iff, negb_true_iff. destruct (legal_moves p); split; intros [H1 H2]; split; congruence. Qed.
Theorem fiftymoves_iff p : fiftymoves p = true <-> 100 <= halfmove p.
Proof. unfold fiftymoves. apply N.leb_le. Qed.
Theorem is_draw_iff p : is_draw p = true <-> (threefold p = true \/ fiftymoves p = true) /\ is_checkmate p = false.
Proof. unfold is_draw. rewrite andb_true_iff, orb_true_iff, negb_true_iff. reflexivity. Qed.
Theorem is_terminal_iff p : is_terminal p = true <-> legal_moves p = [] \/ is_draw p = true.
Proof. unfold is_terminal, no_moves. rewrite orb_true_iff. destruct (legal_moves p); split; intros [H|H]; try (left; congruence); try (right; exact H); try discriminate. Qed.
Theorem mate_stalemate_exclusive p : is_checkmate p && is_stalemate p = false.
Proof. unfold is_checkmate, is_stalemate. destruct (no_moves p), (in_check p); reflexivity. Qed.
