(* GameModel.v — threefold, fiftymoves, is_draw, is_checkmate, is_stalemate, is_terminal,
   parse_move, move_string, makemove(string) (position.hpp) and perft.cpp.  Definitions only. *)
From Coq Require Import NArith List Bool.
From LC Require Import Bits Types BitboardModel MoveModel MagicModel ZobristModel PositionModel
  MovegenModel MakeModel FenModel.
Import ListNotations.
Local Open Scope N_scope.

(* for (i = 2; i <= history_.size() && i <= halfmoves(); i += 2) if (history_[size-i].hash == hash_) ...
   [l] is the history from index i-2 (head = newest); history_[size-i] is its second element. *)
Fixpoint three_scan (l : list hrec) (i half h repeats : N) : bool :=
  match l with
  | _ :: x :: rest =>
    if i <=? half then
      if h_hash x =? h then
        if 2 <=? repeats + 1 then true else three_scan rest (i + 2) half h (repeats + 1)
      else three_scan rest (i + 2) half h repeats
    else false
  | _ => false
  end.
Definition threefold (p : position) : bool :=
  if halfmove p <? 8 then false else three_scan (history p) 2 (halfmove p) (hash p) 0.
Definition fiftymoves (p : position) : bool := 100 <=? halfmove p.
Definition no_moves (p : position) : bool := match legal_moves p with [] => true | _ => false end.
Definition is_checkmate (p : position) : bool := no_moves p && in_check p.
Definition is_stalemate (p : position) : bool := no_moves p && negb (in_check p).
Definition is_draw (p : position) : bool := (threefold p || fiftymoves p) && negb (is_checkmate p).
Definition is_terminal (p : position) : bool := no_moves p || is_draw p.

Definition s_e1g1 : str := [101;49;103;49]. Definition s_e1c1 : str := [101;49;99;49].
Definition s_e8g8 : str := [101;56;103;56]. Definition s_e8c8 : str := [101;56;99;56].

Definition parse_move (p : position) (s : str) : option move :=
  let moves := legal_moves p in
  let wk := piece_eqb (piece_on p 4) King && side_eqb (turn p) White in
  let bk := piece_eqb (piece_on p 60) King && side_eqb (turn p) Black in
  let ksc := (str_eqb s s_e1g1 && wk) || (str_eqb s s_e8g8 && bk) in
  let qsc := (str_eqb s s_e1c1 && wk) || (str_eqb s s_e8c8 && bk) in
  find (fun m => (ksc && mtype_eqb (m_type m) Ksc) || (qsc && mtype_eqb (m_type m) Qsc) ||
                 str_eqb (move_text m) s) moves.

Definition move_string (p : position) (m : move) (dfrc : bool) : str :=
  if dfrc then move_text m else
  match m_type m with
  | Ksc => match turn p with White => s_e1g1 | Black => s_e8g8 end
  | Qsc => match turn p with White => s_e1c1 | Black => s_e8c8 end
  | _ => move_text m
  end.

Section Game.
Variable K : zkeys.
Definition makemove_str (p : position) (s : str) : option position :=
  option_map (makemove K p) (parse_move p s).

(* perft: returns the count and the position object afterwards *)
Fixpoint perft (d : nat) (p : position) : N * position :=
  match d with
  | O => (1, p)
  | S d' =>
    match d' with
    | O => (count_moves p, p)
    | S _ =>
      fold_left (fun (acc : N * position) m =>
          let '(n, q) := perft d' (makemove K (snd acc) m) in
          (fst acc + n, undomove q))
        (legal_moves p) (0, p)
    end
  end.
End Game.
