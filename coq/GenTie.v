(* GenTie.v — the hand-written constants of the model equal what the current source says
   (coq/Gen/*.v, regenerated on every run).  A changed constant in the C++ breaks exactly this file. *)
From Coq Require Import NArith List Bool.
From LC Require Import Bits Types BitboardModel MoveModel MagicModel MakeModel PositionModel.
From LC.Gen Require Import Consts MoveLayout MagicTables.
Import ListNotations.
Local Open Scope N_scope.

Lemma tie_east : east_keep = not_file_a. Proof. vm_compute. reflexivity. Qed.
Lemma tie_west : west_keep = not_file_h. Proof. vm_compute. reflexivity. Qed.
Lemma tie_files : file_masks = map file_mask [0;1;2;3;4;5;6;7]. Proof. vm_compute. reflexivity. Qed.
Lemma tie_ranks : rank_masks = map rank_mask [0;1;2;3;4;5;6;7]. Proof. vm_compute. reflexivity. Qed.
Lemma tie_castle_king_to : castle_king_to_tbl = map castle_king_to [0;1;2;3]. Proof. reflexivity. Qed.
Lemma tie_ksc_rook_to : ksc_rook_to_tbl = map ksc_rook_to [White; Black]. Proof. reflexivity. Qed.
Lemma tie_qsc_rook_to : qsc_rook_to_tbl = map qsc_rook_to [White; Black]. Proof. reflexivity. Qed.
Lemma tie_enum_side : enum_side = map side_to_N [White; Black]. Proof. reflexivity. Qed.
Lemma tie_enum_piece : enum_piece = map piece_to_N all_pieces7. Proof. reflexivity. Qed.
Lemma tie_enum_mtype : enum_mtype = map mtype_to_N all_mtypes. Proof. reflexivity. Qed.
Lemma tie_offsq : offsq = OffSq. Proof. reflexivity. Qed.
Lemma tie_default_rooks :
  default_rooks = [r0 fresh_position; r1 fresh_position; r2 fresh_position; r3 fresh_position].
Proof. reflexivity. Qed.
Lemma tie_ctor_layout : ctor_layout = std_layout. Proof. reflexivity. Qed.
Lemma tie_acc_layout : acc_layout = std_layout. Proof. reflexivity. Qed.
Lemma tie_promo_letters : promo_letters = std_promo_letters. Proof. reflexivity. Qed.
Lemma tie_bishop_masks : bishop_masks = map bishop_mask all64. Proof. vm_compute. reflexivity. Qed.
Lemma tie_rook_masks : rook_masks = map rook_mask all64. Proof. vm_compute. reflexivity. Qed.
