(* HashFacts.v — the incrementally maintained hash equals the hash recomputed from scratch (C05). *)
From Coq Require Import NArith List Bool Lia Btauto.
From Coq Require Import ZifyBool ZifyN ZifyNat.
From LC Require Import Bits BitsFacts Types BitboardModel BitboardFacts MoveModel ZobristModel PositionModel MakeModel BoardFacts MakeFacts
  Spec.Rules Refine.Abs Refine.Board Refine.Make Refine.Wf Refine.MakeAbs.
Import ListNotations.
Local Open Scope N_scope.

Ltac gen_atoms :=
  repeat match goal with
         | |- context [fold_left ?f ?l ?a] => let v := fresh "v" in generalize (fold_left f l a); intros v
         | |- context [nth ?n ?l ?d] => let v := fresh "v" in generalize (nth n l d); intros v
         end.
Ltac xor_solve0 := apply N.bits_inj; let i := fresh "i" in intros i; rewrite ?N.lxor_spec, ?N.bits_0; btauto.

Section Hash.
Variable K : zkeys.

(* XOR-sum of a function over a list of squares *)
Definition xsum (g : N -> N) (l : list N) : N := fold_left (fun a q => N.lxor a (g q)) l 0.

Lemma fold_xor_acc (g : N -> N) l h : fold_left (fun a q => N.lxor a (g q)) l h = N.lxor h (xsum g l).
Proof.
  unfold xsum. revert h. induction l as [|q r IH]; intros h; cbn [fold_left]; [rewrite N.lxor_0_r; reflexivity|].
  rewrite IH, (IH (N.lxor 0 (g q))), N.lxor_0_l, N.lxor_assoc. reflexivity.
Qed.
Lemma xsum_cons g q r : xsum g (q :: r) = N.lxor (g q) (xsum g r).
Proof. unfold xsum. cbn [fold_left]. rewrite fold_xor_acc, N.lxor_0_l. reflexivity. Qed.
Lemma xsum_nil g : xsum g [] = 0. Proof. reflexivity. Qed.
Lemma xsum_ext g h l : (forall q, In q l -> g q = h q) -> xsum g l = xsum h l.
Proof. induction l as [|q r IH]; intros H; [reflexivity|]. rewrite !xsum_cons, (H q (or_introl eq_refl)), IH; [reflexivity|]. intros x Hx. apply H. right. exact Hx. Qed.
Lemma xsum_xor g h l : xsum (fun q => N.lxor (g q) (h q)) l = N.lxor (xsum g l) (xsum h l).
Proof. induction l as [|q r IH]; [reflexivity|]. rewrite !xsum_cons, IH. xor_solve. Qed.
Lemma xsum_zero l : xsum (fun _ => 0) l = 0.
Proof. induction l as [|q r IH]; [reflexivity|]. rewrite xsum_cons, IH. reflexivity. Qed.
Lemma xsum_filter g (P : N -> bool) l : xsum g (filter P l) = xsum (fun q => if P q then g q else 0) l.
Proof. induction l as [|q r IH]; [reflexivity|]. cbn [filter]. destruct (P q) eqn:E; rewrite ?xsum_cons, IH, ?E; [reflexivity|rewrite N.lxor_0_l; reflexivity]. Qed.

(* changing the summand at one square of a duplicate-free list *)
Lemma xsum_upd g g' x l : NoDup l -> In x l -> (forall q, q <> x -> g' q = g q) ->
  xsum g' l = N.lxor (N.lxor (xsum g l) (g x)) (g' x).
Proof.
  intros Hnd Hin Hext. induction l as [|q r IH]; [destruct Hin|].
  inversion Hnd as [|q' r' Hq Hr]; subst. rewrite !xsum_cons. destruct Hin as [->|Hin].
  - rewrite (xsum_ext g' g r) by (intros y Hy; apply Hext; intros ->; contradiction). xor_solve.
  - rewrite (IH Hr Hin), (Hext q) by (intros ->; contradiction). xor_solve.
Qed.

Lemma nodup_all64 : NoDup all64.
Proof. apply (NoDup_map_inv N.to_nat). unfold all64. rewrite map_map. erewrite map_ext; [rewrite map_id; apply seq_NoDup|]. intros a. apply Nat2N.id. Qed.

(* the key of what stands on a square *)
Definition cell_key (c : cell) (q : N) : N := match c with Some (s, pc) => piece_key K pc s q | None => 0 end.
Definition board_hash (f : mb) : N := xsum (fun q => cell_key (f q) q) all64.

Lemma board_hash_upd f x c : x < 64 -> board_hash (upd f x c) = N.lxor (N.lxor (board_hash f) (cell_key (f x) x)) (cell_key c x).
Proof.
  intros Hx. unfold board_hash.
  rewrite (xsum_upd (fun q => cell_key (f q) q) (fun q => cell_key (upd f x c q) q) x all64 nodup_all64); [|apply in_all64; exact Hx|].
  - rewrite upd_same. reflexivity.
  - intros q Hq. rewrite upd_other by exact Hq. reflexivity.
Qed.
Lemma board_hash_ext f g : (forall q, q < 64 -> f q = g q) -> board_hash f = board_hash g.
Proof. intros H. apply xsum_ext. intros q Hq. rewrite H by (apply in_all64; exact Hq). reflexivity. Qed.

(* the piece part of calculate_hash: twelve iterations over bitboards *)
Definition ind_key (p : position) (s : side) (pc : piece) (q : N) : N :=
  if N.testbit (pieces p s pc) q then piece_key K pc s q else 0.

Lemma xor_keys_sum p s pc h : pieces p s pc < two64 ->
  xor_keys K pc s (bb_squares (pieces p s pc)) h = N.lxor h (xsum (ind_key p s pc) all64).
Proof.
  intros Hlt. unfold xor_keys. rewrite fold_xor_acc. f_equal.
  rewrite bb_squares_members by exact Hlt. apply (xsum_filter (piece_key K pc s) (mem (pieces p s pc)) all64).
Qed.

Lemma pieces_lt p s pc : board_lt (brd p) -> pieces p s pc < two64.
Proof. intros H. unfold pieces. apply land_lt. apply colour_lt. exact H. Qed.

Definition side_sum (p : position) (s : side) : N :=
  xsum (fun q => N.lxor (N.lxor (N.lxor (N.lxor (N.lxor (ind_key p s Pawn q) (ind_key p s Knight q)) (ind_key p s Bishop q)) (ind_key p s Rook q)) (ind_key p s Queen q)) (ind_key p s King q)) all64.

Lemma hash_side_sum p s h : board_lt (brd p) -> hash_side K p s h = N.lxor h (side_sum p s).
Proof.
  intros Hlt. unfold hash_side, side_sum. rewrite !xor_keys_sum by (apply pieces_lt; exact Hlt).
  rewrite !xsum_xor.
  repeat match goal with |- context [xsum ?g all64] => let v := fresh "v" in generalize (xsum g all64); intros v end.
  xor_solve.
Qed.

(* under the representation invariant the twelve sums are the sum over the squares of the key of the occupant *)
Lemma sides_board_hash p f : rep (brd p) f -> N.lxor (side_sum p White) (side_sum p Black) = board_hash f.
Proof.
  intros [H _]. unfold side_sum, board_hash. rewrite <- xsum_xor. apply xsum_ext. intros q Hq. apply in_all64 in Hq.
  destruct (H q Hq) as [[Hc Hp] Hg]. unfold ind_key, pieces, occupancy_s, occupancy_p. rewrite !N.land_spec.
  rewrite !Hc, !Hp by discriminate.
  destruct (f q) as [[s0 p0]|]; [|cbn; reflexivity].
  destruct s0, p0; cbn in Hg |- *; try contradiction; rewrite ?N.lxor_0_l, ?N.lxor_0_r; reflexivity.
Qed.

Definition turn_part (s : side) : N := match s with Black => turn_key K | White => 0 end.
Definition castle_part (a b c d : bool) : N :=
  N.lxor (N.lxor (N.lxor (if a then castling_key K 0 else 0) (if b then castling_key K 1 else 0)) (if c then castling_key K 2 else 0)) (if d then castling_key K 3 else 0).
Definition ep_part (e : N) : N := if negb (e =? OffSq) then ep_key K e else 0.

Theorem calculate_hash_rep p f : rep (brd p) f ->
  calculate_hash K p = N.lxor (N.lxor (N.lxor (turn_part (turn p)) (board_hash f)) (castle_part (c0 p) (c1 p) (c2 p) (c3 p))) (ep_part (ep p)).
Proof.
  intros Hrep. pose proof Hrep as [_ Hlt]. unfold calculate_hash. rewrite !hash_side_sum by exact Hlt.
  rewrite <- (sides_board_hash p f Hrep). unfold turn_part, castle_part, ep_part.
  generalize (side_sum p White) (side_sum p Black) (turn_key K) (castling_key K 0) (castling_key K 1) (castling_key K 2) (castling_key K 3) (ep_key K (ep p)).
  intros v1 v2 v3 v4 v5 v6 v7 v8.
  destruct (turn p), (c0 p), (c1 p), (c2 p), (c3 p), (negb (ep p =? OffSq)); xor_solve0.
Qed.

(* ---------- the step: makemove keeps hash() = calculate_hash() ---------- *)
Definition hash_ok (p : position) : Prop := hash p = calculate_hash K p.

(* the piece keys a move toggles *)
Definition piece_delta (us : side) (m : move) (rk rq : N) : N :=
  let them := opp_side us in
  let from := m_from m in let to := m_to m in
  let pc := m_piece m in let cap := m_cap m in let pr := m_promo m in
  let pk := piece_key K in
  match m_type m with
  | Normal | Double => N.lxor (pk pc us from) (pk pc us to)
  | Capture => N.lxor (N.lxor (pk pc us from) (pk pc us to)) (pk cap them to)
  | Enpassant => N.lxor (N.lxor (pk Pawn us from) (pk Pawn us to)) (pk Pawn them (victim_sq us to))
  | Ksc => N.lxor (N.lxor (N.lxor (pk King us from) (pk King us (castle_king_to (side_to_N us * 2)))) (pk Rook us rk)) (pk Rook us (ksc_rook_to us))
  | Qsc => N.lxor (N.lxor (N.lxor (pk King us from) (pk King us (castle_king_to (side_to_N us * 2 + 1)))) (pk Rook us rq)) (pk Rook us (qsc_rook_to us))
  | Promo => N.lxor (pk Pawn us from) (pk pr us to)
  | PromoCapture => N.lxor (N.lxor (pk Pawn us from) (pk pr us to)) (pk cap them to)
  end.

Lemma board_hash_apply f us m rk rq : rk < 64 -> rq < 64 -> mfits f us m rk rq ->
  board_hash (apply_mb f us m rk rq) = N.lxor (board_hash f) (piece_delta us m rk rq).
Proof.
  intros Hrk Hrq Hfit. unfold mfits in Hfit. destruct Hfit as (Hfrom & Hto & Hfit).
  unfold apply_mb, piece_delta. destruct (m_type m).
  - destruct Hfit as (E1 & E2 & Hne).
    rewrite !board_hash_upd by assumption. rewrite upd_other by congruence. rewrite E1, E2. cbn [cell_key]. unfold board_hash, xsum, piece_key. gen_atoms. xor_solve0.
  - destruct Hfit as (E1 & E2 & Hne).
    rewrite !board_hash_upd by assumption. rewrite upd_other by congruence. rewrite E1, E2. cbn [cell_key]. unfold board_hash, xsum, piece_key. gen_atoms. xor_solve0.
  - destruct Hfit as (Ep & E1 & E2 & Hne & _).
    rewrite !board_hash_upd by assumption. rewrite upd_other by congruence. rewrite E1, E2. cbn [cell_key]. unfold board_hash, xsum, piece_key. gen_atoms. xor_solve0.
  - destruct Hfit as (Ep & Ec & E1 & E2 & Hv & E3 & N1 & N2 & N3).
    rewrite !board_hash_upd by assumption. rewrite !upd_other by congruence. rewrite E1, E2, E3. cbn [cell_key]. unfold board_hash, xsum, piece_key. gen_atoms. xor_solve0.
  - destruct Hfit as (Ep & Et & E1 & E2 & Hne & Hk & Hr).
    rewrite !board_hash_upd by (first [assumption | apply king_to_lt | apply ksc_rook_to_lt]).
    rewrite (upd_other f (m_from m) None rk) by congruence. rewrite E1, E2. cbn [cell_key].
    assert (Z1 : upd (upd f (m_from m) None) rk None (castle_king_to (side_to_N us * 2)) = None).
    { unfold upd. destruct (N.eqb_spec (castle_king_to (side_to_N us * 2)) rk); [reflexivity|].
      destruct (N.eqb_spec (castle_king_to (side_to_N us * 2)) (m_from m)); [reflexivity|]. destruct Hk as [Hk|[Hk|Hk]]; congruence. }
    assert (Z2 : upd (upd (upd f (m_from m) None) rk None) (castle_king_to (side_to_N us * 2)) (Some (us, King)) (ksc_rook_to us) = None).
    { rewrite upd_other by (apply not_eq_sym, king_rook_to_ne_k). unfold upd. destruct (N.eqb_spec (ksc_rook_to us) rk); [reflexivity|].
      destruct (N.eqb_spec (ksc_rook_to us) (m_from m)); [reflexivity|]. destruct Hr as [Hr|[Hr|Hr]]; congruence. }
    rewrite Z1, Z2. cbn [cell_key]. unfold board_hash, xsum, piece_key. gen_atoms. xor_solve0.
  - destruct Hfit as (Ep & Et & E1 & E2 & Hne & Hk & Hr).
    rewrite !board_hash_upd by (first [assumption | apply king_to_lt | apply qsc_rook_to_lt]).
    rewrite (upd_other f (m_from m) None rq) by congruence. rewrite E1, E2. cbn [cell_key].
    assert (Z1 : upd (upd f (m_from m) None) rq None (castle_king_to (side_to_N us * 2 + 1)) = None).
    { unfold upd. destruct (N.eqb_spec (castle_king_to (side_to_N us * 2 + 1)) rq); [reflexivity|].
      destruct (N.eqb_spec (castle_king_to (side_to_N us * 2 + 1)) (m_from m)); [reflexivity|]. destruct Hk as [Hk|[Hk|Hk]]; congruence. }
    assert (Z2 : upd (upd (upd f (m_from m) None) rq None) (castle_king_to (side_to_N us * 2 + 1)) (Some (us, King)) (qsc_rook_to us) = None).
    { rewrite upd_other by (apply not_eq_sym, king_rook_to_ne_q). unfold upd. destruct (N.eqb_spec (qsc_rook_to us) rq); [reflexivity|].
      destruct (N.eqb_spec (qsc_rook_to us) (m_from m)); [reflexivity|]. destruct Hr as [Hr|[Hr|Hr]]; congruence. }
    rewrite Z1, Z2. cbn [cell_key]. unfold board_hash, xsum, piece_key. gen_atoms. xor_solve0.
  - destruct Hfit as (Ep & Hpr & E1 & E2 & Hne).
    rewrite !board_hash_upd by assumption. rewrite upd_other by congruence. rewrite E1, E2. cbn [cell_key]. unfold board_hash, xsum, piece_key. gen_atoms. xor_solve0.
  - destruct Hfit as (Ep & Hpr & E1 & E2 & Hne).
    rewrite !board_hash_upd by assumption. rewrite upd_other by congruence. rewrite E1, E2. cbn [cell_key]. unfold board_hash, xsum, piece_key. gen_atoms. xor_solve0.
Qed.

(* make_hash adds exactly those keys (and the new ep key after a double push) *)
Lemma make_hash_delta f h us m rk rq : mfits f us m rk rq ->
  make_hash K h us m rk rq = N.lxor (N.lxor h (piece_delta us m rk rq)) (ep_part (make_ep us m)).
Proof.
  intros Hfit. unfold mfits in Hfit. destruct Hfit as (Hfrom & Hto & Hfit).
  unfold make_hash, piece_delta, make_ep, ep_part, victim_sq. destruct (m_type m) eqn:Et; cbn [negb N.eqb OffSq].
  - change (negb (OffSq =? OffSq)) with false. cbn iota. xor_solve0.
  - change (negb (OffSq =? OffSq)) with false. cbn iota. xor_solve0.
  - destruct Hfit as (Ep & _ & _ & _ & Hw8).
    assert (Hne : negb (match us with White => sq_south (m_to m) | Black => sq_north (m_to m) end =? OffSq) = true).
    { destruct us; [rewrite sq_south_eq by (try exact Hto; apply Hw8; reflexivity)|rewrite sq_north_eq by exact Hto]; unfold OffSq; lia. }
    rewrite Hne. xor_solve0.
  - destruct Hfit as (Ep & _). rewrite Ep. change (negb (OffSq =? OffSq)) with false. cbn iota. destruct us; xor_solve0.
  - destruct Hfit as (Ep & _). rewrite Ep. change (negb (OffSq =? OffSq)) with false. cbn iota. xor_solve0.
  - destruct Hfit as (Ep & _). rewrite Ep. change (negb (OffSq =? OffSq)) with false. cbn iota. xor_solve0.
  - destruct Hfit as (Ep & _). rewrite Ep. change (negb (OffSq =? OffSq)) with false. cbn iota. xor_solve0.
  - destruct Hfit as (Ep & _). rewrite Ep. change (negb (OffSq =? OffSq)) with false. cbn iota. xor_solve0.
Qed.

Lemma adj_chain (a b c d ca cb cc cd : bool) h :
  (if negb (Bool.eqb (d && negb cd) d) then N.lxor
     (if negb (Bool.eqb (c && negb cc) c) then N.lxor
        (if negb (Bool.eqb (b && negb cb) b) then N.lxor
           (if negb (Bool.eqb (a && negb ca) a) then N.lxor h (castling_key K 0) else h) (castling_key K 1)
         else if negb (Bool.eqb (a && negb ca) a) then N.lxor h (castling_key K 0) else h) (castling_key K 2)
      else if negb (Bool.eqb (b && negb cb) b) then N.lxor
           (if negb (Bool.eqb (a && negb ca) a) then N.lxor h (castling_key K 0) else h) (castling_key K 1)
         else if negb (Bool.eqb (a && negb ca) a) then N.lxor h (castling_key K 0) else h) (castling_key K 3)
   else if negb (Bool.eqb (c && negb cc) c) then N.lxor
        (if negb (Bool.eqb (b && negb cb) b) then N.lxor
           (if negb (Bool.eqb (a && negb ca) a) then N.lxor h (castling_key K 0) else h) (castling_key K 1)
         else if negb (Bool.eqb (a && negb ca) a) then N.lxor h (castling_key K 0) else h) (castling_key K 2)
      else if negb (Bool.eqb (b && negb cb) b) then N.lxor
           (if negb (Bool.eqb (a && negb ca) a) then N.lxor h (castling_key K 0) else h) (castling_key K 1)
         else if negb (Bool.eqb (a && negb ca) a) then N.lxor h (castling_key K 0) else h)
  = N.lxor (N.lxor h (castle_part a b c d)) (castle_part (a && negb ca) (b && negb cb) (c && negb cc) (d && negb cd)).
Proof. unfold castle_part. generalize (castling_key K 0) (castling_key K 1) (castling_key K 2) (castling_key K 3). intros k0 k1 k2 k3.
       destruct a, b, c, d, ca, cb, cc, cd; cbn; xor_solve0. Qed.

Theorem makemove_hash_ok p m :
  wf p = true -> rooks_ok p ->
  mfits (cell_of p) (turn p) m (rook_from_get p (side_to_N (turn p) * 2)) (rook_from_get p (side_to_N (turn p) * 2 + 1)) ->
  hash_ok p -> hash_ok (makemove K p m).
Proof.
  intros Hwf Hr Hfit Hok.
  set (rk := rook_from_get p (side_to_N (turn p) * 2)) in *. set (rq := rook_from_get p (side_to_N (turn p) * 2 + 1)) in *.
  assert (Hrk : rk < 64) by (unfold rk; replace (side_to_N (turn p) * 2) with (side_to_N (turn p) * 2 + 0) by lia; apply rook_from_get_lt; exact Hr).
  assert (Hrq : rq < 64) by (apply rook_from_get_lt; exact Hr).
  pose proof (wf_rep (brd p) Hwf) as Hrep.
  change (mfits (cell_of_b (brd p)) (turn p) m rk rq) in Hfit.
  pose proof (make_board_rep (brd p) (cell_of_b (brd p)) (turn p) m rk rq Hrk Hrq Hrep Hfit) as Hrep'.
  unfold hash_ok in *.
  rewrite (calculate_hash_rep (makemove K p m) _ Hrep').
  rewrite (calculate_hash_rep p _ Hrep) in Hok.
  unfold makemove. cbn [hash turn to_move c0 c1 c2 c3 ep]. fold rk rq.
  match goal with |- context [if negb (Bool.eqb (c3 p && negb ?cd) (c3 p)) then _ else _] =>
    match goal with |- context [Bool.eqb (c2 p && negb ?cc) (c2 p)] =>
      match goal with |- context [Bool.eqb (c1 p && negb ?cb) (c1 p)] =>
        match goal with |- context [Bool.eqb (c0 p && negb ?ca) (c0 p)] =>
          rewrite (adj_chain (c0 p) (c1 p) (c2 p) (c3 p) ca cb cc cd) end end end end.
  rewrite (make_hash_delta _ _ _ _ _ _ Hfit).
  rewrite (board_hash_apply _ _ _ _ _ Hrk Hrq Hfit).
  rewrite Hok. unfold turn_part.
  generalize (board_hash (cell_of_b (brd p))) (piece_delta (turn p) m rk rq) (ep_part (make_ep (turn p) m)) (turn_key K).
  intros v1 v2 v3 v4.
  match goal with |- context [castle_part (c0 p && ?a) (c1 p && ?b) (c2 p && ?c) (c3 p && ?d)] => generalize (castle_part (c0 p && a) (c1 p && b) (c2 p && c) (c3 p && d)) end.
  generalize (castle_part (c0 p) (c1 p) (c2 p) (c3 p)). intros v6 v7.
  unfold ep_part. generalize (ep_key K (ep p)). intros v5.
  unfold turn. destruct (to_move p), (negb (ep p =? OffSq)); cbn [opp_side]; xor_solve0.
Qed.

Theorem makenull_hash_ok p : wf p = true -> hash_ok p -> hash_ok (makenull K p).
Proof.
  intros Hwf Hok. pose proof (wf_rep (brd p) Hwf) as Hrep. unfold hash_ok in *.
  rewrite (calculate_hash_rep (makenull K p) _ Hrep). rewrite (calculate_hash_rep p _ Hrep) in Hok.
  unfold makenull. cbn [hash turn to_move c0 c1 c2 c3 ep]. rewrite Hok. unfold turn_part, ep_part. change (negb (OffSq =? OffSq)) with false. cbn iota.
  generalize (board_hash (cell_of_b (brd p))) (castle_part (c0 p) (c1 p) (c2 p) (c3 p)) (turn_key K) (ep_key K (ep p)). intros v1 v2 v3 v4.
  unfold turn. destruct (to_move p), (negb (ep p =? OffSq)); cbn [opp_side]; xor_solve0.
Qed.
End Hash.

Section Reach.
Variable K : zkeys.

(* states reached from p0 by legal-shaped makemoves and null moves (undo returns to an earlier member, C03) *)
Inductive reach (p0 : position) : position -> Prop :=
| reach_start : reach p0 p0
| reach_make p m : reach p0 p ->
    mfits (cell_of p) (turn p) m (rook_from_get p (side_to_N (turn p) * 2)) (rook_from_get p (side_to_N (turn p) * 2 + 1)) ->
    reach p0 (makemove K p m)
| reach_null p : reach p0 p -> reach p0 (makenull K p).

Theorem reachable_hash_ok p0 : wf p0 = true -> rooks_ok p0 -> hash_ok K p0 ->
  forall p, reach p0 p -> hash_ok K p /\ wf p = true /\ rooks_ok p.
Proof.
  intros Hwf Hr Hok p H. induction H as [|p m H IH Hfit|p H IH].
  - split; [exact Hok|split; [exact Hwf|exact Hr]].
  - destruct IH as (I1 & I2 & I3). split; [apply makemove_hash_ok; assumption|]. split; [apply (makemove_refines K p m I2 I3 Hfit)|exact I3].
  - destruct IH as (I1 & I2 & I3). split; [apply makenull_hash_ok; assumption|]. split; [exact I2|exact I3].
Qed.

(* the hash depends on the position alone: placement, side to move, the four rights, the ep square —
   never on clocks or history *)
Theorem calculate_hash_position_only p q : wf p = true -> wf q = true ->
  (forall x, x < 64 -> cell_of p x = cell_of q x) -> turn p = turn q ->
  c0 p = c0 q -> c1 p = c1 q -> c2 p = c2 q -> c3 p = c3 q -> ep p = ep q ->
  calculate_hash K p = calculate_hash K q.
Proof.
  intros Hp Hq Hc Ht E0 E1 E2 E3 Ee.
  rewrite (calculate_hash_rep K p _ (wf_rep _ Hp)), (calculate_hash_rep K q _ (wf_rep _ Hq)).
  rewrite Ht, E0, E1, E2, E3, Ee. f_equal. f_equal. f_equal. apply board_hash_ext. exact Hc.
Qed.
End Reach.
