(* KingFacts.v — C01 milestone: king steps.  check_evasions() — and the king part of the generated lists — is
   exactly the set of legal king steps of the rules: no king step missing, none extra, none twice, labels right. *)
From Coq Require Import NArith ZArith List Bool Lia.
From Coq Require Import ZifyBool ZifyN ZifyNat.
From LC Require Import Bits BitsFacts Types BitboardModel BitboardFacts MoveModel MoveFacts MagicModel MagicFacts PositionModel MovegenModel MovegenFacts
  BoardFacts Spec.Rules Refine.Abs Refine.Board Refine.Make Refine.Wf Refine.MakeAbs AttackFacts PinFacts.
Import ListNotations.
Local Open Scope N_scope.

Lemma opp_of_neq' c s : side_eqb c s = false -> c = opp_side s.
Proof. destruct c, s; cbn; intros H; try discriminate; reflexivity. Qed.

(* no piece attacks its own square *)
Lemma piece_attacks_self_sweep : forallb (fun a => forallb (fun pc => negb (piece_attacks [] White pc a a) && negb (piece_attacks [] Black pc a a)) all_pieces7) all64 = true.
Proof. vm_compute. reflexivity. Qed.
Lemma piece_attacks_self b s pc a : a < 64 -> piece_attacks b s pc a a = false.
Proof.
  intros Ha. pose proof (forallb_all64 _ piece_attacks_self_sweep a Ha) as H. rewrite forallb_forall in H.
  assert (Hin : In pc all_pieces7) by (destruct pc; cbn; tauto). specialize (H pc Hin).
  apply andb_true_iff in H. destruct H as [H1 H2]. apply negb_true_iff in H1. apply negb_true_iff in H2.
  destruct pc; cbn [piece_attacks] in *; rewrite ?N.eqb_refl; try reflexivity; destruct s; assumption.
Qed.

Lemma all_empty_ext g g' l : (forall x, In x l -> x < 64 /\ g x = g' x) -> all_empty (board_of g) l = all_empty (board_of g') l.
Proof.
  intros H. unfold all_empty. induction l as [|x r IH]; [reflexivity|]. cbn [forallb].
  destruct (H x (or_introl eq_refl)) as [Hx E]. unfold is_empty. rewrite !at_board_of by exact Hx. rewrite E.
  f_equal. apply IH. intros y Hy. apply H. right. exact Hy.
Qed.

Lemma piece_attacks_ext g g' s pc a q : a < 64 -> q < 64 -> (forall x, x < 64 -> x <> q -> x <> a -> g x = g' x) ->
  piece_attacks (board_of g) s pc a q = piece_attacks (board_of g') s pc a q.
Proof.
  intros Ha Hq H. destruct (between_geo a q Ha Hq) as (Hnq & Hna & _ & Hbt).
  assert (E : all_empty (board_of g) (between a q) = all_empty (board_of g') (between a q)).
  { apply all_empty_ext. intros x Hx. destruct (Hbt x Hx) as (Hx64 & Hxa & Hxq & _). split; [exact Hx64|]. apply H; assumption. }
  destruct pc; cbn [piece_attacks]; rewrite ?E; reflexivity.
Qed.

(* what stands on the target square does not matter for whether side s attacks it, as long as both boards agree elsewhere *)
Lemma attacked_target_irrelevant g g' q s : q < 64 -> (forall x, x < 64 -> x <> q -> g x = g' x) ->
  attacked (board_of g) q s = attacked (board_of g') q s.
Proof.
  intros Hq H. unfold attacked, attackers_of. rewrite all64_squares, <- !existsb_nonempty_filter.
  apply existsb_ext_in. intros a Ha. apply in_all64 in Ha. rewrite !at_board_of by exact Ha.
  destruct (N.eq_dec a q) as [->|Hne].
  - destruct (g q) as [[c pc]|], (g' q) as [[c' pc']|]; rewrite ?piece_attacks_self by exact Hq; rewrite ?andb_false_r; reflexivity.
  - rewrite (H a Ha Hne). destruct (g' a) as [[c pc]|]; [|reflexivity]. f_equal.
    apply piece_attacks_ext; try assumption. intros x Hx Hxq _. apply H; assumption.
Qed.

Lemma find_king_upd f s k to : k < 64 -> to < 64 -> (forall a, a < 64 -> f a = Some (s, King) -> a = k) ->
  find_king (board_of (upd (upd f k None) to (Some (s, King)))) s = Some to.
Proof.
  intros Hk Hto Huniq. unfold find_king. rewrite all64_squares.
  set (P := fun q => match at_sq (board_of (upd (upd f k None) to (Some (s, King)))) q with Some (c, King) => side_eqb c s | _ => false end).
  assert (Hp : forall q, q < 64 -> P q = (q =? to)).
  { intros q Hq. unfold P. rewrite at_board_of by exact Hq. unfold upd. destruct (N.eqb_spec q to) as [->|Hne]; [rewrite side_eqb_refl; reflexivity|].
    destruct (N.eqb_spec q k) as [->|Hnk]; [reflexivity|]. destruct (f q) as [[c pc]|] eqn:Ef; [|reflexivity].
    destruct pc; try reflexivity. destruct (side_eqb c s) eqn:Ec; [|reflexivity]. apply side_eqb_true in Ec. subst c. exfalso. apply Hnk. apply Huniq; assumption. }
  destruct (find P all64) as [x|] eqn:E.
  - apply find_some in E. destruct E as [Hx Hpx]. apply in_all64 in Hx. rewrite (Hp x Hx) in Hpx. apply N.eqb_eq in Hpx. subst. reflexivity.
  - exfalso. pose proof (find_none _ _ E to (proj2 (in_all64 to) Hto)) as Hn. rewrite (Hp to Hto), N.eqb_refl in Hn. discriminate.
Qed.

(* ---------- king steps: model side ---------- *)
Section KingSteps.
Variable p : position.
Variable f : mb.
Hypothesis Hrep : rep (brd p) f.
Let us := turn p.
Let them := opp_side us.
Variables k ek : N.
Hypothesis Hk : find_king (board_of f) us = Some k.
Hypothesis Huk : forall a, a < 64 -> f a = Some (us, King) -> a = k.
Hypothesis Hek : find_king (board_of f) them = Some ek.
Hypothesis Huek : forall a, a < 64 -> f a = Some (them, King) -> a = ek.

Lemma k_facts : king_position p us = k /\ k < 64 /\ f k = Some (us, King).
Proof. apply king_position_exact; assumption. Qed.

(* the rules' verdict on the king step k -> t (t not occupied by an own piece or a king) *)
Definition king_step_safe (t : N) : bool := negb (attacked (board_of (upd (upd f k None) t (Some (us, King)))) t them).

Lemma king_step_safe_lifted t : t < 64 -> t <> k ->
  king_step_safe t = negb (attacked (board_of (upd f k None)) t them).
Proof.
  intros Ht Hne. unfold king_step_safe. f_equal. apply attacked_target_irrelevant; [exact Ht|].
  intros x Hx Hxt. unfold upd at 1. destruct (N.eqb_spec x t); [contradiction|reflexivity].
Qed.

(* membership in the king part of the generators *)
Definition king_target (t : N) : bool := N.testbit (king_moves k) t && N.testbit (king_allowed_s p us) t.

Lemma king_target_spec t : t < 64 ->
  king_target t = piece_attacks (board_of f) us King k t &&
                  negb (match f t with Some (c, pc) => side_eqb c us || piece_eqb pc King | None => false end) &&
                  king_step_safe t.
Proof.
  intros Ht. destruct k_facts as (_ & Hk64 & Hfk). unfold king_target.
  rewrite (king_moves_geometric k t (board_of f) us Hk64 Ht).
  rewrite (king_allowed_exact p f us k ek t Hrep Ht Hk Huk Hek Huek).
  destruct (N.eq_dec t k) as [->|Hne].
  - rewrite piece_attacks_self by exact Hk64. reflexivity.
  - rewrite (king_step_safe_lifted t Ht Hne). rewrite andb_assoc. reflexivity.
Qed.
End KingSteps.

(* ---------- membership lemmas ---------- *)
Lemma in_emit_iff bb g (m : move) : bb < two64 -> (In m (emit bb g) <-> exists sq, sq < 64 /\ N.testbit bb sq = true /\ In m (g sq)).
Proof.
  intros Hbb. unfold emit. rewrite in_flat_map. split.
  - intros [sq [Hs Hm]]. unfold bb_squares in Hs. apply bits_spec in Hs; [|exact Hbb]. exists sq. split; [|split; assumption].
    destruct (N.lt_ge_cases sq 64) as [H|H]; [exact H|]. rewrite (proj1 (lt64_iff bb) Hbb sq H) in Hs. discriminate.
  - intros [sq [H64 [Hb Hm]]]. exists sq. split; [unfold bb_squares; apply bits_spec; assumption|exact Hm].
Qed.

Definition is_king_step (m : move) : bool :=
  piece_eqb (m_piece m) King && match m_type m with Normal | Capture => true | _ => false end.

Section KingExact.
Variable p : position.
Hypothesis Hwf : wf p = true.
Let f := cell_of_b (brd p).
Let us := turn p.
Let them := opp_side us.
Variables k ek : N.
Hypothesis Hk : find_king (abs_board p) us = Some k.
Hypothesis Huk : forall a, a < 64 -> f a = Some (us, King) -> a = k.
Hypothesis Hek : find_king (abs_board p) them = Some ek.
Hypothesis Huek : forall a, a < 64 -> f a = Some (them, King) -> a = ek.

Let Hrep : rep (brd p) f := wf_rep (brd p) Hwf.
Lemma abs_board_f : abs_board p = board_of f. Proof. reflexivity. Qed.

(* the canonical description of the legal king steps *)
Definition king_step_of (t : N) (m : move) : Prop :=
  t < 64 /\ king_target p k t = true /\
  ((exists cp, f t = Some (them, cp) /\ m = mkMove Capture k t King cp NoPiece) \/ (f t = None /\ m = mkMove Normal k t King NoPiece NoPiece)).

Lemma occupancy_them_bit t : t < 64 -> N.testbit (occupancy_s p them) t = match f t with Some (c, _) => side_eqb c them | None => false end.
Proof.
  intros Ht. destruct Hrep as [H _]. destruct (H t Ht) as [[Hc _] _]. unfold occupancy_s. rewrite Hc.
  destruct (f t) as [[c pc]|]; [apply side_eqb_sym_lemma|reflexivity].
Qed.
Lemma empty_bit t : t < 64 -> N.testbit (empty_sqs p) t = match f t with Some _ => false | None => true end.
Proof.
  intros Ht. unfold empty_sqs. rewrite not64_spec. replace (t <? 64) with true by lia. cbn [andb].
  rewrite (occupied_rep p f t Hrep Ht). destruct (f t); reflexivity.
Qed.
Lemma piece_on_f t pc c : t < 64 -> f t = Some (c, pc) -> piece_on p t = pc.
Proof. intros Ht E. unfold f, cell_of_b in E. fold (piece_on p t) in E. destruct (piece_on p t); inversion E; reflexivity. Qed.

Lemma king_allowed_lt : king_allowed_s p us < two64.
Proof. rewrite king_allowed_union. apply not64_lt. Qed.
Lemma king_moves_lt q : q < 64 -> king_moves q < two64.
Proof.
  intros Hq. pose proof (forallb_all64 _ leaper_sweep q Hq) as H. apply andb_true_iff in H. destruct H as [_ H]. apply N.ltb_lt. exact H.
Qed.

Lemma not_own_king_target t : t < 64 -> king_target p k t = true ->
  match f t with Some (c, pc) => c = them /\ pc <> King | None => True end.
Proof.
  intros Ht H. rewrite (king_target_spec p f Hrep k ek) in H by (rewrite <- ?abs_board_f; assumption).
  apply andb_true_iff in H. destruct H as [H _]. apply andb_true_iff in H. destruct H as [_ H]. apply negb_true_iff in H.
  destruct (f t) as [[c pc]|]; [|exact I]. apply orb_false_iff in H. destruct H as [H1 H2]. split.
  - apply opp_of_neq'. exact H1.
  - intros ->. discriminate.
Qed.

Theorem check_evasions_iff m : In m (check_evasions p) <-> exists t, king_step_of t m.
Proof.
  destruct (k_facts p f Hrep k) as (Ekp & Hk64 & Hfk); [rewrite <- abs_board_f; exact Hk|].
  unfold check_evasions. rewrite Ekp. rewrite in_app_iff. change (opp_side (turn p)) with them. change (turn p) with us.
  set (mask := N.land (king_moves k) (king_allowed_s p us)).
  assert (Hmask : forall t, N.testbit mask t = king_target p k t) by (intros t; unfold mask, king_target; apply N.land_spec).
  assert (Hmlt : mask < two64) by (apply land_lt, king_moves_lt, Hk64).
  rewrite !in_emit_iff by (rewrite N.land_comm; apply land_lt; exact Hmlt).
  split.
  - intros [[t [Ht [Hb Hm]]]|[t [Ht [Hb Hm]]]]; exists t; rewrite N.land_spec, Hmask in Hb; apply andb_true_iff in Hb; destruct Hb as [Hb1 Hb2];
      (split; [exact Ht|split; [exact Hb2|]]); destruct Hm as [<-|[]].
    + rewrite (occupancy_them_bit t Ht) in Hb1. destruct (f t) as [[c pc]|] eqn:Ef; [|discriminate]. apply side_eqb_true in Hb1. subst c.
      left. exists pc. split; [reflexivity|]. rewrite (piece_on_f t pc them Ht Ef). reflexivity.
    + rewrite (empty_bit t Ht) in Hb1. destruct (f t) eqn:Ef; [discriminate|]. right. split; reflexivity.
  - intros [t (Ht & Hkt & [[cp [Ef ->]]|[Ef ->]])].
    + left. exists t. split; [exact Ht|]. split; [rewrite N.land_spec, Hmask, Hkt, (occupancy_them_bit t Ht), Ef, side_eqb_refl; reflexivity|].
      left. rewrite (piece_on_f t cp them Ht Ef). reflexivity.
    + right. exists t. split; [exact Ht|]. split; [rewrite N.land_spec, Hmask, Hkt, (empty_bit t Ht), Ef; reflexivity|]. left. reflexivity.
Qed.
End KingExact.

Lemma in_squares q : In q squares <-> q < 64.
Proof. rewrite all64_squares. apply in_all64. Qed.

(* ---------- king steps: specification side ---------- *)
Lemma piece_candidates_labels sp fr pc m : In m (piece_candidates sp fr pc) ->
  m_piece m = pc /\ m_from m = fr /\ (m_type m = Normal \/ m_type m = Capture).
Proof.
  unfold piece_candidates. intros H. apply in_flat_map in H. destruct H as [to [_ H]].
  destruct (piece_attacks _ _ _ _ _); [|destruct H]. destruct (at_sq _ to) as [[c cp]|].
  - destruct (_ && _); [|destruct H]. destruct H as [<-|[]]. cbn. tauto.
  - destruct H as [<-|[]]. cbn. tauto.
Qed.
Lemma pawn_candidates_labels sp fr m : In m (pawn_candidates sp fr) -> m_piece m = Pawn.
Proof.
  unfold pawn_candidates. intros H. apply in_app_or in H. destruct H as [H|H].
  - repeat match type of H with
           | In _ (match ?o with Some _ => _ | None => _ end) => destruct o
           | In _ (if ?c then _ else _) => destruct c
           | In _ (_ ++ _) => apply in_app_or in H; destruct H as [H|H]
           | In _ (map _ _) => apply in_map_iff in H; destruct H as [? [<- _]]
           | In _ [] => destruct H
           | In _ (_ :: _) => destruct H as [<-|H]
           end; reflexivity.
  - apply in_flat_map in H. destruct H as [to [_ H]].
    repeat match type of H with
           | In _ (match ?o with Some _ => _ | None => _ end) => destruct o
           | In _ (match ?o with (_, _) => _ end) => destruct o
           | In _ (if ?c then _ else _) => destruct c
           | In _ (map _ _) => apply in_map_iff in H; destruct H as [? [<- _]]
           | In _ [] => destruct H
           | In _ (_ :: _) => destruct H as [<-|H]
           end; reflexivity.
Qed.
Lemma castle_candidate_labels sp mt r m : In m (castle_candidate sp mt r) -> m_type m = mt.
Proof.
  unfold castle_candidate. intros H.
  repeat match type of H with
         | In _ (match ?o with Some _ => _ | None => _ end) => destruct o
         | In _ (let '(_, _) := ?o in _) => destruct o
         | In _ (if ?c then _ else _) => destruct c
         | In _ [] => destruct H
         | In _ (_ :: _) => destruct H as [<-|H]
         end; reflexivity.
Qed.

Section KingSpec.
Variable p : position.
Hypothesis Hwf : wf p = true.
Let f := cell_of_b (brd p).
Let us := turn p.
Let them := opp_side us.
Variables k ek : N.
Hypothesis Hk : find_king (abs_board p) us = Some k.
Hypothesis Huk : forall a, a < 64 -> f a = Some (us, King) -> a = k.
Hypothesis Hek : find_king (abs_board p) them = Some ek.
Hypothesis Huek : forall a, a < 64 -> f a = Some (them, King) -> a = ek.
Let Hrep : rep (brd p) f := wf_rep (brd p) Hwf.

Lemma king_step_board t : apply_board (abs_board p) us (mkMove Normal k t King NoPiece NoPiece) = board_of (upd (upd f k None) t (Some (us, King))).
Proof.
  unfold apply_board. cbn [m_type m_from m_to m_piece]. rewrite !put_as_map. unfold board_of. apply map_all64_ext. intros q Hq. unfold upd.
  destruct (q =? t); [reflexivity|]. rewrite at_sq_map by exact Hq. destruct (q =? k); [reflexivity|]. apply at_sq_abs_board. exact Hq.
Qed.

Lemma leaves_safe_king_step t ty cp : t < 64 -> (ty = Normal \/ ty = Capture) ->
  leaves_king_safe (abs p) (mkMove ty k t King cp NoPiece) = king_step_safe p f k t.
Proof.
  intros Ht Hty. destruct (k_facts p f Hrep k Hk) as (_ & Hk64 & _).
  unfold leaves_king_safe, king_step_safe. cbn [abs s_board s_turn].
  assert (Eb : apply_board (abs_board p) (turn p) (mkMove ty k t King cp NoPiece) = board_of (upd (upd f k None) t (Some (us, King)))).
  { rewrite <- king_step_board. destruct Hty as [-> | ->]; reflexivity. }
  rewrite Eb. unfold king_attacked. fold us. rewrite (find_king_upd f us k t Hk64 Ht Huk). reflexivity.
Qed.

Theorem spec_king_steps_iff m : (In m (spec_moves (abs p)) /\ is_king_step m = true) <-> exists t, king_step_of p k t m.
Proof.
  destruct (k_facts p f Hrep k Hk) as (_ & Hk64 & Hfk).
  assert (Hkt : forall t, t < 64 -> king_target p k t = piece_attacks (board_of f) us King k t &&
              negb (match f t with Some (c, pc) => side_eqb c us || piece_eqb pc King | None => false end) && king_step_safe p f k t)
    by (intros t Ht; apply (king_target_spec p f Hrep k ek); assumption).
  unfold spec_moves. rewrite filter_In. split.
  - intros [[Hps Hsafe] Hks]. unfold is_king_step in Hks. apply andb_true_iff in Hks. destruct Hks as [Hpc Hty]. apply piece_eqb_eq in Hpc.
    unfold pseudo_moves in Hps. cbn [abs s_board s_turn s_wk s_wq s_bk s_bq] in Hps. apply in_app_or in Hps. destruct Hps as [Hps|Hps].
    + apply in_flat_map in Hps. destruct Hps as [fr [Hfr Hps]]. apply in_squares in Hfr. rewrite at_sq_abs_board in Hps by exact Hfr.
      change (cell_of p fr) with (f fr) in Hps. destruct (f fr) as [[c pc]|] eqn:Ef; [|destruct Hps].
      destruct (side_eqb c (turn p)) eqn:Ec; [|destruct Hps]. apply side_eqb_true in Ec. subst c.
      destruct pc; try (apply piece_candidates_labels in Hps; destruct Hps as (E & _); congruence);
        try (apply pawn_candidates_labels in Hps; congruence); try (destruct Hps).
      (* the king *)
      assert (fr = k) by (apply Huk; assumption). subst fr.
      unfold piece_candidates in Hps. cbn [abs s_board s_turn] in Hps. apply in_flat_map in Hps. destruct Hps as [t [Ht Hps]]. apply in_squares in Ht.
      destruct (piece_attacks (abs_board p) (turn p) King k t) eqn:Eatt; [|destruct Hps]. rewrite at_sq_abs_board in Hps by exact Ht. change (cell_of p t) with (f t) in Hps.
      exists t. destruct (f t) as [[c cp]|] eqn:Eft.
      * destruct (negb (side_eqb c (turn p)) && negb (piece_eqb cp King)) eqn:Ecc; [|destruct Hps]. destruct Hps as [<-|[]].
        apply andb_true_iff in Ecc. destruct Ecc as [E1 E2]. apply negb_true_iff in E1. apply negb_true_iff in E2.
        pose proof (opp_of_neq' _ _ E1) as Ec. subst c.
        rewrite (leaves_safe_king_step t Capture cp Ht (or_intror eq_refl)) in Hsafe.
        split; [exact Ht|]. split; [rewrite (Hkt t Ht), Eft, E2; change (board_of f) with (abs_board p); fold us in Eatt; rewrite Eatt, Hsafe; unfold us; destruct (turn p); reflexivity|].
        left. exists cp. split; [exact Eft|reflexivity].
      * destruct Hps as [<-|[]]. rewrite (leaves_safe_king_step t Normal NoPiece Ht (or_introl eq_refl)) in Hsafe.
        split; [exact Ht|]. split; [rewrite (Hkt t Ht), Eft; change (board_of f) with (abs_board p); fold us in Eatt; rewrite Eatt, Hsafe; reflexivity|].
        right. split; [exact Eft|reflexivity].
    + exfalso. destruct (turn p); apply in_app_or in Hps; destruct Hps as [Hps|Hps]; apply castle_candidate_labels in Hps; rewrite Hps in Hty; discriminate.
  - intros [t (Ht & Hkt' & Hm)]. rewrite (Hkt t Ht) in Hkt'.
    apply andb_true_iff in Hkt'. destruct Hkt' as [Hkt' Hsafe]. apply andb_true_iff in Hkt'. destruct Hkt' as [Hatt Hnot].
    assert (Hin : forall m', In m' (piece_candidates (abs p) k King) -> In m' (pseudo_moves (abs p))).
    { intros m' Hm'. unfold pseudo_moves. apply in_or_app. left. apply in_flat_map. exists k. split; [apply in_squares; exact Hk64|].
      cbn [abs s_board s_turn]. rewrite at_sq_abs_board by exact Hk64. change (cell_of p k) with (f k). rewrite Hfk. fold us. rewrite side_eqb_refl. exact Hm'. }
    destruct Hm as [[cp [Eft ->]]|[Eft ->]]; change (cell_of_b (brd p) t) with (f t) in Eft.
    + rewrite Eft in Hnot. apply negb_true_iff, orb_false_iff in Hnot. destruct Hnot as [N1 N2].
      split; [split|reflexivity].
      * apply Hin. unfold piece_candidates. cbn [abs s_board s_turn]. apply in_flat_map. exists t. split; [apply in_squares; exact Ht|].
        change (abs_board p) with (board_of f). fold us. rewrite Hatt. change (board_of f) with (abs_board p). rewrite at_sq_abs_board by exact Ht.
        change (cell_of p t) with (f t). rewrite Eft. unfold them, us in *. rewrite N2.
        replace (negb (side_eqb (opp_side (turn p)) (turn p))) with true by (destruct (turn p); reflexivity). left. reflexivity.
      * rewrite (leaves_safe_king_step t Capture cp Ht (or_intror eq_refl)). exact Hsafe.
    + split; [split|reflexivity].
      * apply Hin. unfold piece_candidates. cbn [abs s_board s_turn]. apply in_flat_map. exists t. split; [apply in_squares; exact Ht|].
        change (abs_board p) with (board_of f). fold us. rewrite Hatt. change (board_of f) with (abs_board p). rewrite at_sq_abs_board by exact Ht.
        change (cell_of p t) with (f t). rewrite Eft. left. reflexivity.
      * rewrite (leaves_safe_king_step t Normal NoPiece Ht (or_introl eq_refl)). exact Hsafe.
Qed.

(* check_evasions(): only legal moves, and every legal king step *)
Theorem check_evasions_exact m : In m (check_evasions p) <-> (In m (spec_moves (abs p)) /\ is_king_step m = true).
Proof. rewrite (check_evasions_iff p Hwf k ek Hk Huk Huek m). symmetry. apply spec_king_steps_iff. Qed.
End KingSpec.

(* none twice *)
Lemma ascending_nodup l : ascending l -> NoDup l.
Proof.
  induction l as [|a r IH]; intros H; [constructor|]. constructor.
  - intros Hin. pose proof (ascending_tail_gt r a a H Hin). lia.
  - apply IH. inversion H; subst; [constructor|assumption].
Qed.
Lemma emit_single_nodup bb (g : N -> move) : bb < two64 -> (forall a b, g a = g b -> a = b) -> NoDup (emit bb (fun sq => [g sq])).
Proof.
  intros Hbb Hinj. unfold emit.
  assert (E : forall l, flat_map (fun sq => [g sq]) l = map g l) by (induction l as [|x r IH]; [reflexivity|cbn; rewrite IH; reflexivity]).
  rewrite E. assert (Hnd : NoDup (bb_squares bb)) by (unfold bb_squares; rewrite bits_eq_ref by exact Hbb; apply ascending_nodup, bits_ref_ascending).
  induction Hnd as [|x r Hx Hr IH]; [constructor|]. cbn [map]. constructor; [|exact IH].
  intros Hin. apply in_map_iff in Hin. destruct Hin as [y [Ey Hy]]. apply Hinj in Ey. subst. contradiction.
Qed.

Lemma NoDup_app_intro {A} (l1 l2 : list A) : NoDup l1 -> NoDup l2 -> (forall x, In x l1 -> In x l2 -> False) -> NoDup (l1 ++ l2).
Proof.
  induction l1 as [|a r IH]; intros H1 H2 Hd; [exact H2|]. cbn [app]. inversion H1; subst. constructor.
  - intros Hin. apply in_app_or in Hin. destruct Hin as [Hin|Hin]; [contradiction|]. apply (Hd a); [left; reflexivity|exact Hin].
  - apply IH; [assumption|assumption|]. intros x Hx. apply Hd. right. exact Hx.
Qed.

Theorem check_evasions_nodup p : NoDup (check_evasions p).
Proof.
  unfold check_evasions.
  set (mask := N.land (king_moves (king_position p (turn p))) (king_allowed_s p (turn p))).
  assert (Hm : mask < two64) by (unfold mask; rewrite N.land_comm; apply land_lt; rewrite king_allowed_union; apply not64_lt).
  apply NoDup_app_intro.
  - apply (emit_single_nodup _ (fun to => mkMove Capture (king_position p (turn p)) to King (piece_on p to) NoPiece)); [rewrite N.land_comm; apply land_lt; exact Hm|].
    intros a b E. inversion E. reflexivity.
  - apply (emit_single_nodup _ (fun to => mkMove Normal (king_position p (turn p)) to King NoPiece NoPiece)); [rewrite N.land_comm; apply land_lt; exact Hm|].
    intros a b E. inversion E. reflexivity.
  - intros m H1 H2. apply in_emit in H1. apply in_emit in H2. destruct H1 as [a [_ [<-|[]]]]. destruct H2 as [b [_ [E|[]]]]. discriminate.
Qed.

Lemma find_ext_lemma {A} (P Q : A -> bool) l : (forall x, Q x = P x) -> find P l = find Q l.
Proof. intros H. induction l as [|x r IH]; [reflexivity|]. cbn [find]. rewrite H, IH. reflexivity. Qed.

(* legal-consistency provides the kings *)
Lemma filter_one {A} (P : A -> bool) l : length (filter P l) = 1%nat ->
  exists k, find P l = Some k /\ In k l /\ forall a, In a l -> P a = true -> a = k \/ (exists n m, nth_error l n = Some a /\ nth_error l m = Some k /\ n <> m /\ False).
Proof.
  induction l as [|x r IH]; cbn [filter find]; intros H; [discriminate|].
  destruct (P x) eqn:E.
  - exists x. split; [reflexivity|]. split; [left; reflexivity|]. intros a [<-|Ha] Hpa; [left; reflexivity|].
    exfalso. cbn [length] in H. assert (In a (filter P r)) by (apply filter_In; split; assumption). destruct (filter P r); [destruct H0|discriminate].
  - destruct (IH H) as [k [Hf [Hin Hu]]]. exists k. split; [exact Hf|]. split; [right; exact Hin|].
    intros a [<-|Ha] Hpa; [congruence|]. destruct (Hu a Ha Hpa) as [->|[? [? [_ [_ [_ []]]]]]]. left. reflexivity.
Qed.

Local Strategy 1000 [squares all64 seq].

Lemma lc_counts dfrc sp : legal_consistent dfrc sp = true ->
  count_cells (s_board sp) (fun c => match c with Some (White, King) => true | _ => false end) = 1%nat /\
  count_cells (s_board sp) (fun c => match c with Some (Black, King) => true | _ => false end) = 1%nat.
Proof.
  unfold legal_consistent. intros H. cbv zeta in H.
  repeat (apply andb_true_iff in H; let H' := fresh "L" in destruct H as [H H']).
  apply Nat.eqb_eq in L7. apply Nat.eqb_eq in L6. split; assumption.
Qed.

Lemma one_king_found b s (Q : cell -> bool) :
  (forall c, Q c = match c with Some (c0, King) => side_eqb c0 s | _ => false end) ->
  count_cells b Q = 1%nat ->
  exists k, find_king b s = Some k /\ forall a, a < 64 -> (match at_sq b a with Some (c0, King) => side_eqb c0 s | _ => false end) = true -> a = k.
Proof.
  intros HQ Hlen. unfold count_cells in Hlen. destruct (filter_one _ _ Hlen) as [k [Hf [_ Hu]]]. exists k. split.
  - unfold find_king. rewrite <- Hf. apply find_ext_lemma. intros q. apply HQ.
  - intros a Ha Hc. assert (Hin : In a squares) by (apply in_squares; exact Ha).
    assert (Hq : Q (at_sq b a) = true) by (rewrite HQ; exact Hc).
    destruct (Hu a Hin Hq) as [E|[? [? [_ [_ [_ []]]]]]]. exact E.
Qed.

Lemma lc_king dfrc p s : legal_consistent dfrc (abs p) = true ->
  exists k, find_king (abs_board p) s = Some k /\ forall a, a < 64 -> cell_of_b (brd p) a = Some (s, King) -> a = k.
Proof.
  intros H. destruct (lc_counts _ _ H) as [Hw Hb].
  assert (G : exists k, find_king (abs_board p) s = Some k /\ forall a, a < 64 -> (match at_sq (abs_board p) a with Some (c0, King) => side_eqb c0 s | _ => false end) = true -> a = k).
  { destruct s.
    - apply (one_king_found (abs_board p) White (fun c => match c with Some (White, King) => true | _ => false end)); [|exact Hw]. intros [[[] []]|]; reflexivity.
    - apply (one_king_found (abs_board p) Black (fun c => match c with Some (Black, King) => true | _ => false end)); [|exact Hb]. intros [[[] []]|]; reflexivity. }
  destruct G as [k [Hf Hu]]. exists k. split; [exact Hf|]. intros a Ha Hc. apply Hu; [exact Ha|].
  rewrite at_sq_abs_board by exact Ha. change (cell_of p a) with (cell_of_b (brd p) a). rewrite Hc. apply side_eqb_refl.
Qed.

(* the clause of C01 about check_evasions(), on the property's domain *)
Theorem check_evasions_exact_lc dfrc p m : wf p = true -> legal_consistent dfrc (abs p) = true ->
  (In m (check_evasions p) <-> (In m (spec_moves (abs p)) /\ is_king_step m = true)).
Proof.
  intros Hwf Hlc. destruct (lc_king dfrc p (turn p) Hlc) as [k [Hk Huk]]. destruct (lc_king dfrc p (opp_side (turn p)) Hlc) as [ek [Hek Huek]].
  apply (check_evasions_exact p Hwf k ek Hk Huk Hek Huek m).
Qed.
