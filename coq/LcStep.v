(* LcStep.v — legal-consistency (the domain predicate of the property files) is an invariant of legal play:
   [legal_consistent dfrc s = true -> In m (spec_moves s) -> legal_consistent dfrc (apply_move s m) = true],
   on arbitrary spec positions, and its lift to the model ([reach_invariant], [reach_invariant_seq]). *)
From Coq Require Import NArith ZArith List Bool Lia.
From Coq Require Import ZifyBool ZifyN ZifyNat.
From LC Require Import Bits BitsFacts Types BitboardModel MoveModel MoveFacts ZobristModel PositionModel MakeModel BoardFacts
  Spec.Rules Refine.Abs Refine.Board Refine.Make Refine.Wf Refine.MakeAbs Refine.SpecFits HashFacts KingFacts LegalFacts.
Import ListNotations.
Local Open Scope N_scope.
Ltac Zify.zify_post_hook ::= Z.div_mod_to_equations.
Local Strategy 1000 [squares all64 seq].

(* ---------- boards as 64-lists: length, extensionality ---------- *)
Lemma length_squares : length squares = 64%nat.
Proof. unfold squares. rewrite map_length, seq_length. reflexivity. Qed.
Lemma length_put b q c : length (put b q c) = 64%nat.
Proof. unfold put. rewrite map_length. apply length_squares. Qed.
Lemma nth_at_sq (b : sboard) n : nth n b None = at_sq b (N.of_nat n).
Proof. unfold at_sq. rewrite Nat2N.id. reflexivity. Qed.
Lemma board_eta b : length b = 64%nat -> b = map (at_sq b) all64.
Proof.
  intros H. apply (nth_ext _ _ None None).
  - rewrite map_length. rewrite <- all64_squares, length_squares. exact H.
  - intros n Hn. assert (Hn' : (n < 64)%nat) by (rewrite <- H; exact Hn). rewrite (nth_at_sq b), (nth_at_sq (map (at_sq b) all64)).
    symmetry. apply at_sq_map. lia.
Qed.
Lemma board_ext b b' : length b = 64%nat -> length b' = 64%nat -> (forall q, q < 64 -> at_sq b q = at_sq b' q) -> b = b'.
Proof. intros H H' E. rewrite (board_eta b H), (board_eta b' H'). apply map_all64_ext. exact E. Qed.

(* ---------- counting cells under a single-square update ---------- *)
Lemma count_upd_list (g : N -> cell) (Q : cell -> bool) (q : N) c (l : list N) : NoDup l ->
  (length (filter (fun x => Q (if (x =? q)%N then c else g x)) l) + (if existsb (N.eqb q) l && Q (g q) then 1 else 0) =
   length (filter (fun x => Q (g x)) l) + (if existsb (N.eqb q) l && Q c then 1 else 0))%nat.
Proof.
  induction 1 as [|x r Hnin Hnd IH]; [reflexivity|].
  cbn [filter existsb]. destruct (N.eqb_spec x q) as [->|Hne].
  - rewrite N.eqb_refl. cbn [orb andb].
    assert (E : existsb (N.eqb q) r = false).
    { destruct (existsb (N.eqb q) r) eqn:E; [|reflexivity]. apply existsb_exists in E. destruct E as [y [Hy Ey]].
      apply N.eqb_eq in Ey. subst y. contradiction. }
    rewrite E in IH. cbn [andb] in IH. destruct (Q c), (Q (g q)); cbn [length]; lia.
  - replace (q =? x) with false by (symmetry; apply N.eqb_neq; congruence). cbn [orb].
    destruct (Q (g x)); cbn [length]; lia.
Qed.

Lemma count_put b q c Q : q < 64 ->
  (count_cells (put b q c) Q + (if Q (at_sq b q) then 1 else 0) = count_cells b Q + (if Q c then 1 else 0))%nat.
Proof.
  intros Hq. unfold count_cells.
  rewrite (filter_ext_in (fun x => Q (at_sq (put b q c) x)) (fun x => Q (if (x =? q)%N then c else at_sq b x)) squares).
  2:{ intros x Hx. apply in_squares in Hx. rewrite at_sq_put by exact Hx. reflexivity. }
  pose proof (count_upd_list (at_sq b) Q q c squares nodup_squares) as H.
  assert (E : existsb (N.eqb q) squares = true).
  { apply existsb_exists. exists q. split; [apply in_squares; exact Hq|apply N.eqb_refl]. }
  rewrite E in H. cbn [andb] in H. exact H.
Qed.

(* ---------- the conjuncts of legal_consistent ---------- *)
Notation QW := (fun c : cell => match c with Some (White, King) => true | _ => false end).
Notation QB := (fun c : cell => match c with Some (Black, King) => true | _ => false end).
Definition okc (q : N) (c : cell) : bool :=
  match c with Some (_, Pawn) => negb ((rankof q =? 0) || (rankof q =? 7)) | Some (_, NoPiece) => false | _ => true end.

Lemma lc_all dfrc s : legal_consistent dfrc s = true <->
  length (s_board s) = 64%nat /\
  count_cells (s_board s) QW = 1%nat /\ count_cells (s_board s) QB = 1%nat /\
  forallb (fun q => okc q (at_sq (s_board s) q)) squares = true /\
  king_attacked (s_board s) (opp_side (s_turn s)) = false /\
  right_ok (s_board s) White true dfrc (s_wk s) = true /\ right_ok (s_board s) White false dfrc (s_wq s) = true /\
  right_ok (s_board s) Black true dfrc (s_bk s) = true /\ right_ok (s_board s) Black false dfrc (s_bq s) = true /\
  ep_ok s = true.
Proof.
  unfold legal_consistent. cbv zeta. rewrite !andb_true_iff, !Nat.eqb_eq, negb_true_iff. unfold okc.
  split; intros H; decompose [and] H; clear H; repeat split; assumption.
Qed.

Lemma okc_at s q : forallb (fun q => okc q (at_sq (s_board s) q)) squares = true -> q < 64 -> okc q (at_sq (s_board s) q) = true.
Proof. intros H Hq. rewrite forallb_forall in H. apply H. apply in_squares. exact Hq. Qed.

Lemma find_king_cell b c k : find_king b c = Some k -> k < 64 /\ at_sq b k = Some (c, King).
Proof.
  unfold find_king. intros H. apply find_some in H. destruct H as [Hk H]. apply in_squares in Hk. split; [exact Hk|].
  destruct (at_sq b k) as [[c0 pc]|]; [|discriminate]. destruct pc; try discriminate. apply side_eqb_eq in H. subst. reflexivity.
Qed.

(* ---------- the shape of a pseudo-legal candidate, on an arbitrary spec position ---------- *)
Definition vic (us : side) (to : N) : N := match us with White => to - 8 | Black => to + 8 end.

Definition mshape (s : spos) (m : move) : Prop :=
  let g := at_sq (s_board s) in let us := s_turn s in let them := opp_side us in
  let fr := m_from m in let to := m_to m in
  fr < 64 /\ to < 64 /\ g fr = Some (us, m_piece m) /\
  match m_type m with
  | Normal => g to = None /\ (m_piece m = Pawn -> 8 <= to /\ to < 56)
  | Capture => (exists cap, g to = Some (them, cap) /\ cap <> King) /\ (m_piece m = Pawn -> 8 <= to /\ to < 56)
  | Double => m_piece m = Pawn /\ g to = None /\ g (vic us to) = None /\
              match us with White => 24 <= to /\ to < 32 /\ fr + 16 = to | Black => 32 <= to /\ to < 40 /\ to + 16 = fr end
  | Enpassant => m_piece m = Pawn /\ g to = None /\ g (vic us to) = Some (them, Pawn) /\
              match us with White => 40 <= to /\ to < 48 | Black => 16 <= to /\ to < 24 end
  | Promo => m_piece m = Pawn /\ g to = None /\ In (m_promo m) promo_pieces
  | PromoCapture => m_piece m = Pawn /\ (exists cap, g to = Some (them, cap) /\ cap <> King) /\ In (m_promo m) promo_pieces
  | Ksc | Qsc =>
    let kd := fst (castle_dest us (m_type m)) in let rd := snd (castle_dest us (m_type m)) in
    m_piece m = King /\ g to = Some (us, Rook) /\
    (g kd = None \/ kd = fr \/ kd = to) /\ (g rd = None \/ rd = fr \/ rd = to)
  end.

Lemma piece_candidates_shape s fr pc m : fr < 64 -> at_sq (s_board s) fr = Some (s_turn s, pc) -> pc <> Pawn ->
  In m (piece_candidates s fr pc) -> mshape s m.
Proof.
  intros Hfr Hf Hpc H. unfold piece_candidates in H.
  apply in_flat_map in H. destruct H as [to [Hto H]]. apply in_squares in Hto.
  destruct (piece_attacks (s_board s) (s_turn s) pc fr to); [|destruct H].
  destruct (at_sq (s_board s) to) as [[c cp]|] eqn:Eto.
  - destruct (negb (side_eqb c (s_turn s)) && negb (piece_eqb cp King)) eqn:Ec; [|destruct H]. destruct H as [<-|[]].
    apply andb_true_iff in Ec. destruct Ec as [Ec Ek]. apply negb_true_iff, opp_of_neq in Ec. subst c.
    apply negb_true_iff in Ek.
    unfold mshape. cbn [m_type m_from m_to m_piece m_cap m_promo]. repeat split; try assumption; try contradiction.
    exists cp. split; [exact Eto|]. intros ->. discriminate.
  - destruct H as [<-|[]]. unfold mshape. cbn [m_type m_from m_to m_piece m_cap m_promo]. repeat split; try assumption; contradiction.
Qed.

Lemma promo_not_pawn pr : In pr promo_pieces -> pr <> Pawn /\ pr <> King /\ pr <> NoPiece.
Proof. unfold promo_pieces. intros H. cbn [In] in H. repeat destruct H as [H|H]; try (subst pr; repeat split; discriminate). destruct H. Qed.

Ltac pawn_fin :=
  cbn [m_type m_from m_to m_piece m_cap m_promo];
  repeat match goal with
         | H : (if ?c then Some _ else None) = Some _ |- _ => destruct c eqn:?; inversion H; subst; clear H
         | H : match at_sq ?b ?q with Some _ => false | None => true end = true |- _ =>
           destruct (at_sq b q) eqn:?; [discriminate H|clear H]
         end;
  repeat split; try assumption; try reflexivity; try lia;
  try (match goal with |- at_sq _ ?x = None => match goal with H : at_sq _ ?y = None |- _ => replace x with y by lia; exact H end end).

Lemma pawn_candidates_shape s fr m : fr < 64 -> at_sq (s_board s) fr = Some (s_turn s, Pawn) -> 8 <= fr -> fr < 56 ->
  ep_ok s = true -> In m (pawn_candidates s fr) -> mshape s m.
Proof.
  intros Hfr Hf H8 H56 Hep H. unfold pawn_candidates in H. cbv zeta beta in H.
  apply in_app_or in H. destruct H as [H|H].
  - (* pushes *)
    unfold mshape, vic. unfold last_rank, rankof, is_empty in H.
    destruct (s_turn s) eqn:Et; cbv iota in H.
    + crush H; pawn_fin.
    + crush H; pawn_fin.
  - (* captures and en passant *)
    apply in_flat_map in H. destruct H as [to [Hto H]]. apply in_squares in Hto.
    destruct (piece_attacks (s_board s) (s_turn s) Pawn fr to) eqn:Eatt; [|destruct H].
    assert (Hrk : match s_turn s with White => rankof to = rankof fr + 1 | Black => rankof to + 1 = rankof fr end).
    { unfold piece_attacks in Eatt. apply andb_true_iff in Eatt. destruct Eatt as [_ E]. destruct (s_turn s); apply N.eqb_eq in E; exact E. }
    clear Eatt.
    destruct (at_sq (s_board s) to) as [[c pc]|] eqn:Eto.
    + destruct (negb (side_eqb c (s_turn s)) && negb (piece_eqb pc King)) eqn:Ec; [|destruct H].
      apply andb_true_iff in Ec. destruct Ec as [Ec Ek]. apply negb_true_iff, opp_of_neq in Ec. subst c. apply negb_true_iff in Ek.
      assert (Hcap : exists cap, at_sq (s_board s) to = Some (opp_side (s_turn s), cap) /\ cap <> King).
      { exists pc. split; [exact Eto|]. intros ->. discriminate. }
      destruct (last_rank (s_turn s) to) eqn:El.
      * apply in_map_iff in H. destruct H as [pr [<- Hpr]]. unfold mshape. cbn [m_type m_from m_to m_piece m_cap m_promo].
        repeat split; try assumption; reflexivity.
      * destruct H as [<-|[]]. unfold mshape. cbn [m_type m_from m_to m_piece m_cap m_promo].
        split; [exact Hfr|]. split; [exact Hto|]. split; [exact Hf|]. split; [exact Hcap|]. intros _.
        unfold last_rank, rankof in *. destruct (s_turn s); lia.
    + destruct (s_ep s) as [e|] eqn:Ee; [|destruct H]. destruct (N.eqb_spec e to) as [->|]; [|destruct H]. destruct H as [<-|[]].
      unfold ep_ok in Hep. rewrite Ee in Hep. cbv zeta in Hep.
      apply andb_true_iff in Hep. destruct Hep as [Hxy Hbody]. apply andb_true_iff in Hxy. destruct Hxy as [Q0 Q1].
      apply andb_true_iff in Hbody. destruct Hbody as [Hbody Q5]. apply andb_true_iff in Hbody. destruct Hbody as [Hbody Q4].
      apply andb_true_iff in Hbody. destruct Hbody as [Q2 Q3].
      fold (vic (s_turn s) to) in Q2.
      unfold mshape. cbn [m_type m_from m_to m_piece m_cap m_promo].
      split; [exact Hfr|]. split; [exact Hto|]. split; [exact Hf|]. split; [reflexivity|]. split; [exact Eto|]. split.
      * destruct (at_sq (s_board s) (vic (s_turn s) to)) as [[c pc]|]; [|discriminate]. destruct pc; try discriminate.
        apply side_eqb_eq in Q2. subst c. reflexivity.
      * unfold rankof in Q1. destruct (s_turn s); lia.
Qed.

Lemma castle_shape s mt r ks dfrc m : (mt = Ksc \/ mt = Qsc) ->
  right_ok (s_board s) (s_turn s) ks dfrc r = true ->
  In m (castle_candidate s mt r) -> mshape s m.
Proof.
  intros Hmt Hok H. unfold castle_candidate in H.
  destruct r as [rsq|]; [|destruct H].
  destruct (find_king (s_board s) (s_turn s)) as [ksq|] eqn:Ek; [|destruct H].
  destruct (castle_dest (s_turn s) mt) as [kd rd] eqn:Ed.
  match type of H with In _ (if ?c then _ else _) => destruct c eqn:Ec; [|destruct H] end. destruct H as [<-|[]].
  destruct (find_king_cell _ _ _ Ek) as [Hk64 Hfk].
  unfold right_ok in Hok. rewrite Ek in Hok. cbv zeta in Hok.
  repeat (apply andb_true_iff in Hok; let H' := fresh "G" in destruct Hok as [Hok H']).
  assert (Hr64 : rsq < 64) by (unfold rankof in G2; destruct (s_turn s); lia).
  assert (Hfr : at_sq (s_board s) rsq = Some (s_turn s, Rook)).
  { destruct (at_sq (s_board s) rsq) as [[c pc]|]; [|discriminate]. destruct pc; try discriminate. apply side_eqb_eq in G1. subst c. reflexivity. }
  repeat (apply andb_true_iff in Ec; let H' := fresh "E" in destruct Ec as [Ec H']).
  assert (P : forall a d, forallb (fun q => (q =? ksq) || (q =? rsq) || is_empty (s_board s) q) (path_to a d) = true ->
              a = d \/ at_sq (s_board s) d = None \/ d = ksq \/ d = rsq).
  { intros a d Hall. unfold path_to in Hall. destruct (N.eqb_spec a d) as [->|Hnad]; [left; reflexivity|right].
    rewrite forallb_app in Hall. apply andb_true_iff in Hall. destruct Hall as [_ Hall]. cbn [forallb] in Hall. rewrite andb_true_r in Hall.
    apply orb_true_iff in Hall. destruct Hall as [Hall|Hall]; [apply orb_true_iff in Hall; destruct Hall as [Hall|Hall]; apply N.eqb_eq in Hall; tauto|].
    left. unfold is_empty in Hall. destruct (at_sq (s_board s) d); [discriminate|reflexivity]. }
  unfold mshape. cbn [m_type m_from m_to m_piece m_cap m_promo]. 
  split; [exact Hk64|]. split; [exact Hr64|]. split; [exact Hfk|].
  assert (Z : King = King /\ at_sq (s_board s) rsq = Some (s_turn s, Rook) /\
    (at_sq (s_board s) (fst (castle_dest (s_turn s) mt)) = None \/ fst (castle_dest (s_turn s) mt) = ksq \/ fst (castle_dest (s_turn s) mt) = rsq) /\
    (at_sq (s_board s) (snd (castle_dest (s_turn s) mt)) = None \/ snd (castle_dest (s_turn s) mt) = ksq \/ snd (castle_dest (s_turn s) mt) = rsq)).
  { rewrite Ed. cbn [fst snd]. split; [reflexivity|]. split; [exact Hfr|]. split.
    - destruct (P ksq kd E1) as [Z|[Z|[Z|Z]]]; [right; left; symmetry; exact Z|left; exact Z|right; left; exact Z|right; right; exact Z].
    - destruct (P rsq rd E0) as [Z|[Z|[Z|Z]]]; [right; right; symmetry; exact Z|left; exact Z|right; left; exact Z|right; right; exact Z]. }
  destruct Hmt as [-> | ->]; exact Z.
Qed.

Theorem pseudo_mshape dfrc s m : legal_consistent dfrc s = true -> In m (pseudo_moves s) -> mshape s m.
Proof.
  intros Hlc H. apply lc_all in Hlc. destruct Hlc as (L0 & L1 & L2 & L3 & L4 & R0 & R1 & R2 & R3 & Hep).
  unfold pseudo_moves in H. apply in_app_or in H. destruct H as [H|H].
  - apply in_flat_map in H. destruct H as [fr [Hfr H]]. apply in_squares in Hfr.
    pose proof (okc_at s fr L3 Hfr) as Hok.
    destruct (at_sq (s_board s) fr) as [[c pc]|] eqn:Ef; [|destruct H].
    destruct (side_eqb c (s_turn s)) eqn:Ec; [|destruct H]. apply side_eqb_eq in Ec. subst c.
    destruct pc; cbv iota in H;
      try (apply (piece_candidates_shape s fr _ m Hfr Ef) in H; [exact H|discriminate]); try (exfalso; exact (in_nil H)).
    unfold okc, rankof in Hok. apply (pawn_candidates_shape s fr m Hfr Ef); try assumption; lia.
  - destruct (s_turn s) eqn:Et; apply in_app_or in H; destruct H as [H|H].
    + apply (castle_shape s Ksc (s_wk s) true dfrc m); [tauto|rewrite Et; exact R0|exact H].
    + apply (castle_shape s Qsc (s_wq s) false dfrc m); [tauto|rewrite Et; exact R1|exact H].
    + apply (castle_shape s Ksc (s_bk s) true dfrc m); [tauto|rewrite Et; exact R2|exact H].
    + apply (castle_shape s Qsc (s_bq s) false dfrc m); [tauto|rewrite Et; exact R3|exact H].
Qed.

(* ---------- the successor board, cell by cell ---------- *)
Lemma at_apply_board b us m q : q < 64 -> at_sq (apply_board b us m) q =
  match m_type m with
  | Normal | Capture | Double => if q =? m_to m then Some (us, m_piece m) else if q =? m_from m then None else at_sq b q
  | Enpassant => if q =? m_to m then Some (us, Pawn) else if q =? vic us (m_to m) then None else if q =? m_from m then None else at_sq b q
  | Promo | PromoCapture => if q =? m_to m then Some (us, m_promo m) else if q =? m_from m then None else at_sq b q
  | Ksc | Qsc =>
    if q =? snd (castle_dest us (m_type m)) then Some (us, Rook) else if q =? fst (castle_dest us (m_type m)) then Some (us, King)
    else if q =? m_to m then None else if q =? m_from m then None else at_sq b q
  end.
Proof.
  intros Hq. unfold apply_board, vic. destruct (m_type m);
    try (rewrite !at_sq_put by exact Hq; reflexivity);
    destruct (castle_dest us _) as [kd rd]; cbn [fst snd]; rewrite !at_sq_put by exact Hq; reflexivity.
Qed.

Lemma length_apply_board b us m : length (apply_board b us m) = 64%nat.
Proof. unfold apply_board. destruct (m_type m); try apply length_put. all: destruct (castle_dest us _); apply length_put. Qed.

Lemma castle_dest_facts us mt : fst (castle_dest us mt) < 64 /\ snd (castle_dest us mt) < 64 /\ snd (castle_dest us mt) <> fst (castle_dest us mt).
Proof. destruct us, mt; cbn; lia. Qed.

Lemma cell_c3 (g : N -> cell) (c : cell) x a b : (g x = c \/ x = a \/ x = b) ->
  (if x =? b then c else if x =? a then c else g x) = c.
Proof. intros H. destruct (N.eqb_spec x b); [reflexivity|]. destruct (N.eqb_spec x a); [reflexivity|]. destruct H as [H|[H|H]]; [exact H|contradiction|contradiction]. Qed.

(* ---------- king counts ---------- *)
Lemma count_put_none b (Q : cell -> bool) x : x < 64 -> Q None = false -> Q (at_sq b x) = false ->
  count_cells (put b x None) Q = count_cells b Q.
Proof. intros Hx Hn Hq. pose proof (count_put b x None Q Hx) as H. rewrite Hn, Hq in H. lia. Qed.

Lemma count_put2 b (Q : cell -> bool) x y cy : x < 64 -> y < 64 -> Q None = false -> Q (at_sq b x) = Q cy ->
  (y = x \/ Q (at_sq b y) = false) -> count_cells (put (put b x None) y cy) Q = count_cells b Q.
Proof.
  intros Hx Hy Hn Hxy Hyq. pose proof (count_put b x None Q Hx) as H1. pose proof (count_put (put b x None) y cy Q Hy) as H2.
  rewrite at_sq_put in H2 by exact Hy. rewrite Hn, Hxy in H1.
  assert (E : Q (if y =? x then None else at_sq b y) = false).
  { destruct (N.eqb_spec y x) as [->|Hne]; [exact Hn|]. destruct Hyq as [Hyq|Hyq]; [contradiction|exact Hyq]. }
  rewrite E in H2. destruct (Q cy); lia.
Qed.

Lemma count_apply s m (Q : cell -> bool) : Q None = false -> (forall c pc, pc <> King -> Q (Some (c, pc)) = false) ->
  mshape s m -> count_cells (apply_board (s_board s) (s_turn s) m) Q = count_cells (s_board s) Q.
Proof.
  intros Hn HnK Hsh. unfold mshape in Hsh. cbv zeta in Hsh. destruct Hsh as (Hfr & Hto & Hf & Hsh).
  unfold apply_board. fold (vic (s_turn s) (m_to m)). destruct (m_type m) eqn:Et.
  - destruct Hsh as [Eto _]. apply count_put2; try assumption; [rewrite Hf; reflexivity|right; rewrite Eto; exact Hn].
  - destruct Hsh as [[cap [Eto Hc]] _]. apply count_put2; try assumption; [rewrite Hf; reflexivity|right; rewrite Eto; apply HnK; exact Hc].
  - destruct Hsh as (_ & Eto & _). apply count_put2; try assumption; [rewrite Hf; reflexivity|right; rewrite Eto; exact Hn].
  - (* en passant *)
    destruct Hsh as (Ep & Eto & Ev & Hrg).
    assert (Hv : vic (s_turn s) (m_to m) < 64) by (unfold vic; destruct (s_turn s); lia).
    rewrite count_put2; try assumption.
    + apply count_put_none; try assumption. rewrite Hf, Ep. apply HnK. discriminate.
    + rewrite at_sq_put by exact Hv. rewrite (HnK _ Pawn) by discriminate.
      destruct (vic (s_turn s) (m_to m) =? m_from m); [exact Hn|]. rewrite Ev. apply HnK. discriminate.
    + right. rewrite at_sq_put by exact Hto. destruct (m_to m =? m_from m); [exact Hn|]. rewrite Eto. exact Hn.
  - (* O-O *)
    destruct Hsh as (Ep & Eto & Hkd & Hrd). destruct (castle_dest_facts (s_turn s) Ksc) as (Dk & Dr & Dne).
    destruct (castle_dest (s_turn s) Ksc) as [kd rd]. cbn [fst snd] in *.
    pose proof (count_put (s_board s) (m_from m) None Q Hfr) as H1. rewrite Hf, Hn in H1.
    pose proof (count_put_none (put (s_board s) (m_from m) None) Q (m_to m) Hto Hn) as H2.
    rewrite at_sq_put in H2 by exact Hto.
    assert (E2 : Q (if m_to m =? m_from m then None else at_sq (s_board s) (m_to m)) = false).
    { destruct (m_to m =? m_from m); [exact Hn|]. rewrite Eto. apply HnK. discriminate. }
    specialize (H2 E2).
    pose proof (count_put (put (put (s_board s) (m_from m) None) (m_to m) None) kd (Some (s_turn s, King)) Q Dk) as H3.
    rewrite !at_sq_put in H3 by exact Dk. rewrite (cell_c3 (at_sq (s_board s)) None kd (m_from m) (m_to m) Hkd), Hn in H3.
    pose proof (count_put (put (put (put (s_board s) (m_from m) None) (m_to m) None) kd (Some (s_turn s, King))) rd (Some (s_turn s, Rook)) Q Dr) as H4.
    rewrite !at_sq_put in H4 by exact Dr. replace (rd =? kd) with false in H4 by (symmetry; apply N.eqb_neq; exact Dne).
    rewrite (cell_c3 (at_sq (s_board s)) None rd (m_from m) (m_to m) Hrd), Hn in H4. rewrite (HnK _ Rook) in H4 by discriminate.
    rewrite Ep in H1. destruct (Q (Some (s_turn s, King))); lia.
  - (* O-O-O *)
    destruct Hsh as (Ep & Eto & Hkd & Hrd). destruct (castle_dest_facts (s_turn s) Qsc) as (Dk & Dr & Dne).
    destruct (castle_dest (s_turn s) Qsc) as [kd rd]. cbn [fst snd] in *.
    pose proof (count_put (s_board s) (m_from m) None Q Hfr) as H1. rewrite Hf, Hn in H1.
    pose proof (count_put_none (put (s_board s) (m_from m) None) Q (m_to m) Hto Hn) as H2.
    rewrite at_sq_put in H2 by exact Hto.
    assert (E2 : Q (if m_to m =? m_from m then None else at_sq (s_board s) (m_to m)) = false).
    { destruct (m_to m =? m_from m); [exact Hn|]. rewrite Eto. apply HnK. discriminate. }
    specialize (H2 E2).
    pose proof (count_put (put (put (s_board s) (m_from m) None) (m_to m) None) kd (Some (s_turn s, King)) Q Dk) as H3.
    rewrite !at_sq_put in H3 by exact Dk. rewrite (cell_c3 (at_sq (s_board s)) None kd (m_from m) (m_to m) Hkd), Hn in H3.
    pose proof (count_put (put (put (put (s_board s) (m_from m) None) (m_to m) None) kd (Some (s_turn s, King))) rd (Some (s_turn s, Rook)) Q Dr) as H4.
    rewrite !at_sq_put in H4 by exact Dr. replace (rd =? kd) with false in H4 by (symmetry; apply N.eqb_neq; exact Dne).
    rewrite (cell_c3 (at_sq (s_board s)) None rd (m_from m) (m_to m) Hrd), Hn in H4. rewrite (HnK _ Rook) in H4 by discriminate.
    rewrite Ep in H1. destruct (Q (Some (s_turn s, King))); lia.
  - destruct Hsh as (Ep & Eto & Hpr). destruct (promo_not_pawn _ Hpr) as (_ & PK & _).
    apply count_put2; try assumption; [rewrite Hf, Ep, !HnK by (try discriminate; exact PK); reflexivity|right; rewrite Eto; exact Hn].
  - destruct Hsh as (Ep & [cap [Eto Hc]] & Hpr). destruct (promo_not_pawn _ Hpr) as (_ & PK & _).
    apply count_put2; try assumption; [rewrite Hf, Ep, !HnK by (try discriminate; exact PK); reflexivity|right; rewrite Eto; apply HnK; exact Hc].
Qed.

(* ---------- pawns stay off the back ranks, no ghost cells ---------- *)
Lemma okc_placed fr q c pc : okc fr (Some (c, pc)) = true -> (pc = Pawn -> 8 <= q /\ q < 56) -> okc q (Some (c, pc)) = true.
Proof.
  unfold okc, rankof. destruct pc; intros H R; try reflexivity; try exact H. specialize (R eq_refl). lia.
Qed.

Lemma okc_apply s m : forallb (fun q => okc q (at_sq (s_board s) q)) squares = true -> mshape s m ->
  forallb (fun q => okc q (at_sq (apply_board (s_board s) (s_turn s) m) q)) squares = true.
Proof.
  intros L3 Hsh. unfold mshape in Hsh. cbv zeta in Hsh. destruct Hsh as (Hfr & Hto & Hf & Hsh).
  apply forallb_forall. intros q Hq. apply in_squares in Hq. rewrite at_apply_board by exact Hq.
  pose proof (okc_at s q L3 Hq) as Hold. pose proof (okc_at s (m_from m) L3 Hfr) as Hofr. rewrite Hf in Hofr.
  destruct (m_type m) eqn:Et.
  - destruct Hsh as [_ Hr]. destruct (N.eqb_spec q (m_to m)) as [->|_]; [apply (okc_placed _ _ _ _ Hofr Hr)|].
    destruct (q =? m_from m); [reflexivity|exact Hold].
  - destruct Hsh as [_ Hr]. destruct (N.eqb_spec q (m_to m)) as [->|_]; [apply (okc_placed _ _ _ _ Hofr Hr)|].
    destruct (q =? m_from m); [reflexivity|exact Hold].
  - destruct Hsh as (_ & _ & _ & Hr). destruct (N.eqb_spec q (m_to m)) as [->|_].
    + apply (okc_placed _ _ _ _ Hofr). intros _. destruct (s_turn s); lia.
    + destruct (q =? m_from m); [reflexivity|exact Hold].
  - destruct Hsh as (Ep & _ & _ & Hr). rewrite Ep in Hofr. destruct (N.eqb_spec q (m_to m)) as [->|_].
    + apply (okc_placed _ _ _ _ Hofr). intros _. destruct (s_turn s); lia.
    + destruct (q =? vic (s_turn s) (m_to m)); [reflexivity|]. destruct (q =? m_from m); [reflexivity|exact Hold].
  - destruct (q =? snd (castle_dest (s_turn s) Ksc)); [reflexivity|]. destruct (q =? fst (castle_dest (s_turn s) Ksc)); [reflexivity|].
    destruct (q =? m_to m); [reflexivity|]. destruct (q =? m_from m); [reflexivity|exact Hold].
  - destruct (q =? snd (castle_dest (s_turn s) Qsc)); [reflexivity|]. destruct (q =? fst (castle_dest (s_turn s) Qsc)); [reflexivity|].
    destruct (q =? m_to m); [reflexivity|]. destruct (q =? m_from m); [reflexivity|exact Hold].
  - destruct Hsh as (_ & _ & Hpr). destruct (q =? m_to m).
    + unfold promo_pieces in Hpr. cbn [In] in Hpr. repeat destruct Hpr as [Hpr|Hpr]; try (rewrite <- Hpr; reflexivity). destruct Hpr.
    + destruct (q =? m_from m); [reflexivity|exact Hold].
  - destruct Hsh as (_ & _ & Hpr). destruct (q =? m_to m).
    + unfold promo_pieces in Hpr. cbn [In] in Hpr. repeat destruct Hpr as [Hpr|Hpr]; try (rewrite <- Hpr; reflexivity). destruct Hpr.
    + destruct (q =? m_from m); [reflexivity|exact Hold].
Qed.

(* ---------- castling rights ---------- *)
Lemma neq_eqb (a b : N) : a <> b -> (a =? b) = false.
Proof. apply N.eqb_neq. Qed.

Lemma untouched s m q c pc : mshape s m -> q < 64 -> at_sq (s_board s) q = Some (c, pc) -> pc <> Pawn ->
  q <> m_from m -> q <> m_to m -> at_sq (apply_board (s_board s) (s_turn s) m) q = Some (c, pc).
Proof.
  intros Hsh Hq Hc Hpc Nfr Nto. unfold mshape in Hsh. cbv zeta in Hsh. destruct Hsh as (Hfr & Hto & Hf & Hsh).
  rewrite at_apply_board by exact Hq. rewrite (neq_eqb _ _ Nfr), (neq_eqb _ _ Nto).
  destruct (m_type m) eqn:Et; try exact Hc.
  - destruct Hsh as (_ & _ & Ev & _). rewrite neq_eqb; [exact Hc|]. intros ->. rewrite Ev in Hc. inversion Hc. subst pc. apply Hpc. reflexivity.
  - destruct Hsh as (_ & _ & Hkd & Hrd).
    rewrite neq_eqb by (intros ->; destruct Hrd as [Z|[Z|Z]]; [rewrite Z in Hc; discriminate|contradiction|contradiction]).
    rewrite neq_eqb by (intros ->; destruct Hkd as [Z|[Z|Z]]; [rewrite Z in Hc; discriminate|contradiction|contradiction]).
    exact Hc.
  - destruct Hsh as (_ & _ & Hkd & Hrd).
    rewrite neq_eqb by (intros ->; destruct Hrd as [Z|[Z|Z]]; [rewrite Z in Hc; discriminate|contradiction|contradiction]).
    rewrite neq_eqb by (intros ->; destruct Hkd as [Z|[Z|Z]]; [rewrite Z in Hc; discriminate|contradiction|contradiction]).
    exact Hc.
Qed.

Lemma to_not_king s m c : mshape s m -> at_sq (s_board s) (m_to m) <> Some (c, King).
Proof.
  intros Hsh E. unfold mshape in Hsh. cbv zeta in Hsh. destruct Hsh as (Hfr & Hto & Hf & Hsh). rewrite E in Hsh.
  destruct (m_type m).
  - destruct Hsh as [Z _]; discriminate.
  - destruct Hsh as [[cap [Z Hk]] _]. inversion Z. apply Hk. symmetry. assumption.
  - destruct Hsh as (_ & Z & _); discriminate.
  - destruct Hsh as (_ & Z & _); discriminate.
  - destruct Hsh as (_ & Z & _); discriminate.
  - destruct Hsh as (_ & Z & _); discriminate.
  - destruct Hsh as (_ & Z & _); discriminate.
  - destruct Hsh as (_ & [cap [Z Hk]] & _). inversion Z. apply Hk. symmetry. assumption.
Qed.

Definition king_unique (b : sboard) (c : side) : Prop :=
  exists k, find_king b c = Some k /\ forall a, a < 64 -> at_sq b a = Some (c, King) -> a = k.

Lemma king_unique_of_counts b : count_cells b QW = 1%nat -> count_cells b QB = 1%nat -> forall c, king_unique b c.
Proof.
  intros Hw Hb c.
  assert (G : exists k, find_king b c = Some k /\ forall a, a < 64 -> (match at_sq b a with Some (c0, King) => side_eqb c0 c | _ => false end) = true -> a = k).
  { destruct c.
    - apply (one_king_found b White QW); [|exact Hw]. intros [[[] []]|]; reflexivity.
    - apply (one_king_found b Black QB); [|exact Hb]. intros [[[] []]|]; reflexivity. }
  destruct G as [k [Hf Hu]]. exists k. split; [exact Hf|]. intros a Ha Hc. apply Hu; [exact Ha|]. rewrite Hc. apply side_eqb_refl.
Qed.

Lemma right_apply s m c ks dfrc r : mshape s m ->
  king_unique (apply_board (s_board s) (s_turn s) m) c ->
  right_ok (s_board s) c ks dfrc r = true ->
  right_ok (apply_board (s_board s) (s_turn s) m) c ks dfrc
           (lose r (piece_eqb (m_piece m) King && side_eqb (s_turn s) c) (m_from m) (m_to m)) = true.
Proof.
  intros Hsh [k' [Ek' Hu]] Hok. destruct r as [q|]; [|reflexivity]. cbn [lose].
  destruct (piece_eqb (m_piece m) King && side_eqb (s_turn s) c || (m_from m =? q) || (m_to m =? q)) eqn:E; [reflexivity|].
  apply orb_false_iff in E. destruct E as [E Nto]. apply orb_false_iff in E. destruct E as [Ekm Nfr].
  apply N.eqb_neq in Nto. apply N.eqb_neq in Nfr.
  unfold right_ok in Hok |- *. destruct (find_king (s_board s) c) as [k|] eqn:Ek; [|discriminate].
  destruct (find_king_cell _ _ _ Ek) as [Hk64 Hgk]. cbv zeta in Hok.
  repeat (apply andb_true_iff in Hok; let H' := fresh "G" in destruct Hok as [Hok H']).
  assert (Hq64 : q < 64) by (unfold rankof in G2; destruct c; lia).
  assert (Hgq : at_sq (s_board s) q = Some (c, Rook)).
  { destruct (at_sq (s_board s) q) as [[c0 pc]|]; [|discriminate]. destruct pc; try discriminate. apply side_eqb_eq in G1. subst c0. reflexivity. }
  assert (Hsh' := Hsh). unfold mshape in Hsh'. cbv zeta in Hsh'. destruct Hsh' as (Hfr & Hto & Hf & _).
  assert (Nkfr : k <> m_from m).
  { intros ->. rewrite Hf in Hgk. inversion Hgk. subst c. rewrite H1 in Ekm. rewrite side_eqb_refl in Ekm. discriminate. }
  assert (Nkto : k <> m_to m) by (intros ->; exact (to_not_king s m c Hsh Hgk)).
  pose proof (untouched s m k c King Hsh Hk64 Hgk ltac:(discriminate) Nkfr Nkto) as Hk'.
  pose proof (untouched s m q c Rook Hsh Hq64 Hgq ltac:(discriminate) (not_eq_sym Nfr) (not_eq_sym Nto)) as Hq'.
  rewrite Ek'. rewrite <- (Hu k Hk64 Hk'). cbv zeta. rewrite Hq'. rewrite Hok, G2, side_eqb_refl, G0, G. reflexivity.
Qed.

(* ---------- the en-passant square of the successor ---------- *)
Lemma ep_round b us fr to pc : length b = 64%nat -> fr < 64 -> to < 64 -> fr <> to ->
  at_sq b fr = Some (us, pc) -> at_sq b to = None ->
  put (put (put (put b fr None) to (Some (us, pc))) to None) fr (Some (us, pc)) = b.
Proof.
  intros L Hfr Hto Hne Hf Ht. apply board_ext; [apply length_put|exact L|]. intros q Hq.
  rewrite !at_sq_put by exact Hq. destruct (N.eqb_spec q fr) as [->|N1]; [symmetry; exact Hf|].
  destruct (N.eqb_spec q to) as [->|N2]; [symmetry; exact Ht|reflexivity].
Qed.

Lemma ep_apply s m : length (s_board s) = 64%nat -> king_attacked (s_board s) (opp_side (s_turn s)) = false ->
  mshape s m -> ep_ok (apply_move s m) = true.
Proof.
  intros L L4 Hsh. unfold mshape in Hsh. cbv zeta in Hsh. destruct Hsh as (Hfr & Hto & Hf & Hsh).
  unfold ep_ok, apply_move. cbn [s_ep s_board s_turn].
  destruct (m_type m) eqn:Et; try reflexivity.
  destruct Hsh as (Ep & Eto & Emid & Hr). unfold apply_board. rewrite Et. rewrite Ep in *. unfold vic in Emid.
  destruct (s_turn s); cbn [opp_side]; cbv zeta.
  - replace (m_to m - 8 + 8) with (m_to m) by lia. replace (m_to m - 8 - 8) with (m_from m) by lia.
    rewrite ep_round by (try assumption; lia). cbn [opp_side] in L4. rewrite L4.
    unfold is_empty. rewrite !at_sq_put by lia. rewrite !N.eqb_refl.
    rewrite (neq_eqb (m_to m - 8) (m_to m)) by lia. rewrite (neq_eqb (m_to m - 8) (m_from m)) by lia.
    rewrite (neq_eqb (m_from m) (m_to m)) by lia. rewrite Emid. unfold rankof. cbn [side_eqb negb andb]. lia.
  - replace (m_to m + 8 - 8) with (m_to m) by lia. replace (m_to m + 8 + 8) with (m_from m) by lia.
    rewrite ep_round by (try assumption; lia). cbn [opp_side] in L4. rewrite L4.
    unfold is_empty. rewrite !at_sq_put by lia. rewrite !N.eqb_refl.
    rewrite (neq_eqb (m_to m + 8) (m_to m)) by lia. rewrite (neq_eqb (m_to m + 8) (m_from m)) by lia.
    rewrite (neq_eqb (m_from m) (m_to m)) by lia. rewrite Emid. unfold rankof. cbn [side_eqb negb andb]. lia.
Qed.

(* ---------- MAIN THEOREM: legal-consistency is preserved by every legal move of the rules ---------- *)
Lemma opp_opp s : opp_side (opp_side s) = s. Proof. destruct s; reflexivity. Qed.

Theorem lc_apply_pseudo dfrc s m : legal_consistent dfrc s = true -> In m (pseudo_moves s) -> leaves_king_safe s m = true ->
  legal_consistent dfrc (apply_move s m) = true.
Proof.
  intros Hlc Hps Hsafe.
  pose proof (pseudo_mshape dfrc s m Hlc Hps) as Hsh.
  apply lc_all in Hlc. destruct Hlc as (L0 & L1 & L2 & L3 & L4 & R0 & R1 & R2 & R3 & Hep).
  assert (C1 : count_cells (apply_board (s_board s) (s_turn s) m) QW = 1%nat).
  { rewrite (count_apply s m QW); [exact L1|reflexivity| |exact Hsh]. intros c pc Hpc. destruct c, pc; try reflexivity. contradiction. }
  assert (C2 : count_cells (apply_board (s_board s) (s_turn s) m) QB = 1%nat).
  { rewrite (count_apply s m QB); [exact L2|reflexivity| |exact Hsh]. intros c pc Hpc. destruct c, pc; try reflexivity. contradiction. }
  pose proof (king_unique_of_counts _ C1 C2) as Hku.
  apply lc_all.
  assert (Hb : s_board (apply_move s m) = apply_board (s_board s) (s_turn s) m) by reflexivity.
  assert (Ht : s_turn (apply_move s m) = opp_side (s_turn s)) by reflexivity.
  assert (E0 : s_wk (apply_move s m) = lose (s_wk s) (piece_eqb (m_piece m) King && side_eqb (s_turn s) White) (m_from m) (m_to m)) by reflexivity.
  assert (E1 : s_wq (apply_move s m) = lose (s_wq s) (piece_eqb (m_piece m) King && side_eqb (s_turn s) White) (m_from m) (m_to m)) by reflexivity.
  assert (E2 : s_bk (apply_move s m) = lose (s_bk s) (piece_eqb (m_piece m) King && side_eqb (s_turn s) Black) (m_from m) (m_to m)) by reflexivity.
  assert (E3 : s_bq (apply_move s m) = lose (s_bq s) (piece_eqb (m_piece m) King && side_eqb (s_turn s) Black) (m_from m) (m_to m)) by reflexivity.
  rewrite Hb, Ht, E0, E1, E2, E3.
  split; [apply length_apply_board|]. split; [exact C1|]. split; [exact C2|].
  split; [apply okc_apply; assumption|].
  split; [rewrite opp_opp; unfold leaves_king_safe in Hsafe; apply negb_true_iff in Hsafe; exact Hsafe|].
  split; [apply right_apply; [exact Hsh|apply Hku|exact R0]|].
  split; [apply right_apply; [exact Hsh|apply Hku|exact R1]|].
  split; [apply right_apply; [exact Hsh|apply Hku|exact R2]|].
  split; [apply right_apply; [exact Hsh|apply Hku|exact R3]|].
  apply ep_apply; assumption.
Qed.

Theorem lc_apply_move dfrc s m : legal_consistent dfrc s = true -> In m (spec_moves s) ->
  legal_consistent dfrc (apply_move s m) = true.
Proof.
  intros Hlc Hm. unfold spec_moves in Hm. apply filter_In in Hm. destruct Hm as [Hps Hsafe].
  exact (lc_apply_pseudo dfrc s m Hlc Hps Hsafe).
Qed.

(* a whole line of play on the specification side *)
Fixpoint legal_line (s : spos) (ms : list move) : Prop :=
  match ms with
  | [] => True
  | m :: r => In m (spec_moves s) /\ legal_line (apply_move s m) r
  end.

Theorem lc_apply_line dfrc ms : forall s, legal_consistent dfrc s = true -> legal_line s ms ->
  legal_consistent dfrc (fold_left apply_move ms s) = true.
Proof.
  induction ms as [|m r IH]; intros s Hlc Hl; [exact Hlc|]. destruct Hl as [Hm Hr]. cbn [fold_left].
  apply IH; [apply lc_apply_move; assumption|exact Hr].
Qed.

(* ---------- lift to the model: positions reached by legal play stay in the domain of the property files ---------- *)
Section Lift.
Variable K : zkeys.

Lemma rooks_ok_makemove p m : rooks_ok p -> rooks_ok (makemove K p m).
Proof. intros H. exact H. Qed.

Theorem reach_invariant dfrc p m : wf p = true -> rooks_ok p -> legal_consistent dfrc (abs p) = true ->
  In m (spec_moves (abs p)) ->
  let p' := makemove K p m in
  wf p' = true /\ rooks_ok p' /\ legal_consistent dfrc (abs p') = true.
Proof.
  intros Hwf Hr Hlc Hm p'. pose proof (spec_moves_fit dfrc p m Hr Hlc Hm) as Hfit.
  destruct (makemove_refines K p m Hwf Hr Hfit) as [Habs Hwf']. unfold p'.
  split; [exact Hwf'|]. split; [apply rooks_ok_makemove; exact Hr|]. rewrite Habs. apply lc_apply_move; assumption.
Qed.

(* the refinement square is available at every legal move of a legal-consistent position *)
Theorem reach_step_abs dfrc p m : wf p = true -> rooks_ok p -> legal_consistent dfrc (abs p) = true ->
  In m (spec_moves (abs p)) -> abs (makemove K p m) = apply_move (abs p) m.
Proof.
  intros Hwf Hr Hlc Hm. exact (proj1 (makemove_refines K p m Hwf Hr (spec_moves_fit dfrc p m Hr Hlc Hm))).
Qed.

(* a line of play on the model: each move is legal (by the rules) in the position where it is played *)
Fixpoint legal_line_m (p : position) (ms : list move) : Prop :=
  match ms with
  | [] => True
  | m :: r => In m (spec_moves (abs p)) /\ legal_line_m (makemove K p m) r
  end.

Theorem reach_invariant_seq dfrc ms : forall p, wf p = true -> rooks_ok p -> legal_consistent dfrc (abs p) = true ->
  legal_line_m p ms ->
  let p' := fold_left (makemove K) ms p in
  wf p' = true /\ rooks_ok p' /\ legal_consistent dfrc (abs p') = true /\
  abs p' = fold_left apply_move ms (abs p) /\ legal_line (abs p) ms /\ reach K p p'.
Proof.
  induction ms as [|m r IH]; intros p Hwf Hr Hlc Hl.
  - cbn [fold_left legal_line]. split; [exact Hwf|]. split; [exact Hr|]. split; [exact Hlc|]. split; [reflexivity|]. split; [exact I|apply reach_start].
  - destruct Hl as [Hm Hl]. destruct (reach_invariant dfrc p m Hwf Hr Hlc Hm) as (W & R & L).
    pose proof (reach_step_abs dfrc p m Hwf Hr Hlc Hm) as Habs.
    pose proof (spec_moves_fit dfrc p m Hr Hlc Hm) as Hfit.
    destruct (IH (makemove K p m) W R L Hl) as (W' & R' & L' & A' & LL & RR).
    cbn [fold_left legal_line]. split; [exact W'|]. split; [exact R'|]. split; [exact L'|].
    split; [rewrite A', Habs; reflexivity|]. split; [split; [exact Hm|rewrite <- Habs; exact LL]|].
    clear - RR Hfit. induction RR as [|q m' H IHr Hf|q H IHr].
    + apply reach_make; [apply reach_start|exact Hfit].
    + apply reach_make; [exact IHr|exact Hf].
    + apply reach_null. exact IHr.
Qed.

(* the same as an inductive family: every position reached from p0 by legal play *)
Inductive lreach (p0 : position) : position -> Prop :=
| lreach_start : lreach p0 p0
| lreach_step p m : lreach p0 p -> In m (spec_moves (abs p)) -> lreach p0 (makemove K p m).

Theorem lreach_invariant dfrc p0 : wf p0 = true -> rooks_ok p0 -> legal_consistent dfrc (abs p0) = true ->
  forall p, lreach p0 p -> wf p = true /\ rooks_ok p /\ legal_consistent dfrc (abs p) = true /\ reach K p0 p.
Proof.
  intros Hwf Hr Hlc p H. induction H as [|p m H IH Hm].
  - split; [exact Hwf|]. split; [exact Hr|]. split; [exact Hlc|apply reach_start].
  - destruct IH as (W & R & L & RR). destruct (reach_invariant dfrc p m W R L Hm) as (W' & R' & L').
    split; [exact W'|]. split; [exact R'|]. split; [exact L'|].
    apply reach_make; [exact RR|]. exact (spec_moves_fit dfrc p m R L Hm).
Qed.
End Lift.

Print Assumptions lc_apply_move.
Print Assumptions reach_invariant.
Print Assumptions reach_invariant_seq.
Print Assumptions lreach_invariant.
