(* LegalCore.v — C01, foundation for the exactness proof outside double check:
   (1) the rules' verdict on a simple non-king move as "resolves every check" and "respects every pin";
   (2) the bitboard masks of the generators read on the mailbox: pinned(), allowed. *)
From Coq Require Import NArith ZArith List Bool Lia.
From Coq Require Import ZifyBool ZifyN ZifyNat.
From LC Require Import Bits BitsFacts Types BitboardModel BitboardFacts MoveModel MoveFacts MagicModel MagicFacts PositionModel MovegenModel MovegenFacts BoardFacts
  Spec.Rules Refine.Abs Refine.Board Refine.Make Refine.Wf Refine.MakeAbs Refine.SpecFits AttackFacts PinFacts KingFacts SafetyFacts LegalFacts.
Import ListNotations.
Local Open Scope N_scope.
Local Strategy 1000 [squares all64 seq].

(* ---------- geometry: between is symmetric as a set ---------- *)
Lemma between_sym_sweep :
  forallb (fun a => forallb (fun b => forallb (fun x => existsb (N.eqb x) (between b a)) (between a b)) all64) all64 = true.
Proof. vm_compute. reflexivity. Qed.
Lemma between_sym a b x : a < 64 -> b < 64 -> In x (between a b) -> In x (between b a).
Proof.
  intros Ha Hb Hx. pose proof (forallb_all64 _ (forallb_all64 _ between_sym_sweep a Ha) b Hb) as H. cbv beta in H.
  rewrite forallb_forall in H. apply in_existsb. apply H. exact Hx.
Qed.
Lemma between_sym_iff a b x : a < 64 -> b < 64 -> (In x (between a b) <-> In x (between b a)).
Proof. intros Ha Hb. split; apply between_sym; assumption. Qed.

Lemma same_sym_sweep : forallb (fun a => forallb (fun b => Bool.eqb (same_diag a b) (same_diag b a) && Bool.eqb (same_line a b) (same_line b a)) all64) all64 = true.
Proof. vm_compute. reflexivity. Qed.
Lemma same_diag_sym a b : a < 64 -> b < 64 -> same_diag a b = same_diag b a.
Proof. intros Ha Hb. pose proof (forallb_all64 _ (forallb_all64 _ same_sym_sweep a Ha) b Hb) as H. cbv beta in H. apply andb_true_iff in H. destruct H as [H _]. apply eqb_prop in H. exact H. Qed.
Lemma same_line_sym a b : a < 64 -> b < 64 -> same_line a b = same_line b a.
Proof. intros Ha Hb. pose proof (forallb_all64 _ (forallb_all64 _ same_sym_sweep a Ha) b Hb) as H. cbv beta in H. apply andb_true_iff in H. destruct H as [_ H]. apply eqb_prop in H. exact H. Qed.

(* ---------- pins on the mailbox ---------- *)
(* the enemy slider on a is aligned with the king on k and x is the only piece between them *)
Definition Pinner (f : mb) (us : side) (k a x : N) : Prop :=
  a < 64 /\ exists pa, f a = Some (opp_side us, pa) /\ is_slider pa = true /\ slider_aligned pa a k = true /\ alone_between f k a x.

Section SimpleSafe.
Variable p : position.
Hypothesis Hwf : wf p = true.
Variable k : N.
Hypothesis Hk : find_king (abs_board p) (turn p) = Some k.
Hypothesis Huk : forall a, a < 64 -> cell_of_b (brd p) a = Some (turn p, King) -> a = k.

Definition resolves (t : N) : Prop := forall a, checker p k a -> t = a \/ In t (between a k).
Definition pin_ok (fr t : N) : Prop := forall a, Pinner (cell_of_b (brd p)) (turn p) k a fr -> t = a \/ In t (between a k).

Theorem simple_safe_iff ty fr t pc cap pr :
  (match ty with Normal | Capture | Double | Promo | PromoCapture => True | _ => False end) ->
  fr < 64 -> t < 64 -> fr <> t -> t <> k -> pc <> King -> (match ty with Promo | PromoCapture => pr <> King | _ => True end) ->
  cell_of_b (brd p) fr = Some (turn p, pc) ->
  (leaves_king_safe (abs p) (mkMove ty fr t pc cap pr) = true <-> resolves t /\ pin_ok fr t).
Proof.
  intros Hty Hfr Ht Hne Htk Hpc Hpr Hf. destruct (k_lt p Hwf k Hk) as [Hk64 Hfk].
  assert (Hfk' : fr <> k) by (intros ->; rewrite Hfk in Hf; inversion Hf; congruence).
  rewrite (simple_move_safe p Hwf k Hk Huk ty fr t pc cap pr Hty Hfr Ht Hne Hfk' Htk Hpc Hpr). rewrite negb_true_iff.
  rewrite (safe_after_iff (cell_of_b (brd p)) (turn p) k fr t _ Hk64 Hfr Ht Hne (not_eq_sym Hfk') (not_eq_sym Htk)
             (ex_intro _ pc Hf) (ex_intro _ _ eq_refl)).
  unfold resolves, pin_ok, checker, Pinner. split.
  - intros [H1 H2]. split.
    + intros a (Ha & pa & Efa & Hatt). destruct (N.eq_dec a t) as [->|Hat]; [left; reflexivity|right]. exact (H1 a pa Ha Hat Efa Hatt).
    + intros a (Ha & pa & Efa & Hs & Hal & Halone). destruct (N.eq_dec a t) as [->|Hat]; [left; reflexivity|right]. exact (H2 a pa Ha Hat Efa Hs Hal Halone).
  - intros [H1 H2]. split.
    + intros a pa Ha Hat Efa Hatt. destruct (H1 a (conj Ha (ex_intro _ pa (conj Efa Hatt)))) as [E|E]; [congruence|exact E].
    + intros a pa Ha Hat Efa Hs Hal Halone. destruct (H2 a (conj Ha (ex_intro _ pa (conj Efa (conj Hs (conj Hal Halone)))))) as [E|E]; [congruence|exact E].
Qed.
End SimpleSafe.

(* ---------- pinned() on the mailbox ---------- *)
Lemma between_lt a b x : a < 64 -> b < 64 -> In x (between a b) -> x < 64.
Proof. intros Ha Hb Hx. destruct (between_geo a b Ha Hb) as (_ & _ & _ & H). destruct (H x Hx) as (H1 & _). exact H1. Qed.

Theorem pinned_iff p k x : wf p = true -> find_king (abs_board p) (turn p) = Some k -> x < 64 ->
  (N.testbit (pinned p) x = true <->
   (exists pc, cell_of_b (brd p) x = Some (turn p, pc)) /\ exists a, Pinner (cell_of_b (brd p)) (turn p) k a x).
Proof.
  intros Hwf Hk Hx. pose proof (wf_rep (brd p) Hwf) as Hrep. destruct (k_lt p Hwf k Hk) as [Hk64 Hfk].
  destruct (king_position_exact p _ _ k Hrep Hk) as (Ekp & _ & _).
  unfold pinned. rewrite Ekp, (pinned_exact p _ (turn p) k x Hrep Hk64 Hx). unfold spec_pin_pred. rewrite at_board_of by exact Hx.
  set (f := cell_of_b (brd p)) in *.
  assert (Hinner : forall a, a < 64 ->
     (match at_sq (board_of f) a with
      | Some (ca, pa) => negb (side_eqb ca (turn p)) &&
          (match pa with Bishop => same_diag k a | Rook => same_line k a | Queen => same_diag k a || same_line k a | _ => false end) &&
          negb (a =? k) && existsb (N.eqb x) (between k a) && forallb (fun q => (q =? x) || is_empty (board_of f) q) (between k a)
      | None => false end = true <-> Pinner f (turn p) k a x)).
  { intros a Ha. rewrite at_board_of by exact Ha. unfold Pinner, alone_between, slider_aligned.
    rewrite (same_diag_sym a k Ha Hk64), (same_line_sym a k Ha Hk64). split.
    - destruct (f a) as [[ca pa]|] eqn:Efa; [|discriminate]. intros H.
      repeat (apply andb_true_iff in H; let H' := fresh "G" in destruct H as [H H']).
      apply negb_true_iff in H. apply opp_of_neq' in H. subst ca. split; [exact Ha|]. exists pa. split; [reflexivity|].
      assert (Hs : is_slider pa = true) by (destruct pa; try discriminate; reflexivity).
      split; [exact Hs|]. split; [rewrite G1; destruct pa; try discriminate; cbn; try exact G2; rewrite G2; reflexivity|].
      split; [apply between_sym; try assumption; apply in_existsb; exact G0|].
      intros y Hy Hyx. apply (between_sym a k y Ha Hk64) in Hy. rewrite forallb_forall in G. specialize (G y Hy).
      apply orb_true_iff in G. destruct G as [G|G]; [apply N.eqb_eq in G; contradiction|].
      unfold is_empty in G. rewrite at_board_of in G by (apply (between_lt k a); assumption). destruct (f y); [discriminate|reflexivity].
    - intros (_ & pa & Efa & Hs & Hal & Hin & Hal2). rewrite Efa.
      apply andb_true_iff in Hal. destruct Hal as [Hak Hal]. rewrite Hak. 
      replace (negb (side_eqb (opp_side (turn p)) (turn p))) with true by (destruct (turn p); reflexivity).
      replace (existsb (N.eqb x) (between k a)) with true by (symmetry; apply in_existsb, between_sym; assumption).
      replace (match pa with Bishop => same_diag k a | Rook => same_line k a | Queen => same_diag k a || same_line k a | _ => false end) with true
        by (destruct pa; try discriminate; rewrite Hal; reflexivity).
      cbn [andb]. apply forallb_forall. intros y Hy. destruct (N.eqb_spec y x) as [E|Hne]; [reflexivity|]. cbn [orb].
      unfold is_empty. rewrite at_board_of by (apply (between_lt k a); assumption). rewrite (Hal2 y) by (try apply between_sym; assumption). reflexivity. }
  split.
  - destruct (f x) as [[c pc]|] eqn:Efx; [|discriminate]. intros H. apply andb_true_iff in H. destruct H as [H H2]. apply andb_true_iff in H. destruct H as [H1 H3].
    apply side_eqb_true in H1. subst c. split; [exists pc; reflexivity|].
    apply existsb_exists in H2. destruct H2 as [a [Ha H2]]. apply in_squares in Ha. exists a. apply (Hinner a Ha). exact H2.
  - intros [[pc Efx] [a Hp]]. rewrite Efx, side_eqb_refl. cbn [andb].
    assert (Ha : a < 64) by (destruct Hp as [Ha _]; exact Ha).
    assert (Hxk : x <> k).
    { destruct Hp as (_ & pa & _ & _ & _ & Hin & _). destruct (between_geo a k Ha Hk64) as (Hnk & _). intros ->. contradiction. }
    replace (x =? k) with false by lia. cbn [negb andb]. apply existsb_exists. exists a. split; [apply in_squares; exact Ha|]. apply (Hinner a Ha). exact Hp.
Qed.

(* ---------- checkers() and the two "allowed" masks ---------- *)
Lemma count_zero x : x < two64 -> bb_count x = 0 -> forall i, i < 64 -> N.testbit x i = false.
Proof.
  intros Hx Hc i Hi. rewrite (bb_count_members x Hx) in Hc. destruct (members x) as [|a l] eqn:E; [|cbn in Hc; lia].
  destruct (N.testbit x i) eqn:Eb; [|reflexivity]. exfalso.
  assert (In i (members x)) by (unfold members; apply filter_In; split; [apply in_all64; exact Hi|exact Eb]). rewrite E in H. destruct H.
Qed.

Lemma count_one x : x < two64 -> bb_count x = 1 -> bb_lsb x < 64 /\ forall i, i < 64 -> N.testbit x i = (i =? bb_lsb x).
Proof.
  intros Hx Hc. rewrite (bb_count_members x Hx) in Hc. destruct (members x) as [|a [|b l]] eqn:E; cbn in Hc; try lia.
  assert (Hmem : forall i, i < 64 -> N.testbit x i = (i =? a)).
  { intros i Hi. destruct (N.testbit x i) eqn:Eb.
    - assert (H : In i (members x)) by (unfold members; apply filter_In; split; [apply in_all64; exact Hi|exact Eb]).
      rewrite E in H. destruct H as [<-|[]]. symmetry. apply N.eqb_refl.
    - destruct (N.eqb_spec i a) as [->|]; [|reflexivity]. assert (H : In a (members x)) by (rewrite E; left; reflexivity).
      unfold members in H. apply filter_In in H. destruct H as [_ H]. unfold mem in H. congruence. }
  assert (Ha : a < 64 /\ N.testbit x a = true).
  { assert (H : In a (members x)) by (rewrite E; left; reflexivity). unfold members in H. apply filter_In in H. destruct H as [H1 H2]. apply in_all64 in H1. split; assumption. }
  assert (H0 : 0 < x) by (destruct (N.eq_dec x 0) as [E0|E0]; [destruct Ha as [_ Ha]; rewrite E0, N.bits_0 in Ha; discriminate|lia]).
  destruct (bb_lsb_spec x H0 Hx) as (L1 & L2 & _). unfold mem in L2. rewrite (Hmem _ L1) in L2. apply N.eqb_eq in L2. rewrite L2.
  split; [apply Ha|exact Hmem].
Qed.

Section Masks.
Variable p : position.
Hypothesis Hwf : wf p = true.
Variable k : N.
Hypothesis Hk : find_king (abs_board p) (turn p) = Some k.
Notation f := (cell_of_b (brd p)).
Notation us := (turn p).
Notation them := (opp_side (turn p)).

Lemma Hrep_ : rep (brd p) f. Proof. apply wf_rep. exact Hwf. Qed.

Lemma checkers_lt : checkers p < two64.
Proof. unfold checkers. apply attackers_lt. destruct Hrep_ as [_ H]. exact H. Qed.

Lemma checker_bit a : a < 64 -> (N.testbit (checkers p) a = true <-> checker p k a).
Proof.
  intros Ha. destruct (k_lt p Hwf k Hk) as [Hk64 _]. destruct (king_position_exact p _ _ k Hrep_ Hk) as (Ekp & _ & _).
  unfold checkers. rewrite Ekp, (attackers_exact p f k them a Hrep_ Hk64 Ha). unfold checker. split.
  - destruct (f a) as [[c pc]|] eqn:Ef; [|discriminate]. intros H. apply andb_true_iff in H. destruct H as [H1 H2]. apply side_eqb_true in H1. subst c.
    split; [exact Ha|]. exists pc. split; [reflexivity|exact H2].
  - intros (_ & pa & Ef & Hatt). rewrite Ef, side_eqb_refl. exact Hatt.
Qed.

Lemma own_bit t : t < 64 -> N.testbit (occupancy_s p us) t = match f t with Some (c, _) => side_eqb c us | None => false end.
Proof. intros Ht. destruct Hrep_ as [H _]. destruct (H t Ht) as [[Hc _] _]. unfold occupancy_s. rewrite Hc. destruct (f t) as [[c pc]|]; [apply side_eqb_sym_lemma|reflexivity]. Qed.
Lemma them_bit t : t < 64 -> N.testbit (occupancy_s p them) t = match f t with Some (c, _) => side_eqb c them | None => false end.
Proof. intros Ht. destruct Hrep_ as [H _]. destruct (H t Ht) as [[Hc _] _]. unfold occupancy_s. rewrite Hc. destruct (f t) as [[c pc]|]; [apply side_eqb_sym_lemma|reflexivity]. Qed.
Lemma emp_bit t : t < 64 -> N.testbit (empty_sqs p) t = match f t with Some _ => false | None => true end.
Proof. intros Ht. unfold empty_sqs. rewrite not64_spec. replace (t <? 64) with true by lia. cbn [andb]. rewrite (occupied_rep p f t Hrep_ Ht). destruct (f t); reflexivity. Qed.

Hypothesis Hnd : (1 <? bb_count (checkers p)) = false.

Definition allowed_c : N := if bb_count (checkers p) =? 1 then bit (bb_lsb (checkers p)) else occupancy_s p them.
Definition allowed_q : N := if bb_count (checkers p) =? 1 then squares_between k (bb_lsb (checkers p)) else empty_sqs p.

(* on an enemy-occupied target: allowed <-> the capture resolves every check *)
Lemma allowed_c_iff t c pc : t < 64 -> f t = Some (c, pc) -> c = them -> (N.testbit allowed_c t = true <-> resolves p k t).
Proof.
  intros Ht Ef ->. unfold allowed_c, resolves. destruct (N.eqb_spec (bb_count (checkers p)) 1) as [E1|E1].
  - destruct (count_one _ checkers_lt E1) as [Hl Hb]. set (a0 := bb_lsb (checkers p)) in *.
    rewrite (bit_spec a0 t Hl). split.
    + intros E a Hc. apply N.eqb_eq in E. subst t. left. pose proof Hc as [Ha _]. apply (checker_bit a Ha) in Hc. rewrite (Hb a Ha) in Hc. apply N.eqb_eq in Hc. congruence.
    + intros H. assert (Hc0 : checker p k a0) by (apply (checker_bit a0 Hl); rewrite (Hb a0 Hl); apply N.eqb_refl).
      destruct (H a0 Hc0) as [->|Hin]; [apply N.eqb_refl|]. pose proof (checker_line_clear p Hwf k Hk a0 t Hc0 Hin) as Hn. congruence.
  - assert (E0 : bb_count (checkers p) = 0) by (apply N.ltb_ge in Hnd; lia).
    rewrite (them_bit t Ht), Ef, side_eqb_refl. split; [|reflexivity]. intros _ a Hc. pose proof Hc as [Ha _].
    apply (checker_bit a Ha) in Hc. rewrite (count_zero _ checkers_lt E0 a Ha) in Hc. discriminate.
Qed.

(* on an empty target: allowed <-> the move resolves every check *)
Lemma allowed_q_iff t : t < 64 -> f t = None -> (N.testbit allowed_q t = true <-> resolves p k t).
Proof.
  intros Ht Ef. destruct (k_lt p Hwf k Hk) as [Hk64 _]. unfold allowed_q, resolves. destruct (N.eqb_spec (bb_count (checkers p)) 1) as [E1|E1].
  - destruct (count_one _ checkers_lt E1) as [Hl Hb]. set (a0 := bb_lsb (checkers p)) in *.
    pose proof (squares_between_exact k a0 t Hk64 Hl) as Hsb. unfold mem in Hsb. rewrite Hsb, <- in_existsb.
    assert (Hc0 : checker p k a0) by (apply (checker_bit a0 Hl); rewrite (Hb a0 Hl); apply N.eqb_refl). split.
    + intros Hin a Hc. pose proof Hc as [Ha _]. apply (checker_bit a Ha) in Hc. rewrite (Hb a Ha) in Hc. apply N.eqb_eq in Hc. subst a.
      right. apply between_sym; assumption.
    + intros H. destruct (H a0 Hc0) as [->|Hin]; [|apply between_sym; assumption].
      destruct Hc0 as (_ & pa & Efa & _). congruence.
  - assert (E0 : bb_count (checkers p) = 0) by (apply N.ltb_ge in Hnd; lia).
    rewrite (emp_bit t Ht), Ef. split; [|reflexivity]. intros _ a Hc. pose proof Hc as [Ha _].
    apply (checker_bit a Ha) in Hc. rewrite (count_zero _ checkers_lt E0 a Ha) in Hc. discriminate.
Qed.
End Masks.

(* ---------- the generators outside double check, split into named parts ---------- *)
Section Parts.
Variable p : position.
Notation us := (turn p).
Notation them := (opp_side (turn p)).
Notation ksq := (king_position p (turn p)).
Notation chk := (checkers p).

Definition g_allowed_c : N := if bb_count chk =? 1 then bit (bb_lsb chk) else occupancy_s p them.
Definition g_allowed_q : N := if bb_count chk =? 1 then squares_between ksq (bb_lsb chk) else empty_sqs p.
Definition g_ep_bb : N := if ep p =? OffSq then 0 else bit (ep p).
Definition g_pin : N := pinned p.
Definition g_pinned_rook : N := N.lor (N.land g_pin (rank_mask (sq_rank ksq))) (N.land g_pin (file_mask (sq_file ksq))).
Definition g_pinned_bishop : N := N.lxor g_pin g_pinned_rook.
Definition g_pinned_ne_sw : N := N.land g_pinned_bishop (N.lor (ray_north_east ksq (occupied p)) (ray_south_west ksq (occupied p))).
Definition g_pinned_nw_se : N := N.lxor g_pinned_bishop g_pinned_ne_sw.
Definition g_bishop_xrays : N := bishop_moves ksq (N.lxor (occupied p) g_pinned_bishop).
Definition g_rook_xrays : N := rook_moves ksq (N.lxor (occupied p) g_pinned_rook).
Definition g_ep_resolves : bool :=
  bb_empty chk || bb_nonempty (N.land g_allowed_c (match us with White => south g_ep_bb | Black => north g_ep_bb end)) ||
  bb_nonempty (N.land (squares_between ksq (bb_lsb chk)) g_ep_bb).
Definition g_occ_ne : N := not64 (empty_sqs p).

Definition g_pawn_caps : list move :=
  pawn_captures p us ksq (occupied p) g_allowed_c g_pinned_rook g_pinned_ne_sw g_pinned_nw_se g_ep_bb g_ep_resolves.
Definition g_piece_caps : list move :=
  piece_captures p us g_allowed_c g_pin g_pinned_bishop g_pinned_rook g_bishop_xrays g_rook_xrays g_occ_ne.

Definition g_bscan : N * list move :=
  pin_scan p bishop_moves (bishop_moves ksq (occupied p)) (N.lor (pieces p them Bishop) (pieces p them Queen)) Bishop g_allowed_q.
Definition g_rscan : N * list move :=
  pin_scan p rook_moves (rook_moves ksq (occupied p)) (N.lor (pieces p them Rook) (pieces p them Queen)) Rook g_allowed_q.
Definition g_bishop_pinned : N := fst g_bscan.
Definition g_rook_pinned : N := fst g_rscan.
Definition g_nonpinned : N := N.lxor (occupancy_s p us) (N.lor g_rook_pinned g_bishop_pinned).
Definition g_push_pawns : N :=
  N.land (pieces p us Pawn) (not64 (N.lor (N.land g_rook_pinned (rank_mask (sq_rank ksq))) g_bishop_pinned)).
Definition g_pawn_pushes : list move := pawn_pushes us g_push_pawns g_allowed_q (empty_sqs p).
Definition g_piece_quiets : list move := piece_quiets p us g_nonpinned g_allowed_q g_occ_ne.
Definition g_castles : list move := castles p (negb (bb_empty chk)) g_rook_pinned.

Lemma legal_moves_parts : (1 <? bb_count chk) = false ->
  legal_moves p = (g_pawn_caps ++ g_piece_caps ++ king_captures p) ++
                  (snd g_bscan ++ snd g_rscan ++ g_pawn_pushes ++ g_piece_quiets ++ king_quiets p ++ g_castles).
Proof.
  intros Hnd. unfold legal_moves, legal_moves_gen, legal_captures_gen, legal_noncaptures. cbv zeta. rewrite Hnd. reflexivity.
Qed.
End Parts.

Section MasksFull.
Variable p : position.
Hypothesis Hwf : wf p = true.
Variable k : N.
Hypothesis Hk : find_king (abs_board p) (turn p) = Some k.
Hypothesis Hnd : (1 <? bb_count (checkers p)) = false.
Notation f := (cell_of_b (brd p)).
Notation them := (opp_side (turn p)).

Lemma ksq_eq : king_position p (turn p) = k.
Proof. destruct (king_position_exact p _ _ k (Hrep_ p Hwf) Hk) as (E & _ & _). exact E. Qed.

Lemma g_allowed_c_eq : g_allowed_c p = allowed_c p. Proof. reflexivity. Qed.
Lemma g_allowed_q_eq : g_allowed_q p = allowed_q p k. Proof. unfold g_allowed_q, allowed_q. rewrite ksq_eq. reflexivity. Qed.

Lemma g_allowed_c_lt : g_allowed_c p < two64.
Proof. unfold g_allowed_c. destruct (_ =? 1); [apply bit_lt|apply colour_lt]. destruct (Hrep_ p Hwf) as [_ H]. exact H. Qed.

(* captures: allowed = an enemy piece stands there and taking it resolves every check *)
Theorem g_allowed_c_iff t : t < 64 ->
  (N.testbit (g_allowed_c p) t = true <-> (exists cp, f t = Some (them, cp)) /\ resolves p k t).
Proof.
  intros Ht. rewrite g_allowed_c_eq. split.
  - intros H. assert (He : exists cp, f t = Some (them, cp)).
    { unfold allowed_c in H. destruct (N.eqb_spec (bb_count (checkers p)) 1) as [E1|E1].
      - destruct (count_one _ (checkers_lt p Hwf) E1) as [Hl Hb]. rewrite (bit_spec _ t Hl) in H. apply N.eqb_eq in H. subst t.
        assert (Hc : checker p k (bb_lsb (checkers p))) by (apply (checker_bit p Hwf k Hk _ Hl); rewrite (Hb _ Hl); apply N.eqb_refl).
        destruct Hc as (_ & pa & E & _). exists pa. exact E.
      - rewrite (them_bit p Hwf t Ht) in H. destruct (f t) as [[c cp]|]; [|discriminate]. apply side_eqb_true in H. subst c. exists cp. reflexivity. }
    split; [exact He|]. destruct He as [cp He]. apply (allowed_c_iff p Hwf k Hk Hnd t them cp Ht He eq_refl). exact H.
  - intros [[cp He] Hr]. apply (allowed_c_iff p Hwf k Hk Hnd t them cp Ht He eq_refl). exact Hr.
Qed.

(* non-captures: allowed = the square is empty and moving there resolves every check *)
Theorem g_allowed_q_iff t : t < 64 ->
  (N.testbit (g_allowed_q p) t = true <-> f t = None /\ resolves p k t).
Proof.
  intros Ht. rewrite g_allowed_q_eq. destruct (k_lt p Hwf k Hk) as [Hk64 _]. split.
  - intros H. assert (He : f t = None).
    { unfold allowed_q in H. destruct (N.eqb_spec (bb_count (checkers p)) 1) as [E1|E1].
      - destruct (count_one _ (checkers_lt p Hwf) E1) as [Hl Hb].
        assert (Hc : checker p k (bb_lsb (checkers p))) by (apply (checker_bit p Hwf k Hk _ Hl); rewrite (Hb _ Hl); apply N.eqb_refl).
        pose proof (squares_between_exact k _ t Hk64 Hl) as Hsb. unfold mem in Hsb. rewrite Hsb, <- in_existsb in H.
        apply (checker_line_clear p Hwf k Hk _ t Hc). apply between_sym; assumption.
      - rewrite (emp_bit p Hwf t Ht) in H. destruct (f t); [discriminate|reflexivity]. }
    split; [exact He|]. apply (allowed_q_iff p Hwf k Hk Hnd t Ht He). exact H.
  - intros [He Hr]. apply (allowed_q_iff p Hwf k Hk Hnd t Ht He). exact Hr.
Qed.

Lemma squares_between_lt_sweep : forallb (fun a => forallb (fun b => squares_between a b <? two64) all64) all64 = true.
Proof. vm_compute. reflexivity. Qed.
Lemma g_allowed_q_lt : g_allowed_q p < two64.
Proof.
  rewrite g_allowed_q_eq. unfold allowed_q. destruct (k_lt p Hwf k Hk) as [Hk64 _]. destruct (N.eqb_spec (bb_count (checkers p)) 1) as [E1|E1]; [|apply not64_lt].
  destruct (count_one _ (checkers_lt p Hwf) E1) as [Hl _].
  pose proof (forallb_all64 _ (forallb_all64 _ squares_between_lt_sweep k Hk64) _ Hl) as H. cbv beta in H. apply N.ltb_lt in H. exact H.
Qed.
End MasksFull.

(* ---------- legal-consistency: the side that is not to move is not in check ---------- *)
Lemma lc_enemy_king_safe dfrc p fr pc t : wf p = true -> legal_consistent dfrc (abs p) = true ->
  fr < 64 -> t < 64 -> cell_of_b (brd p) fr = Some (turn p, pc) -> cell_of_b (brd p) t = Some (opp_side (turn p), King) ->
  piece_attacks (abs_board p) (turn p) pc fr t = false.
Proof.
  intros Hwf Hlc Hfr Ht Hf Hkt.
  destruct (lc_king dfrc p (opp_side (turn p)) Hlc) as [ek [Hek Huek]].
  assert (E : t = ek) by (apply Huek; assumption). subst t.
  unfold legal_consistent in Hlc. cbv zeta in Hlc.
  repeat (apply andb_true_iff in Hlc; let H' := fresh "L" in destruct Hlc as [Hlc H']).
  apply negb_true_iff in L4. cbn [abs s_board s_turn] in L4. unfold king_attacked in L4. rewrite Hek in L4.
  replace (opp_side (opp_side (turn p))) with (turn p) in L4 by (destruct (turn p); reflexivity).
  pose proof (proj1 (attacked_false_iff (cell_of_b (brd p)) ek (turn p)) L4 fr Hfr) as H. cbv beta in H.
  rewrite Hf, side_eqb_refl in H. exact H.
Qed.
