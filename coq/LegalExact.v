(* LegalExact.v — C01: assembly.  legal_moves p is, as a list without repetition, exactly the legal moves of the rules. *)
From Coq Require Import NArith ZArith List Bool Lia.
From Coq Require Import ZifyBool ZifyN ZifyNat.
From LC Require Import Bits BitsFacts Types BitboardModel BitboardFacts MoveModel MoveFacts MagicModel MagicFacts HashFacts PositionModel MovegenModel MovegenFacts BoardFacts
  Spec.Rules Refine.Abs Refine.Board Refine.Make Refine.Wf Refine.MakeAbs Refine.SpecFits AttackFacts PinFacts KingFacts SafetyFacts LegalFacts LegalCore PinScanFacts PieceExact OfficerExact.
Import ListNotations.
Local Open Scope N_scope.
Local Strategy 1000 [squares all64 seq].

(* the king's ordinary moves: the two king emits are check_evasions *)
Lemma king_parts_eq p : check_evasions p = king_captures p ++ king_quiets p.
Proof.
  unfold check_evasions, king_captures, king_quiets, normals_from, king_allowed. cbv zeta.
  f_equal; f_equal; rewrite N.land_comm; reflexivity.
Qed.

Theorem king_part_exact dfrc p m : wf p = true -> legal_consistent dfrc (abs p) = true ->
  (In m (king_captures p ++ king_quiets p) <-> (In m (spec_moves (abs p)) /\ is_king_step m = true)).
Proof. intros Hwf Hlc. rewrite <- king_parts_eq. apply (check_evasions_exact_lc dfrc p m Hwf Hlc). Qed.

(* every legal move of the rules belongs to one class *)
Lemma spec_class p m : In m (spec_moves (abs p)) ->
  m_piece m = Pawn \/ officer (m_piece m) = true \/ is_king_step m = true \/ (m_type m = Ksc \/ m_type m = Qsc).
Proof.
  intros Hin. unfold spec_moves in Hin. apply filter_In in Hin. destruct Hin as [Hps _].
  unfold pseudo_moves in Hps. apply in_app_or in Hps. destruct Hps as [Hps|Hps].
  - apply in_flat_map in Hps. destruct Hps as [fr [_ Hps]].
    destruct (at_sq (s_board (abs p)) fr) as [[c pc]|]; [|destruct Hps]. destruct (side_eqb c (s_turn (abs p))); [|destruct Hps].
    destruct pc; cbv iota in Hps;
      try (match type of Hps with In _ (piece_candidates _ _ ?q) => pose proof (piece_candidates_labels (abs p) fr q m Hps) as (E & _ & Ety) end).
    + left. apply (pawn_candidates_labels (abs p) fr m Hps).
    + right. left. rewrite E. reflexivity.
    + right. left. rewrite E. reflexivity.
    + right. left. rewrite E. reflexivity.
    + right. left. rewrite E. reflexivity.
    + right. right. left. unfold is_king_step. rewrite E. destruct Ety as [-> | ->]; reflexivity.
    + destruct Hps.
  - right. right. right. destruct (s_turn (abs p)); apply in_app_or in Hps; destruct Hps as [H|H]; apply castle_candidate_labels in H; tauto.
Qed.

Lemma mtype_eq_dec (a b : mtype) : {a = b} + {a <> b}.
Proof. decide equality. Qed.

(* ---------- assembly outside double check (the per-class exactness theorems are parameters here and are
   instantiated in LegalFinal.v) ---------- *)
Section NotDouble.
Variable dfrc : bool.
Variable p : position.
Hypothesis Hwf : wf p = true.
Hypothesis Hlc : legal_consistent dfrc (abs p) = true.
Variable k : N.
Hypothesis Hk : find_king (abs_board p) (turn p) = Some k.
Hypothesis Huk : forall a, a < 64 -> cell_of_b (brd p) a = Some (turn p, King) -> a = k.
Hypothesis Hnd : (1 <? bb_count (checkers p)) = false.

Hypothesis pawn_exact : forall m, m_type m <> Enpassant ->
  (In m (g_pawn_caps p ++ g_pawn_pushes p) /\ m_piece m = Pawn <-> In m (spec_moves (abs p)) /\ m_piece m = Pawn).
Hypothesis ep_exact : forall m, m_type m = Enpassant -> (In m (g_pawn_caps p) <-> In m (spec_moves (abs p))).
Hypothesis castle_exact : forall m, (m_type m = Ksc \/ m_type m = Qsc) -> (In m (g_castles p) <-> In m (spec_moves (abs p))).
Hypothesis lab_pawn_caps : forall m, In m (g_pawn_caps p) -> m_piece m = Pawn /\ (m_type m = Capture \/ m_type m = PromoCapture \/ m_type m = Enpassant).
Hypothesis lab_pawn_pushes : forall m, In m (g_pawn_pushes p) -> m_piece m = Pawn /\ (m_type m = Normal \/ m_type m = Double \/ m_type m = Promo).
Hypothesis lab_castles : forall m, In m (g_castles p) -> m_piece m = King /\ (m_type m = Ksc \/ m_type m = Qsc).

Lemma spec_ep_is_pawn m : In m (spec_moves (abs p)) -> m_type m = Enpassant -> m_piece m = Pawn.
Proof.
  intros Hin Hty. destruct (spec_class p m Hin) as [H|[H|[H|H]]]; [exact H| | |].
  - exfalso. unfold spec_moves in Hin. apply filter_In in Hin. destruct Hin as [Hps _]. pose proof (pseudo_shape _ _ Hps) as Hs. rewrite Hty in Hs.
    destruct Hs as [e [_ Hm]]. rewrite Hm in H. discriminate.
  - unfold is_king_step in H. rewrite Hty in H. rewrite andb_false_r in H. discriminate.
  - destruct H as [H|H]; congruence.
Qed.

Theorem not_double_members m : In m (legal_moves p) <-> In m (spec_moves (abs p)).
Proof.
  rewrite (legal_moves_parts p Hnd).
  assert (Hoff := officers_exact dfrc p Hwf Hlc k Hk Huk Hnd m).
  assert (Hking := king_part_exact dfrc p m Hwf Hlc).
  rewrite !in_app_iff in *. split.
  - intros [[H|[H|H]]|[H|[H|[H|[H|[H|H]]]]]].
    + destruct (lab_pawn_caps m H) as [Hpc Hty]. destruct (mtype_eq_dec (m_type m) Enpassant) as [E|E].
      * apply (ep_exact m E). exact H.
      * apply (pawn_exact m E). split; [apply in_or_app; left; exact H|exact Hpc].
    + apply Hoff. left. exact H.
    + apply Hking. left. exact H.
    + apply Hoff. right. left. exact H.
    + apply Hoff. right. right. left. exact H.
    + destruct (lab_pawn_pushes m H) as [Hpc Hty]. assert (E : m_type m <> Enpassant) by (destruct Hty as [E|[E|E]]; rewrite E; discriminate).
      apply (pawn_exact m E). split; [apply in_or_app; right; exact H|exact Hpc].
    + apply Hoff. right. right. right. exact H.
    + apply Hking. right. exact H.
    + destruct (lab_castles m H) as [_ Hty]. apply (castle_exact m Hty). exact H.
  - intros Hin. destruct (spec_class p m Hin) as [Hc|[Hc|[Hc|Hc]]].
    + destruct (mtype_eq_dec (m_type m) Enpassant) as [E|E].
      * left. left. apply (ep_exact m E). exact Hin.
      * destruct (proj2 (pawn_exact m E) (conj Hin Hc)) as [H _]. apply in_app_or in H. destruct H as [H|H]; [left; left; exact H|right; right; right; left; exact H].
    + destruct (proj2 Hoff (conj Hin Hc)) as [H|[H|[H|H]]]; [left; right; left; exact H|right; left; exact H|right; right; left; exact H|right; right; right; right; left; exact H].
    + destruct (proj2 Hking (conj Hin Hc)) as [H|H]; [left; right; right; exact H|right; right; right; right; right; left; exact H].
    + right. right. right. right. right. right. apply (castle_exact m Hc). exact Hin.
Qed.
End NotDouble.
