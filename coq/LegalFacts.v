(* LegalFacts.v — C01: the rules' verdict on simple moves (one origin vacated, one destination occupied) read
   through SafetyFacts; positions in double check. *)
From Coq Require Import NArith ZArith List Bool Lia.
From Coq Require Import ZifyBool ZifyN ZifyNat.
From LC Require Import Bits BitsFacts Types BitboardModel BitboardFacts MoveModel MoveFacts MagicFacts PositionModel MovegenModel MovegenFacts BoardFacts
  Spec.Rules Refine.Abs Refine.Board Refine.Make Refine.Wf Refine.MakeAbs Refine.SpecFits AttackFacts PinFacts KingFacts SafetyFacts.
Import ListNotations.
Local Open Scope N_scope.
Local Strategy 1000 [squares all64 seq].

(* two rays from the king that share a square are one ray: the nearer attacker stands between the farther and the king *)
Lemma ray_share_sweep :
  forallb (fun k => forallb (fun a => forallb (fun a' =>
     if negb (a =? a') && existsb (fun x => existsb (N.eqb x) (between a' k)) (between a k)
     then existsb (N.eqb a) (between a' k) || existsb (N.eqb a') (between a k) else true) all64) all64) all64 = true.
Proof. vm_compute. reflexivity. Qed.

Lemma in_existsb x l : In x l <-> existsb (N.eqb x) l = true.
Proof. rewrite existsb_exists. split; [intros H; exists x; split; [exact H|apply N.eqb_refl]|intros [y [Hy E]]; apply N.eqb_eq in E; subst; exact Hy]. Qed.

Lemma ray_share k a a' x : k < 64 -> a < 64 -> a' < 64 -> a <> a' -> In x (between a k) -> In x (between a' k) ->
  In a (between a' k) \/ In a' (between a k).
Proof.
  intros Hk Ha Ha' Hne H1 H2. pose proof (forallb_all64 _ (forallb_all64 _ (forallb_all64 _ ray_share_sweep k Hk) a Ha) a' Ha') as H. cbv beta in H.
  replace (negb (a =? a')) with true in H by lia.
  assert (E : existsb (fun x0 => existsb (N.eqb x0) (between a' k)) (between a k) = true).
  { apply existsb_exists. exists x. split; [exact H1|apply in_existsb; exact H2]. }
  rewrite E in H. cbn [andb] in H. apply orb_true_iff in H. destruct H as [H|H]; [left|right]; apply in_existsb; exact H.
Qed.

Section Simple.
Variable p : position.
Hypothesis Hwf : wf p = true.
Let f := cell_of_b (brd p).
Let us := turn p.
Let them := opp_side us.
Variable k : N.
Hypothesis Hk : find_king (abs_board p) us = Some k.
Hypothesis Huk : forall a, a < 64 -> f a = Some (us, King) -> a = k.
Let Hrep : rep (brd p) f := wf_rep (brd p) Hwf.

Lemma k_lt : k < 64 /\ f k = Some (us, King).
Proof. destruct (k_facts p f Hrep k Hk) as (_ & H1 & H2). split; assumption. Qed.

(* the board after a simple move *)
Lemma simple_board ty fr t pc cap pr : (match ty with Normal | Capture | Double | Promo | PromoCapture => True | _ => False end) ->
  apply_board (abs_board p) us (mkMove ty fr t pc cap pr) =
  board_of (upd (upd f fr None) t (Some (us, match ty with Promo | PromoCapture => pr | _ => pc end))).
Proof.
  intros Hty. unfold apply_board. cbn [m_type m_from m_to m_piece m_promo].
  destruct ty; try contradiction; rewrite !put_as_map; unfold board_of; apply map_all64_ext; intros q Hq; unfold upd;
    (destruct (q =? t); [reflexivity|]); rewrite at_sq_map by exact Hq; (destruct (q =? fr); [reflexivity|]); apply at_sq_abs_board; exact Hq.
Qed.

Lemma find_king_stays fr t c : fr < 64 -> t < 64 -> fr <> k -> t <> k -> (forall pc, c <> Some (us, pc) \/ pc <> King) ->
  find_king (board_of (upd (upd f fr None) t c)) us = Some k.
Proof.
  intros Hfr Ht Hfk Htk Hc. destruct k_lt as [Hk64 Hfk'].
  unfold find_king. rewrite all64_squares.
  set (P := fun q => match at_sq (board_of (upd (upd f fr None) t c)) q with Some (c0, King) => side_eqb c0 us | _ => false end).
  assert (Hp : forall q, q < 64 -> P q = (q =? k)).
  { intros q Hq. unfold P. rewrite at_board_of by exact Hq. unfold upd.
    destruct (N.eqb_spec q t) as [Eqt|Hqt].
    - replace (q =? k) with false by lia. destruct c as [[c0 pc0]|]; [|reflexivity]. destruct pc0; try reflexivity.
      destruct (side_eqb c0 us) eqn:Es; [|reflexivity]. apply side_eqb_true in Es. subst c0. destruct (Hc King) as [H|H]; congruence.
    - destruct (N.eqb_spec q fr) as [Eqf|Hqf]; [replace (q =? k) with false by lia; reflexivity|].
      destruct (N.eqb_spec q k) as [Eqk|Hqk]; [subst q; rewrite Hfk', side_eqb_refl; reflexivity|].
      destruct (f q) as [[c0 pc0]|] eqn:Ef; [|reflexivity]. destruct pc0; try reflexivity.
      destruct (side_eqb c0 us) eqn:Es; [|reflexivity]. apply side_eqb_true in Es. subst c0. exfalso. apply Hqk. apply Huk; assumption. }
  destruct (find P all64) as [x|] eqn:E.
  - apply find_some in E. destruct E as [Hx Hpx]. apply in_all64 in Hx. rewrite (Hp x Hx) in Hpx. apply N.eqb_eq in Hpx. subst. reflexivity.
  - exfalso. pose proof (find_none _ _ E k (proj2 (in_all64 k) Hk64)) as Hn. rewrite (Hp k Hk64), N.eqb_refl in Hn. discriminate.
Qed.

(* the rules' verdict on a simple non-king move *)
Theorem simple_move_safe ty fr t pc cap pr :
  (match ty with Normal | Capture | Double | Promo | PromoCapture => True | _ => False end) ->
  fr < 64 -> t < 64 -> fr <> t -> fr <> k -> t <> k -> pc <> King -> (match ty with Promo | PromoCapture => pr <> King | _ => True end) ->
  leaves_king_safe (abs p) (mkMove ty fr t pc cap pr) =
  negb (attacked (board_of (upd (upd f fr None) t (Some (us, match ty with Promo | PromoCapture => pr | _ => pc end)))) k them).
Proof.
  intros Hty Hfr Ht Hne Hfk Htk Hpc Hpr. unfold leaves_king_safe. cbn [abs s_board s_turn]. fold us.
  rewrite (simple_board ty fr t pc cap pr Hty). unfold king_attacked.
  rewrite (find_king_stays fr t _ Hfr Ht Hfk Htk); [reflexivity|].
  intros pc0. destruct (piece_eqb pc0 King) eqn:E; [|right; intros ->; discriminate]. apply piece_eqb_eq in E. subst pc0. left.
  destruct ty; try contradiction; intros H; inversion H; congruence.
Qed.
End Simple.

(* ---------- double check: only the king can move ---------- *)
Section DoubleCheck.
Variable p : position.
Hypothesis Hwf : wf p = true.
Let f := cell_of_b (brd p).
Let us := turn p.
Let them := opp_side us.
Variable k : N.
Hypothesis Hk : find_king (abs_board p) us = Some k.
Hypothesis Huk : forall a, a < 64 -> f a = Some (us, King) -> a = k.
Let Hrep : rep (brd p) f := wf_rep (brd p) Hwf.

(* a checker: an enemy piece attacking the king square *)
Definition checker (a : N) : Prop := a < 64 /\ exists pa, f a = Some (them, pa) /\ piece_attacks (board_of f) them pa a k = true.

Lemma checker_line_clear a x : checker a -> In x (between a k) -> f x = None.
Proof.
  intros (Ha & pa & Efa & Hatt) Hx. destruct (k_lt p Hwf k Hk) as [Hk64 _].
  destruct (is_slider pa) eqn:Es.
  - rewrite slider_attacks in Hatt by exact Es. apply andb_true_iff in Hatt. destruct Hatt as [_ Hemp].
    unfold all_empty in Hemp. rewrite forallb_forall in Hemp. specialize (Hemp x Hx).
    assert (Hx64 : x < 64) by (apply (between_lt a k x Ha Hk64 Hx)). unfold is_empty in Hemp. rewrite at_board_of in Hemp by exact Hx64.
    destruct (f x); [discriminate|reflexivity].
  - rewrite (leaper_between _ _ _ a k Ha Hk64 Es Hatt) in Hx. destruct Hx.
Qed.

Variables a1 a2 : N.
Hypothesis Hc1 : checker a1. Hypothesis Hc2 : checker a2. Hypothesis Hne12 : a1 <> a2.

(* no single arrival square captures-or-blocks both checkers *)
Lemma cannot_resolve_both t : t < 64 ->
  (a1 <> t -> In t (between a1 k)) -> (a2 <> t -> In t (between a2 k)) -> False.
Proof.
  intros Ht H1 H2. destruct (k_lt p Hwf k Hk) as [Hk64 _].
  pose proof Hc1 as (Ha1 & p1 & E1 & _). pose proof Hc2 as (Ha2 & p2 & E2 & _).
  destruct (N.eq_dec a1 t) as [E|N1].
  - subst t. assert (N2 : a2 <> a1) by congruence. pose proof (checker_line_clear a2 a1 Hc2 (H2 N2)). congruence.
  - destruct (N.eq_dec a2 t) as [E|N2].
    + subst t. pose proof (checker_line_clear a1 a2 Hc1 (H1 N1)). congruence.
    + destruct (ray_share k a1 a2 t Hk64 Ha1 Ha2 Hne12 (H1 N1) (H2 N2)) as [H|H].
      * pose proof (checker_line_clear a2 a1 Hc2 H). congruence.
      * pose proof (checker_line_clear a1 a2 Hc1 H). congruence.
Qed.

(* every simple non-king move leaves the king attacked *)
Lemma simple_move_unsafe ty fr t pc cap pr :
  (match ty with Normal | Capture | Double | Promo | PromoCapture => True | _ => False end) ->
  fr < 64 -> t < 64 -> fr <> t -> fr <> k -> t <> k -> pc <> King -> (match ty with Promo | PromoCapture => pr <> King | _ => True end) ->
  f fr = Some (us, pc) ->
  leaves_king_safe (abs p) (mkMove ty fr t pc cap pr) = false.
Proof.
  intros Hty Hfr Ht Hne Hfk Htk Hpc Hpr Hf. destruct (k_lt p Hwf k Hk) as [Hk64 _].
  rewrite (simple_move_safe p Hwf k Hk Huk ty fr t pc cap pr Hty Hfr Ht Hne Hfk Htk Hpc Hpr). apply negb_false_iff.
  apply not_false_is_true. intros Hsafe.
  apply (safe_after_iff f us k fr t _ Hk64 Hfr Ht Hne (not_eq_sym Hfk) (not_eq_sym Htk) (ex_intro _ pc Hf) (ex_intro _ _ eq_refl)) in Hsafe.
  destruct Hsafe as [S1 _].
  pose proof Hc1 as (Ha1 & p1 & E1 & At1). pose proof Hc2 as (Ha2 & p2 & E2 & At2).
  apply (cannot_resolve_both t Ht); [intros N1; apply (S1 a1 p1 Ha1 N1 E1 At1)|intros N2; apply (S1 a2 p2 Ha2 N2 E2 At2)].
Qed.
End DoubleCheck.

(* wherever exactly one own king stands, the specification finds it *)
Lemma find_king_char g s k : k < 64 -> (forall q, q < 64 -> (g q = Some (s, King) <-> q = k)) -> find_king (board_of g) s = Some k.
Proof.
  intros Hk H. unfold find_king. rewrite all64_squares.
  set (P := fun q => match at_sq (board_of g) q with Some (c0, King) => side_eqb c0 s | _ => false end).
  assert (Hp : forall q, q < 64 -> P q = (q =? k)).
  { intros q Hq. unfold P. rewrite at_board_of by exact Hq. destruct (N.eqb_spec q k) as [->|Hne].
    - rewrite (proj2 (H k Hk) eq_refl). apply side_eqb_refl.
    - destruct (g q) as [[c0 pc0]|] eqn:Eg; [|reflexivity]. destruct pc0; try reflexivity.
      destruct (side_eqb c0 s) eqn:Es; [|reflexivity]. apply side_eqb_true in Es. subst c0. exfalso. apply Hne. apply (H q Hq). exact Eg. }
  destruct (find P all64) as [x|] eqn:E.
  - apply find_some in E. destruct E as [Hx Hpx]. apply in_all64 in Hx. rewrite (Hp x Hx) in Hpx. apply N.eqb_eq in Hpx. subst. reflexivity.
  - exfalso. pose proof (find_none _ _ E k (proj2 (in_all64 k) Hk)) as Hn. rewrite (Hp k Hk), N.eqb_refl in Hn. discriminate.
Qed.

(* three squares in a row on a file: if the outer one on one side and the middle one lie strictly between a and k, the outer
   one on the other side does too, or it is an end point *)
Lemma file_triple_sweep :
  forallb (fun a => forallb (fun k => forallb (fun t =>
     (if (8 <=? t) && (t <? 56) then
        (if existsb (N.eqb (t + 8)) (between a k) && existsb (N.eqb t) (between a k) then existsb (N.eqb (t - 8)) (between a k) || (t - 8 =? a) || (t - 8 =? k) else true) &&
        (if existsb (N.eqb (t - 8)) (between a k) && existsb (N.eqb t) (between a k) then existsb (N.eqb (t + 8)) (between a k) || (t + 8 =? a) || (t + 8 =? k) else true)
      else true)) all64) all64) all64 = true.
Proof. vm_compute. reflexivity. Qed.

Lemma file_triple a k t o v : a < 64 -> k < 64 -> t < 64 -> 8 <= t -> t < 56 ->
  (o = t + 8 /\ v = t - 8) \/ (o = t - 8 /\ v = t + 8) ->
  In o (between a k) -> In t (between a k) -> In v (between a k) \/ v = a \/ v = k.
Proof.
  intros Ha Hk Ht H8 H56 Hov Ho Htb.
  pose proof (forallb_all64 _ (forallb_all64 _ (forallb_all64 _ file_triple_sweep a Ha) k Hk) t Ht) as H. cbv beta in H.
  replace ((8 <=? t) && (t <? 56)) with true in H by lia. apply andb_true_iff in H. destruct H as [H1 H2].
  apply in_existsb in Htb. destruct Hov as [[-> ->]|[-> ->]]; apply in_existsb in Ho.
  - rewrite Ho, Htb in H1. cbn [andb] in H1. apply orb_true_iff in H1. destruct H1 as [H1|H1]; [apply orb_true_iff in H1; destruct H1 as [H1|H1]|].
    + left. apply in_existsb. exact H1.
    + right. left. lia.
    + right. right. lia.
  - rewrite Ho, Htb in H2. cbn [andb] in H2. apply orb_true_iff in H2. destruct H2 as [H2|H2]; [apply orb_true_iff in H2; destruct H2 as [H2|H2]|].
    + left. apply in_existsb. exact H2.
    + right. left. lia.
    + right. right. lia.
Qed.

Lemma attacked_false_iff g q s : attacked (board_of g) q s = false <->
  forall a, a < 64 -> match g a with Some (c, pc) => side_eqb c s && piece_attacks (board_of g) c pc a q | None => false end = false.
Proof.
  unfold attacked, attackers_of. rewrite all64_squares, <- existsb_nonempty_filter. split.
  - intros H a Ha. apply not_true_is_false. intros E.
    assert (existsb (fun a0 => match at_sq (board_of g) a0 with Some (c, pc) => side_eqb c s && piece_attacks (board_of g) c pc a0 q | None => false end) all64 = true); [|congruence].
    apply existsb_exists. exists a. split; [apply in_all64; exact Ha|]. rewrite at_board_of by exact Ha. exact E.
  - intros H. apply not_true_is_false. intros E. apply existsb_exists in E. destruct E as [a [Ha E]]. apply in_all64 in Ha.
    rewrite at_board_of in E by exact Ha. rewrite (H a Ha) in E. discriminate.
Qed.

Lemma cell_clash (g : mb) x y c1 c2 : g x = c1 -> g y = c2 -> c1 <> c2 -> x <> y.
Proof. intros H1 H2 Hne E. subst y. congruence. Qed.

(* ---------- en passant cannot answer a check given by anything but the pawn it captures ---------- *)
Section EpInCheck.
Variable p : position.
Hypothesis Hwf : wf p = true.
Let f := cell_of_b (brd p).
Let us := turn p.
Let them := opp_side us.
Variable k : N.
Hypothesis Hk : find_king (abs_board p) us = Some k.
Hypothesis Huk : forall a, a < 64 -> f a = Some (us, King) -> a = k.
Hypothesis Hep : ep_ok (abs p) = true.
Variable e : N.
Hypothesis He : (if ep p =? OffSq then None else Some (ep p)) = Some e.
Let v := match us with White => e - 8 | Black => e + 8 end.       (* the pawn that just made the double push *)
Let o := match us with White => e + 8 | Black => e - 8 end.       (* where it came from *)

Lemma ep_facts : e < 64 /\ 8 <= e /\ e < 56 /\ v < 64 /\ o < 64 /\ f v = Some (them, Pawn) /\ f e = None /\ f o = None /\
  attacked (board_of (upd (upd f v None) o (Some (them, Pawn)))) k them = false.
Proof.
  destruct (k_lt p Hwf k Hk) as [Hk64 Hfk].
  unfold ep_ok in Hep. cbn [abs s_ep s_board s_turn] in Hep. rewrite He in Hep. fold us in Hep.
  apply andb_true_iff in Hep. destruct Hep as [Hxy Hbody]. apply andb_true_iff in Hxy. destruct Hxy as [Q0 Q1]. cbv zeta in Hbody.
  apply andb_true_iff in Hbody. destruct Hbody as [Hbody Q5]. apply andb_true_iff in Hbody. destruct Hbody as [Hbody Q4].
  apply andb_true_iff in Hbody. destruct Hbody as [Q2 Q3].
  assert (R : e < 64 /\ 8 <= e /\ e < 56 /\ v < 64 /\ o < 64) by (unfold v, o, rankof in *; destruct us; lia).
  destruct R as (R1 & R2 & R3 & R4 & R5).
  fold v in Q2. fold o in Q4. fold v o in Q5. fold them in Q2, Q5.
  rewrite at_sq_abs_board in Q2 by exact R4. change (cell_of p v) with (f v) in Q2.
  assert (Hfv : f v = Some (them, Pawn)) by (destruct (f v) as [[c pc]|]; [destruct pc; try discriminate; apply side_eqb_true in Q2; subst; reflexivity|discriminate]).
  assert (Hfe : f e = None) by (unfold is_empty in Q3; rewrite at_sq_abs_board in Q3 by exact R1; change (cell_of p e) with (f e) in Q3; destruct (f e); [discriminate|reflexivity]).
  assert (Hfo : f o = None) by (unfold is_empty in Q4; rewrite at_sq_abs_board in Q4 by exact R5; change (cell_of p o) with (f o) in Q4; destruct (f o); [discriminate|reflexivity]).
  repeat split; try assumption.
  apply negb_true_iff in Q5. unfold king_attacked in Q5.
  assert (Eb : put (put (abs_board p) v None) o (Some (them, Pawn)) = board_of (upd (upd f v None) o (Some (them, Pawn)))).
  { rewrite !put_as_map. unfold board_of. apply map_all64_ext. intros q Hq. unfold upd. destruct (q =? o); [reflexivity|].
    rewrite at_sq_map by exact Hq. destruct (q =? v); [reflexivity|]. apply at_sq_abs_board. exact Hq. }
  rewrite Eb in Q5.
  rewrite (find_king_char (upd (upd f v None) o (Some (them, Pawn))) us k Hk64) in Q5; [exact Q5|].
  intros q Hq. unfold upd. destruct (N.eqb_spec q o) as [Eqo|Hqo].
  - split; [intros H; inversion H; unfold them in *; destruct us; discriminate|intros Eqk; exfalso; assert (Hx : f k = None) by (rewrite <- Eqk, Eqo; exact Hfo); discriminate (eq_trans (eq_sym Hfk) Hx)].
  - destruct (N.eqb_spec q v) as [Eqv|Hqv]; [split; [discriminate|intros Eqk; exfalso; assert (Hx : f k = Some (them, Pawn)) by (rewrite <- Eqk, Eqv; exact Hfv); pose proof (eq_trans (eq_sym Hfk) Hx) as Hc; inversion Hc; unfold them in *; destruct us; discriminate]|].
    split; [apply Huk; exact Hq|intros ->; exact Hfk].
Qed.

(* any checker other than the captured pawn still attacks the king after the en-passant capture *)
Theorem ep_cannot_resolve fr a : fr < 64 -> f fr = Some (us, Pawn) -> checker p k a -> a <> v ->
  leaves_king_safe (abs p) (mkMove Enpassant fr e Pawn Pawn NoPiece) = false.
Proof.
  intros Hfr Hffr Hc Hav. destruct (k_lt p Hwf k Hk) as [Hk64 Hfk].
  destruct ep_facts as (E64 & E8 & E56 & Hv64 & Ho64 & Hfv & Hfe & Hfo & Hbefore).
  pose proof Hc as (Ha & pa & Efa & Hatt).
  change (f a = Some (opp_side us, pa)) in Efa. change (piece_attacks (board_of f) (opp_side us) pa a k = true) in Hatt.
  assert (Hae : a <> e) by (intros E; rewrite E, Hfe in Efa; discriminate).
  assert (Hafr : a <> fr) by (intros E; rewrite E, Hffr in Efa; inversion Efa; unfold them in *; destruct us; discriminate).
  assert (Hao : a <> o) by (intros E; rewrite E, Hfo in Efa; discriminate).
  unfold leaves_king_safe. cbn [abs s_board s_turn]. fold us.
  (* the board after the capture *)
  assert (Eb : apply_board (abs_board p) us (mkMove Enpassant fr e Pawn Pawn NoPiece) = board_of (upd (vacate f [fr; v]) e (Some (us, Pawn)))).
  { unfold apply_board. cbn [m_type m_from m_to]. fold v. rewrite !put_as_map. unfold board_of. apply map_all64_ext. intros q Hq. unfold upd, vacate. cbn [existsb].
    destruct (q =? e); [reflexivity|]. rewrite at_sq_map by exact Hq. rewrite orb_false_r, orb_comm. destruct (q =? v); [reflexivity|]. cbn [orb].
    rewrite at_sq_map by exact Hq. destruct (q =? fr); [reflexivity|]. apply at_sq_abs_board. exact Hq. }
  rewrite Eb. unfold king_attacked.
  change (f k = Some (us, King)) in Hfk.
  assert (Hke : k <> e) by (apply (cell_clash f k e _ _ Hfk Hfe); discriminate).
  assert (Hkfr : k <> fr) by (apply (cell_clash f k fr _ _ Hfk Hffr); discriminate).
  assert (Hkv : k <> v) by (apply (cell_clash f k v _ _ Hfk Hfv); discriminate).
  assert (Hfk' : forall q, q < 64 -> (upd (vacate f [fr; v]) e (Some (us, Pawn)) q = Some (us, King) <-> q = k)).
  { intros q Hq. unfold upd, vacate. cbn [existsb]. destruct (N.eqb_spec q e) as [Eqe|Hqe]; [split; [discriminate|intros Eqk; exfalso; apply Hke; rewrite <- Eqk; exact Eqe]|].
    destruct (N.eqb_spec q fr) as [Eqf|Hqf]; [cbn [orb]; split; [discriminate|intros Eqk; exfalso; apply Hkfr; rewrite <- Eqk; exact Eqf]|].
    destruct (N.eqb_spec q v) as [Eqv|Hqv]; [cbn [orb]; split; [discriminate|intros Eqk; exfalso; apply Hkv; rewrite <- Eqk; exact Eqv]|].
    cbn [orb]. split; [apply Huk; exact Hq|intros ->; exact Hfk]. }
  rewrite (find_king_char _ us k Hk64 Hfk'). apply negb_false_iff. apply not_false_is_true. intros Hsafe.
  assert (HV : forall x, In x [fr; v] -> x < 64 /\ x <> e /\ x <> k).
  { intros x [<-|[<-|[]]]; repeat split; try assumption; try (apply not_eq_sym; assumption).
    - apply (cell_clash f fr e _ _ Hffr Hfe); discriminate.
    - apply (cell_clash f v e _ _ Hfv Hfe); discriminate. }
  pose proof (proj1 (safe_after_gen f us k e [fr; v] _ Hk64 E64 (ex_intro _ Pawn eq_refl)) Hsafe) as Hs'. clear Hsafe. rename Hs' into Hsafe.
  assert (HaV : ~ In a [fr; v]) by (intros [E|[E|[]]]; congruence).
  destruct (Hsafe a pa Ha Hae HaV Efa) as [S1 S2].
  destruct (is_slider pa) eqn:Es; [|rewrite (S1 eq_refl) in Hatt; discriminate].
  pose proof Hatt as Hatt'. rewrite slider_attacks in Hatt' by exact Es. apply andb_true_iff in Hatt'. destruct Hatt' as [Hal Hclear].
  destruct (S2 eq_refl Hal) as [Hin|[y [Hy [_ Hfy]]]]; [|exfalso; apply Hfy; apply (checker_line_clear p Hwf k Hk a y Hc Hy)].
  (* before the double push the king was not attacked: the origin square was on the line *)
  pose proof (proj1 (attacked_false_iff _ k them) Hbefore a Ha) as Hb.
  unfold upd at 1 2 in Hb. replace (a =? o) with false in Hb by lia. replace (a =? v) with false in Hb by lia.
  rewrite Efa, side_eqb_refl in Hb. cbn [andb] in Hb. rewrite slider_attacks, Hal in Hb by exact Es. cbn [andb] in Hb.
  assert (Ho : In o (between a k)).
  { destruct (in_dec N.eq_dec o (between a k)) as [H|H]; [exact H|]. exfalso.
    assert (all_empty (board_of (upd (upd f v None) o (Some (them, Pawn)))) (between a k) = true); [|congruence].
    unfold all_empty. apply forallb_forall. intros y Hy. assert (Hy64 : y < 64) by (apply (between_lt a k y Ha Hk64 Hy)).
    unfold is_empty. rewrite at_board_of by exact Hy64. unfold upd. destruct (N.eqb_spec y o) as [Eyo|Hyo]; [subst y; contradiction|].
    destruct (y =? v); [reflexivity|]. pose proof (checker_line_clear p Hwf k Hk a y Hc Hy) as Hcl. change (f y = None) in Hcl. rewrite Hcl. reflexivity. }
  assert (Hov : (o = e + 8 /\ v = e - 8) \/ (o = e - 8 /\ v = e + 8)) by (unfold o, v; destruct us; [left|right]; split; reflexivity).
  destruct (file_triple a k e o v Ha Hk64 E64 E8 E56 Hov Ho Hin) as [H|[H|H]].
  - pose proof (checker_line_clear p Hwf k Hk a v Hc H) as Hcl. change (f v = None) in Hcl. rewrite Hcl in Hfv. discriminate.
  - apply Hav. symmetry. exact H.
  - apply Hkv. symmetry. exact H.
Qed.
End EpInCheck.

(* ---------- shape of the pseudo-legal candidates by type ---------- *)
Lemma pseudo_shape sp m : In m (pseudo_moves sp) ->
  match m_type m with
  | Enpassant => exists e, s_ep sp = Some e /\ m = mkMove Enpassant (m_from m) e Pawn Pawn NoPiece
  | Ksc | Qsc => exists ksq, find_king (s_board sp) (s_turn sp) = Some ksq /\ attacked (s_board sp) ksq (opp_side (s_turn sp)) = false
  | Promo | PromoCapture => In (m_promo m) promo_pieces
  | _ => True
  end.
Proof.
  unfold pseudo_moves. intros H. apply in_app_or in H. destruct H as [H|H].
  - apply in_flat_map in H. destruct H as [fr [_ H]].
    destruct (at_sq (s_board sp) fr) as [[c pc]|]; [|destruct H]. destruct (side_eqb c (s_turn sp)); [|destruct H].
    assert (Hp : forall pc', In m (piece_candidates sp fr pc') -> match m_type m with Enpassant | Ksc | Qsc | Promo | PromoCapture => False | _ => True end).
    { intros pc' Hin. apply piece_candidates_labels in Hin. destruct Hin as (_ & _ & [E|E]); rewrite E; exact I. }
    destruct pc; cbv iota in H;
      try (match type of H with In _ (piece_candidates _ _ ?q) => specialize (Hp q H) end; destruct (m_type m); try contradiction; exact I); [|destruct H].
    (* pawn *)
    unfold pawn_candidates in H. apply in_app_or in H. destruct H as [H|H].
    + repeat match type of H with
             | In _ (match ?o with Some _ => _ | None => _ end) => destruct o
             | In _ (if ?c then _ else _) => destruct c
             | In _ (_ ++ _) => apply in_app_or in H; destruct H as [H|H]
             | In _ (map _ _) => apply in_map_iff in H; let pr := fresh "pr" in let Hpr := fresh "Hpr" in destruct H as [pr [<- Hpr]]
             | In _ [] => destruct H
             | In _ (_ :: _) => destruct H as [<-|H]
             end; cbn [m_type m_promo]; try exact I; try assumption.
    + apply in_flat_map in H. destruct H as [to [_ H]].
      repeat match type of H with
             | In _ (match ?o with Some _ => _ | None => _ end) => destruct o eqn:?
             | In _ (match ?o with (_, _) => _ end) => destruct o
             | In _ (if ?c then _ else _) => destruct c eqn:?
             | In _ (map _ _) => apply in_map_iff in H; let pr := fresh "pr" in let Hpr := fresh "Hpr" in destruct H as [pr [<- Hpr]]
             | In _ [] => destruct H
             | In _ (_ :: _) => destruct H as [<-|H]
             end; cbn [m_type m_promo m_from]; try exact I; try assumption.
      match goal with He : (?e =? to) = true |- _ => apply N.eqb_eq in He; subst end. eexists. split; reflexivity.
  - assert (G : forall mt r, In m (castle_candidate sp mt r) -> (mt = Ksc \/ mt = Qsc) ->
                exists ksq, find_king (s_board sp) (s_turn sp) = Some ksq /\ attacked (s_board sp) ksq (opp_side (s_turn sp)) = false).
    { intros mt r Hin _. unfold castle_candidate in Hin. destruct r as [rsq|]; [|destruct Hin].
      destruct (find_king (s_board sp) (s_turn sp)) as [ksq|]; [|destruct Hin]. destruct (castle_dest (s_turn sp) mt) as [kd rd].
      match type of Hin with In _ (if ?c then _ else _) => destruct c eqn:Ec; [|destruct Hin] end.
      repeat (apply andb_true_iff in Ec; let H' := fresh "E" in destruct Ec as [Ec H']). apply negb_true_iff in Ec. exists ksq. split; [reflexivity|exact Ec]. }
    destruct (s_turn sp); apply in_app_or in H; destruct H as [H|H]; pose proof (castle_candidate_labels _ _ _ _ H) as El; rewrite El;
      (eapply G; [exact H|tauto]).
Qed.

(* ---------- in double check every legal move of the rules is a king step ---------- *)
Theorem double_check_only_king dfrc p k a1 a2 m :
  wf p = true -> rooks_ok p -> legal_consistent dfrc (abs p) = true ->
  find_king (abs_board p) (turn p) = Some k -> (forall a, a < 64 -> cell_of_b (brd p) a = Some (turn p, King) -> a = k) ->
  checker p k a1 -> checker p k a2 -> a1 <> a2 ->
  In m (spec_moves (abs p)) -> is_king_step m = true.
Proof.
  intros Hwf Hr Hlc Hk Huk Hc1 Hc2 Hne Hin.
  pose proof (spec_moves_fit dfrc p m Hr Hlc Hin) as Hfit.
  unfold spec_moves in Hin. apply filter_In in Hin. destruct Hin as [Hps Hsafe].
  pose proof (pseudo_shape _ _ Hps) as Hshape.
  destruct (k_lt p Hwf k Hk) as [Hk64 Hfk].
  unfold mfits in Hfit. destruct Hfit as (Hfrom & Hto & Hfit).
  destruct m as [ty fr t pc cap pr]. cbn [m_type m_from m_to m_piece m_cap m_promo] in *.
  assert (Hcl : forall x c1 c2, cell_of p x = c1 -> c1 <> c2 -> cell_of_b (brd p) k = c2 -> x <> k) by (intros x c1 c2 E1 Hn E2 ->; apply Hn; rewrite <- E1; exact E2).
  assert (Simple : forall (Hty : match ty with Normal | Capture | Double | Promo | PromoCapture => True | _ => False end),
             cell_of p fr = Some (turn p, pc) -> fr <> t -> t <> k -> pc <> King -> (match ty with Promo | PromoCapture => pr <> King | _ => True end) -> False).
  { intros Hty Hf Hft Htk Hpc Hpr.
    assert (Hfk' : fr <> k) by (intros ->; change (cell_of p k) with (cell_of_b (brd p) k) in Hf; rewrite Hfk in Hf; inversion Hf; congruence).
    rewrite (simple_move_unsafe p Hwf k Hk Huk a1 a2 Hc1 Hc2 Hne ty fr t pc cap pr Hty Hfrom Hto Hft Hfk' Htk Hpc Hpr Hf) in Hsafe. discriminate. }
  assert (Htk_none : cell_of p t = None -> t <> k) by (intros E ->; change (cell_of p k) with (cell_of_b (brd p) k) in E; rewrite Hfk in E; discriminate).
  assert (Htk_them : forall c, cell_of p t = Some (opp_side (turn p), c) -> t <> k).
  { intros c E ->. change (cell_of p k) with (cell_of_b (brd p) k) in E. rewrite Hfk in E. inversion E. destruct (turn p); discriminate. }
  unfold is_king_step. cbn [m_piece m_type].
  destruct ty.
  - destruct Hfit as (E1 & E2 & Hft). destruct (piece_eqb pc King) eqn:Ep; [reflexivity|exfalso].
    apply (Simple I E1 Hft (Htk_none E2)); [intros ->; discriminate|exact I].
  - destruct Hfit as (E1 & E2 & Hft). destruct (piece_eqb pc King) eqn:Ep; [reflexivity|exfalso].
    apply (Simple I E1 Hft (Htk_them _ E2)); [intros ->; discriminate|exact I].
  - exfalso. destruct Hfit as (Ep & E1 & E2 & Hft & _). subst pc. apply (Simple I E1 Hft (Htk_none E2)); [discriminate|exact I].
  - exfalso. destruct Hfit as (Ep & Ec & E1 & E2 & Hv & E3 & N1 & N2 & N3).
    destruct Hshape as [e [Hse Hm]]. cbn [abs s_ep] in Hse. inversion Hm; subst.
    destruct (lc_parts _ _ Hlc) as (_ & _ & _ & _ & Hepok).
    (* one of the two checkers is not the captured pawn *)
    set (v := match turn p with White => e - 8 | Black => e + 8 end).
    assert (Hex : exists a, checker p k a /\ a <> v) by (destruct (N.eq_dec a1 v) as [E|E]; [exists a2; split; [exact Hc2|congruence]|exists a1; split; assumption]).
    destruct Hex as [a [Hca Hav]].
    rewrite (ep_cannot_resolve p Hwf k Hk Huk Hepok e Hse fr a Hfrom E1 Hca Hav) in Hsafe. discriminate.
  - exfalso. destruct Hshape as [ksq [Hfk2 Hna]]. cbn [abs s_board s_turn] in Hfk2, Hna. rewrite Hk in Hfk2. inversion Hfk2; subst ksq.
    destruct Hc1 as (Ha1 & pa & Efa & Hatt). pose proof (proj1 (attacked_false_iff (cell_of_b (brd p)) k (opp_side (turn p))) Hna a1 Ha1) as Hx.
    rewrite Efa, side_eqb_refl, Hatt in Hx. discriminate.
  - exfalso. destruct Hshape as [ksq [Hfk2 Hna]]. cbn [abs s_board s_turn] in Hfk2, Hna. rewrite Hk in Hfk2. inversion Hfk2; subst ksq.
    destruct Hc1 as (Ha1 & pa & Efa & Hatt). pose proof (proj1 (attacked_false_iff (cell_of_b (brd p)) k (opp_side (turn p))) Hna a1 Ha1) as Hx.
    rewrite Efa, side_eqb_refl, Hatt in Hx. discriminate.
  - exfalso. destruct Hfit as (Ep & Hpr & E1 & E2 & Hft). subst pc. apply (Simple I E1 Hft (Htk_none E2)); [discriminate|].
    intros ->. cbn in Hshape. repeat destruct Hshape as [Hshape|Hshape]; try discriminate. exact Hshape.
  - exfalso. destruct Hfit as (Ep & Hpr & E1 & E2 & Hft). subst pc. apply (Simple I E1 Hft (Htk_them _ E2)); [discriminate|].
    intros ->. cbn in Hshape. repeat destruct Hshape as [Hshape|Hshape]; try discriminate. exact Hshape.
Qed.

(* ---------- double check, model side: legal_moves is literally check_evasions ---------- *)
Lemma bits_bit_sweep : forallb (fun k => match bits (bit k) with [x] => x =? k | _ => false end) all64 = true.
Proof. vm_compute. reflexivity. Qed.
Lemma bb_squares_bit k : k < 64 -> bb_squares (bit k) = [k].
Proof.
  intros Hk. pose proof (forallb_all64 _ bits_bit_sweep k Hk) as H. cbv beta in H. unfold bb_squares.
  destruct (bits (bit k)) as [|x [|y l]]; try discriminate. apply N.eqb_eq in H. subst. reflexivity.
Qed.

Lemma king_bb_single p f s k : rep (brd p) f -> k < 64 -> f k = Some (s, King) ->
  (forall a, a < 64 -> f a = Some (s, King) -> a = k) -> pieces p s King = bit k.
Proof.
  intros Hrep Hk Hfk Huk. pose proof Hrep as [_ Hlt]. apply N.bits_inj. intros q.
  destruct (N.ltb_spec q 64) as [Hq|Hq].
  - rewrite (pieces_rep p f s King q Hrep Hq) by discriminate. rewrite (bit_spec k q Hk).
    destruct (N.eqb_spec q k) as [->|Hne].
    + rewrite Hfk, side_eqb_refl. reflexivity.
    + destruct (f q) as [[c pc]|] eqn:Ef; [|reflexivity].
      destruct (side_eqb s c) eqn:Ec; [|reflexivity]. apply side_eqb_true in Ec. subst c.
      destruct pc; try reflexivity. exfalso. apply Hne. apply Huk; assumption.
  - assert (H1 : pieces p s King < two64) by (unfold pieces; apply land_lt, colour_lt, Hlt).
    rewrite (proj1 (lt64_iff _) H1 q Hq). symmetry. apply (proj1 (lt64_iff _) (bit_lt k) q Hq).
Qed.

Theorem double_check_model_eq p f k : rep (brd p) f ->
  find_king (board_of f) (turn p) = Some k -> (forall a, a < 64 -> f a = Some (turn p, King) -> a = k) ->
  (1 <? bb_count (checkers p)) = true -> legal_moves p = check_evasions p.
Proof.
  intros Hrep Hk Huk Hd. destruct (king_position_exact p f _ k Hrep Hk) as (Ekp & Hk64 & Hfk).
  unfold legal_moves, legal_moves_gen, legal_captures_gen, legal_noncaptures. cbv zeta. rewrite Hd.
  unfold check_evasions, king_captures, king_allowed. cbv zeta. rewrite Ekp.
  rewrite (king_bb_single p f (turn p) k Hrep Hk64 Hfk Huk). unfold emit at 2. rewrite (bb_squares_bit k Hk64). cbn [flat_map]. rewrite app_nil_r.
  f_equal; f_equal; rewrite N.land_comm; reflexivity.
Qed.

(* two checkers from the population count of checkers() *)
Lemma two_members {A} (l : list A) : NoDup l -> (2 <= length l)%nat -> exists a b, a <> b /\ In a l /\ In b l.
Proof.
  intros Hnd Hl. destruct l as [|a [|b l]]; cbn in Hl; try lia. exists a, b. split; [|split; [left; reflexivity|right; left; reflexivity]].
  intros ->. inversion Hnd as [|? ? Hn _]. apply Hn. left. reflexivity.
Qed.

Lemma nodup_squares : NoDup squares.
Proof. apply (NoDup_map_inv N.to_nat). unfold squares. rewrite map_map. erewrite map_ext; [rewrite map_id; apply seq_NoDup|]. intros a. apply Nat2N.id. Qed.

Lemma checkers_two p k : wf p = true -> find_king (abs_board p) (turn p) = Some k ->
  (1 <? bb_count (checkers p)) = true -> exists a1 a2, a1 <> a2 /\ checker p k a1 /\ checker p k a2.
Proof.
  intros Hwf Hk Hd. pose proof (wf_rep (brd p) Hwf) as Hrep. pose proof Hrep as [_ Hlt].
  assert (Hc64 : checkers p < two64) by (unfold checkers; apply attackers_lt; exact Hlt).
  rewrite (bb_count_members _ Hc64), <- (bb_squares_members _ Hc64) in Hd.
  rewrite (checkers_exact p (cell_of_b (brd p)) k Hrep Hk) in Hd.
  assert (In_chk : forall a, In a (attackers_of (abs_board p) k (opp_side (turn p))) -> checker p k a).
  { intros a Ha. unfold attackers_of in Ha. apply filter_In in Ha. destruct Ha as [Ha Hc]. apply in_squares in Ha.
    split; [exact Ha|]. change (abs_board p) with (board_of (cell_of_b (brd p))) in Hc. rewrite at_board_of in Hc by exact Ha.
    destruct (cell_of_b (brd p) a) as [[c pc]|] eqn:Ef; [|discriminate]. apply andb_true_iff in Hc. destruct Hc as [Hc1 Hc2].
    apply side_eqb_true in Hc1. subst c. exists pc. split; [first [exact Ef|reflexivity]|exact Hc2]. }
  destruct (two_members (attackers_of (abs_board p) k (opp_side (turn p)))) as (a1 & a2 & Hne & H1 & H2).
  - unfold attackers_of. apply NoDup_filter. exact nodup_squares.
  - apply N.ltb_lt in Hd. change (board_of (cell_of_b (brd p))) with (abs_board p) in Hd. lia.
  - exists a1, a2. split; [exact Hne|]. split; apply In_chk; assumption.
Qed.

(* milestone 2: in double check legal_moves() is exactly the set of legal moves of the rules, without repetition *)
Theorem double_check_exact dfrc p : wf p = true -> rooks_ok p -> legal_consistent dfrc (abs p) = true ->
  (1 <? bb_count (checkers p)) = true ->
  NoDup (legal_moves p) /\ forall m, In m (legal_moves p) <-> In m (spec_moves (abs p)).
Proof.
  intros Hwf Hr Hlc Hd. pose proof (wf_rep (brd p) Hwf) as Hrep.
  destruct (lc_king dfrc p (turn p) Hlc) as [k [Hk Huk]].
  rewrite (double_check_model_eq p (cell_of_b (brd p)) k Hrep Hk Huk Hd).
  split; [apply check_evasions_nodup|]. intros m. rewrite (check_evasions_exact_lc dfrc p m Hwf Hlc).
  split; [intros [H _]; exact H|]. intros H. split; [exact H|].
  destruct (checkers_two p k Hwf Hk Hd) as (a1 & a2 & Hne & Hc1 & Hc2).
  exact (double_check_only_king dfrc p k a1 a2 m Hwf Hr Hlc Hk Huk Hc1 Hc2 Hne H).
Qed.
