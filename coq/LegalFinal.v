(* LegalFinal.v — C01, the full statement: on every legal-consistent position legal_moves() is, as a list without
   repetition, exactly the set of legal moves of the rules; consequences for perft (C04), the game-end predicates
   (C10) and parse_move (C11); the domain is closed under legal play (LcStep). *)
From Coq Require Import NArith ZArith List Bool Lia.
From LC Require Import Bits BitsFacts Types BitboardModel MoveModel PositionModel MovegenModel MakeModel GameModel
  Spec.Rules Spec.Game Refine.Abs Refine.Wf Refine.MakeAbs KingFacts LegalFacts LegalCore PinScanFacts PieceExact OfficerExact LegalExact
  PawnExact EpExact CastleExact NoDupFacts LcStep PerftExact TextExact.
Import ListNotations.
Local Open Scope N_scope.

Theorem legal_moves_exact dfrc p : wf p = true -> rooks_ok p -> legal_consistent dfrc (abs p) = true ->
  NoDup (legal_moves p) /\ forall m, In m (legal_moves p) <-> In m (spec_moves (abs p)).
Proof.
  intros Hwf Hr Hlc. destruct (1 <? bb_count (checkers p)) eqn:Hnd.
  - apply (double_check_exact dfrc p Hwf Hr Hlc Hnd).
  - destruct (lc_king dfrc p (turn p) Hlc) as [k [Hk Huk]]. split.
    + apply (legal_moves_nodup_nd p k Hwf Hk Hnd).
    + intros m. apply (not_double_members dfrc p Hwf Hlc k Hk Huk Hnd).
      * intros m0. apply (pawn_exact p Hwf dfrc Hlc k Hk Huk Hnd (bscan_pinned_iff p Hwf k Hk) (rscan_pinned_iff p Hwf k Hk) m0).
      * intros m0. apply (ep_exact dfrc p k Hwf Hlc Hk Huk Hnd m0).
      * intros m0. apply (castle_exact p dfrc k Hwf Hr Hlc Hk Huk Hnd (rscan_pinned_iff p Hwf k Hk) m0).
      * apply NoDupFacts.g_pawn_caps_label.
      * apply NoDupFacts.g_pawn_pushes_label.
      * apply NoDupFacts.g_castles_label.
Qed.

(* the domain is closed under legal play *)
Theorem domain_closed K dfrc p m : wf p = true -> rooks_ok p -> legal_consistent dfrc (abs p) = true -> In m (legal_moves p) ->
  wf (makemove K p m) = true /\ rooks_ok (makemove K p m) /\ legal_consistent dfrc (abs (makemove K p m)) = true /\
  abs (makemove K p m) = apply_move (abs p) m.
Proof.
  intros Hwf Hr Hlc Hin. apply (proj2 (legal_moves_exact dfrc p Hwf Hr Hlc)) in Hin.
  destruct (reach_invariant K dfrc p m Hwf Hr Hlc Hin) as (H1 & H2 & H3). split; [exact H1|]. split; [exact H2|]. split; [exact H3|].
  apply (reach_step_abs K dfrc p m Hwf Hr Hlc Hin).
Qed.

(* C04: perft counts the legal move sequences of the rules *)
Theorem perft_counts_rule_sequences K dfrc d p : wf p = true -> rooks_ok p -> legal_consistent dfrc (abs p) = true ->
  fst (perft K d p) = spec_perft d (abs p).
Proof.
  apply (perft_exact K dfrc (legal_moves_exact dfrc)). intros q m Hwf Hr Hlc Hin. exact (reach_invariant K dfrc q m Hwf Hr Hlc Hin).
Qed.
Theorem count_moves_rules dfrc p : wf p = true -> rooks_ok p -> legal_consistent dfrc (abs p) = true ->
  count_moves p = N.of_nat (length (spec_moves (abs p))).
Proof. apply (count_moves_exact dfrc (legal_moves_exact dfrc)). Qed.
Theorem legal_moves_permutation dfrc p : wf p = true -> rooks_ok p -> legal_consistent dfrc (abs p) = true ->
  Permutation.Permutation (legal_moves p) (spec_moves (abs p)).
Proof. apply (legal_moves_perm dfrc (legal_moves_exact dfrc)). Qed.

(* C10: the game-end predicates in terms of the rules *)
Theorem checkmate_rules dfrc p : wf p = true -> rooks_ok p -> legal_consistent dfrc (abs p) = true ->
  (is_checkmate p = true <-> spec_moves (abs p) = [] /\ spec_in_check (abs p) = true).
Proof. apply (is_checkmate_rules dfrc (legal_moves_exact dfrc)). Qed.
Theorem stalemate_rules dfrc p : wf p = true -> rooks_ok p -> legal_consistent dfrc (abs p) = true ->
  (is_stalemate p = true <-> spec_moves (abs p) = [] /\ spec_in_check (abs p) = false).
Proof. apply (is_stalemate_rules dfrc (legal_moves_exact dfrc)). Qed.
Theorem checkmate_spec dfrc p : wf p = true -> rooks_ok p -> legal_consistent dfrc (abs p) = true -> is_checkmate p = spec_checkmate (abs p).
Proof. apply (is_checkmate_exact dfrc (legal_moves_exact dfrc)). Qed.
Theorem stalemate_spec dfrc p : wf p = true -> rooks_ok p -> legal_consistent dfrc (abs p) = true -> is_stalemate p = spec_stalemate (abs p).
Proof. apply (is_stalemate_exact dfrc (legal_moves_exact dfrc)). Qed.
Theorem draw_spec dfrc p : wf p = true -> rooks_ok p -> legal_consistent dfrc (abs p) = true ->
  is_draw p = (threefold p || spec_fifty (abs p)) && negb (spec_checkmate (abs p)).
Proof. apply (is_draw_exact dfrc (legal_moves_exact dfrc)). Qed.
Theorem terminal_spec dfrc p : wf p = true -> rooks_ok p -> legal_consistent dfrc (abs p) = true ->
  is_terminal p = spec_no_moves (abs p) || ((threefold p || spec_fifty (abs p)) && negb (spec_checkmate (abs p))).
Proof. apply (is_terminal_exact dfrc (legal_moves_exact dfrc)). Qed.

(* C11: parse_move returns the move itself *)
Theorem parse_text_returns_move dfrc p m : wf p = true -> rooks_ok p -> legal_consistent dfrc (abs p) = true ->
  In m (legal_moves p) -> parse_move p (MoveModel.move_text m) = Some m.
Proof. intros Hwf Hr Hlc. apply (parse_own_text dfrc p Hwf Hr Hlc (proj2 (legal_moves_exact dfrc p Hwf Hr Hlc))). Qed.
Theorem parse_string_returns_move dfrc p m : wf p = true -> rooks_ok p -> legal_consistent dfrc (abs p) = true ->
  In m (legal_moves p) -> parse_move p (move_string p m dfrc) = Some m.
Proof. intros Hwf Hr Hlc. apply (parse_move_string dfrc p Hwf Hr Hlc (proj2 (legal_moves_exact dfrc p Hwf Hr Hlc))). Qed.

Print Assumptions legal_moves_exact. Print Assumptions perft_counts_rule_sequences. Print Assumptions parse_text_returns_move. Print Assumptions domain_closed.

(* C01: is_legal answers exactly as the rules do *)
Theorem is_legal_rules dfrc p m : wf p = true -> rooks_ok p -> legal_consistent dfrc (abs p) = true ->
  is_legal p m = spec_legal (abs p) m.
Proof.
  intros Hwf Hr Hlc. destruct (legal_moves_exact dfrc p Hwf Hr Hlc) as [_ Hmem].
  unfold is_legal, spec_legal. apply eq_true_iff_eq. rewrite !existsb_exists. split.
  - intros [x [Hx E]]. apply MoveFacts.move_eqb_eq in E. subst x. exists m. split; [apply Hmem; exact Hx|apply MoveFacts.move_eqb_eq; reflexivity].
  - intros [x [Hx E]]. apply MoveFacts.move_eqb_eq in E. subst x. exists m. split; [apply Hmem; exact Hx|apply MoveFacts.move_eqb_eq; reflexivity].
Qed.
Print Assumptions is_legal_rules.
