(* MagicFacts.v — attack tables equal the geometric definition for every square and occupancy (C14).
   Part 1: the table filler's own functions (walks along the eight rays) are characterised square by
           square against the specification's geometry (aligned + nothing strictly between), for ALL
           occupancies — by a walk lemma plus finite sweeps over (square, direction, index).
   Part 2: generic lemmas that lift a kernel sweep over every (square, subset of the relevant mask) of the
           filled table to all 2^64 occupancies.  Properties_C14 instantiates the sweep with the
           regenerated constants. *)
From Coq Require Import NArith ZArith List Bool Lia FMapPositive.
From Coq Require Import ZifyBool ZifyN ZifyNat.
From LC Require Import Bits BitsFacts Types BitboardModel BitboardFacts MagicModel Spec.Rules.
Import ListNotations.
Local Open Scope N_scope.

(* ---------- the walk lemma ---------- *)
Fixpoint walk_hit (l : list N) (occ t : N) : bool :=
  match l with
  | [] => false
  | s :: r => (s =? t) || (negb (N.testbit occ s) && walk_hit r occ t)
  end.

Lemma walk_lt l occ : walk l occ < two64.
Proof. induction l as [|s r IH]; simpl; [reflexivity|]. destruct (N.testbit occ s); [apply bit_lt|apply lor_lt; [apply bit_lt|exact IH]]. Qed.

Lemma walk_spec l occ t : (forall s, In s l -> s < 64) -> N.testbit (walk l occ) t = walk_hit l occ t.
Proof.
  induction l as [|s r IH]; intros Hb; cbn [walk walk_hit]; [apply N.bits_0|].
  assert (Hs : s < 64) by (apply Hb; left; reflexivity).
  destruct (N.testbit occ s) eqn:E; cbn [negb andb].
  - rewrite bit_spec by exact Hs. rewrite orb_false_r. apply N.eqb_sym.
  - rewrite N.lor_spec, bit_spec by exact Hs. rewrite IH by (intros u Hu; apply Hb; right; exact Hu).
    rewrite (N.eqb_sym t s). reflexivity.
Qed.

(* position of the first occurrence *)
Fixpoint index_of (t : N) (l : list N) : option nat :=
  match l with
  | [] => None
  | s :: r => if s =? t then Some O else option_map S (index_of t r)
  end.

Definition clear_on (occ : N) (l : list N) : bool := forallb (fun s => negb (N.testbit occ s)) l.

Lemma walk_hit_index l occ t :
  walk_hit l occ t = match index_of t l with Some j => clear_on occ (firstn j l) | None => false end.
Proof.
  induction l as [|s r IH]; [reflexivity|]. cbn [walk_hit index_of].
  destruct (N.eqb_spec s t) as [E|E]; [reflexivity|]. cbn [orb]. rewrite IH.
  destruct (index_of t r) as [j|]; cbn [option_map]; [|apply andb_false_r].
  cbn [firstn clear_on forallb]. reflexivity.
Qed.

Lemma walk_hit_ext l occ occ' t :
  (forall s, In s (removelast l) -> N.testbit occ s = N.testbit occ' s) -> walk_hit l occ t = walk_hit l occ' t.
Proof.
  induction l as [|s r IH]; intros H; [reflexivity|]. cbn [walk_hit].
  destruct r as [|s2 r2]; [cbn [walk_hit]; rewrite !andb_false_r; reflexivity|].
  rewrite (H s) by (left; reflexivity). rewrite IH; [reflexivity|].
  intros u Hu. apply H. right. exact Hu.
Qed.

(* ---------- the eight rays ---------- *)
Definition rook_dirs : list (Z * Z) := [(0, 1); (0, -1); (1, 0); (-1, 0)]%Z.
Definition bishop_dirs : list (Z * Z) := [(1, 1); (-1, 1); (1, -1); (-1, -1)]%Z.
Definition ray (sq : N) (d : Z * Z) : list N := full_ray sq (fst d) (snd d).

Definition slider_hit (dirs : list (Z * Z)) (sq occ t : N) : bool :=
  existsb (fun d => walk_hit (ray sq d) occ t) dirs.

Lemma rays_in_board_sweep :
  forallb (fun sq => forallb (fun d => forallb (fun s => s <? 64) (ray sq d)) (rook_dirs ++ bishop_dirs)) all64 = true.
Proof. vm_compute. reflexivity. Qed.
Lemma ray_lt sq d s : sq < 64 -> In d (rook_dirs ++ bishop_dirs) -> In s (ray sq d) -> s < 64.
Proof.
  intros Hsq Hd Hs. pose proof (forallb_all64 _ rays_in_board_sweep sq Hsq) as H.
  rewrite forallb_forall in H. specialize (H d Hd). rewrite forallb_forall in H. specialize (H s Hs). lia.
Qed.

Lemma calc_rook_hit sq occ t : sq < 64 -> N.testbit (calc_rook_moves sq occ) t = slider_hit rook_dirs sq occ t.
Proof.
  intros Hsq. unfold calc_rook_moves, slider_hit, rook_dirs. cbn [existsb]. rewrite !N.lor_spec, orb_false_r.
  unfold ray. cbn [fst snd].
  rewrite !walk_spec; [rewrite !orb_assoc; reflexivity| | | |]; intros s Hs.
  - apply (ray_lt sq (-1, 0)%Z s Hsq); [cbn; tauto|exact Hs].
  - apply (ray_lt sq (1, 0)%Z s Hsq); [cbn; tauto|exact Hs].
  - apply (ray_lt sq (0, -1)%Z s Hsq); [cbn; tauto|exact Hs].
  - apply (ray_lt sq (0, 1)%Z s Hsq); [cbn; tauto|exact Hs].
Qed.
Lemma calc_bishop_hit sq occ t : sq < 64 -> N.testbit (calc_bishop_moves sq occ) t = slider_hit bishop_dirs sq occ t.
Proof.
  intros Hsq. unfold calc_bishop_moves, slider_hit, bishop_dirs. cbn [existsb]. rewrite !N.lor_spec, orb_false_r.
  unfold ray. cbn [fst snd].
  rewrite !walk_spec; [rewrite !orb_assoc; reflexivity| | | |]; intros s Hs.
  - apply (ray_lt sq (-1, -1)%Z s Hsq); [cbn; tauto|exact Hs].
  - apply (ray_lt sq (1, -1)%Z s Hsq); [cbn; tauto|exact Hs].
  - apply (ray_lt sq (-1, 1)%Z s Hsq); [cbn; tauto|exact Hs].
  - apply (ray_lt sq (1, 1)%Z s Hsq); [cbn; tauto|exact Hs].
Qed.

(* finite geometry: for every pair (sq, t), the rays through t and the squares before t on them are exactly
   what the specification's [between] says *)
Fixpoint list_eqb (a b : list N) : bool :=
  match a, b with [], [] => true | x :: a', y :: b' => (x =? y) && list_eqb a' b' | _, _ => false end.
Lemma list_eqb_eq a b : list_eqb a b = true -> a = b.
Proof. revert b. induction a as [|x a IH]; destruct b as [|y b]; simpl; intros H; try discriminate; [reflexivity|].
       apply andb_true_iff in H. destruct H as [H1 H2]. apply N.eqb_eq in H1. subst. f_equal. apply IH. exact H2. Qed.

(* per direction: either t is not on the ray, or the prefix before t is [between sq t];
   and t lies on some ray of the family iff it is aligned accordingly *)
Definition geo_ok (dirs : list (Z * Z)) (aligned : N -> N -> bool) (sq t : N) : bool :=
  forallb (fun d => match index_of t (ray sq d) with
                    | Some j => list_eqb (firstn j (ray sq d)) (between sq t)
                    | None => true end) dirs &&
  Bool.eqb (existsb (fun d => match index_of t (ray sq d) with Some _ => true | None => false end) dirs)
           (negb (sq =? t) && aligned sq t).

Lemma rook_geo_sweep : forallb (fun sq => forallb (fun t => geo_ok rook_dirs same_line sq t) all64) all64 = true.
Proof. vm_compute. reflexivity. Qed.
Lemma bishop_geo_sweep : forallb (fun sq => forallb (fun t => geo_ok bishop_dirs same_diag sq t) all64) all64 = true.
Proof. vm_compute. reflexivity. Qed.

Lemma slider_hit_geo dirs aligned sq occ t : geo_ok dirs aligned sq t = true ->
  slider_hit dirs sq occ t = negb (sq =? t) && aligned sq t && clear_on occ (between sq t).
Proof.
  unfold geo_ok, slider_hit. intros H. apply andb_true_iff in H. destruct H as [H1 H2]. apply eqb_prop in H2.
  rewrite <- H2. clear H2. rewrite forallb_forall in H1.
  induction dirs as [|d r IH]; [reflexivity|]. cbn [existsb].
  rewrite IH by (intros x Hx; apply H1; right; exact Hx).
  specialize (H1 d (or_introl eq_refl)). rewrite walk_hit_index.
  destruct (index_of t (ray sq d)) as [j|].
  - apply list_eqb_eq in H1. rewrite H1. cbn [orb andb].
    destruct (clear_on occ (between sq t)); [reflexivity|]. rewrite !andb_false_r. reflexivity.
  - reflexivity.
Qed.

Theorem rook_moves_geometric sq occ t : sq < 64 -> t < 64 ->
  N.testbit (rook_moves sq occ) t = negb (sq =? t) && same_line sq t && clear_on occ (between sq t).
Proof.
  intros Hs Ht. unfold rook_moves. rewrite calc_rook_hit by exact Hs.
  apply slider_hit_geo. exact (forallb_all64 _ (forallb_all64 _ rook_geo_sweep sq Hs) t Ht).
Qed.
Theorem bishop_moves_geometric sq occ t : sq < 64 -> t < 64 ->
  N.testbit (bishop_moves sq occ) t = negb (sq =? t) && same_diag sq t && clear_on occ (between sq t).
Proof.
  intros Hs Ht. unfold bishop_moves. rewrite calc_bishop_hit by exact Hs.
  apply slider_hit_geo. exact (forallb_all64 _ (forallb_all64 _ bishop_geo_sweep sq Hs) t Ht).
Qed.
Lemma rook_moves_lt sq occ : rook_moves sq occ < two64.
Proof. unfold rook_moves, calc_rook_moves. repeat apply lor_lt; apply walk_lt. Qed.
Lemma bishop_moves_lt sq occ : bishop_moves sq occ < two64.
Proof. unfold bishop_moves, calc_bishop_moves. repeat apply lor_lt; apply walk_lt. Qed.
Theorem queen_moves_geometric sq occ t : sq < 64 -> t < 64 ->
  N.testbit (queen_moves sq occ) t = negb (sq =? t) && (same_diag sq t || same_line sq t) && clear_on occ (between sq t).
Proof.
  intros Hs Ht. unfold queen_moves. rewrite N.lor_spec, rook_moves_geometric, bishop_moves_geometric by assumption.
  destruct (negb (sq =? t)); destruct (same_diag sq t); destruct (same_line sq t); destruct (clear_on occ (between sq t)); reflexivity.
Qed.

(* the result never depends on occupied squares that are not on the piece's lines *)
Lemma between_on_line_sweep :
  forallb (fun sq => forallb (fun t => forallb (fun s => (s <? 64) && (if same_line sq t then same_line sq s else true)
                                                       && (if same_diag sq t then same_diag sq s else true)) (between sq t)) all64) all64 = true.
Proof. vm_compute. reflexivity. Qed.

Lemma clear_on_ext occ occ' l : (forall s, In s l -> N.testbit occ s = N.testbit occ' s) -> clear_on occ l = clear_on occ' l.
Proof.
  induction l as [|x r IH]; intros H; [reflexivity|]. cbn [clear_on forallb].
  rewrite (H x (or_introl eq_refl)). f_equal. apply IH. intros s Hs. apply H. right. exact Hs.
Qed.

Theorem rook_ignores_offline sq occ occ' : sq < 64 ->
  (forall s, s < 64 -> same_line sq s = true -> N.testbit occ s = N.testbit occ' s) -> rook_moves sq occ = rook_moves sq occ'.
Proof.
  intros Hs H. apply N.bits_inj. intros t.
  destruct (N.lt_ge_cases t 64) as [Ht|Ht].
  - rewrite !rook_moves_geometric by assumption.
    destruct (same_line sq t) eqn:E; [|rewrite !andb_false_r; reflexivity].
    f_equal. apply clear_on_ext. intros s Hin.
    pose proof (forallb_all64 _ (forallb_all64 _ between_on_line_sweep sq Hs) t Ht) as Hsw.
    rewrite forallb_forall in Hsw. specialize (Hsw s Hin). rewrite E in Hsw.
    apply andb_true_iff in Hsw. destruct Hsw as [Hsw _]. apply andb_true_iff in Hsw. destruct Hsw as [H1 H2].
    apply H; [lia|exact H2].
  - rewrite (proj1 (lt64_iff _) (rook_moves_lt sq occ) t Ht), (proj1 (lt64_iff _) (rook_moves_lt sq occ') t Ht). reflexivity.
Qed.
Theorem bishop_ignores_offline sq occ occ' : sq < 64 ->
  (forall s, s < 64 -> same_diag sq s = true -> N.testbit occ s = N.testbit occ' s) -> bishop_moves sq occ = bishop_moves sq occ'.
Proof.
  intros Hs H. apply N.bits_inj. intros t.
  destruct (N.lt_ge_cases t 64) as [Ht|Ht].
  - rewrite !bishop_moves_geometric by assumption.
    destruct (same_diag sq t) eqn:E; [|rewrite !andb_false_r; reflexivity].
    f_equal. apply clear_on_ext. intros s Hin.
    pose proof (forallb_all64 _ (forallb_all64 _ between_on_line_sweep sq Hs) t Ht) as Hsw.
    rewrite forallb_forall in Hsw. specialize (Hsw s Hin). rewrite E in Hsw.
    apply andb_true_iff in Hsw. destruct Hsw as [Hsw H2]. apply andb_true_iff in Hsw. destruct Hsw as [H1 _].
    apply H; [lia|exact H2].
  - rewrite (proj1 (lt64_iff _) (bishop_moves_lt sq occ) t Ht), (proj1 (lt64_iff _) (bishop_moves_lt sq occ') t Ht). reflexivity.
Qed.

(* leapers: the transcribed constexpr builders against the specification's offsets, all 64 x 64 pairs *)
Lemma leaper_sweep :
  forallb (fun sq => forallb (fun t =>
     Bool.eqb (N.testbit (knight_moves sq) t) (piece_attacks [] White Knight sq t) &&
     Bool.eqb (N.testbit (king_moves sq) t) (piece_attacks [] White King sq t)) all64
     && (knight_moves sq <? two64) && (king_moves sq <? two64)) all64 = true.
Proof. vm_compute. reflexivity. Qed.
Theorem knight_moves_geometric sq t b s : sq < 64 -> t < 64 -> N.testbit (knight_moves sq) t = piece_attacks b s Knight sq t.
Proof.
  intros Hs Ht. pose proof (forallb_all64 _ leaper_sweep sq Hs) as H. apply andb_true_iff in H. destruct H as [H _].
  apply andb_true_iff in H. destruct H as [H _].
  pose proof (forallb_all64 _ H t Ht) as H2. apply andb_true_iff in H2. destruct H2 as [H2 _]. apply eqb_prop in H2. exact H2.
Qed.
Theorem king_moves_geometric sq t b s : sq < 64 -> t < 64 -> N.testbit (king_moves sq) t = piece_attacks b s King sq t.
Proof.
  intros Hs Ht. pose proof (forallb_all64 _ leaper_sweep sq Hs) as H. apply andb_true_iff in H. destruct H as [H _].
  apply andb_true_iff in H. destruct H as [H _].
  pose proof (forallb_all64 _ H t Ht) as H2. apply andb_true_iff in H2. destruct H2 as [_ H2]. apply eqb_prop in H2. exact H2.
Qed.

(* ---------- Part 2: from the sweep of the filled table to all occupancies ---------- *)
(* every subset of a set of bit positions *)
Fixpoint subsets (l : list N) : list N :=
  match l with
  | [] => [0]
  | b :: r => let S := subsets r in S ++ map (N.lor (bit b)) S
  end.

Lemma subsets_complete l x : (forall b, In b l -> b < 64) ->
  (forall i, N.testbit x i = true -> In i l) -> In x (subsets l).
Proof.
  revert x. induction l as [|b r IH]; intros x Hb Hx.
  - left. symmetry. apply N.bits_inj. intros i. rewrite N.bits_0. destruct (N.testbit x i) eqn:E; [destruct (Hx i E)|reflexivity].
  - cbn [subsets]. apply in_or_app.
    assert (Hb64 : b < 64) by (apply Hb; left; reflexivity).
    set (x' := N.ldiff x (bit b)).
    assert (Hx' : In x' (subsets r)).
    { apply IH; [intros c Hc; apply Hb; right; exact Hc|].
      intros i Hi. unfold x' in Hi. rewrite N.ldiff_spec, bit_spec in Hi by exact Hb64.
      apply andb_true_iff in Hi. destruct Hi as [H1 H2]. destruct (Hx i H1) as [E|Hin]; [|exact Hin].
      subst. rewrite N.eqb_refl in H2. discriminate. }
    destruct (N.testbit x b) eqn:E.
    + right. apply in_map_iff. exists x'. split; [|exact Hx'].
      apply N.bits_inj. intros i. unfold x'. rewrite N.lor_spec, N.ldiff_spec, bit_spec by exact Hb64.
      destruct (N.eqb_spec i b) as [->|Hne]; [rewrite E; reflexivity|]. cbn [negb orb]. rewrite andb_true_r. reflexivity.
    + left. replace x with x'; [exact Hx'|].
      apply N.bits_inj. intros i. unfold x'. rewrite N.ldiff_spec, bit_spec by exact Hb64.
      destruct (N.eqb_spec i b) as [->|Hne]; [rewrite E; reflexivity|]. cbn [negb]. apply andb_true_r.
Qed.

Lemma land_mask_in_subsets occ mask : mask < two64 -> In (N.land occ mask) (subsets (bits_ref mask)).
Proof.
  intros Hm. apply subsets_complete.
  - intros b Hb. apply bits_ref_spec in Hb. destruct (N.lt_ge_cases b 64) as [H|H]; [exact H|].
    rewrite (proj1 (lt64_iff mask) Hm b H) in Hb. discriminate.
  - intros i Hi. rewrite N.land_spec in Hi. apply andb_true_iff in Hi. apply bits_ref_spec. tauto.
Qed.

(* the relevant masks contain every ray square except the last one of each ray (finite sweep) *)
Lemma mask_covers_sweep :
  forallb (fun sq =>
    forallb (fun d => forallb (fun s => N.testbit (rook_mask sq) s) (removelast (ray sq d))) rook_dirs &&
    forallb (fun d => forallb (fun s => N.testbit (bishop_mask sq) s) (removelast (ray sq d))) bishop_dirs &&
    (rook_mask sq <? two64) && (bishop_mask sq <? two64)) all64 = true.
Proof. vm_compute. reflexivity. Qed.

Lemma slider_hit_mask dirs (mask : N) sq occ t :
  (forall d, In d dirs -> forall s, In s (removelast (ray sq d)) -> N.testbit mask s = true) ->
  slider_hit dirs sq (N.land occ mask) t = slider_hit dirs sq occ t.
Proof.
  intros H. unfold slider_hit. induction dirs as [|d r IH]; [reflexivity|]. cbn [existsb].
  rewrite IH by (intros d' Hd'; apply H; right; exact Hd'). f_equal.
  apply walk_hit_ext. intros s Hs. rewrite N.land_spec, (H d (or_introl eq_refl) s Hs). apply andb_true_r.
Qed.

Lemma calc_rook_mask sq occ : sq < 64 -> calc_rook_moves sq (N.land occ (rook_mask sq)) = calc_rook_moves sq occ.
Proof.
  intros Hs. apply N.bits_inj. intros t. rewrite !calc_rook_hit by exact Hs. apply slider_hit_mask.
  pose proof (forallb_all64 _ mask_covers_sweep sq Hs) as H.
  apply andb_true_iff in H; destruct H as [H _]. apply andb_true_iff in H; destruct H as [H _]. apply andb_true_iff in H; destruct H as [HR HB].
  intros d Hd s Hin. rewrite forallb_forall in HR. specialize (HR d Hd). rewrite forallb_forall in HR. exact (HR s Hin).
Qed.
Lemma calc_bishop_mask sq occ : sq < 64 -> calc_bishop_moves sq (N.land occ (bishop_mask sq)) = calc_bishop_moves sq occ.
Proof.
  intros Hs. apply N.bits_inj. intros t. rewrite !calc_bishop_hit by exact Hs. apply slider_hit_mask.
  pose proof (forallb_all64 _ mask_covers_sweep sq Hs) as H.
  apply andb_true_iff in H; destruct H as [H _]. apply andb_true_iff in H; destruct H as [H _]. apply andb_true_iff in H; destruct H as [HR HB].
  intros d Hd s Hin. rewrite forallb_forall in HB. specialize (HB d Hd). rewrite forallb_forall in HB. exact (HB s Hin).
Qed.

Section Table.
Variables bs rs : list (N * N).
Variable size : N.

(* what the kernel sweeps: every (square, subset of the relevant mask) looks up the filler's value, in bounds *)
Definition table_ok (T : table) : bool :=
  forallb (fun sq =>
    forallb (fun s => (tget T (b_index bs sq s) =? calc_bishop_moves sq s) && (b_index bs sq s <? size)) (subsets (bits_ref (bishop_mask sq))) &&
    forallb (fun s => (tget T (r_index rs sq s) =? calc_rook_moves sq s) && (r_index rs sq s <? size)) (subsets (bits_ref (rook_mask sq)))) all64.

Hypothesis Sweep : table_ok (magic_moves bs rs) = true.

Lemma masks_lt sq : sq < 64 -> rook_mask sq < two64 /\ bishop_mask sq < two64.
Proof.
  intros Hs. pose proof (forallb_all64 _ mask_covers_sweep sq Hs) as H.
  apply andb_true_iff in H. destruct H as [H H1]. apply andb_true_iff in H. destruct H as [_ H2]. lia.
Qed.

Lemma index_land_r sq occ : r_index rs sq (N.land occ (rook_mask sq)) = r_index rs sq occ.
Proof. unfold r_index. rewrite <- N.land_assoc, N.land_diag. reflexivity. Qed.
Lemma index_land_b sq occ : b_index bs sq (N.land occ (bishop_mask sq)) = b_index bs sq occ.
Proof. unfold b_index. rewrite <- N.land_assoc, N.land_diag. reflexivity. Qed.

Theorem rook_lookup_exact sq occ : sq < 64 ->
  rook_moves_tbl rs (magic_moves bs rs) sq occ = rook_moves sq occ /\ r_index rs sq occ < size.
Proof.
  intros Hs. pose proof (forallb_all64 _ Sweep sq Hs) as H. apply andb_true_iff in H. destruct H as [_ H].
  rewrite forallb_forall in H. specialize (H (N.land occ (rook_mask sq)) (land_mask_in_subsets occ _ (proj1 (masks_lt sq Hs)))).
  apply andb_true_iff in H. destruct H as [H1 H2]. apply N.eqb_eq in H1. rewrite index_land_r in H1, H2.
  unfold rook_moves_tbl, rook_moves. rewrite H1, calc_rook_mask by exact Hs. split; [reflexivity|lia].
Qed.
Theorem bishop_lookup_exact sq occ : sq < 64 ->
  bishop_moves_tbl bs (magic_moves bs rs) sq occ = bishop_moves sq occ /\ b_index bs sq occ < size.
Proof.
  intros Hs. pose proof (forallb_all64 _ Sweep sq Hs) as H. apply andb_true_iff in H. destruct H as [H _].
  rewrite forallb_forall in H. specialize (H (N.land occ (bishop_mask sq)) (land_mask_in_subsets occ _ (proj2 (masks_lt sq Hs)))).
  apply andb_true_iff in H. destruct H as [H1 H2]. apply N.eqb_eq in H1. rewrite index_land_b in H1, H2.
  unfold bishop_moves_tbl, bishop_moves. rewrite H1, calc_bishop_mask by exact Hs. split; [reflexivity|lia].
Qed.
End Table.
