(* MagicModel.v — transcription of src/movegen.cpp: the constexpr mask builders,
   permute (carry-rippler), calculate_{bishop,rook}_moves, generate_magic_moves (the shared
   88 772-slot array, later writes overwrite earlier ones) and the five lookup functions.
   The two tables of (multiplier, offset) pairs are parameters; Properties_C14 instantiates
   them with Gen/MagicTables.v, regenerated from the current source.  Definitions only. *)
From Coq Require Import NArith ZArith List Bool FMapPositive.
From LC Require Import Bits Types BitboardModel.
Import ListNotations.
Local Open Scope N_scope.

(* ----- coordinate loops:  for (y = rank+dy, x = file+dx; lo <= x,y <= hi; y += dy, x += dx) ----- *)
(* squares visited, in loop order; [lox..hix] x [loy..hiy] are the loop-condition bounds *)
Fixpoint coord_loop (fuel : nat) (x y dx dy lox hix loy hiy : Z) : list N :=
  match fuel with
  | O => []
  | S f =>
    if ((lox <=? x) && (x <=? hix) && (loy <=? y) && (y <=? hiy))%Z
    then Z.to_N (x + y * 8)%Z :: coord_loop f (x + dx)%Z (y + dy)%Z dx dy lox hix loy hiy
    else []
  end.

Definition ray_from (sq : N) (dx dy lox hix loy hiy : Z) : list N :=
  let x := Z.of_N (sq_file sq) in let y := Z.of_N (sq_rank sq) in
  coord_loop 8 (x + dx)%Z (y + dy)%Z dx dy lox hix loy hiy.

Definition set_of (l : list N) : N := fold_left (fun acc s => N.lor acc (bit s)) l 0.

(* calculate_bishop_masks: the four loops stop one short of the edge in both coordinates *)
Definition bishop_mask (sq : N) : N :=
  set_of (ray_from sq 1 1 1 6 1 6 ++ ray_from sq (-1) 1 1 6 1 6 ++
          ray_from sq 1 (-1) 1 6 1 6 ++ ray_from sq (-1) (-1) 1 6 1 6).
(* generate_rook_masks: only the moving coordinate is bounded by 1..6 *)
Definition rook_mask (sq : N) : N :=
  set_of (ray_from sq 0 1 0 7 1 6 ++ ray_from sq 0 (-1) 0 7 1 6 ++
          ray_from sq 1 0 1 6 0 7 ++ ray_from sq (-1) 0 1 6 0 7).

(* one loop of calculate_*_moves: add every square up to and including the first blocker *)
Fixpoint walk (l : list N) (blockers : N) : N :=
  match l with
  | [] => 0
  | s :: r => if N.testbit blockers s then bit s else N.lor (bit s) (walk r blockers)
  end.

Definition full_ray (sq : N) (dx dy : Z) : list N := ray_from sq dx dy 0 7 0 7.

Definition calc_bishop_moves (sq blockers : N) : N :=
  N.lor (N.lor (N.lor (walk (full_ray sq 1 1) blockers) (walk (full_ray sq (-1) 1) blockers))
    (walk (full_ray sq 1 (-1)) blockers)) (walk (full_ray sq (-1) (-1)) blockers).
Definition calc_rook_moves (sq blockers : N) : N :=
  N.lor (N.lor (N.lor (walk (full_ray sq 0 1) blockers) (walk (full_ray sq 0 (-1)) blockers))
    (walk (full_ray sq 1 0) blockers)) (walk (full_ray sq (-1) 0) blockers).

(* calculate_knight_masks / calculate_king_masks *)
Definition knight_mask (sq : N) : N :=
  let b := bit sq in
  N.lor (N.lor (N.lor (N.lor (N.lor (N.lor (N.lor
    (east (north (north b))) (west (north (north b)))) (east (south (south b))))
    (west (south (south b)))) (north (east (east b)))) (south (east (east b))))
    (north (west (west b)))) (south (west (west b))).
Definition king_mask (sq : N) : N := adjacent (bit sq).

(* permute(set, subset) = (subset - set) & set *)
Definition permute (set subset : N) : N := N.land (sub64 subset set) set.

Section Tables.
(* (multiplier, offset) for squares 0..63 *)
Variable bishop_stuff rook_stuff : list (N * N).
Definition b_magic (sq : N) : N := fst (nth (N.to_nat sq) bishop_stuff (0, 0)).
Definition b_off (sq : N) : N := snd (nth (N.to_nat sq) bishop_stuff (0, 0)).
Definition r_magic (sq : N) : N := fst (nth (N.to_nat sq) rook_stuff (0, 0)).
Definition r_off (sq : N) : N := snd (nth (N.to_nat sq) rook_stuff (0, 0)).

Definition b_index (sq occ : N) : N := b_off sq + shr64 (mul64 (N.land occ (bishop_mask sq)) (b_magic sq)) 55.
Definition r_index (sq occ : N) : N := r_off sq + shr64 (mul64 (N.land occ (rook_mask sq)) (r_magic sq)) 52.

(* the std::array<uint64_t, 88772>, zero-initialised, as a finite map (absent = 0) *)
Definition table := PositiveMap.t N.
Definition tget (t : table) (i : N) : N :=
  match PositiveMap.find (N.succ_pos i) t with Some v => v | None => 0 end.
Definition tset (t : table) (i v : N) : table := PositiveMap.add (N.succ_pos i) v t.

(* do { result[index(perm)] = calc(sq, perm); } while ((perm = permute(mask, perm)));  *)
Fixpoint fill_loop (fuel : nat) (index : N -> N) (calc : N -> N) (mask perm : N) (t : table) : table :=
  match fuel with
  | O => t
  | S f =>
    let t' := tset t (index perm) (calc perm) in
    let perm' := permute mask perm in
    if perm' =? 0 then t' else fill_loop f index calc mask perm' t'
  end.

Definition fill_square (t : table) (sq : N) : table :=
  let t1 := fill_loop 512 (b_index sq) (calc_bishop_moves sq) (bishop_mask sq) 0 t in
  fill_loop 4096 (r_index sq) (calc_rook_moves sq) (rook_mask sq) 0 t1.

Definition magic_moves : table := fold_left fill_square all64 (PositiveMap.empty N).

Definition bishop_moves_tbl (t : table) (sq occ : N) : N := tget t (b_index sq occ).
Definition rook_moves_tbl (t : table) (sq occ : N) : N := tget t (r_index sq occ).
End Tables.

(* The form the rest of the model uses: the table filler's own function applied to the
   occupancy.  Properties_C14 proves  bishop_moves_tbl magic_moves sq occ = bishop_moves sq occ
   for all sq < 64 and all 2^64 occupancies (and likewise for rooks), with the regenerated
   constants; so the two are interchangeable in every other theorem. *)
Definition bishop_moves (sq occ : N) : N := calc_bishop_moves sq occ.
Definition rook_moves (sq occ : N) : N := calc_rook_moves sq occ.
Definition queen_moves (sq occ : N) : N := N.lor (bishop_moves sq occ) (rook_moves sq occ).
Definition knight_moves (sq : N) : N := knight_mask sq.
Definition king_moves (sq : N) : N := king_mask sq.
