(* MakeFacts.v — undo restores the previous position bit for bit (C03) and predict_hash equals the
   hash after makemove (C12).  Pure XOR algebra: no legality and no board invariant is needed. *)
From Coq Require Import NArith List Bool Lia Btauto.
From Coq Require Import ZifyBool ZifyN ZifyNat.
From LC Require Import Bits BitsFacts Types BitboardModel MoveModel MagicModel ZobristModel PositionModel MakeModel BoardFacts.
Import ListNotations.
Local Open Scope N_scope.

Ltac xor_solve :=
  apply N.bits_inj; let i := fresh "i" in intros i; rewrite ?N.lxor_spec; btauto.

(* the only places where makemove and undomove read different sources:
   - promotions: makemove toggles pieces_[Pawn] at the origin, undomove toggles pieces_[move.piece()]
   - king-side castling: makemove reads castle_rooks_from_, undomove reads move.to() *)
Definition move_fields_ok (p : position) (m : move) : Prop :=
  match m_type m with
  | Promo | PromoCapture => m_piece m = Pawn
  | Ksc => m_to m = rook_from_get p (side_to_N (turn p) * 2)
  | _ => True
  end.

Lemma board_eq b1 b2 :
  b_white b1 = b_white b2 -> b_black b1 = b_black b2 -> b_pawn b1 = b_pawn b2 -> b_knight b1 = b_knight b2 ->
  b_bishop b1 = b_bishop b2 -> b_rook b1 = b_rook b2 -> b_queen b1 = b_queen b2 -> b_king b1 = b_king b2 -> b1 = b2.
Proof. destruct b1, b2; simpl; intros; subst; reflexivity. Qed.

Section Undo.
Variable K : zkeys.

Local Opaque N.lxor bit N.add N.sub N.eqb castle_king_to ksc_rook_to qsc_rook_to sq_south sq_north piece_key ep_key turn_key castling_key.

Ltac board_case := apply board_eq; cbn [b_white b_black b_pawn b_knight b_bishop b_rook b_queen b_king]; try reflexivity; xor_solve.

Lemma undo_make_board b us m rk rq :
  match m_type m with Promo | PromoCapture => m_piece m = Pawn | Ksc => m_to m = rk | _ => True end ->
  undo_board (make_board b us m rk rq) us m rq = b.
Proof.
  destruct m as [t from to pc cap pr]. cbn [m_type m_piece m_to]. intros Hok.
  apply board_ext.
  - intros s'. destruct t, us; unfold make_board, undo_board;
      cbn [m_type m_from m_to m_piece m_cap m_promo opp_side side_to_N]; try subst to; try subst pc;
      read_board; destruct s'; cbn [side_eqb]; try reflexivity; xor_solve.
  - intros q Hq. destruct t, us; unfold make_board, undo_board;
      cbn [m_type m_from m_to m_piece m_cap m_promo opp_side side_to_N]; try subst to; try subst pc;
      read_board; split_ifs; try reflexivity; try xor_solve;
      repeat match goal with H : piece_eqb _ _ = true |- _ => apply piece_eqb_true in H end; subst; try discriminate; try congruence.
Qed.

Theorem undo_make p m : move_fields_ok p m -> undomove (makemove K p m) = p.
Proof.
  intros Hok. unfold undomove, makemove.
  cbn [history to_move brd fullmove r0 r1 r2 r3 rook_from_get h_move h_half h_ep h_hash h_c0 h_c1 h_c2 h_c3].
  replace (opp_side (opp_side (turn p))) with (turn p) by (destruct (turn p); reflexivity).
  assert (Hrq : forall q, rook_from_get (mkPos (brd q) (halfmove q) (fullmove q) (ep q) (hash q) (c0 q) (c1 q) (c2 q) (c3 q) (r0 p) (r1 p) (r2 p) (r3 p) (to_move q) (history q)) (side_to_N (turn p) * 2 + 1)
                          = rook_from_get p (side_to_N (turn p) * 2 + 1)).
  { intros q. destruct (turn p); reflexivity. }
  match goal with |- context [undo_board _ _ _ ?r] => replace r with (rook_from_get p (side_to_N (turn p) * 2 + 1)) by (destruct (turn p); reflexivity) end.
  rewrite undo_make_board by exact Hok.
  destruct p as [b half full e h k0 k1 k2 k3 q0 q1 q2 q3 tm hist]. cbn [brd halfmove fullmove ep hash c0 c1 c2 c3 r0 r1 r2 r3 turn to_move history].
  f_equal. destruct tm; cbn [side_eqb b2n]; lia.
Qed.

Theorem undonull_makenull p : undonull (makenull K p) = p.
Proof.
  destruct p as [b half full e h k0 k1 k2 k3 q0 q1 q2 q3 tm hist].
  unfold makenull, undonull. cbn. destruct tm; reflexivity.
Qed.
End Undo.

(* ---------- arbitrarily long LIFO histories ---------- *)
Inductive op := OMake (m : move) | ONull | OUndo | OUndoNull.

Section Histories.
Variable K : zkeys.
Definition step (p : position) (o : op) : position :=
  match o with OMake m => makemove K p m | ONull => makenull K p | OUndo => undomove p | OUndoNull => undonull p end.
Definition run (ops : list op) (p : position) : position := fold_left step ops p.

(* every makemove in the word is given a move satisfying the Move constructor's own contract (above) *)
Fixpoint ok_run (p : position) (ops : list op) : Prop :=
  match ops with
  | [] => True
  | OMake m :: r => move_fields_ok p m /\ ok_run (makemove K p m) r
  | o :: r => ok_run (step p o) r
  end.

Inductive balanced : list op -> Prop :=
| bal_nil : balanced []
| bal_make m w : balanced w -> balanced (OMake m :: w ++ [OUndo])
| bal_null w : balanced w -> balanced (ONull :: w ++ [OUndoNull])
| bal_app w1 w2 : balanced w1 -> balanced w2 -> balanced (w1 ++ w2).

Lemma run_app a b p : run (a ++ b) p = run b (run a p).
Proof. unfold run. apply fold_left_app. Qed.
Lemma ok_run_app a b p : ok_run p (a ++ b) -> ok_run p a /\ ok_run (run a p) b.
Proof.
  revert p. induction a as [|o r IH]; intros p H; [split; [exact I|exact H]|].
  destruct o; cbn [app ok_run] in *.
  - destruct H as [H1 H2]. destruct (IH _ H2) as [H3 H4]. split; [split; assumption|exact H4].
  - apply IH. exact H.
  - apply IH. exact H.
  - apply IH. exact H.
Qed.

Theorem balanced_restores w : balanced w -> forall p, ok_run p w -> run w p = p.
Proof.
  induction 1 as [|m w Hw IH|w Hw IH|w1 w2 H1 IH1 H2 IH2]; intros p Hok.
  - reflexivity.
  - cbn [ok_run] in Hok. destruct Hok as [Hm Hr]. apply ok_run_app in Hr. destruct Hr as [Hr _].
    change (OMake m :: w ++ [OUndo]) with ([OMake m] ++ w ++ [OUndo]). rewrite !run_app.
    cbn [run fold_left step]. fold (run w (makemove K p m)). rewrite (IH _ Hr). apply undo_make. exact Hm.
  - cbn [ok_run step] in Hok. apply ok_run_app in Hok. destruct Hok as [Hr _].
    change (ONull :: w ++ [OUndoNull]) with ([ONull] ++ w ++ [OUndoNull]). rewrite !run_app.
    cbn [run fold_left step]. fold (run w (makenull K p)). rewrite (IH _ Hr). apply undonull_makenull.
  - apply ok_run_app in Hok. destruct Hok as [Ha Hb]. rewrite run_app, (IH1 _ Ha). rewrite (IH1 _ Ha) in Hb. apply IH2. exact Hb.
Qed.

(* ---------- predict_hash (C12) ---------- *)
Definition fits_hash (p : position) (m : move) : Prop :=
  match m_type m with
  | Promo | PromoCapture => m_piece m = Pawn
  | Ksc | Qsc => m_piece m = King
  | Double => m_to m < 64 /\ (turn p = White -> 8 <= m_to m)
  | _ => True
  end.

Lemma adj_castling c cond h k :
  (if negb (Bool.eqb (c && negb cond) c) then N.lxor h k else h) = (if c && cond then N.lxor h k else h).
Proof. destruct c, cond; reflexivity. Qed.

Lemma file_south t : 8 <= t -> t < 64 -> sq_file (sq_south t) = sq_file t.
Proof.
  intros H1 H2. unfold sq_south, sq_file, u8. change 255 with (N.ones 8). rewrite N.land_ones.
  replace ((t + 248) mod 2 ^ 8) with (t - 8).
  - replace t with ((t - 8) + 1 * 8) at 2 by lia. rewrite N.mod_add by lia. reflexivity.
  - symmetry. replace (t + 248) with ((t - 8) + 1 * 2 ^ 8) by (change (2 ^ 8) with 256; lia). rewrite N.mod_add by (change (2^8) with 256; lia).
    apply N.mod_small. change (2 ^ 8) with 256. lia.
Qed.
Lemma file_north t : t < 64 -> sq_file (sq_north t) = sq_file t.
Proof.
  intros H. unfold sq_north, sq_file, u8. change 255 with (N.ones 8). rewrite N.land_ones.
  rewrite (N.mod_small (t + 8)) by (change (2 ^ 8) with 256; lia).
  replace (t + 8) with (t + 1 * 8) by lia. apply N.mod_add. lia.
Qed.

Theorem predict_hash_eq p m : fits_hash p m -> predict_hash K p m = hash (makemove K p m).
Proof.
  intros Hf. unfold predict_hash, predict_hash_gen, makemove. cbn [hash].
  rewrite !adj_castling.
  assert (Hm : make_hash K (if negb (ep p =? OffSq) then N.lxor (N.lxor (hash p) (turn_key K)) (ep_key K (ep p)) else N.lxor (hash p) (turn_key K))
                         (turn p) m (rook_from_get p (side_to_N (turn p) * 2)) (rook_from_get p (side_to_N (turn p) * 2 + 1)) =
               match m_type m with
               | Normal => N.lxor (N.lxor (if negb (ep p =? OffSq) then N.lxor (N.lxor (hash p) (turn_key K)) (ep_key K (ep p)) else N.lxor (hash p) (turn_key K)) (piece_key K (m_piece m) (turn p) (m_from m))) (piece_key K (m_piece m) (turn p) (m_to m))
               | Capture => N.lxor (N.lxor (N.lxor (if negb (ep p =? OffSq) then N.lxor (N.lxor (hash p) (turn_key K)) (ep_key K (ep p)) else N.lxor (hash p) (turn_key K)) (piece_key K (m_piece m) (turn p) (m_from m))) (piece_key K (m_piece m) (turn p) (m_to m))) (piece_key K (m_cap m) (opp_side (turn p)) (m_to m))
               | Double => N.lxor (N.lxor (N.lxor (if negb (ep p =? OffSq) then N.lxor (N.lxor (hash p) (turn_key K)) (ep_key K (ep p)) else N.lxor (hash p) (turn_key K)) (piece_key K (m_piece m) (turn p) (m_from m))) (piece_key K (m_piece m) (turn p) (m_to m))) (ep_key K (m_to m))
               | Enpassant =>
                 match turn p with
                 | White => N.lxor (N.lxor (N.lxor (if negb (ep p =? OffSq) then N.lxor (N.lxor (hash p) (turn_key K)) (ep_key K (ep p)) else N.lxor (hash p) (turn_key K)) (piece_key K (m_piece m) (turn p) (m_from m))) (piece_key K (m_piece m) (turn p) (m_to m))) (piece_key K Pawn (opp_side (turn p)) (sq_south (m_to m)))
                 | Black => N.lxor (N.lxor (N.lxor (if negb (ep p =? OffSq) then N.lxor (N.lxor (hash p) (turn_key K)) (ep_key K (ep p)) else N.lxor (hash p) (turn_key K)) (piece_key K (m_piece m) (turn p) (m_from m))) (piece_key K (m_piece m) (turn p) (m_to m))) (piece_key K Pawn (opp_side (turn p)) (sq_north (m_to m)))
                 end
               | Ksc => N.lxor (N.lxor (N.lxor (N.lxor (if negb (ep p =? OffSq) then N.lxor (N.lxor (hash p) (turn_key K)) (ep_key K (ep p)) else N.lxor (hash p) (turn_key K)) (piece_key K King (turn p) (m_from m))) (piece_key K King (turn p) (castle_king_to (side_to_N (turn p) * 2)))) (piece_key K Rook (turn p) (rook_from_get p (side_to_N (turn p) * 2)))) (piece_key K Rook (turn p) (ksc_rook_to (turn p)))
               | Qsc => N.lxor (N.lxor (N.lxor (N.lxor (if negb (ep p =? OffSq) then N.lxor (N.lxor (hash p) (turn_key K)) (ep_key K (ep p)) else N.lxor (hash p) (turn_key K)) (piece_key K King (turn p) (m_from m))) (piece_key K King (turn p) (castle_king_to (side_to_N (turn p) * 2 + 1)))) (piece_key K Rook (turn p) (rook_from_get p (side_to_N (turn p) * 2 + 1)))) (piece_key K Rook (turn p) (qsc_rook_to (turn p)))
               | Promo => N.lxor (N.lxor (if negb (ep p =? OffSq) then N.lxor (N.lxor (hash p) (turn_key K)) (ep_key K (ep p)) else N.lxor (hash p) (turn_key K)) (piece_key K Pawn (turn p) (m_from m))) (piece_key K (m_promo m) (turn p) (m_to m))
               | PromoCapture => N.lxor (N.lxor (N.lxor (if negb (ep p =? OffSq) then N.lxor (N.lxor (hash p) (turn_key K)) (ep_key K (ep p)) else N.lxor (hash p) (turn_key K)) (piece_key K Pawn (turn p) (m_from m))) (piece_key K (m_promo m) (turn p) (m_to m))) (piece_key K (m_cap m) (opp_side (turn p)) (m_to m))
               end).
  { unfold make_hash, fits_hash in *. set (h0 := if negb (ep p =? OffSq) then _ else _).
    destruct (m_type m); try reflexivity.
    - destruct Hf as [Ht Hw]. destruct (turn p); unfold ep_key; [rewrite file_south by (try apply Hw; auto)|rewrite file_north by exact Ht]; reflexivity.
    - rewrite Hf. reflexivity.
    - rewrite Hf. reflexivity.
    - rewrite Hf. xor_solve.
    - rewrite Hf. xor_solve. }
  rewrite Hm. destruct (m_type m); reflexivity.
Qed.
End Histories.
