(* MakeModel.v — makemove.cpp, undomove.cpp, makenull/undonull (position.hpp),
   predict_hash.cpp (repaired, D2).  Statement-by-statement transcription. Definitions only. *)
From Coq Require Import NArith List Bool.
From LC Require Import Bits Types BitboardModel MoveModel MagicModel ZobristModel PositionModel.
Import ListNotations.
Local Open Scope N_scope.

(* castle_king_to[] = {G1, C1, G8, C8}; ksc_rook_to[] = {F1, F8}; qsc_rook_to[] = {D1, D8} *)
Definition castle_king_to (i : N) : N := match i with 0 => 6 | 1 => 2 | 2 => 62 | _ => 58 end.
Definition ksc_rook_to (s : side) : N := match s with White => 5 | Black => 61 end.
Definition qsc_rook_to (s : side) : N := match s with White => 3 | Black => 59 end.

Definition b2n (b : bool) : N := if b then 1 else 0.

Section Make.
Variable K : zkeys.

(* makemove, field by field.  The C++ switch updates colours_/pieces_, hash_, halfmove_clock_ and ep_ inside
   each case; the model gives the final value of each field as its own function of the same inputs. *)

(* colours_[] / pieces_[] after the switch; rk / rq = castle_rooks_from_[us*2] / [us*2+1] *)
Definition make_board (b : board) (us : side) (m : move) (rk rq : N) : board :=
  let them := opp_side us in
  let from := m_from m in let to := m_to m in
  let piece := m_piece m in let captured := m_cap m in let promo := m_promo m in
  let ft := N.lxor (bit from) (bit to) in
  let castle (kto rfrom rto : N) : board :=
    let x := N.lxor (bit from) (bit kto) in
    let b := xor_pcs (xor_colour b us x) piece x in
    let b := xor_pcs (xor_colour b us (bit rfrom)) Rook (bit rfrom) in
    xor_pcs (xor_colour b us (bit rto)) Rook (bit rto) in
  match m_type m with
  | Normal | Double => xor_pcs (xor_colour b us ft) piece ft
  | Capture =>
    let b := xor_pcs (xor_colour b us ft) piece ft in
    xor_colour (xor_pcs b captured (bit to)) them (bit to)
  | Enpassant =>
    let b := xor_pcs (xor_colour b us ft) piece ft in
    match us with
    | White => xor_colour (xor_pcs b Pawn (bit (sq_south to))) Black (bit (sq_south to))
    | Black => xor_colour (xor_pcs b Pawn (bit (sq_north to))) White (bit (sq_north to))
    end
  | Ksc => castle (castle_king_to (side_to_N us * 2)) rk (ksc_rook_to us)
  | Qsc => castle (castle_king_to (side_to_N us * 2 + 1)) rq (qsc_rook_to us)
  | Promo =>
    let b := xor_pcs (xor_colour b us ft) Pawn (bit from) in
    xor_pcs b promo (bit to)
  | PromoCapture =>
    let b := xor_pcs (xor_colour b us ft) Pawn (bit from) in
    let b := xor_pcs b promo (bit to) in
    xor_colour (xor_pcs b captured (bit to)) them (bit to)
  end.

(* hash_ after the switch (h already carries the turn key and the old ep key) *)
Definition make_hash (h : N) (us : side) (m : move) (rk rq : N) : N :=
  let them := opp_side us in
  let from := m_from m in let to := m_to m in
  let piece := m_piece m in let captured := m_cap m in let promo := m_promo m in
  let pk := piece_key K in
  let moved := N.lxor (N.lxor h (pk piece us from)) (pk piece us to) in
  match m_type m with
  | Normal => moved
  | Capture => N.lxor moved (pk captured them to)
  | Double => N.lxor moved (ep_key K (match us with White => sq_south to | Black => sq_north to end))
  | Enpassant =>
    match us with
    | White => N.lxor moved (pk Pawn them (sq_south to))
    | Black => N.lxor moved (pk Pawn them (sq_north to))
    end
  | Ksc =>
    N.lxor (N.lxor (N.lxor (N.lxor h (pk piece us from)) (pk piece us (castle_king_to (side_to_N us * 2)))) (pk Rook us rk)) (pk Rook us (ksc_rook_to us))
  | Qsc =>
    N.lxor (N.lxor (N.lxor (N.lxor h (pk piece us from)) (pk piece us (castle_king_to (side_to_N us * 2 + 1)))) (pk Rook us rq)) (pk Rook us (qsc_rook_to us))
  | Promo => N.lxor (N.lxor moved (pk Pawn us to)) (pk promo us to)
  | PromoCapture => N.lxor (N.lxor (N.lxor moved (pk captured them to)) (pk Pawn us to)) (pk promo us to)
  end.

(* halfmove_clock_ after the switch (it was incremented before) *)
Definition make_half (half : N) (m : move) : N :=
  match m_type m with
  | Normal => if piece_eqb (m_piece m) Pawn then 0 else half
  | Ksc | Qsc => half
  | _ => 0
  end.
Definition make_ep (us : side) (m : move) : N :=
  match m_type m with
  | Double => match us with White => sq_south (m_to m) | Black => sq_north (m_to m) end
  | _ => OffSq
  end.

Definition makemove (p : position) (m : move) : position :=
  let us := turn p in
  let from := m_from m in let to := m_to m in let piece := m_piece m in
  let rk := rook_from_get p (side_to_N us * 2) in
  let rq := rook_from_get p (side_to_N us * 2 + 1) in
  let full := fullmove p + b2n (side_eqb us Black) in
  let h := N.lxor (hash p) (turn_key K) in
  let h := if negb (ep p =? OffSq) then N.lxor h (ep_key K (ep p)) else h in
  let h := make_hash h us m rk rq in
  let rec := mkH (hash p) m (ep p) (halfmove p) (c0 p) (c1 p) (c2 p) (c3 p) in
  let kw := piece_eqb piece King && side_eqb us White in
  let kb := piece_eqb piece King && side_eqb us Black in
  let n0 := c0 p && negb (kw || (from =? r0 p) || (to =? r0 p)) in
  let n1 := c1 p && negb (kw || (from =? r1 p) || (to =? r1 p)) in
  let n2 := c2 p && negb (kb || (from =? r2 p) || (to =? r2 p)) in
  let n3 := c3 p && negb (kb || (from =? r3 p) || (to =? r3 p)) in
  let h := if negb (Bool.eqb n0 (c0 p)) then N.lxor h (castling_key K 0) else h in
  let h := if negb (Bool.eqb n1 (c1 p)) then N.lxor h (castling_key K 1) else h in
  let h := if negb (Bool.eqb n2 (c2 p)) then N.lxor h (castling_key K 2) else h in
  let h := if negb (Bool.eqb n3 (c3 p)) then N.lxor h (castling_key K 3) else h in
  mkPos (make_board (brd p) us m rk rq) (make_half (halfmove p + 1) m) full (make_ep us m) h
        n0 n1 n2 n3 (r0 p) (r1 p) (r2 p) (r3 p) (opp_side us) (rec :: history p).

(* colours_[] / pieces_[] after undomove's toggles; rq = castle_rooks_from_[us*2+1] *)
Definition undo_board (b : board) (us : side) (m : move) (rq : N) : board :=
  let them := opp_side us in
  let piece := m_piece m in let captured := m_cap m in let promo := m_promo m in
  let to := m_to m in let from := m_from m in
  let b := xor_pcs (xor_colour b us (bit to)) piece (bit to) in
  let b := xor_pcs (xor_colour b us (bit from)) piece (bit from) in
  match m_type m with
  | Normal => b
  | Double => b
  | Capture => xor_pcs (xor_colour b them (bit to)) captured (bit to)
  | Enpassant =>
    match us with
    | White => xor_colour (xor_pcs b Pawn (bit (sq_south to))) Black (bit (sq_south to))
    | Black => xor_colour (xor_pcs b Pawn (bit (sq_north to))) White (bit (sq_north to))
    end
  | Ksc =>
    let kto := castle_king_to (side_to_N us * 2) in
    let b := xor_pcs (xor_colour b us (bit to)) piece (bit to) in
    let b := xor_pcs (xor_colour b us (bit kto)) piece (bit kto) in
    let b := xor_pcs (xor_colour b us (bit to)) Rook (bit to) in
    xor_pcs (xor_colour b us (bit (ksc_rook_to us))) Rook (bit (ksc_rook_to us))
  | Qsc =>
    let kto := castle_king_to (side_to_N us * 2 + 1) in
    let b := xor_pcs (xor_colour b us (bit to)) piece (bit to) in
    let b := xor_pcs (xor_colour b us (bit kto)) piece (bit kto) in
    let b := xor_pcs (xor_colour b us (bit rq)) Rook (bit rq) in
    xor_pcs (xor_colour b us (bit (qsc_rook_to us))) Rook (bit (qsc_rook_to us))
  | Promo => xor_pcs (xor_pcs b Pawn (bit to)) promo (bit to)
  | PromoCapture =>
    let b := xor_pcs (xor_pcs b Pawn (bit to)) promo (bit to) in
    xor_colour (xor_pcs b captured (bit to)) them (bit to)
  end.

(* undomove; on an empty history the C++ is UB (history_.back()); the model returns p *)
Definition undomove (p : position) : position :=
  match history p with
  | [] => p
  | rec :: rest =>
    let m := h_move rec in
    let us := opp_side (to_move p) in
    let full := fullmove p - b2n (side_eqb us Black) in
    mkPos (undo_board (brd p) us m (rook_from_get p (side_to_N us * 2 + 1)))
          (h_half rec) full (h_ep rec) (h_hash rec) (h_c0 rec) (h_c1 rec) (h_c2 rec) (h_c3 rec)
          (r0 p) (r1 p) (r2 p) (r3 p) us rest
  end.

Definition makenull (p : position) : position :=
  let rec := mkH (hash p) null_move (ep p) (halfmove p) false false false false in
  let h := if negb (ep p =? OffSq) then N.lxor (hash p) (ep_key K (ep p)) else hash p in
  let h := N.lxor h (turn_key K) in
  mkPos (brd p) 0 (fullmove p) OffSq h (c0 p) (c1 p) (c2 p) (c3 p) (r0 p) (r1 p) (r2 p) (r3 p)
        (opp_side (to_move p)) (rec :: history p).

Definition undonull (p : position) : position :=
  match history p with
  | [] => p
  | rec :: rest =>
    mkPos (brd p) (h_half rec) (fullmove p) (h_ep rec) (h_hash rec) (c0 p) (c1 p) (c2 p) (c3 p)
          (r0 p) (r1 p) (r2 p) (r3 p) (opp_side (to_move p)) rest
  end.

(* predict_hash.  [repaired] = true: castling keys follow the stored rook squares (after the
   fix); false: the pinned tree's hard-coded e1/h1/a1/e8/h8/a8 (D2). *)
Definition predict_hash_gen (repaired : bool) (p : position) (m : move) : N :=
  let us := turn p in let them := opp_side us in
  let to := m_to m in let from := m_from m in
  let piece := m_piece m in let captured := m_cap m in let promo := m_promo m in
  let pk := piece_key K in
  let h := N.lxor (hash p) (turn_key K) in
  let h := if negb (ep p =? OffSq) then N.lxor h (ep_key K (ep p)) else h in
  let h :=
    match m_type m with
    | Normal => N.lxor (N.lxor h (pk piece us from)) (pk piece us to)
    | Capture => N.lxor (N.lxor (N.lxor h (pk piece us from)) (pk piece us to)) (pk captured them to)
    | Double => N.lxor (N.lxor (N.lxor h (pk piece us from)) (pk piece us to)) (ep_key K to)
    | Enpassant =>
      let h := N.lxor (N.lxor h (pk piece us from)) (pk piece us to) in
      match us with
      | White => N.lxor h (pk Pawn them (sq_south to))
      | Black => N.lxor h (pk Pawn them (sq_north to))
      end
    | Ksc =>
      N.lxor (N.lxor (N.lxor (N.lxor h (pk King us from)) (pk King us (castle_king_to (side_to_N us * 2))))
        (pk Rook us (rook_from_get p (side_to_N us * 2)))) (pk Rook us (ksc_rook_to us))
    | Qsc =>
      N.lxor (N.lxor (N.lxor (N.lxor h (pk King us from)) (pk King us (castle_king_to (side_to_N us * 2 + 1))))
        (pk Rook us (rook_from_get p (side_to_N us * 2 + 1)))) (pk Rook us (qsc_rook_to us))
    | Promo => N.lxor (N.lxor h (pk Pawn us from)) (pk promo us to)
    | PromoCapture => N.lxor (N.lxor (N.lxor h (pk Pawn us from)) (pk promo us to)) (pk captured them to)
    end in
  let king_moved := piece_eqb piece King in
  let cond (i : N) (s : side) (ksq_std rsq_std : N) : bool :=
    if repaired
    then (king_moved && side_eqb us s) || (from =? rook_from_get p i) || (to =? rook_from_get p i)
    else (to =? rsq_std) || (from =? ksq_std) || (from =? rsq_std) in
  let h := if c0 p && cond 0 White 4 7 then N.lxor h (castling_key K 0) else h in
  let h := if c1 p && cond 1 White 4 0 then N.lxor h (castling_key K 1) else h in
  let h := if c2 p && cond 2 Black 60 63 then N.lxor h (castling_key K 2) else h in
  let h := if c3 p && cond 3 Black 60 56 then N.lxor h (castling_key K 3) else h in
  h.
Definition predict_hash := predict_hash_gen true.
Definition predict_hash_orig := predict_hash_gen false.
End Make.
