(* MoveFacts.v — Move is a lossless record of its six fields (C17): generic in the bit layout,
   under a decidable well-formedness condition that Properties_C17 checks on the regenerated layout. *)
From Coq Require Import NArith List Bool Lia.
From Coq Require Import ZifyBool ZifyN ZifyNat.
From LC Require Import Bits BitsFacts Types BitboardModel MoveModel.
Import ListNotations.
Local Open Scope N_scope.

(* the constructor's and the accessors' layouts agree, fields ascend without overlap inside 32 bits,
   and each field is wide enough for its enumerators *)
Definition layout_ok (C A : layout) : bool :=
  (off_from C =? off_from A) && (off_to C =? off_to A) && (off_type C =? off_type A) &&
  (off_piece C =? off_piece A) && (off_cap C =? off_cap A) && (off_promo C =? off_promo A) &&
  (off_from A + w_from A <=? off_to A) && (off_to A + w_to A <=? off_type A) &&
  (off_type A + w_type A <=? off_piece A) && (off_piece A + w_piece A <=? off_cap A) &&
  (off_cap A + w_cap A <=? off_promo A) && (off_promo A + w_promo A <=? 32) &&
  (6 <=? w_from A) && (6 <=? w_to A) && (3 <=? w_type A) && (3 <=? w_piece A) && (3 <=? w_cap A) && (3 <=? w_promo A).

Lemma small_bits v w k : v < 2 ^ w -> w <= k -> N.testbit v k = false.
Proof.
  intros Hv Hk. destruct (N.eq_dec v 0) as [->|Hn]; [apply N.bits_0|].
  apply N.bits_above_log2. apply N.log2_lt_pow2 in Hv; lia.
Qed.

Lemma shift_hit v o i : N.testbit (N.shiftl v o) (i + o) = N.testbit v i.
Proof. rewrite N.shiftl_spec_high' by lia. f_equal. lia. Qed.
Lemma shift_miss v o' w' j : v < 2 ^ w' -> (j < o' \/ o' + w' <= j) -> N.testbit (N.shiftl v o') j = false.
Proof.
  intros Hv [H|H].
  - apply N.shiftl_spec_low. exact H.
  - rewrite N.shiftl_spec_high' by lia. apply (small_bits v w'); [exact Hv|lia].
Qed.

Lemma pow_mono a b : a <= b -> 2 ^ a <= 2 ^ b.
Proof. intros H. apply N.pow_le_mono_r; lia. Qed.

Section RoundTrip.
Variables C A : layout.
Hypothesis OK : layout_ok C A = true.
Variables t fr to pc cap pr : N.
Hypothesis Ht : t < 8. Hypothesis Hfr : fr < 64. Hypothesis Hto : to < 64.
Hypothesis Hpc : pc < 8. Hypothesis Hcap : cap < 8. Hypothesis Hpr : pr < 8.

Let d := pack C t fr to pc cap pr.

Ltac unpack_ok :=
  let OK' := fresh "OK'" in pose proof OK as OK'; unfold layout_ok in OK';
  repeat (apply andb_true_iff in OK'; let H := fresh "K" in destruct OK' as [OK' H]);
  repeat match goal with H : (_ =? _) = true |- _ => apply N.eqb_eq in H | H : (_ <=? _) = true |- _ => apply N.leb_le in H end.

Lemma widen v w w' : v < 2 ^ w -> w <= w' -> v < 2 ^ w'.
Proof. intros H1 H2. pose proof (pow_mono w w' H2). lia. Qed.

Lemma get_fields :
  get_from A d = fr /\ get_to A d = to /\ get_type A d = t /\
  get_piece A d = pc /\ get_cap A d = cap /\ get_promo A d = pr.
Proof.
  unpack_ok.
  assert (Bt : t < 2 ^ w_type A) by (apply (widen t 3); [exact Ht|assumption]).
  assert (Bfr : fr < 2 ^ w_from A) by (apply (widen fr 6); [exact Hfr|assumption]).
  assert (Bto : to < 2 ^ w_to A) by (apply (widen to 6); [exact Hto|assumption]).
  assert (Bpc : pc < 2 ^ w_piece A) by (apply (widen pc 3); [exact Hpc|assumption]).
  assert (Bcap : cap < 2 ^ w_cap A) by (apply (widen cap 3); [exact Hcap|assumption]).
  assert (Bpr : pr < 2 ^ w_promo A) by (apply (widen pr 3); [exact Hpr|assumption]).
  unfold get_from, get_to, get_type, get_piece, get_cap, get_promo, field, d, pack.
  repeat match goal with H : off_from C = _ |- _ => rewrite H | H : off_to C = _ |- _ => rewrite H | H : off_type C = _ |- _ => rewrite H
                    | H : off_piece C = _ |- _ => rewrite H | H : off_cap C = _ |- _ => rewrite H | H : off_promo C = _ |- _ => rewrite H end.
  repeat split; apply N.bits_inj; intros i;
    rewrite N.land_spec, N.shiftr_spec', N.land_spec, !N.lor_spec;
    (destruct (N.lt_ge_cases i (w_from A)); destruct (N.lt_ge_cases i (w_to A)); destruct (N.lt_ge_cases i (w_type A));
     destruct (N.lt_ge_cases i (w_piece A)); destruct (N.lt_ge_cases i (w_cap A)); destruct (N.lt_ge_cases i (w_promo A)));
    try (match goal with |- context [N.testbit (N.ones ?w) i] =>
           first [ rewrite (N.ones_spec_low w i) by assumption | rewrite (N.ones_spec_high w i) by assumption ] end);
    rewrite ?andb_false_r, ?andb_true_r;
    try (symmetry; first [ apply (small_bits fr (w_from A)) | apply (small_bits to (w_to A)) | apply (small_bits t (w_type A))
                         | apply (small_bits pc (w_piece A)) | apply (small_bits cap (w_cap A)) | apply (small_bits pr (w_promo A)) ]; assumption);
    rewrite ?shift_hit;
    rewrite ?(shift_miss fr (off_from A) (w_from A)) by (first [exact Bfr | lia]);
    rewrite ?(shift_miss to (off_to A) (w_to A)) by (first [exact Bto | lia]);
    rewrite ?(shift_miss t (off_type A) (w_type A)) by (first [exact Bt | lia]);
    rewrite ?(shift_miss pc (off_piece A) (w_piece A)) by (first [exact Bpc | lia]);
    rewrite ?(shift_miss cap (off_cap A) (w_cap A)) by (first [exact Bcap | lia]);
    rewrite ?(shift_miss pr (off_promo A) (w_promo A)) by (first [exact Bpr | lia]);
    rewrite ?orb_false_r, ?orb_false_l;
    (rewrite N.ones_spec_low by lia); rewrite andb_true_r; reflexivity.
Qed.
End RoundTrip.

(* ---------- the record view ---------- *)
Definition move_in_range (m : move) : Prop := m_from m < 64 /\ m_to m < 64.

Lemma piece_roundtrip p : piece_of_N (piece_to_N p) = p. Proof. destruct p; reflexivity. Qed.
Lemma mtype_roundtrip t : mtype_of_N (mtype_to_N t) = t. Proof. destruct t; reflexivity. Qed.
Lemma piece_to_N_lt p : piece_to_N p < 8. Proof. destruct p; simpl; lia. Qed.
Lemma mtype_to_N_lt t : mtype_to_N t < 8. Proof. destruct t; simpl; lia. Qed.

Theorem unpack_pack C A m : layout_ok C A = true -> move_in_range m -> unpack_move A (pack_move C m) = m.
Proof.
  intros OK [Hf Ht]. unfold unpack_move, pack_move.
  destruct (get_fields C A OK (mtype_to_N (m_type m)) (m_from m) (m_to m) (piece_to_N (m_piece m)) (piece_to_N (m_cap m)) (piece_to_N (m_promo m))
              (mtype_to_N_lt _) Hf Ht (piece_to_N_lt _) (piece_to_N_lt _) (piece_to_N_lt _)) as (E1 & E2 & E3 & E4 & E5 & E6).
  rewrite E1, E2, E3, E4, E5, E6, !piece_roundtrip, mtype_roundtrip. destruct m; reflexivity.
Qed.

(* the six accessors return exactly the constructor's arguments *)
Theorem accessors_exact C A t fr to pc cap pr : layout_ok C A = true -> fr < 64 -> to < 64 ->
  let d := pack C (mtype_to_N t) fr to (piece_to_N pc) (piece_to_N cap) (piece_to_N pr) in
  mtype_of_N (get_type A d) = t /\ get_from A d = fr /\ get_to A d = to /\
  piece_of_N (get_piece A d) = pc /\ piece_of_N (get_cap A d) = cap /\ piece_of_N (get_promo A d) = pr.
Proof.
  intros OK Hf Ht d.
  destruct (get_fields C A OK (mtype_to_N t) fr to (piece_to_N pc) (piece_to_N cap) (piece_to_N pr)
              (mtype_to_N_lt _) Hf Ht (piece_to_N_lt _) (piece_to_N_lt _) (piece_to_N_lt _)) as (E1 & E2 & E3 & E4 & E5 & E6).
  subst d. rewrite E1, E2, E3, E4, E5, E6, !piece_roundtrip, mtype_roundtrip. repeat split; reflexivity.
Qed.

(* operator== (comparison of the packed words) is equality of all six fields *)
Theorem packed_eq_iff C A m1 m2 : layout_ok C A = true -> move_in_range m1 -> move_in_range m2 ->
  (packed_eqb (pack_move C m1) (pack_move C m2) = true <-> m1 = m2).
Proof.
  intros OK H1 H2. unfold packed_eqb. rewrite N.eqb_eq. split; [|intros ->; reflexivity].
  intros E. rewrite <- (unpack_pack C A m1 OK H1), <- (unpack_pack C A m2 OK H2), E. reflexivity.
Qed.

Theorem packed_is_capturing_iff C A m : layout_ok C A = true -> move_in_range m ->
  packed_is_capturing A (pack_move C m) = match m_type m with Capture | PromoCapture | Enpassant => true | _ => false end.
Proof.
  intros OK [Hf Ht]. unfold packed_is_capturing, pack_move.
  destruct (get_fields C A OK (mtype_to_N (m_type m)) (m_from m) (m_to m) (piece_to_N (m_piece m)) (piece_to_N (m_cap m)) (piece_to_N (m_promo m))
              (mtype_to_N_lt _) Hf Ht (piece_to_N_lt _) (piece_to_N_lt _) (piece_to_N_lt _)) as (_ & _ & E3 & _).
  rewrite E3. destruct (m_type m); reflexivity.
Qed.
Theorem packed_is_promoting_iff C A m : layout_ok C A = true -> move_in_range m ->
  packed_is_promoting A (pack_move C m) = match m_type m with Promo | PromoCapture => true | _ => false end.
Proof.
  intros OK [Hf Ht]. unfold packed_is_promoting, pack_move.
  destruct (get_fields C A OK (mtype_to_N (m_type m)) (m_from m) (m_to m) (piece_to_N (m_piece m)) (piece_to_N (m_cap m)) (piece_to_N (m_promo m))
              (mtype_to_N_lt _) Hf Ht (piece_to_N_lt _) (piece_to_N_lt _) (piece_to_N_lt _)) as (_ & _ & E3 & _).
  rewrite E3. destruct (m_type m); reflexivity.
Qed.

(* text: origin, destination, then n/b/r/q exactly when a promotion piece is set *)
Definition legal_promo_field (p : piece) : bool :=
  match p with Knight | Bishop | Rook | Queen | NoPiece => true | _ => false end.
Theorem move_text_spec letters m : letters = [110; 98; 114; 113] -> legal_promo_field (m_promo m) = true ->
  move_text_with letters m =
  sq_string (m_from m) ++ sq_string (m_to m) ++
  match m_promo m with Knight => [110] | Bishop => [98] | Rook => [114] | Queen => [113] | _ => [] end.
Proof. intros -> H. unfold move_text_with. destruct (m_promo m); try discriminate; reflexivity. Qed.

(* move_eqb on records decides equality *)
Lemma piece_eqb_eq a b : piece_eqb a b = true <-> a = b.
Proof. destruct a, b; simpl; split; intros H; try reflexivity; try discriminate. Qed.
Lemma mtype_eqb_eq a b : mtype_eqb a b = true <-> a = b.
Proof. destruct a, b; simpl; split; intros H; try reflexivity; try discriminate. Qed.
Lemma side_eqb_eq a b : side_eqb a b = true <-> a = b.
Proof. destruct a, b; simpl; split; intros H; try reflexivity; try discriminate. Qed.
Lemma move_eqb_eq a b : move_eqb a b = true <-> a = b.
Proof.
  unfold move_eqb. rewrite !andb_true_iff, !N.eqb_eq, !piece_eqb_eq, mtype_eqb_eq. destruct a, b; simpl. split.
  - intros [[[[[-> ->] ->] ->] ->] ->]. reflexivity.
  - intros E. inversion E. tauto.
Qed.
