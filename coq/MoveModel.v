(* MoveModel.v — transcription of class Move (src/libchess/move.hpp): the packed
   std::uint32_t and its accessors.  The bit layout (offset, width of the six fields)
   is a parameter here; Properties_C17 instantiates it with Gen/MoveLayout.v, regenerated
   from the current source, and GenTie proves it equals [std_layout]. *)
From Coq Require Import NArith List Bool.
From LC Require Import Bits Types BitboardModel.
Import ListNotations.
Local Open Scope N_scope.

Record layout := mkLayout {
  off_from : N; w_from : N; off_to : N; w_to : N; off_type : N; w_type : N;
  off_piece : N; w_piece : N; off_cap : N; w_cap : N; off_promo : N; w_promo : N }.

Definition std_layout : layout := mkLayout 0 6 6 6 12 3 15 3 18 3 21 3.

Section Packed.
Variable L : layout.

(* data_ = fr | to << 6 | t << 12 | piece << 15 | cap << 18 | promo << 21   (uint32) *)
Definition pack (t fr to pc cap pr : N) : N :=
  N.land (N.lor (N.lor (N.lor (N.lor (N.lor
    (N.shiftl fr (off_from L)) (N.shiftl to (off_to L))) (N.shiftl t (off_type L)))
    (N.shiftl pc (off_piece L))) (N.shiftl cap (off_cap L))) (N.shiftl pr (off_promo L)))
    (N.ones 32).

Definition field (d off w : N) : N := N.land (N.shiftr d off) (N.ones w).
Definition get_from (d : N) := field d (off_from L) (w_from L).
Definition get_to (d : N) := field d (off_to L) (w_to L).
Definition get_type (d : N) := field d (off_type L) (w_type L).
Definition get_piece (d : N) := field d (off_piece L) (w_piece L).
Definition get_cap (d : N) := field d (off_cap L) (w_cap L).
Definition get_promo (d : N) := field d (off_promo L) (w_promo L).

Definition pack_move (m : move) : N :=
  pack (mtype_to_N (m_type m)) (m_from m) (m_to m)
       (piece_to_N (m_piece m)) (piece_to_N (m_cap m)) (piece_to_N (m_promo m)).
Definition unpack_move (d : N) : move :=
  mkMove (mtype_of_N (get_type d)) (get_from d) (get_to d)
         (piece_of_N (get_piece d)) (piece_of_N (get_cap d)) (piece_of_N (get_promo d)).

(* operator== compares data_ *)
Definition packed_eqb (a b : N) : bool := a =? b.
Definition packed_is_capturing (d : N) : bool :=
  (get_type d =? 1) || (get_type d =? 7) || (get_type d =? 3).
Definition packed_is_promoting (d : N) : bool := (get_type d =? 6) || (get_type d =? 7).
End Packed.

(* accessors on the record view *)
Definition is_capturing (m : move) : bool :=
  match m_type m with Capture | PromoCapture | Enpassant => true | _ => false end.
Definition is_promoting (m : move) : bool :=
  match m_type m with Promo | PromoCapture => true | _ => false end.

(* operator std::string: from, to, then asd[promotion-1] when promotion != None;
   asd = {'n','b','r','q'} is regenerated into Gen/MoveLayout.v (promo_letters). *)
Definition promo_letter (letters : list N) (p : piece) : list N :=
  match p with
  | NoPiece => []
  | _ => [nth (N.to_nat (piece_to_N p - 1)) letters 63]
  end.
Definition std_promo_letters : list N := [110; 98; 114; 113].
Definition move_text_with (letters : list N) (m : move) : list N :=
  sq_string (m_from m) ++ sq_string (m_to m) ++ promo_letter letters (m_promo m).
Definition move_text := move_text_with std_promo_letters.

(* Move() : data_ = 0 *)
Definition null_move : move := mkMove Normal 0 0 Pawn Pawn Pawn.
