(* MovegenFacts.v — facts about the generated move lists that need no legality reasoning:
   labels of every emitted move, list structure (append, count, membership). *)
From Coq Require Import NArith List Bool Lia.
From Coq Require Import ZifyBool ZifyN ZifyNat.
From LC Require Import Bits BitsFacts Types BitboardModel BitboardFacts MoveModel MoveFacts MagicModel ZobristModel
  PositionModel MovegenModel MakeModel MakeFacts.
Import ListNotations.
Local Open Scope N_scope.

(* what every emitted move satisfies, in any position *)
Definition emitted_ok (p : position) (m : move) : Prop :=
  match m_type m with
  | Promo | PromoCapture => m_piece m = Pawn
  | Ksc => m_piece m = King /\ m_to m = rook_from_get p (side_to_N (turn p) * 2)
  | Qsc => m_piece m = King
  | Double => m_to m < 64 /\ (turn p = White -> 8 <= m_to m)
  | _ => True
  end.

Lemma emitted_fields_ok p m : emitted_ok p m -> move_fields_ok p m.
Proof. unfold emitted_ok, move_fields_ok. destruct (m_type m); tauto. Qed.
Lemma emitted_fits_hash p m : emitted_ok p m -> fits_hash p m.
Proof. unfold emitted_ok, fits_hash. destruct (m_type m); tauto. Qed.

Lemma rank_mask_bits r sq : N.testbit (rank_mask r) sq = (8 * r <=? sq) && (sq <? 8 * r + 8).
Proof.
  unfold rank_mask. destruct (N.leb_spec (8 * r) sq) as [H|H].
  - rewrite N.shiftl_spec_high' by exact H. change 255 with (N.ones 8).
    destruct (N.ltb_spec sq (8 * r + 8)) as [H2|H2].
    + apply N.ones_spec_low. lia.
    + apply N.ones_spec_high. lia.
  - rewrite N.shiftl_spec_low by exact H. reflexivity.
Qed.

Lemma in_emit m bb f : In m (emit bb f) -> exists sq, In sq (bb_squares bb) /\ In m (f sq).
Proof. unfold emit. intros H. apply in_flat_map in H. exact H. Qed.

(* the two pin-scan loops emit Normal moves only *)
Lemma pin_scan_normal p sm rays es pc1 allowed m :
  In m (snd (pin_scan p sm rays es pc1 allowed)) -> m_type m = Normal.
Proof.
  unfold pin_scan.
  set (F := fun (acc : N * list move) sq => _).
  assert (G : forall l acc, (forall x, In x (snd acc) -> m_type x = Normal) -> forall x, In x (snd (fold_left F l acc)) -> m_type x = Normal).
  { induction l as [|sq r IH]; intros acc Hacc x Hx; [apply Hacc; exact Hx|].
    cbn [fold_left] in Hx. apply (IH (F acc sq)); [|exact Hx].
    intros y Hy. unfold F in Hy.
    destruct (bb_nonempty _) in Hy; [|apply Hacc; exact Hy].
    cbn [snd] in Hy. apply in_app_or in Hy. destruct Hy as [Hy|Hy]; [apply Hacc; exact Hy|].
    destruct (bb_nonempty _) in Hy.
    - apply in_emit in Hy. destruct Hy as [t [_ [<-|[]]]]. reflexivity.
    - destruct (bb_nonempty _) in Hy; [|destruct Hy].
      apply in_emit in Hy. destruct Hy as [t [_ [<-|[]]]]. reflexivity. }
  intros H. exact (G _ (0, []) (fun x Hx => match Hx with end) m H).
Qed.

Ltac crush_in H :=
  repeat match type of H with
         | In _ (_ ++ _) => apply in_app_or in H; destruct H as [H|H]
         | In _ (emit _ _) => apply in_emit in H; let sq := fresh "sq" in let Hs := fresh "Hs" in destruct H as [sq [Hs H]]
         | In _ [] => destruct H
         | In _ (_ :: _) => destruct H as [H|H]; [subst|]
         | In _ (if ?c then _ else _) => destruct c eqn:?
         | In _ (match ?s with White => _ | Black => _ end) => destruct s eqn:?
         end.

Lemma king_captures_ok p m : In m (king_captures p) -> emitted_ok p m.
Proof. unfold king_captures. intros H. crush_in H. exact I. Qed.

Lemma ep_try_ok p ksq c bl rq fr m : In m (ep_try p ksq c bl rq fr) -> m_type m = Enpassant.
Proof. unfold ep_try. intros H. crush_in H. reflexivity. Qed.

Lemma pawn_captures_ok p us ksq occ al pr pa pb ep_bb e m :
  In m (pawn_captures p us ksq occ al pr pa pb ep_bb e) -> emitted_ok p m.
Proof.
  unfold pawn_captures, promo_caps. intros H. destruct us;
    repeat (apply in_app_or in H; destruct H as [H|H]; [crush_in H; first [exact I | reflexivity]|]);
    (destruct (bb_nonempty ep_bb && e); [|destruct H]);
    apply in_app_or in H; destruct H as [H|H]; apply ep_try_ok in H; unfold emitted_ok; rewrite H; exact I.
Qed.

Lemma caps_from_ok p pc fr mask m : In m (caps_from p pc fr mask) -> m_type m = Capture.
Proof. unfold caps_from. intros H. crush_in H. reflexivity. Qed.

Lemma piece_captures_ok p us al pin pb pr bx rx occ m :
  In m (piece_captures p us al pin pb pr bx rx occ) -> emitted_ok p m.
Proof.
  unfold piece_captures. intros H.
  repeat (apply in_app_or in H; destruct H as [H|H]; [apply in_emit in H; destruct H as [fr [_ H]]; apply caps_from_ok in H; unfold emitted_ok; rewrite H; exact I|]).
  apply in_emit in H; destruct H as [fr [_ H]]; apply caps_from_ok in H; unfold emitted_ok; rewrite H; exact I.
Qed.

Lemma legal_captures_gen_ok g p m : In m (legal_captures_gen g p) -> emitted_ok p m.
Proof.
  unfold legal_captures_gen. intros H. cbv zeta in H.
  destruct (1 <? bb_count (checkers p)); [apply king_captures_ok; exact H|].
  apply in_app_or in H. destruct H as [H|H]; [apply pawn_captures_ok in H; exact H|].
  apply in_app_or in H. destruct H as [H|H]; [apply piece_captures_ok in H; exact H|].
  apply king_captures_ok; exact H.
Qed.

Lemma castle_try_ok p checked rp i mt kto rto them m :
  In m (castle_try p checked rp i mt kto rto them) ->
  m_type m = mt /\ m_piece m = King /\ m_to m = rook_from_get p i.
Proof. unfold castle_try. intros H. crush_in H. repeat split. Qed.

Lemma normals_from_ok pc fr mask m : In m (normals_from pc fr mask) -> m_type m = Normal.
Proof. unfold normals_from. intros H. crush_in H. reflexivity. Qed.

Lemma pawn_pushes_ok p us pawns al emp m : us = turn p -> In m (pawn_pushes us pawns al emp) -> emitted_ok p m.
Proof.
  intros Et. unfold pawn_pushes, promos. intros H. destruct us.
  - apply in_app_or in H. destruct H as [H|H]; [crush_in H; exact I|].
    apply in_app_or in H. destruct H as [H|H]; [crush_in H; reflexivity|].
    apply in_emit in H. destruct H as [sq [Hs [<-|[]]]].
    unfold emitted_ok. cbn [m_type m_to]. rewrite <- Et.
    unfold bb_squares in Hs. apply bits_sound in Hs.
    rewrite !N.land_spec in Hs. apply andb_true_iff in Hs. destruct Hs as [Hs _]. apply andb_true_iff in Hs. destruct Hs as [_ Hs].
    unfold Rank4 in Hs. rewrite rank_mask_bits in Hs. lia.
  - apply in_app_or in H. destruct H as [H|H]; [crush_in H; exact I|].
    apply in_app_or in H. destruct H as [H|H]; [crush_in H; reflexivity|].
    apply in_emit in H. destruct H as [sq [Hs [<-|[]]]].
    unfold emitted_ok. cbn [m_type m_to]. rewrite <- Et.
    unfold bb_squares in Hs. apply bits_sound in Hs.
    rewrite !N.land_spec in Hs. apply andb_true_iff in Hs. destruct Hs as [Hs _]. apply andb_true_iff in Hs. destruct Hs as [_ Hs].
    unfold Rank5 in Hs. rewrite rank_mask_bits in Hs. split; [lia|discriminate].
Qed.

Lemma piece_quiets_ok p us np al occ m : In m (piece_quiets p us np al occ) -> emitted_ok p m.
Proof.
  unfold piece_quiets. intros H.
  repeat (apply in_app_or in H; destruct H as [H|H]; [apply in_emit in H; destruct H as [fr [_ H]]; apply normals_from_ok in H; unfold emitted_ok; rewrite H; exact I|]).
  apply in_emit in H; destruct H as [fr [_ H]]; apply normals_from_ok in H; unfold emitted_ok; rewrite H; exact I.
Qed.

Lemma castles_ok p checked rp m : In m (castles p checked rp) -> emitted_ok p m.
Proof.
  unfold castles. intros H.
  destruct (turn p) eqn:Et; apply in_app_or in H; destruct H as [H|H]; apply castle_try_ok in H; destruct H as (E1 & E2 & E3);
    unfold emitted_ok; rewrite E1; rewrite ?Et; cbn [side_to_N]; try (split; [exact E2|exact E3]); exact E2.
Qed.

Lemma legal_noncaptures_ok p m : In m (legal_noncaptures p) -> emitted_ok p m.
Proof.
  unfold legal_noncaptures. intros H. cbv zeta in H.
  destruct (1 <? bb_count (checkers p)).
  - crush_in H. exact I.
  - apply in_app_or in H. destruct H as [H|H]; [apply pin_scan_normal in H; unfold emitted_ok; rewrite H; exact I|].
    apply in_app_or in H. destruct H as [H|H]; [apply pin_scan_normal in H; unfold emitted_ok; rewrite H; exact I|].
    apply in_app_or in H. destruct H as [H|H]; [apply (pawn_pushes_ok p) in H; [exact H|reflexivity]|].
    apply in_app_or in H. destruct H as [H|H]; [apply piece_quiets_ok in H; exact H|].
    apply in_app_or in H. destruct H as [H|H]; [unfold king_quiets in H; apply normals_from_ok in H; unfold emitted_ok; rewrite H; exact I|].
    apply castles_ok in H. exact H.
Qed.

Theorem legal_moves_emitted_ok p m : In m (legal_moves p) -> emitted_ok p m.
Proof.
  unfold legal_moves, legal_moves_gen. intros H. apply in_app_or in H. destruct H as [H|H].
  - apply (legal_captures_gen_ok true). exact H.
  - apply legal_noncaptures_ok. exact H.
Qed.
Theorem legal_moves_fields_ok p m : In m (legal_moves p) -> move_fields_ok p m.
Proof. intros H. apply emitted_fields_ok, legal_moves_emitted_ok, H. Qed.
Theorem legal_moves_fits_hash p m : In m (legal_moves p) -> fits_hash p m.
Proof. intros H. apply emitted_fits_hash, legal_moves_emitted_ok, H. Qed.

(* ---------- list structure of the generators (no legality involved) ---------- *)
Theorem legal_moves_split p : legal_moves p = legal_captures p ++ legal_noncaptures p.
Proof. reflexivity. Qed.
Theorem legal_moves_into_appends p v : legal_moves_into p v = v ++ legal_moves p.
Proof. unfold legal_moves_into, legal_noncaptures_into, legal_captures_into. rewrite <- app_assoc. reflexivity. Qed.
Theorem count_moves_length p : count_moves p = N.of_nat (length (legal_moves p)).
Proof. reflexivity. Qed.
Theorem is_legal_iff p m : is_legal p m = true <-> In m (legal_moves p).
Proof.
  unfold is_legal. rewrite existsb_exists. split.
  - intros [x [Hx E]]. apply move_eqb_eq in E. subst. exact Hx.
  - intros H. exists m. split; [exact H|apply move_eqb_eq; reflexivity].
Qed.

(* captures are exactly the capturing types, non-captures exactly the others *)
Lemma king_captures_cap p m : In m (king_captures p) -> is_capturing m = true.
Proof. unfold king_captures. intros H. crush_in H. reflexivity. Qed.
Lemma pawn_captures_cap p us ksq occ al pr pa pb ep_bb e m :
  In m (pawn_captures p us ksq occ al pr pa pb ep_bb e) -> is_capturing m = true.
Proof.
  unfold pawn_captures, promo_caps. intros H. destruct us;
    repeat (apply in_app_or in H; destruct H as [H|H]; [crush_in H; reflexivity|]);
    (destruct (bb_nonempty ep_bb && e); [|destruct H]);
    apply in_app_or in H; destruct H as [H|H]; apply ep_try_ok in H; unfold is_capturing; rewrite H; reflexivity.
Qed.
Lemma piece_captures_cap p us al pin pb pr bx rx occ m :
  In m (piece_captures p us al pin pb pr bx rx occ) -> is_capturing m = true.
Proof.
  unfold piece_captures. intros H.
  repeat (apply in_app_or in H; destruct H as [H|H]; [apply in_emit in H; destruct H as [fr [_ H]]; apply caps_from_ok in H; unfold is_capturing; rewrite H; reflexivity|]).
  apply in_emit in H; destruct H as [fr [_ H]]; apply caps_from_ok in H; unfold is_capturing; rewrite H; reflexivity.
Qed.
Theorem legal_captures_capturing p m : In m (legal_captures p) -> is_capturing m = true.
Proof.
  unfold legal_captures, legal_captures_gen. intros H. cbv zeta in H.
  destruct (1 <? bb_count (checkers p)); [apply (king_captures_cap p); exact H|].
  apply in_app_or in H. destruct H as [H|H]; [apply pawn_captures_cap in H; exact H|].
  apply in_app_or in H. destruct H as [H|H]; [apply piece_captures_cap in H; exact H|].
  apply (king_captures_cap p); exact H.
Qed.

Lemma pawn_pushes_quiet us pawns al emp m : In m (pawn_pushes us pawns al emp) -> is_capturing m = false.
Proof. unfold pawn_pushes, promos. intros H. destruct us; crush_in H; reflexivity. Qed.
Lemma piece_quiets_quiet p us np al occ m : In m (piece_quiets p us np al occ) -> is_capturing m = false.
Proof.
  unfold piece_quiets. intros H.
  repeat (apply in_app_or in H; destruct H as [H|H]; [apply in_emit in H; destruct H as [fr [_ H]]; apply normals_from_ok in H; unfold is_capturing; rewrite H; reflexivity|]).
  apply in_emit in H; destruct H as [fr [_ H]]; apply normals_from_ok in H; unfold is_capturing; rewrite H; reflexivity.
Qed.
Theorem legal_noncaptures_quiet p m : In m (legal_noncaptures p) -> is_capturing m = false.
Proof.
  unfold legal_noncaptures. intros H. cbv zeta in H.
  destruct (1 <? bb_count (checkers p)).
  - crush_in H. reflexivity.
  - apply in_app_or in H. destruct H as [H|H]; [apply pin_scan_normal in H; unfold is_capturing; rewrite H; reflexivity|].
    apply in_app_or in H. destruct H as [H|H]; [apply pin_scan_normal in H; unfold is_capturing; rewrite H; reflexivity|].
    apply in_app_or in H. destruct H as [H|H]; [apply pawn_pushes_quiet in H; exact H|].
    apply in_app_or in H. destruct H as [H|H]; [apply piece_quiets_quiet in H; exact H|].
    apply in_app_or in H. destruct H as [H|H]; [unfold king_quiets in H; apply normals_from_ok in H; unfold is_capturing; rewrite H; reflexivity|].
    unfold castles in H. destruct (turn p); apply in_app_or in H; destruct H as [H|H]; apply castle_try_ok in H; destruct H as (E1 & _); unfold is_capturing; rewrite E1; reflexivity.
Qed.
