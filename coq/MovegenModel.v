(* MovegenModel.v — legal_captures.cpp (repaired, D1), legal_noncaptures.cpp, legal_moves.cpp,
   count_moves.cpp, is_legal.cpp, check_evasions.cpp.  Same case structure, same emission order
   as the C++.  Definitions only. *)
From Coq Require Import NArith List Bool.
From LC Require Import Bits Types BitboardModel MoveModel MagicModel PositionModel.
Import ListNotations.
Local Open Scope N_scope.

Definition emit (bb : N) (f : N -> list move) : list move := flat_map f (bb_squares bb).

(* the four unrolled ray lambdas of legal_captures *)
Definition ray_fill (step : N -> N) (sq blockers : N) : N :=
  let nb := not64 blockers in
  let b0 := step (bit sq) in
  let b1 := N.lor b0 (step (N.land b0 nb)) in
  let b2 := N.lor b1 (step (N.land b1 nb)) in
  let b3 := N.lor b2 (step (N.land b2 nb)) in
  let b4 := N.lor b3 (step (N.land b3 nb)) in
  let b5 := N.lor b4 (step (N.land b4 nb)) in
  N.lor b5 (step (N.land b5 nb)).
Definition ray_north_east := ray_fill (fun b => east (north b)).
Definition ray_south_west := ray_fill (fun b => west (south b)).
Definition ray_east := ray_fill east.
Definition ray_west := ray_fill west.

Definition king_captures (p : position) : list move :=
  let us := turn p in let them := opp_side us in let ksq := king_position p us in
  emit (N.land (N.land (king_moves ksq) (king_allowed p)) (occupancy_s p them))
       (fun to => [mkMove Capture ksq to King (piece_on p to) NoPiece]).

Definition promo_caps (fr to : N) (cap : piece) : list move :=
  [mkMove PromoCapture fr to Pawn cap Queen; mkMove PromoCapture fr to Pawn cap Rook;
   mkMove PromoCapture fr to Pawn cap Bishop; mkMove PromoCapture fr to Pawn cap Knight].

(* one en-passant attempt: the ep block's inner if/else *)
Definition ep_try (p : position) (ksq : N) (cond : bool) (blockers rq fr : N) : list move :=
  if cond then
    if bb_nonempty (N.land (ray_east ksq blockers) rq) || bb_nonempty (N.land (ray_west ksq blockers) rq)
    then [] else [mkMove Enpassant fr (ep p) Pawn Pawn NoPiece]
  else [].

(* the "Pawns" block of legal_captures, both colours *)
Definition pawn_captures (p : position) (us : side) (ksq occ allowed pinned_rook pinned_ne_sw pinned_nw_se ep_bb : N)
           (ep_resolves_check : bool) : list move :=
  match us with
  | White =>
    let pawns_ne := N.land (N.land (pieces p us Pawn) (not64 pinned_rook)) (not64 pinned_nw_se) in
    let pawns_nw := N.land (N.land (pieces p us Pawn) (not64 pinned_rook)) (not64 pinned_ne_sw) in
    let promo_ne := N.land pawns_ne Rank7 in
    let promo_nw := N.land pawns_nw Rank7 in
    let nonpromo_ne := N.land pawns_ne (not64 Rank7) in
    let nonpromo_nw := N.land pawns_nw (not64 Rank7) in
    emit (N.land (east (north nonpromo_ne)) allowed)
         (fun sq => [mkMove Capture (sq_west (sq_south sq)) sq Pawn (piece_on p sq) NoPiece]) ++
    emit (N.land (west (north nonpromo_nw)) allowed)
         (fun sq => [mkMove Capture (sq_east (sq_south sq)) sq Pawn (piece_on p sq) NoPiece]) ++
    emit (N.land (east (north promo_ne)) allowed)
         (fun sq => promo_caps (sq_west (sq_south sq)) sq (piece_on p sq)) ++
    emit (N.land (west (north promo_nw)) allowed)
         (fun sq => promo_caps (sq_east (sq_south sq)) sq (piece_on p sq)) ++
    (if bb_nonempty ep_bb && ep_resolves_check then
       let rq := N.lor (pieces p Black Rook) (pieces p Black Queen) in
       ep_try p ksq (bb_nonempty (N.land pawns_nw (east (south ep_bb))))
              (N.lxor (N.lxor (N.lxor occ ep_bb) (south ep_bb)) (east (south ep_bb))) rq
              (sq_east (sq_south (ep p))) ++
       ep_try p ksq (bb_nonempty (N.land pawns_ne (west (south ep_bb))))
              (N.lxor (N.lxor (N.lxor occ ep_bb) (south ep_bb)) (west (south ep_bb))) rq
              (sq_west (sq_south (ep p)))
     else [])
  | Black =>
    let pawns_se := N.land (N.land (pieces p us Pawn) (not64 pinned_rook)) (not64 pinned_ne_sw) in
    let pawns_sw := N.land (N.land (pieces p us Pawn) (not64 pinned_rook)) (not64 pinned_nw_se) in
    let promo_se := N.land pawns_se Rank2 in
    let promo_sw := N.land pawns_sw Rank2 in
    let nonpromo_se := N.land pawns_se (not64 Rank2) in
    let nonpromo_sw := N.land pawns_sw (not64 Rank2) in
    emit (N.land (east (south nonpromo_se)) allowed)
         (fun sq => [mkMove Capture (sq_west (sq_north sq)) sq Pawn (piece_on p sq) NoPiece]) ++
    emit (N.land (west (south nonpromo_sw)) allowed)
         (fun sq => [mkMove Capture (sq_east (sq_north sq)) sq Pawn (piece_on p sq) NoPiece]) ++
    emit (N.land (east (south promo_se)) allowed)
         (fun sq => promo_caps (sq_west (sq_north sq)) sq (piece_on p sq)) ++
    emit (N.land (west (south promo_sw)) allowed)
         (fun sq => promo_caps (sq_east (sq_north sq)) sq (piece_on p sq)) ++
    (if bb_nonempty ep_bb && ep_resolves_check then
       let rq := N.lor (pieces p White Rook) (pieces p White Queen) in
       ep_try p ksq (bb_nonempty (N.land (N.land nonpromo_sw (east (north ep_bb))) (not64 pinned_nw_se)))
              (N.lxor (N.lxor occ (north ep_bb)) (east (north ep_bb))) rq
              (sq_east (sq_north (ep p))) ++
       ep_try p ksq (bb_nonempty (N.land (N.land nonpromo_se (west (north ep_bb))) (not64 pinned_ne_sw)))
              (N.lxor (N.lxor occ (north ep_bb)) (west (north ep_bb))) rq
              (sq_west (sq_north (ep p)))
     else [])
  end.

Definition caps_from (p : position) (pc : piece) (fr : N) (mask : N) : list move :=
  emit mask (fun to => [mkMove Capture fr to pc (piece_on p to) NoPiece]).

(* knights, bishops, rooks, queens of legal_captures *)
Definition piece_captures (p : position) (us : side) (allowed pin pinned_bishop pinned_rook bishop_xrays rook_xrays occ_ne : N) : list move :=
  emit (N.land (pieces p us Knight) (not64 pin))
       (fun fr => caps_from p Knight fr (N.land (knight_moves fr) allowed)) ++
  emit (N.land (pieces p us Bishop) (not64 pin))
       (fun fr => caps_from p Bishop fr (N.land (bishop_moves fr occ_ne) allowed)) ++
  emit (N.land (pieces p us Bishop) pinned_bishop)
       (fun fr => caps_from p Bishop fr (N.land (N.land (bishop_moves fr occ_ne) allowed) bishop_xrays)) ++
  emit (N.land (pieces p us Rook) (not64 pin))
       (fun fr => caps_from p Rook fr (N.land (rook_moves fr occ_ne) allowed)) ++
  emit (N.land (pieces p us Rook) pinned_rook)
       (fun fr => caps_from p Rook fr (N.land (N.land (rook_moves fr occ_ne) allowed) rook_xrays)) ++
  emit (N.land (pieces p us Queen) (not64 pin))
       (fun fr => caps_from p Queen fr (N.land (queen_moves fr occ_ne) allowed)) ++
  emit (N.land (pieces p us Queen) pinned_bishop)
       (fun fr => caps_from p Queen fr (N.land (N.land (bishop_moves fr occ_ne) allowed) bishop_xrays)) ++
  emit (N.land (pieces p us Queen) pinned_rook)
       (fun fr => caps_from p Queen fr (N.land (N.land (rook_moves fr occ_ne) allowed) rook_xrays)).

(* [ep_check_guard] = true : the repaired code (ep only when it resolves the check);
   false : the pinned tree before "fix: en passant must resolve a check" (D1). *)
Definition legal_captures_gen (ep_check_guard : bool) (p : position) : list move :=
  let us := turn p in
  let them := opp_side us in
  let ksq := king_position p us in
  let chk := checkers p in
  let ep_bb := if ep p =? OffSq then 0 else bit (ep p) in
  if 1 <? bb_count chk then king_captures p else
  let allowed := if bb_count chk =? 1 then bit (bb_lsb chk) else occupancy_s p them in
  let occ := occupied p in
  let kfile := file_mask (sq_file ksq) in
  let krank := rank_mask (sq_rank ksq) in
  let pin := pinned p in
  let pinned_horizontal := N.land pin krank in
  let pinned_vertical := N.land pin kfile in
  let pinned_rook := N.lor pinned_horizontal pinned_vertical in
  let pinned_bishop := N.lxor pin pinned_rook in
  let pinned_ne_sw := N.land pinned_bishop (N.lor (ray_north_east ksq occ) (ray_south_west ksq occ)) in
  let pinned_nw_se := N.lxor pinned_bishop pinned_ne_sw in
  let bishop_xrays := bishop_moves ksq (N.lxor occ pinned_bishop) in
  let rook_xrays := rook_moves ksq (N.lxor occ pinned_rook) in
  let ep_victim := match us with White => south ep_bb | Black => north ep_bb end in
  let ep_resolves_check :=
    if ep_check_guard
    then bb_empty chk || bb_nonempty (N.land allowed ep_victim) ||
         bb_nonempty (N.land (squares_between ksq (bb_lsb chk)) ep_bb)
    else true in
  let occ_ne := not64 (empty_sqs p) in
  pawn_captures p us ksq occ allowed pinned_rook pinned_ne_sw pinned_nw_se ep_bb ep_resolves_check ++
  piece_captures p us allowed pin pinned_bishop pinned_rook bishop_xrays rook_xrays occ_ne ++
  king_captures p.

Definition legal_captures := legal_captures_gen true.
Definition legal_captures_orig := legal_captures_gen false.

Definition promos (fr to : N) : list move :=
  [mkMove Promo fr to Pawn NoPiece Queen; mkMove Promo fr to Pawn NoPiece Rook;
   mkMove Promo fr to Pawn NoPiece Bishop; mkMove Promo fr to Pawn NoPiece Knight].

(* one of the two pin-scan loops of legal_noncaptures: returns (pinned set, moves) *)
Definition pin_scan (p : position) (slider_moves : N -> N -> N) (rays : N) (enemy_sliders : N)
           (pc1 : piece) (allowed : N) : N * list move :=
  let us := turn p in let ksq := king_position p us in let occ := occupied p in
  fold_left (fun (acc : N * list move) sq =>
      let bb := bit sq in
      let blockers := N.lxor occ bb in
      let new_rays := slider_moves ksq blockers in
      let discovery := N.lxor new_rays rays in
      let att := N.land discovery enemy_sliders in
      if bb_nonempty att then
        let asq := bb_lsb att in
        let move_mask := N.land (N.lxor (squares_between ksq asq) bb) allowed in
        let mv :=
          if bb_nonempty (N.land bb (pieces p us pc1))
          then emit move_mask (fun to => [mkMove Normal sq to pc1 NoPiece NoPiece])
          else if bb_nonempty (N.land bb (pieces p us Queen))
          then emit move_mask (fun to => [mkMove Normal sq to Queen NoPiece NoPiece])
          else [] in
        (N.lor (fst acc) bb, snd acc ++ mv)
      else acc)
    (bb_squares (N.land (occupancy_s p us) rays)) (0, []).

Definition castle_try (p : position) (checked : bool) (rook_pinned : N) (i : N) (mt : mtype)
           (kto rto : N) (them : side) : list move :=
  let ksq := king_position p (turn p) in
  if negb checked && castling_get p i then
    let rf := rook_from_get p i in
    let blockers := N.lxor (N.lxor (occupied p) (bit ksq)) (bit rf) in
    let king_path := N.land (N.lor (squares_between ksq kto) (bit kto)) (not64 (bit ksq)) in
    let king_path_clear := bb_empty (N.land king_path blockers) in
    let rook_path := N.lor (squares_between rto rf) (bit rto) in
    let rook_path_clear := bb_empty (N.land rook_path blockers) && negb (bb_nonempty (N.land rook_pinned (bit rf))) in
    if king_path_clear && rook_path_clear && negb (bb_nonempty (N.land (squares_attacked p them) king_path))
    then [mkMove mt ksq rf King NoPiece NoPiece] else []
  else [].

Definition normals_from (pc : piece) (fr : N) (mask : N) : list move :=
  emit mask (fun to => [mkMove Normal fr to pc NoPiece NoPiece]).

(* the "Pawns" block of legal_noncaptures *)
Definition pawn_pushes (us : side) (pawns allowed emp : N) : list move :=
  match us with
  | White =>
    let promo := N.land pawns Rank7 in
    let nonpromo := N.land pawns (not64 Rank7) in
    emit (N.land (north nonpromo) allowed) (fun sq => [mkMove Normal (sq_south sq) sq Pawn NoPiece NoPiece]) ++
    emit (N.land (north promo) allowed) (fun sq => promos (sq_south sq) sq) ++
    emit (N.land (N.land (north (N.land emp (north pawns))) Rank4) allowed)
         (fun sq => [mkMove Double (sq_south (sq_south sq)) sq Pawn NoPiece NoPiece])
  | Black =>
    let promo := N.land pawns Rank2 in
    let nonpromo := N.land pawns (not64 Rank2) in
    emit (N.land (south nonpromo) allowed) (fun sq => [mkMove Normal (sq_north sq) sq Pawn NoPiece NoPiece]) ++
    emit (N.land (south promo) allowed) (fun sq => promos (sq_north sq) sq) ++
    emit (N.land (N.land (south (N.land emp (south pawns))) Rank5) allowed)
         (fun sq => [mkMove Double (sq_north (sq_north sq)) sq Pawn NoPiece NoPiece])
  end.

(* knights, bishops, rooks, queens of legal_noncaptures *)
Definition piece_quiets (p : position) (us : side) (nonpinned_pieces allowed occ_ne : N) : list move :=
  emit (N.land (pieces p us Knight) nonpinned_pieces) (fun fr => normals_from Knight fr (N.land (knight_moves fr) allowed)) ++
  emit (N.land (pieces p us Bishop) nonpinned_pieces) (fun fr => normals_from Bishop fr (N.land (bishop_moves fr occ_ne) allowed)) ++
  emit (N.land (pieces p us Rook) nonpinned_pieces) (fun fr => normals_from Rook fr (N.land (rook_moves fr occ_ne) allowed)) ++
  emit (N.land (pieces p us Queen) nonpinned_pieces) (fun fr => normals_from Queen fr (N.land (queen_moves fr occ_ne) allowed)).

Definition king_quiets (p : position) : list move :=
  let ksq := king_position p (turn p) in
  normals_from King ksq (N.land (N.land (king_moves ksq) (king_allowed p)) (empty_sqs p)).

Definition castles (p : position) (checked : bool) (rook_pinned : N) : list move :=
  match turn p with
  | White => castle_try p checked rook_pinned 0 Ksc 6 5 Black ++ castle_try p checked rook_pinned 1 Qsc 2 3 Black
  | Black => castle_try p checked rook_pinned 2 Ksc 62 61 White ++ castle_try p checked rook_pinned 3 Qsc 58 59 White
  end.

Definition legal_noncaptures (p : position) : list move :=
  let us := turn p in
  let them := opp_side us in
  let ch := checkers p in
  let checked := negb (bb_empty ch) in
  let ksq := king_position p us in
  let krank := rank_mask (sq_rank ksq) in
  let emp := empty_sqs p in
  if 1 <? bb_count ch then
    emit (pieces p us King) (fun fr =>
      emit (N.land emp (N.land (king_moves fr) (king_allowed p)))
           (fun to => [mkMove Normal fr to King NoPiece NoPiece]))
  else
  let allowed := if bb_count ch =? 1 then squares_between ksq (bb_lsb ch) else emp in
  let occ := occupied p in
  let bishop_rays := bishop_moves ksq occ in
  let rook_rays := rook_moves ksq occ in
  let bscan := pin_scan p bishop_moves bishop_rays (N.lor (pieces p them Bishop) (pieces p them Queen)) Bishop allowed in
  let rscan := pin_scan p rook_moves rook_rays (N.lor (pieces p them Rook) (pieces p them Queen)) Rook allowed in
  let bishop_pinned := fst bscan in
  let rook_pinned := fst rscan in
  let horizontal_pinned := N.land rook_pinned krank in
  let pinned_pieces := N.lor rook_pinned bishop_pinned in
  let nonpinned_pieces := N.lxor (occupancy_s p us) pinned_pieces in
  let pawns := N.land (pieces p us Pawn) (not64 (N.lor horizontal_pinned bishop_pinned)) in
  let occ_ne := not64 emp in
  snd bscan ++ snd rscan ++ pawn_pushes us pawns allowed emp ++
  piece_quiets p us nonpinned_pieces allowed occ_ne ++
  king_quiets p ++
  castles p checked rook_pinned.

(* legal_moves(): captures then non-captures; the vector overloads append *)
Definition legal_moves_gen (g : bool) (p : position) : list move := legal_captures_gen g p ++ legal_noncaptures p.
Definition legal_moves := legal_moves_gen true.
Definition legal_captures_into (p : position) (v : list move) : list move := v ++ legal_captures p.
Definition legal_noncaptures_into (p : position) (v : list move) : list move := v ++ legal_noncaptures p.
Definition legal_moves_into (p : position) (v : list move) : list move :=
  legal_noncaptures_into p (legal_captures_into p v).
Definition count_moves (p : position) : N := N.of_nat (length (legal_moves p)).
Definition is_legal (p : position) (m : move) : bool := existsb (fun x => move_eqb x m) (legal_moves p).

Definition check_evasions (p : position) : list move :=
  let ksq := king_position p (turn p) in
  let safe := king_allowed_s p (turn p) in
  let mask := N.land (king_moves ksq) safe in
  emit (N.land (occupancy_s p (opp_side (turn p))) mask) (fun to => [mkMove Capture ksq to King (piece_on p to) NoPiece]) ++
  emit (N.land (empty_sqs p) mask) (fun to => [mkMove Normal ksq to King NoPiece NoPiece]).
