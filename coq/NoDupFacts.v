(* NoDupFacts.v — C01: outside double check every named part of the generators emits only its own class of move
   (piece and move type), no part emits a move twice, and legal_moves has no repeated move. *)
From Coq Require Import NArith ZArith List Bool Lia.
From Coq Require Import ZifyBool ZifyN ZifyNat.
From LC Require Import Bits BitsFacts Types BitboardModel BitboardFacts MoveModel MoveFacts MagicModel MagicFacts HashFacts PositionModel MovegenModel MovegenFacts BoardFacts
  Spec.Rules Refine.Abs Refine.Board Refine.Make Refine.Wf Refine.MakeAbs Refine.SpecFits AttackFacts PinFacts KingFacts SafetyFacts LegalFacts LegalCore PinScanFacts PieceExact.
Import ListNotations.
Local Open Scope N_scope.
Local Strategy 1000 [squares all64 seq].

(* ---------- list and bitboard tools ---------- *)
Lemma in_emit_bit (m : move) bb g : In m (emit bb g) -> exists sq, N.testbit bb sq = true /\ In m (g sq).
Proof. intros H. apply in_emit in H. destruct H as [sq [Hs H]]. exists sq. split; [apply bits_sound; exact Hs|exact H]. Qed.

Lemma testbit_lt64 bb sq : bb < two64 -> N.testbit bb sq = true -> sq < 64.
Proof. intros Hb H. destruct (N.lt_ge_cases sq 64) as [L|L]; [exact L|]. rewrite (proj1 (lt64_iff bb) Hb sq L) in H. discriminate. Qed.

(* ====================================================================== *)
(* 1. LABELS                                                              *)
(* ====================================================================== *)

Lemma promo_caps_label fr t cp m : In m (promo_caps fr t cp) ->
  m_type m = PromoCapture /\ m_from m = fr /\ m_to m = t /\ m_piece m = Pawn.
Proof. unfold promo_caps. intros H. repeat (destruct H as [<-|H]; [repeat split|]). destruct H. Qed.

Lemma promos_label fr t m : In m (promos fr t) ->
  m_type m = Promo /\ m_from m = fr /\ m_to m = t /\ m_piece m = Pawn.
Proof. unfold promos. intros H. repeat (destruct H as [<-|H]; [repeat split|]). destruct H. Qed.

Lemma ep_try_label p ksq c bl rq fr m : In m (ep_try p ksq c bl rq fr) -> m_type m = Enpassant /\ m_piece m = Pawn /\ m_from m = fr.
Proof. unfold ep_try. intros H. destruct c; [|destruct H]. destruct (_ || _); [destruct H|]. destruct H as [<-|[]]. repeat split. Qed.

Lemma pawn_captures_label p us ksq occ al pr pa pb ep_bb e m :
  In m (pawn_captures p us ksq occ al pr pa pb ep_bb e) ->
  m_piece m = Pawn /\ (m_type m = Capture \/ m_type m = PromoCapture \/ m_type m = Enpassant).
Proof.
  unfold pawn_captures. intros H. destruct us.
  - apply in_app_or in H. destruct H as [H|H]; [apply in_emit in H; destruct H as [sq [_ [<-|[]]]]; split; [reflexivity|left; reflexivity]|].
    apply in_app_or in H. destruct H as [H|H]; [apply in_emit in H; destruct H as [sq [_ [<-|[]]]]; split; [reflexivity|left; reflexivity]|].
    apply in_app_or in H. destruct H as [H|H]; [apply in_emit in H; destruct H as [sq [_ H]]; apply promo_caps_label in H; destruct H as (E1 & _ & _ & E2); split; [exact E2|right; left; exact E1]|].
    apply in_app_or in H. destruct H as [H|H]; [apply in_emit in H; destruct H as [sq [_ H]]; apply promo_caps_label in H; destruct H as (E1 & _ & _ & E2); split; [exact E2|right; left; exact E1]|].
    destruct (bb_nonempty ep_bb && e); [|destruct H].
    apply in_app_or in H. destruct H as [H|H]; apply ep_try_label in H; destruct H as (E1 & E2 & _); (split; [exact E2|right; right; exact E1]).
  - apply in_app_or in H. destruct H as [H|H]; [apply in_emit in H; destruct H as [sq [_ [<-|[]]]]; split; [reflexivity|left; reflexivity]|].
    apply in_app_or in H. destruct H as [H|H]; [apply in_emit in H; destruct H as [sq [_ [<-|[]]]]; split; [reflexivity|left; reflexivity]|].
    apply in_app_or in H. destruct H as [H|H]; [apply in_emit in H; destruct H as [sq [_ H]]; apply promo_caps_label in H; destruct H as (E1 & _ & _ & E2); split; [exact E2|right; left; exact E1]|].
    apply in_app_or in H. destruct H as [H|H]; [apply in_emit in H; destruct H as [sq [_ H]]; apply promo_caps_label in H; destruct H as (E1 & _ & _ & E2); split; [exact E2|right; left; exact E1]|].
    destruct (bb_nonempty ep_bb && e); [|destruct H].
    apply in_app_or in H. destruct H as [H|H]; apply ep_try_label in H; destruct H as (E1 & E2 & _); (split; [exact E2|right; right; exact E1]).
Qed.

Theorem g_pawn_caps_label p m : In m (g_pawn_caps p) ->
  m_piece m = Pawn /\ (m_type m = Capture \/ m_type m = PromoCapture \/ m_type m = Enpassant).
Proof. unfold g_pawn_caps. apply pawn_captures_label. Qed.

Lemma pawn_pushes_label us pawns al emp m : In m (pawn_pushes us pawns al emp) ->
  m_piece m = Pawn /\ (m_type m = Normal \/ m_type m = Double \/ m_type m = Promo).
Proof.
  unfold pawn_pushes. intros H. destruct us.
  - apply in_app_or in H. destruct H as [H|H]; [apply in_emit in H; destruct H as [sq [_ [<-|[]]]]; split; [reflexivity|left; reflexivity]|].
    apply in_app_or in H. destruct H as [H|H]; [apply in_emit in H; destruct H as [sq [_ H]]; apply promos_label in H; destruct H as (E1 & _ & _ & E2); split; [exact E2|right; right; exact E1]|].
    apply in_emit in H; destruct H as [sq [_ [<-|[]]]]; split; [reflexivity|right; left; reflexivity].
  - apply in_app_or in H. destruct H as [H|H]; [apply in_emit in H; destruct H as [sq [_ [<-|[]]]]; split; [reflexivity|left; reflexivity]|].
    apply in_app_or in H. destruct H as [H|H]; [apply in_emit in H; destruct H as [sq [_ H]]; apply promos_label in H; destruct H as (E1 & _ & _ & E2); split; [exact E2|right; right; exact E1]|].
    apply in_emit in H; destruct H as [sq [_ [<-|[]]]]; split; [reflexivity|right; left; reflexivity].
Qed.

Theorem g_pawn_pushes_label p m : In m (g_pawn_pushes p) ->
  m_piece m = Pawn /\ (m_type m = Normal \/ m_type m = Double \/ m_type m = Promo).
Proof. unfold g_pawn_pushes. apply pawn_pushes_label. Qed.

(* one emit of piece_captures / piece_quiets: type, piece, and the origin is a member of the origin set *)
Lemma caps_emit_tag p pc S (M : N -> N) m : In m (emit S (fun fr => caps_from p pc fr (M fr))) ->
  m_type m = Capture /\ m_piece m = pc /\ N.testbit S (m_from m) = true.
Proof.
  intros H. apply in_emit_bit in H. destruct H as [fr [Hb H]]. unfold caps_from in H. apply in_emit in H. destruct H as [t [_ [<-|[]]]].
  repeat split. exact Hb.
Qed.

Lemma normals_emit_tag pc S (M : N -> N) m : In m (emit S (fun fr => normals_from pc fr (M fr))) ->
  m_type m = Normal /\ m_piece m = pc /\ N.testbit S (m_from m) = true.
Proof.
  intros H. apply in_emit_bit in H. destruct H as [fr [Hb H]]. unfold normals_from in H. apply in_emit in H. destruct H as [t [_ [<-|[]]]].
  repeat split. exact Hb.
Qed.

Lemma piece_captures_label p us al pin pb pr bx rx occ m :
  In m (piece_captures p us al pin pb pr bx rx occ) -> officer (m_piece m) = true /\ m_type m = Capture.
Proof.
  unfold piece_captures. intros H.
  repeat (apply in_app_or in H; destruct H as [H|H]; [apply caps_emit_tag in H; destruct H as (E1 & E2 & _); rewrite E2; split; [reflexivity|exact E1]|]).
  apply caps_emit_tag in H; destruct H as (E1 & E2 & _); rewrite E2; split; [reflexivity|exact E1].
Qed.

Theorem g_piece_caps_label p m : In m (g_piece_caps p) -> officer (m_piece m) = true /\ m_type m = Capture.
Proof. unfold g_piece_caps. apply piece_captures_label. Qed.

Lemma piece_quiets_label p us np al occ m :
  In m (piece_quiets p us np al occ) -> officer (m_piece m) = true /\ m_type m = Normal.
Proof.
  unfold piece_quiets. intros H.
  repeat (apply in_app_or in H; destruct H as [H|H]; [apply normals_emit_tag in H; destruct H as (E1 & E2 & _); rewrite E2; split; [reflexivity|exact E1]|]).
  apply normals_emit_tag in H; destruct H as (E1 & E2 & _); rewrite E2; split; [reflexivity|exact E1].
Qed.

Lemma scan_mv_piece p pc1 allowed k a n m : In m (scan_mv p pc1 allowed k a n) -> m_piece m = pc1 \/ m_piece m = Queen.
Proof.
  unfold scan_mv. intros H. destruct (bb_nonempty _).
  - apply in_emit in H. destruct H as [t [_ [<-|[]]]]. left. reflexivity.
  - destruct (bb_nonempty _); [|destruct H]. apply in_emit in H. destruct H as [t [_ [<-|[]]]]. right. reflexivity.
Qed.

Lemma pin_scan_piece p (moves : N -> N -> N) sliders pc1 allowed m :
  In m (snd (pin_scan p moves (moves (king_position p (turn p)) (occupied p)) sliders pc1 allowed)) -> m_piece m = pc1 \/ m_piece m = Queen.
Proof.
  rewrite pin_scan_eq. cbn [snd]. intros H. apply in_flat_map in H. destruct H as [n [_ H]].
  destruct (bb_nonempty _); [|destruct H]. apply scan_mv_piece in H. exact H.
Qed.

Theorem g_bscan_label p m : In m (snd (g_bscan p)) -> officer (m_piece m) = true /\ m_type m = Normal.
Proof.
  intros H. split; [|apply pin_scan_normal in H; exact H]. unfold g_bscan in H. apply pin_scan_piece in H. destruct H as [-> | ->]; reflexivity.
Qed.
Theorem g_rscan_label p m : In m (snd (g_rscan p)) -> officer (m_piece m) = true /\ m_type m = Normal.
Proof.
  intros H. split; [|apply pin_scan_normal in H; exact H]. unfold g_rscan in H. apply pin_scan_piece in H. destruct H as [-> | ->]; reflexivity.
Qed.

Theorem g_quiet_officers_label p m : In m (snd (g_bscan p)) \/ In m (snd (g_rscan p)) \/ In m (g_piece_quiets p) ->
  officer (m_piece m) = true /\ m_type m = Normal.
Proof.
  intros [H|[H|H]]; [apply (g_bscan_label p); exact H|apply (g_rscan_label p); exact H|unfold g_piece_quiets in H; apply piece_quiets_label in H; exact H].
Qed.

Theorem king_captures_label p m : In m (king_captures p) -> m_piece m = King /\ m_type m = Capture.
Proof. unfold king_captures. intros H. apply in_emit in H. destruct H as [t [_ [<-|[]]]]. split; reflexivity. Qed.

Theorem king_quiets_label p m : In m (king_quiets p) -> m_piece m = King /\ m_type m = Normal.
Proof. unfold king_quiets, normals_from. intros H. apply in_emit in H. destruct H as [t [_ [<-|[]]]]. split; reflexivity. Qed.

Theorem g_castles_label p m : In m (g_castles p) -> m_piece m = King /\ (m_type m = Ksc \/ m_type m = Qsc).
Proof.
  unfold g_castles, castles. intros H.
  destruct (turn p); apply in_app_or in H; destruct H as [H|H]; apply castle_try_ok in H; destruct H as (E1 & E2 & _); (split; [exact E2|]); [left|right|left|right]; exact E1.
Qed.

(* ====================================================================== *)
(* 2. NoDup of each part                                                  *)
(* ====================================================================== *)
Ltac Zify.zify_post_hook ::= Z.div_mod_to_equations.

Lemma land_lt_r a b : b < two64 -> N.land a b < two64.
Proof. intros H. rewrite N.land_comm. apply land_lt. exact H. Qed.

Lemma Rank2_lt : Rank2 < two64. Proof. reflexivity. Qed.
Lemma Rank4_lt : Rank4 < two64. Proof. reflexivity. Qed.
Lemma Rank5_lt : Rank5 < two64. Proof. reflexivity. Qed.
Lemma Rank7_lt : Rank7 < two64. Proof. reflexivity. Qed.

Lemma knight_moves_lt fr : fr < 64 -> knight_moves fr < two64.
Proof.
  intros Hs. pose proof (forallb_all64 _ leaper_sweep fr Hs) as H. apply andb_true_iff in H. destruct H as [H _].
  apply andb_true_iff in H. destruct H as [_ H]. apply N.ltb_lt in H. exact H.
Qed.
Lemma queen_moves_lt fr occ : queen_moves fr occ < two64.
Proof. unfold queen_moves. apply lor_lt; [apply bishop_moves_lt|apply rook_moves_lt]. Qed.

Ltac lt64 :=
  first [ assumption | apply not64_lt | apply bit_lt | apply north_lt | apply east_lt | apply pinned_lt
        | apply bishop_moves_lt | apply rook_moves_lt | apply queen_moves_lt
        | apply Rank2_lt | apply Rank4_lt | apply Rank5_lt | apply Rank7_lt
        | apply g_bishop_pinned_lt | apply g_rook_pinned_lt
        | apply south_lt; lt64 | apply west_lt; lt64
        | apply land_lt; lt64 | apply land_lt_r; lt64
        | apply lor_lt; [lt64|lt64] | apply lxor_lt; [lt64|lt64] ].

Lemma emit_nodup bb (g : N -> list move) : bb < two64 ->
  (forall sq, sq < 64 -> N.testbit bb sq = true -> NoDup (g sq)) ->
  (forall a b m, In m (g a) -> In m (g b) -> a = b) ->
  NoDup (emit bb g).
Proof.
  intros Hbb Hg Hd. unfold emit. apply NoDup_flat_map.
  - apply nodup_bb_squares. exact Hbb.
  - intros n Hn. unfold bb_squares in Hn. apply (bits_spec bb n Hbb) in Hn. apply Hg; [apply (testbit_lt64 bb); assumption|exact Hn].
  - intros n n' m _ _. apply Hd.
Qed.

Lemma in_emit_single (m : move) bb (g : N -> move) : In m (emit bb (fun sq => [g sq])) -> exists sq, m = g sq.
Proof. intros H. apply in_emit in H. destruct H as [sq [_ [<-|[]]]]. exists sq. reflexivity. Qed.

Lemma nodup_one {A} (x : A) : NoDup [x].
Proof. constructor; [intros []|constructor]. Qed.

Lemma u8_mod x : u8 x = x mod 256.
Proof. unfold u8. change 255 with (N.ones 8). rewrite N.land_ones. reflexivity. Qed.
Lemma west_east_ne x : sq_west x <> sq_east x.
Proof. unfold sq_west, sq_east. rewrite !u8_mod. lia. Qed.

(* ---------- the king ---------- *)
Lemma king_mask_lt p : N.land (king_moves (king_position p (turn p))) (king_allowed p) < two64.
Proof. apply land_lt_r. unfold king_allowed. rewrite king_allowed_union. apply not64_lt. Qed.

Theorem king_captures_nodup p : NoDup (king_captures p).
Proof.
  unfold king_captures. cbv zeta.
  apply (emit_single_nodup _ (fun to => mkMove Capture (king_position p (turn p)) to King (piece_on p to) NoPiece)); [apply land_lt, king_mask_lt|].
  intros a b E. inversion E. reflexivity.
Qed.

Theorem king_quiets_nodup p : NoDup (king_quiets p).
Proof.
  unfold king_quiets, normals_from. cbv zeta.
  apply (emit_single_nodup _ (fun to => mkMove Normal (king_position p (turn p)) to King NoPiece NoPiece)); [apply land_lt, king_mask_lt|].
  intros a b E. inversion E. reflexivity.
Qed.

(* ---------- castling ---------- *)
Lemma castle_try_nodup p checked rp i mt kto rto them : NoDup (castle_try p checked rp i mt kto rto them).
Proof.
  unfold castle_try. cbv zeta.
  repeat match goal with |- NoDup (if ?c then _ else _) => destruct c end; first [apply nodup_one|constructor].
Qed.

Theorem g_castles_nodup p : NoDup (g_castles p).
Proof.
  unfold g_castles, castles. destruct (turn p); (apply NoDup_app_intro; [apply castle_try_nodup|apply castle_try_nodup|]);
    intros m H1 H2; apply castle_try_ok in H1; apply castle_try_ok in H2; destruct H1 as [E1 _]; destruct H2 as [E2 _]; congruence.
Qed.

(* ---------- pawn pushes ---------- *)
Lemma promos_nodup fr t : NoDup (promos fr t).
Proof. unfold promos. repeat (constructor; [cbn [In]; intros H; repeat (destruct H as [H|H]; [discriminate H|]); exact H|]). constructor. Qed.

Lemma promo_caps_nodup fr t cp : NoDup (promo_caps fr t cp).
Proof. unfold promo_caps. repeat (constructor; [cbn [In]; intros H; repeat (destruct H as [H|H]; [discriminate H|]); exact H|]). constructor. Qed.

Lemma pushes_shape_nodup A B C (fs : N -> N) : A < two64 -> B < two64 -> C < two64 ->
  NoDup (emit A (fun sq => [mkMove Normal (fs sq) sq Pawn NoPiece NoPiece]) ++
         emit B (fun sq => promos (fs sq) sq) ++
         emit C (fun sq => [mkMove Double (fs (fs sq)) sq Pawn NoPiece NoPiece])).
Proof.
  intros HA HB HC. apply NoDup_app_intro; [| apply NoDup_app_intro |].
  - apply (emit_single_nodup _ (fun sq => mkMove Normal (fs sq) sq Pawn NoPiece NoPiece) HA). intros a b E. inversion E. reflexivity.
  - apply emit_nodup; [exact HB|intros; apply promos_nodup|].
    intros a b m H1 H2. apply promos_label in H1. apply promos_label in H2. destruct H1 as (_ & _ & E1 & _). destruct H2 as (_ & _ & E2 & _). congruence.
  - apply (emit_single_nodup _ (fun sq => mkMove Double (fs (fs sq)) sq Pawn NoPiece NoPiece) HC). intros a b E. inversion E. reflexivity.
  - intros m H1 H2. apply in_emit in H1. destruct H1 as [a [_ H1]]. apply promos_label in H1. destruct H1 as (E1 & _).
    apply in_emit_single in H2. destruct H2 as [b ->]. discriminate E1.
  - intros m H1 H2. apply in_emit_single in H1. destruct H1 as [a ->].
    apply in_app_or in H2. destruct H2 as [H2|H2].
    + apply in_emit in H2. destruct H2 as [b [_ H2]]. apply promos_label in H2. destruct H2 as (E2 & _). discriminate E2.
    + apply in_emit_single in H2. destruct H2 as [b E]. discriminate E.
Qed.

Lemma pawn_pushes_nodup us pawns al emp : pawns < two64 -> NoDup (pawn_pushes us pawns al emp).
Proof.
  intros Hp. unfold pawn_pushes. destruct us; cbv zeta.
  - apply (pushes_shape_nodup _ _ _ sq_south); lt64.
  - apply (pushes_shape_nodup _ _ _ sq_north); lt64.
Qed.

Lemma g_push_pawns_lt p : g_push_pawns p < two64.
Proof. unfold g_push_pawns. lt64. Qed.

Theorem g_pawn_pushes_nodup p : NoDup (g_pawn_pushes p).
Proof. unfold g_pawn_pushes. apply pawn_pushes_nodup, g_push_pawns_lt. Qed.

(* ---------- pawn captures ---------- *)
Lemma ep_try_nodup p ksq c bl rq fr : NoDup (ep_try p ksq c bl rq fr).
Proof. unfold ep_try. repeat match goal with |- NoDup (if ?c then _ else _) => destruct c end; first [apply nodup_one|constructor]. Qed.

Lemma caps_shape_nodup A B C D (fs : N -> N) (cap : N -> piece) (EPl : list move) :
  A < two64 -> B < two64 -> C < two64 -> D < two64 -> NoDup EPl -> (forall m, In m EPl -> m_type m = Enpassant) ->
  NoDup (emit A (fun sq => [mkMove Capture (sq_west (fs sq)) sq Pawn (cap sq) NoPiece]) ++
         emit B (fun sq => [mkMove Capture (sq_east (fs sq)) sq Pawn (cap sq) NoPiece]) ++
         emit C (fun sq => promo_caps (sq_west (fs sq)) sq (cap sq)) ++
         emit D (fun sq => promo_caps (sq_east (fs sq)) sq (cap sq)) ++ EPl).
Proof.
  intros HA HB HC HD HE HEt.
  assert (Single : forall (g : N -> move) m X, In m (emit X (fun sq => [g sq])) -> exists sq, m = g sq) by (intros; eapply in_emit_single; eassumption).
  assert (Promo : forall (g : N -> N) m X, In m (emit X (fun sq => promo_caps (g sq) sq (cap sq))) -> m_type m = PromoCapture /\ m_from m = g (m_to m)).
  { intros g m X H. apply in_emit in H. destruct H as [a [_ H]]. apply promo_caps_label in H. destruct H as (E1 & E2 & E3 & _). rewrite E3. split; assumption. }
  apply NoDup_app_intro; [| apply NoDup_app_intro; [| apply NoDup_app_intro; [| apply NoDup_app_intro |] |] |].
  - apply (emit_single_nodup _ (fun sq => mkMove Capture (sq_west (fs sq)) sq Pawn (cap sq) NoPiece) HA). intros a b E. inversion E. reflexivity.
  - apply (emit_single_nodup _ (fun sq => mkMove Capture (sq_east (fs sq)) sq Pawn (cap sq) NoPiece) HB). intros a b E. inversion E. reflexivity.
  - apply emit_nodup; [exact HC|intros; apply promo_caps_nodup|].
    intros a b m H1 H2. apply promo_caps_label in H1. apply promo_caps_label in H2. destruct H1 as (_ & _ & E1 & _). destruct H2 as (_ & _ & E2 & _). congruence.
  - apply emit_nodup; [exact HD|intros; apply promo_caps_nodup|].
    intros a b m H1 H2. apply promo_caps_label in H1. apply promo_caps_label in H2. destruct H1 as (_ & _ & E1 & _). destruct H2 as (_ & _ & E2 & _). congruence.
  - exact HE.
  - (* D vs EP *) intros m H1 H2. apply Promo in H1. apply HEt in H2. destruct H1 as [E1 _]. congruence.
  - (* C vs D ++ EP *) intros m H1 H2. apply Promo in H1. destruct H1 as [T1 F1]. apply in_app_or in H2. destruct H2 as [H2|H2].
    + apply Promo in H2. destruct H2 as [_ F2]. rewrite F1 in F2. exact (west_east_ne _ F2).
    + apply HEt in H2. congruence.
  - (* B vs C ++ D ++ EP *) intros m H1 H2. apply Single in H1. destruct H1 as [a ->].
    apply in_app_or in H2. destruct H2 as [H2|H2]; [apply Promo in H2; destruct H2 as [E _]; discriminate E|].
    apply in_app_or in H2. destruct H2 as [H2|H2]; [apply Promo in H2; destruct H2 as [E _]; discriminate E|].
    apply HEt in H2. discriminate H2.
  - (* A vs the rest *) intros m H1 H2. apply Single in H1. destruct H1 as [a ->].
    apply in_app_or in H2. destruct H2 as [H2|H2].
    { apply Single in H2. destruct H2 as [b E]. inversion E as [[E1 E2]]. subst b. exact (west_east_ne _ E1). }
    apply in_app_or in H2. destruct H2 as [H2|H2]; [apply Promo in H2; destruct H2 as [E _]; discriminate E|].
    apply in_app_or in H2. destruct H2 as [H2|H2]; [apply Promo in H2; destruct H2 as [E _]; discriminate E|].
    apply HEt in H2. discriminate H2.
Qed.

Lemma ep_pair_nodup p ksq c1 bl1 rq c2 bl2 x : 
  NoDup (ep_try p ksq c1 bl1 rq (sq_east x) ++ ep_try p ksq c2 bl2 rq (sq_west x)).
Proof.
  apply NoDup_app_intro; [apply ep_try_nodup|apply ep_try_nodup|].
  intros m H1 H2. apply ep_try_label in H1. apply ep_try_label in H2. destruct H1 as (_ & _ & F1). destruct H2 as (_ & _ & F2).
  rewrite F1 in F2. symmetry in F2. exact (west_east_ne _ F2).
Qed.

Lemma pawn_captures_nodup p us ksq occ al pr pa pb ep_bb e :
  NoDup (pawn_captures p us ksq occ al pr pa pb ep_bb e).
Proof.
  unfold pawn_captures. destruct us; cbv zeta.
  - apply (caps_shape_nodup _ _ _ _ sq_south (piece_on p)); try lt64.
    + destruct (bb_nonempty ep_bb && e); [apply ep_pair_nodup|constructor].
    + intros m H. destruct (bb_nonempty ep_bb && e); [|destruct H]. apply in_app_or in H. destruct H as [H|H]; apply ep_try_label in H; destruct H as [H _]; exact H.
  - apply (caps_shape_nodup _ _ _ _ sq_north (piece_on p)); try lt64.
    + destruct (bb_nonempty ep_bb && e); [apply ep_pair_nodup|constructor].
    + intros m H. destruct (bb_nonempty ep_bb && e); [|destruct H]. apply in_app_or in H. destruct H as [H|H]; apply ep_try_label in H; destruct H as [H _]; exact H.
Qed.

Theorem g_pawn_caps_nodup p : NoDup (g_pawn_caps p).
Proof. unfold g_pawn_caps. apply pawn_captures_nodup. Qed.

(* ---------- officers' captures ---------- *)
Lemma caps_from_nodup p pc fr mask : mask < two64 -> NoDup (caps_from p pc fr mask).
Proof.
  intros Hm. unfold caps_from. apply (emit_single_nodup _ (fun to => mkMove Capture fr to pc (piece_on p to) NoPiece) Hm).
  intros a b E. inversion E. reflexivity.
Qed.
Lemma caps_from_from p pc fr mask m : In m (caps_from p pc fr mask) -> m_from m = fr.
Proof. unfold caps_from. intros H. apply in_emit in H. destruct H as [t [_ [<-|[]]]]. reflexivity. Qed.

Lemma caps_emit_nodup p pc S (M : N -> N) : S < two64 -> (forall fr, fr < 64 -> M fr < two64) ->
  NoDup (emit S (fun fr => caps_from p pc fr (M fr))).
Proof.
  intros HS HM. apply emit_nodup; [exact HS|intros fr Hfr _; apply caps_from_nodup, HM, Hfr|].
  intros a b m H1 H2. apply caps_from_from in H1. apply caps_from_from in H2. congruence.
Qed.

Lemma normals_from_nodup pc fr mask : mask < two64 -> NoDup (normals_from pc fr mask).
Proof.
  intros Hm. unfold normals_from. apply (emit_single_nodup _ (fun to => mkMove Normal fr to pc NoPiece NoPiece) Hm).
  intros a b E. inversion E. reflexivity.
Qed.
Lemma normals_from_from pc fr mask m : In m (normals_from pc fr mask) -> m_from m = fr.
Proof. unfold normals_from. intros H. apply in_emit in H. destruct H as [t [_ [<-|[]]]]. reflexivity. Qed.

Lemma normals_emit_nodup pc S (M : N -> N) : S < two64 -> (forall fr, fr < 64 -> M fr < two64) ->
  NoDup (emit S (fun fr => normals_from pc fr (M fr))).
Proof.
  intros HS HM. apply emit_nodup; [exact HS|intros fr Hfr _; apply normals_from_nodup, HM, Hfr|].
  intros a b m H1 H2. apply normals_from_from in H1. apply normals_from_from in H2. congruence.
Qed.

Lemma notpin_excl pin x : N.testbit (not64 pin) x = true -> N.testbit pin x = true -> False.
Proof. rewrite not64_spec. intros H1 H2. rewrite H2 in H1. apply andb_true_iff in H1. destruct H1 as [_ H1]. discriminate H1. Qed.

Ltac split_in H := repeat match type of H with In _ (_ ++ _) => apply in_app_or in H; destruct H as [H|H] end.

Lemma piece_captures_nodup p us al pin pb pr bx rx occ :
  pin < two64 -> pb < two64 -> pr < two64 ->
  (forall x, N.testbit pb x = true -> N.testbit pin x = true) ->
  (forall x, N.testbit pr x = true -> N.testbit pin x = true) ->
  (forall x, N.testbit pb x = true -> N.testbit pr x = true -> False) ->
  NoDup (piece_captures p us al pin pb pr bx rx occ).
Proof.
  intros Hpin Hpb Hpr Sb Sr Dbr. unfold piece_captures.
  assert (Hkn : forall fr, fr < 64 -> knight_moves fr < two64) by exact knight_moves_lt.
  repeat (apply NoDup_app_intro;
    [ apply caps_emit_nodup; [lt64|intros fr Hfr; first [lt64|apply land_lt, Hkn, Hfr]]
    |
    | intros m H1 H2; apply caps_emit_tag in H1; destruct H1 as (_ & P1 & B1); split_in H2;
      apply caps_emit_tag in H2; destruct H2 as (_ & P2 & B2);
      (first [ congruence
             | rewrite N.land_spec in B1, B2; apply andb_true_iff in B1, B2; destruct B1 as [_ B1]; destruct B2 as [_ B2];
               first [ apply (notpin_excl pin (m_from m) B1); first [apply Sb; exact B2|apply Sr; exact B2]
                     | exact (Dbr _ B1 B2) ] ]) ]).
  apply caps_emit_nodup; [lt64|intros fr Hfr; first [lt64|apply land_lt, Hkn, Hfr]].
Qed.

(* bit facts on the pin sets of legal_captures *)
Lemma pinned_rook_sub p x : N.testbit (g_pinned_rook p) x = true -> N.testbit (g_pin p) x = true.
Proof.
  unfold g_pinned_rook. rewrite N.lor_spec, !N.land_spec. destruct (N.testbit (g_pin p) x); [reflexivity|]. cbn [andb orb]. intros H. exact H.
Qed.
Lemma pinned_bishop_sub p x : N.testbit (g_pinned_bishop p) x = true -> N.testbit (g_pin p) x = true.
Proof.
  unfold g_pinned_bishop. rewrite N.lxor_spec. destruct (N.testbit (g_pin p) x) eqn:E; [reflexivity|]. intros H.
  destruct (N.testbit (g_pinned_rook p) x) eqn:E2; [|discriminate H]. apply pinned_rook_sub in E2. congruence.
Qed.
Lemma pinned_bishop_rook_disj p x : N.testbit (g_pinned_bishop p) x = true -> N.testbit (g_pinned_rook p) x = true -> False.
Proof.
  unfold g_pinned_bishop. rewrite N.lxor_spec. intros H1 H2. rewrite H2, (pinned_rook_sub p x H2) in H1. discriminate H1.
Qed.
Lemma g_pin_lt p : g_pin p < two64. Proof. unfold g_pin, pinned, pinned_s_sq. apply pinned_lt. Qed.
Lemma g_pinned_rook_lt p : g_pinned_rook p < two64.
Proof. unfold g_pinned_rook. apply lor_lt; apply land_lt, g_pin_lt. Qed.
Lemma g_pinned_bishop_lt p : g_pinned_bishop p < two64.
Proof. unfold g_pinned_bishop. apply lxor_lt; [apply g_pin_lt|apply g_pinned_rook_lt]. Qed.

Theorem g_piece_caps_nodup p : NoDup (g_piece_caps p).
Proof.
  unfold g_piece_caps. apply piece_captures_nodup.
  - apply g_pin_lt.
  - apply g_pinned_bishop_lt.
  - apply g_pinned_rook_lt.
  - apply pinned_bishop_sub.
  - apply pinned_rook_sub.
  - apply pinned_bishop_rook_disj.
Qed.

(* ---------- officers' quiet moves (not pinned) ---------- *)
Lemma piece_quiets_nodup p us np al occ : np < two64 -> NoDup (piece_quiets p us np al occ).
Proof.
  intros Hnp. unfold piece_quiets.
  assert (Hkn : forall fr, fr < 64 -> knight_moves fr < two64) by exact knight_moves_lt.
  repeat (apply NoDup_app_intro;
    [ apply normals_emit_nodup; [lt64|intros fr Hfr; first [lt64|apply land_lt, Hkn, Hfr]]
    |
    | intros m H1 H2; apply normals_emit_tag in H1; destruct H1 as (_ & P1 & B1); split_in H2;
      apply normals_emit_tag in H2; destruct H2 as (_ & P2 & B2); congruence ]).
  apply normals_emit_nodup; [lt64|intros fr Hfr; first [lt64|apply land_lt, Hkn, Hfr]].
Qed.

Lemma g_nonpinned_lt_ p : wf p = true -> g_nonpinned p < two64.
Proof.
  intros Hwf. unfold g_nonpinned. apply lxor_lt; [apply colour_lt; destruct (Hrep_ p Hwf) as [_ H]; exact H|apply lor_lt; [apply g_rook_pinned_lt|apply g_bishop_pinned_lt]].
Qed.

Theorem g_piece_quiets_nodup p : wf p = true -> NoDup (g_piece_quiets p).
Proof. intros Hwf. unfold g_piece_quiets. apply piece_quiets_nodup, g_nonpinned_lt_, Hwf. Qed.

(* ---------- pinned officers (the scans) against the officers that are not pinned ---------- *)
Lemma piece_quiets_from p us np al occ m : In m (piece_quiets p us np al occ) -> N.testbit np (m_from m) = true.
Proof.
  unfold piece_quiets. intros H. split_in H; apply normals_emit_tag in H; destruct H as (_ & _ & B);
    rewrite N.land_spec in B; apply andb_true_iff in B; destruct B as [_ B]; exact B.
Qed.

Section ScansQuiets.
Variable p : position.
Hypothesis Hwf : wf p = true.
Variable k : N.
Hypothesis Hk : find_king (abs_board p) (turn p) = Some k.

Lemma nonpinned_excl x : x < 64 -> (exists pc, cell_of_b (brd p) x = Some (turn p, pc)) ->
  N.testbit (N.lor (g_rook_pinned p) (g_bishop_pinned p)) x = true -> N.testbit (g_nonpinned p) x = true -> False.
Proof.
  intros Hx [pc Ef] Hpin Hnp. unfold g_nonpinned in Hnp. rewrite N.lxor_spec, Hpin, (own_bit p Hwf x Hx), Ef, side_eqb_refl in Hnp. discriminate Hnp.
Qed.

Theorem scans_quiets_disjoint m : In m (snd (g_bscan p)) \/ In m (snd (g_rscan p)) -> In m (g_piece_quiets p) -> False.
Proof.
  intros H1 H2. unfold g_piece_quiets in H2. apply piece_quiets_from in H2. destruct H1 as [H1|H1].
  - apply (bscan_moves_iff p Hwf k Hk) in H1. destruct H1 as (x & a & t & pc & Hx & _ & _ & Ef & Hp & Hd & _ & _ & _ & ->). cbn [m_from] in H2.
    apply (nonpinned_excl x Hx (ex_intro _ pc Ef)); [|exact H2]. rewrite N.lor_spec. apply orb_true_iff. right.
    apply (bscan_pinned_iff p Hwf k Hk x Hx). split; [exists pc; exact Ef|exists a; split; assumption].
  - apply (rscan_moves_iff p Hwf k Hk) in H1. destruct H1 as (x & a & t & pc & Hx & _ & _ & Ef & Hp & Hd & _ & _ & _ & ->). cbn [m_from] in H2.
    apply (nonpinned_excl x Hx (ex_intro _ pc Ef)); [|exact H2]. rewrite N.lor_spec. apply orb_true_iff. left.
    apply (rscan_pinned_iff p Hwf k Hk x Hx). split; [exists pc; exact Ef|exists a; split; assumption].
Qed.
End ScansQuiets.

(* ====================================================================== *)
(* 3. The whole list                                                      *)
(* ====================================================================== *)
(* the class of a move: which part of the generators can have emitted it *)
Definition cls (m : move) : N :=
  match m_piece m, m_type m with
  | NoPiece, _ => 0
  | Pawn, (Capture | PromoCapture | Enpassant) => 1
  | Pawn, _ => 2
  | King, Capture => 3
  | King, Normal => 4
  | King, _ => 5
  | _, Capture => 6
  | _, _ => 7
  end.

Lemma cls_pawn_caps p m : In m (g_pawn_caps p) -> cls m = 1.
Proof. intros H. apply g_pawn_caps_label in H. destruct H as [P [T|[T|T]]]; unfold cls; rewrite P, T; reflexivity. Qed.
Lemma cls_pawn_pushes p m : In m (g_pawn_pushes p) -> cls m = 2.
Proof. intros H. apply g_pawn_pushes_label in H. destruct H as [P [T|[T|T]]]; unfold cls; rewrite P, T; reflexivity. Qed.
Lemma cls_king_caps p m : In m (king_captures p) -> cls m = 3.
Proof. intros H. apply king_captures_label in H. destruct H as [P T]; unfold cls; rewrite P, T; reflexivity. Qed.
Lemma cls_king_quiets p m : In m (king_quiets p) -> cls m = 4.
Proof. intros H. apply king_quiets_label in H. destruct H as [P T]; unfold cls; rewrite P, T; reflexivity. Qed.
Lemma cls_castles p m : In m (g_castles p) -> cls m = 5.
Proof. intros H. apply g_castles_label in H. destruct H as [P [T|T]]; unfold cls; rewrite P, T; reflexivity. Qed.
Lemma cls_piece_caps p m : In m (g_piece_caps p) -> cls m = 6.
Proof. intros H. apply g_piece_caps_label in H. destruct H as [P T]; unfold cls; rewrite T; destruct (m_piece m); try discriminate P; reflexivity. Qed.
Lemma cls_bscan p m : In m (snd (g_bscan p)) -> cls m = 7.
Proof. intros H. apply g_bscan_label in H. destruct H as [P T]; unfold cls; rewrite T; destruct (m_piece m); try discriminate P; reflexivity. Qed.
Lemma cls_rscan p m : In m (snd (g_rscan p)) -> cls m = 7.
Proof. intros H. apply g_rscan_label in H. destruct H as [P T]; unfold cls; rewrite T; destruct (m_piece m); try discriminate P; reflexivity. Qed.
Lemma cls_piece_quiets p m : In m (g_piece_quiets p) -> cls m = 7.
Proof. intros H. unfold g_piece_quiets in H. apply piece_quiets_label in H. destruct H as [P T]; unfold cls; rewrite T; destruct (m_piece m); try discriminate P; reflexivity. Qed.

Ltac classify H :=
  match type of H with
  | In _ (g_pawn_caps _) => apply cls_pawn_caps in H
  | In _ (g_pawn_pushes _) => apply cls_pawn_pushes in H
  | In _ (king_captures _) => apply cls_king_caps in H
  | In _ (king_quiets _) => apply cls_king_quiets in H
  | In _ (g_castles _) => apply cls_castles in H
  | In _ (g_piece_caps _) => apply cls_piece_caps in H
  | In _ (snd (g_bscan _)) => apply cls_bscan in H
  | In _ (snd (g_rscan _)) => apply cls_rscan in H
  | In _ (g_piece_quiets _) => apply cls_piece_quiets in H
  end.

Theorem legal_moves_nodup_nd p k : wf p = true -> find_king (abs_board p) (turn p) = Some k ->
  (1 <? bb_count (checkers p)) = false -> NoDup (legal_moves p).
Proof.
  intros Hwf Hk Hnd. rewrite (legal_moves_parts p Hnd).
  rewrite (app_assoc (snd (g_bscan p)) (snd (g_rscan p))).
  apply NoDup_app_intro.
  - (* captures *)
    apply NoDup_app_intro; [apply g_pawn_caps_nodup| |intros m H1 H2; split_in H2; classify H1; classify H2; congruence].
    apply NoDup_app_intro; [apply g_piece_caps_nodup|apply king_captures_nodup|intros m H1 H2; classify H1; classify H2; congruence].
  - (* non-captures *)
    apply NoDup_app_intro; [apply (scans_nodup p Hwf k Hk)| |].
    + apply NoDup_app_intro; [apply g_pawn_pushes_nodup| |intros m H1 H2; split_in H2; classify H1; classify H2; congruence].
      apply NoDup_app_intro; [apply g_piece_quiets_nodup, Hwf| |intros m H1 H2; split_in H2; classify H1; classify H2; congruence].
      apply NoDup_app_intro; [apply king_quiets_nodup|apply g_castles_nodup|intros m H1 H2; classify H1; classify H2; congruence].
    + intros m H1 H2. apply in_app_or in H1.
      apply in_app_or in H2. destruct H2 as [H2|H2]; [destruct H1 as [H1|H1]; classify H1; classify H2; congruence|].
      apply in_app_or in H2. destruct H2 as [H2|H2]; [exact (scans_quiets_disjoint p Hwf k Hk m H1 H2)|].
      destruct H1 as [H1|H1]; split_in H2; classify H1; classify H2; congruence.
  - (* a capture is not a non-capture *)
    intros m H1 H2. split_in H1; split_in H2; classify H1; classify H2; congruence.
Qed.

Print Assumptions legal_moves_nodup_nd.
Print Assumptions g_pawn_caps_nodup.
Print Assumptions g_piece_caps_nodup.
Print Assumptions g_piece_quiets_nodup.
Print Assumptions scans_quiets_disjoint.
Print Assumptions g_quiet_officers_label.
