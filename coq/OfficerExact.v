(* OfficerExact.v — C01: knights, bishops, rooks and queens are generated exactly (outside double check):
   captures (free pieces; pinned sliders capture their pinner through the x-ray masks), non-captures (free pieces;
   pinned sliders slide along the pin line: the pin_scan loops). *)
From Coq Require Import NArith ZArith List Bool Lia.
From Coq Require Import ZifyBool ZifyN ZifyNat.
From LC Require Import Bits BitsFacts Types BitboardModel BitboardFacts MoveModel MoveFacts MagicModel MagicFacts HashFacts PositionModel MovegenModel MovegenFacts BoardFacts
  Spec.Rules Refine.Abs Refine.Board Refine.Make Refine.Wf Refine.MakeAbs Refine.SpecFits AttackFacts PinFacts KingFacts SafetyFacts LegalFacts LegalCore PinScanFacts PieceExact.
Import ListNotations.
Local Open Scope N_scope.
Local Strategy 1000 [squares all64 seq].

Section Quiets.
Variable p : position.
Hypothesis Hwf : wf p = true.
Variable k : N.
Hypothesis Hk : find_king (abs_board p) (turn p) = Some k.
Hypothesis Huk : forall a, a < 64 -> cell_of_b (brd p) a = Some (turn p, King) -> a = k.
Hypothesis Hnd : (1 <? bb_count (checkers p)) = false.
Notation f := (cell_of_b (brd p)).
Notation us := (turn p).
Notation them := (opp_side (turn p)).

Definition quiet_spec (pc : piece) (fr t : N) (m : move) : Prop :=
  f fr = Some (us, pc) /\ piece_attacks (abs_board p) us pc fr t = true /\ resolves p k t /\ pin_ok p k fr t /\
  f t = None /\ m = mkMove Normal fr t pc NoPiece NoPiece.

Lemma g_nonpinned_bit x : x < 64 -> N.testbit (g_nonpinned p) x = xorb (N.testbit (occupancy_s p us) x) (N.testbit (pinned p) x).
Proof. intros Hx. unfold g_nonpinned. rewrite N.lxor_spec, (scan_union_pinned p Hwf k Hk x Hx). reflexivity. Qed.

Lemma g_nonpinned_lt : g_nonpinned p < two64.
Proof. unfold g_nonpinned. apply lxor_lt; [apply colour_lt, (Hlt_ p Hwf)|apply lor_lt; [apply g_rook_pinned_lt|apply g_bishop_pinned_lt]]. Qed.

(* pieces that are not pinned *)
Lemma free_quiets_iff pc m : officer pc = true ->
  (In m (emit (N.land (pieces p us pc) (g_nonpinned p)) (fun fr => normals_from pc fr (N.land (officer_mask pc fr (g_occ_ne p)) (g_allowed_q p)))) <->
   exists fr t, fr < 64 /\ t < 64 /\ quiet_spec pc fr t m /\ forall a, ~ Pinner f us k a fr).
Proof.
  intros Hoff. assert (Hpc : pc <> NoPiece) by (intros ->; discriminate).
  rewrite in_normals_emit; [|apply land_lt, (pieces_lt_ p Hwf)|intros fr; rewrite N.land_comm; apply land_lt, (g_allowed_q_lt p Hwf k Hk)].
  rewrite (g_occ_ne_eq p Hwf). split.
  - intros (fr & t & Hfr & Ht & Hb & Hbt & ->). exists fr, t. split; [exact Hfr|]. split; [exact Ht|].
    rewrite N.land_spec in Hb. apply andb_true_iff in Hb. destruct Hb as [Hb1 Hb2]. apply (pieces_bit p Hwf pc fr Hfr Hpc) in Hb1.
    rewrite (g_nonpinned_bit fr Hfr), (own_bit p Hwf fr Hfr), Hb1, side_eqb_refl in Hb2. cbn [xorb] in Hb2. apply negb_true_iff in Hb2.
    assert (Hfree : forall a, ~ Pinner f us k a fr) by (apply (not_pinned_iff p Hwf k Hk fr Hfr (ex_intro _ pc Hb1)); exact Hb2).
    rewrite N.land_spec in Hbt. apply andb_true_iff in Hbt. destruct Hbt as [Hm Hal].
    rewrite (officer_mask_attacks p Hwf pc fr t Hoff Hfr Ht) in Hm.
    apply (g_allowed_q_iff p Hwf k Hk Hnd t Ht) in Hal. destruct Hal as [Ee Hres].
    split; [|exact Hfree]. unfold quiet_spec. repeat split; try assumption. apply pin_ok_free; exact Hfree.
  - intros (fr & t & Hfr & Ht & (Hf & Hatt & Hres & _ & Ee & ->) & Hfree). exists fr, t. split; [exact Hfr|]. split; [exact Ht|].
    split; [|split; [|reflexivity]].
    + rewrite N.land_spec. apply andb_true_iff. split; [apply (pieces_bit p Hwf pc fr Hfr Hpc); exact Hf|].
      rewrite (g_nonpinned_bit fr Hfr), (own_bit p Hwf fr Hfr), Hf, side_eqb_refl. cbn [xorb]. apply negb_true_iff.
      apply (not_pinned_iff p Hwf k Hk fr Hfr (ex_intro _ pc Hf)). exact Hfree.
    + rewrite N.land_spec. apply andb_true_iff. split; [rewrite (officer_mask_attacks p Hwf pc fr t Hoff Hfr Ht); exact Hatt|].
      apply (g_allowed_q_iff p Hwf k Hk Hnd t Ht). split; assumption.
Qed.

(* pinned sliders: the moves of the two pin_scan loops *)
Lemma scan_quiets_iff (diag : bool) m :
  (In m (snd (if diag then g_bscan p else g_rscan p)) <->
   exists pc fr t, kind_pc diag pc = true /\ fr < 64 /\ t < 64 /\ quiet_spec pc fr t m /\ exists a, Pinner f us k a fr /\ kind_al diag a k = true).
Proof.
  assert (Hscan : In m (snd (if diag then g_bscan p else g_rscan p)) <->
     exists x a t pc, x < 64 /\ t < 64 /\ kind_pc diag pc = true /\ f x = Some (us, pc) /\ Pinner f us k a x /\ kind_al diag a k = true /\
        In t (between a k) /\ t <> x /\ N.testbit (g_allowed_q p) t = true /\ m = mkMove Normal x t pc NoPiece NoPiece).
  { destruct diag; [rewrite (bscan_moves_iff p Hwf k Hk m)|rewrite (rscan_moves_iff p Hwf k Hk m)]; split;
      intros (x & a & t & pc & H1 & H2 & H3 & H4); exists x, a, t, pc; (split; [exact H1|]); (split; [exact H2|]); (split; [|exact H4]).
    - destruct H3 as [-> | ->]; reflexivity.
    - destruct pc; try discriminate; tauto.
    - destruct H3 as [-> | ->]; reflexivity.
    - destruct pc; try discriminate; tauto. }
  rewrite Hscan. clear Hscan.
  assert (Hdir : forall pc a, kind_pc diag pc = true -> kind_al diag a k = true -> dir_ok pc a k = true).
  { intros pc a Hkp Hal. unfold kind_al in Hal. destruct pc; try discriminate; destruct diag; try discriminate; try reflexivity; exact Hal. }
  split.
  - intros (x & a & t & pc & Hx & Ht & Hkp & Hf & Hp & Hal & Hin & Hne & Hallow & ->).
    assert (Hoff : officer pc = true) by (destruct pc; try discriminate; reflexivity).
    exists pc, x, t. split; [exact Hkp|]. split; [exact Hx|]. split; [exact Ht|]. split; [|exists a; split; assumption].
    apply (g_allowed_q_iff p Hwf k Hk Hnd t Ht) in Hallow. destruct Hallow as [Ee Hres].
    unfold quiet_spec. split; [exact Hf|]. split.
    + rewrite (pinned_officer_attacks p Hwf k Hk a x t pc Hp Hoff (or_intror Hin)), (Hdir pc a Hkp Hal). replace (t =? x) with false by lia. reflexivity.
    + split; [exact Hres|]. split; [apply (pin_ok_pinned p Hwf k Hk a x t Hp); right; exact Hin|]. split; [exact Ee|reflexivity].
  - intros (pc & fr & t & Hkp & Hfr & Ht & (Hf & Hatt & Hres & Hpin & Ee & ->) & a & Hp & Hal).
    exists fr, a, t, pc. split; [exact Hfr|]. split; [exact Ht|]. split; [exact Hkp|]. split; [exact Hf|]. split; [exact Hp|]. split; [exact Hal|].
    pose proof (proj1 (pin_ok_pinned p Hwf k Hk a fr t Hp) Hpin) as Hpin'.
    destruct (pinner_facts p Hwf k Hk a fr Hp) as (_ & _ & _ & _ & _ & _ & Hfa & _).
    assert (Hin : In t (between a k)) by (destruct Hpin' as [->|H]; [contradiction|exact H]).
    split; [exact Hin|]. split; [intros ->; rewrite Hf in Ee; discriminate|]. split; [|reflexivity].
    apply (g_allowed_q_iff p Hwf k Hk Hnd t Ht). split; assumption.
Qed.
End Quiets.

Section Assembly.
Variable dfrc : bool.
Variable p : position.
Hypothesis Hwf : wf p = true.
Hypothesis Hlc : legal_consistent dfrc (abs p) = true.
Variable k : N.
Hypothesis Hk : find_king (abs_board p) (turn p) = Some k.
Hypothesis Huk : forall a, a < 64 -> cell_of_b (brd p) a = Some (turn p, King) -> a = k.
Hypothesis Hnd : (1 <? bb_count (checkers p)) = false.
Notation f := (cell_of_b (brd p)).
Notation us := (turn p).
Notation them := (opp_side (turn p)).

Definition FreeCaps (pc : piece) : list move :=
  emit (N.land (pieces p us pc) (not64 (g_pin p))) (fun fr => caps_from p pc fr (N.land (officer_mask pc fr (g_occ_ne p)) (g_allowed_c p))).
Definition PinnedCaps (diag : bool) (pc : piece) : list move :=
  emit (N.land (pieces p us pc) (kind_set p diag))
       (fun fr => caps_from p pc fr (N.land (N.land (kind_mv diag fr (g_occ_ne p)) (g_allowed_c p)) (kind_mv diag k (N.lxor (occupied p) (kind_set p diag))))).
Definition FreeQuiets (pc : piece) : list move :=
  emit (N.land (pieces p us pc) (g_nonpinned p)) (fun fr => normals_from pc fr (N.land (officer_mask pc fr (g_occ_ne p)) (g_allowed_q p))).

Lemma piece_caps_split m : In m (g_piece_caps p) <->
  (exists pc, officer pc = true /\ In m (FreeCaps pc)) \/ (exists diag pc, kind_pc diag pc = true /\ In m (PinnedCaps diag pc)).
Proof.
  unfold g_piece_caps, piece_captures, g_bishop_xrays, g_rook_xrays. rewrite (ksq_eq p Hwf k Hk). rewrite !in_app_iff.
  change (In m (FreeCaps Knight) \/ In m (FreeCaps Bishop) \/ In m (PinnedCaps true Bishop) \/ In m (FreeCaps Rook) \/ In m (PinnedCaps false Rook) \/
          In m (FreeCaps Queen) \/ In m (PinnedCaps true Queen) \/ In m (PinnedCaps false Queen) <->
          (exists pc, officer pc = true /\ In m (FreeCaps pc)) \/ (exists diag pc, kind_pc diag pc = true /\ In m (PinnedCaps diag pc))).
  split.
  - intros [H|[H|[H|[H|[H|[H|[H|H]]]]]]].
    + left. exists Knight. split; [reflexivity|exact H].
    + left. exists Bishop. split; [reflexivity|exact H].
    + right. exists true, Bishop. split; [reflexivity|exact H].
    + left. exists Rook. split; [reflexivity|exact H].
    + right. exists false, Rook. split; [reflexivity|exact H].
    + left. exists Queen. split; [reflexivity|exact H].
    + right. exists true, Queen. split; [reflexivity|exact H].
    + right. exists false, Queen. split; [reflexivity|exact H].
  - intros [[pc [Ho H]]|[diag [pc [Hkp H]]]].
    + destruct pc; try discriminate; [left|right; left|do 3 right; left|do 5 right; left]; exact H.
    + destruct pc; try discriminate; destruct diag; try discriminate; [do 2 right; left|do 4 right; left|do 6 right; left|do 7 right]; exact H.
Qed.

Lemma piece_quiets_split m : In m (g_piece_quiets p) <-> exists pc, officer pc = true /\ In m (FreeQuiets pc).
Proof.
  unfold g_piece_quiets, piece_quiets. rewrite !in_app_iff.
  change (In m (FreeQuiets Knight) \/ In m (FreeQuiets Bishop) \/ In m (FreeQuiets Rook) \/ In m (FreeQuiets Queen) <-> exists pc, officer pc = true /\ In m (FreeQuiets pc)).
  split.
  - intros [H|[H|[H|H]]]; [exists Knight|exists Bishop|exists Rook|exists Queen]; (split; [reflexivity|exact H]).
  - intros [pc [Ho H]]. destruct pc; try discriminate; [left|right; left|do 2 right; left|do 3 right]; exact H.
Qed.

(* which emit produces a given target of a pinned piece *)
Lemma pinned_kind a fr t pc : Pinner f us k a fr -> officer pc = true -> piece_attacks (abs_board p) us pc fr t = true -> pin_ok p k fr t ->
  kind_pc (same_diag a k) pc = true /\ kind_al (same_diag a k) a k = true.
Proof.
  intros Hp Hoff Hatt Hpin. pose proof (proj1 (pin_ok_pinned p Hwf k Hk a fr t Hp) Hpin) as Ht.
  rewrite (pinned_officer_attacks p Hwf k Hk a fr t pc Hp Hoff Ht) in Hatt. apply andb_true_iff in Hatt. destruct Hatt as [_ Hd].
  destruct (pinner_line_of p Hwf k Hk a fr Hp) as (_ & _ & E).
  unfold kind_al. destruct (same_diag a k) eqn:Ed.
  - split; [|exact Ed]. destruct pc; try discriminate; try reflexivity. cbn [dir_ok] in Hd. rewrite Hd in E. discriminate.
  - split; [|destruct (same_line a k); [reflexivity|discriminate]]. destruct pc; try discriminate; try reflexivity. cbn [dir_ok] in Hd. congruence.
Qed.

Theorem officers_model_iff m :
  In m (g_piece_caps p ++ snd (g_bscan p) ++ snd (g_rscan p) ++ g_piece_quiets p) <->
  exists pc fr t, officer pc = true /\ fr < 64 /\ t < 64 /\ officer_move p k pc fr t m.
Proof.
  rewrite !in_app_iff, piece_caps_split, piece_quiets_split. split.
  - intros [[[pc [Ho H]]|[diag [pc [Hkp H]]]]|[H|[H|[pc [Ho H]]]]].
    + apply (free_caps_iff dfrc p Hwf Hlc k Hk Huk Hnd pc m Ho) in H. destruct H as (fr & t & Hfr & Ht & (H1 & H2 & H3 & H4 & H5) & _).
      exists pc, fr, t. repeat split; try assumption. right. exact H5.
    + apply (pinned_caps_iff dfrc p Hwf Hlc k Hk Huk Hnd diag pc m Hkp) in H. destruct H as (fr & t & Hfr & Ht & (H1 & H2 & H3 & H4 & H5) & _).
      exists pc, fr, t. split; [destruct pc; try discriminate; reflexivity|]. repeat split; try assumption. right. exact H5.
    + apply (scan_quiets_iff p Hwf k Hk Huk Hnd true m) in H. destruct H as (pc & fr & t & Hkp & Hfr & Ht & (H1 & H2 & H3 & H4 & H5 & H6) & _).
      exists pc, fr, t. split; [destruct pc; try discriminate; reflexivity|]. repeat split; try assumption. left. split; assumption.
    + apply (scan_quiets_iff p Hwf k Hk Huk Hnd false m) in H. destruct H as (pc & fr & t & Hkp & Hfr & Ht & (H1 & H2 & H3 & H4 & H5 & H6) & _).
      exists pc, fr, t. split; [destruct pc; try discriminate; reflexivity|]. repeat split; try assumption. left. split; assumption.
    + apply (free_quiets_iff p Hwf k Hk Hnd pc m Ho) in H. destruct H as (fr & t & Hfr & Ht & (H1 & H2 & H3 & H4 & H5 & H6) & _).
      exists pc, fr, t. repeat split; try assumption. left. split; assumption.
  - intros (pc & fr & t & Ho & Hfr & Ht & (H1 & H2 & H3 & H4 & H5)).
    destruct (N.testbit (pinned p) fr) eqn:Epin.
    + apply (pinned_iff p k fr Hwf Hk Hfr) in Epin. destruct Epin as [_ [a Hp]].
      destruct (pinned_kind a fr t pc Hp Ho H2 H4) as [Hkp Hal].
      destruct H5 as [[Ee ->]|Hcap].
      * right. destruct (same_diag a k) eqn:Ed; [left|right; left];
          [apply (scan_quiets_iff p Hwf k Hk Huk Hnd true)|apply (scan_quiets_iff p Hwf k Hk Huk Hnd false)];
          exists pc, fr, t; (split; [exact Hkp|]); (split; [exact Hfr|]); (split; [exact Ht|]); (split; [|exists a; split; assumption]);
          unfold quiet_spec; repeat split; assumption.
      * left. right. exists (same_diag a k), pc. split; [exact Hkp|].
        apply (pinned_caps_iff dfrc p Hwf Hlc k Hk Huk Hnd (same_diag a k) pc m Hkp). exists fr, t. split; [exact Hfr|]. split; [exact Ht|].
        split; [|exists a; split; assumption]. unfold cap_spec. repeat split; assumption.
    + assert (Hfree : forall a, ~ Pinner f us k a fr) by (apply (not_pinned_iff p Hwf k Hk fr Hfr (ex_intro _ pc H1)); exact Epin).
      destruct H5 as [[Ee ->]|Hcap].
      * right. right. right. exists pc. split; [exact Ho|]. apply (free_quiets_iff p Hwf k Hk Hnd pc _ Ho). exists fr, t. split; [exact Hfr|]. split; [exact Ht|].
        split; [|exact Hfree]. unfold quiet_spec. repeat split; assumption.
      * left. left. exists pc. split; [exact Ho|]. apply (free_caps_iff dfrc p Hwf Hlc k Hk Huk Hnd pc m Ho). exists fr, t. split; [exact Hfr|]. split; [exact Ht|].
        split; [|exact Hfree]. unfold cap_spec. repeat split; assumption.
Qed.

(* MILESTONE 3: knights, bishops, rooks and queens *)
Theorem officers_exact m :
  In m (g_piece_caps p ++ snd (g_bscan p) ++ snd (g_rscan p) ++ g_piece_quiets p) <-> (In m (spec_moves (abs p)) /\ officer (m_piece m) = true).
Proof.
  rewrite officers_model_iff. split.
  - intros (pc & fr & t & Ho & Hfr & Ht & Hmv).
    assert (Epc : m_piece m = pc) by (destruct Hmv as (_ & _ & _ & _ & [[_ ->]|[cp (_ & _ & ->)]]); reflexivity).
    rewrite Epc. split; [|exact Ho]. apply (proj2 (spec_officer_iff p Hwf k Hk Huk pc m Ho)). exists fr, t. split; [exact Hfr|]. split; [exact Ht|exact Hmv].
  - intros [Hin Ho]. destruct (proj1 (spec_officer_iff p Hwf k Hk Huk (m_piece m) m Ho) (conj Hin eq_refl)) as (fr & t & Hfr & Ht & Hmv).
    exists (m_piece m), fr, t. split; [exact Ho|]. split; [exact Hfr|]. split; [exact Ht|exact Hmv].
Qed.
End Assembly.
