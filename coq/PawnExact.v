(* PawnExact.v — C01: pawn moves other than en passant.  Spec side (spec_pawn_iff), pins as directions,
   the pawn sets of the generators on the mailbox, the shifted emission blocks, and the exactness theorems. *)
From Coq Require Import NArith ZArith List Bool Lia.
From Coq Require Import ZifyBool ZifyN ZifyNat.
From LC Require Import Bits BitsFacts Types BitboardModel BitboardFacts MoveModel MoveFacts MagicFacts PositionModel MovegenModel MovegenFacts BoardFacts
  Spec.Rules Refine.Abs Refine.Board Refine.Make Refine.Wf Refine.MakeAbs Refine.SpecFits AttackFacts PinFacts KingFacts SafetyFacts LegalFacts LegalCore PieceExact.
Import ListNotations.
Local Open Scope N_scope.
Local Strategy 1000 [squares all64 seq].
Ltac Zify.zify_post_hook ::= Z.div_mod_to_equations.

Definition dirc (k x : N) : N :=
  if fileof k =? fileof x then 0 else if rankof k =? rankof x then 1
  else if fileof x + rankof k =? fileof k + rankof x then 2
  else if fileof x + rankof x =? fileof k + rankof k then 3 else 4.
Definition inpath (a k t : N) : bool := (t =? a) || existsb (N.eqb t) (between a k).
Definition cdir (x t : N) : N := if (t =? x + 9) || (x =? t + 9) then 2 else 3.

Lemma dirc_sweep :
  forallb (fun a => forallb (fun k => forallb (fun x =>
     (dirc k x =? dirc k a) && (dirc k x <? 4) && Bool.eqb (same_line a k) (dirc k x <? 2) && Bool.eqb (same_diag a k) (2 <=? dirc k x) && negb (x =? k))
     (between a k)) all64) all64 = true.
Proof. vm_compute. reflexivity. Qed.

Lemma pin_step_sweep :
  forallb (fun a => forallb (fun k => forallb (fun x =>
     (if (x + 8 <? 64) && negb (x + 8 =? k) then Bool.eqb (inpath a k (x + 8)) (dirc k x =? 0) else true) &&
     (if (8 <=? x) && negb (x - 8 =? k) then Bool.eqb (inpath a k (x - 8)) (dirc k x =? 0) else true) &&
     (if (x + 16 <? 64) && negb (x + 8 =? k) && negb (x + 8 =? a) && negb (x + 16 =? k) then Bool.eqb (inpath a k (x + 16)) (dirc k x =? 0) else true) &&
     (if (16 <=? x) && negb (x - 8 =? k) && negb (x - 8 =? a) && negb (x - 16 =? k) then Bool.eqb (inpath a k (x - 16)) (dirc k x =? 0) else true) &&
     forallb (fun t => if (t <? 64) && negb (t =? k) && (piece_attacks [] White Pawn x t || piece_attacks [] Black Pawn x t)
                       then Bool.eqb (inpath a k t) (dirc k x =? cdir x t) else true) [x + 7; x + 9; x - 7; x - 9])
     (between a k)) all64) all64 = true.
Proof. vm_compute. reflexivity. Qed.

Lemma pawn_att_sweep :
  forallb (fun x => forallb (fun t =>
     Bool.eqb (piece_attacks [] White Pawn x t) (((t =? x + 9) && negb (fileof t =? 0)) || ((t =? x + 7) && negb (fileof t =? 7))) &&
     Bool.eqb (piece_attacks [] Black Pawn x t) (((x =? t + 9) && negb (fileof t =? 7)) || ((x =? t + 7) && negb (fileof t =? 0)))) all64) all64 = true.
Proof. vm_compute. reflexivity. Qed.

Definition rays (k occ : N) : N := N.lor (ray_north_east k occ) (ray_south_west k occ).
Lemma rays_sweep :
  forallb (fun k => forallb (fun x =>
     (if N.testbit (rays k 0) x then dirc k x =? 2 else true) &&
     (if (dirc k x =? 2) then N.testbit (rays k (not64 (squares_between k x))) x else true)) all64) all64 = true.
Proof. vm_compute. reflexivity. Qed.

Lemma file_mask_sweep : forallb (fun fl => forallb (fun x => Bool.eqb (N.testbit (file_mask fl) x) (fileof x =? fl)) all64) [0;1;2;3;4;5;6;7] = true.
Proof. vm_compute. reflexivity. Qed.

Lemma back_sweep : forallb (fun t =>
   (if 8 <=? t then sq_south t =? t - 8 else true) && (if t <? 56 then sq_north t =? t + 8 else true) &&
   (if 9 <=? t then sq_west (sq_south t) =? t - 9 else true) && (if 7 <=? t then sq_east (sq_south t) =? t - 7 else true) &&
   (if t <? 57 then sq_west (sq_north t) =? t + 7 else true) && (if t <? 55 then sq_east (sq_north t) =? t + 9 else true) &&
   (if 16 <=? t then sq_south (sq_south t) =? t - 16 else true) && (if t <? 48 then sq_north (sq_north t) =? t + 16 else true)) all64 = true.
Proof. vm_compute. reflexivity. Qed.

(* ---------- ray_fill is antitone in the blockers ---------- *)
Definition sub (a b : N) : Prop := forall i, N.testbit a i = true -> N.testbit b i = true.
Lemma sub_refl a : sub a a. Proof. intros i H. exact H. Qed.
Lemma sub_lor a a' b b' : sub a a' -> sub b b' -> sub (N.lor a b) (N.lor a' b').
Proof. intros H1 H2 i. rewrite !N.lor_spec. intros H. apply orb_true_iff in H. apply orb_true_iff. destruct H as [H|H]; [left; apply H1|right; apply H2]; exact H. Qed.
Lemma sub_land a a' b b' : sub a a' -> sub b b' -> sub (N.land a b) (N.land a' b').
Proof. intros H1 H2 i. rewrite !N.land_spec. intros H. apply andb_true_iff in H. apply andb_true_iff. destruct H as [Ha Hb]. split; [apply H1|apply H2]; assumption. Qed.
Lemma sub_north a b : sub a b -> sub (north a) (north b).
Proof. intros H i. unfold north. rewrite !shl64_spec. intros G. apply andb_true_iff in G. destruct G as [G1 G2]. rewrite G1. apply H. exact G2. Qed.
Lemma sub_south a b : sub a b -> sub (south a) (south b).
Proof. intros H i. unfold south. rewrite !shr64_spec. apply H. Qed.
Lemma sub_east a b : sub a b -> sub (east a) (east b).
Proof. intros H. unfold east. apply sub_land; [|apply sub_refl]. intros i. rewrite !shl64_spec. intros G. apply andb_true_iff in G. destruct G as [G1 G2]. rewrite G1. apply H. exact G2. Qed.
Lemma sub_west a b : sub a b -> sub (west a) (west b).
Proof. intros H. unfold west. apply sub_land; [|apply sub_refl]. intros i. rewrite !shr64_spec. apply H. Qed.

Lemma ray_fill_mono step sq bl bl' : (forall a b, sub a b -> sub (step a) (step b)) -> sub (not64 bl) (not64 bl') ->
  sub (ray_fill step sq bl) (ray_fill step sq bl').
Proof.
  intros Hs Hn. unfold ray_fill. cbv zeta.
  assert (St : forall b b', sub b b' -> sub (N.lor b (step (N.land b (not64 bl)))) (N.lor b' (step (N.land b' (not64 bl'))))).
  { intros b b' Hb. apply sub_lor; [exact Hb|]. apply Hs. apply sub_land; [exact Hb|exact Hn]. }
  do 6 apply St. apply sub_refl.
Qed.

Lemma rays_mono k bl bl' : sub (not64 bl) (not64 bl') -> sub (rays k bl) (rays k bl').
Proof.
  intros H. unfold rays, ray_north_east, ray_south_west. apply sub_lor; apply ray_fill_mono; try exact H.
  - intros a b Hab. apply sub_east, sub_north, Hab.
  - intros a b Hab. apply sub_west, sub_south, Hab.
Qed.

Lemma rays_dir k occ x : k < 64 -> x < 64 -> N.testbit (rays k occ) x = true -> dirc k x = 2.
Proof.
  intros Hk Hx H. assert (H0 : N.testbit (rays k 0) x = true).
  { apply (rays_mono k occ 0); [|exact H]. intros i. rewrite !not64_spec. intros G. apply andb_true_iff in G. destruct G as [G _]. rewrite G. rewrite N.bits_0. reflexivity. }
  pose proof (forallb_all64 _ (forallb_all64 _ rays_sweep k Hk) x Hx) as S. cbv beta in S. apply andb_true_iff in S. destruct S as [S _].
  rewrite H0 in S. apply N.eqb_eq in S. exact S.
Qed.

Lemma rays_vis k occ x : k < 64 -> x < 64 -> (forall q, In q (between k x) -> N.testbit occ q = false) -> dirc k x = 2 ->
  N.testbit (rays k occ) x = true.
Proof.
  intros Hk Hx Hclr Hd.
  pose proof (forallb_all64 _ (forallb_all64 _ rays_sweep k Hk) x Hx) as S. cbv beta in S. apply andb_true_iff in S. destruct S as [_ S].
  rewrite Hd in S. change (2 =? 2) with true in S. cbv iota in S.
  apply (rays_mono k (not64 (squares_between k x)) occ); [|exact S].
  intros i. rewrite !not64_spec. intros G. apply andb_true_iff in G. destruct G as [G1 G2]. rewrite G1 in *. cbn [andb] in *.
  apply negb_true_iff in G2. apply negb_false_iff in G2.
  pose proof (squares_between_exact k x i Hk Hx) as E. unfold mem in E. rewrite G2 in E. symmetry in E. apply in_existsb in E.
  rewrite (Hclr i E). reflexivity.
Qed.

Lemma file_mask_bits fl x : fl < 8 -> x < 64 -> N.testbit (file_mask fl) x = (fileof x =? fl).
Proof.
  intros Hf Hx. assert (Hin : In fl [0;1;2;3;4;5;6;7]) by (cbn; lia).
  pose proof file_mask_sweep as S. rewrite forallb_forall in S. specialize (S fl Hin). pose proof (forallb_all64 _ S x Hx) as S'. cbv beta in S'.
  apply eqb_prop in S'. exact S'.
Qed.

Lemma pawn_att s b x t : x < 64 -> t < 64 ->
  piece_attacks b s Pawn x t =
  match s with White => ((t =? x + 9) && negb (fileof t =? 0)) || ((t =? x + 7) && negb (fileof t =? 7))
             | Black => ((x =? t + 9) && negb (fileof t =? 7)) || ((x =? t + 7) && negb (fileof t =? 0)) end.
Proof.
  intros Hx Ht. pose proof (forallb_all64 _ (forallb_all64 _ pawn_att_sweep x Hx) t Ht) as S. cbv beta in S.
  apply andb_true_iff in S. destruct S as [S1 S2]. apply eqb_prop in S1. apply eqb_prop in S2.
  destruct s; [rewrite <- S1|rewrite <- S2]; reflexivity.
Qed.

(* ---------- pins as directions ---------- *)
Section PinDir.
Variable p : position.
Hypothesis Hwf : wf p = true.
Variable k : N.
Hypothesis Hk : find_king (abs_board p) (turn p) = Some k.
Notation f := (cell_of_b (brd p)).
Notation us := (turn p).
Notation them := (opp_side (turn p)).

Definition pin_dir (x D : N) : Prop := forall a, Pinner f us k a x -> dirc k x = D.

Lemma pinner_facts a x : Pinner f us k a x ->
  a < 64 /\ k < 64 /\ In x (between a k) /\ x < 64 /\ x <> k /\ (exists pa, f a = Some (them, pa)) /\
  dirc k x < 4 /\ same_line a k = (dirc k x <? 2) /\ same_diag a k = (2 <=? dirc k x).
Proof.
  intros (Ha & pa & Efa & _ & _ & Hin & _). destruct (k_lt p Hwf k Hk) as [Hk64 _].
  pose proof (forallb_all64 _ (forallb_all64 _ dirc_sweep a Ha) k Hk64) as S. cbv beta in S. rewrite forallb_forall in S. specialize (S x Hin).
  repeat (apply andb_true_iff in S; let H' := fresh "W" in destruct S as [S H']).
  apply eqb_prop in W0, W1. pose proof (AttackFacts.between_lt a k x Ha Hk64 Hin) as Hx.
  repeat split; try assumption; try lia. exists pa. exact Efa.
Qed.

Lemma pin_ok_gen x t D : (forall a, Pinner f us k a x -> inpath a k t = (dirc k x =? D)) -> (pin_ok p k x t <-> pin_dir x D).
Proof.
  intros Hg. unfold pin_ok, pin_dir. split; intros H a Hp; specialize (H a Hp); specialize (Hg a Hp); unfold inpath in Hg.
  - apply N.eqb_eq. rewrite <- Hg. apply orb_true_iff. destruct H as [->|H]; [left; apply N.eqb_refl|right; apply in_existsb; exact H].
  - apply N.eqb_eq in H. rewrite H in Hg. apply orb_true_iff in Hg. destruct Hg as [E|E]; [left; apply N.eqb_eq; exact E|right; apply in_existsb; exact E].
Qed.

Lemma step_sweep_at a x : Pinner f us k a x ->
     (if (x + 8 <? 64) && negb (x + 8 =? k) then Bool.eqb (inpath a k (x + 8)) (dirc k x =? 0) else true) &&
     (if (8 <=? x) && negb (x - 8 =? k) then Bool.eqb (inpath a k (x - 8)) (dirc k x =? 0) else true) &&
     (if (x + 16 <? 64) && negb (x + 8 =? k) && negb (x + 8 =? a) && negb (x + 16 =? k) then Bool.eqb (inpath a k (x + 16)) (dirc k x =? 0) else true) &&
     (if (16 <=? x) && negb (x - 8 =? k) && negb (x - 8 =? a) && negb (x - 16 =? k) then Bool.eqb (inpath a k (x - 16)) (dirc k x =? 0) else true) &&
     forallb (fun t => if (t <? 64) && negb (t =? k) && (piece_attacks [] White Pawn x t || piece_attacks [] Black Pawn x t)
                       then Bool.eqb (inpath a k t) (dirc k x =? cdir x t) else true) [x + 7; x + 9; x - 7; x - 9] = true.
Proof.
  intros Hp. destruct (pinner_facts a x Hp) as (Ha & Hk64 & Hin & _).
  pose proof (forallb_all64 _ (forallb_all64 _ pin_step_sweep a Ha) k Hk64) as S. cbv beta in S. rewrite forallb_forall in S. exact (S x Hin).
Qed.

Lemma pin_ok_push1 x t : t < 64 -> t <> k -> (t = x + 8 \/ (8 <= x /\ t = x - 8)) -> (pin_ok p k x t <-> pin_dir x 0).
Proof.
  intros Ht Htk Hs. apply pin_ok_gen. intros a Hp. pose proof (step_sweep_at a x Hp) as S.
  repeat (apply andb_true_iff in S; let H' := fresh "W" in destruct S as [S H']).
  destruct Hs as [->|[H8 ->]].
  - replace ((x + 8 <? 64) && negb (x + 8 =? k)) with true in S by lia. apply eqb_prop in S. exact S.
  - replace ((8 <=? x) && negb (x - 8 =? k)) with true in W2 by lia. apply eqb_prop in W2. exact W2.
Qed.

Lemma pin_ok_push2 x m t : t < 64 -> t <> k -> f m = None -> ((m = x + 8 /\ t = x + 16) \/ (16 <= x /\ m = x - 8 /\ t = x - 16)) ->
  (pin_ok p k x t <-> pin_dir x 0).
Proof.
  intros Ht Htk Hm Hs. destruct (k_lt p Hwf k Hk) as [Hk64 Hfk]. apply pin_ok_gen. intros a Hp. pose proof (step_sweep_at a x Hp) as S.
  destruct (pinner_facts a x Hp) as (_ & _ & _ & _ & _ & [pa Efa] & _).
  assert (Hmk : m <> k) by (intros ->; congruence). assert (Hma : m <> a) by (intros ->; congruence).
  repeat (apply andb_true_iff in S; let H' := fresh "W" in destruct S as [S H']).
  destruct Hs as [[-> ->]|(H16 & -> & ->)].
  - replace ((x + 16 <? 64) && negb (x + 8 =? k) && negb (x + 8 =? a) && negb (x + 16 =? k)) with true in W1 by lia. apply eqb_prop in W1. exact W1.
  - replace ((16 <=? x) && negb (x - 8 =? k) && negb (x - 8 =? a) && negb (x - 16 =? k)) with true in W0 by lia. apply eqb_prop in W0. exact W0.
Qed.

Lemma pin_ok_cap s x t : x < 64 -> t < 64 -> t <> k -> piece_attacks (abs_board p) s Pawn x t = true -> (pin_ok p k x t <-> pin_dir x (cdir x t)).
Proof.
  intros Hx Ht Htk Hatt. apply pin_ok_gen. intros a Hp. pose proof (step_sweep_at a x Hp) as S.
  apply andb_true_iff in S. destruct S as [_ S]. rewrite forallb_forall in S.
  assert (Hor : piece_attacks [] White Pawn x t || piece_attacks [] Black Pawn x t = true).
  { apply orb_true_iff. destruct s; [left|right]; exact Hatt. }
  assert (Hin : In t [x + 7; x + 9; x - 7; x - 9]).
  { rewrite !(pawn_att _ _ x t Hx Ht) in Hor. cbn [In]. lia. }
  specialize (S t Hin). cbv beta in S. rewrite Hor in S. replace ((t <? 64) && negb (t =? k)) with true in S by lia. cbn [andb] in S. apply eqb_prop in S. exact S.
Qed.
End PinDir.

Section PawnSets.
Variable p : position.
Hypothesis Hwf : wf p = true.
Variable k : N.
Hypothesis Hk : find_king (abs_board p) (turn p) = Some k.
Notation f := (cell_of_b (brd p)).
Notation us := (turn p).
Notation them := (opp_side (turn p)).

Lemma pawn_bit x : x < 64 -> (N.testbit (pieces p us Pawn) x = true <-> f x = Some (us, Pawn)).
Proof.
  intros Hx. rewrite (pieces_rep p f us Pawn x (Hrep_ p Hwf) Hx) by discriminate. destruct (f x) as [[c pc]|]; [|split; discriminate]. split.
  - intros H. apply andb_true_iff in H. destruct H as [H1 H2]. apply side_eqb_true in H1. subst c. destruct pc; try discriminate. reflexivity.
  - intros H. inversion H. subst. rewrite side_eqb_refl. reflexivity.
Qed.

Lemma pawns_lt : pieces p us Pawn < two64.
Proof. unfold pieces. apply land_lt. apply colour_lt. destruct (Hrep_ p Hwf) as [_ H]. exact H. Qed.

Lemma pin_dir_iff x D : x < 64 -> (exists pc, f x = Some (us, pc)) -> (pin_dir p k x D <-> (N.testbit (pinned p) x = true -> dirc k x = D)).
Proof.
  intros Hx Hown. rewrite (pinned_iff p k x Hwf Hk Hx). unfold pin_dir. split.
  - intros H [_ [a Hp]]. exact (H a Hp).
  - intros H a Hp. apply H. split; [exact Hown|exists a; exact Hp].
Qed.

Lemma krank_bit x : x < 64 -> k < 64 -> N.testbit (rank_mask (sq_rank k)) x = (rankof k =? rankof x).
Proof. intros Hx Hk64. rewrite rank_mask_bits. unfold sq_rank, rankof. lia. Qed.
Lemma kfile_bit x : x < 64 -> k < 64 -> N.testbit (file_mask (sq_file k)) x = (fileof k =? fileof x).
Proof. intros Hx Hk64. rewrite file_mask_bits by (unfold sq_file; lia). unfold sq_file, fileof. apply N.eqb_sym. Qed.

Lemma pinned_clear a x : Pinner f us k a x -> forall q, In q (between k x) -> N.testbit (occupied p) q = false.
Proof.
  intros Hp q Hq. destruct (pinner_facts p Hwf k Hk a x Hp) as (Ha & Hk64 & Hin & Hx & _).
  destruct Hp as (_ & pa & _ & _ & _ & _ & Hal).
  destruct (between_geo k a Hk64 Ha) as (_ & _ & _ & Hbt). destruct (Hbt x (between_sym a k x Ha Hk64 Hin)) as (_ & _ & _ & _ & _ & Hnn & Hsub).
  assert (Hqa : In q (between a k)) by (apply between_sym; try assumption; apply Hsub; exact Hq).
  assert (Hqx : q <> x) by (intros ->; contradiction).
  rewrite (occupied_rep p f q (Hrep_ p Hwf) (AttackFacts.between_lt a k q Ha Hk64 Hqa)). rewrite (Hal q Hqa Hqx). reflexivity.
Qed.

Lemma pinned_bits x : x < 64 ->
  (N.testbit (pinned p) x = false -> N.testbit (g_pinned_rook p) x = false /\ N.testbit (g_pinned_ne_sw p) x = false /\ N.testbit (g_pinned_nw_se p) x = false) /\
  (N.testbit (pinned p) x = true -> dirc k x < 4 /\ N.testbit (g_pinned_rook p) x = (dirc k x <? 2) /\
     N.testbit (g_pinned_ne_sw p) x = (dirc k x =? 2) /\ N.testbit (g_pinned_nw_se p) x = (dirc k x =? 3)).
Proof.
  intros Hx. destruct (k_lt p Hwf k Hk) as [Hk64 Hfk].
  unfold g_pinned_nw_se, g_pinned_ne_sw, g_pinned_bishop, g_pinned_rook, g_pin. rewrite (ksq_eq p Hwf k Hk).
  change (N.lor (ray_north_east k (occupied p)) (ray_south_west k (occupied p))) with (rays k (occupied p)).
  rewrite !N.lxor_spec, !N.land_spec, !N.lxor_spec, !N.lor_spec, !N.land_spec, (krank_bit x Hx Hk64), (kfile_bit x Hx Hk64).
  split; intros HP; rewrite HP; cbn [andb orb xorb]; [repeat split; reflexivity|].
  apply (pinned_iff p k x Hwf Hk Hx) in HP. destruct HP as [_ [a Hp]].
  destruct (pinner_facts p Hwf k Hk a x Hp) as (Ha & _ & Hin & _ & Hxk & _ & Hd4 & _).
  assert (HR : (rankof k =? rankof x) || (fileof k =? fileof x) = (dirc k x <? 2)).
  { unfold dirc. destruct (fileof k =? fileof x); [rewrite orb_true_r; reflexivity|]. destruct (rankof k =? rankof x); [reflexivity|].
    cbn [orb]. repeat match goal with |- context [if ?c then _ else _] => destruct c end; reflexivity. }
  rewrite HR.
  assert (HY : N.testbit (rays k (occupied p)) x = (dirc k x =? 2)).
  { destruct (N.eqb_spec (dirc k x) 2) as [E|E].
    - apply rays_vis; try assumption. exact (pinned_clear a x Hp).
    - destruct (N.testbit (rays k (occupied p)) x) eqn:EY; [|reflexivity]. apply rays_dir in EY; try assumption. contradiction. }
  rewrite HY. split; [exact Hd4|]. split; [reflexivity|].
  destruct (N.ltb_spec (dirc k x) 2) as [L|L]; destruct (N.eqb_spec (dirc k x) 2) as [E2|E2]; destruct (N.eqb_spec (dirc k x) 3) as [E3|E3]; cbn [andb orb xorb negb]; try lia; split; reflexivity.
Qed.

Definition cap_set_a : N := N.land (N.land (pieces p us Pawn) (not64 (g_pinned_rook p))) (not64 (g_pinned_nw_se p)).
Definition cap_set_b : N := N.land (N.land (pieces p us Pawn) (not64 (g_pinned_rook p))) (not64 (g_pinned_ne_sw p)).

Lemma cap_set_a_bit x : x < 64 -> (N.testbit cap_set_a x = true <-> f x = Some (us, Pawn) /\ pin_dir p k x 2).
Proof.
  intros Hx. unfold cap_set_a. rewrite !N.land_spec, !not64_spec. replace (x <? 64) with true by lia. cbn [andb].
  destruct (pinned_bits x Hx) as [B0 B1]. split.
  - intros H. apply andb_true_iff in H. destruct H as [H H3]. apply andb_true_iff in H. destruct H as [H1 H2]. apply (pawn_bit x Hx) in H1.
    split; [exact H1|]. apply (pin_dir_iff x 2 Hx (ex_intro _ Pawn H1)). intros HP. destruct (B1 HP) as (D4 & E1 & E2 & E3). rewrite E1 in H2. rewrite E3 in H3. lia.
  - intros [H1 H2']. pose proof (proj1 (pin_dir_iff x 2 Hx (ex_intro _ Pawn H1)) H2') as H2. apply (pawn_bit x Hx) in H1. rewrite H1. cbn [andb].
    destruct (N.testbit (pinned p) x) eqn:HP.
    + destruct (B1 eq_refl) as (D4 & E1 & E2 & E3). rewrite E1, E3, (H2 eq_refl). reflexivity.
    + destruct (B0 eq_refl) as (E1 & E2 & E3). rewrite E1, E3. reflexivity.
Qed.

Lemma cap_set_b_bit x : x < 64 -> (N.testbit cap_set_b x = true <-> f x = Some (us, Pawn) /\ pin_dir p k x 3).
Proof.
  intros Hx. unfold cap_set_b. rewrite !N.land_spec, !not64_spec. replace (x <? 64) with true by lia. cbn [andb].
  destruct (pinned_bits x Hx) as [B0 B1]. split.
  - intros H. apply andb_true_iff in H. destruct H as [H H3]. apply andb_true_iff in H. destruct H as [H1 H2]. apply (pawn_bit x Hx) in H1.
    split; [exact H1|]. apply (pin_dir_iff x 3 Hx (ex_intro _ Pawn H1)). intros HP. destruct (B1 HP) as (D4 & E1 & E2 & E3). rewrite E1 in H2. rewrite E2 in H3. lia.
  - intros [H1 H2']. pose proof (proj1 (pin_dir_iff x 3 Hx (ex_intro _ Pawn H1)) H2') as H2. apply (pawn_bit x Hx) in H1. rewrite H1. cbn [andb].
    destruct (N.testbit (pinned p) x) eqn:HP.
    + destruct (B1 eq_refl) as (D4 & E1 & E2 & E3). rewrite E1, E2, (H2 eq_refl). reflexivity.
    + destruct (B0 eq_refl) as (E1 & E2 & E3). rewrite E1, E2. reflexivity.
Qed.

Hypothesis HB : forall x, x < 64 -> (N.testbit (g_bishop_pinned p) x = true <-> (exists pc, f x = Some (us, pc)) /\ exists a, Pinner f us k a x /\ same_diag a k = true).
Hypothesis HR : forall x, x < 64 -> (N.testbit (g_rook_pinned p) x = true <-> (exists pc, f x = Some (us, pc)) /\ exists a, Pinner f us k a x /\ same_line a k = true).

Lemma push_pawns_bit x : x < 64 -> (N.testbit (g_push_pawns p) x = true <-> f x = Some (us, Pawn) /\ pin_dir p k x 0).
Proof.
  intros Hx. destruct (k_lt p Hwf k Hk) as [Hk64 Hfk]. unfold g_push_pawns. rewrite (ksq_eq p Hwf k Hk).
  rewrite N.land_spec, not64_spec, N.lor_spec, N.land_spec, (krank_bit x Hx Hk64). replace (x <? 64) with true by lia. cbn [andb]. split.
  - intros H. apply andb_true_iff in H. destruct H as [H1 H2]. apply (pawn_bit x Hx) in H1. split; [exact H1|].
    apply negb_true_iff in H2. apply orb_false_iff in H2. destruct H2 as [H2 H3].
    intros a Hp. destruct (pinner_facts p Hwf k Hk a x Hp) as (Ha & _ & Hin & _ & Hxk & _ & Hd4 & HL & HD).
    destruct (N.testbit (g_bishop_pinned p) x) eqn:EB; [discriminate|].
    assert (HnD : same_diag a k = false).
    { destruct (same_diag a k) eqn:E; [|reflexivity]. assert (T : N.testbit (g_bishop_pinned p) x = true) by (apply (HB x Hx); split; [exists Pawn; exact H1|]; exists a; split; assumption). congruence. }
    destruct (N.testbit (g_rook_pinned p) x) eqn:ER.
    + cbn [andb] in H2. assert (Hd2 : dirc k x < 2) by (rewrite HnD in HD; symmetry in HD; apply N.leb_gt in HD; exact HD). clear HL HD Hd4. unfold dirc in *. destruct (fileof k =? fileof x); [reflexivity|]. rewrite H2 in *.
      repeat match type of Hd2 with context [if ?c then _ else _] => destruct c end; lia.
    + assert (HnL : same_line a k = false).
      { destruct (same_line a k) eqn:E; [|reflexivity]. assert (T : N.testbit (g_rook_pinned p) x = true) by (apply (HR x Hx); split; [exists Pawn; exact H1|]; exists a; split; assumption). congruence. }
      rewrite HnD in HD. rewrite HnL in HL. symmetry in HD, HL. apply N.leb_gt in HD. apply N.ltb_ge in HL. lia.
  - intros [H1 H2]. rewrite (proj2 (pawn_bit x Hx) H1). cbn [andb]. apply negb_true_iff. apply orb_false_iff. split.
    + destruct (N.testbit (g_rook_pinned p) x) eqn:ER; [|reflexivity]. cbn [andb]. apply (HR x Hx) in ER. destruct ER as [_ [a [Hp _]]].
      pose proof (H2 a Hp) as E. destruct (pinner_facts p Hwf k Hk a x Hp) as (Ha & _ & Hin & _ & Hxk & _).
      unfold dirc in E. destruct (fileof k =? fileof x) eqn:EF; [|destruct (rankof k =? rankof x); [discriminate|repeat match type of E with context [if ?c then _ else _] => destruct c end; discriminate]].
      destruct (rankof k =? rankof x) eqn:ERk; [|reflexivity]. exfalso. apply Hxk. unfold fileof, rankof in *. lia.
    + destruct (N.testbit (g_bishop_pinned p) x) eqn:EB; [|reflexivity]. apply (HB x Hx) in EB. destruct EB as [_ [a [Hp HD']]].
      pose proof (H2 a Hp) as E. destruct (pinner_facts p Hwf k Hk a x Hp) as (_ & _ & _ & _ & _ & _ & _ & _ & HD). rewrite E in HD. rewrite HD in HD'. discriminate.
Qed.
End PawnSets.

(* ---------- shifted emission blocks ---------- *)
Lemma testbit_lt64 X i : X < two64 -> N.testbit X i = true -> i < 64.
Proof. intros HX H. destruct (N.lt_ge_cases i 64) as [L|L]; [exact L|]. rewrite (proj1 (lt64_iff X) HX i L) in H. discriminate. Qed.

Definition shift_ok (SH : N -> N) (REL : N -> N -> Prop) (BK : N -> N) : Prop :=
  forall X, X < two64 -> SH X < two64 /\ forall t, t < 64 ->
    (N.testbit (SH X) t = true <-> exists fr, fr < 64 /\ REL fr t /\ N.testbit X fr = true) /\ (forall fr, fr < 64 -> REL fr t -> BK t = fr).

Ltac back_at t Ht := let S := fresh "S" in pose proof (forallb_all64 _ back_sweep t Ht) as S; cbv beta in S;
  repeat (apply andb_true_iff in S; let H' := fresh "Bk" in destruct S as [S H']).

Lemma sh_n : shift_ok north (fun fr t => t = fr + 8) sq_south.
Proof.
  intros X HX. split; [apply north_lt|]. intros t Ht. split.
  - pose proof (north_spec X t Ht) as E. unfold mem in E. rewrite E. split.
    + intros H. apply andb_true_iff in H. destruct H as [H1 H2]. exists (t - 8). split; [lia|]. split; [lia|exact H2].
    + intros (fr & Hfr & -> & H). replace (8 <=? fr + 8) with true by lia. replace (fr + 8 - 8) with fr by lia. exact H.
  - intros fr Hfr ->. back_at (fr + 8) Ht. replace (8 <=? fr + 8) with true in S by lia. lia.
Qed.
Lemma sh_s : shift_ok south (fun fr t => fr = t + 8) sq_north.
Proof.
  intros X HX. split; [apply south_lt; exact HX|]. intros t Ht. split.
  - pose proof (south_spec X t) as E. unfold mem in E. rewrite E. split.
    + intros H. exists (t + 8). split; [apply (testbit_lt64 X); assumption|]. split; [reflexivity|exact H].
    + intros (fr & Hfr & -> & H). exact H.
  - intros fr Hfr ->. back_at t Ht. replace (t <? 56) with true in Bk5 by lia. lia.
Qed.
Lemma sh_ne : shift_ok (fun b => east (north b)) (fun fr t => t = fr + 9 /\ fileof t <> 0) (fun t => sq_west (sq_south t)).
Proof.
  intros X HX. split; [apply east_lt|]. intros t Ht. split.
  - pose proof (east_spec (north X) t Ht) as E. unfold mem in E. rewrite E. unfold sq_file, fileof. split.
    + intros H. apply andb_true_iff in H. destruct H as [H1 H2]. assert (Ht1 : t - 1 < 64) by lia.
      pose proof (north_spec X (t - 1) Ht1) as E2. unfold mem in E2. rewrite E2 in H2. apply andb_true_iff in H2. destruct H2 as [H2 H3].
      exists (t - 1 - 8). split; [lia|]. split; [lia|exact H3].
    + intros (fr & Hfr & [-> Hf] & H). apply andb_true_iff. split; [lia|]. assert (Ht1 : fr + 9 - 1 < 64) by lia.
      pose proof (north_spec X (fr + 9 - 1) Ht1) as E2. unfold mem in E2. rewrite E2. replace (fr + 9 - 1 - 8) with fr by lia. rewrite H. lia.
  - intros fr Hfr [-> _]. back_at (fr + 9) Ht. replace (9 <=? fr + 9) with true in Bk4 by lia. lia.
Qed.
Lemma sh_nw : shift_ok (fun b => west (north b)) (fun fr t => t = fr + 7 /\ fileof t <> 7) (fun t => sq_east (sq_south t)).
Proof.
  intros X HX. split; [apply west_lt, north_lt|]. intros t Ht. split.
  - pose proof (west_spec (north X) t Ht) as E. unfold mem in E. rewrite E. unfold sq_file, fileof. split.
    + intros H. apply andb_true_iff in H. destruct H as [H1 H2]. assert (Ht1 : t + 1 < 64) by lia.
      pose proof (north_spec X (t + 1) Ht1) as E2. unfold mem in E2. rewrite E2 in H2. apply andb_true_iff in H2. destruct H2 as [H2 H3].
      exists (t + 1 - 8). split; [lia|]. split; [lia|exact H3].
    + intros (fr & Hfr & [-> Hf] & H). apply andb_true_iff. split; [lia|]. assert (Ht1 : fr + 7 + 1 < 64) by lia.
      pose proof (north_spec X (fr + 7 + 1) Ht1) as E2. unfold mem in E2. rewrite E2. replace (fr + 7 + 1 - 8) with fr by lia. rewrite H. lia.
  - intros fr Hfr [-> _]. back_at (fr + 7) Ht. replace (7 <=? fr + 7) with true in Bk3 by lia. lia.
Qed.
Lemma sh_se : shift_ok (fun b => east (south b)) (fun fr t => fr = t + 7 /\ fileof t <> 0) (fun t => sq_west (sq_north t)).
Proof.
  intros X HX. split; [apply east_lt|]. intros t Ht. split.
  - pose proof (east_spec (south X) t Ht) as E. unfold mem in E. rewrite E. unfold sq_file, fileof.
    pose proof (south_spec X (t - 1)) as E2. unfold mem in E2. rewrite E2. split.
    + intros H. apply andb_true_iff in H. destruct H as [H1 H2]. exists (t - 1 + 8). split; [apply (testbit_lt64 X); assumption|]. split; [lia|exact H2].
    + intros (fr & Hfr & [-> Hf] & H). apply andb_true_iff. split; [lia|]. replace (t - 1 + 8) with (t + 7) by lia. exact H.
  - intros fr Hfr [-> _]. back_at t Ht. replace (t <? 57) with true in Bk2 by lia. lia.
Qed.
Lemma sh_sw : shift_ok (fun b => west (south b)) (fun fr t => fr = t + 9 /\ fileof t <> 7) (fun t => sq_east (sq_north t)).
Proof.
  intros X HX. split; [apply west_lt, south_lt, HX|]. intros t Ht. split.
  - pose proof (west_spec (south X) t Ht) as E. unfold mem in E. rewrite E. unfold sq_file, fileof.
    pose proof (south_spec X (t + 1)) as E2. unfold mem in E2. rewrite E2. split.
    + intros H. apply andb_true_iff in H. destruct H as [H1 H2]. exists (t + 1 + 8). split; [apply (testbit_lt64 X); assumption|]. split; [lia|exact H2].
    + intros (fr & Hfr & [-> Hf] & H). apply andb_true_iff. split; [lia|]. replace (t + 1 + 8) with (t + 9) by lia. exact H.
  - intros fr Hfr [-> _]. back_at t Ht. replace (t <? 55) with true in Bk1 by lia. lia.
Qed.

Lemma emit_shift_iff SH REL BK (G : N -> N -> list move) X AL m : shift_ok SH REL BK -> X < two64 ->
  (In m (emit (N.land (SH X) AL) (fun sq => G (BK sq) sq)) <->
   exists fr t, fr < 64 /\ t < 64 /\ REL fr t /\ N.testbit X fr = true /\ N.testbit AL t = true /\ In m (G fr t)).
Proof.
  intros Hs HX. destruct (Hs X HX) as [Hlt Hsp]. rewrite in_emit_iff by (apply land_lt; exact Hlt). split.
  - intros (t & Ht & Hb & Hm). rewrite N.land_spec in Hb. apply andb_true_iff in Hb. destruct Hb as [Hb1 Hb2].
    destruct (Hsp t Ht) as [Hiff Hbk]. apply Hiff in Hb1. destruct Hb1 as (fr & Hfr & Hrel & Hx). rewrite (Hbk fr Hfr Hrel) in Hm.
    exists fr, t. repeat split; assumption.
  - intros (fr & t & Hfr & Ht & Hrel & Hx & Hal & Hm). destruct (Hsp t Ht) as [Hiff Hbk]. exists t. split; [exact Ht|]. split.
    + rewrite N.land_spec, Hal, andb_true_r. apply Hiff. exists fr. repeat split; assumption.
    + rewrite (Hbk fr Hfr Hrel). exact Hm.
Qed.

Definition fwd_ok (s : side) (q : N) : bool := match s with White => rankof q <? 7 | Black => 0 <? rankof q end.
Definition fwd_sq (s : side) (q : N) : N := match s with White => q + 8 | Black => q - 8 end.
Definition start_rank (s : side) (q : N) : bool := match s with White => rankof q =? 1 | Black => rankof q =? 6 end.

Lemma in_promos fr t m : In m (promos fr t) <-> exists pr, In pr promo_pieces /\ m = mkMove Promo fr t Pawn NoPiece pr.
Proof.
  unfold promos, promo_pieces. cbn [In]. split.
  - intros [<-|[<-|[<-|[<-|[]]]]]; eexists; (split; [|reflexivity]); tauto.
  - intros (pr & [<-|[<-|[<-|[<-|[]]]]] & ->); tauto.
Qed.
Lemma in_promo_caps fr t cp m : In m (promo_caps fr t cp) <-> exists pr, In pr promo_pieces /\ m = mkMove PromoCapture fr t Pawn cp pr.
Proof.
  unfold promo_caps, promo_pieces. cbn [In]. split.
  - intros [<-|[<-|[<-|[<-|[]]]]]; eexists; (split; [|reflexivity]); tauto.
  - intros (pr & [<-|[<-|[<-|[<-|[]]]]] & ->); tauto.
Qed.

Definition push_form (s : side) (E : N -> Prop) (fr t : N) (m : move) : Prop :=
  (fwd_ok s fr = true /\ t = fwd_sq s fr /\
     ((last_rank s t = false /\ m = mkMove Normal fr t Pawn NoPiece NoPiece) \/
      (last_rank s t = true /\ exists pr, In pr promo_pieces /\ m = mkMove Promo fr t Pawn NoPiece pr))) \/
  (fwd_ok s fr = true /\ E (fwd_sq s fr) /\ start_rank s fr = true /\ fwd_ok s (fwd_sq s fr) = true /\
     t = fwd_sq s (fwd_sq s fr) /\ m = mkMove Double fr t Pawn NoPiece NoPiece).

Section PushAbs.
Variables PW AL EMP : N.
Variables P Q E : N -> Prop.
Hypothesis HPW : PW < two64.
Hypothesis HP : forall x, x < 64 -> (N.testbit PW x = true <-> P x).
Hypothesis HQ : forall t, t < 64 -> (N.testbit AL t = true <-> Q t).
Hypothesis HE : forall t, t < 64 -> (N.testbit EMP t = true <-> E t).

Lemma rank7_bit x : N.testbit Rank7 x = (48 <=? x) && (x <? 56). Proof. unfold Rank7. rewrite rank_mask_bits. reflexivity. Qed.
Lemma rank2_bit x : N.testbit Rank2 x = (8 <=? x) && (x <? 16). Proof. unfold Rank2. rewrite rank_mask_bits. reflexivity. Qed.
Lemma rank4_bit x : N.testbit Rank4 x = (24 <=? x) && (x <? 32). Proof. unfold Rank4. rewrite rank_mask_bits. reflexivity. Qed.
Lemma rank5_bit x : N.testbit Rank5 x = (32 <=? x) && (x <? 40). Proof. unfold Rank5. rewrite rank_mask_bits. reflexivity. Qed.

Lemma pushes_abs_white m :
  In m (pawn_pushes White PW AL EMP) <-> exists fr t, fr < 64 /\ t < 64 /\ P fr /\ Q t /\ push_form White E fr t m.
Proof.
  unfold pawn_pushes. rewrite !in_app_iff.
  pose proof (emit_shift_iff north _ sq_south (fun fr t => [mkMove Normal fr t Pawn NoPiece NoPiece]) (N.land PW (not64 Rank7)) AL m sh_n (land_lt _ _ HPW)) as B1.
  pose proof (emit_shift_iff north _ sq_south (fun fr t => promos fr t) (N.land PW Rank7) AL m sh_n (land_lt _ _ HPW)) as B2.
  cbv beta in B1, B2. rewrite B1, B2. clear B1 B2.
  rewrite in_emit_iff by (apply land_lt, land_lt, north_lt). unfold push_form. cbn [fwd_ok fwd_sq last_rank start_rank]. split.
  - intros [H|[H|H]].
    + destruct H as (fr & t & Hfr & Ht & -> & Hx & Hal & [<-|[]]). rewrite N.land_spec, not64_spec, rank7_bit in Hx. apply andb_true_iff in Hx. destruct Hx as [Hx1 Hx2].
      exists fr, (fr + 8). split; [exact Hfr|]. split; [exact Ht|]. split; [apply HP; assumption|]. split; [apply HQ; assumption|].
      left. unfold rankof. split; [lia|]. split; [reflexivity|]. left. split; [lia|reflexivity].
    + destruct H as (fr & t & Hfr & Ht & -> & Hx & Hal & Hm). rewrite N.land_spec, rank7_bit in Hx. apply andb_true_iff in Hx. destruct Hx as [Hx1 Hx2].
      apply in_promos in Hm.
      exists fr, (fr + 8). split; [exact Hfr|]. split; [exact Ht|]. split; [apply HP; assumption|]. split; [apply HQ; assumption|].
      left. unfold rankof. split; [lia|]. split; [reflexivity|]. right. split; [lia|exact Hm].
    + destruct H as (t & Ht & Hb & [<-|[]]). rewrite !N.land_spec, rank4_bit in Hb. apply andb_true_iff in Hb. destruct Hb as [Hb Hal]. apply andb_true_iff in Hb. destruct Hb as [Hb H4].
      pose proof (north_spec (N.land EMP (north PW)) t Ht) as E1. unfold mem in E1. rewrite E1 in Hb. apply andb_true_iff in Hb. destruct Hb as [_ Hb].
      rewrite N.land_spec in Hb. apply andb_true_iff in Hb. destruct Hb as [He Hb].
      assert (Ht8 : t - 8 < 64) by lia. pose proof (north_spec PW (t - 8) Ht8) as E2. unfold mem in E2. rewrite E2 in Hb. apply andb_true_iff in Hb. destruct Hb as [_ Hb].
      back_at t Ht. replace (16 <=? t) with true in Bk0 by lia.
      exists (t - 8 - 8), t. split; [lia|]. split; [exact Ht|]. split; [apply HP; [lia|exact Hb]|]. split; [apply HQ; assumption|].
      right. unfold rankof. split; [lia|]. split; [replace (t - 8 - 8 + 8) with (t - 8) by lia; apply HE; assumption|]. split; [lia|]. split; [lia|]. split; [lia|].
      replace (t - 8 - 8) with (t - 16) by lia. f_equal. lia.
  - intros (fr & t & Hfr & Ht & Hp & Hq & [(F1 & -> & [[L ->]|(L & Hm)])|(F1 & He & Sr & F2 & -> & ->)]); unfold rankof in *.
    + left. exists fr, (fr + 8). split; [exact Hfr|]. split; [exact Ht|]. split; [reflexivity|]. split; [|split; [apply HQ; assumption|left; reflexivity]].
      rewrite N.land_spec, not64_spec, rank7_bit. rewrite (proj2 (HP fr Hfr) Hp). lia.
    + right. left. exists fr, (fr + 8). split; [exact Hfr|]. split; [exact Ht|]. split; [reflexivity|]. split; [|split; [apply HQ; assumption|apply in_promos; exact Hm]].
      rewrite N.land_spec, rank7_bit. rewrite (proj2 (HP fr Hfr) Hp). lia.
    + right. right. exists (fr + 8 + 8). split; [exact Ht|]. split.
      * rewrite !N.land_spec, rank4_bit. rewrite (proj2 (HQ _ Ht) Hq).
        pose proof (north_spec (N.land EMP (north PW)) (fr + 8 + 8) Ht) as E1. unfold mem in E1. rewrite E1. rewrite N.land_spec.
        replace (fr + 8 + 8 - 8) with (fr + 8) by lia. assert (Ht8 : fr + 8 < 64) by lia. rewrite (proj2 (HE _ Ht8) He).
        pose proof (north_spec PW (fr + 8) Ht8) as E2. unfold mem in E2. rewrite E2. replace (fr + 8 - 8) with fr by lia. rewrite (proj2 (HP fr Hfr) Hp). lia.
      * back_at (fr + 8 + 8) Ht. replace (16 <=? fr + 8 + 8) with true in Bk0 by lia. left. f_equal. lia.
Qed.

Lemma pushes_abs_black m :
  In m (pawn_pushes Black PW AL EMP) <-> exists fr t, fr < 64 /\ t < 64 /\ P fr /\ Q t /\ push_form Black E fr t m.
Proof.
  unfold pawn_pushes. rewrite !in_app_iff.
  pose proof (emit_shift_iff south _ sq_north (fun fr t => [mkMove Normal fr t Pawn NoPiece NoPiece]) (N.land PW (not64 Rank2)) AL m sh_s (land_lt _ _ HPW)) as B1.
  pose proof (emit_shift_iff south _ sq_north (fun fr t => promos fr t) (N.land PW Rank2) AL m sh_s (land_lt _ _ HPW)) as B2.
  cbv beta in B1, B2. rewrite B1, B2. clear B1 B2.
  assert (HPW' : N.land EMP (south PW) < two64) by (rewrite N.land_comm; apply land_lt, south_lt, HPW).
  rewrite in_emit_iff by (apply land_lt, land_lt, south_lt, HPW'). unfold push_form. cbn [fwd_ok fwd_sq last_rank start_rank]. split.
  - intros [H|[H|H]].
    + destruct H as (fr & t & Hfr & Ht & -> & Hx & Hal & [<-|[]]). rewrite N.land_spec, not64_spec, rank2_bit in Hx. apply andb_true_iff in Hx. destruct Hx as [Hx1 Hx2].
      exists (t + 8), t. split; [exact Hfr|]. split; [exact Ht|]. split; [apply HP; assumption|]. split; [apply HQ; assumption|].
      left. unfold rankof. split; [lia|]. split; [lia|]. left. split; [lia|reflexivity].
    + destruct H as (fr & t & Hfr & Ht & -> & Hx & Hal & Hm). rewrite N.land_spec, rank2_bit in Hx. apply andb_true_iff in Hx. destruct Hx as [Hx1 Hx2].
      apply in_promos in Hm.
      exists (t + 8), t. split; [exact Hfr|]. split; [exact Ht|]. split; [apply HP; assumption|]. split; [apply HQ; assumption|].
      left. unfold rankof. split; [lia|]. split; [lia|]. right. split; [lia|exact Hm].
    + destruct H as (t & Ht & Hb & [<-|[]]). rewrite !N.land_spec, rank5_bit in Hb. apply andb_true_iff in Hb. destruct Hb as [Hb Hal]. apply andb_true_iff in Hb. destruct Hb as [Hb H4].
      pose proof (south_spec (N.land EMP (south PW)) t) as E1. unfold mem in E1. rewrite E1 in Hb.
      rewrite N.land_spec in Hb. apply andb_true_iff in Hb. destruct Hb as [He Hb].
      pose proof (south_spec PW (t + 8)) as E2. unfold mem in E2. rewrite E2 in Hb.
      back_at t Ht. replace (t <? 48) with true in Bk by lia.
      exists (t + 8 + 8), t. split; [lia|]. split; [exact Ht|]. split; [apply HP; [lia|exact Hb]|]. split; [apply HQ; assumption|].
      right. unfold rankof. split; [lia|]. split; [replace (t + 8 + 8 - 8) with (t + 8) by lia; apply HE; [lia|assumption]|]. split; [lia|]. split; [lia|]. split; [lia|].
      replace (t + 8 + 8) with (t + 16) by lia. f_equal. lia.
  - intros (fr & t & Hfr & Ht & Hp & Hq & [(F1 & -> & [[L ->]|(L & Hm)])|(F1 & He & Sr & F2 & -> & ->)]); unfold rankof in *.
    + left. exists fr, (fr - 8). split; [exact Hfr|]. split; [exact Ht|]. split; [lia|]. split; [|split; [apply HQ; assumption|left; reflexivity]].
      rewrite N.land_spec, not64_spec, rank2_bit. rewrite (proj2 (HP fr Hfr) Hp). lia.
    + right. left. exists fr, (fr - 8). split; [exact Hfr|]. split; [exact Ht|]. split; [lia|]. split; [|split; [apply HQ; assumption|apply in_promos; exact Hm]].
      rewrite N.land_spec, rank2_bit. rewrite (proj2 (HP fr Hfr) Hp). lia.
    + right. right. exists (fr - 8 - 8). split; [exact Ht|]. split.
      * rewrite !N.land_spec, rank5_bit. rewrite (proj2 (HQ _ Ht) Hq).
        pose proof (south_spec (N.land EMP (south PW)) (fr - 8 - 8)) as E1. unfold mem in E1. rewrite E1. rewrite N.land_spec.
        replace (fr - 8 - 8 + 8) with (fr - 8) by lia. assert (Ht8 : fr - 8 < 64) by lia. rewrite (proj2 (HE _ Ht8) He).
        pose proof (south_spec PW (fr - 8)) as E2. unfold mem in E2. rewrite E2. replace (fr - 8 + 8) with fr by lia. rewrite (proj2 (HP fr Hfr) Hp). lia.
      * back_at (fr - 8 - 8) Ht. replace (fr - 8 - 8 <? 48) with true in Bk by lia. left. f_equal. lia.
Qed.
End PushAbs.

(* ---------- specification side ---------- *)
Definition pawn_push_list (b : sboard) (s : side) (fr : N) : list move :=
  if fwd_ok s fr then
    if is_empty b (fwd_sq s fr) then
      (if last_rank s (fwd_sq s fr) then map (fun pr => mkMove Promo fr (fwd_sq s fr) Pawn NoPiece pr) promo_pieces
       else [mkMove Normal fr (fwd_sq s fr) Pawn NoPiece NoPiece]) ++
      (if start_rank s fr then
         if fwd_ok s (fwd_sq s fr) then
           if is_empty b (fwd_sq s (fwd_sq s fr)) then [mkMove Double fr (fwd_sq s (fwd_sq s fr)) Pawn NoPiece NoPiece] else []
         else []
       else [])
    else []
  else [].

Definition pawn_cap_list (sp : spos) (fr to : N) : list move :=
  let b := s_board sp in let s := s_turn sp in
      if piece_attacks b s Pawn fr to then
        match at_sq b to with
        | Some (c, pc) =>
          if negb (side_eqb c s) && negb (piece_eqb pc King) then
            if last_rank s to then map (fun pr => mkMove PromoCapture fr to Pawn pc pr) promo_pieces
            else [mkMove Capture fr to Pawn pc NoPiece]
          else []
        | None =>
          match s_ep sp with
          | Some e => if e =? to then [mkMove Enpassant fr to Pawn Pawn NoPiece] else []
          | None => []
          end
        end
      else [].

Lemma pawn_candidates_eq sp fr : pawn_candidates sp fr = pawn_push_list (s_board sp) (s_turn sp) fr ++ flat_map (pawn_cap_list sp fr) squares.
Proof. unfold pawn_candidates, pawn_push_list, pawn_cap_list. cbv zeta. destruct (s_turn sp); cbn [fwd_ok fwd_sq start_rank]; f_equal; repeat match goal with |- context [if ?c then Some _ else None] => destruct c end; reflexivity. Qed.

Lemma promo_not_king pr : In pr promo_pieces -> pr <> King.
Proof. intros H E. subst pr. cbn in H. repeat (destruct H as [H|H]; [discriminate|]). exact H. Qed.

Section PawnSpec.
Variable p : position.
Hypothesis Hwf : wf p = true.
Variable k : N.
Hypothesis Hk : find_king (abs_board p) (turn p) = Some k.
Hypothesis Huk : forall a, a < 64 -> cell_of_b (brd p) a = Some (turn p, King) -> a = k.
Notation f := (cell_of_b (brd p)).
Notation us := (turn p).
Notation them := (opp_side (turn p)).

Definition pawn_move (fr t : N) (m : move) : Prop :=
  f fr = Some (us, Pawn) /\ resolves p k t /\ pin_ok p k fr t /\
  ( (fwd_ok us fr = true /\ t = fwd_sq us fr /\ f t = None /\
       ((last_rank us t = false /\ m = mkMove Normal fr t Pawn NoPiece NoPiece) \/
        (last_rank us t = true /\ exists pr, In pr promo_pieces /\ m = mkMove Promo fr t Pawn NoPiece pr)))
  \/ (fwd_ok us fr = true /\ f (fwd_sq us fr) = None /\ start_rank us fr = true /\ fwd_ok us (fwd_sq us fr) = true /\
       t = fwd_sq us (fwd_sq us fr) /\ f t = None /\ m = mkMove Double fr t Pawn NoPiece NoPiece)
  \/ (piece_attacks (abs_board p) us Pawn fr t = true /\ exists cp, f t = Some (them, cp) /\ cp <> King /\
       ((last_rank us t = false /\ m = mkMove Capture fr t Pawn cp NoPiece) \/
        (last_rank us t = true /\ exists pr, In pr promo_pieces /\ m = mkMove PromoCapture fr t Pawn cp pr)))).

Lemma fwd_sq_lt s q : q < 64 -> fwd_ok s q = true -> fwd_sq s q < 64 /\ fwd_sq s q <> q.
Proof. unfold fwd_ok, fwd_sq, rankof. destruct s; intros H1 H2; lia. Qed.

Lemma pawn_safe ty fr t cap pr :
  (match ty with Normal | Capture | Double | Promo | PromoCapture => True | _ => False end) ->
  fr < 64 -> t < 64 -> fr <> t -> f fr = Some (us, Pawn) -> (f t = None \/ exists cp', f t = Some (them, cp')) ->
  (match ty with Promo | PromoCapture => pr <> King | _ => True end) ->
  (leaves_king_safe (abs p) (mkMove ty fr t Pawn cap pr) = true <-> resolves p k t /\ pin_ok p k fr t).
Proof.
  intros Hty Hfr Ht Hne Hf Htgt Hpr. destruct (k_lt p Hwf k Hk) as [Hk64 Hfk].
  assert (Htk : t <> k) by (intros ->; destruct Htgt as [E|[cp' E]]; rewrite Hfk in E; [discriminate|inversion E; destruct us; discriminate]).
  apply (simple_safe_iff p Hwf k Hk Huk ty fr t Pawn cap pr); try assumption. discriminate.
Qed.

Theorem spec_pawn_iff m : m_type m <> Enpassant ->
  ((In m (spec_moves (abs p)) /\ m_piece m = Pawn) <-> exists fr t, fr < 64 /\ t < 64 /\ pawn_move fr t m).
Proof.
  intros Hnep. destruct (k_lt p Hwf k Hk) as [Hk64 Hfk]. split.
  - intros [Hin Hpc]. unfold spec_moves in Hin. apply filter_In in Hin. destruct Hin as [Hps Hsafe].
    unfold pseudo_moves in Hps. apply in_app_or in Hps. destruct Hps as [Hps|Hps].
    2:{ exfalso. cbn [abs s_turn] in Hps. destruct us; apply in_app_or in Hps; destruct Hps as [H|H]; apply castle_candidate_piece in H; congruence. }
    apply in_flat_map in Hps. destruct Hps as [fr [Hfr Hps]]. apply in_squares in Hfr. cbn [abs s_board s_turn] in Hps.
    rewrite at_sq_abs_board in Hps by exact Hfr. change (cell_of p fr) with (f fr) in Hps.
    destruct (f fr) as [[c pc']|] eqn:Effr; [|destruct Hps]. destruct (side_eqb c us) eqn:Ec; [|destruct Hps]. apply side_eqb_true in Ec. subst c.
    assert (Hcand : In m (pawn_candidates (abs p) fr) /\ pc' = Pawn).
    { destruct pc'; cbv iota in Hps;
        try (match type of Hps with In _ (piece_candidates _ _ ?q) => pose proof (piece_candidates_labels (abs p) fr q m Hps) as (E & _) end;
             rewrite Hpc in E; discriminate).
      - split; [exact Hps|reflexivity].
      - destruct Hps. }
    destruct Hcand as [Hcand ->]. clear Hps. rewrite pawn_candidates_eq in Hcand. cbn [abs s_board s_turn] in Hcand.
    apply in_app_or in Hcand. destruct Hcand as [Hc|Hc].
    + unfold pawn_push_list in Hc. destruct (fwd_ok us fr) eqn:Efw; [|destruct Hc].
      destruct (fwd_sq_lt us fr Hfr Efw) as [Ht1 Hne1].
      unfold is_empty in Hc. rewrite at_sq_abs_board in Hc by exact Ht1. change (cell_of p (fwd_sq us fr)) with (f (fwd_sq us fr)) in Hc.
      destruct (f (fwd_sq us fr)) eqn:Et1; [destruct Hc|].
      apply in_app_or in Hc. destruct Hc as [Hc|Hc].
      * exists fr, (fwd_sq us fr). split; [exact Hfr|]. split; [exact Ht1|].
        destruct (last_rank us (fwd_sq us fr)) eqn:Elr.
        -- apply in_map_iff in Hc. destruct Hc as [pr [<- Hpr]].
           apply (pawn_safe Promo fr _ NoPiece pr I Hfr Ht1 (not_eq_sym Hne1) Effr (or_introl Et1) (promo_not_king pr Hpr)) in Hsafe. destruct Hsafe as [Hr Hp].
           split; [exact Effr|]. split; [exact Hr|]. split; [exact Hp|]. left. split; [first [assumption|reflexivity]|]. split; [first [assumption|reflexivity]|]. split; [exact Et1|].
           right. split; [first [assumption|reflexivity]|]. exists pr. split; [exact Hpr|reflexivity].
        -- destruct Hc as [<-|[]].
           apply (pawn_safe Normal fr _ NoPiece NoPiece I Hfr Ht1 (not_eq_sym Hne1) Effr (or_introl Et1) I) in Hsafe. destruct Hsafe as [Hr Hp].
           split; [exact Effr|]. split; [exact Hr|]. split; [exact Hp|]. left. split; [first [assumption|reflexivity]|]. split; [first [assumption|reflexivity]|]. split; [exact Et1|].
           left. split; first [assumption|reflexivity].
      * destruct (start_rank us fr) eqn:Esr; [|destruct Hc]. destruct (fwd_ok us (fwd_sq us fr)) eqn:Efw2; [|destruct Hc].
        destruct (fwd_sq_lt us _ Ht1 Efw2) as [Ht2 Hne2].
        rewrite at_sq_abs_board in Hc by exact Ht2. change (cell_of p (fwd_sq us (fwd_sq us fr))) with (f (fwd_sq us (fwd_sq us fr))) in Hc.
        destruct (f (fwd_sq us (fwd_sq us fr))) eqn:Et2; [destruct Hc|]. destruct Hc as [<-|[]].
        assert (Hne : fr <> fwd_sq us (fwd_sq us fr)) by (intros E; rewrite <- E in Et2; congruence).
        apply (pawn_safe Double fr _ NoPiece NoPiece I Hfr Ht2 Hne Effr (or_introl Et2) I) in Hsafe. destruct Hsafe as [Hr Hp].
        exists fr, (fwd_sq us (fwd_sq us fr)). split; [exact Hfr|]. split; [exact Ht2|].
        split; [exact Effr|]. split; [exact Hr|]. split; [exact Hp|]. right. left. repeat split; assumption.
    + apply in_flat_map in Hc. destruct Hc as [t [Ht Hc]]. apply in_squares in Ht. unfold pawn_cap_list in Hc. cbn [abs s_board s_turn s_ep] in Hc.
      destruct (piece_attacks (abs_board p) us Pawn fr t) eqn:Hatt; [|destruct Hc].
      rewrite at_sq_abs_board in Hc by exact Ht. change (cell_of p t) with (f t) in Hc.
      assert (Hne : fr <> t) by (intros ->; rewrite piece_attacks_self in Hatt by exact Ht; discriminate).
      destruct (f t) as [[c cp]|] eqn:Eft.
      * destruct (negb (side_eqb c us) && negb (piece_eqb cp King)) eqn:Econd; [|destruct Hc].
        apply andb_true_iff in Econd. destruct Econd as [E1 E2]. apply negb_true_iff in E1, E2. apply opp_of_neq' in E1. subst c.
        assert (HcpK : cp <> King) by (intros ->; discriminate).
        exists fr, t. split; [exact Hfr|]. split; [exact Ht|].
        destruct (last_rank us t) eqn:Elr.
        -- apply in_map_iff in Hc. destruct Hc as [pr [<- Hpr]].
           apply (pawn_safe PromoCapture fr t cp pr I Hfr Ht Hne Effr (or_intror (ex_intro _ cp Eft)) (promo_not_king pr Hpr)) in Hsafe. destruct Hsafe as [Hr Hp].
           split; [exact Effr|]. split; [exact Hr|]. split; [exact Hp|]. right. right. split; [exact Hatt|]. exists cp. split; [first [exact Eft|reflexivity]|]. split; [exact HcpK|].
           right. split; [first [assumption|reflexivity]|]. exists pr. split; [exact Hpr|reflexivity].
        -- destruct Hc as [<-|[]].
           apply (pawn_safe Capture fr t cp NoPiece I Hfr Ht Hne Effr (or_intror (ex_intro _ cp Eft)) I) in Hsafe. destruct Hsafe as [Hr Hp].
           split; [exact Effr|]. split; [exact Hr|]. split; [exact Hp|]. right. right. split; [exact Hatt|]. exists cp. split; [first [exact Eft|reflexivity]|]. split; [exact HcpK|].
           left. split; first [assumption|reflexivity].
      * exfalso. destruct (if ep p =? OffSq then None else Some (ep p)) as [e|]; [|destruct Hc]. destruct (e =? t); [|destruct Hc].
        destruct Hc as [<-|[]]. apply Hnep. reflexivity.
  - intros (fr & t & Hfr & Ht & Hf & Hr & Hp & Hform).
    assert (Hgoal : In m (pawn_candidates (abs p) fr) /\ leaves_king_safe (abs p) m = true /\ m_piece m = Pawn).
    { rewrite pawn_candidates_eq. cbn [abs s_board s_turn].
      destruct Hform as [(Efw & -> & Et1 & Hm)|[(Efw & Et1 & Esr & Efw2 & -> & Et2 & ->)|(Hatt & cp & Eft & HcpK & Hm)]].
      - destruct (fwd_sq_lt us fr Hfr Efw) as [Ht1 Hne1].
        assert (Hpl : forall x, In x ((if last_rank us (fwd_sq us fr) then map (fun pr => mkMove Promo fr (fwd_sq us fr) Pawn NoPiece pr) promo_pieces
                           else [mkMove Normal fr (fwd_sq us fr) Pawn NoPiece NoPiece])) -> In x (pawn_push_list (abs_board p) us fr ++ flat_map (pawn_cap_list (abs p) fr) squares)).
        { intros x Hx. apply in_or_app. left. unfold pawn_push_list. rewrite Efw. unfold is_empty. rewrite at_sq_abs_board by exact Ht1.
          change (cell_of p (fwd_sq us fr)) with (f (fwd_sq us fr)). rewrite Et1. apply in_or_app. left. exact Hx. }
        destruct Hm as [[Elr ->]|(Elr & pr & Hpr & ->)].
        + split; [apply Hpl; rewrite Elr; left; reflexivity|]. split; [|reflexivity].
          apply (pawn_safe Normal fr _ NoPiece NoPiece I Hfr Ht1 (not_eq_sym Hne1) Hf (or_introl Et1) I). split; assumption.
        + split; [apply Hpl; rewrite Elr; apply in_map_iff; exists pr; split; [reflexivity|exact Hpr]|]. split; [|reflexivity].
          apply (pawn_safe Promo fr _ NoPiece pr I Hfr Ht1 (not_eq_sym Hne1) Hf (or_introl Et1) (promo_not_king pr Hpr)). split; assumption.
      - destruct (fwd_sq_lt us fr Hfr Efw) as [Ht1 Hne1]. destruct (fwd_sq_lt us _ Ht1 Efw2) as [Ht2 Hne2].
        assert (Hne : fr <> fwd_sq us (fwd_sq us fr)) by (intros E; rewrite <- E in Et2; congruence).
        split.
        + apply in_or_app. left. unfold pawn_push_list. rewrite Efw. unfold is_empty. rewrite at_sq_abs_board by exact Ht1.
          change (cell_of p (fwd_sq us fr)) with (f (fwd_sq us fr)). rewrite Et1. apply in_or_app. right. rewrite Esr, Efw2.
          rewrite at_sq_abs_board by exact Ht2. change (cell_of p (fwd_sq us (fwd_sq us fr))) with (f (fwd_sq us (fwd_sq us fr))). rewrite Et2. left. reflexivity.
        + split; [|reflexivity]. apply (pawn_safe Double fr _ NoPiece NoPiece I Hfr Ht2 Hne Hf (or_introl Et2) I). split; assumption.
      - assert (Hne : fr <> t) by (intros ->; rewrite piece_attacks_self in Hatt by exact Ht; discriminate).
        assert (Hpl : forall x, In x (if last_rank us t then map (fun pr => mkMove PromoCapture fr t Pawn cp pr) promo_pieces else [mkMove Capture fr t Pawn cp NoPiece]) ->
                  In x (pawn_push_list (abs_board p) us fr ++ flat_map (pawn_cap_list (abs p) fr) squares)).
        { intros x Hx. apply in_or_app. right. apply in_flat_map. exists t. split; [apply in_squares; exact Ht|]. unfold pawn_cap_list. cbn [abs s_board s_turn s_ep].
          rewrite Hatt. rewrite at_sq_abs_board by exact Ht. change (cell_of p t) with (f t). rewrite Eft.
          replace (side_eqb them us) with false by (destruct us; reflexivity). replace (piece_eqb cp King) with false by (destruct cp; try reflexivity; congruence).
          exact Hx. }
        destruct Hm as [[Elr ->]|(Elr & pr & Hpr & ->)].
        + split; [apply Hpl; rewrite Elr; left; reflexivity|]. split; [|reflexivity].
          apply (pawn_safe Capture fr t cp NoPiece I Hfr Ht Hne Hf (or_intror (ex_intro _ cp Eft)) I). split; assumption.
        + split; [apply Hpl; rewrite Elr; apply in_map_iff; exists pr; split; [reflexivity|exact Hpr]|]. split; [|reflexivity].
          apply (pawn_safe PromoCapture fr t cp pr I Hfr Ht Hne Hf (or_intror (ex_intro _ cp Eft)) (promo_not_king pr Hpr)). split; assumption. }
    destruct Hgoal as (G1 & G2 & G3). split; [|exact G3].
    unfold spec_moves. apply filter_In. split; [|exact G2].
    unfold pseudo_moves. apply in_or_app. left. apply in_flat_map. exists fr. split; [apply in_squares; exact Hfr|]. cbn [abs s_board s_turn].
    rewrite at_sq_abs_board by exact Hfr. change (cell_of p fr) with (f fr). rewrite Hf, side_eqb_refl. exact G1.
Qed.
End PawnSpec.

(* ---------- pushes: model = rules ---------- *)
Lemma fwd_step s fr : fwd_ok s fr = true -> fwd_sq s fr = fr + 8 \/ (8 <= fr /\ fwd_sq s fr = fr - 8).
Proof. unfold fwd_ok, fwd_sq, rankof. destruct s; intros H; [left; reflexivity|right; split; [lia|reflexivity]]. Qed.
Lemma fwd_step2 s fr : fwd_ok s fr = true -> fwd_ok s (fwd_sq s fr) = true ->
  (fwd_sq s fr = fr + 8 /\ fwd_sq s (fwd_sq s fr) = fr + 16) \/ (16 <= fr /\ fwd_sq s fr = fr - 8 /\ fwd_sq s (fwd_sq s fr) = fr - 16).
Proof. unfold fwd_ok, fwd_sq, rankof. destruct s; intros H1 H2; [left; split; lia|right; split; [lia|split; lia]]. Qed.

Lemma pushes_abs s PW AL EMP (P Q E : N -> Prop) m : PW < two64 ->
  (forall x, x < 64 -> (N.testbit PW x = true <-> P x)) -> (forall t, t < 64 -> (N.testbit AL t = true <-> Q t)) -> (forall t, t < 64 -> (N.testbit EMP t = true <-> E t)) ->
  (In m (pawn_pushes s PW AL EMP) <-> exists fr t, fr < 64 /\ t < 64 /\ P fr /\ Q t /\ push_form s E fr t m).
Proof. intros H1 H2 H3 H4. destruct s; [apply pushes_abs_white|apply pushes_abs_black]; assumption. Qed.

Definition is_push (m : move) : Prop := match m_type m with Normal | Promo | Double => True | _ => False end.
Definition is_cap (m : move) : Prop := match m_type m with Capture | PromoCapture => True | _ => False end.

Section PushExact.
Variable p : position.
Hypothesis Hwf : wf p = true.
Variable k : N.
Hypothesis Hk : find_king (abs_board p) (turn p) = Some k.
Hypothesis Hnd : (1 <? bb_count (checkers p)) = false.
Notation f := (cell_of_b (brd p)).
Notation us := (turn p).
Notation them := (opp_side (turn p)).
Hypothesis HB : forall x, x < 64 -> (N.testbit (g_bishop_pinned p) x = true <-> (exists pc, f x = Some (us, pc)) /\ exists a, Pinner f us k a x /\ same_diag a k = true).
Hypothesis HR : forall x, x < 64 -> (N.testbit (g_rook_pinned p) x = true <-> (exists pc, f x = Some (us, pc)) /\ exists a, Pinner f us k a x /\ same_line a k = true).

Lemma g_push_pawns_lt : g_push_pawns p < two64.
Proof. unfold g_push_pawns. apply land_lt, pawns_lt, Hwf. Qed.

Lemma emp_iff t : t < 64 -> (N.testbit (empty_sqs p) t = true <-> f t = None).
Proof. intros Ht. rewrite (emp_bit p Hwf t Ht). destruct (f t); split; congruence. Qed.

Theorem pawn_pushes_iff m :
  In m (g_pawn_pushes p) <-> exists fr t, fr < 64 /\ t < 64 /\ pawn_move p k fr t m /\ is_push m.
Proof.
  destruct (k_lt p Hwf k Hk) as [Hk64 Hfk]. unfold g_pawn_pushes.
  rewrite (pushes_abs us _ _ _ _ _ _ m g_push_pawns_lt (push_pawns_bit p Hwf k Hk HB HR) (g_allowed_q_iff p Hwf k Hk Hnd) emp_iff).
  split.
  - intros (fr & t & Hfr & Ht & [Hf Hpd] & [Het Hr] & Hform). exists fr, t. split; [exact Hfr|]. split; [exact Ht|].
    assert (Htk : t <> k) by (intros ->; congruence).
    destruct Hform as [(F1 & E1 & Hm)|(F1 & He & Sr & F2 & E2 & ->)].
    + assert (Hpin : pin_ok p k fr t).
      { apply (pin_ok_push1 p Hwf k Hk fr t Ht Htk); [|exact Hpd]. rewrite E1. destruct (fwd_step us fr F1) as [->|[H8 ->]]; [left; reflexivity|right; split; [exact H8|reflexivity]]. }
      split.
      * split; [exact Hf|]. split; [exact Hr|]. split; [exact Hpin|]. left. split; [exact F1|]. split; [exact E1|]. split; [exact Het|exact Hm].
      * unfold is_push. destruct Hm as [[_ ->]|(_ & pr & _ & ->)]; exact I.
    + assert (Hpin : pin_ok p k fr t).
      { apply (pin_ok_push2 p Hwf k Hk fr (fwd_sq us fr) t Ht Htk He); [|exact Hpd]. rewrite E2.
        destruct (fwd_step2 us fr F1 F2) as [[-> ->]|(H16 & -> & ->)]; [left; split; reflexivity|right; split; [exact H16|split; reflexivity]]. }
      split; [|exact I].
      split; [exact Hf|]. split; [exact Hr|]. split; [exact Hpin|]. right. left. repeat split; assumption.
  - intros (fr & t & Hfr & Ht & (Hf & Hr & Hpin & Hform) & Hpush). exists fr, t. split; [exact Hfr|]. split; [exact Ht|].
    destruct Hform as [(F1 & E1 & Het & Hm)|[(F1 & He & Sr & F2 & E2 & Het & ->)|(_ & cp & _ & _ & Hm)]].
    + assert (Htk : t <> k) by (intros ->; congruence).
      assert (Hpd : pin_dir p k fr 0).
      { apply (pin_ok_push1 p Hwf k Hk fr t Ht Htk); [|exact Hpin]. rewrite E1. destruct (fwd_step us fr F1) as [->|[H8 ->]]; [left; reflexivity|right; split; [exact H8|reflexivity]]. }
      split; [split; assumption|]. split; [split; assumption|]. left. split; [exact F1|]. split; [exact E1|exact Hm].
    + assert (Htk : t <> k) by (intros ->; congruence).
      assert (Hpd : pin_dir p k fr 0).
      { apply (pin_ok_push2 p Hwf k Hk fr (fwd_sq us fr) t Ht Htk He); [|exact Hpin]. rewrite E2.
        destruct (fwd_step2 us fr F1 F2) as [[-> ->]|(H16 & -> & ->)]; [left; split; reflexivity|right; split; [exact H16|split; reflexivity]]. }
      split; [split; assumption|]. split; [split; assumption|]. right. repeat split; assumption.
    + exfalso. unfold is_push in Hpush. destruct Hm as [[_ ->]|(_ & pr & _ & ->)]; exact Hpush.
Qed.
End PushExact.

(* ---------- captures: the abstract blocks ---------- *)
Definition relA (s : side) (fr t : N) : Prop :=
  match s with White => t = fr + 9 /\ fileof t <> 0 | Black => fr = t + 9 /\ fileof t <> 7 end.
Definition relB (s : side) (fr t : N) : Prop :=
  match s with White => t = fr + 7 /\ fileof t <> 7 | Black => fr = t + 7 /\ fileof t <> 0 end.
Definition cap_form (s : side) (fr t : N) (cp : piece) (m : move) : Prop :=
  (last_rank s t = false /\ m = mkMove Capture fr t Pawn cp NoPiece) \/
  (last_rank s t = true /\ exists pr, In pr promo_pieces /\ m = mkMove PromoCapture fr t Pawn cp pr).

Lemma ep_block_type p ksq (c : bool) c1 c2 b1 b2 rq f1 f2 m :
  In m (if c then ep_try p ksq c1 b1 rq f1 ++ ep_try p ksq c2 b2 rq f2 else []) -> m_type m = Enpassant.
Proof. destruct c; [|intros []]. intros H. apply in_app_or in H. destruct H as [H|H]; apply ep_try_ok in H; exact H. Qed.

Lemma caps_abs_white p ksq occ AL PR PNE PNW epbb epr (PA PB Q : N -> Prop) m :
  pieces p White Pawn < two64 ->
  (forall x, x < 64 -> (N.testbit (N.land (N.land (pieces p White Pawn) (not64 PR)) (not64 PNW)) x = true <-> PA x)) ->
  (forall x, x < 64 -> (N.testbit (N.land (N.land (pieces p White Pawn) (not64 PR)) (not64 PNE)) x = true <-> PB x)) ->
  (forall t, t < 64 -> (N.testbit AL t = true <-> Q t)) ->
  (In m (pawn_captures p White ksq occ AL PR PNE PNW epbb epr) /\ m_type m <> Enpassant <->
   exists fr t, fr < 64 /\ t < 64 /\ Q t /\ ((PA fr /\ relA White fr t) \/ (PB fr /\ relB White fr t)) /\ cap_form White fr t (piece_on p t) m).
Proof.
  intros HPW HA HB HQ. unfold pawn_captures. cbv zeta.
  set (SA := N.land (N.land (pieces p White Pawn) (not64 PR)) (not64 PNW)) in *.
  set (SB := N.land (N.land (pieces p White Pawn) (not64 PR)) (not64 PNE)) in *.
  assert (HSA : SA < two64) by (apply land_lt, land_lt, HPW). assert (HSB : SB < two64) by (apply land_lt, land_lt, HPW).
  rewrite !in_app_iff.
  pose proof (emit_shift_iff (fun b => east (north b)) _ (fun t => sq_west (sq_south t)) (fun fr t => [mkMove Capture fr t Pawn (piece_on p t) NoPiece]) (N.land SA (not64 Rank7)) AL m sh_ne (land_lt _ _ HSA)) as B1.
  pose proof (emit_shift_iff (fun b => west (north b)) _ (fun t => sq_east (sq_south t)) (fun fr t => [mkMove Capture fr t Pawn (piece_on p t) NoPiece]) (N.land SB (not64 Rank7)) AL m sh_nw (land_lt _ _ HSB)) as B2.
  pose proof (emit_shift_iff (fun b => east (north b)) _ (fun t => sq_west (sq_south t)) (fun fr t => promo_caps fr t (piece_on p t)) (N.land SA Rank7) AL m sh_ne (land_lt _ _ HSA)) as B3.
  pose proof (emit_shift_iff (fun b => west (north b)) _ (fun t => sq_east (sq_south t)) (fun fr t => promo_caps fr t (piece_on p t)) (N.land SB Rank7) AL m sh_nw (land_lt _ _ HSB)) as B4.
  cbv beta in B1, B2, B3, B4. rewrite B1, B2, B3, B4. clear B1 B2 B3 B4. unfold cap_form. cbn [relA relB last_rank]. split.
  - intros [[H|[H|[H|[H|H]]]] Hne].
    + destruct H as (fr & t & Hfr & Ht & [-> Hfl] & Hx & Hal & [<-|[]]). rewrite N.land_spec, not64_spec, rank7_bit in Hx. apply andb_true_iff in Hx. destruct Hx as [Hx1 Hx2].
      exists fr, (fr + 9). split; [exact Hfr|]. split; [exact Ht|]. split; [apply HQ; assumption|]. split; [left; split; [apply HA; assumption|split; [reflexivity|exact Hfl]]|].
      left. split; [unfold rankof, fileof in *; lia|reflexivity].
    + destruct H as (fr & t & Hfr & Ht & [-> Hfl] & Hx & Hal & [<-|[]]). rewrite N.land_spec, not64_spec, rank7_bit in Hx. apply andb_true_iff in Hx. destruct Hx as [Hx1 Hx2].
      exists fr, (fr + 7). split; [exact Hfr|]. split; [exact Ht|]. split; [apply HQ; assumption|]. split; [right; split; [apply HB; assumption|split; [reflexivity|exact Hfl]]|].
      left. split; [unfold rankof, fileof in *; lia|reflexivity].
    + destruct H as (fr & t & Hfr & Ht & [-> Hfl] & Hx & Hal & Hm). rewrite N.land_spec, rank7_bit in Hx. apply andb_true_iff in Hx. destruct Hx as [Hx1 Hx2]. apply in_promo_caps in Hm.
      exists fr, (fr + 9). split; [exact Hfr|]. split; [exact Ht|]. split; [apply HQ; assumption|]. split; [left; split; [apply HA; assumption|split; [reflexivity|exact Hfl]]|].
      right. split; [unfold rankof, fileof in *; lia|exact Hm].
    + destruct H as (fr & t & Hfr & Ht & [-> Hfl] & Hx & Hal & Hm). rewrite N.land_spec, rank7_bit in Hx. apply andb_true_iff in Hx. destruct Hx as [Hx1 Hx2]. apply in_promo_caps in Hm.
      exists fr, (fr + 7). split; [exact Hfr|]. split; [exact Ht|]. split; [apply HQ; assumption|]. split; [right; split; [apply HB; assumption|split; [reflexivity|exact Hfl]]|].
      right. split; [unfold rankof, fileof in *; lia|exact Hm].
    + exfalso. apply Hne. exact (ep_block_type _ _ _ _ _ _ _ _ _ _ _ H).
  - intros (fr & t & Hfr & Ht & Hq & Hrel & Hm).
    assert (Hne : m_type m <> Enpassant) by (destruct Hm as [[_ ->]|(_ & pr & _ & ->)]; discriminate). split; [|exact Hne].
    destruct Hrel as [[Hpa [-> Hfl]]|[Hpb [-> Hfl]]]; destruct Hm as [[L ->]|(L & Hm)]; unfold rankof, fileof in *.
    + left. exists fr, (fr + 9). split; [exact Hfr|]. split; [exact Ht|]. split; [split; [reflexivity|exact Hfl]|]. split; [|split; [apply HQ; assumption|left; reflexivity]].
      rewrite N.land_spec, not64_spec, rank7_bit. rewrite (proj2 (HA fr Hfr) Hpa). lia.
    + right. right. left. exists fr, (fr + 9). split; [exact Hfr|]. split; [exact Ht|]. split; [split; [reflexivity|exact Hfl]|]. split; [|split; [apply HQ; assumption|apply in_promo_caps; exact Hm]].
      rewrite N.land_spec, rank7_bit. rewrite (proj2 (HA fr Hfr) Hpa). lia.
    + right. left. exists fr, (fr + 7). split; [exact Hfr|]. split; [exact Ht|]. split; [split; [reflexivity|exact Hfl]|]. split; [|split; [apply HQ; assumption|left; reflexivity]].
      rewrite N.land_spec, not64_spec, rank7_bit. rewrite (proj2 (HB fr Hfr) Hpb). lia.
    + right. right. right. left. exists fr, (fr + 7). split; [exact Hfr|]. split; [exact Ht|]. split; [split; [reflexivity|exact Hfl]|]. split; [|split; [apply HQ; assumption|apply in_promo_caps; exact Hm]].
      rewrite N.land_spec, rank7_bit. rewrite (proj2 (HB fr Hfr) Hpb). lia.
Qed.

Lemma caps_abs_black p ksq occ AL PR PNE PNW epbb epr (PA PB Q : N -> Prop) m :
  pieces p Black Pawn < two64 ->
  (forall x, x < 64 -> (N.testbit (N.land (N.land (pieces p Black Pawn) (not64 PR)) (not64 PNW)) x = true <-> PA x)) ->
  (forall x, x < 64 -> (N.testbit (N.land (N.land (pieces p Black Pawn) (not64 PR)) (not64 PNE)) x = true <-> PB x)) ->
  (forall t, t < 64 -> (N.testbit AL t = true <-> Q t)) ->
  (In m (pawn_captures p Black ksq occ AL PR PNE PNW epbb epr) /\ m_type m <> Enpassant <->
   exists fr t, fr < 64 /\ t < 64 /\ Q t /\ ((PA fr /\ relA Black fr t) \/ (PB fr /\ relB Black fr t)) /\ cap_form Black fr t (piece_on p t) m).
Proof.
  intros HPW HA HB HQ. unfold pawn_captures. cbv zeta.
  set (SA := N.land (N.land (pieces p Black Pawn) (not64 PR)) (not64 PNW)) in *.
  set (SB := N.land (N.land (pieces p Black Pawn) (not64 PR)) (not64 PNE)) in *.
  assert (HSA : SA < two64) by (apply land_lt, land_lt, HPW). assert (HSB : SB < two64) by (apply land_lt, land_lt, HPW).
  rewrite !in_app_iff.
  pose proof (emit_shift_iff (fun b => east (south b)) _ (fun t => sq_west (sq_north t)) (fun fr t => [mkMove Capture fr t Pawn (piece_on p t) NoPiece]) (N.land SB (not64 Rank2)) AL m sh_se (land_lt _ _ HSB)) as B1.
  pose proof (emit_shift_iff (fun b => west (south b)) _ (fun t => sq_east (sq_north t)) (fun fr t => [mkMove Capture fr t Pawn (piece_on p t) NoPiece]) (N.land SA (not64 Rank2)) AL m sh_sw (land_lt _ _ HSA)) as B2.
  pose proof (emit_shift_iff (fun b => east (south b)) _ (fun t => sq_west (sq_north t)) (fun fr t => promo_caps fr t (piece_on p t)) (N.land SB Rank2) AL m sh_se (land_lt _ _ HSB)) as B3.
  pose proof (emit_shift_iff (fun b => west (south b)) _ (fun t => sq_east (sq_north t)) (fun fr t => promo_caps fr t (piece_on p t)) (N.land SA Rank2) AL m sh_sw (land_lt _ _ HSA)) as B4.
  cbv beta in B1, B2, B3, B4. rewrite B1, B2, B3, B4. clear B1 B2 B3 B4. unfold cap_form. cbn [relA relB last_rank]. split.
  - intros [[H|[H|[H|[H|H]]]] Hne].
    + destruct H as (fr & t & Hfr & Ht & [-> Hfl] & Hx & Hal & [<-|[]]). rewrite N.land_spec, not64_spec, rank2_bit in Hx. apply andb_true_iff in Hx. destruct Hx as [Hx1 Hx2].
      exists (t + 7), t. split; [exact Hfr|]. split; [exact Ht|]. split; [apply HQ; assumption|]. split; [right; split; [apply HB; assumption|split; [reflexivity|exact Hfl]]|].
      left. split; [unfold rankof, fileof in *; lia|reflexivity].
    + destruct H as (fr & t & Hfr & Ht & [-> Hfl] & Hx & Hal & [<-|[]]). rewrite N.land_spec, not64_spec, rank2_bit in Hx. apply andb_true_iff in Hx. destruct Hx as [Hx1 Hx2].
      exists (t + 9), t. split; [exact Hfr|]. split; [exact Ht|]. split; [apply HQ; assumption|]. split; [left; split; [apply HA; assumption|split; [reflexivity|exact Hfl]]|].
      left. split; [unfold rankof, fileof in *; lia|reflexivity].
    + destruct H as (fr & t & Hfr & Ht & [-> Hfl] & Hx & Hal & Hm). rewrite N.land_spec, rank2_bit in Hx. apply andb_true_iff in Hx. destruct Hx as [Hx1 Hx2]. apply in_promo_caps in Hm.
      exists (t + 7), t. split; [exact Hfr|]. split; [exact Ht|]. split; [apply HQ; assumption|]. split; [right; split; [apply HB; assumption|split; [reflexivity|exact Hfl]]|].
      right. split; [unfold rankof, fileof in *; lia|exact Hm].
    + destruct H as (fr & t & Hfr & Ht & [-> Hfl] & Hx & Hal & Hm). rewrite N.land_spec, rank2_bit in Hx. apply andb_true_iff in Hx. destruct Hx as [Hx1 Hx2]. apply in_promo_caps in Hm.
      exists (t + 9), t. split; [exact Hfr|]. split; [exact Ht|]. split; [apply HQ; assumption|]. split; [left; split; [apply HA; assumption|split; [reflexivity|exact Hfl]]|].
      right. split; [unfold rankof, fileof in *; lia|exact Hm].
    + exfalso. apply Hne. exact (ep_block_type _ _ _ _ _ _ _ _ _ _ _ H).
  - intros (fr & t & Hfr & Ht & Hq & Hrel & Hm).
    assert (Hne : m_type m <> Enpassant) by (destruct Hm as [[_ ->]|(_ & pr & _ & ->)]; discriminate). split; [|exact Hne].
    destruct Hrel as [[Hpa [-> Hfl]]|[Hpb [-> Hfl]]]; destruct Hm as [[L ->]|(L & Hm)]; unfold rankof, fileof in *.
    + right. left. exists (t + 9), t. split; [exact Hfr|]. split; [exact Ht|]. split; [split; [reflexivity|exact Hfl]|]. split; [|split; [apply HQ; assumption|left; reflexivity]].
      rewrite N.land_spec, not64_spec, rank2_bit. rewrite (proj2 (HA _ Hfr) Hpa). lia.
    + right. right. right. left. exists (t + 9), t. split; [exact Hfr|]. split; [exact Ht|]. split; [split; [reflexivity|exact Hfl]|]. split; [|split; [apply HQ; assumption|apply in_promo_caps; exact Hm]].
      rewrite N.land_spec, rank2_bit. rewrite (proj2 (HA _ Hfr) Hpa). lia.
    + left. exists (t + 7), t. split; [exact Hfr|]. split; [exact Ht|]. split; [split; [reflexivity|exact Hfl]|]. split; [|split; [apply HQ; assumption|left; reflexivity]].
      rewrite N.land_spec, not64_spec, rank2_bit. rewrite (proj2 (HB _ Hfr) Hpb). lia.
    + right. right. left. exists (t + 7), t. split; [exact Hfr|]. split; [exact Ht|]. split; [split; [reflexivity|exact Hfl]|]. split; [|split; [apply HQ; assumption|apply in_promo_caps; exact Hm]].
      rewrite N.land_spec, rank2_bit. rewrite (proj2 (HB _ Hfr) Hpb). lia.
Qed.

Lemma caps_abs p s ksq occ AL PR PNE PNW epbb epr (PA PB Q : N -> Prop) m :
  pieces p s Pawn < two64 ->
  (forall x, x < 64 -> (N.testbit (N.land (N.land (pieces p s Pawn) (not64 PR)) (not64 PNW)) x = true <-> PA x)) ->
  (forall x, x < 64 -> (N.testbit (N.land (N.land (pieces p s Pawn) (not64 PR)) (not64 PNE)) x = true <-> PB x)) ->
  (forall t, t < 64 -> (N.testbit AL t = true <-> Q t)) ->
  (In m (pawn_captures p s ksq occ AL PR PNE PNW epbb epr) /\ m_type m <> Enpassant <->
   exists fr t, fr < 64 /\ t < 64 /\ Q t /\ ((PA fr /\ relA s fr t) \/ (PB fr /\ relB s fr t)) /\ cap_form s fr t (piece_on p t) m).
Proof. destruct s; [apply caps_abs_white|apply caps_abs_black]. Qed.

Lemma rel_att s b fr t : fr < 64 -> t < 64 -> (piece_attacks b s Pawn fr t = true <-> relA s fr t \/ relB s fr t).
Proof.
  intros Hfr Ht. rewrite (pawn_att s b fr t Hfr Ht). unfold relA, relB. destruct s; rewrite orb_true_iff, !andb_true_iff, !negb_true_iff, !N.eqb_eq, !N.eqb_neq; tauto.
Qed.
Lemma relA_cdir s fr t : relA s fr t -> cdir fr t = 2.
Proof. unfold relA, cdir. destruct s; intros [-> _]; rewrite N.eqb_refl, ?orb_true_r; reflexivity. Qed.
Lemma relB_cdir s fr t : relB s fr t -> cdir fr t = 3.
Proof. unfold relB, cdir. destruct s; intros [-> _]; [replace (fr + 7 =? fr + 9) with false by lia; replace (fr =? fr + 7 + 9) with false by lia|replace (t =? t + 7 + 9) with false by lia; replace (t + 7 =? t + 9) with false by lia]; reflexivity. Qed.

Section CapExact.
Variable p : position.
Hypothesis Hwf : wf p = true.
Variable k : N.
Hypothesis Hk : find_king (abs_board p) (turn p) = Some k.
Hypothesis Hnd : (1 <? bb_count (checkers p)) = false.
Variable dfrc : bool.
Hypothesis Hlc : legal_consistent dfrc (abs p) = true.
Notation f := (cell_of_b (brd p)).
Notation us := (turn p).
Notation them := (opp_side (turn p)).

Theorem pawn_caps_iff m :
  (In m (g_pawn_caps p) /\ m_type m <> Enpassant) <-> exists fr t, fr < 64 /\ t < 64 /\ pawn_move p k fr t m /\ is_cap m.
Proof.
  destruct (k_lt p Hwf k Hk) as [Hk64 Hfk]. unfold g_pawn_caps.
  rewrite (caps_abs p us _ _ _ _ _ _ _ _ _ _ _ m (pawns_lt p Hwf) (cap_set_a_bit p Hwf k Hk) (cap_set_b_bit p Hwf k Hk) (g_allowed_c_iff p Hwf k Hk Hnd)).
  split.
  - intros (fr & t & Hfr & Ht & [[cp Eft] Hr] & Hrel & Hform). exists fr, t. split; [exact Hfr|]. split; [exact Ht|].
    rewrite (piece_on_f p t cp them Ht Eft) in Hform.
    assert (Htk : t <> k) by (intros ->; rewrite Hfk in Eft; inversion Eft; destruct us; discriminate).
    assert (Hf : f fr = Some (us, Pawn)) by (destruct Hrel as [[[H _] _]|[[H _] _]]; exact H).
    assert (Hatt : piece_attacks (abs_board p) us Pawn fr t = true) by (apply (rel_att us _ fr t Hfr Ht); destruct Hrel as [[_ H]|[_ H]]; [left|right]; exact H).
    assert (Hpin : pin_ok p k fr t).
    { apply (pin_ok_cap p Hwf k Hk us fr t Hfr Ht Htk Hatt). destruct Hrel as [[[_ H] R]|[[_ H] R]]; [rewrite (relA_cdir _ _ _ R)|rewrite (relB_cdir _ _ _ R)]; exact H. }
    assert (HcpK : cp <> King).
    { intros ->. rewrite (lc_enemy_king_safe dfrc p fr Pawn t Hwf Hlc Hfr Ht Hf Eft) in Hatt. discriminate. }
    split.
    + split; [exact Hf|]. split; [exact Hr|]. split; [exact Hpin|]. right. right. split; [exact Hatt|]. exists cp. split; [exact Eft|]. split; [exact HcpK|exact Hform].
    + unfold is_cap. destruct Hform as [[_ ->]|(_ & pr & _ & ->)]; exact I.
  - intros (fr & t & Hfr & Ht & (Hf & Hr & Hpin & Hform) & Hcap). exists fr, t. split; [exact Hfr|]. split; [exact Ht|].
    destruct Hform as [(_ & _ & _ & Hm)|[(_ & _ & _ & _ & _ & _ & ->)|(Hatt & cp & Eft & HcpK & Hm)]].
    + exfalso. unfold is_cap in Hcap. destruct Hm as [[_ ->]|(_ & pr & _ & ->)]; exact Hcap.
    + exfalso. exact Hcap.
    + assert (Htk : t <> k) by (intros ->; rewrite Hfk in Eft; inversion Eft; destruct us; discriminate).
      split; [split; [exists cp; exact Eft|exact Hr]|]. rewrite (piece_on_f p t cp them Ht Eft). split; [|exact Hm].
      apply (pin_ok_cap p Hwf k Hk us fr t Hfr Ht Htk Hatt) in Hpin. apply (rel_att us _ fr t Hfr Ht) in Hatt.
      destruct Hatt as [R|R]; [left; rewrite (relA_cdir _ _ _ R) in Hpin|right; rewrite (relB_cdir _ _ _ R) in Hpin]; (split; [split; assumption|exact R]).
Qed.
End CapExact.

(* ---------- the generators only emit pawn moves ---------- *)
Lemma pawn_captures_piece p us ksq occ al pr pa pb ep_bb e m :
  In m (pawn_captures p us ksq occ al pr pa pb ep_bb e) -> m_piece m = Pawn.
Proof. unfold pawn_captures, promo_caps, ep_try. intros H. destruct us; crush_in H; reflexivity. Qed.
Lemma pawn_pushes_piece us pawns al emp m : In m (pawn_pushes us pawns al emp) -> m_piece m = Pawn.
Proof. unfold pawn_pushes, promos. intros H. destruct us; crush_in H; reflexivity. Qed.

(* ---------- main theorem ---------- *)
Section PawnExactMain.
Variable p : position.
Hypothesis Hwf : wf p = true.
Variable dfrc : bool.
Hypothesis Hlc : legal_consistent dfrc (abs p) = true.
Variable k : N.
Hypothesis Hk : find_king (abs_board p) (turn p) = Some k.
Hypothesis Huk : forall a, a < 64 -> cell_of_b (brd p) a = Some (turn p, King) -> a = k.
Hypothesis Hnd : (1 <? bb_count (checkers p)) = false.
Notation f := (cell_of_b (brd p)).
Notation us := (turn p).
Hypothesis HB : forall x, x < 64 -> (N.testbit (g_bishop_pinned p) x = true <-> (exists pc, f x = Some (us, pc)) /\ exists a, Pinner f us k a x /\ same_diag a k = true).
Hypothesis HR : forall x, x < 64 -> (N.testbit (g_rook_pinned p) x = true <-> (exists pc, f x = Some (us, pc)) /\ exists a, Pinner f us k a x /\ same_line a k = true).

Lemma pawn_gen_piece m : In m (g_pawn_caps p ++ g_pawn_pushes p) -> m_piece m = Pawn.
Proof. intros H. apply in_app_or in H. destruct H as [H|H]; [exact (pawn_captures_piece _ _ _ _ _ _ _ _ _ _ _ H)|exact (pawn_pushes_piece _ _ _ _ _ H)]. Qed.

Lemma pawn_move_kind fr t m : pawn_move p k fr t m -> (is_push m /\ ~ is_cap m) \/ (is_cap m /\ ~ is_push m).
Proof.
  intros (_ & _ & _ & [(_ & _ & _ & Hm)|[(_ & _ & _ & _ & _ & _ & ->)|(_ & cp & _ & _ & Hm)]]); unfold is_push, is_cap.
  - left. destruct Hm as [[_ ->]|(_ & pr & _ & ->)]; cbn; tauto.
  - left. cbn. tauto.
  - right. destruct Hm as [[_ ->]|(_ & pr & _ & ->)]; cbn; tauto.
Qed.

Theorem pawn_pushes_exact m :
  In m (g_pawn_pushes p) <-> (In m (spec_moves (abs p)) /\ m_piece m = Pawn /\ is_push m).
Proof.
  rewrite (pawn_pushes_iff p Hwf k Hk Hnd HB HR m). split.
  - intros (fr & t & Hfr & Ht & Hmv & Hp). assert (Hne : m_type m <> Enpassant) by (unfold is_push in Hp; intros E; rewrite E in Hp; exact Hp).
    destruct (proj2 (spec_pawn_iff p Hwf k Hk Huk m Hne) (ex_intro _ fr (ex_intro _ t (conj Hfr (conj Ht Hmv))))) as [H1 H2]. tauto.
  - intros (H1 & H2 & Hp). assert (Hne : m_type m <> Enpassant) by (unfold is_push in Hp; intros E; rewrite E in Hp; exact Hp).
    destruct (proj1 (spec_pawn_iff p Hwf k Hk Huk m Hne) (conj H1 H2)) as (fr & t & Hfr & Ht & Hmv). exists fr, t. tauto.
Qed.

Theorem pawn_caps_exact m :
  (In m (g_pawn_caps p) /\ m_type m <> Enpassant) <-> (In m (spec_moves (abs p)) /\ m_piece m = Pawn /\ is_cap m).
Proof.
  rewrite (pawn_caps_iff p Hwf k Hk Hnd dfrc Hlc m). split.
  - intros (fr & t & Hfr & Ht & Hmv & Hp). assert (Hne : m_type m <> Enpassant) by (unfold is_cap in Hp; intros E; rewrite E in Hp; exact Hp).
    destruct (proj2 (spec_pawn_iff p Hwf k Hk Huk m Hne) (ex_intro _ fr (ex_intro _ t (conj Hfr (conj Ht Hmv))))) as [H1 H2]. tauto.
  - intros (H1 & H2 & Hp). assert (Hne : m_type m <> Enpassant) by (unfold is_cap in Hp; intros E; rewrite E in Hp; exact Hp).
    destruct (proj1 (spec_pawn_iff p Hwf k Hk Huk m Hne) (conj H1 H2)) as (fr & t & Hfr & Ht & Hmv). exists fr, t. tauto.
Qed.

Theorem pawn_exact_gen m : m_type m <> Enpassant ->
  (In m (g_pawn_caps p ++ g_pawn_pushes p) <-> In m (spec_moves (abs p)) /\ m_piece m = Pawn).
Proof.
  intros Hne. rewrite in_app_iff. split.
  - intros [H|H].
    + destruct (proj1 (pawn_caps_exact m) (conj H Hne)) as (H1 & H2 & _). split; assumption.
    + destruct (proj1 (pawn_pushes_exact m) H) as (H1 & H2 & _). split; assumption.
  - intros [H1 H2]. destruct (proj1 (spec_pawn_iff p Hwf k Hk Huk m Hne) (conj H1 H2)) as (fr & t & Hfr & Ht & Hmv).
    destruct (pawn_move_kind fr t m Hmv) as [[Hp _]|[Hc _]].
    + right. apply pawn_pushes_exact. tauto.
    + left. apply pawn_caps_exact. tauto.
Qed.

Theorem pawn_exact m : m_type m <> Enpassant ->
  (In m (g_pawn_caps p ++ g_pawn_pushes p) /\ m_piece m = Pawn <-> In m (spec_moves (abs p)) /\ m_piece m = Pawn).
Proof.
  intros Hne. rewrite (pawn_exact_gen m Hne). split; [intros [H _]; exact H|intros H; split; [exact H|destruct H as [_ H]; exact H]].
Qed.
End PawnExactMain.

(* ---------- no move is generated twice ---------- *)
Lemma bb_squares_nodup bb : bb < two64 -> NoDup (bb_squares bb).
Proof. intros Hbb. unfold bb_squares. rewrite bits_eq_ref by exact Hbb. apply ascending_nodup, bits_ref_ascending. Qed.

Lemma emit_nodup bb (g : N -> list move) : bb < two64 -> (forall sq, NoDup (g sq)) -> (forall sq m, In m (g sq) -> m_to m = sq) -> NoDup (emit bb g).
Proof.
  intros Hbb Hg Hto. unfold emit. pose proof (bb_squares_nodup bb Hbb) as Hnd.
  induction Hnd as [|x r Hx Hr IH]; [constructor|]. cbn [flat_map]. apply NoDup_app_intro; [apply Hg|exact IH|].
  intros m H1 H2. apply in_flat_map in H2. destruct H2 as [y [Hy H2]]. apply Hto in H1. apply Hto in H2. subst. contradiction.
Qed.

Lemma emit_labels bb (g : N -> list move) TY (BK : N -> N) : bb < two64 ->
  (forall sq m, In m (g sq) -> m_type m = TY /\ m_to m = sq /\ m_from m = BK sq) ->
  forall m, In m (emit bb g) -> m_type m = TY /\ m_from m = BK (m_to m).
Proof. intros Hbb Hg m H. apply in_emit in H. destruct H as [sq [_ H]]. destruct (Hg sq m H) as (H1 & H2 & H3). rewrite H2. split; assumption. Qed.

Lemma promos_nodup fr t : NoDup (promos fr t).
Proof. unfold promos. repeat constructor; cbn [In]; intros H; repeat (destruct H as [H|H]; [discriminate H|]); exact H. Qed.
Lemma promo_caps_nodup fr t cp : NoDup (promo_caps fr t cp).
Proof. unfold promo_caps. repeat constructor; cbn [In]; intros H; repeat (destruct H as [H|H]; [discriminate H|]); exact H. Qed.
Lemma single_nodup (m : move) : NoDup [m]. Proof. constructor; [intros []|constructor]. Qed.

Lemma u8_mod y : u8 y = y mod 256.
Proof. unfold u8. change 255 with (N.ones 8). rewrite N.land_ones. reflexivity. Qed.
Lemma east_west_ne x : sq_west x <> sq_east x.
Proof. unfold sq_west, sq_east. rewrite !u8_mod. lia. Qed.

Ltac lab_single := let sq := fresh in let m := fresh in let H := fresh in intros sq m H; destruct H as [<-|[]]; cbn [m_type m_to m_from]; repeat split.
Lemma promos_labels (BK : N -> N) sq m : In m (promos (BK sq) sq) -> m_type m = Promo /\ m_to m = sq /\ m_from m = BK sq.
Proof. intros H. cbn [promos In] in H. repeat (destruct H as [<-|H]; [cbn [m_type m_to m_from]; repeat split|]). destruct H. Qed.
Lemma promo_caps_labels (BK : N -> N) (cp : N -> piece) sq m : In m (promo_caps (BK sq) sq (cp sq)) -> m_type m = PromoCapture /\ m_to m = sq /\ m_from m = BK sq.
Proof. intros H. cbn [promo_caps In] in H. repeat (destruct H as [<-|H]; [cbn [m_type m_to m_from]; repeat split|]). destruct H. Qed.

Theorem pawn_pushes_nodup s PW AL EMP : PW < two64 -> NoDup (pawn_pushes s PW AL EMP).
Proof.
  intros HPW. unfold pawn_pushes. destruct s.
  - assert (L1 := emit_labels (N.land (north (N.land PW (not64 Rank7))) AL) (fun sq => [mkMove Normal (sq_south sq) sq Pawn NoPiece NoPiece]) Normal sq_south (land_lt _ _ (north_lt _)) ltac:(lab_single)).
    assert (L2 := emit_labels (N.land (north (N.land PW Rank7)) AL) (fun sq => promos (sq_south sq) sq) Promo sq_south (land_lt _ _ (north_lt _)) (promos_labels sq_south)).
    assert (L3 := emit_labels (N.land (N.land (north (N.land EMP (north PW))) Rank4) AL) (fun sq => [mkMove Double (sq_south (sq_south sq)) sq Pawn NoPiece NoPiece]) Double (fun sq => sq_south (sq_south sq)) (land_lt _ _ (land_lt _ _ (north_lt _))) ltac:(lab_single)).
    apply NoDup_app_intro; [|apply NoDup_app_intro|].
    + apply emit_nodup; [apply land_lt, north_lt|intros; apply single_nodup|intros sq m [<-|[]]; reflexivity].
    + apply emit_nodup; [apply land_lt, north_lt|intros; apply promos_nodup|intros sq m H; destruct (promos_labels sq_south sq m H) as (_ & E & _); exact E].
    + apply emit_nodup; [apply land_lt, land_lt, north_lt|intros; apply single_nodup|intros sq m [<-|[]]; reflexivity].
    + intros m H2 H3. destruct (L2 m H2) as [E2 _]. destruct (L3 m H3) as [E3 _]. congruence.
    + intros m H1 H. destruct (L1 m H1) as [E1 _]. apply in_app_or in H. destruct H as [H|H]; [destruct (L2 m H) as [E2 _]|destruct (L3 m H) as [E2 _]]; congruence.
  - assert (B1 : forall X, N.land (south (N.land PW X)) AL < two64) by (intros X; apply land_lt, south_lt, land_lt, HPW).
    assert (B3 : N.land (N.land (south (N.land EMP (south PW))) Rank5) AL < two64) by (apply land_lt, land_lt, south_lt; rewrite N.land_comm; apply land_lt, south_lt, HPW).
    assert (L1 := emit_labels (N.land (south (N.land PW (not64 Rank2))) AL) (fun sq => [mkMove Normal (sq_north sq) sq Pawn NoPiece NoPiece]) Normal sq_north (B1 _) ltac:(lab_single)).
    assert (L2 := emit_labels (N.land (south (N.land PW Rank2)) AL) (fun sq => promos (sq_north sq) sq) Promo sq_north (B1 _) (promos_labels sq_north)).
    assert (L3 := emit_labels (N.land (N.land (south (N.land EMP (south PW))) Rank5) AL) (fun sq => [mkMove Double (sq_north (sq_north sq)) sq Pawn NoPiece NoPiece]) Double (fun sq => sq_north (sq_north sq)) B3 ltac:(lab_single)).
    apply NoDup_app_intro; [|apply NoDup_app_intro|].
    + apply emit_nodup; [apply B1|intros; apply single_nodup|intros sq m [<-|[]]; reflexivity].
    + apply emit_nodup; [apply B1|intros; apply promos_nodup|intros sq m H; destruct (promos_labels sq_north sq m H) as (_ & E & _); exact E].
    + apply emit_nodup; [apply B3|intros; apply single_nodup|intros sq m [<-|[]]; reflexivity].
    + intros m H2 H3. destruct (L2 m H2) as [E2 _]. destruct (L3 m H3) as [E3 _]. congruence.
    + intros m H1 H. destruct (L1 m H1) as [E1 _]. apply in_app_or in H. destruct H as [H|H]; [destruct (L2 m H) as [E2 _]|destruct (L3 m H) as [E2 _]]; congruence.
Qed.

Definition lab (TY : mtype) (BK : N -> N) (l : list move) : Prop := forall m, In m l -> m_type m = TY /\ m_from m = BK (m_to m).

Lemma nodup5 (l1 l2 l3 l4 l5 : list move) (K1 K2 : N -> N) :
  NoDup l1 -> NoDup l2 -> NoDup l3 -> NoDup l4 -> NoDup l5 ->
  lab Capture K1 l1 -> lab Capture K2 l2 -> lab PromoCapture K1 l3 -> lab PromoCapture K2 l4 -> (forall m, In m l5 -> m_type m = Enpassant) ->
  (forall x, K1 x <> K2 x) -> NoDup (l1 ++ l2 ++ l3 ++ l4 ++ l5).
Proof.
  intros N1 N2 N3 N4 N5 L1 L2 L3 L4 L5 HK.
  apply NoDup_app_intro; [exact N1|apply NoDup_app_intro; [exact N2|apply NoDup_app_intro; [exact N3|apply NoDup_app_intro; [exact N4|exact N5|]|]|]|].
  - intros m H4 H5. destruct (L4 m H4) as [E _]. rewrite (L5 m H5) in E. discriminate.
  - intros m H3 H. destruct (L3 m H3) as [E F]. apply in_app_or in H. destruct H as [H|H].
    + destruct (L4 m H) as [_ F']. rewrite F in F'. exact (HK _ F').
    + rewrite (L5 m H) in E. discriminate.
  - intros m H2 H. destruct (L2 m H2) as [E F]. apply in_app_or in H. destruct H as [H|H]; [destruct (L3 m H) as [E' _]; congruence|].
    apply in_app_or in H. destruct H as [H|H]; [destruct (L4 m H) as [E' _]; congruence|]. rewrite (L5 m H) in E. discriminate.
  - intros m H1 H. destruct (L1 m H1) as [E F]. apply in_app_or in H. destruct H as [H|H]; [destruct (L2 m H) as [_ F']; rewrite F in F'; exact (HK _ F')|].
    apply in_app_or in H. destruct H as [H|H]; [destruct (L3 m H) as [E' _]; congruence|].
    apply in_app_or in H. destruct H as [H|H]; [destruct (L4 m H) as [E' _]; congruence|]. rewrite (L5 m H) in E. discriminate.
Qed.

Lemma ep_block_nodup p ksq (c : bool) c1 c2 b1 b2 rq x :
  NoDup (if c then ep_try p ksq c1 b1 rq (sq_east x) ++ ep_try p ksq c2 b2 rq (sq_west x) else []).
Proof.
  destruct c; [|constructor]. unfold ep_try.
  destruct c1; [destruct (_ || _)|]; (destruct c2; [destruct (_ || _)|]); cbn [app]; repeat constructor; cbn [In]; intros H; try (exact H).
  destruct H as [H|[]]. inversion H as [H1]. exact (east_west_ne x H1).
Qed.

Lemma cap_single_labels p (BK : N -> N) sq m : In m [mkMove Capture (BK sq) sq Pawn (piece_on p sq) NoPiece] -> m_type m = Capture /\ m_to m = sq /\ m_from m = BK sq.
Proof. intros [<-|[]]. cbn [m_type m_to m_from]. repeat split. Qed.

Lemma cap_block_nodup p bb (BK : N -> N) : bb < two64 -> NoDup (emit bb (fun sq => [mkMove Capture (BK sq) sq Pawn (piece_on p sq) NoPiece])).
Proof. intros H. apply emit_nodup; [exact H|intros; apply single_nodup|intros sq m [<-|[]]; reflexivity]. Qed.
Lemma promo_block_nodup p bb (BK : N -> N) : bb < two64 -> NoDup (emit bb (fun sq => promo_caps (BK sq) sq (piece_on p sq))).
Proof. intros H. apply emit_nodup; [exact H|intros; apply promo_caps_nodup|intros sq m Hm; destruct (promo_caps_labels BK (piece_on p) sq m Hm) as (_ & E & _); exact E]. Qed.

Theorem pawn_captures_nodup p s ksq occ AL PR PNE PNW epbb epr : pieces p s Pawn < two64 ->
  NoDup (pawn_captures p s ksq occ AL PR PNE PNW epbb epr).
Proof.
  intros HPW. unfold pawn_captures. cbv zeta. destruct s.
  - assert (BE : forall X, N.land (east X) AL < two64) by (intros; apply land_lt, east_lt).
    assert (BW : forall X, N.land (west (north X)) AL < two64) by (intros; apply land_lt, west_lt, north_lt).
    apply (nodup5 _ _ _ _ _ (fun t => sq_west (sq_south t)) (fun t => sq_east (sq_south t))).
    + apply (cap_block_nodup p _ (fun t => sq_west (sq_south t))), BE.
    + apply (cap_block_nodup p _ (fun t => sq_east (sq_south t))), BW.
    + apply (promo_block_nodup p _ (fun t => sq_west (sq_south t))), BE.
    + apply (promo_block_nodup p _ (fun t => sq_east (sq_south t))), BW.
    + apply ep_block_nodup.
    + intros m H. exact (emit_labels _ _ Capture _ (BE _) (cap_single_labels p (fun t => sq_west (sq_south t))) m H).
    + intros m H. exact (emit_labels _ _ Capture _ (BW _) (cap_single_labels p (fun t => sq_east (sq_south t))) m H).
    + intros m H. exact (emit_labels _ _ PromoCapture _ (BE _) (promo_caps_labels (fun t => sq_west (sq_south t)) (piece_on p)) m H).
    + intros m H. exact (emit_labels _ _ PromoCapture _ (BW _) (promo_caps_labels (fun t => sq_east (sq_south t)) (piece_on p)) m H).
    + intros m H. exact (ep_block_type _ _ _ _ _ _ _ _ _ _ _ H).
    + intros x. apply east_west_ne.
  - assert (BE : forall X, N.land (east X) AL < two64) by (intros; apply land_lt, east_lt).
    assert (BW : forall X Y Z, N.land (west (south (N.land (N.land (N.land (pieces p Black Pawn) X) Y) Z))) AL < two64) by (intros; apply land_lt, west_lt, south_lt; do 3 apply land_lt; exact HPW).
    apply (nodup5 _ _ _ _ _ (fun t => sq_west (sq_north t)) (fun t => sq_east (sq_north t))).
    + apply (cap_block_nodup p _ (fun t => sq_west (sq_north t))), BE.
    + apply (cap_block_nodup p _ (fun t => sq_east (sq_north t))), BW.
    + apply (promo_block_nodup p _ (fun t => sq_west (sq_north t))), BE.
    + apply (promo_block_nodup p _ (fun t => sq_east (sq_north t))), BW.
    + apply ep_block_nodup.
    + intros m H. exact (emit_labels _ _ Capture _ (BE _) (cap_single_labels p (fun t => sq_west (sq_north t))) m H).
    + intros m H. exact (emit_labels _ _ Capture _ (BW _ _ _) (cap_single_labels p (fun t => sq_east (sq_north t))) m H).
    + intros m H. exact (emit_labels _ _ PromoCapture _ (BE _) (promo_caps_labels (fun t => sq_west (sq_north t)) (piece_on p)) m H).
    + intros m H. exact (emit_labels _ _ PromoCapture _ (BW _ _ _) (promo_caps_labels (fun t => sq_east (sq_north t)) (piece_on p)) m H).
    + intros m H. exact (ep_block_type _ _ _ _ _ _ _ _ _ _ _ H).
    + intros x. apply east_west_ne.
Qed.

Theorem g_pawn_pushes_nodup p : wf p = true -> NoDup (g_pawn_pushes p).
Proof. intros Hwf. unfold g_pawn_pushes. apply pawn_pushes_nodup. unfold g_push_pawns. apply land_lt, pawns_lt, Hwf. Qed.
Theorem g_pawn_caps_nodup p : wf p = true -> NoDup (g_pawn_caps p).
Proof. intros Hwf. unfold g_pawn_caps. apply pawn_captures_nodup, pawns_lt, Hwf. Qed.

Check spec_pawn_iff.
Check pawn_pushes_exact.
Check pawn_caps_exact.
Check pawn_exact_gen.
Check pawn_exact.
Check pawn_gen_piece.
Check g_pawn_pushes_nodup.
Check g_pawn_caps_nodup.
Print Assumptions pawn_exact.
Print Assumptions pawn_pushes_exact.
Print Assumptions pawn_caps_exact.
Print Assumptions g_pawn_pushes_nodup.
Print Assumptions g_pawn_caps_nodup.
