(* PawnFacts.v — passed_pawns(s) is exactly the set of s's passed pawns (C18): the 7-shift fill is
   OR-homomorphic, so it is decided by its 64 single-pawn inputs (kernel sweep) and lifted to all sets. *)
From Coq Require Import NArith ZArith List Bool Lia.
From Coq Require Import ZifyBool ZifyN ZifyNat.
From LC Require Import Bits BitsFacts Types BitboardModel BitboardFacts PositionModel Spec.Rules.
Import ListNotations.
Local Open Scope N_scope.

(* the two fills of passed_pawns, as functions of the enemy pawn set *)
Definition fill_white (m0 : N) : N :=
  let m1 := N.lor m0 (east (south m0)) in
  let m2 := N.lor m1 (west (south m1)) in
  let m3 := N.lor m2 (south m2) in let m4 := N.lor m3 (south m3) in
  let m5 := N.lor m4 (south m4) in let m6 := N.lor m5 (south m5) in
  N.lor m6 (south m6).
Definition fill_black (m0 : N) : N :=
  let m1 := N.lor m0 (east (north m0)) in
  let m2 := N.lor m1 (west (north m1)) in
  let m3 := N.lor m2 (north m2) in let m4 := N.lor m3 (north m3) in
  let m5 := N.lor m4 (north m4) in let m6 := N.lor m5 (north m5) in
  N.lor m6 (north m6).

Lemma passed_pawns_unfold p s :
  passed_pawns_s p s = N.land (pieces p s Pawn)
    (not64 (match s with White => fill_white (pieces p (opp_side s) Pawn) | Black => fill_black (pieces p (opp_side s) Pawn) end)).
Proof. destruct s; reflexivity. Qed.

Ltac additive_tac :=
  repeat first [ exact additive_id | exact additive_north | exact additive_south | exact additive_east | exact additive_west
               | apply additive_lor | match goal with |- additive (fun x => ?f (@?g x)) => apply (additive_comp f g) end ].

Lemma additive_step F G : additive F -> additive G -> additive (fun x => N.lor (F x) (G (F x))).
Proof. intros HF HG. apply additive_lor; [exact HF|apply (additive_comp G F HG HF)]. Qed.

Lemma additive_fill_white : additive fill_white.
Proof.
  unfold fill_white.
  assert (H1 : additive (fun m0 => N.lor m0 (east (south m0)))) by (apply (additive_step (fun x => x) (fun x => east (south x))); [exact additive_id|apply (additive_comp east south additive_east additive_south)]).
  assert (H2 : additive (fun m0 => let m1 := N.lor m0 (east (south m0)) in N.lor m1 (west (south m1)))) by (apply (additive_step _ (fun x => west (south x)) H1); apply (additive_comp west south additive_west additive_south)).
  pose proof (additive_step _ south H2 additive_south) as H3.
  pose proof (additive_step _ south H3 additive_south) as H4.
  pose proof (additive_step _ south H4 additive_south) as H5.
  pose proof (additive_step _ south H5 additive_south) as H6.
  exact (additive_step _ south H6 additive_south).
Qed.
Lemma additive_fill_black : additive fill_black.
Proof.
  unfold fill_black.
  assert (H1 : additive (fun m0 => N.lor m0 (east (north m0)))) by (apply (additive_step (fun x => x) (fun x => east (north x))); [exact additive_id|apply (additive_comp east north additive_east additive_north)]).
  assert (H2 : additive (fun m0 => let m1 := N.lor m0 (east (north m0)) in N.lor m1 (west (north m1)))) by (apply (additive_step _ (fun x => west (north x)) H1); apply (additive_comp west north additive_west additive_north)).
  pose proof (additive_step _ north H2 additive_north) as H3.
  pose proof (additive_step _ north H3 additive_north) as H4.
  pose proof (additive_step _ north H4 additive_north) as H5.
  pose proof (additive_step _ north H5 additive_north) as H6.
  exact (additive_step _ north H6 additive_north).
Qed.

(* what one enemy pawn on e shades, seen from x: e itself, or a square on e's own or an adjacent file strictly
   behind e (towards the side whose pawns are being judged); the fill reaches 7 ranks on e's file (5 on the h-file, where the
   south-east step falls off the board) and 6 on the adjacent files — enough for every pair of pawns on ranks 2-7 *)
Definition shades (s : side) (e x : N) : bool :=
  (e =? x) ||
  ((match s with White => rankof x <? rankof e | Black => rankof e <? rankof x end) &&
   (((fileof e =? fileof x) && (negb (fileof e =? 7) || (adiff (rankof e) (rankof x) <=? 5))) ||
    ((adiff (fileof e) (fileof x) =? 1) && (adiff (rankof e) (rankof x) <=? 6)))).

Lemma fill_sweep :
  forallb (fun e => forallb (fun x =>
     Bool.eqb (N.testbit (fill_white (bit e)) x) (shades White e x) &&
     Bool.eqb (N.testbit (fill_black (bit e)) x) (shades Black e x)) all64) all64 = true.
Proof. vm_compute. reflexivity. Qed.

Definition fill_of (s : side) : N -> N := match s with White => fill_white | Black => fill_black end.

Lemma fill_spec s m x : m < two64 -> x < 64 ->
  N.testbit (fill_of s m) x = existsb (fun e => N.testbit m e && shades s e x) all64.
Proof.
  intros Hm Hx.
  assert (Hadd : additive (fill_of s)) by (destruct s; [exact additive_fill_white|exact additive_fill_black]).
  rewrite (additive_lift (fill_of s) Hadd m x Hm).
  apply eq_true_iff_eq. rewrite !existsb_exists. split; intros [e [He Hb]]; exists e; (split; [exact He|]);
    apply in_all64 in He; pose proof (forallb_all64 _ (forallb_all64 _ fill_sweep e He) x Hx) as Hs;
    apply andb_true_iff in Hs; destruct Hs as [Hw Hbk]; apply eqb_prop in Hw; apply eqb_prop in Hbk;
    apply andb_true_iff in Hb; destruct Hb as [H1 H2]; rewrite H1; cbn [andb]; destruct s; cbn [fill_of] in *; congruence.
Qed.

(* x is one of s's pawns and no enemy pawn shades it *)
Theorem passed_pawns_bits p s x : b_pawn (brd p) < two64 -> x < 64 ->
  N.testbit (passed_pawns_s p s) x =
  N.testbit (pieces p s Pawn) x && negb (existsb (fun e => N.testbit (pieces p (opp_side s) Pawn) e && shades s e x) all64).
Proof.
  intros Hp Hx. rewrite passed_pawns_unfold, N.land_spec, not64_spec. replace (x <? 64) with true by lia. cbn [andb].
  f_equal. f_equal.
  assert (Hm : pieces p (opp_side s) Pawn < two64).
  { unfold pieces, occupancy_p. cbn [pcs]. rewrite N.land_comm. apply land_lt. exact Hp. }
  pose proof (fill_spec s _ x Hm Hx) as H. destruct s; exact H.
Qed.

(* the geometric reading, for pawn structures on ranks 2-7 (as in every legal-consistent position) *)
Definition pawns_on_ranks_2_7 (p : position) : Prop :=
  forall e, e < 64 -> N.testbit (b_pawn (brd p)) e = true -> 1 <= rankof e <= 6.
Definition in_front (s : side) (e x : N) : bool :=
  (adiff (fileof e) (fileof x) <=? 1) && (match s with White => rankof x <? rankof e | Black => rankof e <? rankof x end).

Lemma shades_in_front_sweep :
  forallb (fun e => forallb (fun x =>
     if (1 <=? rankof e) && (rankof e <=? 6) && (1 <=? rankof x) && (rankof x <=? 6) && negb (e =? x)
     then Bool.eqb (shades White e x) (in_front White e x) && Bool.eqb (shades Black e x) (in_front Black e x)
     else true) all64) all64 = true.
Proof. vm_compute. reflexivity. Qed.

Lemma shades_in_front s e x : e < 64 -> x < 64 -> 1 <= rankof e <= 6 -> 1 <= rankof x <= 6 -> e <> x ->
  shades s e x = in_front s e x.
Proof.
  intros He Hx Hre Hrx Hne. pose proof (forallb_all64 _ (forallb_all64 _ shades_in_front_sweep e He) x Hx) as H.
  cbv beta in H. replace ((1 <=? rankof e) && (rankof e <=? 6) && (1 <=? rankof x) && (rankof x <=? 6) && negb (e =? x)) with true in H by lia.
  apply andb_true_iff in H. destruct H as [H1 H2]. apply eqb_prop in H1. apply eqb_prop in H2. destruct s; assumption.
Qed.

Theorem passed_pawns_exact p s x :
  b_pawn (brd p) < two64 -> pawns_on_ranks_2_7 p -> N.land (b_white (brd p)) (b_black (brd p)) = 0 -> x < 64 ->
  N.testbit (passed_pawns_s p s) x =
  N.testbit (pieces p s Pawn) x && negb (existsb (fun e => N.testbit (pieces p (opp_side s) Pawn) e && in_front s e x) all64).
Proof.
  intros Hp Hr Hd Hx. rewrite passed_pawns_bits by assumption.
  destruct (N.testbit (pieces p s Pawn) x) eqn:Hown; [|reflexivity]. cbn [andb]. f_equal.
  apply eq_true_iff_eq. rewrite !existsb_exists.
  assert (Hxr : 1 <= rankof x <= 6).
  { apply Hr; [exact Hx|]. unfold pieces, occupancy_p in Hown. cbn [pcs] in Hown. rewrite N.land_spec in Hown. apply andb_true_iff in Hown. tauto. }
  assert (Hcol : forall e, N.testbit (pieces p (opp_side s) Pawn) e = true -> e <> x).
  { intros e He E. subst e. unfold pieces, occupancy_s, occupancy_p in *. rewrite N.land_spec in He, Hown.
    apply andb_true_iff in He. apply andb_true_iff in Hown. destruct He as [He _]. destruct Hown as [Ho _].
    assert (Hz : N.testbit (N.land (b_white (brd p)) (b_black (brd p))) x = true) by (rewrite N.land_spec; destruct s; cbn [opp_side colour] in *; rewrite He, Ho; reflexivity).
    rewrite Hd, N.bits_0 in Hz. discriminate. }
  split; intros [e [He Hb]]; exists e; (split; [exact He|]); apply in_all64 in He;
    apply andb_true_iff in Hb; destruct Hb as [H1 H2]; rewrite H1; cbn [andb];
    assert (Her : 1 <= rankof e <= 6) by (apply Hr; [exact He|]; unfold pieces, occupancy_p in H1; cbn [pcs] in H1; rewrite N.land_spec in H1; apply andb_true_iff in H1; tauto);
    pose proof (Hcol e H1) as Hne; pose proof (shades_in_front s e x He Hx Her Hxr Hne) as Heq; congruence.
Qed.
