(* PerftExact.v — C04: perft counts exactly the sequences of legal moves of the rules; C10: the game-end
   predicates in terms of the rules.  Both relative to two explicit premises: (X) the generator is exact on the
   domain, (G) the domain is closed under legal moves.
   Also: the rules' legal-move list has no repetition (no hypothesis at all). *)
From Coq Require Import NArith ZArith List Bool Lia Permutation.
From Coq Require Import ZifyBool ZifyN ZifyNat.
From LC Require Import Bits BitsFacts Types BitboardModel BitboardFacts MoveModel MoveFacts MagicModel MagicFacts HashFacts ZobristModel PositionModel MovegenModel MovegenFacts BoardFacts
  MakeModel FenModel GameModel MakeFacts GameFacts
  Spec.Rules Spec.Game Refine.Abs Refine.Board Refine.Make Refine.Wf Refine.MakeAbs Refine.SpecFits AttackFacts PinFacts KingFacts SafetyFacts LegalFacts LegalCore PinScanFacts.
Import ListNotations.
Local Open Scope N_scope.
Local Strategy 1000 [squares all64 seq].

(* ================================================================================================== *)
(* 1. The rules' move list has no repetition                                                          *)
(* ================================================================================================== *)

Lemma promo_map_nodup (g : piece -> move) : (forall a b, g a = g b -> a = b) -> NoDup (map g promo_pieces).
Proof.
  intros Hinj. unfold promo_pieces. cbn [map].
  repeat constructor; cbn [In]; intros H;
    repeat match type of H with
           | _ \/ _ => destruct H as [H|H]
           | False => destruct H
           | g _ = g _ => apply Hinj in H; discriminate H
           end.
Qed.

(* --- officers and king: at most one move per target square --- *)
Definition piece_cand_to (sp : spos) (fr : N) (pc : piece) (to : N) : list move :=
  if piece_attacks (s_board sp) (s_turn sp) pc fr to then
    match at_sq (s_board sp) to with
    | None => [mkMove Normal fr to pc NoPiece NoPiece]
    | Some (c, cp) =>
      if negb (side_eqb c (s_turn sp)) && negb (piece_eqb cp King) then [mkMove Capture fr to pc cp NoPiece] else []
    end
  else [].
Lemma piece_candidates_eq sp fr pc : piece_candidates sp fr pc = flat_map (piece_cand_to sp fr pc) squares.
Proof. reflexivity. Qed.
Lemma piece_cand_to_to sp fr pc to m : In m (piece_cand_to sp fr pc to) -> m_to m = to.
Proof.
  unfold piece_cand_to. intros H.
  repeat match type of H with
         | In _ (match ?o with Some _ => _ | None => _ end) => destruct o
         | In _ (match ?o with (_, _) => _ end) => destruct o
         | In _ (if ?c then _ else _) => destruct c
         | In _ [] => destruct H
         | In _ (_ :: _) => destruct H as [<-|H]
         end; reflexivity.
Qed.
Lemma piece_cand_to_nodup sp fr pc to : NoDup (piece_cand_to sp fr pc to).
Proof.
  unfold piece_cand_to.
  repeat match goal with
         | |- NoDup (match ?o with Some _ => _ | None => _ end) => destruct o
         | |- NoDup (match ?o with (_, _) => _ end) => destruct o
         | |- NoDup (if ?c then _ else _) => destruct c
         end; repeat constructor; intros [].
Qed.
Lemma piece_candidates_nodup sp fr pc : NoDup (piece_candidates sp fr pc).
Proof.
  rewrite piece_candidates_eq. apply NoDup_flat_map.
  - exact nodup_squares.
  - intros n _. apply piece_cand_to_nodup.
  - intros n n' m _ _ H1 H2. apply piece_cand_to_to in H1. apply piece_cand_to_to in H2. congruence.
Qed.

(* --- pawns: pushes and captures --- *)
Definition pawn_fwd (s : side) (q : N) : option N :=
  match s with White => if rankof q <? 7 then Some (q + 8) else None
             | Black => if 0 <? rankof q then Some (q - 8) else None end.
Definition pawn_push_cands (sp : spos) (fr : N) : list move :=
  let b := s_board sp in let s := s_turn sp in
  let start_rank := match s with White => rankof fr =? 1 | Black => rankof fr =? 6 end in
  match pawn_fwd s fr with
  | Some t1 =>
    if is_empty b t1 then
      (if last_rank s t1 then map (fun pr => mkMove Promo fr t1 Pawn NoPiece pr) promo_pieces
       else [mkMove Normal fr t1 Pawn NoPiece NoPiece]) ++
      (if start_rank then
         match pawn_fwd s t1 with
         | Some t2 => if is_empty b t2 then [mkMove Double fr t2 Pawn NoPiece NoPiece] else []
         | None => []
         end
       else [])
    else []
  | None => []
  end.
Definition pawn_cap_to (sp : spos) (fr : N) (to : N) : list move :=
  let b := s_board sp in let s := s_turn sp in
  if piece_attacks b s Pawn fr to then
    match at_sq b to with
    | Some (c, pc) =>
      if negb (side_eqb c s) && negb (piece_eqb pc King) then
        if last_rank s to then map (fun pr => mkMove PromoCapture fr to Pawn pc pr) promo_pieces
        else [mkMove Capture fr to Pawn pc NoPiece]
      else []
    | None =>
      match s_ep sp with
      | Some e => if e =? to then [mkMove Enpassant fr to Pawn Pawn NoPiece] else []
      | None => []
      end
    end
  else [].
Lemma pawn_candidates_eq sp fr : pawn_candidates sp fr = pawn_push_cands sp fr ++ flat_map (pawn_cap_to sp fr) squares.
Proof. reflexivity. Qed.

Lemma pawn_push_labels sp fr m : In m (pawn_push_cands sp fr) ->
  m_from m = fr /\ (m_type m = Normal \/ m_type m = Promo \/ m_type m = Double).
Proof.
  unfold pawn_push_cands. cbv zeta. intros H.
  repeat match type of H with
         | In _ (match ?o with Some _ => _ | None => _ end) => destruct o
         | In _ (if ?c then _ else _) => destruct c
         | In _ (_ ++ _) => apply in_app_or in H; destruct H as [H|H]
         | In _ (map _ _) => apply in_map_iff in H; destruct H as [? [<- _]]
         | In _ [] => destruct H
         | In _ (_ :: _) => destruct H as [<-|H]
         end; cbn [m_from m_type]; tauto.
Qed.
Lemma pawn_cap_labels sp fr to m : In m (pawn_cap_to sp fr to) ->
  m_from m = fr /\ m_to m = to /\ (m_type m = Capture \/ m_type m = PromoCapture \/ m_type m = Enpassant).
Proof.
  unfold pawn_cap_to. cbv zeta. intros H.
  repeat match type of H with
         | In _ (match ?o with Some _ => _ | None => _ end) => destruct o
         | In _ (match ?o with (_, _) => _ end) => destruct o
         | In _ (if ?c then _ else _) => destruct c
         | In _ (map _ _) => apply in_map_iff in H; destruct H as [? [<- _]]
         | In _ [] => destruct H
         | In _ (_ :: _) => destruct H as [<-|H]
         end; cbn [m_from m_to m_type]; tauto.
Qed.
Lemma pawn_push_nodup sp fr : NoDup (pawn_push_cands sp fr).
Proof.
  unfold pawn_push_cands. cbv zeta.
  destruct (pawn_fwd (s_turn sp) fr) as [t1|]; [|constructor].
  destruct (is_empty (s_board sp) t1); [|constructor].
  apply NoDup_app_intro.
  - destruct (last_rank (s_turn sp) t1).
    + apply promo_map_nodup. intros a b E. inversion E. reflexivity.
    + repeat constructor. intros [].
  - repeat match goal with
           | |- NoDup (match ?o with Some _ => _ | None => _ end) => destruct o
           | |- NoDup (if ?c then _ else _) => destruct c
           end; repeat constructor; intros [].
  - intros m H1 H2.
    assert (T1 : m_type m = Normal \/ m_type m = Promo).
    { destruct (last_rank (s_turn sp) t1).
      - apply in_map_iff in H1. destruct H1 as [? [<- _]]. right. reflexivity.
      - destruct H1 as [<-|[]]. left. reflexivity. }
    assert (T2 : m_type m = Double).
    { repeat match type of H2 with
             | In _ (match ?o with Some _ => _ | None => _ end) => destruct o
             | In _ (if ?c then _ else _) => destruct c
             | In _ [] => destruct H2
             | In _ (_ :: _) => destruct H2 as [<-|H2]
             end; reflexivity. }
    rewrite T2 in T1. destruct T1; discriminate.
Qed.
Lemma pawn_cap_to_nodup sp fr to : NoDup (pawn_cap_to sp fr to).
Proof.
  unfold pawn_cap_to. cbv zeta.
  repeat match goal with
         | |- NoDup (map _ promo_pieces) => apply promo_map_nodup; intros a b E; inversion E; reflexivity
         | |- NoDup (match ?o with Some _ => _ | None => _ end) => destruct o
         | |- NoDup (match ?o with (_, _) => _ end) => destruct o
         | |- NoDup (if ?c then _ else _) => destruct c
         end; repeat constructor; intros [].
Qed.
Lemma pawn_candidates_nodup sp fr : NoDup (pawn_candidates sp fr).
Proof.
  rewrite pawn_candidates_eq. apply NoDup_app_intro.
  - apply pawn_push_nodup.
  - apply NoDup_flat_map.
    + exact nodup_squares.
    + intros n _. apply pawn_cap_to_nodup.
    + intros n n' m _ _ H1 H2. apply pawn_cap_labels in H1. apply pawn_cap_labels in H2. destruct H1 as (_ & <- & _). destruct H2 as (_ & <- & _). reflexivity.
  - intros m H1 H2. apply pawn_push_labels in H1. apply in_flat_map in H2. destruct H2 as [to [_ H2]]. apply pawn_cap_labels in H2.
    destruct H1 as (_ & T1). destruct H2 as (_ & _ & T2).
    destruct T1 as [T1|[T1|T1]]; rewrite T1 in T2; destruct T2 as [T2|[T2|T2]]; discriminate.
Qed.
Lemma pawn_candidates_from sp fr m : In m (pawn_candidates sp fr) ->
  m_from m = fr /\ m_type m <> Ksc /\ m_type m <> Qsc.
Proof.
  rewrite pawn_candidates_eq. intros H. apply in_app_or in H. destruct H as [H|H].
  - apply pawn_push_labels in H. destruct H as (F & [T|[T|T]]); rewrite T; repeat split; try exact F; discriminate.
  - apply in_flat_map in H. destruct H as [to [_ H]]. apply pawn_cap_labels in H.
    destruct H as (F & _ & [T|[T|T]]); rewrite T; repeat split; try exact F; discriminate.
Qed.

(* --- the candidates of one origin square --- *)
Definition origin_cands (sp : spos) (fr : N) : list move :=
  match at_sq (s_board sp) fr with
  | Some (c, pc) =>
    if side_eqb c (s_turn sp) then
      match pc with Pawn => pawn_candidates sp fr | NoPiece => [] | _ => piece_candidates sp fr pc end
    else []
  | None => []
  end.
Definition castle_cands (sp : spos) : list move :=
  match s_turn sp with
  | White => castle_candidate sp Ksc (s_wk sp) ++ castle_candidate sp Qsc (s_wq sp)
  | Black => castle_candidate sp Ksc (s_bk sp) ++ castle_candidate sp Qsc (s_bq sp)
  end.
Lemma pseudo_moves_eq sp : pseudo_moves sp = flat_map (origin_cands sp) squares ++ castle_cands sp.
Proof. reflexivity. Qed.

Lemma origin_cands_labels sp fr m : In m (origin_cands sp fr) -> m_from m = fr /\ m_type m <> Ksc /\ m_type m <> Qsc.
Proof.
  unfold origin_cands. intros H.
  destruct (at_sq (s_board sp) fr) as [[c pc]|]; [|destruct H]. destruct (side_eqb c (s_turn sp)); [|destruct H].
  assert (G : forall pc', In m (piece_candidates sp fr pc') -> m_from m = fr /\ m_type m <> Ksc /\ m_type m <> Qsc).
  { intros pc' Hin. apply piece_candidates_labels in Hin. destruct Hin as (_ & F & [T|T]); rewrite T; repeat split; try exact F; discriminate. }
  destruct pc; cbv iota in H.
  - apply (pawn_candidates_from sp fr m H).
  - apply (G Knight H).
  - apply (G Bishop H).
  - apply (G Rook H).
  - apply (G Queen H).
  - apply (G King H).
  - destruct H.
Qed.
Lemma origin_cands_nodup sp fr : NoDup (origin_cands sp fr).
Proof.
  unfold origin_cands.
  destruct (at_sq (s_board sp) fr) as [[c pc]|]; [|constructor]. destruct (side_eqb c (s_turn sp)); [|constructor].
  destruct pc; cbv iota; try apply piece_candidates_nodup; [apply pawn_candidates_nodup|constructor].
Qed.

Lemma castle_candidate_nodup sp mt r : NoDup (castle_candidate sp mt r).
Proof.
  unfold castle_candidate.
  repeat match goal with
         | |- NoDup (match ?o with Some _ => _ | None => _ end) => destruct o
         | |- NoDup (let '(_, _) := ?o in _) => destruct o
         | |- NoDup (if ?c then _ else _) => destruct c
         end; repeat constructor; intros [].
Qed.
Lemma castle_cands_labels sp m : In m (castle_cands sp) -> m_type m = Ksc \/ m_type m = Qsc.
Proof.
  unfold castle_cands. intros H.
  destruct (s_turn sp); apply in_app_or in H; destruct H as [H|H]; apply castle_candidate_labels in H; tauto.
Qed.
Lemma castle_cands_nodup sp : NoDup (castle_cands sp).
Proof.
  unfold castle_cands.
  destruct (s_turn sp); (apply NoDup_app_intro; [apply castle_candidate_nodup|apply castle_candidate_nodup|]);
    intros m H1 H2; apply castle_candidate_labels in H1; apply castle_candidate_labels in H2; rewrite H1 in H2; discriminate.
Qed.

Theorem pseudo_moves_nodup (s : spos) : NoDup (pseudo_moves s).
Proof.
  rewrite pseudo_moves_eq. apply NoDup_app_intro.
  - apply NoDup_flat_map.
    + exact nodup_squares.
    + intros n _. apply origin_cands_nodup.
    + intros n n' m _ _ H1 H2. apply origin_cands_labels in H1. apply origin_cands_labels in H2.
      destruct H1 as (<- & _). destruct H2 as (<- & _). reflexivity.
  - apply castle_cands_nodup.
  - intros m H1 H2. apply in_flat_map in H1. destruct H1 as [fr [_ H1]]. apply origin_cands_labels in H1.
    apply castle_cands_labels in H2. destruct H1 as (_ & N1 & N2). destruct H2 as [T|T]; [apply N1|apply N2]; exact T.
Qed.

(* the rules never list a legal move twice — in ANY spec position (no consistency hypothesis needed) *)
Theorem spec_moves_nodup (s : spos) : NoDup (spec_moves s).
Proof. unfold spec_moves. apply NoDup_filter. apply pseudo_moves_nodup. Qed.

(* ================================================================================================== *)
(* 2. Sums over lists                                                                                 *)
(* ================================================================================================== *)
Lemma sum_fold_left_right {A} (g : A -> N) (l : list A) (a : N) :
  fold_left (fun acc m => acc + g m) l a = a + fold_right (fun m s => g m + s) 0 l.
Proof.
  revert a. induction l as [|x r IH]; intros a; cbn [fold_left fold_right]; [lia|]. rewrite IH. lia.
Qed.
Lemma sum_perm {A} (g : A -> N) (l l' : list A) : Permutation l l' ->
  fold_right (fun m s => g m + s) 0 l = fold_right (fun m s => g m + s) 0 l'.
Proof.
  intros H. induction H as [|x l l' _ IH|x y l|l l' l'' _ IH1 _ IH2]; cbn [fold_right].
  - reflexivity.
  - rewrite IH. reflexivity.
  - lia.
  - rewrite IH1. exact IH2.
Qed.
Lemma sum_ext_in {A} (g h : A -> N) (l : list A) : (forall m, In m l -> g m = h m) ->
  fold_right (fun m s => g m + s) 0 l = fold_right (fun m s => h m + s) 0 l.
Proof.
  induction l as [|x r IH]; intros H; cbn [fold_right]; [reflexivity|].
  rewrite (H x (or_introl eq_refl)), IH by (intros m Hm; apply H; right; exact Hm). reflexivity.
Qed.
Lemma sum_const_one {A} (l : list A) : fold_right (fun (_ : A) s => 1 + s) 0 l = N.of_nat (length l).
Proof. induction l as [|x r IH]; cbn [fold_right length]; [reflexivity|]. rewrite IH. lia. Qed.

(* the specification's own recurrence, in fold_right form, and its first two values *)
Theorem spec_perft_recurrence d s :
  spec_perft (S d) s = fold_right (fun m acc => spec_perft d (apply_move s m) + acc) 0 (spec_moves s).
Proof. cbn [spec_perft]. rewrite (sum_fold_left_right (fun m => spec_perft d (apply_move s m))). apply N.add_0_l. Qed.
Theorem spec_perft_zero s : spec_perft 0 s = 1.
Proof. reflexivity. Qed.
Theorem spec_perft_one s : spec_perft 1 s = N.of_nat (length (spec_moves s)).
Proof. rewrite spec_perft_recurrence. apply (sum_const_one (spec_moves s)). Qed.

(* ================================================================================================== *)
(* 3. perft = spec_perft, and the game-end predicates, relative to (X) and (G)                        *)
(* ================================================================================================== *)
Section Exact.
Variable K : zkeys.
Variable dfrc : bool.


(* (X) the generator is exact on the domain;  (G) the domain is closed under the legal moves of the rules *)
Hypothesis HX : forall p, wf p = true -> rooks_ok p -> legal_consistent dfrc (abs p) = true ->
  NoDup (legal_moves p) /\ forall m, In m (legal_moves p) <-> In m (spec_moves (abs p)).
Hypothesis HG : forall p m, wf p = true -> rooks_ok p -> legal_consistent dfrc (abs p) = true -> In m (spec_moves (abs p)) ->
  wf (makemove K p m) = true /\ rooks_ok (makemove K p m) /\ legal_consistent dfrc (abs (makemove K p m)) = true.

(* the generated list is a rearrangement of the rules' list *)
Lemma legal_moves_perm p : wf p = true -> rooks_ok p -> legal_consistent dfrc (abs p) = true ->
  Permutation (legal_moves p) (spec_moves (abs p)).
Proof.
  intros Hwf Hr Hlc. destruct (HX p Hwf Hr Hlc) as [Hnd Hmem].
  apply NoDup_Permutation; [exact Hnd|apply spec_moves_nodup|exact Hmem].
Qed.

(* a legal move of the rules leads, in the model, to the successor the rules prescribe *)
Lemma successor_abs p m : wf p = true -> rooks_ok p -> legal_consistent dfrc (abs p) = true -> In m (spec_moves (abs p)) ->
  abs (makemove K p m) = apply_move (abs p) m.
Proof.
  intros Hwf Hr Hlc Hm. apply (makemove_refines K p m Hwf Hr). apply (spec_moves_fit dfrc p m Hr Hlc Hm).
Qed.

(* C04: perft(d) is the number of sequences of d legal moves of the rules *)
Theorem perft_exact : forall d p, wf p = true -> rooks_ok p -> legal_consistent dfrc (abs p) = true ->
  fst (perft K d p) = spec_perft d (abs p).
Proof.
  induction d as [|d IH]; intros p Hwf Hr Hlc; [reflexivity|].
  rewrite perft_recurrence, spec_perft_recurrence.
  rewrite (sum_perm (fun m => fst (perft K d (makemove K p m))) _ _ (legal_moves_perm p Hwf Hr Hlc)).
  apply sum_ext_in. intros m Hm.
  destruct (HG p m Hwf Hr Hlc Hm) as (Hwf' & Hr' & Hlc').
  rewrite (IH (makemove K p m) Hwf' Hr' Hlc'). rewrite (successor_abs p m Hwf Hr Hlc Hm). reflexivity.
Qed.

(* the property in its own words: perft(d+1) = sum over the LEGAL MOVES OF THE RULES m of perft(d) after m *)
Theorem perft_sum_over_rules d p : wf p = true -> rooks_ok p -> legal_consistent dfrc (abs p) = true ->
  fst (perft K (S d) p) = fold_right (fun m s => fst (perft K d (makemove K p m)) + s) 0 (spec_moves (abs p)).
Proof.
  intros Hwf Hr Hlc. rewrite perft_recurrence.
  apply (sum_perm (fun m => fst (perft K d (makemove K p m))) _ _ (legal_moves_perm p Hwf Hr Hlc)).
Qed.
Theorem perft_depth_one p : wf p = true -> rooks_ok p -> legal_consistent dfrc (abs p) = true ->
  fst (perft K 1 p) = N.of_nat (length (spec_moves (abs p))).
Proof. intros Hwf Hr Hlc. rewrite (perft_sum_over_rules 0 p Hwf Hr Hlc). apply (sum_const_one (spec_moves (abs p))). Qed.
Theorem count_moves_exact p : wf p = true -> rooks_ok p -> legal_consistent dfrc (abs p) = true ->
  count_moves p = N.of_nat (length (spec_moves (abs p))).
Proof. intros Hwf Hr Hlc. rewrite count_moves_length. f_equal. apply Permutation_length. apply (legal_moves_perm p Hwf Hr Hlc). Qed.

(* ---------- C10: the game-end predicates in terms of the rules ---------- *)
Theorem no_moves_exact p : wf p = true -> rooks_ok p -> legal_consistent dfrc (abs p) = true ->
  no_moves p = spec_no_moves (abs p).
Proof.
  intros Hwf Hr Hlc. destruct (HX p Hwf Hr Hlc) as [_ Hmem]. unfold no_moves, spec_no_moves.
  destruct (legal_moves p) as [|m r] eqn:E1; destruct (spec_moves (abs p)) as [|m' r'] eqn:E2; try reflexivity.
  - exfalso. apply (proj2 (Hmem m')). left. reflexivity.
  - exfalso. apply (proj1 (Hmem m)). left. reflexivity.
Qed.

(* in_check is the rules' "the mover's king is attacked" (needs only the domain, not (X)) *)
Theorem in_check_spec p : wf p = true -> legal_consistent dfrc (abs p) = true -> in_check p = spec_in_check (abs p).
Proof.
  intros Hwf Hlc. destruct (lc_king dfrc p (turn p) Hlc) as [k [Hk _]].
  unfold spec_in_check. cbn [abs s_board s_turn].
  apply (in_check_exact p (cell_of_b (brd p)) (wf_rep (brd p) Hwf)). exists k. exact Hk.
Qed.
Theorem fiftymoves_spec p : fiftymoves p = spec_fifty (abs p).
Proof. reflexivity. Qed.

Theorem is_checkmate_exact p : wf p = true -> rooks_ok p -> legal_consistent dfrc (abs p) = true ->
  is_checkmate p = spec_checkmate (abs p).
Proof.
  intros Hwf Hr Hlc. unfold is_checkmate, spec_checkmate.
  rewrite (no_moves_exact p Hwf Hr Hlc), (in_check_spec p Hwf Hlc). reflexivity.
Qed.
Theorem is_stalemate_exact p : wf p = true -> rooks_ok p -> legal_consistent dfrc (abs p) = true ->
  is_stalemate p = spec_stalemate (abs p).
Proof.
  intros Hwf Hr Hlc. unfold is_stalemate, spec_stalemate.
  rewrite (no_moves_exact p Hwf Hr Hlc), (in_check_spec p Hwf Hlc). reflexivity.
Qed.
(* threefold is treated elsewhere (C09); the rest of is_draw / is_terminal is the rules' *)
Theorem is_draw_exact p : wf p = true -> rooks_ok p -> legal_consistent dfrc (abs p) = true ->
  is_draw p = (threefold p || spec_fifty (abs p)) && negb (spec_checkmate (abs p)).
Proof. intros Hwf Hr Hlc. unfold is_draw. rewrite (is_checkmate_exact p Hwf Hr Hlc), fiftymoves_spec. reflexivity. Qed.
Theorem is_terminal_exact p : wf p = true -> rooks_ok p -> legal_consistent dfrc (abs p) = true ->
  is_terminal p = spec_no_moves (abs p) || ((threefold p || spec_fifty (abs p)) && negb (spec_checkmate (abs p))).
Proof. intros Hwf Hr Hlc. unfold is_terminal. rewrite (no_moves_exact p Hwf Hr Hlc), (is_draw_exact p Hwf Hr Hlc). reflexivity. Qed.

(* the same in the words of the property: in terms of "the rules have no legal move" and "the king is attacked" *)
Theorem is_checkmate_rules p : wf p = true -> rooks_ok p -> legal_consistent dfrc (abs p) = true ->
  (is_checkmate p = true <-> spec_moves (abs p) = [] /\ spec_in_check (abs p) = true).
Proof.
  intros Hwf Hr Hlc. rewrite (is_checkmate_exact p Hwf Hr Hlc). unfold spec_checkmate, spec_no_moves. rewrite andb_true_iff.
  destruct (spec_moves (abs p)); split; intros [H1 H2]; split; congruence.
Qed.
Theorem is_stalemate_rules p : wf p = true -> rooks_ok p -> legal_consistent dfrc (abs p) = true ->
  (is_stalemate p = true <-> spec_moves (abs p) = [] /\ spec_in_check (abs p) = false).
Proof.
  intros Hwf Hr Hlc. rewrite (is_stalemate_exact p Hwf Hr Hlc). unfold spec_stalemate, spec_no_moves. rewrite andb_true_iff, negb_true_iff.
  destruct (spec_moves (abs p)); split; intros [H1 H2]; split; congruence.
Qed.
End Exact.

Check spec_moves_nodup. Check perft_exact. Check perft_sum_over_rules. Check perft_depth_one. Check count_moves_exact.
Check no_moves_exact. Check in_check_spec. Check fiftymoves_spec. Check is_checkmate_exact. Check is_stalemate_exact.
Check is_draw_exact. Check is_terminal_exact. Check is_checkmate_rules. Check is_stalemate_rules.
Print Assumptions spec_moves_nodup. Print Assumptions perft_exact. Print Assumptions is_checkmate_exact.
Print Assumptions is_stalemate_exact. Print Assumptions is_terminal_exact. Print Assumptions in_check_spec.
