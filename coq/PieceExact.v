(* PieceExact.v — C01: knights, bishops, rooks, queens.  The rules' legal moves of such a piece as a mailbox
   predicate (spec side), and the generators' output for them (model side). *)
From Coq Require Import NArith ZArith List Bool Lia.
From Coq Require Import ZifyBool ZifyN ZifyNat.
From LC Require Import Bits BitsFacts Types BitboardModel BitboardFacts MoveModel MoveFacts MagicModel MagicFacts HashFacts PositionModel MovegenModel MovegenFacts BoardFacts
  Spec.Rules Refine.Abs Refine.Board Refine.Make Refine.Wf Refine.MakeAbs Refine.SpecFits AttackFacts PinFacts KingFacts SafetyFacts LegalFacts LegalCore.
Import ListNotations.
Local Open Scope N_scope.
Local Strategy 1000 [squares all64 seq].

Definition officer (pc : piece) : bool := match pc with Knight | Bishop | Rook | Queen => true | _ => false end.

Lemma castle_candidate_piece sp mt r m : In m (castle_candidate sp mt r) -> m_piece m = King.
Proof.
  unfold castle_candidate. intros H.
  repeat match type of H with
         | In _ (match ?o with Some _ => _ | None => _ end) => destruct o
         | In _ (let '(_, _) := ?o in _) => destruct o
         | In _ (if ?c then _ else _) => destruct c
         | In _ [] => destruct H
         | In _ (_ :: _) => destruct H as [<-|H]
         end; reflexivity.
Qed.

Section Officer.
Variable p : position.
Hypothesis Hwf : wf p = true.
Variable k : N.
Hypothesis Hk : find_king (abs_board p) (turn p) = Some k.
Hypothesis Huk : forall a, a < 64 -> cell_of_b (brd p) a = Some (turn p, King) -> a = k.
Notation f := (cell_of_b (brd p)).
Notation us := (turn p).
Notation them := (opp_side (turn p)).

Definition officer_move (pc : piece) (fr t : N) (m : move) : Prop :=
  f fr = Some (us, pc) /\ piece_attacks (abs_board p) us pc fr t = true /\ resolves p k t /\ pin_ok p k fr t /\
  ((f t = None /\ m = mkMove Normal fr t pc NoPiece NoPiece) \/
   (exists cp, f t = Some (them, cp) /\ cp <> King /\ m = mkMove Capture fr t pc cp NoPiece)).

Theorem spec_officer_iff pc m : officer pc = true ->
  ((In m (spec_moves (abs p)) /\ m_piece m = pc) <-> exists fr t, fr < 64 /\ t < 64 /\ officer_move pc fr t m).
Proof.
  intros Hoff. destruct (k_lt p Hwf k Hk) as [Hk64 Hfk].
  assert (HpcK : pc <> King) by (intros ->; discriminate).
  assert (Safe : forall ty fr t cp, (ty = Normal \/ ty = Capture) -> fr < 64 -> t < 64 -> f fr = Some (us, pc) ->
            piece_attacks (abs_board p) us pc fr t = true -> (f t = None \/ exists cp', f t = Some (them, cp')) ->
            (leaves_king_safe (abs p) (mkMove ty fr t pc cp NoPiece) = true <-> resolves p k t /\ pin_ok p k fr t)).
  { intros ty fr t cp Hty Hfr Ht Hf Hatt Htgt.
    assert (Hne : fr <> t) by (intros ->; rewrite piece_attacks_self in Hatt by exact Ht; discriminate).
    assert (Htk : t <> k) by (intros ->; destruct Htgt as [E|[cp' E]]; rewrite Hfk in E; [discriminate|inversion E; destruct us; discriminate]).
    apply (simple_safe_iff p Hwf k Hk Huk ty fr t pc cp NoPiece); try assumption; destruct Hty as [-> | ->]; exact I. }
  split.
  - intros [Hin Hpc]. unfold spec_moves in Hin. apply filter_In in Hin. destruct Hin as [Hps Hsafe].
    unfold pseudo_moves in Hps. apply in_app_or in Hps. destruct Hps as [Hps|Hps].
    2:{ exfalso. cbn [abs s_turn] in Hps. destruct us; apply in_app_or in Hps; destruct Hps as [H|H]; apply castle_candidate_piece in H; congruence. }
    apply in_flat_map in Hps. destruct Hps as [fr [Hfr Hps]]. apply in_squares in Hfr. cbn [abs s_board s_turn] in Hps.
    rewrite at_sq_abs_board in Hps by exact Hfr. change (cell_of p fr) with (f fr) in Hps.
    destruct (f fr) as [[c pc']|] eqn:Effr; [|destruct Hps]. destruct (side_eqb c us) eqn:Ec; [|destruct Hps]. apply side_eqb_true in Ec. subst c.
    assert (Hcand : In m (piece_candidates (abs p) fr pc) /\ pc' = pc).
    { destruct pc'; cbv iota in Hps;
        try (match type of Hps with In _ (piece_candidates _ _ ?q) => pose proof (piece_candidates_labels (abs p) fr q m Hps) as (E & _) end;
             rewrite Hpc in E; rewrite E; split; [exact Hps|reflexivity]).
      - apply (pawn_candidates_labels (abs p) fr m) in Hps. rewrite Hpc in Hps. rewrite Hps in Hoff. discriminate.
      - destruct Hps. }
    destruct Hcand as [Hcand ->]. clear Hps.
    unfold piece_candidates in Hcand. apply in_flat_map in Hcand. destruct Hcand as [t [Ht Hc]]. apply in_squares in Ht. cbn [abs s_board s_turn] in Hc.
    destruct (piece_attacks (abs_board p) us pc fr t) eqn:Hatt; [|destruct Hc].
    rewrite at_sq_abs_board in Hc by exact Ht. change (cell_of p t) with (f t) in Hc.
    exists fr, t. split; [exact Hfr|]. split; [exact Ht|]. unfold officer_move.
    destruct (f t) as [[c cp]|] eqn:Eft.
    + destruct (negb (side_eqb c us) && negb (piece_eqb cp King)) eqn:Econd; [|destruct Hc]. destruct Hc as [<-|[]].
      apply andb_true_iff in Econd. destruct Econd as [E1 E2]. apply negb_true_iff in E1, E2. apply opp_of_neq' in E1. subst c.
      apply (Safe Capture fr t cp (or_intror eq_refl) Hfr Ht Effr Hatt (or_intror (ex_intro _ cp Eft))) in Hsafe. destruct Hsafe as [Hr Hp].
      repeat split; try assumption. right. exists cp. split; [first [exact Eft|reflexivity]|]. split; [intros ->; discriminate|reflexivity].
    + destruct Hc as [<-|[]].
      apply (Safe Normal fr t NoPiece (or_introl eq_refl) Hfr Ht Effr Hatt (or_introl Eft)) in Hsafe. destruct Hsafe as [Hr Hp].
      repeat split; try assumption. left. split; first [exact Eft|reflexivity].
  - intros (fr & t & Hfr & Ht & Hf & Hatt & Hr & Hp & Hform).
    assert (Hm : In m (piece_candidates (abs p) fr pc)).
    { unfold piece_candidates. apply in_flat_map. exists t. split; [apply in_squares; exact Ht|]. cbn [abs s_board s_turn]. rewrite Hatt.
      rewrite at_sq_abs_board by exact Ht. change (cell_of p t) with (f t).
      destruct Hform as [[E ->]|[cp (E & Hcp & ->)]]; rewrite E; [left; reflexivity|].
      replace (side_eqb them us) with false by (destruct us; reflexivity). replace (piece_eqb cp King) with false by (destruct cp; try reflexivity; congruence).
      left. reflexivity. }
    split.
    + unfold spec_moves. apply filter_In. split.
      * unfold pseudo_moves. apply in_or_app. left. apply in_flat_map. exists fr. split; [apply in_squares; exact Hfr|]. cbn [abs s_board s_turn].
        rewrite at_sq_abs_board by exact Hfr. change (cell_of p fr) with (f fr). rewrite Hf, side_eqb_refl. destruct pc; try discriminate; exact Hm.
      * destruct Hform as [[E ->]|[cp (E & Hcp & ->)]].
        -- apply (Safe Normal fr t NoPiece (or_introl eq_refl) Hfr Ht Hf Hatt (or_introl E)). split; assumption.
        -- apply (Safe Capture fr t cp (or_intror eq_refl) Hfr Ht Hf Hatt (or_intror (ex_intro _ cp E))). split; assumption.
    + destruct Hform as [[_ ->]|[cp (_ & _ & ->)]]; reflexivity.
Qed.
End Officer.

(* ---------- geometry of a pin line ---------- *)
(* fr strictly between a and k; t on the segment from a (inclusive) to k (exclusive), t <> fr *)
Lemma pin_line_sweep :
  forallb (fun a => forallb (fun k => forallb (fun fr => forallb (fun t =>
     if t =? fr then true else
       (fr <? 64) && (t <? 64) &&
       Bool.eqb (same_diag fr t) (same_diag a k) && Bool.eqb (same_line fr t) (same_line a k) &&
       forallb (fun y => existsb (N.eqb y) (between a k) && negb (y =? fr) && negb (y =? a)) (between fr t) &&
       negb (piece_attacks [] White Knight fr t))
     (a :: between a k)) (between a k)) all64) all64 = true.
Proof. vm_compute. reflexivity. Qed.

Lemma pin_line a k fr t : a < 64 -> k < 64 -> In fr (between a k) -> (t = a \/ In t (between a k)) -> t <> fr ->
  fr < 64 /\ t < 64 /\ same_diag fr t = same_diag a k /\ same_line fr t = same_line a k /\
  (forall y, In y (between fr t) -> In y (between a k) /\ y <> fr /\ y <> a) /\
  (forall b s, piece_attacks b s Knight fr t = false).
Proof.
  intros Ha Hk Hfr Ht Hne.
  pose proof (forallb_all64 _ (forallb_all64 _ pin_line_sweep a Ha) k Hk) as H. cbv beta in H.
  rewrite forallb_forall in H. specialize (H fr Hfr). rewrite forallb_forall in H.
  assert (Hin : In t (a :: between a k)) by (destruct Ht as [->|Ht]; [left; reflexivity|right; exact Ht]).
  specialize (H t Hin). replace (t =? fr) with false in H by lia.
  repeat (apply andb_true_iff in H; let H' := fresh "G" in destruct H as [H H']).
  apply N.ltb_lt in H. apply N.ltb_lt in G3. apply eqb_prop in G2, G1. apply negb_true_iff in G.
  repeat split; try assumption.
  - rewrite forallb_forall in G0. specialize (G0 y H0). apply andb_true_iff in G0. destruct G0 as [G0 _]. apply andb_true_iff in G0. destruct G0 as [G0 _]. apply in_existsb. exact G0.
  - rewrite forallb_forall in G0. specialize (G0 y H0). apply andb_true_iff in G0. destruct G0 as [G0 _]. apply andb_true_iff in G0. destruct G0 as [_ G0]. apply negb_true_iff in G0. lia.
  - rewrite forallb_forall in G0. specialize (G0 y H0). apply andb_true_iff in G0. destruct G0 as [_ G0]. apply negb_true_iff in G0. lia.
  - intros b s. rewrite <- G. destruct s; reflexivity.
Qed.

Definition dir_ok (pc : piece) (a k : N) : bool :=
  match pc with Bishop => same_diag a k | Rook => same_line a k | Queen => true | _ => false end.

Section Pinned.
Variable p : position.
Hypothesis Hwf : wf p = true.
Variable k : N.
Hypothesis Hk : find_king (abs_board p) (turn p) = Some k.
Notation f := (cell_of_b (brd p)).
Notation us := (turn p).
Notation them := (opp_side (turn p)).

Lemma pinner_facts a x : Pinner f us k a x ->
  a < 64 /\ k < 64 /\ In x (between a k) /\ x < 64 /\ (same_diag a k || same_line a k = true) /\ a <> k /\ f a <> None /\
  (forall y, In y (between a k) -> y <> x -> f y = None).
Proof.
  intros (Ha & pa & Efa & Hs & Hal & Hin & Hal2). destruct (k_lt p Hwf k Hk) as [Hk64 _].
  unfold slider_aligned in Hal. apply andb_true_iff in Hal. destruct Hal as [Hak Hal]. apply negb_true_iff in Hak.
  repeat split; try assumption.
  - apply (between_lt a k); assumption.
  - destruct pa; try discriminate; rewrite ?Hal, ?orb_true_r; try reflexivity; exact Hal.
  - lia.
  - congruence.
Qed.

(* the pinner of a piece is unique *)
Lemma pinner_uniq a a' x : Pinner f us k a x -> Pinner f us k a' x -> a = a'.
Proof.
  intros H1 H2. destruct (pinner_facts a x H1) as (Ha & Hk64 & Hin & Hx & _ & _ & Hfa & Hal).
  destruct (pinner_facts a' x H2) as (Ha' & _ & Hin' & _ & _ & _ & Hfa' & Hal').
  destruct (N.eq_dec a a') as [E|Hne]; [exact E|exfalso].
  destruct (ray_share k a a' x Hk64 Ha Ha' Hne Hin Hin') as [H|H].
  - apply Hfa. apply Hal'; [exact H|]. intros E. destruct (between_geo a k Ha Hk64) as (_ & Hn & _). rewrite E in Hn at 1. contradiction.
  - apply Hfa'. apply Hal; [exact H|]. intros E. destruct (between_geo a' k Ha' Hk64) as (_ & Hn & _). rewrite E in Hn at 1. contradiction.
Qed.

Lemma pin_ok_pinned a fr t : Pinner f us k a fr -> (pin_ok p k fr t <-> t = a \/ In t (between a k)).
Proof.
  intros Hp. unfold pin_ok. split; [intros H; apply H; exact Hp|].
  intros H a' Hp'. rewrite <- (pinner_uniq a a' fr Hp Hp'). exact H.
Qed.

Lemma pin_ok_free fr t : (forall a, ~ Pinner f us k a fr) -> pin_ok p k fr t.
Proof. intros H a Hp. exfalso. exact (H a Hp). Qed.

(* which squares of the pin line a pinned officer reaches *)
Lemma pinned_officer_attacks a fr t pc : Pinner f us k a fr -> officer pc = true -> (t = a \/ In t (between a k)) ->
  piece_attacks (abs_board p) us pc fr t = negb (t =? fr) && dir_ok pc a k.
Proof.
  intros Hp Hoff Ht. destruct (pinner_facts a fr Hp) as (Ha & Hk64 & Hin & Hfr & Hdir & _ & _ & Hal).
  destruct (N.eqb_spec t fr) as [->|Hne].
  - rewrite piece_attacks_self by exact Hfr. reflexivity.
  - destruct (pin_line a k fr t Ha Hk64 Hin Ht Hne) as (_ & Ht64 & Ed & El & Hbt & Hkn). cbn [negb andb].
    assert (Hclear : all_empty (abs_board p) (between fr t) = true).
    { unfold all_empty. apply forallb_forall. intros y Hy. destruct (Hbt y Hy) as (Hy1 & Hy2 & _).
      unfold is_empty. rewrite at_sq_abs_board by (apply (between_lt a k); assumption). change (cell_of p y) with (f y). rewrite (Hal y Hy1 Hy2). reflexivity. }
    destruct pc; try discriminate.
    + apply Hkn.
    + rewrite slider_attacks by reflexivity. unfold slider_aligned. rewrite Hclear, Ed. replace (fr =? t) with false by lia. cbn [dir_ok negb andb]. rewrite andb_true_r. reflexivity.
    + rewrite slider_attacks by reflexivity. unfold slider_aligned. rewrite Hclear, El. replace (fr =? t) with false by lia. cbn [dir_ok negb andb]. rewrite andb_true_r. reflexivity.
    + rewrite slider_attacks by reflexivity. unfold slider_aligned. rewrite Hclear, Ed, El, Hdir. replace (fr =? t) with false by lia. reflexivity.
Qed.
End Pinned.

(* ---------- the pin sets of legal_captures on the mailbox ---------- *)
Lemma rank_file_mask_sweep :
  forallb (fun k => forallb (fun x =>
    Bool.eqb (N.testbit (rank_mask (sq_rank k)) x || N.testbit (file_mask (sq_file k)) x) (same_line k x)) all64) all64 = true.
Proof. vm_compute. reflexivity. Qed.

Section PinSets.
Variable p : position.
Hypothesis Hwf : wf p = true.
Variable k : N.
Hypothesis Hk : find_king (abs_board p) (turn p) = Some k.
Notation f := (cell_of_b (brd p)).
Notation us := (turn p).
Notation them := (opp_side (turn p)).

Definition Own (x : N) : Prop := exists pc, f x = Some (us, pc).
Definition PinnedDiag (x : N) : Prop := Own x /\ exists a, Pinner f us k a x /\ same_diag a k = true.
Definition PinnedLine (x : N) : Prop := Own x /\ exists a, Pinner f us k a x /\ same_line a k = true.

Lemma pinner_line_of a x : Pinner f us k a x -> same_line k x = same_line a k /\ same_diag k x = same_diag a k /\ (same_diag a k = negb (same_line a k)).
Proof.
  intros Hp. destruct (pinner_facts p Hwf k Hk a x Hp) as (Ha & Hk64 & Hin & Hx & Hdir & Hak & _).
  apply (between_sym a k x Ha Hk64) in Hin. destruct (between_geo k a Hk64 Ha) as (_ & _ & Hex & Hbt). destruct (Hbt x Hin) as (_ & _ & _ & Ed & El & _).
  rewrite Ed, El, (same_diag_sym k a Hk64 Ha), (same_line_sym k a Hk64 Ha). split; [reflexivity|]. split; [reflexivity|].
  destruct (same_diag a k) eqn:E1; destruct (same_line a k) eqn:E2; try reflexivity; try discriminate.
  exfalso. apply Hak. symmetry. apply Hex; [rewrite (same_diag_sym k a Hk64 Ha)|rewrite (same_line_sym k a Hk64 Ha)]; assumption.
Qed.

Lemma g_pinned_rook_bit x : x < 64 -> N.testbit (g_pinned_rook p) x = N.testbit (pinned p) x && same_line k x.
Proof.
  intros Hx. destruct (k_lt p Hwf k Hk) as [Hk64 _]. unfold g_pinned_rook, g_pin. rewrite (ksq_eq p Hwf k Hk).
  rewrite N.lor_spec, !N.land_spec, <- andb_orb_distrib_r.
  pose proof (forallb_all64 _ (forallb_all64 _ rank_file_mask_sweep k Hk64) x Hx) as H. cbv beta in H. apply eqb_prop in H. rewrite H. reflexivity.
Qed.

Lemma g_pinned_rook_iff x : x < 64 -> (N.testbit (g_pinned_rook p) x = true <-> PinnedLine x).
Proof.
  intros Hx. rewrite (g_pinned_rook_bit x Hx), andb_true_iff, (pinned_iff p k x Hwf Hk Hx). unfold PinnedLine, Own. split.
  - intros [[Ho [a Hp]] Hl]. split; [exact Ho|]. exists a. split; [exact Hp|]. destruct (pinner_line_of a x Hp) as (E & _). congruence.
  - intros [Ho [a [Hp Hl]]]. split; [split; [exact Ho|exists a; exact Hp]|]. destruct (pinner_line_of a x Hp) as (E & _). congruence.
Qed.

Lemma g_pinned_bishop_iff x : x < 64 -> (N.testbit (g_pinned_bishop p) x = true <-> PinnedDiag x).
Proof.
  intros Hx. unfold g_pinned_bishop. rewrite N.lxor_spec, (g_pinned_rook_bit x Hx). unfold g_pin.
  assert (E : xorb (N.testbit (pinned p) x) (N.testbit (pinned p) x && same_line k x) = N.testbit (pinned p) x && negb (same_line k x))
    by (destruct (N.testbit (pinned p) x); destruct (same_line k x); reflexivity).
  rewrite E, andb_true_iff, (pinned_iff p k x Hwf Hk Hx). unfold PinnedDiag, Own. split.
  - intros [[Ho [a Hp]] Hl]. split; [exact Ho|]. exists a. split; [exact Hp|]. destruct (pinner_line_of a x Hp) as (E1 & _ & E3). rewrite E3, <- E1. exact Hl.
  - intros [Ho [a [Hp Hl]]]. split; [split; [exact Ho|exists a; exact Hp]|]. destruct (pinner_line_of a x Hp) as (E1 & _ & E3). rewrite E1. rewrite E3 in Hl. exact Hl.
Qed.

Lemma not_pinned_iff x : x < 64 -> Own x -> (N.testbit (pinned p) x = false <-> forall a, ~ Pinner f us k a x).
Proof.
  intros Hx Ho. split.
  - intros H a Hp. assert (N.testbit (pinned p) x = true) by (apply (pinned_iff p k x Hwf Hk Hx); split; [exact Ho|exists a; exact Hp]). congruence.
  - intros H. apply not_true_is_false. intros E. apply (pinned_iff p k x Hwf Hk Hx) in E. destruct E as [_ [a Hp]]. exact (H a Hp).
Qed.
End PinSets.

(* ---------- captures by pinned sliders: the x-ray trick ---------- *)
Lemma xray_sweep :
  forallb (fun a => forallb (fun k => forallb (fun fr => forallb (fun t =>
     (if same_diag a k && same_diag fr t && negb (fr =? t) && same_diag k t && negb (k =? t)
      then (t =? a) || existsb (N.eqb t) (between a k) || existsb (N.eqb a) (between fr t) || existsb (N.eqb k) (between fr t) else true) &&
     (if same_line a k && same_line fr t && negb (fr =? t) && same_line k t && negb (k =? t)
      then (t =? a) || existsb (N.eqb t) (between a k) || existsb (N.eqb a) (between fr t) || existsb (N.eqb k) (between fr t) else true))
     all64) (between a k)) all64) all64 = true.
Proof. vm_compute. reflexivity. Qed.

Lemma xray_geo (diag : bool) a k fr t : a < 64 -> k < 64 -> t < 64 -> In fr (between a k) ->
  let al := if diag then same_diag else same_line in
  al a k = true -> al fr t = true -> fr <> t -> al k t = true -> k <> t ->
  t = a \/ In t (between a k) \/ In a (between fr t) \/ In k (between fr t).
Proof.
  intros Ha Hk Ht Hfr al H1 H2 H3 H4 H5.
  pose proof (forallb_all64 _ (forallb_all64 _ xray_sweep a Ha) k Hk) as H. cbv beta in H.
  rewrite forallb_forall in H. specialize (H fr Hfr). pose proof (forallb_all64 _ H t Ht) as G. cbv beta in G.
  apply andb_true_iff in G. destruct G as [G1 G2].
  assert (R : forall b : bool, (if b then (t =? a) || existsb (N.eqb t) (between a k) || existsb (N.eqb a) (between fr t) || existsb (N.eqb k) (between fr t) else true) = true -> b = true ->
              t = a \/ In t (between a k) \/ In a (between fr t) \/ In k (between fr t)).
  { intros b Hb ->. repeat (apply orb_true_iff in Hb; destruct Hb as [Hb|Hb]).
    - left. apply N.eqb_eq. exact Hb.
    - right. left. apply in_existsb. exact Hb.
    - right. right. left. apply in_existsb. exact Hb.
    - right. right. right. apply in_existsb. exact Hb. }
  unfold al in *. destruct diag.
  - apply (R _ G1). rewrite H1, H2, H4. replace (fr =? t) with false by lia. replace (k =? t) with false by lia. reflexivity.
  - apply (R _ G2). rewrite H1, H2, H4. replace (fr =? t) with false by lia. replace (k =? t) with false by lia. reflexivity.
Qed.

(* ---------- model side ---------- *)
Definition officer_mask (pc : piece) (fr occ : N) : N :=
  match pc with Knight => knight_moves fr | Bishop => bishop_moves fr occ | Rook => rook_moves fr occ | _ => queen_moves fr occ end.

Lemma in_caps_emit p pc S (M : N -> N) m : S < two64 -> (forall fr, M fr < two64) ->
  (In m (emit S (fun fr => caps_from p pc fr (M fr))) <->
   exists fr t, fr < 64 /\ t < 64 /\ N.testbit S fr = true /\ N.testbit (M fr) t = true /\ m = mkMove Capture fr t pc (piece_on p t) NoPiece).
Proof.
  intros HS HM. rewrite (in_emit_iff S _ m HS). split.
  - intros (fr & Hfr & Hb & Hin). unfold caps_from in Hin. apply (in_emit_iff _ _ m (HM fr)) in Hin. destruct Hin as (t & Ht & Hbt & [<-|[]]).
    exists fr, t. repeat split; assumption.
  - intros (fr & t & Hfr & Ht & Hb & Hbt & ->). exists fr. split; [exact Hfr|]. split; [exact Hb|]. unfold caps_from. apply (in_emit_iff _ _ _ (HM fr)).
    exists t. split; [exact Ht|]. split; [exact Hbt|left; reflexivity].
Qed.

Lemma in_normals_emit pc S (M : N -> N) m : S < two64 -> (forall fr, M fr < two64) ->
  (In m (emit S (fun fr => normals_from pc fr (M fr))) <->
   exists fr t, fr < 64 /\ t < 64 /\ N.testbit S fr = true /\ N.testbit (M fr) t = true /\ m = mkMove Normal fr t pc NoPiece NoPiece).
Proof.
  intros HS HM. rewrite (in_emit_iff S _ m HS). split.
  - intros (fr & Hfr & Hb & Hin). unfold normals_from in Hin. apply (in_emit_iff _ _ m (HM fr)) in Hin. destruct Hin as (t & Ht & Hbt & [<-|[]]).
    exists fr, t. repeat split; assumption.
  - intros (fr & t & Hfr & Ht & Hb & Hbt & ->). exists fr. split; [exact Hfr|]. split; [exact Hb|]. unfold normals_from. apply (in_emit_iff _ _ _ (HM fr)).
    exists t. split; [exact Ht|]. split; [exact Hbt|left; reflexivity].
Qed.

Section OfficerModel.
Variable p : position.
Hypothesis Hwf : wf p = true.
Variable k : N.
Hypothesis Hk : find_king (abs_board p) (turn p) = Some k.
Hypothesis Huk : forall a, a < 64 -> cell_of_b (brd p) a = Some (turn p, King) -> a = k.
Hypothesis Hnd : (1 <? bb_count (checkers p)) = false.
Notation f := (cell_of_b (brd p)).
Notation us := (turn p).
Notation them := (opp_side (turn p)).

Lemma Hlt_ : board_lt (brd p). Proof. destruct (Hrep_ p Hwf) as [_ H]. exact H. Qed.
Lemma g_occ_ne_eq : g_occ_ne p = occupied p. Proof. apply not_not_occ. exact Hlt_. Qed.

Lemma officer_mask_attacks pc fr t : officer pc = true -> fr < 64 -> t < 64 ->
  N.testbit (officer_mask pc fr (occupied p)) t = piece_attacks (abs_board p) us pc fr t.
Proof.
  intros Hoff Hfr Ht.
  assert (Hc : clear_on (occupied p) (between fr t) = all_empty (abs_board p) (between fr t)).
  { apply (clear_on_all_empty p f _ (Hrep_ p Hwf)). intros x Hx. apply (between_lt fr t); assumption. }
  destruct pc; try discriminate; unfold officer_mask.
  - apply knight_moves_geometric; assumption.
  - rewrite bishop_moves_geometric, Hc by assumption. reflexivity.
  - rewrite rook_moves_geometric, Hc by assumption. reflexivity.
  - rewrite queen_moves_geometric, Hc by assumption. reflexivity.
Qed.

Lemma pieces_bit pc x : x < 64 -> pc <> NoPiece -> (N.testbit (pieces p us pc) x = true <-> f x = Some (us, pc)).
Proof.
  intros Hx Hpc. rewrite (pieces_rep p f us pc x (Hrep_ p Hwf) Hx Hpc). split.
  - destruct (f x) as [[c pc']|]; [|discriminate]. intros H. apply andb_true_iff in H. destruct H as [H1 H2]. apply side_eqb_true in H1. apply piece_eqb_eq in H2. subst. reflexivity.
  - intros ->. rewrite side_eqb_refl. apply andb_true_iff. split; [reflexivity|]. apply piece_eqb_eq. reflexivity.
Qed.

Lemma pieces_lt_ pc : pieces p us pc < two64. Proof. apply pieces_lt. exact Hlt_. Qed.
End OfficerModel.

Section PinnedCaptures.
Variable p : position.
Hypothesis Hwf : wf p = true.
Variable k : N.
Hypothesis Hk : find_king (abs_board p) (turn p) = Some k.
Notation f := (cell_of_b (brd p)).
Notation us := (turn p).
Notation them := (opp_side (turn p)).

Definition kind_al (diag : bool) : N -> N -> bool := if diag then same_diag else same_line.
Definition kind_mv (diag : bool) : N -> N -> N := if diag then bishop_moves else rook_moves.
Definition kind_set (diag : bool) : N := if diag then g_pinned_bishop p else g_pinned_rook p.

Lemma kind_mv_geo diag sq occ t : sq < 64 -> t < 64 ->
  N.testbit (kind_mv diag sq occ) t = negb (sq =? t) && kind_al diag sq t && clear_on occ (between sq t).
Proof. intros Hs Ht. destruct diag; [apply bishop_moves_geometric|apply rook_moves_geometric]; assumption. Qed.

Lemma kind_set_iff diag x : x < 64 ->
  (N.testbit (kind_set diag) x = true <-> Own p x /\ exists a, Pinner f us k a x /\ kind_al diag a k = true).
Proof. intros Hx. destruct diag; [apply (g_pinned_bishop_iff p Hwf k Hk x Hx)|apply (g_pinned_rook_iff p Hwf k Hk x Hx)]. Qed.

Lemma kind_al_sym diag a b : a < 64 -> b < 64 -> kind_al diag a b = kind_al diag b a.
Proof. intros Ha Hb. destruct diag; [apply same_diag_sym|apply same_line_sym]; assumption. Qed.

(* a pinned slider captures exactly its pinner *)
Lemma pinned_cap_target diag fr a t cp : Pinner f us k a fr -> kind_al diag a k = true -> Own p fr -> t < 64 -> f t = Some (them, cp) ->
  (N.testbit (kind_mv diag fr (occupied p)) t = true /\ N.testbit (kind_mv diag k (N.lxor (occupied p) (kind_set diag))) t = true <-> t = a).
Proof.
  intros Hp Hal Hown Ht Eft. destruct (pinner_facts p Hwf k Hk a fr Hp) as (Ha & Hk64 & Hin & Hfr & _ & Hak & Hfa & Halone).
  destruct (k_lt p Hwf k Hk) as [_ Hfk]. pose proof (Hrep_ p Hwf) as Hrep.
  split.
  - intros [H1 H2]. rewrite (kind_mv_geo diag fr _ t Hfr Ht) in H1. rewrite (kind_mv_geo diag k _ t Hk64 Ht) in H2.
    repeat (apply andb_true_iff in H1; let H' := fresh "A" in destruct H1 as [H1 H']).
    repeat (apply andb_true_iff in H2; let H' := fresh "B" in destruct H2 as [H2 H']).
    apply negb_true_iff, N.eqb_neq in H1, H2.
    assert (G : t = a \/ In t (between a k) \/ In a (between fr t) \/ In k (between fr t)).
    { apply (xray_geo diag a k fr t Ha Hk64 Ht Hin); unfold kind_al in *; destruct diag; assumption. }
    destruct G as [G|[G|[G|G]]]; [exact G| | |]; exfalso.
    + assert (Hne : t <> fr) by (intros ->; destruct Hown as [pc E]; rewrite E in Eft; inversion Eft; destruct us; discriminate).
      rewrite (Halone t G Hne) in Eft. discriminate.
    + pose proof (proj1 (clear_on_forall _ _) A a G) as Hz. rewrite (occupied_rep p f a Hrep Ha) in Hz. destruct (f a); [discriminate|apply Hfa; reflexivity].
    + pose proof (proj1 (clear_on_forall _ _) A k G) as Hz. rewrite (occupied_rep p f k Hrep Hk64), Hfk in Hz. discriminate.
  - intros ->. assert (Hne : a <> fr) by (intros ->; destruct (between_geo fr k Hfr Hk64) as (_ & Hn & _); contradiction).
    destruct (pin_line a k fr a Ha Hk64 Hin (or_introl eq_refl) Hne) as (_ & _ & Ed & El & Hbt & _).
    split.
    + rewrite (kind_mv_geo diag fr _ a Hfr Ha). replace (fr =? a) with false by lia. cbn [negb andb].
      apply andb_true_iff. split; [unfold kind_al in *; destruct diag; congruence|].
      apply clear_on_forall. intros y Hy. destruct (Hbt y Hy) as (Hy1 & Hy2 & _).
      rewrite (occupied_rep p f y Hrep) by (apply (between_lt a k); assumption). rewrite (Halone y Hy1 Hy2). reflexivity.
    + rewrite (kind_mv_geo diag k _ a Hk64 Ha). replace (k =? a) with false by lia. cbn [negb andb].
      apply andb_true_iff. split; [rewrite kind_al_sym by assumption; exact Hal|].
      apply clear_on_forall. intros y Hy. apply (between_sym k a y Hk64 Ha) in Hy.
      assert (Hy64 : y < 64) by (apply (between_lt a k); assumption).
      rewrite N.lxor_spec, (occupied_rep p f y Hrep Hy64).
      destruct (N.eq_dec y fr) as [->|Hyf].
      * destruct Hown as [pc E]. rewrite E.
        assert (Hs : N.testbit (kind_set diag) fr = true) by (apply (kind_set_iff diag fr Hfr); split; [exists pc; exact E|exists a; split; assumption]).
        rewrite Hs. reflexivity.
      * rewrite (Halone y Hy Hyf). destruct (N.testbit (kind_set diag) y) eqn:Es; [|reflexivity].
        apply (kind_set_iff diag y Hy64) in Es. destruct Es as [[pc E] _]. rewrite (Halone y Hy Hyf) in E. discriminate.
Qed.
End PinnedCaptures.

Section Captures.
Variable dfrc : bool.
Variable p : position.
Hypothesis Hwf : wf p = true.
Hypothesis Hlc : legal_consistent dfrc (abs p) = true.
Variable k : N.
Hypothesis Hk : find_king (abs_board p) (turn p) = Some k.
Hypothesis Huk : forall a, a < 64 -> cell_of_b (brd p) a = Some (turn p, King) -> a = k.
Hypothesis Hnd : (1 <? bb_count (checkers p)) = false.
Notation f := (cell_of_b (brd p)).
Notation us := (turn p).
Notation them := (opp_side (turn p)).

Definition cap_spec (pc : piece) (fr t : N) (m : move) : Prop :=
  f fr = Some (us, pc) /\ piece_attacks (abs_board p) us pc fr t = true /\ resolves p k t /\ pin_ok p k fr t /\
  exists cp, f t = Some (them, cp) /\ cp <> King /\ m = mkMove Capture fr t pc cp NoPiece.

Lemma officer_mask_lt pc fr occ : officer pc = true -> fr < 64 -> N.land (officer_mask pc fr occ) (g_allowed_c p) < two64.
Proof. intros _ _. rewrite N.land_comm. apply land_lt. apply (g_allowed_c_lt p Hwf). Qed.

(* pieces that are not pinned *)
Lemma free_caps_iff pc m : officer pc = true ->
  (In m (emit (N.land (pieces p us pc) (not64 (g_pin p))) (fun fr => caps_from p pc fr (N.land (officer_mask pc fr (g_occ_ne p)) (g_allowed_c p)))) <->
   exists fr t, fr < 64 /\ t < 64 /\ cap_spec pc fr t m /\ forall a, ~ Pinner f us k a fr).
Proof.
  intros Hoff. assert (Hpc : pc <> NoPiece) by (intros ->; discriminate).
  rewrite in_caps_emit; [|apply land_lt, (pieces_lt_ p Hwf)|intros fr; rewrite N.land_comm; apply land_lt, (g_allowed_c_lt p Hwf)].
  rewrite (g_occ_ne_eq p Hwf). split.
  - intros (fr & t & Hfr & Ht & Hb & Hbt & ->). exists fr, t. split; [exact Hfr|]. split; [exact Ht|].
    rewrite N.land_spec, not64_spec in Hb. apply andb_true_iff in Hb. destruct Hb as [Hb1 Hb2]. apply (pieces_bit p Hwf pc fr Hfr Hpc) in Hb1.
    replace (fr <? 64) with true in Hb2 by lia. cbn [andb] in Hb2. apply negb_true_iff in Hb2.
    assert (Hfree : forall a, ~ Pinner f us k a fr) by (apply (not_pinned_iff p Hwf k Hk fr Hfr (ex_intro _ pc Hb1)); exact Hb2).
    rewrite N.land_spec in Hbt. apply andb_true_iff in Hbt. destruct Hbt as [Hm Hal].
    rewrite (officer_mask_attacks p Hwf pc fr t Hoff Hfr Ht) in Hm.
    apply (g_allowed_c_iff p Hwf k Hk Hnd t Ht) in Hal. destruct Hal as [[cp Ecp] Hres].
    split; [|exact Hfree]. unfold cap_spec. repeat split; try assumption; [apply pin_ok_free; exact Hfree|].
    exists cp. split; [exact Ecp|]. split.
    + intros ->. rewrite (lc_enemy_king_safe dfrc p fr pc t Hwf Hlc Hfr Ht Hb1 Ecp) in Hm. discriminate.
    + rewrite (piece_on_f p t cp them Ht Ecp). reflexivity.
  - intros (fr & t & Hfr & Ht & (Hf & Hatt & Hres & _ & cp & Ecp & _ & ->) & Hfree). exists fr, t. split; [exact Hfr|]. split; [exact Ht|].
    split; [|split].
    + rewrite N.land_spec, not64_spec. apply andb_true_iff. split; [apply (pieces_bit p Hwf pc fr Hfr Hpc); exact Hf|].
      replace (fr <? 64) with true by lia. cbn [andb]. apply negb_true_iff. apply (not_pinned_iff p Hwf k Hk fr Hfr (ex_intro _ pc Hf)). exact Hfree.
    + rewrite N.land_spec. apply andb_true_iff. split; [rewrite (officer_mask_attacks p Hwf pc fr t Hoff Hfr Ht); exact Hatt|].
      apply (g_allowed_c_iff p Hwf k Hk Hnd t Ht). split; [exists cp; exact Ecp|exact Hres].
    + rewrite (piece_on_f p t cp them Ht Ecp). reflexivity.
Qed.

Definition kind_pc (diag : bool) (pc : piece) : bool :=
  match pc with Queen => true | Bishop => diag | Rook => negb diag | _ => false end.

(* pinned sliders: only the pinner can be captured *)
Lemma pinned_caps_iff diag pc m : kind_pc diag pc = true ->
  (In m (emit (N.land (pieces p us pc) (kind_set p diag))
              (fun fr => caps_from p pc fr (N.land (N.land (kind_mv diag fr (g_occ_ne p)) (g_allowed_c p))
                                                   (kind_mv diag k (N.lxor (occupied p) (kind_set p diag)))))) <->
   exists fr t, fr < 64 /\ t < 64 /\ cap_spec pc fr t m /\ exists a, Pinner f us k a fr /\ kind_al diag a k = true).
Proof.
  intros Hkp. assert (Hpc : pc <> NoPiece) by (intros ->; discriminate). assert (Hoff : officer pc = true) by (destruct pc; try discriminate; reflexivity).
  rewrite in_caps_emit; [|apply land_lt, (pieces_lt_ p Hwf)|intros fr; apply land_lt; rewrite N.land_comm; apply land_lt, (g_allowed_c_lt p Hwf)].
  rewrite (g_occ_ne_eq p Hwf).
  assert (Hdir : forall a, kind_al diag a k = true -> dir_ok pc a k = true).
  { intros a Hal. unfold kind_al in Hal. destruct pc; try discriminate; destruct diag; try discriminate; try reflexivity; exact Hal. }
  split.
  - intros (fr & t & Hfr & Ht & Hb & Hbt & ->). exists fr, t. split; [exact Hfr|]. split; [exact Ht|].
    rewrite N.land_spec in Hb. apply andb_true_iff in Hb. destruct Hb as [Hb1 Hb2]. apply (pieces_bit p Hwf pc fr Hfr Hpc) in Hb1.
    apply (kind_set_iff p Hwf k Hk diag fr Hfr) in Hb2. destruct Hb2 as [Hown [a [Hp Hal]]].
    rewrite !N.land_spec in Hbt. apply andb_true_iff in Hbt. destruct Hbt as [Hbt Hx]. apply andb_true_iff in Hbt. destruct Hbt as [Hm Hallow].
    apply (g_allowed_c_iff p Hwf k Hk Hnd t Ht) in Hallow. destruct Hallow as [[cp Ecp] Hres].
    assert (Eta : t = a) by (apply (pinned_cap_target p Hwf k Hk diag fr a t cp Hp Hal Hown Ht Ecp); split; assumption). subst t.
    split; [|exists a; split; assumption]. unfold cap_spec. split; [exact Hb1|].
    pose proof (pinned_officer_attacks p Hwf k Hk a fr a pc Hp Hoff (or_introl eq_refl)) as Hatt.
    assert (Hne : a <> fr) by (intros ->; rewrite Hb1 in Ecp; inversion Ecp; destruct us; discriminate).
    rewrite (Hdir a Hal) in Hatt. replace (a =? fr) with false in Hatt by lia. cbn [negb andb] in Hatt.
    split; [exact Hatt|]. split; [exact Hres|]. split; [apply (pin_ok_pinned p Hwf k Hk a fr a Hp); left; reflexivity|].
    exists cp. split; [exact Ecp|]. split.
    + intros ->. rewrite (lc_enemy_king_safe dfrc p fr pc a Hwf Hlc Hfr Ht Hb1 Ecp) in Hatt. discriminate.
    + rewrite (piece_on_f p a cp them Ht Ecp). reflexivity.
  - intros (fr & t & Hfr & Ht & (Hf & Hatt & Hres & Hpin & cp & Ecp & _ & ->) & a & Hp & Hal). exists fr, t. split; [exact Hfr|]. split; [exact Ht|].
    assert (Hown : Own p fr) by (exists pc; exact Hf).
    assert (Eta : t = a).
    { pose proof (proj1 (pin_ok_pinned p Hwf k Hk a fr t Hp) Hpin) as Hpin'. destruct Hpin' as [E|Hin]; [exact E|exfalso].
      destruct (pinner_facts p Hwf k Hk a fr Hp) as (_ & _ & _ & _ & _ & _ & _ & Halone).
      assert (Hne : t <> fr) by (intros ->; rewrite Hf in Ecp; inversion Ecp; destruct us; discriminate).
      rewrite (Halone t Hin Hne) in Ecp. discriminate. }
    subst t. destruct (proj2 (pinned_cap_target p Hwf k Hk diag fr a a cp Hp Hal Hown Ht Ecp) eq_refl) as [H1 H2].
    split; [|split].
    + rewrite N.land_spec. apply andb_true_iff. split; [apply (pieces_bit p Hwf pc fr Hfr Hpc); exact Hf|].
      apply (kind_set_iff p Hwf k Hk diag fr Hfr). split; [exact Hown|exists a; split; assumption].
    + rewrite !N.land_spec, H1, H2. cbn [andb]. rewrite andb_true_r. apply (g_allowed_c_iff p Hwf k Hk Hnd a Ht). split; [exists cp; exact Ecp|exact Hres].
    + rewrite (piece_on_f p a cp them Ht Ecp). reflexivity.
Qed.
End Captures.
