(* PieceExact.v — C01: knights, bishops, rooks, queens.  The rules' legal moves of such a piece as a mailbox
   predicate (spec side), and the generators' output for them (model side). *)
From Coq Require Import NArith ZArith List Bool Lia.
From Coq Require Import ZifyBool ZifyN ZifyNat.
From LC Require Import Bits BitsFacts Types BitboardModel BitboardFacts MoveModel MoveFacts MagicFacts PositionModel MovegenModel MovegenFacts BoardFacts
  Spec.Rules Refine.Abs Refine.Board Refine.Make Refine.Wf Refine.MakeAbs Refine.SpecFits AttackFacts PinFacts KingFacts SafetyFacts LegalFacts LegalCore.
Import ListNotations.
Local Open Scope N_scope.
Local Strategy 1000 [squares all64 seq].

Definition officer (pc : piece) : bool := match pc with Knight | Bishop | Rook | Queen => true | _ => false end.

Lemma castle_candidate_piece sp mt r m : In m (castle_candidate sp mt r) -> m_piece m = King.
Proof.
  unfold castle_candidate. intros H.
  repeat match type of H with
         | In _ (match ?o with Some _ => _ | None => _ end) => destruct o
         | In _ (let '(_, _) := ?o in _) => destruct o
         | In _ (if ?c then _ else _) => destruct c
         | In _ [] => destruct H
         | In _ (_ :: _) => destruct H as [<-|H]
         end; reflexivity.
Qed.

Section Officer.
Variable p : position.
Hypothesis Hwf : wf p = true.
Variable k : N.
Hypothesis Hk : find_king (abs_board p) (turn p) = Some k.
Hypothesis Huk : forall a, a < 64 -> cell_of_b (brd p) a = Some (turn p, King) -> a = k.
Notation f := (cell_of_b (brd p)).
Notation us := (turn p).
Notation them := (opp_side (turn p)).

Definition officer_move (pc : piece) (fr t : N) (m : move) : Prop :=
  f fr = Some (us, pc) /\ piece_attacks (abs_board p) us pc fr t = true /\ resolves p k t /\ pin_ok p k fr t /\
  ((f t = None /\ m = mkMove Normal fr t pc NoPiece NoPiece) \/
   (exists cp, f t = Some (them, cp) /\ cp <> King /\ m = mkMove Capture fr t pc cp NoPiece)).

Theorem spec_officer_iff pc m : officer pc = true ->
  ((In m (spec_moves (abs p)) /\ m_piece m = pc) <-> exists fr t, fr < 64 /\ t < 64 /\ officer_move pc fr t m).
Proof.
  intros Hoff. destruct (k_lt p Hwf k Hk) as [Hk64 Hfk].
  assert (HpcK : pc <> King) by (intros ->; discriminate).
  assert (Safe : forall ty fr t cp, (ty = Normal \/ ty = Capture) -> fr < 64 -> t < 64 -> f fr = Some (us, pc) ->
            piece_attacks (abs_board p) us pc fr t = true -> (f t = None \/ exists cp', f t = Some (them, cp')) ->
            (leaves_king_safe (abs p) (mkMove ty fr t pc cp NoPiece) = true <-> resolves p k t /\ pin_ok p k fr t)).
  { intros ty fr t cp Hty Hfr Ht Hf Hatt Htgt.
    assert (Hne : fr <> t) by (intros ->; rewrite piece_attacks_self in Hatt by exact Ht; discriminate).
    assert (Htk : t <> k) by (intros ->; destruct Htgt as [E|[cp' E]]; rewrite Hfk in E; [discriminate|inversion E; destruct us; discriminate]).
    apply (simple_safe_iff p Hwf k Hk Huk ty fr t pc cp NoPiece); try assumption; destruct Hty as [-> | ->]; exact I. }
  split.
  - intros [Hin Hpc]. unfold spec_moves in Hin. apply filter_In in Hin. destruct Hin as [Hps Hsafe].
    unfold pseudo_moves in Hps. apply in_app_or in Hps. destruct Hps as [Hps|Hps].
    2:{ exfalso. cbn [abs s_turn] in Hps. destruct us; apply in_app_or in Hps; destruct Hps as [H|H]; apply castle_candidate_piece in H; congruence. }
    apply in_flat_map in Hps. destruct Hps as [fr [Hfr Hps]]. apply in_squares in Hfr. cbn [abs s_board s_turn] in Hps.
    rewrite at_sq_abs_board in Hps by exact Hfr. change (cell_of p fr) with (f fr) in Hps.
    destruct (f fr) as [[c pc']|] eqn:Effr; [|destruct Hps]. destruct (side_eqb c us) eqn:Ec; [|destruct Hps]. apply side_eqb_true in Ec. subst c.
    assert (Hcand : In m (piece_candidates (abs p) fr pc) /\ pc' = pc).
    { destruct pc'; cbv iota in Hps;
        try (match type of Hps with In _ (piece_candidates _ _ ?q) => pose proof (piece_candidates_labels (abs p) fr q m Hps) as (E & _) end;
             rewrite Hpc in E; rewrite E; split; [exact Hps|reflexivity]).
      - apply (pawn_candidates_labels (abs p) fr m) in Hps. rewrite Hpc in Hps. rewrite Hps in Hoff. discriminate.
      - destruct Hps. }
    destruct Hcand as [Hcand ->]. clear Hps.
    unfold piece_candidates in Hcand. apply in_flat_map in Hcand. destruct Hcand as [t [Ht Hc]]. apply in_squares in Ht. cbn [abs s_board s_turn] in Hc.
    destruct (piece_attacks (abs_board p) us pc fr t) eqn:Hatt; [|destruct Hc].
    rewrite at_sq_abs_board in Hc by exact Ht. change (cell_of p t) with (f t) in Hc.
    exists fr, t. split; [exact Hfr|]. split; [exact Ht|]. unfold officer_move.
    destruct (f t) as [[c cp]|] eqn:Eft.
    + destruct (negb (side_eqb c us) && negb (piece_eqb cp King)) eqn:Econd; [|destruct Hc]. destruct Hc as [<-|[]].
      apply andb_true_iff in Econd. destruct Econd as [E1 E2]. apply negb_true_iff in E1, E2. apply opp_of_neq' in E1. subst c.
      apply (Safe Capture fr t cp (or_intror eq_refl) Hfr Ht Effr Hatt (or_intror (ex_intro _ cp Eft))) in Hsafe. destruct Hsafe as [Hr Hp].
      repeat split; try assumption. right. exists cp. split; [first [exact Eft|reflexivity]|]. split; [intros ->; discriminate|reflexivity].
    + destruct Hc as [<-|[]].
      apply (Safe Normal fr t NoPiece (or_introl eq_refl) Hfr Ht Effr Hatt (or_introl Eft)) in Hsafe. destruct Hsafe as [Hr Hp].
      repeat split; try assumption. left. split; first [exact Eft|reflexivity].
  - intros (fr & t & Hfr & Ht & Hf & Hatt & Hr & Hp & Hform).
    assert (Hm : In m (piece_candidates (abs p) fr pc)).
    { unfold piece_candidates. apply in_flat_map. exists t. split; [apply in_squares; exact Ht|]. cbn [abs s_board s_turn]. rewrite Hatt.
      rewrite at_sq_abs_board by exact Ht. change (cell_of p t) with (f t).
      destruct Hform as [[E ->]|[cp (E & Hcp & ->)]]; rewrite E; [left; reflexivity|].
      replace (side_eqb them us) with false by (destruct us; reflexivity). replace (piece_eqb cp King) with false by (destruct cp; try reflexivity; congruence).
      left. reflexivity. }
    split.
    + unfold spec_moves. apply filter_In. split.
      * unfold pseudo_moves. apply in_or_app. left. apply in_flat_map. exists fr. split; [apply in_squares; exact Hfr|]. cbn [abs s_board s_turn].
        rewrite at_sq_abs_board by exact Hfr. change (cell_of p fr) with (f fr). rewrite Hf, side_eqb_refl. destruct pc; try discriminate; exact Hm.
      * destruct Hform as [[E ->]|[cp (E & Hcp & ->)]].
        -- apply (Safe Normal fr t NoPiece (or_introl eq_refl) Hfr Ht Hf Hatt (or_introl E)). split; assumption.
        -- apply (Safe Capture fr t cp (or_intror eq_refl) Hfr Ht Hf Hatt (or_intror (ex_intro _ cp E))). split; assumption.
    + destruct Hform as [[_ ->]|[cp (_ & _ & ->)]]; reflexivity.
Qed.
End Officer.
