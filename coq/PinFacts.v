(* PinFacts.v — pinned(s) reports exactly the absolutely pinned pieces of the requested side (C13). *)
From Coq Require Import NArith ZArith List Bool Lia Btauto.
From Coq Require Import ZifyBool ZifyN ZifyNat.
From LC Require Import Bits BitsFacts Types BitboardModel BitboardFacts MagicModel MagicFacts PositionModel BoardFacts
  Spec.Rules Refine.Abs Refine.Board Refine.Wf Refine.MakeAbs AttackFacts.
Import ListNotations.
Local Open Scope N_scope.

(* the accumulating loops: pinned |= bb when the condition holds *)
Lemma pin_fold_spec (C : N -> bool) l init x : (forall n, In n l -> n < 64) ->
  N.testbit (fold_left (fun acc n => if C n then N.lor acc (bit n) else acc) l init) x =
  N.testbit init x || existsb (fun n => (n =? x) && C n) l.
Proof.
  revert init. induction l as [|n r IH]; intros init Hl; cbn [fold_left existsb]; [rewrite orb_false_r; reflexivity|].
  rewrite IH by (intros y Hy; apply Hl; right; exact Hy).
  assert (Hn : n < 64) by (apply Hl; left; reflexivity).
  destruct (C n); cbn [andb].
  - rewrite N.lor_spec, bit_spec by exact Hn. rewrite (N.eqb_sym x n), andb_true_r, orb_assoc. reflexivity.
  - rewrite andb_false_r. reflexivity.
Qed.

(* finite geometry about the squares between two aligned squares *)
Lemma between_geo_sweep :
  forallb (fun k => forallb (fun a =>
     negb (existsb (N.eqb a) (between k a)) && negb (existsb (N.eqb k) (between k a)) &&
     (if same_diag k a && same_line k a then k =? a else true) &&
     forallb (fun x =>
        (x <? 64) && negb (x =? k) && negb (x =? a) &&
        Bool.eqb (same_diag k x) (same_diag k a) && Bool.eqb (same_line k x) (same_line k a) &&
        negb (existsb (N.eqb x) (between k x)) &&
        forallb (fun y => existsb (N.eqb y) (between k a)) (between k x)) (between k a)) all64) all64 = true.
Proof. vm_compute. reflexivity. Qed.

Lemma between_geo k a : k < 64 -> a < 64 ->
  ~ In a (between k a) /\ ~ In k (between k a) /\ (same_diag k a = true -> same_line k a = true -> k = a) /\
  forall x, In x (between k a) ->
    x < 64 /\ x <> k /\ x <> a /\ same_diag k x = same_diag k a /\ same_line k x = same_line k a /\
    ~ In x (between k x) /\ (forall y, In y (between k x) -> In y (between k a)).
Proof.
  intros Hk Ha. pose proof (forallb_all64 _ (forallb_all64 _ between_geo_sweep k Hk) a Ha) as H. cbv beta in H.
  apply andb_true_iff in H. destruct H as [H H4]. apply andb_true_iff in H. destruct H as [H H3]. apply andb_true_iff in H. destruct H as [H1 H2].
  assert (NI : forall z l, negb (existsb (N.eqb z) l) = true -> ~ In z l).
  { intros z l Hn Hin. apply negb_true_iff in Hn. assert (existsb (N.eqb z) l = true); [|congruence]. apply existsb_exists. exists z. split; [exact Hin|apply N.eqb_refl]. }
  split; [apply NI; exact H1|]. split; [apply NI; exact H2|]. split.
  - intros D L. rewrite D, L in H3. cbn in H3. apply N.eqb_eq. exact H3.
  - intros x Hx. rewrite forallb_forall in H4. specialize (H4 x Hx).
    repeat (apply andb_true_iff in H4; let H' := fresh "W" in destruct H4 as [H4 H']).
    apply eqb_prop in W2. apply eqb_prop in W1.
    repeat split; try lia; try assumption.
    + apply NI. exact W0.
    + intros y Hy. rewrite forallb_forall in W. specialize (W y Hy). apply existsb_exists in W. destruct W as [z [Hz E]]. apply N.eqb_eq in E. subst. exact Hz.
Qed.

Lemma clear_on_forall o l : clear_on o l = true <-> forall q, In q l -> N.testbit o q = false.
Proof. unfold clear_on. rewrite forallb_forall. split; intros H q Hq; specialize (H q Hq); [apply negb_true_iff in H; exact H|rewrite H; reflexivity]. Qed.

Section Kind.
(* one slider kind: bishops (diagonals) or rooks (lines) *)
Variable aligned : N -> N -> bool.
Variable moves : N -> N -> N.
Hypothesis moves_geo : forall k o t, k < 64 -> t < 64 -> N.testbit (moves k o) t = negb (k =? t) && aligned k t && clear_on o (between k t).
Variable other : N -> N -> bool.     (* the other kind's alignment *)
Hypothesis exclusive : forall k a, k < 64 -> a < 64 -> aligned k a = true -> other k a = true -> k = a.
Hypothesis aligned_between : forall k a x, k < 64 -> a < 64 -> In x (between k a) -> aligned k x = aligned k a.

(* the body of one loop iteration, as a predicate on the candidate square n *)
Definition pin_cond (occ before sliders k n : N) : bool :=
  bb_nonempty (N.land (N.land (N.land (N.lxor occ (bit n)) (moves k (N.lxor occ (bit n)))) (not64 before)) sliders).

(* ... which holds exactly when some slider stands behind n, with n alone in between *)
Definition pin_geo (occ sliders k n : N) : bool :=
  existsb (fun a => N.testbit sliders a && negb (a =? k) && aligned k a &&
                    existsb (N.eqb n) (between k a) &&
                    forallb (fun q => (q =? n) || negb (N.testbit occ q)) (between k a)) all64.

Lemma pin_cond_geo occ before sliders k n :
  k < 64 -> n < 64 -> occ < two64 -> sliders < two64 -> N.testbit occ n = true ->
  (forall a, a < 64 -> N.testbit sliders a = true -> N.testbit occ a = true) ->
  (forall a, a < 64 -> N.testbit before a = (negb (k =? a) && aligned k a && clear_on occ (between k a)) || (negb (k =? a) && other k a && clear_on occ (between k a))) ->
  pin_cond occ before sliders k n = pin_geo occ sliders k n.
Proof.
  intros Hk Hn Hocc Hsl Hon Hsub Hbefore. unfold pin_cond, pin_geo.
  set (bl := N.lxor occ (bit n)).
  assert (Hbl : forall q, q < 64 -> N.testbit bl q = xorb (N.testbit occ q) (q =? n)) by (intros q Hq; unfold bl; rewrite N.lxor_spec, bit_spec by exact Hn; reflexivity).
  apply eq_true_iff_eq. split.
  - intros H. unfold bb_nonempty in H. apply negb_true_iff, N.eqb_neq in H.
    (* some bit a is set *)
    assert (Hex : exists a, N.testbit (N.land (N.land (N.land bl (moves k bl)) (not64 before)) sliders) a = true).
    { destruct (N.eq_dec (N.land (N.land (N.land bl (moves k bl)) (not64 before)) sliders) 0) as [E|E]; [contradiction|].
      exists (N.log2 (N.land (N.land (N.land bl (moves k bl)) (not64 before)) sliders)). apply N.bit_log2. exact E. }
    destruct Hex as [a Ha]. rewrite !N.land_spec, not64_spec in Ha.
    apply andb_true_iff in Ha. destruct Ha as [Ha A]. apply andb_true_iff in Ha. destruct Ha as [Ha A0].
    apply andb_true_iff in Ha. destruct Ha as [A3 A2]. apply andb_true_iff in A0. destruct A0 as [A1 A0].
    assert (Ha64 : a < 64) by lia. apply negb_true_iff in A0.
    rewrite (moves_geo k bl a Hk Ha64) in A2. apply andb_true_iff in A2. destruct A2 as [A2 Hclr]. apply andb_true_iff in A2. destruct A2 as [Hne Hal].
    rewrite (Hbefore a Ha64), Hne, Hal in A0. cbn [andb] in A0. apply orb_false_iff in A0. destruct A0 as [Hnc _].
    apply existsb_exists. exists a. split; [apply in_all64; exact Ha64|].
    destruct (between_geo k a Hk Ha64) as (_ & _ & _ & Hbt).
    rewrite A, Hal. rewrite (N.eqb_sym a k), Hne. cbn [andb].
    (* the one occupied square between k and a is n, all others are empty *)
    pose proof (proj1 (clear_on_forall _ _) Hclr) as Hclr'. clear Hclr. rename Hclr' into Hclr.
    assert (Hall : forall q, In q (between k a) -> (q =? n) || negb (N.testbit occ q) = true).
    { intros q Hq. destruct (Hbt q Hq) as (Hq64 & _). specialize (Hclr q Hq). rewrite (Hbl q Hq64) in Hclr.
      destruct (N.eqb_spec q n); [reflexivity|]. cbn [orb]. rewrite xorb_false_r in Hclr. rewrite Hclr. reflexivity. }
    apply andb_true_iff. split; [|apply forallb_forall; exact Hall].
    (* n itself must be there, otherwise the line was already clear *)
    destruct (existsb (N.eqb n) (between k a)) eqn:En; [reflexivity|]. exfalso.
    assert (clear_on occ (between k a) = true); [|congruence].
    apply clear_on_forall. intros q Hq. specialize (Hall q Hq). destruct (N.eqb_spec q n) as [Eq|Hqn].
    + assert (existsb (N.eqb n) (between k a) = true); [|congruence]. apply existsb_exists. exists n. split; [rewrite <- Eq; exact Hq|apply N.eqb_refl].
    + cbn [orb] in Hall. apply negb_true_iff in Hall. exact Hall.
  - intros H. apply existsb_exists in H. destruct H as [a [Ha Hb]]. apply in_all64 in Ha.
    repeat (apply andb_true_iff in Hb; let H' := fresh "B" in destruct Hb as [Hb H']).
    apply existsb_exists in B0. destruct B0 as [n' [Hin E]]. apply N.eqb_eq in E. subst n'.
    rewrite forallb_forall in B. apply negb_true_iff, N.eqb_neq in B2.
    destruct (between_geo k a Hk Ha) as (Hna & Hnk & _ & Hbt). destruct (Hbt n Hin) as (_ & Hnk' & Hnea & _).
    unfold bb_nonempty. apply negb_true_iff, N.eqb_neq. intros Hz.
    apply (f_equal (fun v => N.testbit v a)) in Hz. rewrite N.bits_0, !N.land_spec, not64_spec in Hz.
    replace (a <? 64) with true in Hz by lia.
    rewrite (Hbl a Ha), (Hsub a Ha Hb), Hb in Hz. replace (a =? n) with false in Hz by lia. cbn [xorb andb] in Hz.
    rewrite (moves_geo k bl a Hk Ha) in Hz. replace (k =? a) with false in Hz by lia. rewrite B1 in Hz. cbn [negb andb] in Hz.
    assert (Hc1 : clear_on bl (between k a) = true).
    { apply clear_on_forall. intros q Hq. destruct (Hbt q Hq) as (Hq64 & _). rewrite (Hbl q Hq64). specialize (B q Hq).
      destruct (N.eqb_spec q n) as [Eq|]; [rewrite Eq, Hon; reflexivity|]. cbn [orb] in B. apply negb_true_iff in B. rewrite B. reflexivity. }
    rewrite Hc1 in Hz. cbn [andb] in Hz.
    rewrite (Hbefore a Ha) in Hz. replace (k =? a) with false in Hz by lia. rewrite B1 in Hz. cbn [negb andb] in Hz.
    assert (Hc2 : clear_on occ (between k a) = false).
    { apply not_true_is_false. intros Hc. pose proof (proj1 (clear_on_forall _ _) Hc n Hin) as Hc'. rewrite Hc' in Hon. discriminate. }
    rewrite Hc2 in Hz. cbn [orb andb] in Hz.
    destruct (other k a) eqn:Eo; [exfalso; apply B2; symmetry; apply (exclusive k a Hk Ha B1 Eo)|]. cbn in Hz. discriminate.
Qed.
End Kind.

Lemma existsb_pick (P C : N -> bool) x : x < 64 -> existsb (fun n => P n && ((n =? x) && C n)) all64 = P x && C x.
Proof.
  intros Hx. apply eq_true_iff_eq. rewrite existsb_exists. split.
  - intros [n [_ Hb]]. apply andb_true_iff in Hb. destruct Hb as [H1 H2]. apply andb_true_iff in H2. destruct H2 as [H2 H3]. apply N.eqb_eq in H2. subst n. rewrite H1, H3. reflexivity.
  - intros H. exists x. split; [apply in_all64; exact Hx|]. apply andb_true_iff in H. destruct H as [H1 H2]. rewrite H1, H2, N.eqb_refl. reflexivity.
Qed.

(* ---------- assembling pinned(s, king square) ---------- *)
Lemma same_diag_between_sweep :
  forallb (fun k => forallb (fun a => forallb (fun x => Bool.eqb (same_diag k x) (same_diag k a) && Bool.eqb (same_line k x) (same_line k a)) (between k a)) all64) all64 = true.
Proof. vm_compute. reflexivity. Qed.

Lemma diag_line_exclusive k a : k < 64 -> a < 64 -> same_diag k a = true -> same_line k a = true -> k = a.
Proof. intros Hk Ha. destruct (between_geo k a Hk Ha) as (_ & _ & H & _). exact H. Qed.

(* a pinned piece is the first occupied square on its ray, hence visible from the king *)
Lemma pin_geo_visible (aligned : N -> N -> bool) occ sliders k n :
  (forall k a x, k < 64 -> a < 64 -> In x (between k a) -> aligned k x = aligned k a) ->
  k < 64 -> n < 64 -> pin_geo aligned occ sliders k n = true ->
  negb (k =? n) && aligned k n && clear_on occ (between k n) = true.
Proof.
  intros Hal Hk Hn H. unfold pin_geo in H. apply existsb_exists in H. destruct H as [a [Ha Hb]]. apply in_all64 in Ha.
  repeat (apply andb_true_iff in Hb; let H' := fresh "B" in destruct Hb as [Hb H']).
  apply existsb_exists in B0. destruct B0 as [n' [Hin E]]. apply N.eqb_eq in E. subst n'.
  destruct (between_geo k a Hk Ha) as (_ & _ & _ & Hbt). destruct (Hbt n Hin) as (_ & Hnk & _ & _ & _ & Hnn & Hsub).
  rewrite (Hal k a n Hk Ha Hin), B1. replace (k =? n) with false by lia. cbn [negb andb].
  apply clear_on_forall. intros q Hq. rewrite forallb_forall in B. specialize (B q (Hsub q Hq)).
  destruct (N.eqb_spec q n) as [Eq|Hne]; [subst q; contradiction|]. cbn [orb] in B. apply negb_true_iff in B. exact B.
Qed.

Lemma aligned_between_diag k a x : k < 64 -> a < 64 -> In x (between k a) -> same_diag k x = same_diag k a.
Proof. intros Hk Ha Hx. destruct (between_geo k a Hk Ha) as (_ & _ & _ & Hbt). destruct (Hbt x Hx) as (_ & _ & _ & H & _). exact H. Qed.
Lemma aligned_between_line k a x : k < 64 -> a < 64 -> In x (between k a) -> same_line k x = same_line k a.
Proof. intros Hk Ha Hx. destruct (between_geo k a Hk Ha) as (_ & _ & _ & Hbt). destruct (Hbt x Hx) as (_ & _ & _ & _ & H & _). exact H. Qed.

Lemma pinned_gen_unfold p enemy s k :
  pinned_gen p enemy s k =
  let occ := occupied p in
  let before := N.lor (rook_moves k occ) (bishop_moves k occ) in
  fold_left (fun acc n => if pin_cond rook_moves occ before (N.lor (pieces p enemy Rook) (pieces p enemy Queen)) k n then N.lor acc (bit n) else acc)
            (bb_squares (N.land (rook_moves k occ) (occupancy_s p s)))
    (fold_left (fun acc n => if pin_cond bishop_moves occ before (N.lor (pieces p enemy Bishop) (pieces p enemy Queen)) k n then N.lor acc (bit n) else acc)
               (bb_squares (N.land (bishop_moves k occ) (occupancy_s p s))) 0).
Proof. reflexivity. Qed.

(* the specification's predicate "x is pinned", for king square k *)
Definition spec_pin_pred (b : sboard) (s : side) (k x : N) : bool :=
  match at_sq b x with
  | Some (c, _) =>
    side_eqb c s && negb (x =? k) &&
    existsb (fun a =>
      match at_sq b a with
      | Some (ca, pa) =>
        negb (side_eqb ca s) &&
        (match pa with Bishop => same_diag k a | Rook => same_line k a | Queen => same_diag k a || same_line k a | _ => false end) &&
        negb (a =? k) && existsb (N.eqb x) (between k a) && forallb (fun q => (q =? x) || is_empty b q) (between k a)
      | None => false
      end) squares
  | None => false
  end.
Lemma spec_pinned_pred b s k : find_king b s = Some k -> spec_pinned b s = filter (spec_pin_pred b s k) squares.
Proof. intros H. unfold spec_pinned. rewrite H. reflexivity. Qed.

Theorem pinned_exact p f s k x : rep (brd p) f -> k < 64 -> x < 64 ->
  N.testbit (pinned_s_sq p s k) x = spec_pin_pred (board_of f) s k x.
Proof.
  intros Hrep Hk Hx. pose proof Hrep as [Hh Hlt]. unfold pinned_s_sq. rewrite pinned_gen_unfold. cbv zeta.
  set (occ := occupied p). set (before := N.lor (rook_moves k occ) (bishop_moves k occ)).
  set (slb := N.lor (pieces p (opp_side s) Bishop) (pieces p (opp_side s) Queen)).
  set (slr := N.lor (pieces p (opp_side s) Rook) (pieces p (opp_side s) Queen)).
  assert (Hocc : occ < two64) by (apply occupied_lt; exact Hlt).
  assert (Hpl : forall c pc, pieces p c pc < two64) by (intros c pc; unfold pieces; apply land_lt, colour_lt, Hlt).
  assert (Hlb : forall n, In n (bb_squares (N.land (bishop_moves k occ) (occupancy_s p s))) -> n < 64).
  { intros n Hn. unfold bb_squares in Hn. apply bits_sound in Hn. rewrite N.land_spec in Hn. apply andb_true_iff in Hn. destruct Hn as [Hn _].
    destruct (N.lt_ge_cases n 64) as [H|H]; [exact H|]. rewrite (proj1 (lt64_iff _) (bishop_moves_lt k occ) n H) in Hn. discriminate. }
  assert (Hlr : forall n, In n (bb_squares (N.land (rook_moves k occ) (occupancy_s p s))) -> n < 64).
  { intros n Hn. unfold bb_squares in Hn. apply bits_sound in Hn. rewrite N.land_spec in Hn. apply andb_true_iff in Hn. destruct Hn as [Hn _].
    destruct (N.lt_ge_cases n 64) as [H|H]; [exact H|]. rewrite (proj1 (lt64_iff _) (rook_moves_lt k occ) n H) in Hn. discriminate. }
  rewrite (pin_fold_spec _ _ _ x Hlr), (pin_fold_spec _ _ _ x Hlb), N.bits_0. cbn [orb].
  (* membership in the two candidate lists *)
  assert (Hmem : forall (mv : N -> N -> N) (C : N -> bool), mv k occ < two64 ->
            existsb (fun n => (n =? x) && C n) (bb_squares (N.land (mv k occ) (occupancy_s p s)))
            = N.testbit (mv k occ) x && N.testbit (occupancy_s p s) x && C x).
  { intros mv C Hmv. rewrite bb_squares_members by (apply land_lt; exact Hmv). rewrite existsb_filter.
    rewrite (existsb_pick _ C x Hx). unfold mem. rewrite N.land_spec. reflexivity. }
  rewrite (Hmem bishop_moves _ (bishop_moves_lt k occ)), (Hmem rook_moves _ (rook_moves_lt k occ)).
  (* occupancy of s at x, read from the mailbox *)
  assert (Hos : N.testbit (occupancy_s p s) x = match f x with Some (c, _) => side_eqb c s | None => false end).
  { destruct (Hh x Hx) as [[Hc _] _]. unfold occupancy_s. rewrite Hc. destruct (f x) as [[c pc]|]; [apply side_eqb_sym_lemma|reflexivity]. }
  unfold spec_pin_pred. rewrite at_board_of by exact Hx. rewrite Hos.
  destruct (f x) as [[c pcx]|] eqn:Efx; [|rewrite !andb_false_r; reflexivity].
  destruct (side_eqb c s) eqn:Ecs; [|rewrite !andb_false_r; reflexivity]. rewrite !andb_true_r. cbn [andb].
  assert (Hox : N.testbit occ x = true) by (unfold occ; rewrite (occupied_rep p f x Hrep Hx), Efx; reflexivity).
  assert (Hsubb : forall a, a < 64 -> N.testbit slb a = true -> N.testbit occ a = true).
  { intros a Ha H. unfold slb in H. rewrite N.lor_spec, !(pieces_rep p f _ _ a Hrep Ha) in H by discriminate. unfold occ. rewrite (occupied_rep p f a Hrep Ha). destruct (f a); [reflexivity|discriminate]. }
  assert (Hsubr : forall a, a < 64 -> N.testbit slr a = true -> N.testbit occ a = true).
  { intros a Ha H. unfold slr in H. rewrite N.lor_spec, !(pieces_rep p f _ _ a Hrep Ha) in H by discriminate. unfold occ. rewrite (occupied_rep p f a Hrep Ha). destruct (f a); [reflexivity|discriminate]. }
  assert (Hbefb : forall a, a < 64 -> N.testbit before a = (negb (k =? a) && same_diag k a && clear_on occ (between k a)) || (negb (k =? a) && same_line k a && clear_on occ (between k a))).
  { intros a Ha. unfold before. rewrite N.lor_spec, (rook_moves_geometric k occ a Hk Ha), (bishop_moves_geometric k occ a Hk Ha). apply orb_comm. }
  assert (Hbefr : forall a, a < 64 -> N.testbit before a = (negb (k =? a) && same_line k a && clear_on occ (between k a)) || (negb (k =? a) && same_diag k a && clear_on occ (between k a))).
  { intros a Ha. unfold before. rewrite N.lor_spec, (rook_moves_geometric k occ a Hk Ha), (bishop_moves_geometric k occ a Hk Ha). reflexivity. }
  rewrite (pin_cond_geo same_diag bishop_moves bishop_moves_geometric same_line diag_line_exclusive aligned_between_diag occ before slb k x Hk Hx Hocc (lor_lt _ _ (Hpl _ _) (Hpl _ _)) Hox Hsubb Hbefb).
  rewrite (pin_cond_geo same_line rook_moves rook_moves_geometric same_diag (fun k a Hk Ha H1 H2 => diag_line_exclusive k a Hk Ha H2 H1) aligned_between_line occ before slr k x Hk Hx Hocc (lor_lt _ _ (Hpl _ _) (Hpl _ _)) Hox Hsubr Hbefr).
  (* the visibility conjuncts are implied by the geometric condition *)
  assert (Gb : N.testbit (bishop_moves k occ) x && pin_geo same_diag occ slb k x = pin_geo same_diag occ slb k x).
  { destruct (pin_geo same_diag occ slb k x) eqn:E; [|apply andb_false_r]. rewrite (bishop_moves_geometric k occ x Hk Hx). rewrite (pin_geo_visible same_diag occ slb k x aligned_between_diag Hk Hx E). reflexivity. }
  assert (Gr : N.testbit (rook_moves k occ) x && pin_geo same_line occ slr k x = pin_geo same_line occ slr k x).
  { destruct (pin_geo same_line occ slr k x) eqn:E; [|apply andb_false_r]. rewrite (rook_moves_geometric k occ x Hk Hx). rewrite (pin_geo_visible same_line occ slr k x aligned_between_line Hk Hx E). reflexivity. }
  rewrite Gb, Gr. rewrite all64_squares.
  (* merge the two existentials and compare with the specification's, square by square *)
  unfold pin_geo. rewrite orb_comm, <- existsb_orb.
  apply eq_true_iff_eq. rewrite andb_true_iff, !existsb_exists. split.
  - intros [a [Ha Hb]]. apply in_all64 in Ha.
    assert (Hcore : negb (a =? k) = true /\ existsb (N.eqb x) (between k a) = true /\ forallb (fun q => (q =? x) || negb (N.testbit occ q)) (between k a) = true /\
                    ((N.testbit slb a = true /\ same_diag k a = true) \/ (N.testbit slr a = true /\ same_line k a = true))).
    { apply orb_true_iff in Hb. destruct Hb as [Hb|Hb]; repeat (apply andb_true_iff in Hb; let H' := fresh "B" in destruct Hb as [Hb H']); repeat split; try assumption; [right|left]; split; assumption. }
    destruct Hcore as (C1 & C2 & C3 & C4).
    assert (Hxk : negb (x =? k) = true).
    { apply existsb_exists in C2. destruct C2 as [x' [Hin E]]. apply N.eqb_eq in E. subst x'. destruct (between_geo k a Hk Ha) as (_ & _ & _ & Hbt). destruct (Hbt x Hin) as (_ & Hne & _). apply negb_true_iff, N.eqb_neq. exact Hne. }
    split; [exact Hxk|]. exists a. split; [apply in_all64; exact Ha|]. rewrite at_board_of by exact Ha.
    assert (Hemp : forallb (fun q => (q =? x) || is_empty (board_of f) q) (between k a) = true).
    { apply forallb_forall. intros q Hq. rewrite forallb_forall in C3. specialize (C3 q Hq). destruct (q =? x); [reflexivity|]. cbn [orb] in *.
      assert (Hq64 : q < 64) by (apply (between_lt k a q Hk Ha Hq)). unfold is_empty. rewrite at_board_of by exact Hq64.
      unfold occ in C3. rewrite (occupied_rep p f q Hrep Hq64) in C3. destruct (f q); [discriminate|reflexivity]. }
    apply side_eqb_true in Ecs. subst c.
    destruct C4 as [[Hs Hd]|[Hs Hl]].
    + unfold slb in Hs. rewrite N.lor_spec, !(pieces_rep p f _ _ a Hrep Ha) in Hs by discriminate.
      destruct (f a) as [[ca pa]|]; [|discriminate]. rewrite C1, C2, Hemp.
      destruct pa, ca, s; cbn in Hs; try discriminate; rewrite ?Hd, ?orb_true_r; reflexivity.
    + unfold slr in Hs. rewrite N.lor_spec, !(pieces_rep p f _ _ a Hrep Ha) in Hs by discriminate.
      destruct (f a) as [[ca pa]|]; [|discriminate]. rewrite C1, C2, Hemp.
      destruct pa, ca, s; cbn in Hs; try discriminate; rewrite ?Hl, ?orb_true_r; reflexivity.
  - intros [Hxk [a [Ha Hb]]]. apply in_all64 in Ha. rewrite at_board_of in Hb by exact Ha.
    destruct (f a) as [[ca pa]|] eqn:Efa; [|discriminate].
    repeat (apply andb_true_iff in Hb; let H' := fresh "B" in destruct Hb as [Hb H']).
    exists a. split; [apply in_all64; exact Ha|].
    assert (Hemp : forallb (fun q => (q =? x) || negb (N.testbit occ q)) (between k a) = true).
    { apply forallb_forall. intros q Hq. rewrite forallb_forall in B. specialize (B q Hq). destruct (q =? x); [reflexivity|]. cbn [orb] in *.
      assert (Hq64 : q < 64) by (apply (between_lt k a q Hk Ha Hq)). unfold is_empty in B. rewrite at_board_of in B by exact Hq64.
      unfold occ. rewrite (occupied_rep p f q Hrep Hq64). destruct (f q); [discriminate|reflexivity]. }
    assert (Hca : ca = opp_side s) by (destruct ca, s; cbn in Hb; try discriminate; reflexivity).
    unfold slb, slr. rewrite !N.lor_spec, !(pieces_rep p f _ _ a Hrep Ha) by discriminate. rewrite Efa, Hca, side_eqb_refl, B1, B0, Hemp. cbn [andb].
    destruct pa; cbn [piece_eqb piece_to_N N.eqb Pos.eqb orb andb]; try discriminate; rewrite ?andb_true_r, ?andb_false_r, ?orb_false_r, ?orb_false_l.
    + rewrite B2. reflexivity.
    + rewrite B2. reflexivity.
    + apply orb_true_iff in B2. destruct B2 as [D|L]; rewrite ?D, ?L, ?orb_true_r; reflexivity.
Qed.

Lemma pinned_lt p enemy s k : pinned_gen p enemy s k < two64.
Proof.
  rewrite pinned_gen_unfold. cbv zeta.
  assert (G : forall (C : N -> bool) l init, init < two64 -> fold_left (fun acc n => if C n then N.lor acc (bit n) else acc) l init < two64).
  { intros C l. induction l as [|n r IH]; intros init Hi; [exact Hi|]. cbn [fold_left]. apply IH. destruct (C n); [apply lor_lt; [exact Hi|apply bit_lt]|exact Hi]. }
  apply G, G. reflexivity.
Qed.

(* pinned(s) for either side: the iteration visits exactly the specification's pinned pieces *)
Theorem pinned_list p f s k : rep (brd p) f -> find_king (board_of f) s = Some k ->
  bb_squares (pinned_s p s) = spec_pinned (board_of f) s.
Proof.
  intros Hrep Hk. destruct (king_position_exact p f s k Hrep Hk) as (E & Hk64 & _).
  rewrite (spec_pinned_pred _ _ _ Hk). unfold pinned_s. rewrite E.
  rewrite bb_squares_members by apply pinned_lt. rewrite all64_squares. apply filter_ext_in. intros x Hx. apply in_all64 in Hx.
  unfold mem. apply pinned_exact; assumption.
Qed.
