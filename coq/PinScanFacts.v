(* PinScanFacts.v — C01: the two pin-scan loops of legal_noncaptures (pin_scan) read on the mailbox:
   the pinned sets g_bishop_pinned / g_rook_pinned and the quiet moves of pinned sliders along the pin line. *)
From Coq Require Import NArith ZArith List Bool Lia.
From Coq Require Import ZifyBool ZifyN ZifyNat.
From LC Require Import Bits BitsFacts Types BitboardModel BitboardFacts MoveModel MoveFacts MagicModel MagicFacts PositionModel MovegenModel MovegenFacts BoardFacts
  Spec.Rules Refine.Abs Refine.Board Refine.Make Refine.Wf Refine.MakeAbs Refine.SpecFits AttackFacts PinFacts KingFacts SafetyFacts LegalFacts LegalCore HashFacts.
Import ListNotations.
Local Open Scope N_scope.
Local Strategy 1000 [squares all64 seq].

(* ---------- the loop of pin_scan, generically ---------- *)
Lemma scan_fold_eq (C : N -> bool) (MV : N -> list move) l init :
  fold_left (fun (acc : N * list move) sq => if C sq then (N.lor (fst acc) (bit sq), snd acc ++ MV sq) else acc) l init =
  (fold_left (fun a n => if C n then N.lor a (bit n) else a) l (fst init),
   snd init ++ flat_map (fun n => if C n then MV n else []) l).
Proof.
  revert init. induction l as [|n r IH]; intros init; cbn [fold_left flat_map].
  - rewrite app_nil_r. destruct init; reflexivity.
  - rewrite IH. destruct (C n); cbn [fst snd].
    + rewrite <- app_assoc. reflexivity.
    + reflexivity.
Qed.

Lemma or_fold_lt (C : N -> bool) l init : init < two64 -> fold_left (fun acc n => if C n then N.lor acc (bit n) else acc) l init < two64.
Proof. revert init. induction l as [|n r IH]; intros init Hi; [exact Hi|]. cbn [fold_left]. apply IH. destruct (C n); [apply lor_lt; [exact Hi|apply bit_lt]|exact Hi]. Qed.

Lemma NoDup_flat_map {A B} (g : A -> list B) l :
  NoDup l -> (forall n, In n l -> NoDup (g n)) -> (forall n n' m, In n l -> In n' l -> In m (g n) -> In m (g n') -> n = n') -> NoDup (flat_map g l).
Proof.
  induction l as [|a r IH]; intros Hnd Hg Hd; cbn [flat_map]; [constructor|].
  inversion Hnd as [|? ? Hna Hr]; subst. apply NoDup_app_intro.
  - apply Hg. left. reflexivity.
  - apply IH; [exact Hr|intros n Hn; apply Hg; right; exact Hn|intros n n' m Hn Hn'; apply Hd; right; assumption].
  - intros m H1 H2. apply in_flat_map in H2. destruct H2 as [n' [Hn' H2]].
    assert (a = n') by (apply (Hd a n' m); [left; reflexivity|right; exact Hn'|exact H1|exact H2]). subst n'. contradiction.
Qed.

Lemma nonempty_iff x : x < two64 -> (bb_nonempty x = true <-> exists a, a < 64 /\ N.testbit x a = true).
Proof.
  intros Hx. unfold bb_nonempty. rewrite negb_true_iff, N.eqb_neq. split.
  - intros Hne. exists (N.log2 x). assert (Hb : N.testbit x (N.log2 x) = true) by (apply N.bit_log2; exact Hne). split; [|exact Hb].
    destruct (N.lt_ge_cases (N.log2 x) 64) as [H|H]; [exact H|]. rewrite (proj1 (lt64_iff x) Hx _ H) in Hb. discriminate.
  - intros [a [_ Ha]] ->. rewrite N.bits_0 in Ha. discriminate.
Qed.

Lemma nodup_bb_squares x : x < two64 -> NoDup (bb_squares x).
Proof. intros Hx. rewrite (bb_squares_members x Hx). apply NoDup_filter. exact nodup_all64. Qed.

(* ---------- the condition of one iteration, for one slider kind ---------- *)
Section Kind.
Variable aligned : N -> N -> bool.
Variable moves : N -> N -> N.
Hypothesis moves_geo : forall k o t, k < 64 -> t < 64 -> N.testbit (moves k o) t = negb (k =? t) && aligned k t && clear_on o (between k t).
Hypothesis moves_lt : forall k o, moves k o < two64.

Definition scan_att (occ sliders k n : N) : N := N.land (N.lxor (moves k (N.lxor occ (bit n))) (moves k occ)) sliders.

(* one bit of the discovered attackers *)
Lemma scan_att_bit occ sliders k n a : k < 64 -> n < 64 -> a < 64 -> N.testbit occ n = true ->
  N.testbit (scan_att occ sliders k n) a =
  N.testbit sliders a && negb (a =? k) && aligned k a && existsb (N.eqb n) (between k a) &&
  forallb (fun q => (q =? n) || negb (N.testbit occ q)) (between k a).
Proof.
  intros Hk Hn Ha Hon. unfold scan_att. set (bl := N.lxor occ (bit n)).
  assert (Hbl : forall q, N.testbit bl q = xorb (N.testbit occ q) (q =? n)) by (intros q; unfold bl; rewrite N.lxor_spec, bit_spec by exact Hn; reflexivity).
  rewrite N.land_spec, N.lxor_spec, !moves_geo by assumption. rewrite (N.eqb_sym a k).
  destruct (N.testbit sliders a); [|rewrite andb_false_r; reflexivity]. rewrite andb_true_r. cbn [andb].
  destruct (negb (k =? a)); [|reflexivity]. destruct (aligned k a); [|reflexivity]. cbn [andb].
  apply eq_true_iff_eq. split.
  - intros H.
    assert (Himp : clear_on occ (between k a) = true -> clear_on bl (between k a) = true).
    { intros Hc. apply clear_on_forall. intros q Hq. pose proof (proj1 (clear_on_forall _ _) Hc q Hq) as Hq'. rewrite Hbl, Hq'.
      destruct (N.eqb_spec q n) as [Eq|]; [rewrite Eq, Hon in Hq'; discriminate|reflexivity]. }
    assert (Hb : clear_on bl (between k a) = true /\ clear_on occ (between k a) = false).
    { destruct (clear_on occ (between k a)); [rewrite Himp in H by reflexivity; discriminate|]. destruct (clear_on bl (between k a)); [split; reflexivity|discriminate]. }
    destruct Hb as [Hb Ho]. pose proof (proj1 (clear_on_forall _ _) Hb) as Hclr.
    assert (Hall : forall q, In q (between k a) -> (q =? n) || negb (N.testbit occ q) = true).
    { intros q Hq. specialize (Hclr q Hq). rewrite Hbl in Hclr. destruct (N.eqb_spec q n); [reflexivity|]. cbn [orb]. rewrite xorb_false_r in Hclr. rewrite Hclr. reflexivity. }
    apply andb_true_iff. split; [|apply forallb_forall; exact Hall].
    destruct (existsb (N.eqb n) (between k a)) eqn:En; [reflexivity|]. exfalso.
    assert (clear_on occ (between k a) = true); [|congruence].
    apply clear_on_forall. intros q Hq. specialize (Hall q Hq). destruct (N.eqb_spec q n) as [Eq|Hqn].
    + assert (existsb (N.eqb n) (between k a) = true); [|congruence]. apply existsb_exists. exists n. split; [rewrite <- Eq; exact Hq|apply N.eqb_refl].
    + cbn [orb] in Hall. apply negb_true_iff in Hall. exact Hall.
  - intros H. apply andb_true_iff in H. destruct H as [H1 H2]. apply in_existsb in H1. rewrite forallb_forall in H2.
    assert (Hb : clear_on bl (between k a) = true).
    { apply clear_on_forall. intros q Hq. rewrite Hbl. specialize (H2 q Hq). destruct (N.eqb_spec q n) as [Eq|]; [rewrite Eq, Hon; reflexivity|].
      cbn [orb] in H2. apply negb_true_iff in H2. rewrite H2. reflexivity. }
    assert (Ho : clear_on occ (between k a) = false).
    { apply not_true_is_false. intros Hc. pose proof (proj1 (clear_on_forall _ _) Hc n H1) as Hc'. rewrite Hc' in Hon. discriminate. }
    rewrite Hb, Ho. reflexivity.
Qed.

Lemma scan_att_lt occ sliders k n : scan_att occ sliders k n < two64.
Proof. unfold scan_att. apply land_lt, lxor_lt; apply moves_lt. Qed.

Lemma scan_cond_geo occ sliders k n : k < 64 -> n < 64 -> N.testbit occ n = true ->
  bb_nonempty (scan_att occ sliders k n) = pin_geo aligned occ sliders k n.
Proof.
  intros Hk Hn Hon. apply eq_true_iff_eq. rewrite (nonempty_iff _ (scan_att_lt occ sliders k n)). unfold pin_geo. rewrite existsb_exists. split.
  - intros [a [Ha Hb]]. exists a. split; [apply in_all64; exact Ha|]. rewrite <- (scan_att_bit occ sliders k n a Hk Hn Ha Hon). exact Hb.
  - intros [a [Ha Hb]]. apply in_all64 in Ha. exists a. split; [exact Ha|]. rewrite (scan_att_bit occ sliders k n a Hk Hn Ha Hon). exact Hb.
Qed.
End Kind.

(* ---------- small facts ---------- *)
Lemma nonempty_bit n y : n < 64 -> bb_nonempty (N.land (bit n) y) = N.testbit y n.
Proof.
  intros Hn. apply eq_true_iff_eq. rewrite (nonempty_iff _ (land_lt _ _ (bit_lt n))). split.
  - intros [a [Ha Hb]]. rewrite N.land_spec, (bit_spec n a Hn) in Hb. apply andb_true_iff in Hb. destruct Hb as [E Hb]. apply N.eqb_eq in E. subst a. exact Hb.
  - intros H. exists n. split; [exact Hn|]. rewrite N.land_spec, (bit_spec n n Hn), N.eqb_refl, H. reflexivity.
Qed.

Lemma squares_between_lt a b : a < 64 -> b < 64 -> squares_between a b < two64.
Proof. intros Ha Hb. pose proof (forallb_all64 _ (forallb_all64 _ squares_between_lt_sweep a Ha) b Hb) as H. cbv beta in H. apply N.ltb_lt in H. exact H. Qed.

(* the pinner of a pinned piece is unique *)
Lemma pinner_unique (f : mb) us k a a' x : k < 64 -> Pinner f us k a x -> Pinner f us k a' x -> a = a'.
Proof.
  intros Hk (Ha & pa & Efa & _ & _ & Hin & Hal) (Ha' & pa' & Efa' & _ & _ & Hin' & Hal').
  destruct (N.eq_dec a a') as [E|Hne]; [exact E|exfalso].
  destruct (between_geo a k Ha Hk) as (_ & Hna & _). destruct (between_geo a' k Ha' Hk) as (_ & Hna' & _).
  destruct (ray_share k a a' x Hk Ha Ha' Hne Hin Hin') as [H|H].
  - assert (Hax : a <> x) by (intros ->; contradiction). rewrite (Hal' a H Hax) in Efa. discriminate.
  - assert (Hax : a' <> x) by (intros ->; contradiction). rewrite (Hal a' H Hax) in Efa'. discriminate.
Qed.

(* ---------- pin_scan in closed form ---------- *)
Definition scan_mv (p : position) (pc1 : piece) (allowed k asq n : N) : list move :=
  if bb_nonempty (N.land (bit n) (pieces p (turn p) pc1))
  then emit (N.land (N.lxor (squares_between k asq) (bit n)) allowed) (fun to => [mkMove Normal n to pc1 NoPiece NoPiece])
  else if bb_nonempty (N.land (bit n) (pieces p (turn p) Queen))
  then emit (N.land (N.lxor (squares_between k asq) (bit n)) allowed) (fun to => [mkMove Normal n to Queen NoPiece NoPiece])
  else [].

Lemma pin_scan_eq p (moves : N -> N -> N) sliders pc1 allowed :
  pin_scan p moves (moves (king_position p (turn p)) (occupied p)) sliders pc1 allowed =
  (fold_left (fun a n => if bb_nonempty (scan_att moves (occupied p) sliders (king_position p (turn p)) n) then N.lor a (bit n) else a)
     (bb_squares (N.land (occupancy_s p (turn p)) (moves (king_position p (turn p)) (occupied p)))) 0,
   flat_map (fun n => if bb_nonempty (scan_att moves (occupied p) sliders (king_position p (turn p)) n)
                      then scan_mv p pc1 allowed (king_position p (turn p)) (bb_lsb (scan_att moves (occupied p) sliders (king_position p (turn p)) n)) n else [])
     (bb_squares (N.land (occupancy_s p (turn p)) (moves (king_position p (turn p)) (occupied p))))).
Proof.
  unfold pin_scan. cbv zeta.
  exact (scan_fold_eq (fun n => bb_nonempty (scan_att moves (occupied p) sliders (king_position p (turn p)) n))
           (fun n => scan_mv p pc1 allowed (king_position p (turn p)) (bb_lsb (scan_att moves (occupied p) sliders (king_position p (turn p)) n)) n)
           (bb_squares (N.land (occupancy_s p (turn p)) (moves (king_position p (turn p)) (occupied p)))) (0, [])).
Qed.

Lemma scan_mv_from p pc1 allowed k a n m : In m (scan_mv p pc1 allowed k a n) -> m_from m = n.
Proof.
  unfold scan_mv. intros H. destruct (bb_nonempty _).
  - apply in_emit in H. destruct H as [t [_ [<-|[]]]]. reflexivity.
  - destruct (bb_nonempty _); [|destruct H]. apply in_emit in H. destruct H as [t [_ [<-|[]]]]. reflexivity.
Qed.

(* ---------- one scan on the mailbox, for one slider kind ---------- *)
Section ScanKind.
Variable p : position.
Hypothesis Hwf : wf p = true.
Variable k : N.
Hypothesis Hk : find_king (abs_board p) (turn p) = Some k.
Notation f := (cell_of_b (brd p)).
Notation us := (turn p).
Notation them := (opp_side (turn p)).
Notation occ := (occupied p).
Variable aligned : N -> N -> bool.
Variable moves : N -> N -> N.
Variable pc1 : piece.
Variable allowed : N.
Hypothesis moves_geo : forall k o t, k < 64 -> t < 64 -> N.testbit (moves k o) t = negb (k =? t) && aligned k t && clear_on o (between k t).
Hypothesis moves_lt : forall k o, moves k o < two64.
Hypothesis aligned_between : forall k a x, k < 64 -> a < 64 -> In x (between k a) -> aligned k x = aligned k a.
Hypothesis aligned_sym : forall a b, a < 64 -> b < 64 -> aligned a b = aligned b a.
Hypothesis Hpc1 : pc1 <> NoPiece.
Hypothesis Hkind1 : forall pa a, a < 64 -> is_slider pa = true -> slider_aligned pa a k = true -> aligned a k = true -> pa = pc1 \/ pa = Queen.
Hypothesis Hkind2 : forall pa a, a < 64 -> pa = pc1 \/ pa = Queen -> a <> k -> aligned a k = true -> is_slider pa = true /\ slider_aligned pa a k = true.
Notation sliders := (N.lor (pieces p them pc1) (pieces p them Queen)).
Notation kscan := (pin_scan p moves (moves (king_position p us) occ) sliders pc1 allowed).
Notation att n := (scan_att moves occ sliders k n).

Lemma Hk64_ : k < 64. Proof. destruct (k_lt p Hwf k Hk) as [H _]. exact H. Qed.

Lemma sliders_bit a : a < 64 -> (N.testbit sliders a = true <-> exists pa, f a = Some (them, pa) /\ (pa = pc1 \/ pa = Queen)).
Proof.
  intros Ha. rewrite N.lor_spec, !(pieces_rep p f _ _ a (Hrep_ p Hwf) Ha) by first [exact Hpc1|discriminate].
  destruct (f a) as [[c pa]|]; [|split; [discriminate|intros [pa [E _]]; discriminate]]. split.
  - intros H. apply orb_true_iff in H. destruct H as [H|H]; apply andb_true_iff in H; destruct H as [H1 H2]; apply side_eqb_true in H1; apply piece_eqb_true in H2; subst c;
      exists pa; (split; [reflexivity|]); [left|right]; symmetry; exact H2.
  - intros [pa' [E [H|H]]]; inversion E; subst; rewrite side_eqb_refl, piece_eqb_refl; cbn [andb]; [reflexivity|apply orb_true_r].
Qed.

Lemma occ_bit q : q < 64 -> N.testbit occ q = match f q with Some _ => true | None => false end.
Proof. intros Hq. apply (occupied_rep p f q (Hrep_ p Hwf) Hq). Qed.

Lemma own_lt : occupancy_s p us < two64.
Proof. unfold occupancy_s. apply colour_lt. destruct (Hrep_ p Hwf) as [_ H]. exact H. Qed.

(* the body of pin_geo is the mailbox statement "a pins x along this kind of line" *)
Lemma body_pinner a x : a < 64 -> x < 64 ->
  (N.testbit sliders a && negb (a =? k) && aligned k a && existsb (N.eqb x) (between k a) &&
   forallb (fun q => (q =? x) || negb (N.testbit occ q)) (between k a) = true <-> Pinner f us k a x /\ aligned a k = true).
Proof.
  intros Ha Hx. pose proof Hk64_ as Hk64. split.
  - intros H. repeat (apply andb_true_iff in H; let H' := fresh "G" in destruct H as [H H']).
    apply (sliders_bit a Ha) in H. destruct H as [pa [Efa Hpa]]. apply negb_true_iff, N.eqb_neq in G2.
    rewrite (aligned_sym k a Hk64 Ha) in G1. split; [|exact G1].
    destruct (Hkind2 pa a Ha Hpa G2 G1) as [Hs Hal].
    split; [exact Ha|]. exists pa. split; [exact Efa|]. split; [exact Hs|]. split; [exact Hal|]. split.
    + apply between_sym; try assumption. apply in_existsb. exact G0.
    + intros y Hy Hyx. apply (between_sym a k y Ha Hk64) in Hy. rewrite forallb_forall in G. specialize (G y Hy).
      apply orb_true_iff in G. destruct G as [G|G]; [apply N.eqb_eq in G; contradiction|].
      rewrite occ_bit in G by (apply (between_lt k a); assumption). destruct (f y); [discriminate|reflexivity].
  - intros [(_ & pa & Efa & Hs & Hal & Hin & Hal2) Hka].
    assert (Hne : a <> k) by (unfold slider_aligned in Hal; apply andb_true_iff in Hal; destruct Hal as [Hal _]; apply negb_true_iff, N.eqb_neq in Hal; exact Hal).
    assert (Hsl : N.testbit sliders a = true) by (apply (sliders_bit a Ha); exists pa; split; [exact Efa|apply (Hkind1 pa a Ha Hs Hal Hka)]).
    rewrite Hsl, (aligned_sym k a Hk64 Ha), Hka. replace (a =? k) with false by lia.
    replace (existsb (N.eqb x) (between k a)) with true by (symmetry; apply in_existsb, between_sym; assumption).
    cbn [negb andb]. apply forallb_forall. intros y Hy. destruct (N.eqb_spec y x) as [E|Hyx]; [reflexivity|]. cbn [orb].
    rewrite occ_bit by (apply (between_lt k a); assumption). rewrite (Hal2 y) by (try apply between_sym; assumption). reflexivity.
Qed.

Lemma geo_pinner x : x < 64 -> (pin_geo aligned occ sliders k x = true <-> exists a, Pinner f us k a x /\ aligned a k = true).
Proof.
  intros Hx. unfold pin_geo. rewrite existsb_exists. split.
  - intros [a [Ha Hb]]. apply in_all64 in Ha. exists a. apply (body_pinner a x Ha Hx). exact Hb.
  - intros [a Hp]. assert (Ha : a < 64) by (destruct Hp as [[Ha _] _]; exact Ha). exists a. split; [apply in_all64; exact Ha|]. apply (body_pinner a x Ha Hx). exact Hp.
Qed.

Lemma geo_visible x : x < 64 -> pin_geo aligned occ sliders k x = true -> N.testbit (moves k occ) x = true.
Proof. intros Hx H. rewrite (moves_geo k occ x Hk64_ Hx). exact (pin_geo_visible aligned occ sliders k x aligned_between Hk64_ Hx H). Qed.

Lemma cand_iff n : In n (bb_squares (N.land (occupancy_s p us) (moves k occ))) <->
  n < 64 /\ (exists pc, f n = Some (us, pc)) /\ N.testbit (moves k occ) n = true.
Proof.
  unfold bb_squares. rewrite bits_spec by (apply land_lt, own_lt). rewrite N.land_spec. split.
  - intros H. apply andb_true_iff in H. destruct H as [H1 H2].
    assert (Hn : n < 64) by (destruct (N.lt_ge_cases n 64) as [H|H]; [exact H|]; rewrite (proj1 (lt64_iff _) (moves_lt k occ) n H) in H2; discriminate).
    split; [exact Hn|]. split; [|exact H2]. rewrite (own_bit p Hwf n Hn) in H1. destruct (f n) as [[c pc]|]; [|discriminate].
    apply side_eqb_true in H1. subst c. exists pc. reflexivity.
  - intros (Hn & [pc E] & H2). rewrite (own_bit p Hwf n Hn), E, side_eqb_refl, H2. reflexivity.
Qed.

Lemma own_occ n pc : n < 64 -> f n = Some (us, pc) -> N.testbit occ n = true.
Proof. intros Hn E. rewrite (occ_bit n Hn), E. reflexivity. Qed.

Lemma cond_geo n pc : n < 64 -> f n = Some (us, pc) -> bb_nonempty (att n) = pin_geo aligned occ sliders k n.
Proof. intros Hn E. apply (scan_cond_geo aligned moves moves_geo moves_lt occ sliders k n Hk64_ Hn (own_occ n pc Hn E)). Qed.

Theorem kscan_pinned_iff x : x < 64 ->
  (N.testbit (fst kscan) x = true <-> (exists pc, f x = Some (us, pc)) /\ exists a, Pinner f us k a x /\ aligned a k = true).
Proof.
  intros Hx. rewrite pin_scan_eq. cbn [fst]. rewrite (ksq_eq p Hwf k Hk).
  rewrite pin_fold_spec by (intros n Hn; apply cand_iff in Hn; destruct Hn as [Hn _]; exact Hn). rewrite N.bits_0. cbn [orb]. rewrite existsb_exists. split.
  - intros [n [Hn Hc]]. apply andb_true_iff in Hc. destruct Hc as [E Hc]. apply N.eqb_eq in E. subst n.
    apply cand_iff in Hn. destruct Hn as (_ & [pc Ef] & _). split; [exists pc; exact Ef|].
    rewrite (cond_geo x pc Hx Ef) in Hc. apply (geo_pinner x Hx). exact Hc.
  - intros [[pc Ef] Hp]. apply (geo_pinner x Hx) in Hp. exists x. split.
    + apply cand_iff. split; [exact Hx|]. split; [exists pc; exact Ef|apply (geo_visible x Hx Hp)].
    + rewrite N.eqb_refl, (cond_geo x pc Hx Ef), Hp. reflexivity.
Qed.

Theorem kscan_fst_lt : fst kscan < two64.
Proof. rewrite pin_scan_eq. cbn [fst]. apply or_fold_lt. reflexivity. Qed.

(* the attacker picked by bb_lsb is the pinner *)
Lemma lsb_pinner n pc : n < 64 -> f n = Some (us, pc) -> bb_nonempty (att n) = true ->
  Pinner f us k (bb_lsb (att n)) n /\ aligned (bb_lsb (att n)) k = true.
Proof.
  intros Hn Ef Hc. assert (H0 : 0 < att n) by (unfold bb_nonempty in Hc; apply negb_true_iff, N.eqb_neq in Hc; lia).
  destruct (bb_lsb_spec (att n) H0 (scan_att_lt moves moves_lt occ sliders k n)) as (L1 & L2 & _). unfold mem in L2.
  rewrite (scan_att_bit aligned moves moves_geo occ sliders k n _ Hk64_ Hn L1 (own_occ n pc Hn Ef)) in L2.
  apply (body_pinner _ n L1 Hn). exact L2.
Qed.

Lemma mask_lt a n : a < 64 -> N.land (N.lxor (squares_between k a) (bit n)) allowed < two64.
Proof. intros Ha. apply land_lt, lxor_lt; [apply squares_between_lt; [exact Hk64_|exact Ha]|apply bit_lt]. Qed.

Lemma mv_iff n a pcn m : n < 64 -> a < 64 -> f n = Some (us, pcn) -> In n (between a k) ->
  (In m (scan_mv p pc1 allowed k a n) <->
   (pcn = pc1 \/ pcn = Queen) /\ exists t, t < 64 /\ In t (between a k) /\ t <> n /\ N.testbit allowed t = true /\ m = mkMove Normal n t pcn NoPiece NoPiece).
Proof.
  intros Hn Ha Efn Hin. pose proof Hk64_ as Hk64. unfold scan_mv. rewrite !nonempty_bit by exact Hn.
  rewrite !(pieces_rep p f _ _ n (Hrep_ p Hwf) Hn) by first [exact Hpc1|discriminate]. rewrite Efn, side_eqb_refl. cbn [andb].
  assert (Hbit : forall t, t < 64 -> (N.testbit (N.land (N.lxor (squares_between k a) (bit n)) allowed) t = true <->
                                      In t (between a k) /\ t <> n /\ N.testbit allowed t = true)).
  { intros t Ht. rewrite N.land_spec, N.lxor_spec, (bit_spec n t Hn). pose proof (squares_between_exact k a t Hk64 Ha) as Hsb. unfold mem in Hsb. rewrite Hsb.
    rewrite andb_true_iff. split.
    - intros [H1 H2]. destruct (N.eqb_spec t n) as [E|Hne].
      + subst t. replace (existsb (N.eqb n) (between k a)) with true in H1 by (symmetry; apply in_existsb, between_sym; assumption). discriminate.
      + rewrite xorb_false_r in H1. apply in_existsb in H1. split; [apply between_sym; assumption|]. split; assumption.
    - intros (H1 & H2 & H3). split; [|exact H3]. replace (t =? n) with false by lia. rewrite xorb_false_r. apply in_existsb, between_sym; assumption. }
  destruct (piece_eqb pc1 pcn) eqn:E1.
  - apply piece_eqb_true in E1. subst pcn. rewrite in_emit_iff by (apply mask_lt; exact Ha). split.
    + intros [t [Ht [Hb [<-|[]]]]]. split; [left; reflexivity|]. exists t. apply (Hbit t Ht) in Hb. destruct Hb as (B1 & B2 & B3). repeat split; assumption.
    + intros [_ [t (Ht & H1 & H2 & H3 & ->)]]. exists t. split; [exact Ht|]. split; [apply (Hbit t Ht); repeat split; assumption|left; reflexivity].
  - destruct (piece_eqb Queen pcn) eqn:E2.
    + apply piece_eqb_true in E2. subst pcn. rewrite in_emit_iff by (apply mask_lt; exact Ha). split.
      * intros [t [Ht [Hb [<-|[]]]]]. split; [right; reflexivity|]. exists t. apply (Hbit t Ht) in Hb. destruct Hb as (B1 & B2 & B3). repeat split; assumption.
      * intros [_ [t (Ht & H1 & H2 & H3 & ->)]]. exists t. split; [exact Ht|]. split; [apply (Hbit t Ht); repeat split; assumption|left; reflexivity].
    + split; [intros []|]. intros [[->| ->] _]; rewrite piece_eqb_refl in *; discriminate.
Qed.

Theorem kscan_moves_iff m :
  In m (snd kscan) <->
  exists x a t pc, x < 64 /\ t < 64 /\ (pc = pc1 \/ pc = Queen) /\ f x = Some (us, pc) /\ Pinner f us k a x /\ aligned a k = true /\
    In t (between a k) /\ t <> x /\ N.testbit allowed t = true /\ m = mkMove Normal x t pc NoPiece NoPiece.
Proof.
  rewrite pin_scan_eq. cbn [snd]. rewrite (ksq_eq p Hwf k Hk). rewrite in_flat_map. split.
  - intros [n [Hn Hm]]. apply cand_iff in Hn. destruct Hn as (Hn & [pcn Efn] & _).
    destruct (bb_nonempty (att n)) eqn:Ec; [|destruct Hm].
    destruct (lsb_pinner n pcn Hn Efn Ec) as [Hp Hal]. pose proof Hp as (Ha & _ & _ & _ & _ & Hin & _).
    apply (mv_iff n _ pcn m Hn Ha Efn Hin) in Hm. destruct Hm as [Hpc [t (Ht & H1 & H2 & H3 & H4)]].
    exists n, (bb_lsb (att n)), t, pcn. exact (conj Hn (conj Ht (conj Hpc (conj Efn (conj Hp (conj Hal (conj H1 (conj H2 (conj H3 H4))))))))).
  - intros (x & a & t & pc & Hx & Ht & Hpc & Ef & Hp & Hal & H1 & H2 & H3 & H4). exists x.
    assert (Hg : pin_geo aligned occ sliders k x = true) by (apply (geo_pinner x Hx); exists a; split; assumption).
    split; [apply cand_iff; split; [exact Hx|]; split; [exists pc; exact Ef|apply (geo_visible x Hx Hg)]|].
    assert (Ec : bb_nonempty (att x) = true) by (rewrite (cond_geo x pc Hx Ef); exact Hg). rewrite Ec.
    destruct (lsb_pinner x pc Hx Ef Ec) as [Hp' _]. rewrite (pinner_unique f us k _ a x Hk64_ Hp' Hp).
    pose proof Hp as (Ha & _ & _ & _ & _ & Hin & _).
    apply (mv_iff x a pc m Hx Ha Ef Hin). split; [exact Hpc|]. exists t. repeat split; assumption.
Qed.

Theorem kscan_nodup : NoDup (snd kscan).
Proof.
  rewrite pin_scan_eq. cbn [snd]. rewrite (ksq_eq p Hwf k Hk). apply NoDup_flat_map.
  - apply nodup_bb_squares, land_lt, own_lt.
  - intros n Hn. apply cand_iff in Hn. destruct Hn as (Hn & [pcn Efn] & _).
    destruct (bb_nonempty (att n)) eqn:Ec; [|constructor].
    destruct (lsb_pinner n pcn Hn Efn Ec) as [(Ha & _) _]. unfold scan_mv. destruct (bb_nonempty (N.land (bit n) (pieces p us pc1))).
    + apply (emit_single_nodup _ (fun to => mkMove Normal n to pc1 NoPiece NoPiece)); [apply mask_lt; exact Ha|]. intros x y E. inversion E. reflexivity.
    + destruct (bb_nonempty (N.land (bit n) (pieces p us Queen))); [|constructor].
      apply (emit_single_nodup _ (fun to => mkMove Normal n to Queen NoPiece NoPiece)); [apply mask_lt; exact Ha|]. intros x y E. inversion E. reflexivity.
  - intros n n' m _ _ H1 H2.
    destruct (bb_nonempty (att n)); [|destruct H1]. destruct (bb_nonempty (att n')); [|destruct H2].
    apply scan_mv_from in H1. apply scan_mv_from in H2. congruence.
Qed.
End ScanKind.

(* ---------- the two kinds ---------- *)
Lemma kind1_diag k pa a : k < 64 -> a < 64 -> is_slider pa = true -> slider_aligned pa a k = true -> same_diag a k = true -> pa = Bishop \/ pa = Queen.
Proof.
  intros Hk Ha Hs Hal Hd. unfold slider_aligned in Hal. apply andb_true_iff in Hal. destruct Hal as [Hne Hal]. apply negb_true_iff, N.eqb_neq in Hne.
  destruct pa; try discriminate; [left; reflexivity| |right; reflexivity]. exfalso. apply Hne. apply (diag_line_exclusive a k Ha Hk Hd Hal).
Qed.
Lemma kind1_line k pa a : k < 64 -> a < 64 -> is_slider pa = true -> slider_aligned pa a k = true -> same_line a k = true -> pa = Rook \/ pa = Queen.
Proof.
  intros Hk Ha Hs Hal Hd. unfold slider_aligned in Hal. apply andb_true_iff in Hal. destruct Hal as [Hne Hal]. apply negb_true_iff, N.eqb_neq in Hne.
  destruct pa; try discriminate; [|left; reflexivity|right; reflexivity]. exfalso. apply Hne. apply (diag_line_exclusive a k Ha Hk Hal Hd).
Qed.
Lemma kind2_diag k pa a : pa = Bishop \/ pa = Queen -> a <> k -> same_diag a k = true -> is_slider pa = true /\ slider_aligned pa a k = true.
Proof. intros Hpa Hne Hd. unfold slider_aligned. replace (a =? k) with false by lia. rewrite Hd. destruct Hpa as [-> | ->]; split; reflexivity. Qed.
Lemma kind2_line k pa a : pa = Rook \/ pa = Queen -> a <> k -> same_line a k = true -> is_slider pa = true /\ slider_aligned pa a k = true.
Proof. intros Hpa Hne Hd. unfold slider_aligned. replace (a =? k) with false by lia. rewrite Hd, ?orb_true_r. destruct Hpa as [-> | ->]; split; reflexivity. Qed.

Lemma bishop_ne : Bishop <> NoPiece. Proof. discriminate. Qed.
Lemma rook_ne : Rook <> NoPiece. Proof. discriminate. Qed.

Section Scans.
Variable p : position.
Hypothesis Hwf : wf p = true.
Variable k : N.
Hypothesis Hk : find_king (abs_board p) (turn p) = Some k.
Notation f := (cell_of_b (brd p)).
Notation us := (turn p).
Notation them := (opp_side (turn p)).

Lemma Hk64s : k < 64. Proof. destruct (k_lt p Hwf k Hk) as [H _]. exact H. Qed.

(* 1 *)
Theorem bscan_pinned_iff x : x < 64 ->
  (N.testbit (g_bishop_pinned p) x = true <-> (exists pc, f x = Some (us, pc)) /\ exists a, Pinner f us k a x /\ same_diag a k = true).
Proof.
  intros Hx. unfold g_bishop_pinned, g_bscan.
  exact (kscan_pinned_iff p Hwf k Hk same_diag bishop_moves Bishop (g_allowed_q p) bishop_moves_geometric bishop_moves_lt aligned_between_diag same_diag_sym bishop_ne
           (fun pa a Ha => kind1_diag k pa a Hk64s Ha) (fun pa a _ => kind2_diag k pa a) x Hx).
Qed.

(* 2 *)
Theorem rscan_pinned_iff x : x < 64 ->
  (N.testbit (g_rook_pinned p) x = true <-> (exists pc, f x = Some (us, pc)) /\ exists a, Pinner f us k a x /\ same_line a k = true).
Proof.
  intros Hx. unfold g_rook_pinned, g_rscan.
  exact (kscan_pinned_iff p Hwf k Hk same_line rook_moves Rook (g_allowed_q p) rook_moves_geometric rook_moves_lt aligned_between_line same_line_sym rook_ne
           (fun pa a Ha => kind1_line k pa a Hk64s Ha) (fun pa a _ => kind2_line k pa a) x Hx).
Qed.

(* 4 *)
Theorem bscan_moves_iff m :
  In m (snd (g_bscan p)) <->
  exists x a t pc, x < 64 /\ t < 64 /\ (pc = Bishop \/ pc = Queen) /\ f x = Some (us, pc) /\ Pinner f us k a x /\ same_diag a k = true /\
    In t (between a k) /\ t <> x /\ N.testbit (g_allowed_q p) t = true /\ m = mkMove Normal x t pc NoPiece NoPiece.
Proof.
  unfold g_bscan.
  exact (kscan_moves_iff p Hwf k Hk same_diag bishop_moves Bishop (g_allowed_q p) bishop_moves_geometric bishop_moves_lt aligned_between_diag same_diag_sym bishop_ne
           (fun pa a Ha => kind1_diag k pa a Hk64s Ha) (fun pa a _ => kind2_diag k pa a) m).
Qed.

(* 5 *)
Theorem rscan_moves_iff m :
  In m (snd (g_rscan p)) <->
  exists x a t pc, x < 64 /\ t < 64 /\ (pc = Rook \/ pc = Queen) /\ f x = Some (us, pc) /\ Pinner f us k a x /\ same_line a k = true /\
    In t (between a k) /\ t <> x /\ N.testbit (g_allowed_q p) t = true /\ m = mkMove Normal x t pc NoPiece NoPiece.
Proof.
  unfold g_rscan.
  exact (kscan_moves_iff p Hwf k Hk same_line rook_moves Rook (g_allowed_q p) rook_moves_geometric rook_moves_lt aligned_between_line same_line_sym rook_ne
           (fun pa a Ha => kind1_line k pa a Hk64s Ha) (fun pa a _ => kind2_line k pa a) m).
Qed.

(* 6 *)
Theorem scan_union_pinned x : x < 64 -> N.testbit (N.lor (g_rook_pinned p) (g_bishop_pinned p)) x = N.testbit (pinned p) x.
Proof.
  intros Hx. apply eq_true_iff_eq. rewrite N.lor_spec, orb_true_iff, (rscan_pinned_iff x Hx), (bscan_pinned_iff x Hx), (pinned_iff p k x Hwf Hk Hx). split.
  - intros [[Ho [a [Hp _]]]|[Ho [a [Hp _]]]]; (split; [exact Ho|exists a; exact Hp]).
  - intros [Ho [a Hp]]. pose proof Hp as (_ & pa & _ & Hs & Hal & _). unfold slider_aligned in Hal. apply andb_true_iff in Hal. destruct Hal as [_ Hal].
    assert (Hor : same_diag a k = true \/ same_line a k = true).
    { destruct pa; try discriminate Hs; [left; exact Hal|right; exact Hal|apply orb_true_iff in Hal; exact Hal]. }
    destruct Hor as [Hd|Hl]; [right|left]; (split; [exact Ho|exists a; split; assumption]).
Qed.

(* 7 *)
Theorem bscan_nodup : NoDup (snd (g_bscan p)).
Proof.
  unfold g_bscan.
  exact (kscan_nodup p Hwf k Hk same_diag bishop_moves Bishop (g_allowed_q p) bishop_moves_geometric bishop_moves_lt aligned_between_diag same_diag_sym bishop_ne
           (fun pa a Ha => kind1_diag k pa a Hk64s Ha) (fun pa a _ => kind2_diag k pa a)).
Qed.
Theorem rscan_nodup : NoDup (snd (g_rscan p)).
Proof.
  unfold g_rscan.
  exact (kscan_nodup p Hwf k Hk same_line rook_moves Rook (g_allowed_q p) rook_moves_geometric rook_moves_lt aligned_between_line same_line_sym rook_ne
           (fun pa a Ha => kind1_line k pa a Hk64s Ha) (fun pa a _ => kind2_line k pa a)).
Qed.

Theorem scans_disjoint m : In m (snd (g_bscan p)) -> In m (snd (g_rscan p)) -> False.
Proof.
  intros H1 H2. apply bscan_moves_iff in H1. apply rscan_moves_iff in H2.
  destruct H1 as (x & a & t & pc & _ & _ & _ & _ & Hp & Hd & _ & _ & _ & E).
  destruct H2 as (x' & a' & t' & pc' & _ & _ & _ & _ & Hp' & Hl & _ & _ & _ & E').
  assert (Ex : x = x') by (rewrite E in E'; inversion E'; reflexivity). subst x'.
  pose proof (pinner_unique f us k a a' x Hk64s Hp Hp') as Ea. subst a'.
  destruct Hp as (Ha & pa & _ & _ & Hal & _). unfold slider_aligned in Hal. apply andb_true_iff in Hal. destruct Hal as [Hne _]. apply negb_true_iff, N.eqb_neq in Hne.
  apply Hne. apply (diag_line_exclusive a k Ha Hk64s Hd Hl).
Qed.

Theorem scans_nodup : NoDup (snd (g_bscan p) ++ snd (g_rscan p)).
Proof. apply NoDup_app_intro; [exact bscan_nodup|exact rscan_nodup|exact scans_disjoint]. Qed.
End Scans.

(* 3 *)
Theorem g_bishop_pinned_lt p : g_bishop_pinned p < two64.
Proof. unfold g_bishop_pinned, g_bscan. apply kscan_fst_lt. Qed.
Theorem g_rook_pinned_lt p : g_rook_pinned p < two64.
Proof. unfold g_rook_pinned, g_rscan. apply kscan_fst_lt. Qed.

Print Assumptions bscan_pinned_iff.
Print Assumptions rscan_pinned_iff.
Print Assumptions bscan_moves_iff.
Print Assumptions rscan_moves_iff.
Print Assumptions scan_union_pinned.
Print Assumptions scans_nodup.
Print Assumptions g_bishop_pinned_lt.
Print Assumptions g_rook_pinned_lt.
