(* PositionModel.v — class Position (src/libchess/position.hpp) and the query functions of
   attackers.cpp, square_attacked.cpp, squares_attacked.cpp, checkers.cpp, king_allowed.cpp,
   pinned.cpp, valid.cpp.  Line-by-line functional transcription; definitions only. *)
From Coq Require Import NArith List Bool.
From LC Require Import Bits Types BitboardModel MoveModel MagicModel ZobristModel.
Import ListNotations.
Local Open Scope N_scope.

(* Bitboard colours_[2]; Bitboard pieces_[6]; *)
Record board := mkBoard {
  b_white : N; b_black : N;
  b_pawn : N; b_knight : N; b_bishop : N; b_rook : N; b_queen : N; b_king : N }.

Definition empty_board : board := mkBoard 0 0 0 0 0 0 0 0.

Definition colour (b : board) (s : side) : N :=
  match s with White => b_white b | Black => b_black b end.
(* pieces_[p]; p = None (6) is out of bounds in the C++ (never executed on a fitting move);
   the model reads 0 / leaves the board unchanged and the contracts (C20) flag it. *)
Definition pcs (b : board) (p : piece) : N :=
  match p with
  | Pawn => b_pawn b | Knight => b_knight b | Bishop => b_bishop b
  | Rook => b_rook b | Queen => b_queen b | King => b_king b | NoPiece => 0
  end.
Definition upd_colour (b : board) (s : side) (f : N -> N) : board :=
  match s with
  | White => mkBoard (f (b_white b)) (b_black b) (b_pawn b) (b_knight b) (b_bishop b) (b_rook b) (b_queen b) (b_king b)
  | Black => mkBoard (b_white b) (f (b_black b)) (b_pawn b) (b_knight b) (b_bishop b) (b_rook b) (b_queen b) (b_king b)
  end.
Definition upd_pcs (b : board) (p : piece) (f : N -> N) : board :=
  match p with
  | Pawn => mkBoard (b_white b) (b_black b) (f (b_pawn b)) (b_knight b) (b_bishop b) (b_rook b) (b_queen b) (b_king b)
  | Knight => mkBoard (b_white b) (b_black b) (b_pawn b) (f (b_knight b)) (b_bishop b) (b_rook b) (b_queen b) (b_king b)
  | Bishop => mkBoard (b_white b) (b_black b) (b_pawn b) (b_knight b) (f (b_bishop b)) (b_rook b) (b_queen b) (b_king b)
  | Rook => mkBoard (b_white b) (b_black b) (b_pawn b) (b_knight b) (b_bishop b) (f (b_rook b)) (b_queen b) (b_king b)
  | Queen => mkBoard (b_white b) (b_black b) (b_pawn b) (b_knight b) (b_bishop b) (b_rook b) (f (b_queen b)) (b_king b)
  | King => mkBoard (b_white b) (b_black b) (b_pawn b) (b_knight b) (b_bishop b) (b_rook b) (b_queen b) (f (b_king b))
  | NoPiece => b
  end.
(* colours_[s] ^= x;  pieces_[p] ^= x;  (x a Bitboard or a Square converted by 1ULL << sq) *)
Definition xor_colour (b : board) (s : side) (x : N) : board := upd_colour b s (fun v => N.lxor v x).
Definition xor_pcs (b : board) (p : piece) (x : N) : board := upd_pcs b p (fun v => N.lxor v x).
(* void set(sq, s, p): colours_[s] |= sq; pieces_[p] |= sq *)
Definition board_set (b : board) (sq : N) (s : side) (p : piece) : board :=
  upd_pcs (upd_colour b s (fun v => N.lor v (bit sq))) p (fun v => N.lor v (bit sq)).

(* struct meh { hash; move; ep; halfmove_clock; castling[4] } *)
Record hrec := mkH { h_hash : N; h_move : move; h_ep : N; h_half : N;
                     h_c0 : bool; h_c1 : bool; h_c2 : bool; h_c3 : bool }.

Record position := mkPos {
  brd : board;
  halfmove : N; fullmove : N;
  ep : N;                          (* 255 = OffSq *)
  hash : N;
  c0 : bool; c1 : bool; c2 : bool; c3 : bool;      (* castling_[usKSC,usQSC,themKSC,themQSC] *)
  r0 : N; r1 : N; r2 : N; r3 : N;                  (* castle_rooks_from_ *)
  to_move : side;
  history : list hrec              (* head = history_.back() *)
}.

(* default member initialisers *)
Definition fresh_position : position :=
  mkPos empty_board 0 0 OffSq 0 false false false false 7 0 63 56 White [].

Definition turn (p : position) : side := to_move p.
Definition occupancy_s (p : position) (s : side) : N := colour (brd p) s.
Definition occupancy_p (p : position) (pc : piece) : N := pcs (brd p) pc.
Definition pieces (p : position) (s : side) (pc : piece) : N := N.land (occupancy_s p s) (occupancy_p p pc).
Definition occupied (p : position) : N := N.lor (occupancy_s p White) (occupancy_s p Black).
Definition empty_sqs (p : position) : N := not64 (occupied p).
Definition king_position (p : position) (s : side) : N := bb_lsb (pieces p s King).

Definition castling_idx (s : side) (mt : mtype) : N :=
  match s, mt with White, Ksc => 0 | White, _ => 1 | Black, Ksc => 2 | Black, _ => 3 end.
Definition castling_get (p : position) (i : N) : bool :=
  match i with 0 => c0 p | 1 => c1 p | 2 => c2 p | _ => c3 p end.
Definition rook_from_get (p : position) (i : N) : N :=
  match i with 0 => r0 p | 1 => r1 p | 2 => r2 p | _ => r3 p end.
Definition can_castle (p : position) (s : side) (mt : mtype) : bool := castling_get p (castling_idx s mt).
Definition get_castling_square (p : position) (s : side) (mt : mtype) : N := rook_from_get p (castling_idx s mt).

(* piece_on: first i in 0..5 with pieces_[i] & Bitboard{sq} *)
Definition piece_on_b (b : board) (sq : N) : piece :=
  let t := bit sq in
  if bb_nonempty (N.land (b_pawn b) t) then Pawn else
  if bb_nonempty (N.land (b_knight b) t) then Knight else
  if bb_nonempty (N.land (b_bishop b) t) then Bishop else
  if bb_nonempty (N.land (b_rook b) t) then Rook else
  if bb_nonempty (N.land (b_queen b) t) then Queen else
  if bb_nonempty (N.land (b_king b) t) then King else NoPiece.
Definition piece_on (p : position) (sq : N) : piece := piece_on_b (brd p) sq.

(* ---------------- attackers.cpp ---------------- *)
Definition attackers (p : position) (sq : N) (s : side) : N :=
  let bb := bit sq in
  let pawns := pieces p s Pawn in
  let m1 := match s with
            | White => N.lor (N.land pawns (east (south bb))) (N.land pawns (west (south bb)))
            | Black => N.lor (N.land pawns (east (north bb))) (N.land pawns (west (north bb)))
            end in
  let m2 := N.lor m1 (N.land (knight_moves sq) (pieces p s Knight)) in
  let occ := not64 (empty_sqs p) in
  let m3 := N.lor m2 (N.land (bishop_moves sq occ) (N.lor (pieces p s Bishop) (pieces p s Queen))) in
  let m4 := N.lor m3 (N.land (rook_moves sq occ) (N.lor (pieces p s Rook) (pieces p s Queen))) in
  N.lor m4 (N.land (king_moves sq) (pieces p s King)).

Definition square_attacked (p : position) (sq : N) (s : side) : bool := negb (bb_empty (attackers p sq s)).
Definition checkers (p : position) : N := attackers p (king_position p (turn p)) (opp_side (turn p)).
Definition in_check (p : position) : bool := square_attacked p (king_position p (turn p)) (opp_side (turn p)).

(* ---------------- squares_attacked.cpp ---------------- *)
Definition or_over (l : list N) (f : N -> N) (acc : N) : N := fold_left (fun a sq => N.lor a (f sq)) l acc.

Definition squares_attacked (p : position) (s : side) : N :=
  let pawns := pieces p s Pawn in
  let m0 := match s with
            | White => N.lor (east (north pawns)) (west (north pawns))
            | Black => N.lor (east (south pawns)) (west (south pawns))
            end in
  let occ := not64 (empty_sqs p) in
  let m1 := or_over (bb_squares (pieces p s Knight)) knight_moves m0 in
  let m2 := or_over (bb_squares (pieces p s Bishop)) (fun fr => bishop_moves fr occ) m1 in
  let m3 := or_over (bb_squares (pieces p s Rook)) (fun fr => rook_moves fr occ) m2 in
  let m4 := or_over (bb_squares (pieces p s Queen)) (fun fr => queen_moves fr occ) m3 in
  N.lor m4 (king_moves (king_position p s)).

(* ---------------- king_allowed.cpp ---------------- *)
Definition king_allowed_s (p : position) (s : side) : N :=
  let blockers := N.lxor (not64 (empty_sqs p)) (bit (king_position p s)) in
  let them := opp_side s in
  let pawns := pieces p them Pawn in
  let m0 := match s with
            | White => N.lor (east (south pawns)) (west (south pawns))
            | Black => N.lor (east (north pawns)) (west (north pawns))
            end in
  let m1 := or_over (bb_squares (pieces p them Knight)) knight_moves m0 in
  let m2 := or_over (bb_squares (pieces p them Bishop)) (fun fr => bishop_moves fr blockers) m1 in
  let m3 := or_over (bb_squares (pieces p them Rook)) (fun fr => rook_moves fr blockers) m2 in
  let m4 := or_over (bb_squares (pieces p them Queen)) (fun fr => queen_moves fr blockers) m3 in
  let m5 := N.lor m4 (king_moves (king_position p them)) in
  let m6 := N.lor m5 (occupancy_s p s) in
  let m7 := N.lor m6 (bit (king_position p them)) in
  not64 m7.
Definition king_allowed (p : position) : N := king_allowed_s p (turn p).

(* ---------------- pinned.cpp (repaired: enemy sliders of the queried side) ---------------- *)
(* [enemy] is the side whose sliders are looked for: opp_side s after the repair, opp_side (turn p) before. *)
Definition pinned_gen (p : position) (enemy : side) (s : side) (sq : N) : N :=
  let occ := occupied p in
  let before := N.lor (rook_moves sq occ) (bishop_moves sq occ) in
  let bish := fold_left (fun pinned nsq =>
      let bb := bit nsq in
      let blockers := N.lxor occ bb in
      let discovery := bishop_moves sq blockers in
      let diff := N.land (N.land blockers discovery) (not64 before) in
      let att := N.land diff (N.lor (pieces p enemy Bishop) (pieces p enemy Queen)) in
      if bb_nonempty att then N.lor pinned bb else pinned)
    (bb_squares (N.land (bishop_moves sq occ) (occupancy_s p s))) 0 in
  fold_left (fun pinned nsq =>
      let bb := bit nsq in
      let blockers := N.lxor occ bb in
      let discovery := rook_moves sq blockers in
      let diff := N.land (N.land blockers discovery) (not64 before) in
      let att := N.land diff (N.lor (pieces p enemy Rook) (pieces p enemy Queen)) in
      if bb_nonempty att then N.lor pinned bb else pinned)
    (bb_squares (N.land (rook_moves sq occ) (occupancy_s p s))) bish.
Definition pinned_s_sq (p : position) (s : side) (sq : N) : N := pinned_gen p (opp_side s) s sq.
Definition pinned_s (p : position) (s : side) : N := pinned_s_sq p s (king_position p s).
Definition pinned (p : position) : N := pinned_s_sq p (turn p) (king_position p (turn p)).
(* the pinned tree before "fix: pinned(Side) ..." (D3) *)
Definition pinned_s_orig (p : position) (s : side) : N := pinned_gen p (opp_side (turn p)) s (king_position p s).

(* ---------------- passed_pawns (position.hpp) ---------------- *)
Definition passed_pawns_s (p : position) (s : side) : N :=
  let m0 := pieces p (opp_side s) Pawn in
  let m := match s with
    | White =>
      let m1 := N.lor m0 (east (south m0)) in
      let m2 := N.lor m1 (west (south m1)) in
      let m3 := N.lor m2 (south m2) in let m4 := N.lor m3 (south m3) in
      let m5 := N.lor m4 (south m4) in let m6 := N.lor m5 (south m5) in
      N.lor m6 (south m6)
    | Black =>
      let m1 := N.lor m0 (east (north m0)) in
      let m2 := N.lor m1 (west (north m1)) in
      let m3 := N.lor m2 (north m2) in let m4 := N.lor m3 (north m3) in
      let m5 := N.lor m4 (north m4) in let m6 := N.lor m5 (north m5) in
      N.lor m6 (north m6)
    end in
  N.land (pieces p s Pawn) (not64 m).
Definition passed_pawns (p : position) : N := passed_pawns_s p (turn p).

(* ---------------- calculate_hash ---------------- *)
Section Hash.
Variable K : zkeys.
Definition xor_keys (pc : piece) (s : side) (l : list N) (h : N) : N :=
  fold_left (fun a sq => N.lxor a (piece_key K pc s sq)) l h.
Definition hash_side (p : position) (s : side) (h : N) : N :=
  let h := xor_keys Pawn s (bb_squares (pieces p s Pawn)) h in
  let h := xor_keys Knight s (bb_squares (pieces p s Knight)) h in
  let h := xor_keys Bishop s (bb_squares (pieces p s Bishop)) h in
  let h := xor_keys Rook s (bb_squares (pieces p s Rook)) h in
  let h := xor_keys Queen s (bb_squares (pieces p s Queen)) h in
  xor_keys King s (bb_squares (pieces p s King)) h.
Definition calculate_hash (p : position) : N :=
  let h := match turn p with Black => turn_key K | White => 0 end in
  let h := hash_side p White h in
  let h := hash_side p Black h in
  let h := if c0 p then N.lxor h (castling_key K 0) else h in
  let h := if c1 p then N.lxor h (castling_key K 1) else h in
  let h := if c2 p then N.lxor h (castling_key K 2) else h in
  let h := if c3 p then N.lxor h (castling_key K 3) else h in
  if negb (ep p =? OffSq) then N.lxor h (ep_key K (ep p)) else h.

(* ---------------- valid.cpp ---------------- *)
Definition pairwise_disjoint (l : list N) : bool :=
  (fix go l := match l with [] => true | x :: r => forallb (fun y => bb_empty (N.land x y)) r && go r end) l.

Definition valid (p : position) : bool :=
  let b := brd p in
  (hash p =? calculate_hash p) &&
  (if negb (ep p =? OffSq)
   then match turn p with White => sq_rank (ep p) =? 5 | Black => sq_rank (ep p) =? 2 end
   else true) &&
  (bb_count (pieces p White King) =? 1) &&
  (bb_count (pieces p Black King) =? 1) &&
  bb_empty (N.land (b_white b) (b_black b)) &&
  bb_empty (N.land (b_pawn b) (N.lor Rank1 Rank8)) &&
  pairwise_disjoint [b_pawn b; b_knight b; b_bishop b; b_rook b; b_queen b; b_king b] &&
  (N.lor (b_white b) (b_black b) =?
   N.lor (N.lor (N.lor (N.lor (N.lor (b_pawn b) (b_knight b)) (b_bishop b)) (b_rook b)) (b_queen b)) (b_king b)) &&
  negb (square_attacked p (king_position p (opp_side (turn p))) (turn p)) &&
  (if c0 p then bb_nonempty (N.land (bit (king_position p White)) Rank1) && piece_eqb (piece_on p (r0 p)) Rook else true) &&
  (if c1 p then bb_nonempty (N.land (bit (king_position p White)) Rank1) && piece_eqb (piece_on p (r1 p)) Rook else true) &&
  (if c2 p then bb_nonempty (N.land (bit (king_position p Black)) Rank8) && piece_eqb (piece_on p (r2 p)) Rook else true) &&
  (if c3 p then bb_nonempty (N.land (bit (king_position p Black)) Rank8) && piece_eqb (piece_on p (r3 p)) Rook else true).
End Hash.
