(* Properties_C01.v — legal move generation is exact.   STATUS: FULL (for the model M).
   THE statement (proved below as C01_legal_moves_exact, no axioms): for every position p that satisfies the
   representation invariant (wf), whose stored castling-rook squares are squares (rooks_ok) and whose abstraction is
   legal-consistent in either mode,
       NoDup (legal_moves p)  /\  forall m, In m (legal_moves p) <-> In m (spec_moves (abs p))
   — none missing, none extra, none twice, all six labels right (a move is the record of its six fields; spec_moves is
   the mailbox rule set of Spec/Rules.v: pseudo-legal candidates filtered by "own king not attacked afterwards").
   Proof structure: double check (LegalFacts.double_check_exact); otherwise the generators split into named parts
   (LegalCore.legal_moves_parts) and each class of move is exact: king steps (KingFacts), knights/bishops/rooks/queens
   incl. pinned sliders (PinScanFacts, PieceExact, OfficerExact), pawn pushes and captures (PawnExact), en passant
   (EpExact), castling incl. Chess960 (CastleExact); no repetition (NoDupFacts); assembly LegalExact + LegalFinal.
   The domain is closed under legal play (C01_domain_closed, LcStep), so the statement holds at every position reachable
   by legal moves from a legal-consistent start.
   Also, for EVERY position (no hypothesis): legal_moves = captures ++ non-captures; the vector overloads append;
   count_moves is the length; is_legal m <-> membership; labels and capture/non-capture types of emitted moves. *)
From Coq Require Import NArith List Bool.
From LC Require Import Bits Types BitboardModel MoveModel PositionModel MovegenModel MakeFacts MovegenFacts Spec.Rules Refine.Abs Refine.MakeAbs KingFacts LegalFacts MakeModel LegalFinal.
Import ListNotations.
Local Open Scope N_scope.

Theorem C01_legal_moves_exact : forall dfrc p, wf p = true -> rooks_ok p -> legal_consistent dfrc (abs p) = true ->
  NoDup (legal_moves p) /\ forall m, In m (legal_moves p) <-> In m (spec_moves (abs p)).
Proof. exact legal_moves_exact. Qed.
Theorem C01_permutation : forall dfrc p, wf p = true -> rooks_ok p -> legal_consistent dfrc (abs p) = true ->
  Permutation.Permutation (legal_moves p) (spec_moves (abs p)).
Proof. exact legal_moves_permutation. Qed.
Theorem C01_count_moves_rules : forall dfrc p, wf p = true -> rooks_ok p -> legal_consistent dfrc (abs p) = true ->
  count_moves p = N.of_nat (length (spec_moves (abs p))).
Proof. exact count_moves_rules. Qed.
Theorem C01_is_legal_rules : forall dfrc p m, wf p = true -> rooks_ok p -> legal_consistent dfrc (abs p) = true ->
  is_legal p m = spec_legal (abs p) m.
Proof. exact is_legal_rules. Qed.
(* the hypotheses are an invariant of legal play: every move of the generated list leads to a position of the domain,
   and the model's successor is the rules' successor *)
Theorem C01_domain_closed : forall K dfrc p m, wf p = true -> rooks_ok p -> legal_consistent dfrc (abs p) = true -> In m (legal_moves p) ->
  wf (makemove K p m) = true /\ rooks_ok (makemove K p m) /\ legal_consistent dfrc (abs (makemove K p m)) = true /\
  abs (makemove K p m) = apply_move (abs p) m.
Proof. exact domain_closed. Qed.

Theorem C01_split : forall p, legal_moves p = legal_captures p ++ legal_noncaptures p.
Proof. exact legal_moves_split. Qed.
Theorem C01_into_appends : forall p v, legal_moves_into p v = v ++ legal_moves p.
Proof. exact legal_moves_into_appends. Qed.
Theorem C01_captures_into_appends : forall p v, legal_captures_into p v = v ++ legal_captures p.
Proof. reflexivity. Qed.
Theorem C01_noncaptures_into_appends : forall p v, legal_noncaptures_into p v = v ++ legal_noncaptures p.
Proof. reflexivity. Qed.
Theorem C01_count : forall p, count_moves p = N.of_nat (length (legal_moves p)).
Proof. exact count_moves_length. Qed.
Theorem C01_is_legal : forall p m, is_legal p m = true <-> In m (legal_moves p).
Proof. exact is_legal_iff. Qed.
Theorem C01_labels : forall p m, In m (legal_moves p) -> emitted_ok p m.
Proof. exact legal_moves_emitted_ok. Qed.
Theorem C01_capture_types : forall p m, In m (legal_captures p) -> is_capturing m = true.
Proof. exact legal_captures_capturing. Qed.
Theorem C01_noncapture_types : forall p m, In m (legal_noncaptures p) -> is_capturing m = false.
Proof. exact legal_noncaptures_quiet. Qed.

(* MILESTONE 1 (king steps): check_evasions() returns only moves that are legal under the rules and every legal king
   step (king moves other than castling), none twice — on every legal-consistent position, both modes.  By the same
   characterisation the king part of legal_captures / legal_noncaptures is exact (KingFacts.king_target_spec). *)
Theorem C01_check_evasions_exact : forall dfrc p m, wf p = true -> legal_consistent dfrc (abs p) = true ->
  (In m (check_evasions p) <-> (In m (spec_moves (abs p)) /\ is_king_step m = true)).
Proof. exact check_evasions_exact_lc. Qed.
Theorem C01_check_evasions_nodup : forall p, NoDup (check_evasions p).
Proof. exact check_evasions_nodup. Qed.

(* MILESTONE 2 (double check): when checkers() has more than one member, legal_moves() is — as a list without
   repetition — exactly the legal moves of the rules: no piece other than the king can move (a non-king move cannot
   remove two checkers: LegalFacts.simple_move_unsafe; nor can en passant: ep_cannot_resolve; castling is excluded),
   and the king part is milestone 1. *)
Theorem C01_double_check_exact : forall dfrc p, wf p = true -> rooks_ok p -> legal_consistent dfrc (abs p) = true ->
  (1 <? bb_count (checkers p)) = true ->
  NoDup (legal_moves p) /\ forall m, In m (legal_moves p) <-> In m (spec_moves (abs p)).
Proof. exact double_check_exact. Qed.

Print Assumptions C01_is_legal_rules. Print Assumptions C01_legal_moves_exact. Print Assumptions C01_permutation. Print Assumptions C01_count_moves_rules. Print Assumptions C01_domain_closed.
Print Assumptions C01_double_check_exact.
Print Assumptions C01_check_evasions_exact. Print Assumptions C01_check_evasions_nodup.
Print Assumptions C01_split. Print Assumptions C01_into_appends. Print Assumptions C01_count.
Print Assumptions C01_is_legal. Print Assumptions C01_labels. Print Assumptions C01_capture_types.
Print Assumptions C01_noncapture_types.
