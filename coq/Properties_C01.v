(* Properties_C01.v — legal move generation is exact.   STATUS: FULL (for the model M).
   THE statement (proved below as C01_legal_moves_exact, no axioms): for every position p that satisfies the
   representation invariant (wf), whose stored castling-rook squares are squares (rooks_ok) and whose abstraction is
   legal-consistent in either mode,
       NoDup (legal_moves p)  /\  forall m, In m (legal_moves p) <-> In m (spec_moves (abs p))
   — none missing, none extra, none twice, all six labels right (a move is the record of its six fields; spec_moves is
   the mailbox rule set of Spec/Rules.v: pseudo-legal candidates filtered by "own king not attacked afterwards").
   Proof structure: double check (LegalFacts.double_check_exact); otherwise the generators split into named parts
   (LegalCore.legal_moves_parts) and each class of move is exact: king steps (KingFacts), knights/bishops/rooks/queens
   incl. pinned sliders (PinScanFacts, PieceExact, OfficerExact), pawn pushes and captures (PawnExact), en passant
   (EpExact), castling incl. Chess960 (CastleExact); no repetition (NoDupFacts); assembly LegalExact + LegalFinal.
   The domain is closed under legal play (C01_domain_closed, LcStep), so the statement holds at every position reachable
   by legal moves from a legal-consistent start.
   Also, for EVERY position (no hypothesis): legal_moves = captures ++ non-captures; the vector overloads append;
   count_moves is the length; is_legal m <-> membership; labels and capture/non-capture types of emitted moves. *)
From Coq Require Import NArith List Bool.
From LC Require Import Bits Types BitboardModel MoveModel PositionModel MovegenModel MakeFacts MovegenFacts Spec.Rules Spec.Fen Spec.Game Refine.Abs Refine.MakeAbs KingFacts LegalFacts MakeModel FenModel GameModel ZobristModel LegalFinal FenRoundTrip ValidExact Capstone.
Import ListNotations.
Local Open Scope N_scope.

Theorem C01_legal_moves_exact : forall dfrc p, wf p = true -> rooks_ok p -> legal_consistent dfrc (abs p) = true ->
  NoDup (legal_moves p) /\ forall m, In m (legal_moves p) <-> In m (spec_moves (abs p)).
Proof. exact legal_moves_exact. Qed.
Theorem C01_permutation : forall dfrc p, wf p = true -> rooks_ok p -> legal_consistent dfrc (abs p) = true ->
  Permutation.Permutation (legal_moves p) (spec_moves (abs p)).
Proof. exact legal_moves_permutation. Qed.
Theorem C01_count_moves_rules : forall dfrc p, wf p = true -> rooks_ok p -> legal_consistent dfrc (abs p) = true ->
  count_moves p = N.of_nat (length (spec_moves (abs p))).
Proof. exact count_moves_rules. Qed.
Theorem C01_is_legal_rules : forall dfrc p m, wf p = true -> rooks_ok p -> legal_consistent dfrc (abs p) = true ->
  is_legal p m = spec_legal (abs p) m.
Proof. exact is_legal_rules. Qed.
(* the hypotheses are an invariant of legal play: every move of the generated list leads to a position of the domain,
   and the model's successor is the rules' successor *)
Theorem C01_domain_closed : forall K dfrc p m, wf p = true -> rooks_ok p -> legal_consistent dfrc (abs p) = true -> In m (legal_moves p) ->
  wf (makemove K p m) = true /\ rooks_ok (makemove K p m) /\ legal_consistent dfrc (abs (makemove K p m)) = true /\
  abs (makemove K p m) = apply_move (abs p) m.
Proof. exact domain_closed. Qed.

(* END TO END (Capstone.v): no hypothesis about the model is left.  Load ANY well-formed six-field FEN whose position —
   as the specification's own decoder reads it — is legal-consistent; then at EVERY point of EVERY history of generated
   moves, null moves (out of check) and undos the library's answers are the rules' answers: the move list, perft at every
   depth, hash, valid(), parse_move, is_legal, check / mate / stalemate, the FEN round trip, and each step is the rules'
   step (shist: the specification reaches abs p by the same operations). *)
Theorem C01_end_to_end : forall K dfrc ranks T C E H F s0,
  length ranks = 8%nat -> Forall rank_ok ranks -> T <> [] -> vis T -> C <> [] -> vis C -> ep_word_ok E ->
  digits H -> H <> [] -> digits F -> F <> [] ->
  let fen := join 32 [join 47 ranks; T; C; E; H; F] in
  of_fen dfrc fen = Some s0 -> legal_consistent dfrc s0 = true ->
  let p0 := set_fen K fen dfrc in
  abs p0 = s0 /\ history p0 = [] /\
  forall p st, hist K p0 p st ->
    (NoDup (legal_moves p) /\ (forall m, In m (legal_moves p) <-> In m (spec_moves (abs p)))) /\
    (forall d, fst (perft K d p) = spec_perft d (abs p) /\ snd (perft K d p) = p) /\
    hash p = calculate_hash K p /\ valid K p = true /\
    (forall m, In m (legal_moves p) -> parse_move p (move_text m) = Some m) /\
    (forall m, is_legal p m = spec_legal (abs p) m) /\
    in_check p = spec_in_check (abs p) /\
    is_checkmate p = spec_checkmate (abs p) /\ is_stalemate p = spec_stalemate (abs p) /\
    (let q := set_fen K (get_fen p dfrc) dfrc in abs q = abs p /\ get_fen q dfrc = get_fen p dfrc) /\
    (forall m, In m (legal_moves p) -> abs (makemove K p m) = apply_move (abs p) m /\ undomove (makemove K p m) = p) /\
    (in_check p = false -> abs (makenull K p) = apply_null (abs p) /\ undonull (makenull K p) = p) /\
    legal_consistent dfrc (abs p) = true /\ shist s0 (abs p) (map (fun x => abs (fst x)) st) /\ length (history p) = length st.
Proof. exact end_to_end. Qed.
(* the standard start position (and the keyword "startpos") is such a start, for any keys and either mode; and from it the
   library's perft is 20, 400, 8902 *)
Theorem C01_startpos_in_domain : forall K d, let p := set_fen K startpos_fen false in
  dom K d p /\ history p = [] /\ abs p = start_spos /\ valid K p = true.
Proof. exact startpos_in_domain. Qed.
Theorem C01_startpos_perft : forall K, let p0 := set_fen K startpos_fen false in
  fst (perft K 1 p0) = 20 /\ fst (perft K 2 p0) = 400 /\ fst (perft K 3 p0) = 8902.
Proof. exact startpos_perft. Qed.
Print Assumptions C01_end_to_end. Print Assumptions C01_startpos_in_domain. Print Assumptions C01_startpos_perft.

Theorem C01_split : forall p, legal_moves p = legal_captures p ++ legal_noncaptures p.
Proof. exact legal_moves_split. Qed.
Theorem C01_into_appends : forall p v, legal_moves_into p v = v ++ legal_moves p.
Proof. exact legal_moves_into_appends. Qed.
Theorem C01_captures_into_appends : forall p v, legal_captures_into p v = v ++ legal_captures p.
Proof. reflexivity. Qed.
Theorem C01_noncaptures_into_appends : forall p v, legal_noncaptures_into p v = v ++ legal_noncaptures p.
Proof. reflexivity. Qed.
Theorem C01_count : forall p, count_moves p = N.of_nat (length (legal_moves p)).
Proof. exact count_moves_length. Qed.
Theorem C01_is_legal : forall p m, is_legal p m = true <-> In m (legal_moves p).
Proof. exact is_legal_iff. Qed.
Theorem C01_labels : forall p m, In m (legal_moves p) -> emitted_ok p m.
Proof. exact legal_moves_emitted_ok. Qed.
Theorem C01_capture_types : forall p m, In m (legal_captures p) -> is_capturing m = true.
Proof. exact legal_captures_capturing. Qed.
Theorem C01_noncapture_types : forall p m, In m (legal_noncaptures p) -> is_capturing m = false.
Proof. exact legal_noncaptures_quiet. Qed.

(* MILESTONE 1 (king steps): check_evasions() returns only moves that are legal under the rules and every legal king
   step (king moves other than castling), none twice — on every legal-consistent position, both modes.  By the same
   characterisation the king part of legal_captures / legal_noncaptures is exact (KingFacts.king_target_spec). *)
Theorem C01_check_evasions_exact : forall dfrc p m, wf p = true -> legal_consistent dfrc (abs p) = true ->
  (In m (check_evasions p) <-> (In m (spec_moves (abs p)) /\ is_king_step m = true)).
Proof. exact check_evasions_exact_lc. Qed.
Theorem C01_check_evasions_nodup : forall p, NoDup (check_evasions p).
Proof. exact check_evasions_nodup. Qed.

(* MILESTONE 2 (double check): when checkers() has more than one member, legal_moves() is — as a list without
   repetition — exactly the legal moves of the rules: no piece other than the king can move (a non-king move cannot
   remove two checkers: LegalFacts.simple_move_unsafe; nor can en passant: ep_cannot_resolve; castling is excluded),
   and the king part is milestone 1. *)
Theorem C01_double_check_exact : forall dfrc p, wf p = true -> rooks_ok p -> legal_consistent dfrc (abs p) = true ->
  (1 <? bb_count (checkers p)) = true ->
  NoDup (legal_moves p) /\ forall m, In m (legal_moves p) <-> In m (spec_moves (abs p)).
Proof. exact double_check_exact. Qed.

Print Assumptions C01_is_legal_rules. Print Assumptions C01_legal_moves_exact. Print Assumptions C01_permutation. Print Assumptions C01_count_moves_rules. Print Assumptions C01_domain_closed.
Print Assumptions C01_double_check_exact.
Print Assumptions C01_check_evasions_exact. Print Assumptions C01_check_evasions_nodup.
Print Assumptions C01_split. Print Assumptions C01_into_appends. Print Assumptions C01_count.
Print Assumptions C01_is_legal. Print Assumptions C01_labels. Print Assumptions C01_capture_types.
Print Assumptions C01_noncapture_types.
