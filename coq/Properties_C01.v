(* Properties_C01.v — legal move generation is exact.   STATUS: PARTIAL.
   Full statement (the target; NOT proved here, decided by the correspondence against the specification's
   [spec_moves] on every explored position):
     forall p dfrc, wf p -> legal_consistent dfrc (abs p) = true ->
       Permutation (legal_moves p) (spec_moves (abs p))       (none missing, none extra, none twice, six labels)
   Proved below, for EVERY position (no hypothesis), about the generated lists themselves:
     - legal_moves = legal_captures ++ legal_noncaptures; the vector overloads append to any caller's vector;
       count_moves is the length; is_legal m <-> membership
     - every emitted move carries consistent labels (promotions are pawn moves, castling moves are king moves
       onto the stored rook square, double pushes land on the fourth/fifth rank), captures are exactly the
       capturing types, non-captures exactly the others;
     - MILESTONE 1: check_evasions() = exactly the legal king steps of the rules (on legal-consistent positions);
     - MILESTONE 2: in DOUBLE CHECK the full statement holds: legal_moves p has no repetition and exactly the members
       of spec_moves (abs p). *)
From Coq Require Import NArith List Bool.
From LC Require Import Bits Types BitboardModel MoveModel PositionModel MovegenModel MakeFacts MovegenFacts Spec.Rules Refine.Abs Refine.MakeAbs KingFacts LegalFacts.
Import ListNotations.
Local Open Scope N_scope.

Theorem C01_partial_split : forall p, legal_moves p = legal_captures p ++ legal_noncaptures p.
Proof. exact legal_moves_split. Qed.
Theorem C01_partial_into_appends : forall p v, legal_moves_into p v = v ++ legal_moves p.
Proof. exact legal_moves_into_appends. Qed.
Theorem C01_partial_captures_into_appends : forall p v, legal_captures_into p v = v ++ legal_captures p.
Proof. reflexivity. Qed.
Theorem C01_partial_noncaptures_into_appends : forall p v, legal_noncaptures_into p v = v ++ legal_noncaptures p.
Proof. reflexivity. Qed.
Theorem C01_partial_count : forall p, count_moves p = N.of_nat (length (legal_moves p)).
Proof. exact count_moves_length. Qed.
Theorem C01_partial_is_legal : forall p m, is_legal p m = true <-> In m (legal_moves p).
Proof. exact is_legal_iff. Qed.
Theorem C01_partial_labels : forall p m, In m (legal_moves p) -> emitted_ok p m.
Proof. exact legal_moves_emitted_ok. Qed.
Theorem C01_partial_capture_types : forall p m, In m (legal_captures p) -> is_capturing m = true.
Proof. exact legal_captures_capturing. Qed.
Theorem C01_partial_noncapture_types : forall p m, In m (legal_noncaptures p) -> is_capturing m = false.
Proof. exact legal_noncaptures_quiet. Qed.

(* MILESTONE 1 (king steps): check_evasions() returns only moves that are legal under the rules and every legal king
   step (king moves other than castling), none twice — on every legal-consistent position, both modes.  By the same
   characterisation the king part of legal_captures / legal_noncaptures is exact (KingFacts.king_target_spec). *)
Theorem C01_partial_check_evasions_exact : forall dfrc p m, wf p = true -> legal_consistent dfrc (abs p) = true ->
  (In m (check_evasions p) <-> (In m (spec_moves (abs p)) /\ is_king_step m = true)).
Proof. exact check_evasions_exact_lc. Qed.
Theorem C01_partial_check_evasions_nodup : forall p, NoDup (check_evasions p).
Proof. exact check_evasions_nodup. Qed.

(* MILESTONE 2 (double check): when checkers() has more than one member, legal_moves() is — as a list without
   repetition — exactly the legal moves of the rules: no piece other than the king can move (a non-king move cannot
   remove two checkers: LegalFacts.simple_move_unsafe; nor can en passant: ep_cannot_resolve; castling is excluded),
   and the king part is milestone 1. *)
Theorem C01_partial_double_check_exact : forall dfrc p, wf p = true -> rooks_ok p -> legal_consistent dfrc (abs p) = true ->
  (1 <? bb_count (checkers p)) = true ->
  NoDup (legal_moves p) /\ forall m, In m (legal_moves p) <-> In m (spec_moves (abs p)).
Proof. exact double_check_exact. Qed.

Print Assumptions C01_partial_double_check_exact.
Print Assumptions C01_partial_check_evasions_exact. Print Assumptions C01_partial_check_evasions_nodup.
Print Assumptions C01_partial_split. Print Assumptions C01_partial_into_appends. Print Assumptions C01_partial_count.
Print Assumptions C01_partial_is_legal. Print Assumptions C01_partial_labels. Print Assumptions C01_partial_capture_types.
Print Assumptions C01_partial_noncapture_types.
