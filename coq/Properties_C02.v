(* Properties_C02.v — makemove applies exactly the rules of chess to the whole position state.
   [abs] reads a model position square by square into the specification's mailbox position; [apply_move]
   is the successor prescribed by the rules (Spec/Rules.v): placement incl. the removed en-passant pawn, the
   promoted piece and both castling destinations from any Chess960 files, side to move, the four rights and
   their rook squares, ep square, half-move clock, full-move number.  wf = the structural half of valid().
   [mfits] is the shape of a move with respect to the mailbox (mover on its origin, destination empty or
   holding the labelled enemy piece, ep victim / castling king and rook where labelled).
   The refinement is proved for every move of that shape, and every RULE-LEGAL move of a legal-consistent
   position has that shape (Refine.SpecFits.spec_moves_fit): C02_every_legal_move is the property's statement.
   Statements only. *)
From Coq Require Import NArith List Bool.
From LC Require Import Bits Types BitboardModel MoveModel ZobristModel PositionModel MakeModel GameModel
  Spec.Rules Refine.Abs Refine.Board Refine.Make Refine.Wf Refine.MakeAbs Refine.SpecFits CounterWrap.
Import ListNotations.
Local Open Scope N_scope.

Theorem C02_makemove_refines : forall K p m,
  wf p = true -> rooks_ok p ->
  mfits (cell_of p) (turn p) m (rook_from_get p (side_to_N (turn p) * 2)) (rook_from_get p (side_to_N (turn p) * 2 + 1)) ->
  abs (makemove K p m) = apply_move (abs p) m /\ wf (makemove K p m) = true.
Proof. exact makemove_refines. Qed.

(* ... in particular for every move that is legal under the rules in a legal-consistent position (either mode) *)
Theorem C02_every_legal_move : forall K dfrc p m,
  wf p = true -> rooks_ok p -> legal_consistent dfrc (abs p) = true -> In m (spec_moves (abs p)) ->
  abs (makemove K p m) = apply_move (abs p) m /\ wf (makemove K p m) = true.
Proof. exact (fun K dfrc p m Hwf Hr Hlc Hin => makemove_refines K p m Hwf Hr (spec_moves_fit dfrc p m Hr Hlc Hin)). Qed.

(* makenull only passes the turn: placement, rights and full-move number stay, the ep square is cleared *)
Theorem C02_makenull_refines : forall K p, abs (makenull K p) = apply_null (abs p) /\ (wf p = true -> wf (makenull K p) = true).
Proof. exact makenull_refines. Qed.

(* makemove(text) behaves as makemove(parse_move(text)) *)
Theorem C02_makemove_text : forall K p s, makemove_str K p s = option_map (makemove K p) (parse_move p s).
Proof. reflexivity. Qed.

Print Assumptions C02_makemove_refines. Print Assumptions C02_every_legal_move. Print Assumptions C02_makenull_refines. Print Assumptions C02_makemove_text.

(* the full-move number on the machine: the C++ std::size_t counter is the model's unbounded counter mod 2^64, and
   makemove / makenull act on it as the wrapping machine increment / not at all — also at 2^64-1 (CounterWrap.v) *)
Theorem C02_fullmove_machine_step : forall K p m, wrap64 (fullmove (makemove K p m)) = mach_inc (wrap64 (fullmove p)) (black_moves p).
Proof. exact makemove_fullmove_wraps. Qed.
Theorem C02_fullmove_machine_null : forall K p, wrap64 (fullmove (makenull K p)) = wrap64 (fullmove p).
Proof. exact makenull_fullmove_wraps. Qed.
Theorem C02_fullmove_machine_history : forall K ms p,
  wrap64 (fullmove (fold_left (makemove K) ms p)) = mach_trace K (wrap64 (fullmove p)) p ms.
Proof. exact run_fullmove_wraps. Qed.
Print Assumptions C02_fullmove_machine_history.
Print Assumptions C02_fullmove_machine_step. Print Assumptions C02_fullmove_machine_null.
