(* Properties_C03.v — undomove/undonull restore the previous position bit for bit, to any depth.
   Equality below is equality of the WHOLE model state: the eight bitboards, both clocks, ep square, hash,
   the four rights, the four rook squares, side to move and the history list.  No legality and no board
   invariant is assumed: the XOR toggles are self-inverse and the scalars come back from the pushed record.
   [move_fields_ok] names the only two places where makemove and undomove read different sources
   (promotions: pieces_[Pawn] vs pieces_[move.piece()]; king-side castling: castle_rooks_from_ vs move.to());
   every move the generators emit satisfies it (MovegenFacts.legal_moves_fields_ok).  Statements only. *)
From Coq Require Import NArith List Bool.
From LC Require Import Bits Types BitboardModel MoveModel ZobristModel PositionModel MovegenModel MakeModel MakeFacts MovegenFacts ValidExact CounterWrap.
Import ListNotations.
Local Open Scope N_scope.

Theorem C03_undo_make : forall K p m, move_fields_ok p m -> undomove (makemove K p m) = p.
Proof. exact undo_make. Qed.
Theorem C03_undonull_makenull : forall K p, undonull (makenull K p) = p.
Proof. exact undonull_makenull. Qed.

(* every LIFO-balanced interleaving of make / null / undo / undonull, of any length, is the identity on the
   whole state: hence every query — a function of the state — answers as before at every matched point *)
Theorem C03_balanced_histories : forall K w, balanced w -> forall p, ok_run K p w -> run K w p = p.
Proof. exact balanced_restores. Qed.

(* the hypothesis is met by every move of every generated list, in any position *)
Theorem C03_generated_moves_ok : forall p m, In m (legal_moves p) -> move_fields_ok p m.
Proof. exact legal_moves_fields_ok. Qed.
Theorem C03_undo_generated : forall K p m, In m (legal_moves p) -> undomove (makemove K p m) = p.
Proof. exact (fun K p m H => undo_make K p m (legal_moves_fields_ok p m H)). Qed.

(* run level, on the property's domain: in every history of generated moves, null moves (out of check) and undos from a
   start position of the domain, each undo returns EXACTLY the earlier position (whole record, history included), and
   when everything is undone the start position is back *)
Theorem C03_history_undo_exact : forall K dfrc p0 p q st, dom K dfrc p0 -> hist K p0 p ((q, ByMove) :: st) -> undomove p = q /\ hist K p0 q st.
Proof. exact hist_undo_exact. Qed.
Theorem C03_history_undonull_exact : forall K dfrc p0 p q st, dom K dfrc p0 -> hist K p0 p ((q, ByNull) :: st) -> undonull p = q /\ hist K p0 q st.
Proof. exact hist_undonull_exact. Qed.
Theorem C03_all_undone : forall K dfrc p0 p, dom K dfrc p0 -> hist K p0 p [] -> p = p0.
Proof. exact hist_all_undone. Qed.
Print Assumptions C03_history_undo_exact. Print Assumptions C03_history_undonull_exact. Print Assumptions C03_all_undone.

Print Assumptions C03_undo_make. Print Assumptions C03_undonull_makenull. Print Assumptions C03_balanced_histories.
Print Assumptions C03_generated_moves_ok. Print Assumptions C03_undo_generated.

(* the full-move number is a std::size_t in the C++ (wrapping) and an unbounded N in the model: the C++ counter is the
   model's counter mod 2^64 (that is what the correspondence compares), makemove's step is simulated by the machine's
   wrapping increment, and the machine's increment / decrement pair is exact at EVERY 64-bit value, 2^64-1 included
   (CounterWrap.v; a guard against the wrap on one side only breaks it: saturating_make_breaks_undo) *)
Theorem C03_fullmove_machine_step : forall K p m, wrap64 (fullmove (makemove K p m)) = mach_inc (wrap64 (fullmove p)) (black_moves p).
Proof. exact makemove_fullmove_wraps. Qed.
Theorem C03_fullmove_machine_undo_exact : forall K p m, mach_dec (wrap64 (fullmove (makemove K p m))) (black_moves p) = wrap64 (fullmove p).
Proof. exact undo_make_fullmove_wraps. Qed.
Theorem C03_machine_counter_pair_exact : forall c b, c < W64 -> b <= 1 -> mach_dec (mach_inc c b) b = c.
Proof. exact mach_dec_inc. Qed.
Print Assumptions C03_fullmove_machine_step. Print Assumptions C03_fullmove_machine_undo_exact. Print Assumptions C03_machine_counter_pair_exact.
