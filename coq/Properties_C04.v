(* Properties_C04.v — perft(d) counts the leaves of the generated move tree; the position is left unchanged.
   Proved for EVERY position and depth, with no hypothesis: perft returns the object exactly as it was
   (whole state, history included); perft(0) = 1; perft(d+1) = sum over the generated moves m of perft(d)
   after makemove(m) (the depth-1 shortcut count_moves agrees with the recurrence).
   STATUS: PARTIAL with respect to the property: "generated moves = the legal moves of the rules" is C01
   (decided by correspondence); agreement with the independent rules implementation [spec_perft] and the
   published tables is checked by the correspondence.  Statements only. *)
From Coq Require Import NArith List Bool.
From LC Require Import Bits Types BitboardModel MoveModel ZobristModel PositionModel MovegenModel MakeModel GameModel GameFacts.
Import ListNotations.
Local Open Scope N_scope.

Theorem C04_position_unchanged : forall K d p, snd (perft K d p) = p.
Proof. exact perft_restores. Qed.
Theorem C04_depth_zero : forall K p, fst (perft K 0 p) = 1.
Proof. exact perft_zero. Qed.
Theorem C04_recurrence : forall K d p,
  fst (perft K (S d) p) = fold_right (fun m s => fst (perft K d (makemove K p m)) + s) 0 (legal_moves p).
Proof. exact perft_recurrence. Qed.

Print Assumptions C04_position_unchanged. Print Assumptions C04_depth_zero. Print Assumptions C04_recurrence.
