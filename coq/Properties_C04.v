(* Properties_C04.v — perft(d) counts the legal move sequences of the rules; the position is left unchanged.
   STATUS: FULL (for the model M).  Proved with no hypothesis: perft returns the object exactly as it was (whole
   state, history included); perft(0) = 1; perft(d+1) = sum over the generated moves m of perft(d) after makemove(m).
   Proved on the property's domain (wf, rooks_ok, legal-consistent, either mode), for every depth:
       fst (perft K d p) = spec_perft d (abs p)
   where spec_perft (Spec/Rules.v) is the number of sequences of d moves each legal under the rules — by C01
   (legal_moves is a permutation of the rules' legal moves), makemove's refinement of apply_move, and the closure of the
   domain under legal moves (LcStep).  Agreement with the published tables is a computation of the C++ and of
   spec_perft, checked by the correspondence (tools/perft_tables.py).  Statements only. *)
From Coq Require Import NArith List Bool String.
From LC Require Import Bits Types BitboardModel MoveModel ZobristModel PositionModel MovegenModel MakeModel GameModel GameFacts Spec.Rules Refine.Abs Refine.MakeAbs PerftExact LegalFinal SpecSanity.
Import ListNotations.
Local Open Scope N_scope.

Theorem C04_position_unchanged : forall K d p, snd (perft K d p) = p.
Proof. exact perft_restores. Qed.
Theorem C04_depth_zero : forall K p, fst (perft K 0 p) = 1.
Proof. exact perft_zero. Qed.
Theorem C04_recurrence : forall K d p,
  fst (perft K (S d) p) = fold_right (fun m s => fst (perft K d (makemove K p m)) + s) 0 (legal_moves p).
Proof. exact perft_recurrence. Qed.

Theorem C04_perft_counts_rule_sequences : forall K dfrc d p, wf p = true -> rooks_ok p -> legal_consistent dfrc (abs p) = true ->
  fst (perft K d p) = spec_perft d (abs p).
Proof. exact perft_counts_rule_sequences. Qed.
Theorem C04_spec_perft_zero : forall s, spec_perft 0 s = 1.
Proof. exact spec_perft_zero. Qed.
Theorem C04_spec_perft_recurrence : forall d s, spec_perft (S d) s = fold_right (fun m acc => spec_perft d (apply_move s m) + acc) 0 (spec_moves s).
Proof. exact spec_perft_recurrence. Qed.

(* validation of the specification itself (an example, evaluated in the kernel's VM, not a statement about all positions):
   the mailbox rule set reproduces the published counts of the classic perft positions, which are all legal-consistent *)
Theorem C04_spec_reproduces_published_counts :
  counts "rnbqkbnr/pppppppp/8/8/8/8/PPPPPPPP/RNBQKBNR w KQkq - 0 1" [1;2;3]%nat = [20; 400; 8902] /\
  counts "r3k2r/p1ppqpb1/bn2pnp1/3PN3/1p2P3/2N2Q1p/PPPBBPPP/R3K2R w KQkq - 0 1" [1;2]%nat = [48; 2039] /\
  counts "8/2p5/3p4/KP5r/1R3p1k/8/4P1P1/8 w - - 0 1" [1;2;3]%nat = [14; 191; 2812] /\
  counts "r3k2r/Pppp1ppp/1b3nbN/nP6/BBP1P3/q4N2/Pp1P2PP/R2Q1RK1 w kq - 0 1" [1;2]%nat = [6; 264] /\
  counts "rnbq1k1r/pp1Pbppp/2p5/8/2B5/8/PPP1NnPP/RNBQK2R w KQ - 1 8" [1;2]%nat = [44; 1486] /\
  counts960 "bqnb1rkr/pp3ppp/3ppn2/2p5/5P2/P2P4/NPP1P1PP/BQ1BNRKR w HFhf - 2 9" [1;2]%nat = [21; 528] /\
  counts960 "b1q1rrkb/pppppppp/3nn3/8/P7/1PPP4/4PPPP/BQNNRKRB w GE - 1 9" [1;2]%nat = [20; 479] /\
  counts960 "r1bbnk1r/qpp1pppp/p6n/3p4/1P6/5N1P/P1PPPPP1/RQBBK1NR w ha - 0 9" [1;2]%nat = [23; 728].
Proof. exact (conj (proj1 spec_startpos) (conj (proj1 spec_kiwipete) (conj (proj1 spec_position3) (conj (proj1 spec_position4) (conj (proj1 spec_position5)
         (conj (proj1 spec_frc_1) (conj (proj1 spec_frc_2) (proj1 spec_frc_3)))))))). Qed.

Print Assumptions C04_spec_reproduces_published_counts.
Print Assumptions C04_perft_counts_rule_sequences. Print Assumptions C04_spec_perft_zero. Print Assumptions C04_spec_perft_recurrence.
Print Assumptions C04_position_unchanged. Print Assumptions C04_depth_zero. Print Assumptions C04_recurrence.
