(* Properties_C05.v — the incrementally maintained hash always equals the hash recomputed from scratch.
   hash_ok p := hash p = calculate_hash p.  For ANY key values K.  wf / mfits / rooks_ok as in C02.
   Statements only. *)
From Coq Require Import NArith List Bool.
From LC Require Import Bits Types BitboardModel MoveModel ZobristModel PositionModel MakeModel FenModel
  Spec.Rules Refine.Abs Refine.Board Refine.Make Refine.Wf Refine.MakeAbs Refine.SpecFits MakeFacts HashFacts FenFacts ValidExact.
Import ListNotations.
Local Open Scope N_scope.

Theorem C05_set_fen : forall K old fen dfrc, hash_ok K (set_fen_on K old fen dfrc).
Proof. exact set_fen_hash_ok. Qed. (* hash_ok unfolds to this equation *)
Theorem C05_makemove : forall K p m, wf p = true -> rooks_ok p ->
  mfits (cell_of p) (turn p) m (rook_from_get p (side_to_N (turn p) * 2)) (rook_from_get p (side_to_N (turn p) * 2 + 1)) ->
  hash_ok K p -> hash_ok K (makemove K p m).
Proof. exact makemove_hash_ok. Qed.
Theorem C05_every_legal_move : forall K dfrc p m, wf p = true -> rooks_ok p -> legal_consistent dfrc (abs p) = true ->
  In m (spec_moves (abs p)) -> hash_ok K p -> hash_ok K (makemove K p m).
Proof. exact (fun K dfrc p m Hwf Hr Hlc Hin => makemove_hash_ok K p m Hwf Hr (spec_moves_fit dfrc p m Hr Hlc Hin)). Qed.
Theorem C05_makenull : forall K p, wf p = true -> hash_ok K p -> hash_ok K (makenull K p).
Proof. exact makenull_hash_ok. Qed.
Theorem C05_undomove : forall K p m, move_fields_ok p m -> hash_ok K p -> hash_ok K (undomove (makemove K p m)).
Proof. intros K p m H Hok. rewrite undo_make by exact H. exact Hok. Qed.
Theorem C05_undonull : forall K p, hash_ok K p -> hash_ok K (undonull (makenull K p)).
Proof. intros K p Hok. rewrite undonull_makenull. exact Hok. Qed.

(* every state of every history of makes and nulls (undo returns to an earlier state of the same history) *)
Theorem C05_reachable : forall K p0, wf p0 = true -> rooks_ok p0 -> hash_ok K p0 ->
  forall p, reach K p0 p -> hash_ok K p /\ wf p = true /\ rooks_ok p.
Proof. exact reachable_hash_ok. Qed.

(* consequently the hash depends on the position alone *)
Theorem C05_position_only : forall K p q, wf p = true -> wf q = true ->
  (forall x, x < 64 -> cell_of p x = cell_of q x) -> turn p = turn q ->
  c0 p = c0 q -> c1 p = c1 q -> c2 p = c2 q -> c3 p = c3 q -> ep p = ep q ->
  calculate_hash K p = calculate_hash K q.
Proof. exact calculate_hash_position_only. Qed.

(* run level: after every operation of every history of generated moves, null moves (out of check) and undos, in any
   order, from a start position of the domain (e.g. set_fen's result) *)
Theorem C05_every_history : forall K dfrc p0 p st, dom K dfrc p0 -> hist K p0 p st -> hash_ok K p.
Proof. exact hist_hash. Qed.
Print Assumptions C05_every_history.

Print Assumptions C05_set_fen. Print Assumptions C05_makemove. Print Assumptions C05_every_legal_move. Print Assumptions C05_makenull. Print Assumptions C05_undomove.
Print Assumptions C05_undonull. Print Assumptions C05_reachable. Print Assumptions C05_position_only.
