(* Properties_C06.v — FEN decoding and encoding agree with the FEN / Shredder-FEN / X-FEN definitions.
   STATUS: FULL (for the model M) on well-formed six-field FENs; the conventions are Spec/Fen.v.
   ENCODING, for EVERY position (no hypothesis) and both modes: get_fen(p, mode) is exactly the specification's canonical
   six-field FEN of abs p — placement by ranks 8..1 with run-length digits, side, castling field (KQkq order in
   standard mode, rook-file letters in Chess960 mode, '-' for none), ep square or '-', both clocks in decimal; the
   stream printer shows the same placement (under the representation invariant); 'startpos' is the standard initial
   position.
   DECODING (C06_set_fen_decodes): for EVERY six-field FEN whose placement field has 8 ranks of piece letters and
   digits 1..8 summing to 8, a non-empty side and castling word, an ep word that is '-' or a square name, and decimal
   clocks, set_fen yields exactly the position that the specification's independent decoder Spec/Fen.of_fen describes
   — every square, side, ep square, both clocks, and the rights with the right rook: corner rooks for KQkq in standard
   mode, the named file for Shredder letters, the OUTERMOST rook on that side of the king for KQkq in Chess960 mode
   (scan_outer_east/west), a right whose rook is absent dropped; the castling word is arbitrary (any order,
   repetitions, junk letters).  In Chess960 mode both kings must be present (with a Shredder letter and no king of
   that colour the C++ grants a right that the definition does not: outside every legal-consistent position).
   C06_set_fen_canonical: decoding the canonical FEN of any well-formed specification position gives that position. *)
From Coq Require Import NArith List Bool.
From LC Require Import Bits Types BitboardModel MoveModel ZobristModel PositionModel FenModel Spec.Rules Spec.Fen
  Refine.Abs Refine.Board FenFacts FenCodecFacts FenRoundTrip Refine.MakeAbs ValidExact Capstone.
Import ListNotations.
Local Open Scope N_scope.

Theorem C06_get_fen_encodes : forall p dfrc, get_fen p dfrc = fen_of dfrc (abs p).
Proof. exact get_fen_encodes. Qed.
Theorem C06_printer_shows_placement : forall p f, rep (brd p) f ->
  firstn 72 (print_position p) =
  flat_map (fun y => map (fun x => match f (8 * y + x) with Some (s, pc) => char_of s pc | None => 45 end) [0;1;2;3;4;5;6;7] ++ [10]) [7;6;5;4;3;2;1;0].
Proof. exact printer_shows_placement. Qed.
Theorem C06_startpos : forall K dfrc, set_fen K startpos_str dfrc = set_fen K startpos_fen false.
Proof. exact startpos_is_standard. Qed.

Theorem C06_set_fen_decodes : forall K dfrc ranks T C E H F s,
  length ranks = 8%nat -> Forall rank_ok ranks -> T <> [] -> vis T -> C <> [] -> vis C -> ep_word_ok E ->
  digits H -> H <> [] -> digits F -> F <> [] ->
  let fen := join 32 [join 47 ranks; T; C; E; H; F] in
  of_fen dfrc fen = Some s ->
  (dfrc = true -> find_king (s_board s) White <> None /\ find_king (s_board s) Black <> None) ->
  abs (set_fen K fen dfrc) = s /\ wf (set_fen K fen dfrc) = true.
Proof. exact set_fen_of_fen. Qed.
Theorem C06_set_fen_canonical : forall K dfrc s, fen_ok dfrc s ->
  abs (set_fen K (fen_of dfrc s) dfrc) = s /\ wf (set_fen K (fen_of dfrc s) dfrc) = true.
Proof. exact set_fen_fen_of. Qed.

(* ... and when that position is legal-consistent, the result of set_fen is in the domain of every other theorem
   (representation invariant, rook squares, consistent hash, legal-consistent), with an empty history and valid() *)
Theorem C06_set_fen_in_domain : forall K dfrc ranks T C E H F s,
  length ranks = 8%nat -> Forall rank_ok ranks -> T <> [] -> vis T -> C <> [] -> vis C -> ep_word_ok E ->
  digits H -> H <> [] -> digits F -> F <> [] ->
  let fen := join 32 [join 47 ranks; T; C; E; H; F] in
  of_fen dfrc fen = Some s -> legal_consistent dfrc s = true ->
  let p := set_fen K fen dfrc in dom K dfrc p /\ history p = [] /\ abs p = s /\ valid K p = true.
Proof. exact fen_start_in_domain. Qed.
(* for EVERY string: the stored castling-rook squares are squares *)
Theorem C06_set_fen_rook_squares : forall K fen dfrc, rooks_ok (set_fen K fen dfrc).
Proof. exact set_fen_rooks_ok. Qed.

Print Assumptions C06_set_fen_in_domain. Print Assumptions C06_set_fen_rook_squares.
Print Assumptions C06_set_fen_decodes. Print Assumptions C06_set_fen_canonical.
Print Assumptions C06_get_fen_encodes. Print Assumptions C06_printer_shows_placement. Print Assumptions C06_startpos.
