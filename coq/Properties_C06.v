(* Properties_C06.v — FEN decoding and encoding agree with the FEN / Shredder-FEN / X-FEN definitions.
   Proved for EVERY position (no hypothesis) and both modes: get_fen(p, mode) is exactly the specification's canonical
   six-field FEN of abs p — placement by ranks 8..1 with run-length digits, side, castling field (KQkq order in
   standard mode, rook-file letters in Chess960 mode, '-' for none), ep square or '-', both clocks in decimal;
   the stream printer shows the same placement (under the representation invariant); 'startpos' is the standard
   initial position.
   STATUS: PARTIAL — the DECODING direction (set_fen of every spelling yields exactly the described position, with
   the outermost-rook rule for KQkq in Chess960 mode and letters without a rook dropped) is not a theorem; it is
   decided by the correspondence against the specification's independent decoder Spec/Fen.of_fen on canonical
   FENs, permuted/subset castling fields, X-FEN letters, letters without a rook, both modes.  Statements only. *)
From Coq Require Import NArith List Bool.
From LC Require Import Bits Types BitboardModel MoveModel ZobristModel PositionModel FenModel Spec.Rules Spec.Fen
  Refine.Abs Refine.Board FenFacts FenCodecFacts.
Import ListNotations.
Local Open Scope N_scope.

Theorem C06_get_fen_encodes : forall p dfrc, get_fen p dfrc = fen_of dfrc (abs p).
Proof. exact get_fen_encodes. Qed.
Theorem C06_printer_shows_placement : forall p f, rep (brd p) f ->
  firstn 72 (print_position p) =
  flat_map (fun y => map (fun x => match f (8 * y + x) with Some (s, pc) => char_of s pc | None => 45 end) [0;1;2;3;4;5;6;7] ++ [10]) [7;6;5;4;3;2;1;0].
Proof. exact printer_shows_placement. Qed.
Theorem C06_startpos : forall K dfrc, set_fen K startpos_str dfrc = set_fen K startpos_fen false.
Proof. exact startpos_is_standard. Qed.

Print Assumptions C06_get_fen_encodes. Print Assumptions C06_printer_shows_placement. Print Assumptions C06_startpos.
