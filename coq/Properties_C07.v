(* Properties_C07.v — FEN round trip is lossless and set_fen does not depend on the object's past.
   Proved for EVERY previous object state, EVERY string and both modes: set_fen on a used object yields exactly
   the observables of a fresh object (placement, clocks, ep, hash, rights, rook squares of held rights, side),
   with an empty history.  [obs_eq] leaves out only the castling-rook slot of a right that is NOT held (clear()
   does not reset it; no query other than get_castling_square of an un-held right can see it).
   STATUS: PARTIAL — the round-trip clause (a fresh Position built from get_fen(p) is observably identical to p)
   needs the FEN codec theorems of C06 and is decided by the correspondence.  Statements only. *)
From Coq Require Import NArith List Bool.
From LC Require Import Bits Types BitboardModel MoveModel ZobristModel PositionModel FenModel FenFacts.
Import ListNotations.
Local Open Scope N_scope.

Theorem C07_set_fen_forgets : forall K old fen dfrc, obs_eq (set_fen_on K old fen dfrc) (set_fen K fen dfrc).
Proof. exact set_fen_forgets. Qed.
Theorem C07_set_fen_any_two_pasts : forall K old1 old2 fen dfrc, obs_eq (set_fen_body K old1 fen dfrc) (set_fen_body K old2 fen dfrc).
Proof. exact set_fen_body_forgets. Qed.
Theorem C07_history_empty : forall K old fen dfrc, history (set_fen_on K old fen dfrc) = [].
Proof. exact set_fen_history_empty. Qed.

Print Assumptions C07_set_fen_forgets. Print Assumptions C07_set_fen_any_two_pasts. Print Assumptions C07_history_empty.
