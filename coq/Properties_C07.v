(* Properties_C07.v — FEN round trip is lossless and set_fen does not depend on the object's past.
   STATUS: FULL (for the model M).
   ROUND TRIP (C07_round_trip, C07_round_trip_observables): for EVERY position p whose abstraction is legal-consistent
   (any history, any clocks — the model's clocks are unbounded), the fresh position q built from get_fen(p, mode) has
   abs q = abs p (placement, side, the four rights with their rook squares, ep square, both clocks), satisfies the
   representation invariant, has a consistent hash and an empty history, and get_fen of it is the same string; when p
   itself is well-formed with a consistent hash, q equals p field by field — bitboards, flags, rook squares of the held
   rights, ep, clocks, HASH — so every query (legal moves, …) answers the same; only the history differs.
   For EVERY previous object state, EVERY string and both modes: set_fen on a used object yields exactly the
   observables of a fresh object, with an empty history ([obs_eq] leaves out only the castling-rook slot of a right
   that is NOT held: clear() does not reset it, no query other than get_castling_square of an un-held right sees it). *)
From Coq Require Import NArith List Bool.
From LC Require Import Bits Types BitboardModel MoveModel ZobristModel PositionModel FenModel FenFacts Spec.Rules Refine.Abs FenRoundTrip.
Import ListNotations.
Local Open Scope N_scope.

Theorem C07_set_fen_forgets : forall K old fen dfrc, obs_eq (set_fen_on K old fen dfrc) (set_fen K fen dfrc).
Proof. exact set_fen_forgets. Qed.
Theorem C07_set_fen_any_two_pasts : forall K old1 old2 fen dfrc, obs_eq (set_fen_body K old1 fen dfrc) (set_fen_body K old2 fen dfrc).
Proof. exact set_fen_body_forgets. Qed.
Theorem C07_history_empty : forall K old fen dfrc, history (set_fen_on K old fen dfrc) = [].
Proof. exact set_fen_history_empty. Qed.

Theorem C07_round_trip : forall K dfrc p, legal_consistent dfrc (abs p) = true ->
  let q := set_fen K (get_fen p dfrc) dfrc in
  abs q = abs p /\ wf q = true /\ hash q = calculate_hash K q /\ history q = [] /\ get_fen q dfrc = get_fen p dfrc.
Proof. exact fen_round_trip. Qed.
Theorem C07_round_trip_observables : forall K dfrc p, wf p = true -> hash p = calculate_hash K p -> legal_consistent dfrc (abs p) = true ->
  let q := set_fen K (get_fen p dfrc) dfrc in
  (brd q = brd p /\ to_move q = to_move p /\ c0 q = c0 p /\ c1 q = c1 p /\ c2 q = c2 p /\ c3 q = c3 p /\
   (c0 p = true -> r0 q = r0 p) /\ (c1 p = true -> r1 q = r1 p) /\ (c2 p = true -> r2 q = r2 p) /\ (c3 p = true -> r3 q = r3 p) /\
   ep q = ep p /\ halfmove q = halfmove p /\ fullmove q = fullmove p /\ hash q = hash p) /\ history q = [].
Proof. exact fen_round_trip_obs. Qed.

Print Assumptions C07_round_trip. Print Assumptions C07_round_trip_observables.
Print Assumptions C07_set_fen_forgets. Print Assumptions C07_set_fen_any_two_pasts. Print Assumptions C07_history_empty.
