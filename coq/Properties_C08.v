(* Properties_C08.v — attack and check queries are geometrically exact for both sides.
   [rep (brd p) f]: the bitboard record represents the mailbox f (equivalent to the invariant wf, Refine/Wf.v);
   [board_of f] is the specification's 64-cell board; [piece_attacks], [attackers_of], [attacked],
   [king_attacked], [find_king] are the specification's geometric definitions (Spec/Rules.v).
   For every such position, every square, BOTH sides, whatever the side to move.  Statements only. *)
From Coq Require Import NArith List Bool.
From LC Require Import Bits Types BitboardModel PositionModel Spec.Rules Refine.Abs Refine.Board Refine.Wf Refine.Make AttackFacts.
Import ListNotations.
Local Open Scope N_scope.

(* attackers(q, s) is exactly the set of s's pieces that attack q *)
Theorem C08_attackers : forall p f q s a, rep (brd p) f -> q < 64 -> a < 64 ->
  N.testbit (attackers p q s) a =
  match f a with Some (c, pc) => side_eqb c s && piece_attacks (board_of f) c pc a q | None => false end.
Proof. exact attackers_exact. Qed.
Theorem C08_attackers_iteration : forall p f q s, rep (brd p) f -> q < 64 ->
  bb_squares (attackers p q s) = attackers_of (board_of f) q s.
Proof. exact attackers_list. Qed.
(* square_attacked says whether that set is non-empty *)
Theorem C08_square_attacked : forall p f q s, rep (brd p) f -> q < 64 -> square_attacked p q s = attacked (board_of f) q s.
Proof. exact square_attacked_exact. Qed.
(* squares_attacked(s) is exactly the set of squares for which it is (one king of side s on the board) *)
Theorem C08_squares_attacked : forall p f s k q, rep (brd p) f -> q < 64 ->
  find_king (board_of f) s = Some k -> (forall a, a < 64 -> f a = Some (s, King) -> a = k) ->
  N.testbit (squares_attacked p s) q = attacked (board_of f) q s.
Proof. exact squares_attacked_exact. Qed.
(* in_check() / checkers(): exactly the enemy pieces attacking the king of the side to move *)
Theorem C08_checkers : forall p f k, rep (brd p) f -> find_king (board_of f) (turn p) = Some k ->
  bb_squares (checkers p) = attackers_of (board_of f) k (opp_side (turn p)).
Proof. exact checkers_exact. Qed.
Theorem C08_in_check : forall p f, rep (brd p) f -> (exists k, find_king (board_of f) (turn p) = Some k) ->
  in_check p = king_attacked (board_of f) (turn p).
Proof. exact in_check_exact. Qed.
(* king_allowed(s): squares not occupied by s's own pieces or the enemy king that no enemy piece would attack once
   s's king is lifted off the board *)
Theorem C08_king_allowed : forall p f s k ek q, rep (brd p) f -> q < 64 ->
  find_king (board_of f) s = Some k -> (forall a, a < 64 -> f a = Some (s, King) -> a = k) ->
  find_king (board_of f) (opp_side s) = Some ek -> (forall a, a < 64 -> f a = Some (opp_side s, King) -> a = ek) ->
  N.testbit (king_allowed_s p s) q =
  negb (match f q with Some (c, pc) => side_eqb c s || piece_eqb pc King | None => false end) &&
  negb (attacked (board_of (upd f k None)) q (opp_side s)).
Proof. exact king_allowed_exact. Qed.
(* the hypothesis is exactly the invariant: every wf position represents its own mailbox reading *)
Theorem C08_wf_is_rep : forall p, wf p = true -> rep (brd p) (cell_of_b (brd p)).
Proof. exact (fun p H => wf_rep (brd p) H). Qed.

Print Assumptions C08_attackers. Print Assumptions C08_attackers_iteration. Print Assumptions C08_square_attacked.
Print Assumptions C08_squares_attacked. Print Assumptions C08_checkers. Print Assumptions C08_in_check.
Print Assumptions C08_king_allowed. Print Assumptions C08_wf_is_rep.
