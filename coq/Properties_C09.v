(* Properties_C09.v — threefold() is true exactly when the current position has occurred three times.
   STATUS: proved CONDITIONALLY on the absence of a 64-bit hash collision inside the current reversible stretch —
   an explicit hypothesis (collision_free), not an axiom; without it the property is not true of any Zobrist-hash
   implementation.  For every game played from a start position (history empty, wf, hash consistent — e.g. the result
   of set_fen: ThreefoldExact.set_fen_start_ok) by moves that are legal in legal-consistent positions, null moves, and
   undos of both (C09_threefold_exact, C09_threefold_exact_with_undo):
       threefold p = spec_threefold g      (g the specification's game: current position + earlier positions since the
                                            last capture, pawn move, null move or start; occurrences counted by
                                            same_core = placement, side, castling rights held, ep square)
   including the start-with-positive-clock case and the guard "halfmove >= 8" (a position cannot recur within 2 plies
   of a reversible stretch, so a third occurrence needs 8 reversible plies: C09_repetition_needs_eight).  Equal
   positions always have equal hashes (C09_equal_positions_equal_hash).
   For EVERY position and history, no hypothesis: threefold() as a count over the window; null move empties the window;
   undo restores earlier answers exactly.  Statements only. *)
From Coq Require Import NArith List Bool.
From LC Require Import Bits Types BitboardModel MoveModel ZobristModel PositionModel MakeModel GameModel MakeFacts ThreefoldFacts Spec.Rules Spec.Game Refine.Abs HashFacts ThreefoldExact.
Import ListNotations.
Local Open Scope N_scope.

Theorem C09_scan_is_count : forall p,
  threefold p = (8 <=? halfmove p) && (2 <=? occ (hash p) (window (history p) 2 (halfmove p))).
Proof. exact threefold_scan. Qed.
Theorem C09_after_null : forall K p, threefold (makenull K p) = false.
Proof. exact threefold_after_null. Qed.
Theorem C09_undo_restores : forall K p m, move_fields_ok p m -> threefold (undomove (makemove K p m)) = threefold p.
Proof. exact threefold_after_undo. Qed.
Theorem C09_undonull_restores : forall K p, threefold (undonull (makenull K p)) = threefold p.
Proof. exact threefold_after_undonull. Qed.

Theorem C09_threefold_exact : forall K p0 p g, start_ok K p0 -> play K p0 p g -> collision_free K g -> threefold p = spec_threefold g.
Proof. exact threefold_exact. Qed.
Theorem C09_threefold_exact_with_undo : forall K p0 p g k st,
  start_ok K p0 -> hreach K p0 p ((g, k) :: st) -> collision_free K g -> threefold p = spec_threefold g.
Proof. exact threefold_exact_undo. Qed.
Theorem C09_equal_positions_equal_hash : forall K a b, same_core a b = true -> key_hash K a = key_hash K b.
Proof. exact same_core_key. Qed.
Theorem C09_hash_is_key_hash : forall K p, wf p = true -> hash_ok K p -> hash p = key_hash K (abs p).
Proof. exact hash_abs. Qed.
Theorem C09_repetition_needs_eight : forall K p0 p g, start_ok K p0 -> play K p0 p g -> spec_threefold g = true ->
  (8 <= length (g_past g))%nat /\ 8 <= halfmove p.
Proof. exact repetition_needs_eight. Qed.

Print Assumptions C09_threefold_exact. Print Assumptions C09_threefold_exact_with_undo. Print Assumptions C09_equal_positions_equal_hash.
Print Assumptions C09_hash_is_key_hash. Print Assumptions C09_repetition_needs_eight.
Print Assumptions C09_scan_is_count. Print Assumptions C09_after_null.
Print Assumptions C09_undo_restores. Print Assumptions C09_undonull_restores.
