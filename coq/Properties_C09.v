(* Properties_C09.v — threefold() is true exactly when the current position has occurred three times.
   Proved for EVERY position and history: threefold() = (half-move clock >= 8) and (the current hash occurs at
   least twice among the history records at distances 2, 4, ... not exceeding the half-move clock nor the stored
   history) — the loop is a count over the reversible window; a null move empties the window; undo restores
   earlier answers exactly.
   STATUS: PARTIAL — "equal hash <-> equal position inside the window" (hash injectivity on the explored
   histories, a 64-bit collision being the only way to falsify it) and "a position cannot recur within fewer
   than 8 plies" are not theorems; the statement against counting equal positions (Spec/Game.occurrences) is
   decided by the correspondence on pendulum / null-pair / irreversible-move histories.  Statements only. *)
From Coq Require Import NArith List Bool.
From LC Require Import Bits Types BitboardModel MoveModel ZobristModel PositionModel MakeModel GameModel MakeFacts ThreefoldFacts.
Import ListNotations.
Local Open Scope N_scope.

Theorem C09_partial_scan_is_count : forall p,
  threefold p = (8 <=? halfmove p) && (2 <=? occ (hash p) (window (history p) 2 (halfmove p))).
Proof. exact threefold_scan. Qed.
Theorem C09_partial_after_null : forall K p, threefold (makenull K p) = false.
Proof. exact threefold_after_null. Qed.
Theorem C09_partial_undo_restores : forall K p m, move_fields_ok p m -> threefold (undomove (makemove K p m)) = threefold p.
Proof. exact threefold_after_undo. Qed.
Theorem C09_partial_undonull_restores : forall K p, threefold (undonull (makenull K p)) = threefold p.
Proof. exact threefold_after_undonull. Qed.

Print Assumptions C09_partial_scan_is_count. Print Assumptions C09_partial_after_null.
Print Assumptions C09_partial_undo_restores. Print Assumptions C09_partial_undonull_restores.
