(* Properties_C10.v — game-end predicates follow their definitions at every node.
   For EVERY position and history (no hypothesis): the predicates in terms of the generated list and in_check.
   On the property's domain (wf, rooks_ok, legal-consistent): in terms of the RULES (by C01): checkmate <-> no legal
   move of the rules and the king attacked; stalemate <-> none and not attacked; is_draw / is_terminal in terms of
   threefold() (C09), the clock and the rules.  The model's queries are pure functions of the position, so none of
   them changes it.  Statements only. *)
From Coq Require Import NArith List Bool.
From LC Require Import Bits Types BitboardModel MoveModel PositionModel MovegenModel GameModel GameFacts Spec.Rules Spec.Game Refine.Abs Refine.MakeAbs PerftExact LegalFinal.
Import ListNotations.
Local Open Scope N_scope.

Theorem C10_checkmate : forall p, is_checkmate p = true <-> legal_moves p = [] /\ in_check p = true.
Proof. exact is_checkmate_iff. Qed.
Theorem C10_stalemate : forall p, is_stalemate p = true <-> legal_moves p = [] /\ in_check p = false.
Proof. exact is_stalemate_iff. Qed.
Theorem C10_fiftymoves : forall p, fiftymoves p = true <-> 100 <= halfmove p.
Proof. exact fiftymoves_iff. Qed.
Theorem C10_draw : forall p, is_draw p = true <-> (threefold p = true \/ fiftymoves p = true) /\ is_checkmate p = false.
Proof. exact is_draw_iff. Qed.
Theorem C10_terminal : forall p, is_terminal p = true <-> legal_moves p = [] \/ is_draw p = true.
Proof. exact is_terminal_iff. Qed.
Theorem C10_exclusive : forall p, is_checkmate p && is_stalemate p = false.
Proof. exact mate_stalemate_exclusive. Qed.

Theorem C10_checkmate_rules : forall dfrc p, wf p = true -> rooks_ok p -> legal_consistent dfrc (abs p) = true ->
  (is_checkmate p = true <-> spec_moves (abs p) = [] /\ spec_in_check (abs p) = true).
Proof. exact checkmate_rules. Qed.
Theorem C10_stalemate_rules : forall dfrc p, wf p = true -> rooks_ok p -> legal_consistent dfrc (abs p) = true ->
  (is_stalemate p = true <-> spec_moves (abs p) = [] /\ spec_in_check (abs p) = false).
Proof. exact stalemate_rules. Qed.
Theorem C10_in_check_rules : forall dfrc p, wf p = true -> legal_consistent dfrc (abs p) = true -> in_check p = spec_in_check (abs p).
Proof. exact in_check_spec. Qed.
Theorem C10_draw_rules : forall dfrc p, wf p = true -> rooks_ok p -> legal_consistent dfrc (abs p) = true ->
  is_draw p = (threefold p || spec_fifty (abs p)) && negb (spec_checkmate (abs p)).
Proof. exact draw_spec. Qed.
Theorem C10_terminal_rules : forall dfrc p, wf p = true -> rooks_ok p -> legal_consistent dfrc (abs p) = true ->
  is_terminal p = spec_no_moves (abs p) || ((threefold p || spec_fifty (abs p)) && negb (spec_checkmate (abs p))).
Proof. exact terminal_spec. Qed.

Print Assumptions C10_checkmate_rules. Print Assumptions C10_stalemate_rules. Print Assumptions C10_in_check_rules.
Print Assumptions C10_draw_rules. Print Assumptions C10_terminal_rules.
Print Assumptions C10_checkmate. Print Assumptions C10_stalemate. Print Assumptions C10_fiftymoves.
Print Assumptions C10_draw. Print Assumptions C10_terminal. Print Assumptions C10_exclusive.
