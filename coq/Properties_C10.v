(* Properties_C10.v — game-end predicates follow their definitions at every node, for EVERY position and
   history (no hypothesis).  "Legal move" below is membership in the generated list; that the generated list
   is the rules' legal-move set is C01, that threefold() counts occurrences is C09.  The model's queries are
   pure functions of the position, so none of them changes it.  Statements only. *)
From Coq Require Import NArith List Bool.
From LC Require Import Bits Types BitboardModel MoveModel PositionModel MovegenModel GameModel GameFacts.
Import ListNotations.
Local Open Scope N_scope.

Theorem C10_checkmate : forall p, is_checkmate p = true <-> legal_moves p = [] /\ in_check p = true.
Proof. exact is_checkmate_iff. Qed.
Theorem C10_stalemate : forall p, is_stalemate p = true <-> legal_moves p = [] /\ in_check p = false.
Proof. exact is_stalemate_iff. Qed.
Theorem C10_fiftymoves : forall p, fiftymoves p = true <-> 100 <= halfmove p.
Proof. exact fiftymoves_iff. Qed.
Theorem C10_draw : forall p, is_draw p = true <-> (threefold p = true \/ fiftymoves p = true) /\ is_checkmate p = false.
Proof. exact is_draw_iff. Qed.
Theorem C10_terminal : forall p, is_terminal p = true <-> legal_moves p = [] \/ is_draw p = true.
Proof. exact is_terminal_iff. Qed.
Theorem C10_exclusive : forall p, is_checkmate p && is_stalemate p = false.
Proof. exact mate_stalemate_exclusive. Qed.

Print Assumptions C10_checkmate. Print Assumptions C10_stalemate. Print Assumptions C10_fiftymoves.
Print Assumptions C10_draw. Print Assumptions C10_terminal. Print Assumptions C10_exclusive.
