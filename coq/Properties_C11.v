(* Properties_C11.v — move text round-trips and parse_move rejects everything that is not a legal move.
   Proved for EVERY position and EVERY string (lists of bytes): parse_move returns only generated legal moves whose
   text is the string (or the castling move named by a standard alias with the king on e1/e8 and that side to
   move); a string that is no generated move's text and no alias is rejected; the text of every generated move is
   accepted; move_string's two modes; the text is origin+destination+promotion letter; parse_move is a pure
   function of the position.
   STATUS: PARTIAL — "parse_move (text m) returns m itself" needs the texts of the generated moves to be pairwise
   distinct, i.e. no duplicates in the generated list (C01, decided by the correspondence, which also runs all
   20480 coordinate strings per position).  Statements only. *)
From Coq Require Import NArith List Bool.
From LC Require Import Bits Types BitboardModel MoveModel PositionModel MovegenModel FenModel GameModel MoveFacts TextFacts.
Import ListNotations.
Local Open Scope N_scope.

Theorem C11_partial_parse_sound : forall p s m, parse_move p s = Some m ->
  In m (legal_moves p) /\
  (move_text m = s \/
   (m_type m = Ksc /\ ((s = s_e1g1 /\ piece_on p 4 = King /\ turn p = White) \/ (s = s_e8g8 /\ piece_on p 60 = King /\ turn p = Black))) \/
   (m_type m = Qsc /\ ((s = s_e1c1 /\ piece_on p 4 = King /\ turn p = White) \/ (s = s_e8c8 /\ piece_on p 60 = King /\ turn p = Black)))).
Proof. exact parse_move_sound. Qed.
Theorem C11_partial_parse_rejects : forall p s,
  (forall m, In m (legal_moves p) -> move_text m <> s) ->
  s <> s_e1g1 -> s <> s_e1c1 -> s <> s_e8g8 -> s <> s_e8c8 -> parse_move p s = None.
Proof. exact parse_move_rejects. Qed.
Theorem C11_partial_text_accepted : forall p m, In m (legal_moves p) -> exists m', parse_move p (move_text m) = Some m'.
Proof. exact parse_move_accepts_text. Qed.
Theorem C11_move_string_dfrc : forall p m, move_string p m true = move_text m.
Proof. exact move_string_dfrc. Qed.
Theorem C11_move_string_std : forall p m, move_string p m false =
  match m_type m, turn p with
  | Ksc, White => s_e1g1 | Ksc, Black => s_e8g8 | Qsc, White => s_e1c1 | Qsc, Black => s_e8c8 | _, _ => move_text m end.
Proof. exact move_string_std. Qed.
Theorem C11_text_shape : forall m, legal_promo_field (m_promo m) = true ->
  move_text m = sq_string (m_from m) ++ sq_string (m_to m) ++
                match m_promo m with Knight => [110] | Bishop => [98] | Rook => [114] | Queen => [113] | _ => [] end.
Proof. exact move_text_shape. Qed.

Print Assumptions C11_partial_parse_sound. Print Assumptions C11_partial_parse_rejects. Print Assumptions C11_partial_text_accepted.
Print Assumptions C11_move_string_dfrc. Print Assumptions C11_move_string_std. Print Assumptions C11_text_shape.
