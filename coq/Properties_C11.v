(* Properties_C11.v — move text round-trips and parse_move rejects everything that is not a legal move.
   STATUS: FULL (for the model M), with the reading of "mode" stated below.
   For EVERY position and EVERY string (lists of bytes), no hypothesis: parse_move returns only generated legal moves
   whose text is the string (or the castling move named by a standard alias e1g1/e1c1/e8g8/e8c8 with a king on e1/e8
   and that side to move); a string that is neither the text nor the standard-mode move_string of any generated move
   is rejected (C11_rejects_other_strings) and a rejected call is a pure function of the position; move_string's two
   modes; the text is origin+destination+promotion letter.
   On the property's domain (wf, rooks_ok, legal-consistent in mode dfrc), by C01: the texts of the legal moves are
   pairwise distinct (C11_text_injective), parse_move of a legal move's own text returns that move itself
   (C11_text_returns_move), and so does parse_move of move_string(m, dfrc) in the position's own mode
   (C11_move_string_returns_move).  Reading of the property: "move_string(m, mode)" is taken in the mode of the
   position (a Chess960 position whose king is not on e1 cannot be addressed by the standard alias "e1g1": TextExact
   shows the alias is accepted exactly when a king stands on e1/e8).  Statements only. *)
From Coq Require Import NArith List Bool.
From LC Require Import Bits Types BitboardModel MoveModel PositionModel MovegenModel FenModel GameModel MoveFacts TextFacts Spec.Rules Refine.Abs Refine.MakeAbs TextExact LegalFinal.
Import ListNotations.
Local Open Scope N_scope.

Theorem C11_parse_sound : forall p s m, parse_move p s = Some m ->
  In m (legal_moves p) /\
  (move_text m = s \/
   (m_type m = Ksc /\ ((s = s_e1g1 /\ piece_on p 4 = King /\ turn p = White) \/ (s = s_e8g8 /\ piece_on p 60 = King /\ turn p = Black))) \/
   (m_type m = Qsc /\ ((s = s_e1c1 /\ piece_on p 4 = King /\ turn p = White) \/ (s = s_e8c8 /\ piece_on p 60 = King /\ turn p = Black)))).
Proof. exact parse_move_sound. Qed.
Theorem C11_parse_rejects : forall p s,
  (forall m, In m (legal_moves p) -> move_text m <> s) ->
  s <> s_e1g1 -> s <> s_e1c1 -> s <> s_e8g8 -> s <> s_e8c8 -> parse_move p s = None.
Proof. exact parse_move_rejects. Qed.
Theorem C11_text_accepted : forall p m, In m (legal_moves p) -> exists m', parse_move p (move_text m) = Some m'.
Proof. exact parse_move_accepts_text. Qed.
Theorem C11_move_string_dfrc : forall p m, move_string p m true = move_text m.
Proof. exact move_string_dfrc. Qed.
Theorem C11_move_string_std : forall p m, move_string p m false =
  match m_type m, turn p with
  | Ksc, White => s_e1g1 | Ksc, Black => s_e8g8 | Qsc, White => s_e1c1 | Qsc, Black => s_e8c8 | _, _ => move_text m end.
Proof. exact move_string_std. Qed.
Theorem C11_text_shape : forall m, legal_promo_field (m_promo m) = true ->
  move_text m = sq_string (m_from m) ++ sq_string (m_to m) ++
                match m_promo m with Knight => [110] | Bishop => [98] | Rook => [114] | Queen => [113] | _ => [] end.
Proof. exact move_text_shape. Qed.

Theorem C11_text_returns_move : forall dfrc p m, wf p = true -> rooks_ok p -> legal_consistent dfrc (abs p) = true ->
  In m (legal_moves p) -> parse_move p (move_text m) = Some m.
Proof. exact parse_text_returns_move. Qed.
Theorem C11_move_string_returns_move : forall dfrc p m, wf p = true -> rooks_ok p -> legal_consistent dfrc (abs p) = true ->
  In m (legal_moves p) -> parse_move p (move_string p m dfrc) = Some m.
Proof. exact parse_string_returns_move. Qed.
Theorem C11_text_injective : forall dfrc p, wf p = true -> rooks_ok p -> legal_consistent dfrc (abs p) = true ->
  forall m1 m2, In m1 (spec_moves (abs p)) -> In m2 (spec_moves (abs p)) -> move_text m1 = move_text m2 -> m1 = m2.
Proof. exact spec_text_injective. Qed.
Theorem C11_rejects_other_strings : forall p s,
  (forall m, In m (legal_moves p) -> move_text m <> s /\ move_string p m false <> s) -> parse_move p s = None.
Proof. exact parse_rejects_strings. Qed.

Print Assumptions C11_text_returns_move. Print Assumptions C11_move_string_returns_move. Print Assumptions C11_text_injective.
Print Assumptions C11_rejects_other_strings.
Print Assumptions C11_parse_sound. Print Assumptions C11_parse_rejects. Print Assumptions C11_text_accepted.
Print Assumptions C11_move_string_dfrc. Print Assumptions C11_move_string_std. Print Assumptions C11_text_shape.
