(* Properties_C12.v — predict_hash(m) equals the hash the position has after makemove(m).
   Holds for ANY key values (K is universally quantified) and any position; [fits_hash] is the shape
   every generated move has (promotions are pawn moves, castling moves are king moves, a double push
   lands on the fourth/fifth rank).  The model follows the REPAIRED predict_hash.cpp; for the pinned
   tree's version the statement is refuted by a concrete Chess960 witness (defect D2).  Statements only. *)
From Coq Require Import NArith List Bool String.
From LC Require Import Bits Types BitboardModel MoveModel ZobristModel PositionModel MovegenModel MakeModel FenModel
  MakeFacts MovegenFacts Strings.
From LC.Gen Require Import ZobristKeys.
Import ListNotations.
Local Open Scope N_scope.

Theorem C12_predict_hash : forall K p m, fits_hash p m -> predict_hash K p m = hash (makemove K p m).
Proof. exact predict_hash_eq. Qed.
Theorem C12_predict_hash_generated : forall K p m, In m (legal_moves p) -> predict_hash K p m = hash (makemove K p m).
Proof. exact (fun K p m H => predict_hash_eq K p m (legal_moves_fits_hash p m H)). Qed.

(* the version before "fix: predict_hash castling keys follow the stored rook squares": king b1, castling
   rook c1 (Chess960); the rook leaves c1, makemove drops the right and its key, the old predict_hash did not *)
Theorem C12_predict_hash_orig_refuted :
  exists p m, In m (legal_moves p) /\ predict_hash_orig zk p m <> hash (makemove zk p m).
Proof.
  exists (set_fen zk (s2l "1k6/8/8/8/8/8/8/1KR5 w C - 0 1") true), (mkMove Normal 2 34 Rook NoPiece NoPiece).
  split; [vm_compute; tauto|]. vm_compute. discriminate.
Qed.

Example C12_example :
  let p := set_fen zk (s2l "1k6/8/8/8/8/8/8/1KR5 w C - 0 1") true in
  let m := mkMove Normal 2 34 Rook NoPiece NoPiece in
  In m (legal_moves p) /\ predict_hash zk p m = hash (makemove zk p m) /\ valid zk p = true.
Proof. vm_compute. repeat split; tauto. Qed.

Print Assumptions C12_predict_hash. Print Assumptions C12_predict_hash_generated. Print Assumptions C12_predict_hash_orig_refuted.
