(* Properties_C13.v — pinned() reports exactly the absolutely pinned pieces of the requested side, whether or
   not that side is to move.  [spec_pin_pred b s k x] (the body of the specification's spec_pinned): x holds a piece
   of s, is not s's king, and some enemy bishop/queen on a diagonal or enemy rook/queen on a rank or file of the
   king square k has x as the ONLY piece strictly between it and k.  The model follows the REPAIRED pinned.cpp;
   the pinned tree's version (enemy sliders chosen by the side to move) is refuted by a kernel-evaluated witness
   (defect D3).  Statements only. *)
From Coq Require Import NArith List Bool String.
From LC Require Import Bits Types BitboardModel MoveModel ZobristModel PositionModel FenModel Spec.Rules
  Refine.Abs Refine.Board Refine.Wf AttackFacts PinFacts Strings.
From LC.Gen Require Import ZobristKeys.
Import ListNotations.
Local Open Scope N_scope.

Theorem C13_pinned_exact : forall p f s k x, rep (brd p) f -> k < 64 -> x < 64 ->
  N.testbit (pinned_s_sq p s k) x = spec_pin_pred (board_of f) s k x.
Proof. exact pinned_exact. Qed.
Theorem C13_pinned_iteration : forall p f s k, rep (brd p) f -> find_king (board_of f) s = Some k ->
  bb_squares (pinned_s p s) = spec_pinned (board_of f) s.
Proof. exact pinned_list. Qed.
Theorem C13_default_side : forall p, pinned p = pinned_s p (turn p).
Proof. reflexivity. Qed.

(* before "fix: pinned(Side) looks for the queried side's enemy sliders": White to move, Black queried *)
Theorem C13_pinned_orig_refuted :
  exists p s, valid zk p = true /\ pinned_s_orig p s <> pinned_s p s.
Proof.
  exists (set_fen zk (s2l "4k3/4n3/8/8/8/8/4R3/4K3 w - - 0 1") false), Black.
  split; [vm_compute; reflexivity|vm_compute; discriminate].
Qed.
Example C13_example :
  let p := set_fen zk (s2l "4k3/4n3/8/8/8/8/4R3/4K3 w - - 0 1") false in
  wf p = true /\ bb_squares (pinned_s p Black) = [52] /\ bb_squares (pinned_s p White) = [].
Proof. vm_compute. repeat split; reflexivity. Qed.

Print Assumptions C13_pinned_exact. Print Assumptions C13_pinned_iteration. Print Assumptions C13_default_side.
Print Assumptions C13_pinned_orig_refuted.
