(* Properties_C14.v — attack tables equal the geometric definition for every square and occupancy.
   The (multiplier, offset) tables and the table size are REGENERATED from the current source
   (Gen/MagicTables.v).  [table_sweep] is evaluated by the kernel (vm_compute) over all 107 648
   (square, subset of the relevant mask) pairs of the filled 88 772-slot array; MagicFacts lifts it to all
   2^64 occupancies.  [between], [same_line], [same_diag], [piece_attacks] are the specification's geometry. *)
From Coq Require Import NArith ZArith List Bool.
From LC Require Import Bits BitsFacts Types BitboardModel MagicModel MagicFacts Spec.Rules.
From LC.Gen Require Import MagicTables.
Import ListNotations.
Local Open Scope N_scope.

Lemma table_sweep : table_ok bishop_stuff rook_stuff magic_size (magic_moves bishop_stuff rook_stuff) = true.
Proof. vm_compute. reflexivity. Qed.

(* the lookups of movegen.cpp, for ALL occupancies: what the table filler computes by walking the rays,
   and every index stays inside the array *)
Theorem C14_rook_lookup : forall sq occ, sq < 64 ->
  rook_moves_tbl rook_stuff (magic_moves bishop_stuff rook_stuff) sq occ = rook_moves sq occ /\ r_index rook_stuff sq occ < magic_size.
Proof. exact (rook_lookup_exact bishop_stuff rook_stuff magic_size table_sweep). Qed.
Theorem C14_bishop_lookup : forall sq occ, sq < 64 ->
  bishop_moves_tbl bishop_stuff (magic_moves bishop_stuff rook_stuff) sq occ = bishop_moves sq occ /\ b_index bishop_stuff sq occ < magic_size.
Proof. exact (bishop_lookup_exact bishop_stuff rook_stuff magic_size table_sweep). Qed.

(* ... which is exactly: t is reached iff it is aligned with sq and no occupied square lies strictly between *)
Theorem C14_rook_geometric : forall sq occ t, sq < 64 -> t < 64 ->
  N.testbit (rook_moves sq occ) t = negb (sq =? t) && same_line sq t && clear_on occ (between sq t).
Proof. exact rook_moves_geometric. Qed.
Theorem C14_bishop_geometric : forall sq occ t, sq < 64 -> t < 64 ->
  N.testbit (bishop_moves sq occ) t = negb (sq =? t) && same_diag sq t && clear_on occ (between sq t).
Proof. exact bishop_moves_geometric. Qed.
Theorem C14_queen_is_union : forall sq occ t, sq < 64 -> t < 64 ->
  N.testbit (queen_moves sq occ) t = negb (sq =? t) && (same_diag sq t || same_line sq t) && clear_on occ (between sq t).
Proof. exact queen_moves_geometric. Qed.
Theorem C14_knight : forall sq t b s, sq < 64 -> t < 64 -> N.testbit (knight_moves sq) t = piece_attacks b s Knight sq t.
Proof. exact knight_moves_geometric. Qed.
Theorem C14_king : forall sq t b s, sq < 64 -> t < 64 -> N.testbit (king_moves sq) t = piece_attacks b s King sq t.
Proof. exact king_moves_geometric. Qed.

(* the result never depends on occupied squares that are not on the piece's lines *)
Theorem C14_rook_ignores_offline : forall sq occ occ', sq < 64 ->
  (forall s, s < 64 -> same_line sq s = true -> N.testbit occ s = N.testbit occ' s) -> rook_moves sq occ = rook_moves sq occ'.
Proof. exact rook_ignores_offline. Qed.
Theorem C14_bishop_ignores_offline : forall sq occ occ', sq < 64 ->
  (forall s, s < 64 -> same_diag sq s = true -> N.testbit occ s = N.testbit occ' s) -> bishop_moves sq occ = bishop_moves sq occ'.
Proof. exact bishop_ignores_offline. Qed.

Example C14_example : rook_moves_tbl rook_stuff (magic_moves bishop_stuff rook_stuff) 27 0x0000000800001000 = 0x00000008f7080808.
Proof. vm_compute. reflexivity. Qed.

Print Assumptions C14_rook_lookup. Print Assumptions C14_bishop_lookup. Print Assumptions C14_rook_geometric.
Print Assumptions C14_bishop_geometric. Print Assumptions C14_queen_is_union. Print Assumptions C14_knight.
Print Assumptions C14_king. Print Assumptions C14_rook_ignores_offline. Print Assumptions C14_bishop_ignores_offline.
