(* Properties_C15.v — the hash distinguishes positions: no structural collisions.
   The keys are the values RETURNED by zobrist::{turn_key, castling_key, ep_key, piece_key} for every
   argument, regenerated from the current source into Gen/ZobristKeys.v (so an index formula that
   aliases two entries shows up as a duplicate).  Statements only. *)
From Coq Require Import NArith List Bool.
From LC Require Import Bits Types BitboardModel ZobristModel ZobristFacts ZobristFour.
From LC.Gen Require Import ZobristKeys.
Import ListNotations.
Local Open Scope N_scope.

Definition keys781 : list N := all_keys zk.

Lemma keys_nz : forallb (fun k => negb (k =? 0)) keys781 = true. Proof. vm_compute. reflexivity. Qed.
Lemma keys_nodupb : nodupb keys781 = true. Proof. vm_compute. reflexivity. Qed.
Lemma keys_len : length keys781 = 781%nat. Proof. vm_compute. reflexivity. Qed.

Theorem C15_count : length keys781 = 781%nat /\ length (zk_castling zk) = 4%nat /\ length (zk_ep zk) = 8%nat /\ length (zk_piece zk) = 768%nat.
Proof. vm_compute. repeat split; reflexivity. Qed.
Theorem C15_nonzero : forall k, In k keys781 -> k <> 0.
Proof. exact (key_nonzero keys781 keys_nz). Qed.
Theorem C15_pairwise_distinct : NoDup keys781.
Proof. exact (nodupb_sound keys781 keys_nodupb). Qed.
(* ep_key(sq) depends on the file of sq only: 64 returned values, 8 distinct *)
Theorem C15_ep_key_by_file : forallb (fun sq => nth (N.to_nat sq) keys_ep64 0 =? nth (N.to_nat (sq mod 8)) keys_ep64 0) all64 = true.
Proof. vm_compute. reflexivity. Qed.
Theorem C15_piece_index_injective : forall p1 s1 q1 p2 s2 q2,
  p1 <> NoPiece -> p2 <> NoPiece -> q1 < 64 -> q2 < 64 ->
  piece_index p1 s1 q1 = piece_index p2 s2 q2 -> p1 = p2 /\ s1 = s2 /\ q1 = q2.
Proof. exact piece_index_injective. Qed.

(* feature sets (lists of keys XORed together) that differ in exactly one or two features never share a hash *)
Theorem C15_differ_in_one : forall common k, In k keys781 -> xor_all (common ++ [k]) <> xor_all common.
Proof. exact (differ_one keys781 keys_nz). Qed.
Theorem C15_differ_in_two_same_side : forall common i j, (i < 781)%nat -> (j < 781)%nat -> i <> j ->
  xor_all (common ++ [nth i keys781 0; nth j keys781 0]) <> xor_all common.
Proof.
  exact (fun common i j Hi Hj => differ_two_same_side keys781 (nodupb_sound keys781 keys_nodupb) common i j
           (eq_ind_r (fun n => (i < n)%nat) Hi keys_len) (eq_ind_r (fun n => (j < n)%nat) Hj keys_len)).
Qed.
Theorem C15_differ_in_two_opposite : forall common i j, (i < 781)%nat -> (j < 781)%nat -> i <> j ->
  xor_all (common ++ [nth i keys781 0]) <> xor_all (common ++ [nth j keys781 0]).
Proof.
  exact (fun common i j Hi Hj => differ_two_opposite keys781 (nodupb_sound keys781 keys_nodupb) common i j
           (eq_ind_r (fun n => (i < n)%nat) Hi keys_len) (eq_ind_r (fun n => (j < n)%nat) Hj keys_len)).
Qed.

(* beyond the property: THREE and FOUR differing features too — no XOR of one to four distinct keys of the regenerated
   table is zero (all 305 372 values 0, k, k1^k2 are pairwise distinct: sorted and compared by the kernel's VM) *)
Theorem C15_no_zero_xor_upto_four : forall ks, NoDup ks -> incl ks keys781 -> (1 <= length ks <= 4)%nat -> xor_all ks <> 0.
Proof. exact no_zero_xor_upto4. Qed.
Theorem C15_differ_in_upto_four : forall common A B, NoDup (A ++ B) -> incl (A ++ B) keys781 -> (1 <= length A + length B <= 4)%nat ->
  xor_all (common ++ A) <> xor_all (common ++ B).
Proof. exact differ_upto4. Qed.

Print Assumptions C15_no_zero_xor_upto_four. Print Assumptions C15_differ_in_upto_four.
Print Assumptions C15_count. Print Assumptions C15_nonzero. Print Assumptions C15_pairwise_distinct.
Print Assumptions C15_ep_key_by_file. Print Assumptions C15_piece_index_injective.
Print Assumptions C15_differ_in_one. Print Assumptions C15_differ_in_two_same_side. Print Assumptions C15_differ_in_two_opposite.
