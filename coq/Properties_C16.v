(* Properties_C16.v — Bitboard and Square behave as sets of squares and board coordinates.
   Statements only; every proof is `exact <lemma>`.  a, b range over ALL 64-bit words, i over the
   64 squares, (x, y) over all 4096 square pairs.  mem b i := N.testbit b i. *)
From Coq Require Import NArith ZArith List Bool.
From LC Require Import Bits BitsFacts Types BitboardModel BitboardFacts Spec.Rules.
Import ListNotations.
Local Open Scope N_scope.

(* membership, insertion, the Boolean algebra *)
Theorem C16_get : forall b sq, bb_get b sq = mem b sq.
Proof. exact bb_get_spec. Qed.
Theorem C16_set : forall b sq i, sq < 64 -> mem (bb_set b sq) i = mem b i || (i =? sq).
Proof. exact bb_set_spec. Qed.
Theorem C16_and : forall a b i, mem (bb_and a b) i = mem a i && mem b i.
Proof. exact bb_and_spec. Qed.
Theorem C16_or : forall a b i, mem (bb_or a b) i = mem a i || mem b i.
Proof. exact bb_or_spec. Qed.
Theorem C16_xor : forall a b i, mem (bb_xor a b) i = xorb (mem a i) (mem b i).
Proof. exact bb_xor_spec. Qed.
Theorem C16_not : forall a i, i < 64 -> mem (bb_not a) i = negb (mem a i).
Proof. exact bb_not_spec. Qed.
Theorem C16_empty : forall a, bb_empty a = true <-> forall i, mem a i = false.
Proof. exact bb_empty_spec. Qed.

(* iteration visits every member exactly once, in ascending order; count is the number of members *)
Theorem C16_iteration : forall a, a < two64 -> bb_squares a = filter (mem a) all64.
Proof. exact bb_squares_members. Qed.
Theorem C16_count : forall a, a < two64 -> bb_count a = N.of_nat (length (filter (mem a) all64)).
Proof. exact bb_count_members. Qed.

(* lowest and highest member *)
Theorem C16_lsb : forall a, 0 < a -> a < two64 ->
  bb_lsb a < 64 /\ mem a (bb_lsb a) = true /\ forall j, j < bb_lsb a -> mem a j = false.
Proof. exact bb_lsb_spec. Qed.
Theorem C16_hsb : forall a, 0 < a -> a < two64 ->
  bb_hsb a < 64 /\ mem a (bb_hsb a) = true /\ forall j, bb_hsb a < j -> mem a j = false.
Proof. exact bb_hsb_spec. Qed.

(* the steps move every member one square and never wrap round an edge:
   i is in step(a) iff the square one step back from i is on the board and in a *)
Theorem C16_north : forall a i, i < 64 -> a < two64 -> mem (north a) i = came_from 0 1 a i.
Proof. exact came_from_north. Qed.
Theorem C16_south : forall a i, i < 64 -> a < two64 -> mem (south a) i = came_from 0 (-1) a i.
Proof. exact came_from_south. Qed.
Theorem C16_east : forall a i, i < 64 -> mem (east a) i = came_from 1 0 a i.
Proof. exact came_from_east. Qed.
Theorem C16_west : forall a i, i < 64 -> mem (west a) i = came_from (-1) 0 a i.
Proof. exact came_from_west. Qed.
Theorem C16_adjacent : forall a i, a < two64 -> i < 64 ->
  mem (adjacent a) i = existsb (fun d => came_from (fst d) (snd d) a i) neighbours8.
Proof. exact adjacent_spec. Qed.

(* squares_between: exactly the squares strictly between, for all 4096 pairs; [between] is the
   specification's geometric definition (Spec/Rules.v) and is [] for unaligned pairs *)
Theorem C16_squares_between : forall x y s, x < 64 -> y < 64 ->
  mem (squares_between x y) s = existsb (N.eqb s) (between x y).
Proof. exact squares_between_exact. Qed.

(* Square <-> (file, rank) <-> algebraic text; flip mirrors the rank (finite domains, decided by sweep) *)
Theorem C16_square : forallb (fun s =>
    (sq_of_fr (sq_file s) (sq_rank s) =? s) && (sq_file s <? 8) && (sq_rank s <? 8) &&
    (sq_of_int s =? s) &&
    (sq_file (sq_flip s) =? sq_file s) && (sq_rank (sq_flip s) =? 7 - sq_rank s) && (sq_flip (sq_flip s) =? s) &&
    (match sq_string s with [c0; c1] => (sq_of_chars c0 c1 =? s) && (c0 =? 97 + sq_file s) && (c1 =? 49 + sq_rank s) | _ => false end) &&
    sq_valid s && Bool.eqb (sq_light s) (negb ((sq_file s + sq_rank s) mod 2 =? 0))) all64 = true.
Proof. exact square_sweep. Qed.
Theorem C16_square_of_file_rank : forallb (fun f => forallb (fun r =>
    (sq_file (sq_of_fr f r) =? f) && (sq_rank (sq_of_fr f r) =? r) && (sq_of_fr f r <? 64)) [0;1;2;3;4;5;6;7]) [0;1;2;3;4;5;6;7] = true.
Proof. exact square_fr_sweep. Qed.

(* non-vacuity: a concrete word meets the hypotheses *)
Example C16_example : let a := 0x8100000000000081 in
  a < two64 /\ bb_squares a = [0; 7; 56; 63] /\ bb_count a = 4 /\ bb_lsb a = 0 /\ bb_hsb a = 63 /\ east a = 0x0200000000000002.
Proof. vm_compute. repeat split; reflexivity. Qed.

Print Assumptions C16_get. Print Assumptions C16_set. Print Assumptions C16_and. Print Assumptions C16_or.
Print Assumptions C16_xor. Print Assumptions C16_not. Print Assumptions C16_empty. Print Assumptions C16_iteration.
Print Assumptions C16_count. Print Assumptions C16_lsb. Print Assumptions C16_hsb. Print Assumptions C16_north.
Print Assumptions C16_south. Print Assumptions C16_east. Print Assumptions C16_west. Print Assumptions C16_adjacent.
Print Assumptions C16_squares_between. Print Assumptions C16_square. Print Assumptions C16_square_of_file_rank.
