(* Properties_C17.v — Move is a lossless record of its six fields.  The bit layout is the one
   REGENERATED from the current source (Gen/MoveLayout.v: where the constructor puts each field,
   what each accessor reads); the theorems cover all 8 x 64 x 64 x 7 x 7 x 7 field combinations
   (a structural proof over the layout, not an enumeration).  Statements only. *)
From Coq Require Import NArith List Bool.
From LC Require Import Bits Types BitboardModel MoveModel MoveFacts.
From LC.Gen Require Import MoveLayout.
Import ListNotations.
Local Open Scope N_scope.

Lemma gen_layout_ok : layout_ok ctor_layout acc_layout = true. Proof. vm_compute. reflexivity. Qed.

Theorem C17_accessors : forall (t : mtype) (fr to : N) (pc cap pr : piece), fr < 64 -> to < 64 ->
  let d := pack ctor_layout (mtype_to_N t) fr to (piece_to_N pc) (piece_to_N cap) (piece_to_N pr) in
  mtype_of_N (get_type acc_layout d) = t /\ get_from acc_layout d = fr /\ get_to acc_layout d = to /\
  piece_of_N (get_piece acc_layout d) = pc /\ piece_of_N (get_cap acc_layout d) = cap /\ piece_of_N (get_promo acc_layout d) = pr.
Proof. exact (fun t fr to pc cap pr => accessors_exact ctor_layout acc_layout t fr to pc cap pr gen_layout_ok). Qed.

Theorem C17_roundtrip : forall m, move_in_range m -> unpack_move acc_layout (pack_move ctor_layout m) = m.
Proof. exact (fun m => unpack_pack ctor_layout acc_layout m gen_layout_ok). Qed.

Theorem C17_equality : forall m1 m2, move_in_range m1 -> move_in_range m2 ->
  (packed_eqb (pack_move ctor_layout m1) (pack_move ctor_layout m2) = true <-> m1 = m2).
Proof. exact (fun m1 m2 => packed_eq_iff ctor_layout acc_layout m1 m2 gen_layout_ok). Qed.

Theorem C17_is_capturing : forall m, move_in_range m ->
  packed_is_capturing acc_layout (pack_move ctor_layout m) =
  match m_type m with Capture | PromoCapture | Enpassant => true | _ => false end.
Proof. exact (fun m => packed_is_capturing_iff ctor_layout acc_layout m gen_layout_ok). Qed.

Theorem C17_is_promoting : forall m, move_in_range m ->
  packed_is_promoting acc_layout (pack_move ctor_layout m) =
  match m_type m with Promo | PromoCapture => true | _ => false end.
Proof. exact (fun m => packed_is_promoting_iff ctor_layout acc_layout m gen_layout_ok). Qed.

Theorem C17_text : forall m, legal_promo_field (m_promo m) = true ->
  move_text_with promo_letters m =
  sq_string (m_from m) ++ sq_string (m_to m) ++
  match m_promo m with Knight => [110] | Bishop => [98] | Rook => [114] | Queen => [113] | _ => [] end.
Proof. exact (fun m => move_text_spec promo_letters m eq_refl). Qed.

Example C17_example :
  let m := mkMove PromoCapture 52 61 Pawn Rook Queen in
  move_in_range m /\ pack_move ctor_layout m = 9207668 /\ move_text_with promo_letters m = [101; 55; 102; 56; 113].
Proof. vm_compute. repeat split; reflexivity. Qed.

Print Assumptions C17_accessors. Print Assumptions C17_roundtrip. Print Assumptions C17_equality.
Print Assumptions C17_is_capturing. Print Assumptions C17_is_promoting. Print Assumptions C17_text.
