(* Properties_C18.v — passed_pawns(s) is exactly the set of s's passed pawns, for either side queried.
   [in_front s e x]: the enemy pawn e stands on x's own or an adjacent file, on a rank in front of x
   (towards s's promotion).  Holds for ALL pawn sets on ranks 2-7 (the hypothesis is needed: the fill
   reaches 5-7 ranks, see PawnFacts.shades; it is part of legal-consistency).  Statements only. *)
From Coq Require Import NArith List Bool.
From LC Require Import Bits BitsFacts Types BitboardModel PositionModel Spec.Rules PawnFacts.
Import ListNotations.
Local Open Scope N_scope.

Theorem C18_passed_pawns_exact : forall p s x,
  b_pawn (brd p) < two64 -> pawns_on_ranks_2_7 p -> N.land (b_white (brd p)) (b_black (brd p)) = 0 -> x < 64 ->
  N.testbit (passed_pawns_s p s) x =
  N.testbit (pieces p s Pawn) x && negb (existsb (fun e => N.testbit (pieces p (opp_side s) Pawn) e && in_front s e x) all64).
Proof. exact passed_pawns_exact. Qed.

(* without the rank hypothesis: the exact reach of the fill (kernel sweep of the 64 single-pawn inputs, lifted) *)
Theorem C18_passed_pawns_bits : forall p s x, b_pawn (brd p) < two64 -> x < 64 ->
  N.testbit (passed_pawns_s p s) x =
  N.testbit (pieces p s Pawn) x && negb (existsb (fun e => N.testbit (pieces p (opp_side s) Pawn) e && shades s e x) all64).
Proof. exact passed_pawns_bits. Qed.

Theorem C18_default_side : forall p, passed_pawns p = passed_pawns_s p (turn p).
Proof. reflexivity. Qed.

Print Assumptions C18_passed_pawns_exact. Print Assumptions C18_passed_pawns_bits. Print Assumptions C18_default_side.
