(* Properties_C19.v — independent Position objects are usable from different threads without races.
   STATUS: PARTIAL BY NATURE.  What a Gallina model carries:
     (1) Footprint: under every interleaving, threads whose writes stay in locations they own and whose
         other reads touch only a region nobody writes obtain the results of their sequential run, and no
         access of one thread conflicts with an access of another;
     (2) the hypothesis "nobody writes the shared region" for the library: the inventory of every object with
         static storage duration, REGENERATED from the current object files (nm) and sources into
         Gen/StaticInventory.v, contains only objects declared const (written by their initialiser alone) or
         owned by the toolchain, no function-local static, no thread_local, no mutable member, no const_cast.
   What it cannot exhibit — an actual data race, libstdc++ internals, initialisation order when the library
   is loaded while threads already run — is searched for by the ThreadSanitizer harness (tools/threads.cpp)
   in every check.  Statements only. *)
From Coq Require Import NArith List Bool String.
From LC Require Import Footprint.
From LC.Gen Require Import StaticInventory.
Import ListNotations.
Local Open Scope N_scope.

Theorem C19_interleavings_are_sequential : forall (owner : loc -> option tid) s t, sched_ok owner s ->
  forall m m', same_view owner t m m' -> same_view owner t (run s m) (run (only t s) m').
Proof. exact disjoint_footprints_sequential. Qed.

Theorem C19_no_conflicting_access : forall (owner : loc -> option tid) t u a b m l v, t <> u ->
  well_footed owner t a -> well_footed owner u b -> In (l, v) (a_writes a m) ->
  ~ In l (a_reads b) /\ (forall m' v', ~ In (l, v') (a_writes b m')).
Proof. exact no_conflicting_access. Qed.

Theorem C19_inventory_immutable :
  forallb snd writable_symbols = true /\ mutable_members = 0 /\ const_casts = 0 /\ thread_locals = 0 /\ local_statics = 0.
Proof. vm_compute. repeat split; reflexivity. Qed.

Print Assumptions C19_interleavings_are_sequential. Print Assumptions C19_no_conflicting_access. Print Assumptions C19_inventory_immutable.
