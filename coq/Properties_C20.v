(* Properties_C20.v — no assertion failure / memory error / UB on legal histories; valid() is sound.
   STATUS: PARTIAL BY NATURE.  Theorems (model level):
     - the rejection clause: valid() is false for a position with a missing or duplicated king, a pawn on the
       first or eighth rank, or the side not to move in check (contrapositive of valid_sound);
     - valid() implies the representation invariant wf, and wf is preserved by makemove for every move of the
       stated shape (C02) and restored exactly by undomove/undonull (C03);
     - every magic-table index is inside the 88 772-slot array for every occupancy (C14_*_lookup);
     - COMPLETENESS (ValidExact): valid() is TRUE on the whole domain (wf, rooks_ok, hash consistent, legal-consistent),
       hence after set_fen of a legal-consistent position and after every prefix of every history of generated
       moves, null moves played when not in check, and undos (C20_valid_on_histories); a null move played while in
       check makes valid() false (C20_null_in_check_invalid), so that side condition is necessary.
   Outside the model, decided by execution: assertion failures, out-of-bounds / use-after-free accesses, invalid
   shifts and other UB are searched for by running every correspondence script under the assertion + ASan/UBSan
   build and comparing its observations with the optimised build; heap behaviour of std::vector/std::string,
   uninitialised reads and compiler-specific UB are not expressible in the model.  Statements only. *)
From Coq Require Import NArith List Bool.
From LC Require Import Bits Types BitboardModel MoveModel ZobristModel PositionModel MakeModel Spec.Rules
  Refine.Abs Refine.Board Refine.Make Refine.Wf Refine.MakeAbs ValidFacts MakeFacts HashFacts FenModel MovegenModel ValidExact.
Import ListNotations.
Local Open Scope N_scope.

Theorem C20_valid_sound : forall K p, valid K p = true ->
  hash p = calculate_hash K p /\
  bb_count (pieces p White King) = 1 /\ bb_count (pieces p Black King) = 1 /\
  N.land (b_pawn (brd p)) (N.lor Rank1 Rank8) = 0 /\
  square_attacked p (king_position p (opp_side (turn p))) (turn p) = false /\
  N.land (b_white (brd p)) (b_black (brd p)) = 0.
Proof. exact valid_sound. Qed.
Theorem C20_valid_rejects : forall K p,
  bb_count (pieces p White King) <> 1 \/ bb_count (pieces p Black King) <> 1 \/
  N.land (b_pawn (brd p)) (N.lor Rank1 Rank8) <> 0 \/
  square_attacked p (king_position p (opp_side (turn p))) (turn p) = true ->
  valid K p = false.
Proof. exact valid_rejects. Qed.
Theorem C20_valid_implies_wf : forall K p, valid K p = true -> b_white (brd p) < two64 -> b_black (brd p) < two64 -> wf p = true.
Proof. exact valid_wf. Qed.
Theorem C20_wf_preserved_by_makemove : forall K p m,
  wf p = true -> rooks_ok p ->
  mfits (cell_of p) (turn p) m (rook_from_get p (side_to_N (turn p) * 2)) (rook_from_get p (side_to_N (turn p) * 2 + 1)) ->
  wf (makemove K p m) = true.
Proof. exact (fun K p m H1 H2 H3 => proj2 (makemove_refines K p m H1 H2 H3)). Qed.
Theorem C20_undo_restores_validity : forall K p m, move_fields_ok p m -> valid K (undomove (makemove K p m)) = valid K p.
Proof. intros K p m H. rewrite undo_make by exact H. reflexivity. Qed.

Theorem C20_valid_complete : forall K dfrc p, wf p = true -> rooks_ok p -> hash_ok K p -> legal_consistent dfrc (abs p) = true -> valid K p = true.
Proof. exact valid_complete. Qed.
Theorem C20_valid_on_histories : forall K dfrc fen ops,
  let p0 := set_fen K fen dfrc in
  wf p0 = true -> rooks_ok p0 -> legal_consistent dfrc (abs p0) = true -> hops_ok K (p0, []) ops ->
  forall n, inv5 K dfrc (fst (hrun K (firstn n ops) (p0, []))).
Proof. exact C20_valid_on_histories. Qed.
Theorem C20_null_in_check_invalid : forall K dfrc p, dom K dfrc p -> in_check p = true -> valid K (makenull K p) = false.
Proof. exact makenull_in_check_invalid. Qed.

Print Assumptions C20_valid_complete. Print Assumptions C20_valid_on_histories. Print Assumptions C20_null_in_check_invalid.
Print Assumptions C20_valid_sound. Print Assumptions C20_valid_rejects. Print Assumptions C20_valid_implies_wf.
Print Assumptions C20_wf_preserved_by_makemove. Print Assumptions C20_undo_restores_validity.
