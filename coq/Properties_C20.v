(* Properties_C20.v — no assertion failure / memory error / UB on legal histories; valid() is sound.
   STATUS: PARTIAL BY NATURE.  Theorems (model level):
     - the rejection clause: valid() is false for a position with a missing or duplicated king, a pawn on the
       first or eighth rank, or the side not to move in check (contrapositive of valid_sound);
     - valid() implies the representation invariant wf, and wf is preserved by makemove for every move of the
       stated shape (C02) and restored exactly by undomove/undonull (C03);
     - every magic-table index is inside the 88 772-slot array for every occupancy (C14_*_lookup).
   Outside the model, decided by execution: assertion failures, out-of-bounds / use-after-free accesses, invalid
   shifts and other UB are searched for by running every correspondence script under the assertion + ASan/UBSan
   build and comparing its observations with the optimised build; heap behaviour of std::vector/std::string,
   uninitialised reads and compiler-specific UB are not expressible in the model.  Statements only. *)
From Coq Require Import NArith List Bool.
From LC Require Import Bits Types BitboardModel MoveModel ZobristModel PositionModel MakeModel Spec.Rules
  Refine.Abs Refine.Board Refine.Make Refine.Wf Refine.MakeAbs ValidFacts MakeFacts.
Import ListNotations.
Local Open Scope N_scope.

Theorem C20_valid_sound : forall K p, valid K p = true ->
  hash p = calculate_hash K p /\
  bb_count (pieces p White King) = 1 /\ bb_count (pieces p Black King) = 1 /\
  N.land (b_pawn (brd p)) (N.lor Rank1 Rank8) = 0 /\
  square_attacked p (king_position p (opp_side (turn p))) (turn p) = false /\
  N.land (b_white (brd p)) (b_black (brd p)) = 0.
Proof. exact valid_sound. Qed.
Theorem C20_valid_rejects : forall K p,
  bb_count (pieces p White King) <> 1 \/ bb_count (pieces p Black King) <> 1 \/
  N.land (b_pawn (brd p)) (N.lor Rank1 Rank8) <> 0 \/
  square_attacked p (king_position p (opp_side (turn p))) (turn p) = true ->
  valid K p = false.
Proof. exact valid_rejects. Qed.
Theorem C20_valid_implies_wf : forall K p, valid K p = true -> b_white (brd p) < two64 -> b_black (brd p) < two64 -> wf p = true.
Proof. exact valid_wf. Qed.
Theorem C20_wf_preserved_by_makemove : forall K p m,
  wf p = true -> rooks_ok p ->
  mfits (cell_of p) (turn p) m (rook_from_get p (side_to_N (turn p) * 2)) (rook_from_get p (side_to_N (turn p) * 2 + 1)) ->
  wf (makemove K p m) = true.
Proof. exact (fun K p m H1 H2 H3 => proj2 (makemove_refines K p m H1 H2 H3)). Qed.
Theorem C20_undo_restores_validity : forall K p m, move_fields_ok p m -> valid K (undomove (makemove K p m)) = valid K p.
Proof. intros K p m H. rewrite undo_make by exact H. reflexivity. Qed.

Print Assumptions C20_valid_sound. Print Assumptions C20_valid_rejects. Print Assumptions C20_valid_implies_wf.
Print Assumptions C20_wf_preserved_by_makemove. Print Assumptions C20_undo_restores_validity.
