(* Refine/Abs.v — the abstraction function from model positions to spec positions (a readout,
   square by square) and the move-list canonicalisation used by statements and by the checker. *)
From Coq Require Import NArith List Bool.
From LC Require Import Bits Types BitboardModel PositionModel Spec.Rules.
Import ListNotations.
Local Open Scope N_scope.

Definition cell_of (p : position) (q : N) : cell :=
  match piece_on p q with
  | NoPiece => None
  | pc => Some (if N.testbit (occupancy_s p Black) q then Black else White, pc)
  end.
Definition abs_board (p : position) : sboard := map (cell_of p) all64.
Definition abs (p : position) : spos :=
  mkS (abs_board p) (turn p)
      (if c0 p then Some (r0 p) else None) (if c1 p then Some (r1 p) else None)
      (if c2 p then Some (r2 p) else None) (if c3 p then Some (r3 p) else None)
      (if ep p =? OffSq then None else Some (ep p))
      (halfmove p) (fullmove p).

(* representation invariant: the structural half of valid() *)
Definition wf_board (b : board) : bool :=
  (b_white b <? two64) && (b_black b <? two64) &&
  (N.land (b_white b) (b_black b) =? 0) &&
  pairwise_disjoint [b_pawn b; b_knight b; b_bishop b; b_rook b; b_queen b; b_king b] &&
  (N.lor (b_white b) (b_black b) =?
   N.lor (N.lor (N.lor (N.lor (N.lor (b_pawn b) (b_knight b)) (b_bishop b)) (b_rook b)) (b_queen b)) (b_king b)).
Definition wf (p : position) : bool := wf_board (brd p).
