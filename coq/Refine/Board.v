(* Refine/Board.v — the mailbox reading of the bitboard record.
   [rep b f]: the board record b represents the mailbox f (square -> cell), square by square; the paired XOR
   toggles of makemove add or remove one piece on one square. *)
From Coq Require Import NArith List Bool Lia Btauto.
From Coq Require Import ZifyBool ZifyN ZifyNat.
From LC Require Import Bits BitsFacts Types BitboardModel PositionModel BoardFacts Spec.Rules Refine.Abs.
Import ListNotations.
Local Open Scope N_scope.

Definition mb := N -> cell.

Definition holds (b : board) (q : N) (c : cell) : Prop :=
  (forall s, N.testbit (colour b s) q = match c with Some (s0, _) => side_eqb s s0 | None => false end) /\
  (forall pc, pc <> NoPiece -> N.testbit (pcs b pc) q = match c with Some (_, p0) => piece_eqb pc p0 | None => false end).

Definition board_lt (b : board) : Prop :=
  b_white b < two64 /\ b_black b < two64 /\ b_pawn b < two64 /\ b_knight b < two64 /\
  b_bishop b < two64 /\ b_rook b < two64 /\ b_queen b < two64 /\ b_king b < two64.

Definition no_ghost (c : cell) : Prop := match c with Some (_, NoPiece) => False | _ => True end.

Definition rep (b : board) (f : mb) : Prop :=
  (forall q, q < 64 -> holds b q (f q) /\ no_ghost (f q)) /\ board_lt b.

Definition upd (f : mb) (q : N) (c : cell) : mb := fun x => if x =? q then c else f x.

(* colours_[s] ^= sq; pieces_[pc] ^= sq *)
Definition toggle (b : board) (s : side) (pc : piece) (q : N) : board :=
  xor_pcs (xor_colour b s (bit q)) pc (bit q).

Lemma rep_ext b f g : rep b f -> (forall q, q < 64 -> f q = g q) -> rep b g.
Proof. intros [H1 H2] E. split; [|exact H2]. intros q Hq. rewrite <- (E q Hq). apply H1. exact Hq. Qed.

Lemma colour_lt b s : board_lt b -> colour b s < two64.
Proof. intros (H1 & H2 & H3 & H4 & H5 & H6 & H7 & H8). destruct s; cbn [colour]; assumption. Qed.
Lemma pcs_lt b pc : board_lt b -> pcs b pc < two64.
Proof. intros (H1 & H2 & H3 & H4 & H5 & H6 & H7 & H8). destruct pc; cbn [pcs]; try assumption. reflexivity. Qed.

Lemma toggle_lt b s pc q : board_lt b -> board_lt (toggle b s pc q).
Proof.
  intros H. unfold toggle, xor_pcs, xor_colour, upd_pcs, upd_colour, board_lt in *.
  destruct H as (H1 & H2 & H3 & H4 & H5 & H6 & H7 & H8). pose proof (bit_lt q) as Hb.
  destruct b, s, pc; cbn in *; repeat split; try assumption; apply lxor_lt; assumption.
Qed.

Lemma colour_toggle b s pc q s' x : q < 64 ->
  N.testbit (colour (toggle b s pc q) s') x = xorb (N.testbit (colour b s') x) (side_eqb s s' && (x =? q)).
Proof.
  intros Hq. unfold toggle. rewrite colour_xor_pcs, colour_xor_colour.
  destruct (side_eqb s s'); cbn [andb]; [rewrite N.lxor_spec, bit_spec by exact Hq; reflexivity|rewrite xorb_false_r; reflexivity].
Qed.
Lemma pcs_toggle b s pc q pc' x : q < 64 -> pc' <> NoPiece ->
  N.testbit (pcs (toggle b s pc q) pc') x = xorb (N.testbit (pcs b pc') x) (piece_eqb pc pc' && (x =? q)).
Proof.
  intros Hq Hp. unfold toggle. rewrite pcs_xor_pcs by exact Hp. rewrite pcs_xor_colour.
  destruct (piece_eqb pc pc'); cbn [andb]; [rewrite N.lxor_spec, bit_spec by exact Hq; reflexivity|rewrite xorb_false_r; reflexivity].
Qed.

(* adding a piece on an empty square / removing the piece standing on a square *)
Lemma toggle_add b f s pc q : rep b f -> q < 64 -> pc <> NoPiece -> f q = None ->
  rep (toggle b s pc q) (upd f q (Some (s, pc))).
Proof.
  intros [H Hlt] Hq Hpc Hf. split; [|apply toggle_lt; exact Hlt].
  intros x Hx. destruct (H x Hx) as [[Hc Hp] Hg]. unfold upd. split.
  - split.
    + intros s'. rewrite colour_toggle by exact Hq. rewrite Hc.
      destruct (N.eqb_spec x q) as [->|Hne].
      * rewrite Hf. rewrite andb_true_r. rewrite (side_eqb_sym_lemma s s'). apply xorb_false_l.
      * rewrite andb_false_r, xorb_false_r. reflexivity.
    + intros pc' Hp'. rewrite pcs_toggle by assumption. rewrite Hp by exact Hp'.
      destruct (N.eqb_spec x q) as [->|Hne].
      * rewrite Hf. rewrite andb_true_r. rewrite (piece_eqb_sym_lemma pc pc'). apply xorb_false_l.
      * rewrite andb_false_r, xorb_false_r. reflexivity.
  - destruct (x =? q); [cbn; destruct pc; try exact I; congruence|exact Hg].
Qed.

Lemma toggle_remove b f s pc q : rep b f -> q < 64 -> f q = Some (s, pc) ->
  rep (toggle b s pc q) (upd f q None).
Proof.
  intros [H Hlt] Hq Hf. split; [|apply toggle_lt; exact Hlt].
  assert (Hpc : pc <> NoPiece) by (destruct (H q Hq) as [_ Hg]; rewrite Hf in Hg; cbn in Hg; destruct pc; try discriminate; exact (fun _ => Hg)).
  intros x Hx. destruct (H x Hx) as [[Hc Hp] Hg]. unfold upd. split.
  - split.
    + intros s'. rewrite colour_toggle by exact Hq. rewrite Hc.
      destruct (N.eqb_spec x q) as [->|Hne].
      * rewrite Hf, andb_true_r, (side_eqb_sym_lemma s s'). apply xorb_nilpotent.
      * rewrite andb_false_r, xorb_false_r. reflexivity.
    + intros pc' Hp'. rewrite pcs_toggle by assumption. rewrite Hp by exact Hp'.
      destruct (N.eqb_spec x q) as [->|Hne].
      * rewrite Hf, andb_true_r, (piece_eqb_sym_lemma pc pc'). apply xorb_nilpotent.
      * rewrite andb_false_r, xorb_false_r. reflexivity.
  - destruct (x =? q); [exact I|exact Hg].
Qed.
