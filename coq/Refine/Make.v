(* Refine/Make.v — makemove refines the rules: the board after makemove represents the mailbox obtained
   by lifting the mover off its origin, removing what is captured and putting down what arrives. *)
From Coq Require Import NArith List Bool Lia Btauto.
From Coq Require Import ZifyBool ZifyN ZifyNat.
From LC Require Import Bits BitsFacts Types BitboardModel MoveModel ZobristModel PositionModel MakeModel BoardFacts MakeFacts
  Spec.Rules Refine.Abs Refine.Board.
Import ListNotations.
Local Open Scope N_scope.

Section Boards.
Variable K : zkeys.

Definition victim_sq (us : side) (to : N) : N := match us with White => sq_south to | Black => sq_north to end.

(* make_board is a sequence of single-square toggles (all XOR toggles commute) *)
Definition make_toggles (b : board) (us : side) (m : move) (rk rq : N) : board :=
  let them := opp_side us in
  let from := m_from m in let to := m_to m in
  let pc := m_piece m in let cap := m_cap m in let pr := m_promo m in
  match m_type m with
  | Normal | Double => toggle (toggle b us pc from) us pc to
  | Capture => toggle (toggle (toggle b us pc from) them cap to) us pc to
  | Enpassant => toggle (toggle (toggle b us pc from) them Pawn (victim_sq us to)) us pc to
  | Ksc => toggle (toggle (toggle (toggle b us pc from) us Rook rk) us pc (castle_king_to (side_to_N us * 2))) us Rook (ksc_rook_to us)
  | Qsc => toggle (toggle (toggle (toggle b us pc from) us Rook rq) us pc (castle_king_to (side_to_N us * 2 + 1))) us Rook (qsc_rook_to us)
  | Promo => toggle (toggle b us Pawn from) us pr to
  | PromoCapture => toggle (toggle (toggle b us Pawn from) them cap to) us pr to
  end.

Local Opaque N.lxor bit castle_king_to ksc_rook_to qsc_rook_to sq_south sq_north.

Lemma make_board_toggles b us m rk rq : make_board b us m rk rq = make_toggles b us m rk rq.
Proof.
  destruct m as [t from to pc cap pr]. apply board_ext.
  - intros s'. destruct t, us; unfold make_board, make_toggles, toggle, victim_sq;
      cbn [m_type m_from m_to m_piece m_cap m_promo opp_side side_to_N];
      read_board; destruct s'; cbn [side_eqb]; try reflexivity; xor_solve.
  - intros q Hq. destruct t, us; unfold make_board, make_toggles, toggle, victim_sq;
      cbn [m_type m_from m_to m_piece m_cap m_promo opp_side side_to_N];
      read_board; split_ifs; try reflexivity; try xor_solve.
Qed.
End Boards.

(* ---------- the shape precondition, on the mailbox ---------- *)
Definition mfits (f : mb) (us : side) (m : move) (rk rq : N) : Prop :=
  let them := opp_side us in
  let from := m_from m in let to := m_to m in
  let pc := m_piece m in let cap := m_cap m in let pr := m_promo m in
  from < 64 /\ to < 64 /\
  match m_type m with
  | Normal => f from = Some (us, pc) /\ f to = None /\ from <> to
  | Double => pc = Pawn /\ f from = Some (us, pc) /\ f to = None /\ from <> to /\ (us = White -> 8 <= to)
  | Capture => f from = Some (us, pc) /\ f to = Some (them, cap) /\ from <> to
  | Enpassant => pc = Pawn /\ cap = Pawn /\ f from = Some (us, Pawn) /\ f to = None /\ victim_sq us to < 64 /\
                 f (victim_sq us to) = Some (them, Pawn) /\ from <> to /\ victim_sq us to <> to /\ victim_sq us to <> from
  | Promo => pc = Pawn /\ pr <> NoPiece /\ f from = Some (us, Pawn) /\ f to = None /\ from <> to
  | PromoCapture => pc = Pawn /\ pr <> NoPiece /\ f from = Some (us, Pawn) /\ f to = Some (them, cap) /\ from <> to
  | Ksc =>
    let kto := castle_king_to (side_to_N us * 2) in let rto := ksc_rook_to us in
    pc = King /\ to = rk /\ f from = Some (us, King) /\ f rk = Some (us, Rook) /\ from <> rk /\
    (f kto = None \/ kto = from \/ kto = rk) /\ (f rto = None \/ rto = from \/ rto = rk)
  | Qsc =>
    let kto := castle_king_to (side_to_N us * 2 + 1) in let rto := qsc_rook_to us in
    pc = King /\ to = rq /\ f from = Some (us, King) /\ f rq = Some (us, Rook) /\ from <> rq /\
    (f kto = None \/ kto = from \/ kto = rq) /\ (f rto = None \/ rto = from \/ rto = rq)
  end.

(* the mailbox afterwards: lift the mover, remove what is captured, put down what arrives *)
Definition apply_mb (f : mb) (us : side) (m : move) (rk rq : N) : mb :=
  let from := m_from m in let to := m_to m in
  match m_type m with
  | Normal | Double | Capture => upd (upd f from None) to (Some (us, m_piece m))
  | Enpassant => upd (upd (upd f from None) (victim_sq us to) None) to (Some (us, Pawn))
  | Promo | PromoCapture => upd (upd f from None) to (Some (us, m_promo m))
  | Ksc => upd (upd (upd (upd f from None) rk None) (castle_king_to (side_to_N us * 2)) (Some (us, King))) (ksc_rook_to us) (Some (us, Rook))
  | Qsc => upd (upd (upd (upd f from None) rq None) (castle_king_to (side_to_N us * 2 + 1)) (Some (us, King))) (qsc_rook_to us) (Some (us, Rook))
  end.

Lemma upd_same f q c : upd f q c q = c. Proof. unfold upd. rewrite N.eqb_refl. reflexivity. Qed.
Lemma upd_other f q c x : x <> q -> upd f q c x = f x.
Proof. intros H. unfold upd. destruct (N.eqb_spec x q); [contradiction|reflexivity]. Qed.

Lemma king_to_lt i : castle_king_to i < 64.
Proof. unfold castle_king_to. repeat match goal with |- context [match ?x with _ => _ end] => destruct x end; lia. Qed.
Lemma ksc_rook_to_lt s : ksc_rook_to s < 64. Proof. destruct s; cbn; lia. Qed.
Lemma qsc_rook_to_lt s : qsc_rook_to s < 64. Proof. destruct s; cbn; lia. Qed.
Lemma king_rook_to_ne_k s : castle_king_to (side_to_N s * 2) <> ksc_rook_to s. Proof. destruct s; cbn; lia. Qed.
Lemma king_rook_to_ne_q s : castle_king_to (side_to_N s * 2 + 1) <> qsc_rook_to s. Proof. destruct s; cbn; lia. Qed.

Theorem make_board_rep b f us m rk rq : rk < 64 -> rq < 64 ->
  rep b f -> mfits f us m rk rq -> rep (make_board b us m rk rq) (apply_mb f us m rk rq).
Proof.
  intros Hrk Hrq Hrep Hfit. rewrite make_board_toggles.
  destruct Hrep as [Hh Hlt]. pose proof (conj Hh Hlt : rep b f) as Hrep.
  unfold mfits in Hfit. destruct Hfit as (Hfrom & Hto & Hfit).
  unfold make_toggles, apply_mb.
  assert (Hnp : forall q s pc, q < 64 -> f q = Some (s, pc) -> pc <> NoPiece).
  { intros q s pc Hq E. destruct (Hh q Hq) as [_ Hg]. rewrite E in Hg. cbn in Hg. destruct pc; try discriminate. contradiction. }
  destruct (m_type m).
  - (* Normal *) destruct Hfit as (E1 & E2 & Hne).
    apply toggle_add; [apply toggle_remove; assumption|exact Hto|exact (Hnp _ _ _ Hfrom E1)|rewrite upd_other by congruence; exact E2].
  - (* Capture *) destruct Hfit as (E1 & E2 & Hne).
    eapply rep_ext.
    + apply toggle_add; [apply toggle_remove; [apply toggle_remove; [exact Hrep|exact Hfrom|exact E1]|exact Hto|rewrite upd_other by congruence; exact E2]|exact Hto|exact (Hnp _ _ _ Hfrom E1)|apply upd_same].
    + intros q Hq. unfold upd. destruct (q =? m_to m); reflexivity.
  - (* Double *) destruct Hfit as (Ep & E1 & E2 & Hne & _).
    apply toggle_add; [apply toggle_remove; assumption|exact Hto|exact (Hnp _ _ _ Hfrom E1)|rewrite upd_other by congruence; exact E2].
  - (* Enpassant *) destruct Hfit as (Ep & Ec & E1 & E2 & Hv & E3 & N1 & N2 & N3). rewrite Ep.
    apply toggle_add; [apply toggle_remove; [apply toggle_remove; [exact Hrep|exact Hfrom|exact E1]|exact Hv|rewrite upd_other by congruence; exact E3]|exact Hto|discriminate|].
    rewrite upd_other by congruence. rewrite upd_other by congruence. exact E2.
  - (* Ksc *) destruct Hfit as (Ep & Et & E1 & E2 & Hne & Hk & Hr). rewrite Ep.
    apply toggle_add; [apply toggle_add; [apply toggle_remove; [apply toggle_remove; [exact Hrep|exact Hfrom|exact E1]|exact Hrk|rewrite upd_other by congruence; exact E2]|apply king_to_lt|discriminate|]|apply ksc_rook_to_lt|discriminate|].
    + unfold upd. destruct (N.eqb_spec (castle_king_to (side_to_N us * 2)) rk); [reflexivity|].
      destruct (N.eqb_spec (castle_king_to (side_to_N us * 2)) (m_from m)); [reflexivity|]. destruct Hk as [Hk|[Hk|Hk]]; congruence.
    + rewrite upd_other by (apply not_eq_sym, king_rook_to_ne_k).
      unfold upd. destruct (N.eqb_spec (ksc_rook_to us) rk); [reflexivity|].
      destruct (N.eqb_spec (ksc_rook_to us) (m_from m)); [reflexivity|]. destruct Hr as [Hr|[Hr|Hr]]; congruence.
  - (* Qsc *) destruct Hfit as (Ep & Et & E1 & E2 & Hne & Hk & Hr). rewrite Ep.
    apply toggle_add; [apply toggle_add; [apply toggle_remove; [apply toggle_remove; [exact Hrep|exact Hfrom|exact E1]|exact Hrq|rewrite upd_other by congruence; exact E2]|apply king_to_lt|discriminate|]|apply qsc_rook_to_lt|discriminate|].
    + unfold upd. destruct (N.eqb_spec (castle_king_to (side_to_N us * 2 + 1)) rq); [reflexivity|].
      destruct (N.eqb_spec (castle_king_to (side_to_N us * 2 + 1)) (m_from m)); [reflexivity|]. destruct Hk as [Hk|[Hk|Hk]]; congruence.
    + rewrite upd_other by (apply not_eq_sym, king_rook_to_ne_q).
      unfold upd. destruct (N.eqb_spec (qsc_rook_to us) rq); [reflexivity|].
      destruct (N.eqb_spec (qsc_rook_to us) (m_from m)); [reflexivity|]. destruct Hr as [Hr|[Hr|Hr]]; congruence.
  - (* Promo *) destruct Hfit as (Ep & Hpr & E1 & E2 & Hne).
    apply toggle_add; [apply toggle_remove; assumption|exact Hto|exact Hpr|rewrite upd_other by congruence; exact E2].
  - (* PromoCapture *) destruct Hfit as (Ep & Hpr & E1 & E2 & Hne).
    eapply rep_ext.
    + apply toggle_add; [apply toggle_remove; [apply toggle_remove; [exact Hrep|exact Hfrom|exact E1]|exact Hto|rewrite upd_other by congruence; exact E2]|exact Hto|exact Hpr|apply upd_same].
    + intros q Hq. unfold upd. destruct (q =? m_to m); reflexivity.
Qed.
