(* Refine/MakeAbs.v — C02: abs (makemove p m) = apply_move (abs p) m, all components, and wf is preserved. *)
From Coq Require Import NArith List Bool Lia.
From Coq Require Import ZifyBool ZifyN ZifyNat.
From LC Require Import Bits BitsFacts Types BitboardModel MoveModel ZobristModel PositionModel MakeModel BoardFacts MakeFacts
  Spec.Rules Refine.Abs Refine.Board Refine.Make Refine.Wf.
Import ListNotations.
Local Open Scope N_scope.

Lemma nth_all64 q d : q < 64 -> nth (N.to_nat q) all64 d = q.
Proof.
  intros H. unfold all64. rewrite (nth_indep _ d (N.of_nat 0)) by (rewrite map_length, seq_length; lia).
  rewrite map_nth, seq_nth by lia. lia.
Qed.
Lemma all64_squares : squares = all64. Proof. reflexivity. Qed.

Lemma at_sq_map (g : N -> cell) q : q < 64 -> at_sq (map g all64) q = g q.
Proof.
  intros H. unfold at_sq. rewrite (nth_indep _ None (g 0)) by (rewrite map_length; unfold all64; rewrite map_length, seq_length; lia).
  rewrite map_nth, nth_all64 by exact H. reflexivity.
Qed.
Lemma at_sq_abs_board p q : q < 64 -> at_sq (abs_board p) q = cell_of p q.
Proof. apply at_sq_map. Qed.
Lemma at_sq_put b x c q : q < 64 -> at_sq (put b x c) q = if q =? x then c else at_sq b q.
Proof. intros H. unfold put. rewrite all64_squares. apply (at_sq_map (fun y => if y =? x then c else at_sq b y)). exact H. Qed.

Lemma map_all64_ext (g h : N -> cell) : (forall q, q < 64 -> g q = h q) -> map g all64 = map h all64.
Proof. intros H. apply map_ext_in. intros q Hq. apply H. apply in_all64. exact Hq. Qed.
Lemma put_as_map b x c : put b x c = map (fun y => if y =? x then c else at_sq b y) all64.
Proof. reflexivity. Qed.

Lemma sq_south_small t : t < 64 -> sq_south t < 64 -> 8 <= t /\ sq_south t = t - 8.
Proof.
  intros H1 H2. unfold sq_south, u8 in *. change 255 with (N.ones 8) in *. rewrite N.land_ones in *.
  change (2 ^ 8) with 256 in *.
  destruct (N.lt_ge_cases t 8) as [Hl|Hl].
  - rewrite N.mod_small in H2 by lia. lia.
  - split; [exact Hl|]. replace (t + 248) with ((t - 8) + 1 * 256) by lia. rewrite N.mod_add by lia. apply N.mod_small. lia.
Qed.
Lemma sq_south_eq t : 8 <= t -> t < 64 -> sq_south t = t - 8.
Proof.
  intros H1 H2. unfold sq_south, u8. change 255 with (N.ones 8). rewrite N.land_ones. change (2 ^ 8) with 256.
  replace (t + 248) with ((t - 8) + 1 * 256) by lia. rewrite N.mod_add by lia. apply N.mod_small. lia.
Qed.
Lemma sq_north_eq t : t < 64 -> sq_north t = t + 8.
Proof. intros H. unfold sq_north, u8. change 255 with (N.ones 8). rewrite N.land_ones. change (2 ^ 8) with 256. apply N.mod_small. lia. Qed.

Definition rooks_ok (p : position) : Prop := r0 p < 64 /\ r1 p < 64 /\ r2 p < 64 /\ r3 p < 64.

Lemma rook_from_get_lt p s k : rooks_ok p -> rook_from_get p (side_to_N s * 2 + k) < 64.
Proof. intros (H0 & H1 & H2 & H3). unfold rook_from_get. repeat match goal with |- context [match ?x with _ => _ end] => destruct x end; assumption. Qed.

Section Abs.
Variable K : zkeys.

Lemma abs_board_makemove p m :
  wf p = true -> rooks_ok p ->
  mfits (cell_of p) (turn p) m (rook_from_get p (side_to_N (turn p) * 2)) (rook_from_get p (side_to_N (turn p) * 2 + 1)) ->
  abs_board (makemove K p m) = apply_board (abs_board p) (turn p) m /\ wf (makemove K p m) = true.
Proof.
  intros Hwf Hr Hfit.
  set (rk := rook_from_get p (side_to_N (turn p) * 2)) in *. set (rq := rook_from_get p (side_to_N (turn p) * 2 + 1)) in *.
  assert (Hrk : rk < 64) by (unfold rk; replace (side_to_N (turn p) * 2) with (side_to_N (turn p) * 2 + 0) by lia; apply rook_from_get_lt; exact Hr).
  assert (Hrq : rq < 64) by (apply rook_from_get_lt; exact Hr).
  pose proof (wf_rep (brd p) Hwf) as Hrep.
  pose proof (make_board_rep (brd p) (cell_of_b (brd p)) (turn p) m rk rq Hrk Hrq Hrep Hfit) as Hrep'.
  split; [|unfold wf; cbn [makemove brd]; exact (rep_wf _ _ Hrep')].
  unfold abs_board. 
  transitivity (map (apply_mb (cell_of_b (brd p)) (turn p) m rk rq) all64).
  { apply map_all64_ext. intros q Hq. rewrite cell_of_eq. cbn [makemove brd]. apply (rep_cell_of _ _ q Hrep' Hq). }
  unfold mfits in Hfit. destruct Hfit as (Hfrom & Hto & Hfit).
  unfold apply_board, apply_mb. fold (abs_board p).
  destruct (m_type m) eqn:Et.
  - rewrite !put_as_map. apply map_all64_ext. intros q Hq. unfold upd.
    destruct (q =? m_to m); [reflexivity|]. rewrite at_sq_map by exact Hq. destruct (q =? m_from m); [reflexivity|]. rewrite at_sq_abs_board by exact Hq. reflexivity.
  - rewrite !put_as_map. apply map_all64_ext. intros q Hq. unfold upd.
    destruct (q =? m_to m); [reflexivity|]. rewrite at_sq_map by exact Hq. destruct (q =? m_from m); [reflexivity|]. rewrite at_sq_abs_board by exact Hq. reflexivity.
  - rewrite !put_as_map. apply map_all64_ext. intros q Hq. unfold upd.
    destruct (q =? m_to m); [reflexivity|]. rewrite at_sq_map by exact Hq. destruct (q =? m_from m); [reflexivity|]. rewrite at_sq_abs_board by exact Hq. reflexivity.
  - (* en passant: the victim square *)
    destruct Hfit as (Ep & Ec & E1 & E2 & Hv & E3 & N1 & N2 & N3).
    assert (Ev : victim_sq (turn p) (m_to m) = match turn p with White => m_to m - 8 | Black => m_to m + 8 end).
    { unfold victim_sq in *. destruct (turn p); [apply (sq_south_small _ Hto Hv)|apply sq_north_eq; exact Hto]. }
    rewrite Ev. rewrite !put_as_map. apply map_all64_ext. intros q Hq. unfold upd.
    destruct (q =? m_to m); [reflexivity|]. rewrite at_sq_map by exact Hq.
    destruct (q =? match turn p with White => m_to m - 8 | Black => m_to m + 8 end); [reflexivity|]. rewrite at_sq_map by exact Hq.
    destruct (q =? m_from m); [reflexivity|]. rewrite at_sq_abs_board by exact Hq. reflexivity.
  - (* O-O *)
    destruct Hfit as (Ep & Etr & _). rewrite <- Etr.
    replace (castle_dest (turn p) Ksc) with (castle_king_to (side_to_N (turn p) * 2), ksc_rook_to (turn p)) by (destruct (turn p); reflexivity).
    rewrite !put_as_map. apply map_all64_ext. intros q Hq. unfold upd.
    destruct (q =? ksc_rook_to (turn p)); [reflexivity|]. rewrite at_sq_map by exact Hq.
    destruct (q =? castle_king_to (side_to_N (turn p) * 2)); [reflexivity|]. rewrite at_sq_map by exact Hq.
    destruct (q =? m_to m); [reflexivity|]. rewrite at_sq_map by exact Hq.
    destruct (q =? m_from m); [reflexivity|]. rewrite at_sq_abs_board by exact Hq. reflexivity.
  - (* O-O-O *)
    destruct Hfit as (Ep & Etr & _). rewrite <- Etr.
    replace (castle_dest (turn p) Qsc) with (castle_king_to (side_to_N (turn p) * 2 + 1), qsc_rook_to (turn p)) by (destruct (turn p); reflexivity).
    rewrite !put_as_map. apply map_all64_ext. intros q Hq. unfold upd.
    destruct (q =? qsc_rook_to (turn p)); [reflexivity|]. rewrite at_sq_map by exact Hq.
    destruct (q =? castle_king_to (side_to_N (turn p) * 2 + 1)); [reflexivity|]. rewrite at_sq_map by exact Hq.
    destruct (q =? m_to m); [reflexivity|]. rewrite at_sq_map by exact Hq.
    destruct (q =? m_from m); [reflexivity|]. rewrite at_sq_abs_board by exact Hq. reflexivity.
  - rewrite !put_as_map. apply map_all64_ext. intros q Hq. unfold upd.
    destruct (q =? m_to m); [reflexivity|]. rewrite at_sq_map by exact Hq. destruct (q =? m_from m); [reflexivity|]. rewrite at_sq_abs_board by exact Hq. reflexivity.
  - rewrite !put_as_map. apply map_all64_ext. intros q Hq. unfold upd.
    destruct (q =? m_to m); [reflexivity|]. rewrite at_sq_map by exact Hq. destruct (q =? m_from m); [reflexivity|]. rewrite at_sq_abs_board by exact Hq. reflexivity.
Qed.

Lemma lose_model (c : bool) (r : N) (km : bool) fr to :
  (if c && negb (km || (fr =? r) || (to =? r)) then Some r else None) = lose (if c then Some r else None) km fr to.
Proof. destruct c; cbn [lose andb]; [destruct (km || (fr =? r) || (to =? r)); reflexivity|reflexivity]. Qed.

Theorem makemove_refines p m :
  wf p = true -> rooks_ok p ->
  mfits (cell_of p) (turn p) m (rook_from_get p (side_to_N (turn p) * 2)) (rook_from_get p (side_to_N (turn p) * 2 + 1)) ->
  abs (makemove K p m) = apply_move (abs p) m /\ wf (makemove K p m) = true.
Proof.
  intros Hwf Hr Hfit. destruct (abs_board_makemove p m Hwf Hr Hfit) as [Hb Hw]. split; [|exact Hw].
  unfold abs at 1. rewrite Hb. unfold apply_move. cbn [abs s_board s_turn s_wk s_wq s_bk s_bq s_ep s_half s_full].
  unfold makemove. cbn [turn to_move c0 c1 c2 c3 r0 r1 r2 r3 ep halfmove fullmove].
  unfold mfits in Hfit. destruct Hfit as (Hfrom & Hto & Hfit).
  f_equal.
  - apply lose_model.
  - apply lose_model.
  - apply lose_model.
  - apply lose_model.
  - (* ep *)
    unfold make_ep. destruct (m_type m); try reflexivity.
    destruct Hfit as (_ & _ & _ & _ & Hw8). unfold turn in *. destruct (to_move p) eqn:Et.
    + rewrite sq_south_eq by (try exact Hto; apply Hw8; reflexivity).
      replace (m_to m - 8 =? OffSq) with false by (unfold OffSq; lia). reflexivity.
    + rewrite sq_north_eq by exact Hto. replace (m_to m + 8 =? OffSq) with false by (unfold OffSq; lia). reflexivity.
  - (* half-move clock *)
    unfold make_half. destruct (m_type m) eqn:Et; cbn [orb].
    + destruct (piece_eqb (m_piece m) Pawn); reflexivity.
    + rewrite orb_true_r. reflexivity.
    + destruct Hfit as (Ep & _). rewrite Ep. reflexivity.
    + rewrite orb_true_r. reflexivity.
    + destruct Hfit as (Ep & _). rewrite Ep. reflexivity.
    + destruct Hfit as (Ep & _). rewrite Ep. reflexivity.
    + destruct Hfit as (Ep & _). rewrite Ep. reflexivity.
    + rewrite orb_true_r. reflexivity.
  - (* full-move number *)
    unfold turn. destruct (to_move p); cbn [side_eqb b2n]; lia.
Qed.

Theorem makenull_refines p : abs (makenull K p) = apply_null (abs p) /\ (wf p = true -> wf (makenull K p) = true).
Proof. split; [reflexivity|intros H; exact H]. Qed.
End Abs.
