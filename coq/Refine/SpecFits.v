(* Refine/SpecFits.v — every move the specification's rules allow (pseudo-legal, hence every legal move) in a
   legal-consistent position has the shape [mfits] that C02 / C05 / C20 assume. *)
From Coq Require Import NArith ZArith List Bool Lia.
From Coq Require Import ZifyBool ZifyN ZifyNat.
From LC Require Import Bits BitsFacts Types BitboardModel MoveModel MoveFacts ZobristModel PositionModel MakeModel BoardFacts
  Spec.Rules Refine.Abs Refine.Board Refine.Make Refine.Wf Refine.MakeAbs.
Import ListNotations.
Local Open Scope N_scope.
Ltac Zify.zify_post_hook ::= Z.div_mod_to_equations.

Ltac crush H :=
  repeat match type of H with
         | In _ (_ ++ _) => apply in_app_or in H; destruct H as [H|H]
         | In _ (flat_map _ _) => apply in_flat_map in H; let x := fresh "x" in let Hx := fresh "Hx" in destruct H as [x [Hx H]]
         | In _ (map _ _) => apply in_map_iff in H; let x := fresh "x" in let Hx := fresh "Hx" in destruct H as [x [Hx H]]; subst
         | In _ [] => destruct H
         | In _ (_ :: _) => destruct H as [H|H]; [subst|]
         | In _ (if ?c then _ else _) => destruct c eqn:?
         | In _ (match ?o with Some _ => _ | None => _ end) => destruct o eqn:?
         | In _ (match ?o with (_, _) => _ end) => destruct o eqn:?
         end.

Lemma in_squares q : In q squares <-> q < 64.
Proof. rewrite all64_squares. apply in_all64. Qed.

Lemma opp_of_neq c s : side_eqb c s = false -> c = opp_side s.
Proof. destruct c, s; cbn; intros H; try discriminate; reflexivity. Qed.

Section Fits.
Variable p : position.
Let b := abs_board p.
Let f := cell_of p.
Let us := turn p.

Lemma at_b q : q < 64 -> at_sq b q = f q. Proof. apply at_sq_abs_board. Qed.

Lemma is_empty_f q : q < 64 -> is_empty b q = true -> f q = None.
Proof. intros Hq H. unfold is_empty in H. rewrite at_b in H by exact Hq. destruct (f q); [discriminate|reflexivity]. Qed.

(* non-pawn pieces *)
Lemma piece_candidates_fit fr pc m rk rq : fr < 64 -> f fr = Some (us, pc) ->
  In m (piece_candidates (abs p) fr pc) -> mfits f us m rk rq.
Proof.
  intros Hfr Hf H. unfold piece_candidates in H. cbn [abs s_board s_turn] in H. fold b in H.
  apply in_flat_map in H. destruct H as [to [Hto H]]. apply in_squares in Hto.
  destruct (piece_attacks b (turn p) pc fr to); [|destruct H]. rewrite at_b in H by exact Hto.
  destruct (f to) as [[c cp]|] eqn:Eto.
  - destruct (negb (side_eqb c (turn p)) && negb (piece_eqb cp King)) eqn:Ec; [|destruct H]. destruct H as [<-|[]].
    apply andb_true_iff in Ec. destruct Ec as [Ec _]. apply negb_true_iff, opp_of_neq in Ec. subst c.
    unfold mfits. cbn [m_type m_from m_to m_piece m_cap m_promo]. repeat split; try assumption.
    intros E. subst to. rewrite Hf in Eto. inversion Eto. destruct (turn p); discriminate.
  - destruct H as [<-|[]]. unfold mfits. cbn [m_type m_from m_to m_piece m_cap m_promo]. repeat split; try assumption.
    intros E. subst to. congruence.
Qed.

Lemma promo_pieces_not_none pr : In pr promo_pieces -> pr <> NoPiece.
Proof. unfold promo_pieces. intros H E. subst. cbn in H. repeat destruct H as [H|H]; try discriminate. exact H. Qed.

(* pawns *)
Lemma pawn_candidates_fit fr m rk rq : fr < 64 -> f fr = Some (us, Pawn) -> ep_ok (abs p) = true ->
  In m (pawn_candidates (abs p) fr) -> mfits f us m rk rq.
Proof.
  intros Hfr Hf Hep H. unfold pawn_candidates in H. cbn [abs s_board s_turn s_ep] in H. fold b in H.
  apply in_app_or in H. destruct H as [H|H].
  - (* pushes *)
    assert (G : forall t1, t1 < 64 -> t1 <> fr ->
              forall t2o, (forall t2, t2o = Some t2 -> t2 < 64 /\ t2 <> fr /\ (turn p = White -> 8 <= t2)) ->
              forall sr : bool,
              In m (if is_empty b t1
                    then (if last_rank (turn p) t1 then map (fun pr => mkMove Promo fr t1 Pawn NoPiece pr) promo_pieces
                          else [mkMove Normal fr t1 Pawn NoPiece NoPiece]) ++
                         (if sr then match t2o with Some t2 => if is_empty b t2 then [mkMove Double fr t2 Pawn NoPiece NoPiece] else [] | None => [] end else [])
                    else []) -> mfits f us m rk rq).
    { intros t1 Ht1 Hne t2o Ht2o sr G.
      destruct (is_empty b t1) eqn:Ee; [|exfalso; exact (in_nil G)]. apply is_empty_f in Ee; [|exact Ht1].
      apply in_app_or in G. destruct G as [G|G].
      - destruct (last_rank (turn p) t1).
        + apply in_map_iff in G. destruct G as [pr [<- Hpr]]. unfold mfits. cbn [m_type m_from m_to m_piece m_cap m_promo].
          repeat split; try assumption; try reflexivity; [apply promo_pieces_not_none; exact Hpr|congruence].
        + destruct G as [<-|[]]. unfold mfits. cbn [m_type m_from m_to m_piece m_cap m_promo]. repeat split; try assumption. congruence.
      - destruct sr; [|exfalso; exact (in_nil G)]. destruct t2o as [t2|]; [|exfalso; exact (in_nil G)].
        destruct (is_empty b t2) eqn:Ee2; [|exfalso; exact (in_nil G)]. destruct G as [<-|[]].
        destruct (Ht2o t2 eq_refl) as (Ht2 & Hne2 & Hw8). apply is_empty_f in Ee2; [|exact Ht2].
        unfold mfits. cbn [m_type m_from m_to m_piece m_cap m_promo]. repeat split; try assumption; try reflexivity; congruence. }
    unfold rankof in H. destruct (turn p) eqn:Et.
    + destruct (fr / 8 <? 7) eqn:E7; [|exfalso; exact (in_nil H)].
      refine (G (fr + 8) _ _ (if (fr + 8) / 8 <? 7 then Some (fr + 8 + 8) else None) _ (fr / 8 =? 1) H); try lia.
      intros t2 E. destruct ((fr + 8) / 8 <? 7) eqn:E8; inversion E; subst. repeat split; lia.
    + destruct (0 <? fr / 8) eqn:E0; [|exfalso; exact (in_nil H)].
      refine (G (fr - 8) _ _ (if 0 <? (fr - 8) / 8 then Some (fr - 8 - 8) else None) _ (fr / 8 =? 6) H); try lia.
      intros t2 E. destruct (0 <? (fr - 8) / 8) eqn:E8; inversion E; subst. repeat split; try lia. discriminate.
  - (* captures and en passant *)
    apply in_flat_map in H. destruct H as [to [Hto H]]. apply in_squares in Hto.
    destruct (piece_attacks b (turn p) Pawn fr to) eqn:Eatt; [|exfalso; exact (in_nil H)]. rewrite at_b in H by exact Hto.
    destruct (f to) as [[c cp]|] eqn:Eto.
    + destruct (negb (side_eqb c (turn p)) && negb (piece_eqb cp King)) eqn:Ec; [|exfalso; exact (in_nil H)].
      apply andb_true_iff in Ec. destruct Ec as [Ec _]. apply negb_true_iff, opp_of_neq in Ec. subst c.
      assert (Hne : fr <> to) by (intros E; subst to; rewrite Hf in Eto; inversion Eto; destruct (turn p); discriminate).
      destruct (last_rank (turn p) to).
      * apply in_map_iff in H. destruct H as [pr [<- Hpr]]. unfold mfits. cbn [m_type m_from m_to m_piece m_cap m_promo].
        repeat split; try assumption; try reflexivity. apply promo_pieces_not_none; exact Hpr.
      * destruct H as [<-|[]]. unfold mfits. cbn [m_type m_from m_to m_piece m_cap m_promo]. repeat split; assumption.
    + destruct (if ep p =? OffSq then None else Some (ep p)) as [e|] eqn:Eep; [|exfalso; exact (in_nil H)].
      destruct (e =? to) eqn:Ee; [|exfalso; exact (in_nil H)]. apply N.eqb_eq in Ee. subst e. destruct H as [<-|[]].
      unfold ep_ok in Hep. cbn [abs s_ep s_board s_turn] in Hep. rewrite Eep in Hep. fold b in Hep.
      apply andb_true_iff in Hep. destruct Hep as [Hxy Hbody]. apply andb_true_iff in Hxy. destruct Hxy as [Q0 Q1]. cbv zeta in Hbody.
      apply andb_true_iff in Hbody. destruct Hbody as [Hbody Q5]. apply andb_true_iff in Hbody. destruct Hbody as [Hbody Q4].
      apply andb_true_iff in Hbody. destruct Hbody as [Q2 Q3].
      assert (Hv : victim_sq (turn p) to < 64 /\ victim_sq (turn p) to = match turn p with White => to - 8 | Black => to + 8 end /\ victim_sq (turn p) to <> to).
      { unfold victim_sq, rankof in *. destruct (turn p).
        - assert (40 <= to) by lia. rewrite sq_south_eq by lia. lia.
        - assert (to < 24) by lia. rewrite sq_north_eq by lia. lia. }
      destruct Hv as (Hv64 & Hveq & Hvne). rewrite <- Hveq in Q2. rewrite at_b in Q2 by exact Hv64.
      destruct (f (victim_sq (turn p) to)) as [[c cp]|] eqn:Ev; [|discriminate]. destruct cp; try discriminate. apply side_eqb_eq in Q2. subst c.
      unfold mfits. cbn [m_type m_from m_to m_piece m_cap m_promo]. fold us. repeat split; try assumption; try reflexivity; try congruence.
      intros E. unfold us in *. rewrite E, Hf in Ev. inversion Ev. destruct (turn p); discriminate.
Qed.

(* castling *)
Lemma castle_fit mt i kd rd m :
  rooks_ok p ->
  castle_dest us mt = (kd, rd) -> kd < 64 -> rd < 64 -> kd <> rd ->
  castling_idx us mt = i ->
  right_ok b us (match mt with Ksc => true | _ => false end) true (if castling_get p i then Some (rook_from_get p i) else None) = true \/
  right_ok b us (match mt with Ksc => true | _ => false end) false (if castling_get p i then Some (rook_from_get p i) else None) = true ->
  In m (castle_candidate (abs p) mt (if castling_get p i then Some (rook_from_get p i) else None)) ->
  exists ksq, m = mkMove mt ksq (rook_from_get p i) King NoPiece NoPiece /\ ksq < 64 /\ rook_from_get p i < 64 /\
              f ksq = Some (us, King) /\ f (rook_from_get p i) = Some (us, Rook) /\
              (f kd = None \/ kd = ksq \/ kd = rook_from_get p i) /\ (f rd = None \/ rd = ksq \/ rd = rook_from_get p i).
Proof.
  intros Hr Hdest Hkd Hrd Hne Hi Hok H. unfold castle_candidate in H. cbn [abs s_board s_turn] in H. fold b us in H.
  destruct (castling_get p i); [|exfalso; exact (in_nil H)]. set (rsq := rook_from_get p i) in *.
  assert (Hrsq : rsq < 64).
  { unfold rsq, rook_from_get. destruct Hr as (H0 & H1 & H2 & H3). repeat match goal with |- context [match ?x with _ => _ end] => destruct x end; assumption. }
  destruct (find_king b us) as [ksq|] eqn:Ek; [|exfalso; exact (in_nil H)]. rewrite Hdest in H.
  match type of H with In _ (if ?c then _ else _) => destruct c eqn:Ec; [|exfalso; exact (in_nil H)] end. destruct H as [<-|[]].
  unfold find_king in Ek. apply find_some in Ek. destruct Ek as [Hk64 Hk]. apply in_squares in Hk64. rewrite at_b in Hk by exact Hk64.
  assert (Hfk : f ksq = Some (us, King)) by (destruct (f ksq) as [[c pc]|]; [destruct pc; try discriminate; apply side_eqb_eq in Hk; subst; reflexivity|discriminate]).
  assert (Hfr : f rsq = Some (us, Rook)).
  { assert (G : forall d, right_ok b us (match mt with Ksc => true | _ => false end) d (Some rsq) = true -> f rsq = Some (us, Rook)).
    { intros d G. unfold right_ok in G. destruct (find_king b us); [|discriminate].
      repeat (apply andb_true_iff in G; let H' := fresh "G" in destruct G as [G H']).
      rewrite at_b in G2 by exact Hrsq. destruct (f rsq) as [[c pc]|]; [|discriminate]. destruct pc; try discriminate. apply side_eqb_eq in G2. subst. reflexivity. }
    destruct Hok as [Hok|Hok]; eapply G; exact Hok. }
  exists ksq. split; [reflexivity|]. split; [exact Hk64|]. split; [exact Hrsq|]. split; [exact Hfk|]. split; [exact Hfr|].
  repeat (apply andb_true_iff in Ec; let H' := fresh "E" in destruct Ec as [Ec H']).
  assert (P : forall a d, d < 64 -> forallb (fun q => (q =? ksq) || (q =? rsq) || is_empty b q) (path_to a d) = true -> a = d \/ f d = None \/ d = ksq \/ d = rsq).
  { intros a d Hd Hall. unfold path_to in Hall. destruct (N.eqb_spec a d) as [->|Hnad]; [left; reflexivity|right].
    rewrite forallb_app in Hall. apply andb_true_iff in Hall. destruct Hall as [_ Hall]. cbn [forallb] in Hall. rewrite andb_true_r in Hall.
    apply orb_true_iff in Hall. destruct Hall as [Hall|Hall]; [apply orb_true_iff in Hall; destruct Hall as [Hall|Hall]; apply N.eqb_eq in Hall; tauto|].
    left. apply is_empty_f; assumption. }
  split.
  - destruct (P ksq kd Hkd E1) as [Z|[Z|[Z|Z]]]; [right; left; symmetry; exact Z|left; exact Z|right; left; exact Z|right; right; exact Z].
  - destruct (P rsq rd Hrd E0) as [Z|[Z|[Z|Z]]]; [right; right; symmetry; exact Z|left; exact Z|right; left; exact Z|right; right; exact Z].
Qed.
End Fits.

Lemma lc_parts dfrc sp : legal_consistent dfrc sp = true ->
  right_ok (s_board sp) White true dfrc (s_wk sp) = true /\ right_ok (s_board sp) White false dfrc (s_wq sp) = true /\
  right_ok (s_board sp) Black true dfrc (s_bk sp) = true /\ right_ok (s_board sp) Black false dfrc (s_bq sp) = true /\
  ep_ok sp = true.
Proof.
  unfold legal_consistent. intros H. cbv zeta in H.
  repeat (apply andb_true_iff in H; let H' := fresh "L" in destruct H as [H H']). repeat split; assumption.
Qed.

Theorem pseudo_moves_fit dfrc p m : rooks_ok p -> legal_consistent dfrc (abs p) = true -> In m (pseudo_moves (abs p)) ->
  mfits (cell_of p) (turn p) m (rook_from_get p (side_to_N (turn p) * 2)) (rook_from_get p (side_to_N (turn p) * 2 + 1)).
Proof.
  intros Hr Hlc H. destruct (lc_parts _ _ Hlc) as (R0 & R1 & R2 & R3 & Hep).
  cbn [abs s_board s_wk s_wq s_bk s_bq] in R0, R1, R2, R3.
  unfold pseudo_moves in H. cbn [abs s_board s_turn s_wk s_wq s_bk s_bq] in H.
  apply in_app_or in H. destruct H as [H|H].
  - apply in_flat_map in H. destruct H as [fr [Hfr H]]. apply in_squares in Hfr. rewrite (at_b p fr Hfr) in H.
    destruct (cell_of p fr) as [[c pc]|] eqn:Ef; [|destruct H].
    destruct (side_eqb c (turn p)) eqn:Ec; [|destruct H]. apply side_eqb_eq in Ec. subst c.
    destruct pc; try (apply (piece_candidates_fit p fr _ m _ _ Hfr Ef H)); try (apply (pawn_candidates_fit p fr m _ _ Hfr Ef Hep H)); try (exfalso; exact (in_nil H)).
  - assert (W : forall mt i, castling_idx (turn p) mt = i -> (mt = Ksc \/ mt = Qsc) ->
                right_ok (abs_board p) (turn p) (match mt with Ksc => true | _ => false end) dfrc (if castling_get p i then Some (rook_from_get p i) else None) = true ->
                In m (castle_candidate (abs p) mt (if castling_get p i then Some (rook_from_get p i) else None)) ->
                rook_from_get p i = (match mt with Ksc => rook_from_get p (side_to_N (turn p) * 2) | _ => rook_from_get p (side_to_N (turn p) * 2 + 1) end) ->
                mfits (cell_of p) (turn p) m (rook_from_get p (side_to_N (turn p) * 2)) (rook_from_get p (side_to_N (turn p) * 2 + 1))).
    { intros mt i Hi Hmt Hok Hin Hrk.
      destruct (castle_dest (turn p) mt) as [kd rd] eqn:Ed.
      assert (Hd : kd < 64 /\ rd < 64 /\ kd <> rd /\ kd = castle_king_to (castling_idx (turn p) mt) /\ rd = (match mt with Ksc => ksc_rook_to (turn p) | _ => qsc_rook_to (turn p) end)).
      { destruct Hmt as [-> | ->]; destruct (turn p); cbn in Ed; inversion Ed; subst; cbn; repeat split; lia. }
      destruct Hd as (Hkd & Hrd & Hne & Ekd & Erd).
      assert (Hor : right_ok (abs_board p) (turn p) (match mt with Ksc => true | _ => false end) true (if castling_get p i then Some (rook_from_get p i) else None) = true \/
                    right_ok (abs_board p) (turn p) (match mt with Ksc => true | _ => false end) false (if castling_get p i then Some (rook_from_get p i) else None) = true)
        by (destruct dfrc; [left|right]; exact Hok).
      destruct (castle_fit p mt i kd rd m Hr Ed Hkd Hrd Hne Hi Hor Hin) as (ksq & Em & Hk64 & Hr64 & Hfk & Hfr & Hkto & Hrto).
      subst m. unfold mfits. cbn [m_type m_from m_to m_piece m_cap m_promo].
      destruct Hmt as [-> | ->]; (split; [exact Hk64|]; split; [exact Hr64|]).
      - rewrite <- Hrk. replace (castle_king_to (side_to_N (turn p) * 2)) with kd by (rewrite Ekd; destruct (turn p); reflexivity). rewrite <- Erd.
        repeat split; try assumption; try reflexivity. intros E. rewrite E, Hfr in Hfk. discriminate.
      - rewrite <- Hrk. replace (castle_king_to (side_to_N (turn p) * 2 + 1)) with kd by (rewrite Ekd; destruct (turn p); reflexivity). rewrite <- Erd.
        repeat split; try assumption; try reflexivity. intros E. rewrite E, Hfr in Hfk. discriminate. }
    destruct (turn p) eqn:Et; apply in_app_or in H; destruct H as [H|H].
    + apply (W Ksc 0 eq_refl (or_introl eq_refl) R0 H eq_refl).
    + apply (W Qsc 1 eq_refl (or_intror eq_refl) R1 H eq_refl).
    + apply (W Ksc 2 eq_refl (or_introl eq_refl) R2 H eq_refl).
    + apply (W Qsc 3 eq_refl (or_intror eq_refl) R3 H eq_refl).
Qed.

(* every move the rules allow is of the shape the refinement theorems assume *)
Theorem spec_moves_fit dfrc p m : rooks_ok p -> legal_consistent dfrc (abs p) = true -> In m (spec_moves (abs p)) ->
  mfits (cell_of p) (turn p) m (rook_from_get p (side_to_N (turn p) * 2)) (rook_from_get p (side_to_N (turn p) * 2 + 1)).
Proof. intros Hr Hlc H. unfold spec_moves in H. apply filter_In in H. apply (pseudo_moves_fit dfrc p m Hr Hlc (proj1 H)). Qed.
